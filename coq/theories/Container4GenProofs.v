(** Container4GenProofs.v -- the source text of THIS tree says what the hand-written model PV.Container4 says (C13).

    Layer 1 (leaves, `gen_*_is_model`): for every function translator/gen_container.py reads, the generated Gallina function IS the
    statement sequence the model assumes -- closed by [reflexivity] (gen_eval, gen_lookup, gen_fill, gen_set, gen_prepareAll,
    gen_computeAll, gen_perms) or by a destruct of the pairs / the test involved (gen_isin, gen_create, gen_enumerate,
    gen_computeAll_nosplit, gen_split_maps, gen_computeAll_split).  They stop checking when fill no longer clears NonTrivialElements,
    when the fourth frequency or the sign factor of ElementWithPermFreq::operator() changes, when set registers another key, another
    permutation or under another condition, when the lookup no longer creates on a miss, when createElement takes its operators
    from other indices, when prepareAll / computeAll loop over another map or skip entries, when the colour root of
    computeAll_split is assigned differently ...
    Layer 2 (`*_src_is_model`): from the leaves, the functions of PV.Container4Gen equal those of PV.Container4 with the repaired
    fill ([fixed = true]); computeAll_split for ONE rank (rank 0 of 1: every component has this rank's colour, the rank is its own
    sender); histories by induction.
    Several ranks: [split_sender_has_colour] -- for every communicator size and number of components, the rank the distribution loop
    broadcasts a component from is a rank of the communicator that has the component's colour (so it did compute it), whenever that
    colour has a rank at all (C06: every_colour_nonempty_float); [split_sender_has_colour_upto_24]: without that hypothesis, complete
    check for P, n <= 24 by evaluation (primitive floats).  [split_every_rank_ready]: on every rank computeAll_split then returns
    normally and leaves every prepared component that has parts Computed (computed by the rank, or marked in the distribution loop).
    Layer 3: the theorems of Container4Proofs transported to the [..._src] definitions; props/Properties_C13_source.v states them.

    No axioms. *)
Require Import String.
Require Import ZArith Bool List Arith Lia Floats Ring Field.
Import ListNotations.
From PVgen Require Import Gen_Container4 Gen_SplitColors.
From PVgen Require Import Gen_C4Perms Gen_C4Eval Gen_C4IsIn Gen_C4Enumerate Gen_C4Fill Gen_C4Set Gen_C4Lookup Gen_C4CreateElement
                          Gen_C4PrepareAll Gen_C4ComputeAll Gen_C4ComputeAllNosplit Gen_C4ComputeAllSplit.
From PV Require Import Container4 Container4Spec Container4Proofs Container4Gen.
From PV Require EDSpec ChiSymmetry ChiSymmetryProofs ChiSymmetryContainer.
Local Open Scope Z_scope.

(** * Layers 1 and 2 *)


Lemma gen_perms_is_model :
  gen_permutations4 = permutations4 /\ gen_permutations4_declared_size = permutations4_declared_size.
Proof. split; reflexivity. Qed.

Lemma perm_at_src_is_model : forall k, perm_at_src k = perm_at k.
Proof. reflexivity. Qed.

Lemma gen_eval_is_model : forall (V : Type) (ev : Z -> Z -> Z -> V) (perm : nat -> nat) (sign : Z) (scale : Z -> V -> V) (n1 n2 n3 : Z),
  gen_eval V ev perm sign scale n1 n2 n3 =
  scale sign (ev (nth (perm 0%nat) [n1; n2; n3; n1 + n2 - n3] 0) (nth (perm 1%nat) [n1; n2; n3; n1 + n2 - n3] 0)
                 (nth (perm 2%nat) [n1; n2; n3; n1 + n2 - n3] 0)).
Proof. reflexivity. Qed.

Lemma perm_eval_src_is_model : forall (p : perm4) (n : triple), perm_eval_src p n = perm_eval p n.
Proof.
  intros p [[n1 n2] n3]. unfold perm_eval_src, perm_eval. rewrite gen_eval_is_model.
  cbv [freq_array eval_arg_slots eval_multiplies_sign fst snd nth]. rewrite Z.mul_1_r. reflexivity.
Qed.

Lemma eval_elem_src_is_model : forall (van : quad -> bool) (el : estore) (r : entry) (n : triple),
  eval_elem_src van el r n = eval_elem van el r n.
Proof.
  intros van el [e p] [[n1 n2] n3]. unfold eval_elem_src, eval_elem. rewrite gen_eval_is_model.
  unfold perm_eval. cbv [freq_array eval_arg_slots eval_multiplies_sign fst snd nth]. unfold elem_value.
  destruct (nth_error el e) as [[q0 [| |]]|]; cbn [scale_out]; try rewrite Z.mul_1_r; try reflexivity.
  destruct (van q0); cbn [scale_out]; try rewrite Z.mul_1_r; reflexivity.
Qed.

Lemma gen_isin_is_model : forall (st : cstate) (q : quad), isInContainer_src st q = isInContainer st q.
Proof. intros st q. unfold isInContainer_src, gen_isInContainer, emap_count, isInContainer. destruct (qfind q (emap st)); reflexivity. Qed.

(** the generated createElement IS: C1, C2 = annihilation operators of Index1, Index2; CX3, CX4 = creation operators of Index3, Index4;
    new TwoParticleGF(S, H, C1, C2, CX3, CX4, DM) *)
Lemma gen_createElement_is_model : forall (Key AnnOp CrOp Obj : Type) (Index : Key -> nat -> nat) (getA : nat -> AnnOp) (getC : nat -> CrOp)
                                          (new : AnnOp -> AnnOp -> CrOp -> CrOp -> Obj) (key : Key),
  gen_createElement Key AnnOp CrOp Obj Index getA getC new key =
  new (getA (Index key 0%nat)) (getA (Index key 1%nat)) (getC (Index key 2%nat)) (getC (Index key 3%nat)).
Proof. reflexivity. Qed.

Lemma gen_create_is_model : forall q : quad, created_quad_src q = q.
Proof. intros [[[a b] c] d]. reflexivity. Qed.

Lemma flat_map_single {A B} (f : A -> B) (l : list A) : flat_map (fun x => [f x]) l = map f l.
Proof. induction l as [|x t IH]; [reflexivity|]. cbn [flat_map map app]. rewrite IH. reflexivity. Qed.

Lemma flat_map_ext' {A B} (f g : A -> list B) (l : list A) : (forall x, f x = g x) -> flat_map f l = flat_map g l.
Proof. intros E. induction l as [|x t IH]; [reflexivity|]. cbn [flat_map]. rewrite E, IH. reflexivity. Qed.

Lemma gen_enumerate_is_model : forall nidx : nat, enumerate_src nidx = enumerate nidx.
Proof.
  intros nidx. unfold enumerate_src, gen_enumerateInitialIndices, enumerate. rewrite Nat.sub_0_r. apply (f_equal qset_of_list).
  apply flat_map_ext'; intro i1. apply flat_map_ext'; intro i2. apply flat_map_ext'; intro i3. apply flat_map_single.
Qed.


(** the generated set IS: create, owner entry with permutation 0, NonTrivialElements, then the three alias blocks
    (2134 / perm 6 when i1 <> i2; 1243 / perm 1 when i3 <> i4; 2143 / perm 7 when both) *)
Lemma gen_set_is_model : forall (st : cstate) (a b c d : nat),
  set_src st (a, b, c, d) =
  let e := length (elems st) in
  let r := emap_insert (fst (create_src st (a, b, c, d))) (a, b, c, d) (mkentry_src e 0) in
  (alias_block e (negb (a =? b)%nat && negb (c =? d)%nat) (b, a, d, c) 7
     (alias_block e (negb (c =? d)%nat) (a, b, d, c) 1
        (alias_block e (negb (a =? b)%nat) (b, a, c, d) 6 (nontriv_insert (fst r) (a, b, c, d) e))), snd r).
Proof. reflexivity. Qed.

Definition alias_block_m (e : nat) (c : bool) (k : quad) (idx : nat) (em : qmap (nat * perm4)) : qmap (nat * perm4) :=
  if c then match qfind k em with Some _ => em | None => qinsert k (e, perm_at idx) em end else em.

Lemma alias_block_spec (e : nat) (c : bool) (k : quad) (idx : nat) (st : cstate) :
  alias_block e c k idx st = mkState (alias_block_m e c k idx (emap st)) (nontriv st) (elems st).
Proof.
  destruct st as [em nt el]. unfold alias_block, alias_block_m. rewrite gen_isin_is_model. unfold isInContainer. cbn [emap nontriv elems].
  destruct c; [|reflexivity]. destruct (qfind k em); reflexivity.
Qed.

Lemma set_model_unfold : forall (st : cstate) (a b c d : nat),
  set_ st (a, b, c, d) =
  let e := length (elems st) in
  let em0 := qinsert (a, b, c, d) (e, perm_at 0) (emap st) in
  (mkState (alias_block_m e (negb (a =? b)%nat && negb (c =? d)%nat) (b, a, d, c) 7
              (alias_block_m e (negb (c =? d)%nat) (a, b, d, c) 1 (alias_block_m e (negb (a =? b)%nat) (b, a, c, d) 6 em0)))
           (qinsert (a, b, c, d) e (nontriv st)) (elems st ++ [((a, b, c, d), Constructed)]),
   match qfind (a, b, c, d) em0 with Some r => r | None => (e, perm_at 0) end).
Proof.
  intros st a b c d. unfold set_.
  cbv [set_aliases set_owner_perm_index set_inserts_nontrivial fold_left add_alias alias_cond alias_key forallb sel fst snd alias_block_m].
  rewrite !andb_true_r. reflexivity.
Qed.

Lemma set_src_is_model : forall (st : cstate) (q : quad), set_src st q = set_ st q.
Proof.
  intros st [[[a b] c] d]. rewrite gen_set_is_model, set_model_unfold. cbv zeta. rewrite !alias_block_spec.
  unfold create_src. rewrite gen_create_is_model. reflexivity.
Qed.


Lemma gen_lookup_is_model : forall (St Key Entry Iter : Type) (find : St -> Key -> Iter) (is_end : Iter -> bool) (second : Iter -> Entry)
                                   (isin : St -> Key -> bool) (set : St -> Key -> St * Entry) (st : St) (k : Key),
  gen_lookup St Key Entry Iter find is_end second isin set st k = if is_end (find st k) then set st k else (st, second (find st k)).
Proof. reflexivity. Qed.

Lemma lookup_src_is_model : forall (st : cstate) (q : quad), lookup_src st q = lookup st q.
Proof.
  intros st q. unfold lookup_src, lookup. rewrite gen_lookup_is_model.
  destruct (qfind q (emap st)); cbn [iter_is_end iter_second]; [reflexivity|apply set_src_is_model].
Qed.

Lemma fold_left_ext {A B} (f g : A -> B -> A) : (forall a b, f a b = g a b) -> forall l a, fold_left f l a = fold_left g l a.
Proof. intros E l. induction l as [|x t IH]; intro a; [reflexivity|]. cbn [fold_left]. rewrite E. apply IH. Qed.

(** the generated fill IS: ElementsMap.clear(); NonTrivialElements.clear(); II = (InitialIndices.size() == 0) ? all : InitialIndices;
    for every element of II in order: if (!isInContainer(k)) set(k) *)
Lemma gen_fill_is_model : forall (St Key Entry : Type) (clear_e clear_n : St -> St) (all : list Key) (isin : St -> Key -> bool)
                                 (set : St -> Key -> St * Entry) (ii : list Key) (st : St),
  gen_fill St Key Entry clear_e clear_n all isin set ii st =
  fold_left (fun st k => if negb (isin st k) then fst (set st k) else st)
            (if Nat.eqb (length ii) 0 then all else ii) (clear_n (clear_e st)).
Proof. reflexivity. Qed.

Lemma qinsert_not_nil {A} (k : quad) (v : A) (m : qmap A) : qinsert k v m <> [].
Proof.
  unfold qinsert. destruct (qfind k m) eqn:F.
  - destruct m; [discriminate F|discriminate].
  - destruct m as [|[k' v'] r]; cbn [qins]; [discriminate|]. destruct (quad_ltb k' k); discriminate.
Qed.

Lemma qset_of_list_nil_iff (qs : list quad) : length (qset_of_list qs) = 0%nat <-> qs = [].
Proof.
  split; [|intros ->; reflexivity]. destruct qs as [|q r]; [reflexivity|]. intros H. exfalso.
  unfold qset_of_list, qkeys in H. rewrite map_length in H. cbn [fold_left] in H.
  assert (G : forall (l : list quad) (acc : qmap unit), acc <> [] -> fold_left (fun acc q => qinsert q tt acc) l acc <> []).
  { induction l as [|x t IH]; intros acc N; cbn [fold_left]; [exact N|]. apply IH. apply qinsert_not_nil. }
  specialize (G r (qinsert q tt []) (qinsert_not_nil q tt [])).
  destruct (fold_left (fun acc q0 => qinsert q0 tt acc) r (qinsert q tt [])); [apply G; reflexivity|discriminate H].
Qed.

Lemma fill_src_is_model : forall (nidx : nat) (st : cstate) (qs : list quad), fill_src nidx st qs = fill true nidx st qs.
Proof.
  intros nidx st qs. unfold fill_src, fill_set_src, fill. rewrite gen_fill_is_model, gen_enumerate_is_model.
  assert (E : (if Nat.eqb (length (qset_of_list qs)) 0 then enumerate nidx else qset_of_list qs) =
              match qs with [] => enumerate nidx | _ => qset_of_list qs end).
  { destruct qs as [|q r]; [reflexivity|]. destruct (Nat.eqb (length (qset_of_list (q :: r))) 0) eqn:B; [|reflexivity].
    apply Nat.eqb_eq, qset_of_list_nil_iff in B. discriminate B. }
  rewrite E. unfold clear_emap, clear_nontriv. cbn [emap nontriv elems].
  apply fold_left_ext. intros s k. rewrite gen_isin_is_model, set_src_is_model. destruct (isInContainer s k); reflexivity.
Qed.


(** * Loops over elements with a pending outcome vs. run_seq *)
Lemma fold_left_map {A B C} (g : A -> B -> A) (h : C -> B) : forall l a,
  fold_left g (map h l) a = fold_left (fun a c => g a (h c)) l a.
Proof. induction l as [|x t IH]; intro a; [reflexivity|]. cbn [map fold_left]. apply IH. Qed.

Lemma lift_fold_pending (f : nat -> estore -> estore * cout) (ids : list nat) (s : cstate) (o : cout) :
  o <> OUnit -> fold_left (fun x e => lift_step f e x) ids (s, o) = (s, o).
Proof.
  intros N. induction ids as [|e r IH]; [reflexivity|]. cbn [fold_left]. unfold lift_step at 2. cbn [snd].
  destruct o; try exact IH. exfalso; apply N; reflexivity.
Qed.

Lemma lift_fold (f : nat -> estore -> estore * cout) (ids : list nat) : forall (st : cstate) (el : estore),
  fold_left (fun x e => lift_step f e x) ids (with_elems st el, OUnit) =
  let '(el', o) := run_seq f ids el in (with_elems st el', o).
Proof.
  induction ids as [|e r IH]; intros st el; [reflexivity|]. cbn [fold_left run_seq]. unfold lift_step at 2. cbn [snd fst with_elems elems].
  destruct (f e el) as [el1 o1]. change (with_elems (with_elems st el) el1) with (with_elems st el1).
  destruct o1; try (apply lift_fold_pending; discriminate). apply IH.
Qed.

Lemma with_elems_eta (st : cstate) : with_elems st (elems st) = st.
Proof. destruct st; reflexivity. Qed.

Lemma lift_fold_entries {A} (f : nat -> estore -> estore * cout) (g : A -> nat) (l : list A) (st : cstate) :
  fold_left (fun x kv => lift_step f (g kv) x) l (st, OUnit) =
  let '(el', o) := run_seq f (map g l) (elems st) in (with_elems st el', o).
Proof. rewrite <- (with_elems_eta st) at 1. rewrite <- lift_fold, fold_left_map. reflexivity. Qed.

(** * prepareAll, computeAll_nosplit *)
(** the generated prepareAll IS: fill(InitialIndices); for every entry of ElementsMap in key order: the three tolerances, prepare() *)
Lemma gen_prepareAll_is_model : forall (St Key Elem Entry : Type) (fill : list Key -> St -> St) (ee : St -> list (Key * Entry))
    (ne : St -> list (Key * Elem)) (el : Entry -> Elem) (tol : String.string -> Elem -> St -> St) (prep : Elem -> St -> St) (ii : list Key) (st : St),
  gen_prepareAll St Key Elem Entry fill ee ne el tol prep ii st =
  fold_left (fun st kv => prep (el (snd kv))
               (tol "MultiTermCoefficientTolerance"%string (el (snd kv))
                  (tol "CoefficientTolerance"%string (el (snd kv)) (tol "ReduceResonanceTolerance"%string (el (snd kv)) st))))
            (ee (fill ii st)) (fill ii st).
Proof. reflexivity. Qed.

Lemma prepare_all_src_is_model : forall (nidx : nat) (st : cstate) (qs : list quad),
  prepare_all_src nidx st qs = prepare_all true nidx st qs.
Proof.
  intros nidx st qs. unfold prepare_all_src, prepare_all. rewrite gen_prepareAll_is_model. cbn [fst snd].
  change (fill_set_src nidx st (qset_of_list qs)) with (fill_src nidx st qs). rewrite fill_src_is_model.
  unfold xemap. cbn [fst]. rewrite (lift_fold_entries prepare_elem (fun kv : quad * entry => entry_elem (snd kv))). reflexivity.
Qed.

(** the generated computeAll_nosplit IS: for every entry of ElementsMap in key order: out.insert(key, element.compute(clearTerms, freqs, comm)) *)
Lemma gen_computeAll_nosplit_is_model : forall (St Key Elem Entry Comm Table : Type) (ee : St -> list (Key * Entry)) (ne : St -> list (Key * Elem))
    (el : Entry -> Elem) (compute : Comm -> Elem -> St -> St * Table) (ins : Key -> Table -> St -> St) (comm : Comm) (st : St),
  gen_computeAll_nosplit St Key Elem Entry Comm Table ee ne el compute ins comm st =
  fold_left (fun st kv => ins (fst kv) (snd (compute comm (el (snd kv)) st)) (fst (compute comm (el (snd kv)) st))) (ee st) st.
Proof.
  intros. unfold gen_computeAll_nosplit. apply fold_left_ext. intros s kv. destruct (compute comm (el (snd kv)) s); reflexivity.
Qed.

Lemma compute_all_nosplit_src_is_model : forall st : cstate, compute_all_nosplit_src st = compute_all st false.
Proof.
  intros st. unfold compute_all_nosplit_src, compute_all. rewrite gen_computeAll_nosplit_is_model. cbn [fst snd].
  unfold xemap. cbn [fst]. rewrite (lift_fold_entries compute_elem (fun kv : quad * entry => entry_elem (snd kv))). reflexivity.
Qed.


(** * The colour maps of computeAll_split *)
(** the generated statements in front of the first barrier ARE these two loops, with the arithmetic of PVgen.Gen_SplitColors *)
Lemma gen_split_maps_is_model : forall P n : Z,
  gen_split_maps P n =
  fold_left (elem_body (gen_elem_color (gen_ncolors P n) n)) (gen_zrange 0 n)
            (fold_left (root_body (gen_proc_color_f P (gen_ncolors P n))) (gen_zrange 0 P) (nil, nil, nil)).
Proof.
  intros P n.
  change (gen_split_maps P n) with
    (let '(pc, ec, cr) := fold_left (root_body (gen_proc_color_f P (gen_ncolors P n))) (gen_zrange 0 P) (nil, nil, nil) in
     let '(pc, ec, cr) := fold_left (elem_body (gen_elem_color (gen_ncolors P n) n)) (gen_zrange 0 n) (pc, ec, cr) in (pc, ec, cr)).
  destruct (fold_left (root_body _) _ _) as [[pc ec] cr]. destruct (fold_left (elem_body _) _ _) as [[a b] c]. reflexivity.
Qed.

(** * Facts about the translator's std::map<int,int> and ranges *)
Lemma zm_get_set (m : gen_zmap) (k v x : Z) : gen_zm_get (gen_zm_set m k v) x = if Z.eqb x k then v else gen_zm_get m x.
Proof. unfold gen_zm_get, gen_zm_set. cbn [gen_zm_find]. destruct (Z.eqb x k); reflexivity. Qed.

Lemma zm_find_set (m : gen_zmap) (k v x : Z) : gen_zm_find (gen_zm_set m k v) x = if Z.eqb x k then Some v else gen_zm_find m x.
Proof. reflexivity. Qed.

Lemma zrange_In (lo hi i : Z) : In i (gen_zrange lo hi) <-> lo <= i < hi.
Proof.
  unfold gen_zrange. rewrite in_map_iff. split.
  - intros [k [E I]]. apply in_seq in I. lia.
  - intros H. exists (Z.to_nat (i - lo)). split; [lia|]. apply in_seq. lia.
Qed.

Lemma zrange_length (n : nat) : length (gen_zrange 0 (Z.of_nat n)) = n.
Proof. unfold gen_zrange. rewrite map_length, seq_length. lia. Qed.

Lemma zindexed_values {A} (l : list A) : map snd (gen_zindexed l) = l.
Proof.
  unfold gen_zindexed. generalize (zrange_length (length l)). generalize (gen_zrange 0 (Z.of_nat (length l))) as r.
  induction l as [|x t IH]; intros [|y r] H; try reflexivity; try discriminate H.
  cbn [combine map snd]. f_equal. apply IH. cbn [length] in H. lia.
Qed.

(** loops that write only one of the three maps *)
Lemma elem_fold_proj (g : Z -> Z) (l : list Z) : forall pc ec cr,
  fold_left (elem_body g) l (pc, ec, cr) = (pc, fold_left (fun ec i => gen_zm_set ec i (g i)) l ec, cr).
Proof. induction l as [|i t IH]; intros pc ec cr; [reflexivity|]. cbn [fold_left elem_body]. apply IH. Qed.

Lemma elem_fold_get (g : Z -> Z) (l : list Z) : forall ec k,
  gen_zm_get (fold_left (fun ec i => gen_zm_set ec i (g i)) l ec) k = if existsb (Z.eqb k) l then g k else gen_zm_get ec k.
Proof.
  induction l as [|i t IH]; intros ec k; [reflexivity|]. cbn [fold_left existsb]. rewrite IH, zm_get_set.
  destruct (existsb (Z.eqb k) t); [rewrite orb_true_r; reflexivity|]. rewrite orb_false_r.
  destruct (Z.eqb k i) eqn:E; [apply Z.eqb_eq in E; subst; reflexivity|reflexivity].
Qed.

(** * One rank: every component has the colour of rank 0 and rank 0 is its root *)
Lemma split_maps_one_rank : forall n : Z, 0 <= n ->
  split_proc_color 1 n 0 = 0 /\ (forall k, split_elem_color 1 n k = 0) /\ (forall k, split_sender 1 n k = 0).
Proof.
  intros n Hn. unfold split_sender, split_elem_color, split_proc_color. rewrite gen_split_maps_is_model.
  change (gen_zrange 0 1) with [0]. cbn [fold_left root_body].
  assert (C : gen_proc_color_f 1 (gen_ncolors 1 n) 0 = 0).
  { unfold gen_ncolors. destruct (Z.min_spec 1 n) as [[_ E]|[_ E]]; rewrite E; [reflexivity|].
    assert (n = 0 \/ n = 1) as [-> | ->] by lia; reflexivity. }
  rewrite C. cbn [gen_zm_count gen_zm_find negb]. rewrite elem_fold_proj. cbn [fst snd].
  assert (G : forall k, gen_zm_get (fold_left (fun ec i => gen_zm_set ec i (gen_elem_color (gen_ncolors 1 n) n i)) (gen_zrange 0 n) []) k = 0).
  { intros k. rewrite elem_fold_get. destruct (existsb (Z.eqb k) (gen_zrange 0 n)) eqn:B; [|reflexivity].
    apply existsb_exists in B. destruct B as [x [I E]]. apply Z.eqb_eq in E. subst x. apply zrange_In in I.
    unfold gen_elem_color, gen_ncolors. rewrite Z.min_l by lia. rewrite Z.mul_1_r. apply Z.quot_small. lia. }
  split; [reflexivity|]. split; [exact G|]. intros k. rewrite G. reflexivity.
Qed.


Lemma gen_computeAll_split_is_model : forall (P rank : Z) (np : nat -> Z) (st : cstate),
  compute_all_split_src P rank np st =
  let n := Z.of_nat (length (nontriv st)) in
  let x1 := fold_left (split_compute_body P rank n) (gen_zindexed (nontriv st)) (st, OUnit) in
  fold_left (split_distribute_body P rank n np) (gen_zindexed (xnontriv x1)) x1.
Proof.
  intros P rank np st. unfold compute_all_split_src, gen_computeAll_split, split_compute_body, split_distribute_body, split_sender.
  unfold split_elem_color, split_proc_color. change (xnontriv (st, OUnit)) with (nontriv st).
  destruct (gen_split_maps P (Z.of_nat (length (nontriv st)))) as [[pc ec] cr]. cbn [fst snd negb]. cbv zeta.
  match goal with |- fold_left _ (gen_zindexed (xnontriv ?X)) ?X = fold_left _ (gen_zindexed (xnontriv ?Y)) ?Y =>
    assert (E : X = Y) by (apply fold_left_ext; intros x ckv; destruct (Z.eqb _ _); reflexivity) end.
  rewrite E. apply fold_left_ext. intros x ckv. apply fold_left_ext. intros y _. destruct (negb _); reflexivity.
Qed.

Lemma fold_left_id {A B} (l : list B) (x : A) : fold_left (fun x _ => x) l x = x.
Proof. induction l as [|y t IH]; [reflexivity|exact IH]. Qed.

(** one rank: computeAll_split computes every entry of NonTrivialElements in key order, and the distribution loop marks nothing *)
Lemma compute_all_split_src_one_rank : forall (np : nat -> Z) (st : cstate), compute_all_split_src 1 0 np st = compute_all st true.
Proof.
  intros np st. rewrite gen_computeAll_split_is_model. cbv zeta.
  destruct (split_maps_one_rank (Z.of_nat (length (nontriv st))) (Nat2Z.is_nonneg _)) as [Hp [He Hs]].
  rewrite (fold_left_ext (split_compute_body 1 0 (Z.of_nat (length (nontriv st))))
                         (fun x ckv => lift_step compute_elem (snd (snd ckv)) x)).
  2:{ intros x ckv. unfold split_compute_body. rewrite He, Hp. reflexivity. }
  rewrite (fold_left_ext (split_distribute_body 1 0 (Z.of_nat (length (nontriv st))) np) (fun x _ => x)).
  2:{ intros x ckv. unfold split_distribute_body. rewrite Hs. cbn [Z.eqb negb]. apply fold_left_id. }
  rewrite fold_left_id. rewrite (lift_fold_entries compute_elem (fun ckv : Z * (quad * nat) => snd (snd ckv))).
  unfold compute_all, nontriv_ids. rewrite <- (map_map snd snd), zindexed_values. reflexivity.
Qed.

(** the generated computeAll IS the dispatch on `split` *)
Lemma gen_computeAll_is_model : forall (St R : Type) (f g : St -> R) (split : bool) (st : St),
  gen_computeAll St R f g split st = if split then f st else g st.
Proof. reflexivity. Qed.

Lemma compute_all_src_is_model : forall (np : nat -> Z) (st : cstate) (split : bool), compute_all_src np st split = compute_all st split.
Proof.
  intros np st split. unfold compute_all_src. rewrite gen_computeAll_is_model.
  destruct split; [apply compute_all_split_src_one_rank|apply compute_all_nosplit_src_is_model].
Qed.

(** * One call, histories *)
Lemma cstep_src_is_model : forall (van : quad -> bool) (nidx : nat) (np : nat -> Z) (st : cstate) (op : cop),
  cstep_src van nidx np st op = cstep true van nidx st op.
Proof.
  intros van nidx np st op. destruct op; cbn [cstep_src cstep]; rewrite ?fill_src_is_model, ?prepare_all_src_is_model, ?compute_all_src_is_model,
    ?lookup_src_is_model; try reflexivity.
  destruct (lookup st q) as [st1 r]. rewrite eval_elem_src_is_model. reflexivity.
Qed.

Lemma run_src_is_model : forall (van : quad -> bool) (nidx : nat) (np : nat -> Z) (ops : list cop),
  run_src van nidx np ops = run true van nidx ops.
Proof.
  intros van nidx np ops. unfold run_src, run. apply fold_left_ext. intros sg op. unfold rstep_src, rstep. rewrite cstep_src_is_model. reflexivity.
Qed.

Lemma eval_out_src_is_model : forall (van : quad -> bool) (nidx : nat) (np : nat -> Z) (st : cstate) (q : quad) (n : triple),
  eval_out_src van nidx np st q n = eval_out true van nidx st q n.
Proof. intros. unfold eval_out_src, eval_out. rewrite cstep_src_is_model. reflexivity. Qed.


(** * Several ranks: the sender of a component is a rank of the component's colour *)
Section Roots.
Variable f : Z -> Z.

(** after the ranks [done]: every one of them has its colour recorded, every recorded root is one of them and has the colour it is
    the root of, and the colour of every one of them has a root *)
Definition roots_inv (done : list Z) (pc cr : gen_zmap) : Prop :=
  (forall p, In p done -> gen_zm_find pc p = Some (f p)) /\
  (forall c r, gen_zm_find cr c = Some r -> In r done /\ f r = c) /\
  (forall p, In p done -> gen_zm_find cr (f p) <> None).

Lemma roots_inv_step (done : list Z) (pc ec cr : gen_zmap) (i : Z) :
  roots_inv done pc cr ->
  exists pc' cr', root_body f (pc, ec, cr) i = (pc', ec, cr') /\ roots_inv (i :: done) pc' cr'.
Proof.
  intros [I1 [I2 I3]]. cbn [root_body]. eexists. eexists. split; [reflexivity|]. split; [|split].
  - intros p Hp. rewrite zm_find_set. destruct (Z.eqb p i) eqn:E; [apply Z.eqb_eq in E; subst; reflexivity|].
    destruct Hp as [Hp|Hp]; [subst; rewrite Z.eqb_refl in E; discriminate|]. apply I1. exact Hp.
  - intros c r H. unfold gen_zm_count in H. destruct (gen_zm_find cr (f i)) eqn:F; cbn [negb] in H.
    + destruct (I2 _ _ H) as [A B]. split; [right; exact A|exact B].
    + rewrite zm_find_set in H. destruct (Z.eqb c (f i)) eqn:E.
      * apply Z.eqb_eq in E. inversion H. subst. split; [left; reflexivity|reflexivity].
      * destruct (I2 _ _ H) as [A B]. split; [right; exact A|exact B].
  - intros p Hp. unfold gen_zm_count. destruct (gen_zm_find cr (f i)) eqn:F; cbn [negb].
    + destruct Hp as [Hp|Hp]; [subst; rewrite F; discriminate|]. apply I3. exact Hp.
    + rewrite zm_find_set. destruct (Z.eqb (f p) (f i)) eqn:E; [discriminate|].
      destruct Hp as [Hp|Hp]; [subst; rewrite Z.eqb_refl in E; discriminate|]. apply I3. exact Hp.
Qed.

Lemma roots_inv_fold (l : list Z) : forall (done : list Z) (pc ec cr : gen_zmap),
  roots_inv done pc cr ->
  exists pc' cr', fold_left (root_body f) l (pc, ec, cr) = (pc', ec, cr') /\ roots_inv (rev l ++ done) pc' cr'.
Proof.
  induction l as [|i t IH]; intros done pc ec cr I; [exists pc, cr; split; [reflexivity|exact I]|].
  cbn [fold_left rev]. destruct (roots_inv_step done pc ec cr i I) as [pc1 [cr1 [E I1]]]. rewrite E.
  destruct (IH _ _ ec _ I1) as [pc2 [cr2 [E2 I2]]]. exists pc2, cr2. split; [exact E2|]. rewrite <- app_assoc. exact I2.
Qed.
End Roots.

Theorem split_sender_has_colour : forall (P n comp : Z),
  (exists p, 0 <= p < P /\ split_proc_color P n p = split_elem_color P n comp) ->
  0 <= split_sender P n comp < P /\ split_proc_color P n (split_sender P n comp) = split_elem_color P n comp.
Proof.
  intros P n comp. unfold split_sender, split_proc_color. generalize (split_elem_color P n comp) as c. intros c.
  rewrite gen_split_maps_is_model.
  destruct (roots_inv_fold (gen_proc_color_f P (gen_ncolors P n)) (gen_zrange 0 P) [] [] [] []) as [pc [cr [E [I1 [I2 I3]]]]].
  { split; [intros p []|split; [intros c0 r H; discriminate H|intros p []]]. }
  remember (fold_left (root_body _) _ _) as R eqn:HR. rewrite E. clear HR E R.
  rewrite elem_fold_proj. cbn [fst snd]. intros [p [Hp Hc]].
  assert (Hin : forall q, In q (rev (gen_zrange 0 P) ++ []) <-> 0 <= q < P).
  { intros q. rewrite app_nil_r, <- in_rev. apply zrange_In. }
  assert (Fp : gen_zm_find pc p = Some (gen_proc_color_f P (gen_ncolors P n) p)) by (apply I1, Hin; exact Hp).
  unfold gen_zm_get in Hc. rewrite Fp in Hc.
  assert (N : gen_zm_find cr c <> None) by (rewrite <- Hc; apply I3, Hin; exact Hp).
  destruct (gen_zm_find cr c) as [r|] eqn:Fr; [|exfalso; apply N; reflexivity].
  assert (G : gen_zm_get cr c = r) by (unfold gen_zm_get; rewrite Fr; reflexivity). rewrite G.
  destruct (I2 _ _ Fr) as [A B]. split; [apply Hin; exact A|]. unfold gen_zm_get. rewrite (I1 r A). exact B.
Qed.


(** complete check of the conclusion for small communicators: every component's sender is a rank of the communicator and has the
    component's colour (the maps are computed once per (P, n)) *)
Definition split_roots_ok_b (P n : Z) : bool :=
  let m := gen_split_maps P n in
  forallb (fun comp => let s := gen_zm_get (snd m) (gen_zm_get (snd (fst m)) comp) in
                       (0 <=? s) && (s <? P) && (gen_zm_get (fst (fst m)) s =? gen_zm_get (snd (fst m)) comp)) (gen_zrange 0 n).

Lemma split_roots_ok_upto_24 :
  forallb (fun P => forallb (fun n => split_roots_ok_b P n) (gen_zrange 1 25)) (gen_zrange 1 25) = true.
Proof. vm_compute. reflexivity. Qed.

Theorem split_sender_has_colour_upto_24 : forall P n comp : Z, 1 <= P <= 24 -> 1 <= n <= 24 -> 0 <= comp < n ->
  0 <= split_sender P n comp < P /\ split_proc_color P n (split_sender P n comp) = split_elem_color P n comp.
Proof.
  intros P n comp HP Hn Hc. assert (H := split_roots_ok_upto_24). rewrite forallb_forall in H.
  specialize (H P (proj2 (zrange_In 1 25 P) ltac:(lia))). rewrite forallb_forall in H.
  specialize (H n (proj2 (zrange_In 1 25 n) ltac:(lia))). unfold split_roots_ok_b in H. cbv zeta in H. rewrite forallb_forall in H.
  specialize (H comp (proj2 (zrange_In 0 n comp) Hc)). apply andb_prop in H. destruct H as [H H3]. apply andb_prop in H. destruct H as [H1 H2].
  unfold split_sender, split_proc_color, split_elem_color. split; [lia|]. apply Z.eqb_eq. exact H3.
Qed.


(** * Several ranks: what rank [rank] of [P] holds after computeAll_split *)

Lemma fold_filter {A B} (c : B -> bool) (F : A -> B -> A) : forall (l : list B) (x : A),
  fold_left (fun x b => if c b then F x b else x) l x = fold_left F (filter c l) x.
Proof. induction l as [|b t IH]; intro x; [reflexivity|]. cbn [fold_left filter]. destruct (c b); cbn [fold_left]; apply IH. Qed.

Lemma computed_mono (el el' : estore) (e : nat) : store_le el el' -> computed_in el e -> computed_in el' e.
Proof.
  intros [_ L] [q H]. destruct (L _ _ _ H) as [s [H' O]]. apply status_leb_Computed in O. subst s. exists q. exact H'.
Qed.

(** chi.setStatus(Computed) on a state without pending exception *)
Lemma set_status_spec (e : nat) (s : cstate) :
  exists el', set_status_src e (s, OUnit) = (with_elems s el', OUnit) /\ store_le (elems s) el' /\
              ((e < length (elems s))%nat -> computed_in el' e).
Proof.
  unfold set_status_src. cbn [fst snd]. destruct (nth_error (elems s) e) as [[q st0]|] eqn:E.
  - exists (upd e (q, Computed) (elems s)). split; [reflexivity|]. split.
    + eapply store_le_upd; [exact E|]. destruct st0; reflexivity.
    + intros L. exists q. apply nth_error_upd_same. exact L.
  - exists (elems s). split; [reflexivity|]. split; [apply store_le_refl|]. intros L. apply nth_error_None in E. lia.
Qed.

(** the loop over the parts of one component on a rank other than the sender *)
Lemma mark_loop (e : nat) (r : list Z) : forall s : cstate,
  exists el', fold_left (fun x (_ : Z) => set_status_src e x) r (s, OUnit) = (with_elems s el', OUnit) /\ store_le (elems s) el' /\
              (r <> [] -> (e < length (elems s))%nat -> computed_in el' e).
Proof.
  induction r as [|j t IH]; intros s.
  - exists (elems s). rewrite with_elems_eta. split; [reflexivity|]. split; [apply store_le_refl|]. intros N. exfalso. apply N. reflexivity.
  - cbn [fold_left]. destruct (set_status_spec e s) as [el1 [E1 [L1 C1]]]. rewrite E1.
    destruct (IH (with_elems s el1)) as [el2 [E2 [L2 C2]]]. cbn [with_elems elems] in *. exists el2.
    split; [exact E2|]. split; [eapply store_le_trans; eassumption|]. intros _ Hl. eapply computed_mono; [exact L2|]. apply C1. exact Hl.
Qed.

Section Rank.
Variables P rank n : Z.
Variable np : nat -> Z.

(** the distribution loop over a list of components *)
Lemma distribute_loop : forall (l : list (Z * (quad * nat))) (s : cstate),
  exists el', fold_left (split_distribute_body P rank n np) l (s, OUnit) = (with_elems s el', OUnit) /\ store_le (elems s) el' /\
              forall ckv, In ckv l -> rank <> split_sender P n (fst ckv) -> 0 < np (snd (snd ckv)) ->
                          (snd (snd ckv) < length (elems s))%nat -> computed_in el' (snd (snd ckv)).
Proof.
  induction l as [|ckv t IH]; intros s.
  - exists (elems s). rewrite with_elems_eta. split; [reflexivity|]. split; [apply store_le_refl|]. intros ckv [].
  - cbn [fold_left]. unfold split_distribute_body at 2.
    destruct (Z.eqb rank (split_sender P n (fst ckv))) eqn:B; cbn [negb].
    + rewrite fold_left_id. destruct (IH s) as [el' [E [L C]]]. exists el'. split; [exact E|]. split; [exact L|].
      intros c [<-|I] Hr; [apply Z.eqb_eq in B; contradiction|apply C; assumption].
    + destruct (mark_loop (snd (snd ckv)) (gen_zrange 0 (np (snd (snd ckv)))) s) as [el1 [E1 [L1 C1]]]. rewrite E1.
      destruct (IH (with_elems s el1)) as [el2 [E2 [L2 C2]]]. cbn [with_elems elems] in *. exists el2.
      split; [exact E2|]. split; [eapply store_le_trans; eassumption|].
      intros c [<-|I] Hr Hp Hl.
      * eapply computed_mono; [exact L2|]. apply C1; [|exact Hl]. intros N.
        assert (In 0 (gen_zrange 0 (np (snd (snd ckv))))) as I0 by (apply zrange_In; lia). rewrite N in I0. exact I0.
      * apply C2; try assumption. destruct L1 as [Len _]. rewrite <- Len. exact Hl.
Qed.
End Rank.


Lemma combine_seq_In {A} (f : nat -> Z) (x : A) : forall (l : list A) (a : nat),
  In x l -> exists k, (k < length l)%nat /\ In (f (a + k)%nat, x) (combine (map f (seq a (length l))) l).
Proof.
  induction l as [|y t IH]; intros a I; [destruct I|]. cbn [length seq map combine]. destruct I as [<-|I].
  - exists 0%nat. split; [lia|]. left. rewrite Nat.add_0_r. reflexivity.
  - destruct (IH (S a) I) as [k [Hk Hin]]. exists (S k). split; [lia|]. right. replace (a + S k)%nat with (S a + k)%nat by lia. exact Hin.
Qed.

Lemma zindexed_In {A} (x : A) (l : list A) :
  In x l -> exists i, 0 <= i < Z.of_nat (length l) /\ In (i, x) (gen_zindexed l).
Proof.
  intros I. unfold gen_zindexed, gen_zrange. replace (Z.to_nat (Z.of_nat (length l) - 0)) with (length l) by lia.
  destruct (combine_seq_In (fun k => 0 + Z.of_nat k) x l 0%nat I) as [k [Hk Hin]]. exists (0 + Z.of_nat (0 + k)). split; [lia|exact Hin].
Qed.

Lemma zindexed_snd_In {A} (c : Z * A) (l : list A) : In c (gen_zindexed l) -> In (snd c) l.
Proof. intros I. rewrite <- (zindexed_values l). apply in_map. exact I. Qed.

(** Every rank, every communicator size: when every component of NonTrivialElements has been prepared and every sender has its
    component's colour, computeAll_split returns normally on this rank, changes neither map, lowers no status, and leaves every component
    that has parts Computed -- computed by this rank (its colour) or marked in the distribution loop (another colour: the sender is then
    another rank). *)
Theorem split_every_rank_ready : forall (P rank : Z) (np : nat -> Z) (st : cstate),
  (forall e, In e (nontriv_ids st) -> exists q s, nth_error (elems st) e = Some (q, s) /\ status_leb Prepared s = true) ->
  (forall comp, 0 <= comp < Z.of_nat (length (nontriv st)) ->
     split_proc_color P (Z.of_nat (length (nontriv st))) (split_sender P (Z.of_nat (length (nontriv st))) comp) =
     split_elem_color P (Z.of_nat (length (nontriv st))) comp) ->
  exists el', compute_all_split_src P rank np st = (with_elems st el', OUnit) /\ store_le (elems st) el' /\
              forall k e, In (k, e) (nontriv st) -> 0 < np e -> computed_in el' e.
Proof.
  intros P rank np st H0 Hs. rewrite gen_computeAll_split_is_model. cbv zeta.
  set (n := Z.of_nat (length (nontriv st))) in *.
  set (c := fun ckv : Z * (quad * nat) => Z.eqb (split_elem_color P n (fst ckv)) (split_proc_color P n rank)).
  rewrite (fold_left_ext (split_compute_body P rank n)
             (fun x ckv => if c ckv then (fun x ckv => lift_step compute_elem (snd (snd ckv)) x) x ckv else x)) by reflexivity.
  rewrite fold_filter. rewrite (lift_fold_entries compute_elem (fun ckv : Z * (quad * nat) => snd (snd ckv))).
  set (ids1 := map (fun ckv : Z * (quad * nat) => snd (snd ckv)) (filter c (gen_zindexed (nontriv st)))).
  assert (Sub : forall e, In e ids1 -> In e (nontriv_ids st)).
  { intros e I. apply in_map_iff in I. destruct I as [ckv [<- I]]. apply filter_In in I. destruct I as [I _].
    unfold nontriv_ids. apply in_map. apply zindexed_snd_In. exact I. }
  pose proof (run_seq_compute_ok ids1 (elems st) (fun e I => H0 e (Sub e I))) as O1.
  destruct (run_seq compute_elem ids1 (elems st)) as [el1 o1] eqn:R1. cbn [snd] in O1. subst o1.
  pose proof (run_seq_le _ compute_elem_le _ _ _ _ R1) as L1.
  change (xnontriv (with_elems st el1, OUnit)) with (nontriv st).
  destruct (distribute_loop P rank n np (gen_zindexed (nontriv st)) (with_elems st el1)) as [el2 [E2 [L2 C2]]].
  cbn [with_elems elems] in *. rewrite E2. exists el2. split; [reflexivity|]. split; [eapply store_le_trans; eassumption|].
  intros k e I Hp. destruct (zindexed_In (k, e) (nontriv st) I) as [comp [Hc Hin]].
  destruct (c (comp, (k, e))) eqn:B.
  - eapply computed_mono; [exact L2|]. apply (run_seq_compute_unit ids1 (elems st) el1 R1).
    unfold ids1. apply in_map_iff. exists (comp, (k, e)). split; [reflexivity|]. apply filter_In. split; assumption.
  - apply (C2 (comp, (k, e)) Hin); cbn [fst snd]; [|exact Hp|].
    + intros Er. unfold c in B. cbn [fst] in B. rewrite <- (Hs comp Hc), <- Er, Z.eqb_refl in B. discriminate B.
    + destruct (H0 e) as [q [s [En _]]]; [unfold nontriv_ids; apply in_map_iff; exists (k, e); split; [reflexivity|exact I]|].
      destruct L1 as [Len _]. rewrite <- Len. apply nth_error_Some. congruence.
Qed.

(** ... with the sender hypothesis discharged by evaluation for up to 24 ranks and 24 components *)
Theorem split_every_rank_ready_upto_24 : forall (P rank : Z) (np : nat -> Z) (st : cstate),
  1 <= P <= 24 -> (length (nontriv st) <= 24)%nat ->
  (forall e, In e (nontriv_ids st) -> exists q s, nth_error (elems st) e = Some (q, s) /\ status_leb Prepared s = true) ->
  exists el', compute_all_split_src P rank np st = (with_elems st el', OUnit) /\ store_le (elems st) el' /\
              forall k e, In (k, e) (nontriv st) -> 0 < np e -> computed_in el' e.
Proof.
  intros P rank np st HP Hn H0. apply split_every_rank_ready; [exact H0|].
  intros comp Hc. apply split_sender_has_colour_upto_24; lia.
Qed.

(** the hypotheses are satisfiable and the conclusion is not vacuous: three ranks, two prepared components with parts, rank 0 *)
Example split_every_rank_example :
  let st := fst (prepare_all_src 2 init [(0, 0, 0, 0)%nat; (0, 1, 0, 1)%nat]) in
  nontriv_ids st = [0%nat; 1%nat] /\
  (forall e, In e (nontriv_ids st) -> exists q s, nth_error (elems st) e = Some (q, s) /\ status_leb Prepared s = true) /\
  map snd (elems (fst (compute_all_split_src 3 0 (fun _ => 1) st))) = [Computed; Computed] /\
  map snd (elems (fst (compute_all_split_src 3 2 (fun _ => 1) st))) = [Computed; Computed].
Proof.
  cbv zeta. split; [vm_compute; reflexivity|]. split; [|split; vm_compute; reflexivity].
  intros e I. vm_compute in I. destruct I as [<-|[<-|[]]]; vm_compute; eexists; eexists; split; reflexivity.
Qed.

(** * Layer 3: the theorems of C13 about the definitions built from the generated functions *)

Theorem perm_table_correct_src :
  length gen_permutations4 = 24%nat /\ gen_permutations4_declared_size = 24%nat /\
  NoDup (map fst gen_permutations4) /\ Forall perm_ok gen_permutations4.
Proof. destruct gen_perms_is_model as [E1 E2]. rewrite E1, E2. exact perm_table_correct. Qed.

Section Chi.
Variable V : Type.
Variable vneg : V -> V.
Variable vscale : Z -> V -> V.
Variable chi : quad -> triple -> V.
Hypothesis swap12 : swap12_law V vneg chi.
Hypothesis swap34 : swap34_law V vneg chi.
Hypothesis invol : neg_invol V vneg.
Hypothesis scale : scale_law V vneg vscale.

(** every entry the generated set enters for its new element -- the owner and each alias the source text registers -- returns chi
    of the key it is stored under, when evaluated by the generated operator() with the permutation table of this tree *)
Theorem set_entries_denote_src : forall (st : cstate) (q k : quad) (r : entry),
  qfind k (emap (fst (set_src st q))) = Some r -> qfind k (emap st) = None ->
  fst r = length (elems st) /\ entry_denotes_src V vscale chi (snd r) q k.
Proof.
  intros st q k r H N. rewrite set_src_is_model in H. destruct (set_emap_new st q k r H) as [H1|[_ [He Hn]]]; [congruence|].
  split; [exact He|]. destruct (alias_denotes V vneg vscale chi swap12 swap34 invol scale) as [T1 T2].
  intros n. rewrite perm_eval_src_is_model. destruct Hn as [[Ek Ep]|[req [pos [idx [I [C [Ek Ep]]]]]]]; subst k; rewrite Ep.
  - apply T1.
  - apply (T2 req pos idx I q C).
Qed.

Theorem eval_sound_src : forall (van : quad -> bool) (nidx : nat) (np : nat -> Z) (ops : list cop) (q : quad) (n : triple)
                                (sg : Z) (q0 : quad) (t : triple),
  eval_out_src van nidx np (fst (run_src van nidx np ops)) q n = OVal sg q0 t -> vscale sg (chi q0 t) = chi q n.
Proof.
  intros van nidx np ops q n sg q0 t H. rewrite run_src_is_model, eval_out_src_is_model in H.
  exact (eval_sound V vneg vscale chi swap12 swap34 invol scale true van nidx ops q n sg q0 t H).
Qed.

Theorem container_refines_spec_src : forall (van : quad -> bool) (nidx : nat) (np : nat -> Z) (ops : list cop) (q : quad) (n : triple),
  qfind q (snd (run_src van nidx np ops)) = Some Computed ->
  exists sg q0 t,
    cstep_src van nidx np (fst (run_src van nidx np ops)) (Eval q n) = (fst (run_src van nidx np ops), OVal sg q0 t) /\
    vscale sg (chi q0 t) = chi q n.
Proof.
  intros van nidx np ops q n H. rewrite run_src_is_model in *. rewrite cstep_src_is_model.
  exact (container_refines_spec V vneg vscale chi swap12 swap34 invol scale van nidx ops q n H).
Qed.

Theorem listed_elements_evaluable_src : forall (van : quad -> bool) (nidx : nat) (np : nat -> Z) (ops : list cop) (b : bool) (st' : cstate),
  cstep_src van nidx np (fst (run_src van nidx np ops)) (ComputeAll b) = (st', OUnit) ->
  forall q n, isInContainer_src st' q = true ->
  exists sg q0 t, cstep_src van nidx np st' (Eval q n) = (st', OVal sg q0 t) /\ vscale sg (chi q0 t) = chi q n.
Proof.
  intros van nidx np ops b st' H q n I. rewrite run_src_is_model, cstep_src_is_model in H. rewrite gen_isin_is_model in I.
  rewrite cstep_src_is_model. exact (listed_elements_evaluable V vneg vscale chi swap12 swap34 invol scale van nidx ops b st' H q n I).
Qed.
End Chi.

Theorem requested_are_listed_src : forall (van : quad -> bool) (nidx : nat) (np : nat -> Z) (ops : list cop) (qs : list quad) (q : quad),
  In q qs -> isInContainer_src (fst (run_src van nidx np (ops ++ [PrepareAll qs]))) q = true.
Proof. intros. rewrite run_src_is_model, gen_isin_is_model. apply requested_are_listed. assumption. Qed.

Theorem bulk_compute_succeeds_src : forall (van : quad -> bool) (nidx : nat) (np : nat -> Z) (ops : list cop) (qs : list quad) (b : bool),
  snd (cstep_src van nidx np (fst (run_src van nidx np (ops ++ [PrepareAll qs]))) (ComputeAll b)) = OUnit.
Proof. intros. rewrite run_src_is_model, cstep_src_is_model. apply bulk_compute_succeeds. Qed.

Theorem bulk_compute_succeeds_general_src : forall (van : quad -> bool) (nidx : nat) (np : nat -> Z) (ops : list cop) (b : bool),
  (forall k s, qfind k (snd (run_src van nidx np ops)) = Some s -> status_leb Prepared s = true) ->
  snd (cstep_src van nidx np (fst (run_src van nidx np ops)) (ComputeAll b)) = OUnit.
Proof. intros van nidx np ops b H. rewrite run_src_is_model in *. rewrite cstep_src_is_model. apply bulk_compute_succeeds_general. exact H. Qed.

Theorem ready_after_bulk_src : forall (van : quad -> bool) (nidx : nat) (np : nat -> Z) (ops : list cop) (qs : list quad) (b : bool) (q : quad),
  isInContainer_src (fst (run_src van nidx np (ops ++ [PrepareAll qs]))) q = true ->
  qfind q (snd (run_src van nidx np ((ops ++ [PrepareAll qs]) ++ [ComputeAll b]))) = Some Computed.
Proof. intros van nidx np ops qs b q H. rewrite run_src_is_model in *. rewrite gen_isin_is_model in H. apply ready_after_bulk. exact H. Qed.

Theorem ready_after_on_demand_src : forall (van : quad -> bool) (nidx : nat) (np : nat -> Z) (ops : list cop) (q : quad),
  snd (cstep_src van nidx np (fst (run_src van nidx np (ops ++ [PrepareElem q]))) (ComputeElem q)) = OUnit /\
  qfind q (snd (run_src van nidx np ((ops ++ [PrepareElem q]) ++ [ComputeElem q]))) = Some Computed.
Proof. intros. rewrite !run_src_is_model, cstep_src_is_model. apply ready_after_on_demand. Qed.

Theorem ready_stable_src : forall (van : quad -> bool) (nidx : nat) (np : nat -> Z) (ops : list cop) (op : cop) (q : quad),
  (forall qs, op <> Fill qs /\ op <> PrepareAll qs) ->
  qfind q (snd (run_src van nidx np ops)) = Some Computed ->
  qfind q (snd (run_src van nidx np (ops ++ [op]))) = Some Computed.
Proof. intros van nidx np ops op q H1 H2. rewrite run_src_is_model in *. apply ready_stable; assumption. Qed.

Theorem no_dangling_src : forall (van : quad -> bool) (nidx : nat) (np : nat -> Z) (ops : list cop) (op : cop),
  snd (cstep_src van nidx np (fst (run_src van nidx np ops)) op) <> OThrows Dangling.
Proof. intros. rewrite run_src_is_model, cstep_src_is_model. apply no_dangling. Qed.

(** the source text is the REPAIRED container: the history that refutes the unrepaired one evaluates *)
Theorem stale_history_evaluates_src :
  exists sg q0 t,
    eval_out_src (fun _ => false) 2 (fun _ => 1)
                 (fst (run_src (fun _ => false) 2 (fun _ => 1)
                               [PrepareAll [(0, 1, 0, 1)%nat]; PrepareAll [(0, 1, 0, 1)%nat]; ComputeAll true]))
                 (0, 1, 0, 1)%nat (0, 0, 0) = OVal sg q0 t.
Proof. eexists. eexists. eexists. vm_compute. reflexivity. Qed.

(** ... and with the Lehmann chi of PV.ChiSymmetry, both exchange symmetries discharged (regular eigen-data) *)
Theorem eval_sound_lehmann_src :
  forall (K : Type) (NO : EDSpec.numops K) (kinv : K -> K),
  field_theory (EDSpec.n0 K NO) (EDSpec.n1 K NO) (EDSpec.nadd K NO) (EDSpec.nmul K NO) (EDSpec.nsub K NO)
               (EDSpec.nopp K NO) (EDSpec.ndiv K NO) kinv (@eq K) ->
  (forall x, EDSpec.nabs K NO (EDSpec.nopp K NO x) = EDSpec.nabs K NO x) ->
  (forall x, EDSpec.nre_ltb K NO (EDSpec.n0 K NO) (EDSpec.nabs K NO x) = false -> x = EDSpec.n0 K NO) ->
  forall (n : nat) (D : ChiSymmetry.edata K), ChiSymmetry.edata_regular K NO n D ->
  forall (van : quad -> bool) (nidx : nat) (np : nat -> Z) (ops : list cop) (q : quad) (t : triple) (sg : Z) (q0 : quad) (t0 : triple),
  eval_out_src van nidx np (fst (run_src van nidx np ops)) q t = OVal sg q0 t0 ->
  ChiSymmetry.kscale K NO sg (ChiSymmetry.chi_lehmann K NO D q0 t0) = ChiSymmetry.chi_lehmann K NO D q t.
Proof.
  intros K NO kinv Kf ka nz n D Dreg van nidx np ops q t sg q0 t0 H. rewrite run_src_is_model, eval_out_src_is_model in H.
  exact (ChiSymmetryContainer.eval_sound_lehmann K NO kinv Kf ka nz n D Dreg true van nidx ops q t sg q0 t0 H).
Qed.

(** the hypothesis of [split_sender_has_colour] is satisfiable: 3 ranks, 2 components (ranks 0, 1 have colour 0, rank 2 colour 1) *)
Example split_sender_example :
  (exists p, 0 <= p < 3 /\ split_proc_color 3 2 p = split_elem_color 3 2 1) /\ split_sender 3 2 1 = 2 /\ split_sender 3 2 0 = 0.
Proof. split; [exists 2; split; [lia|vm_compute; reflexivity]|split; vm_compute; reflexivity]. Qed.
