(** From the parts of the susceptibility to the full Fock space (the counterpart of PV.GFFullProofs for C14):
      [susc_value_sum]      the value of the object is the sum of the double sums of its parts (C14 susc_part_exact part by part);
      [susc_blocks_sum]     that sum = the block-indexed quadruple sum
                              sum_{L,R} sum_{n in L, m in R} A[L n, R m] B[R m, L n] kernel(E_{R m} - E_{L n})
                            when the block structure is sound (GFFullProofs.blocks_sound, which is generic in the two operators);
      [susc_blocks_eq_full] the same with the global (flattened) data: the value equals [EDSpec.susc] on the assembled
                            eigenvalues, weights and matrices (GFFullProofs.assembled), INCLUDING the zero-pole term
                            beta * sum_{resonant n,m} A_nm B_mn w_n at the zero test of Susceptibility::operator().
    Exact form: MatrixElementTolerance drops exact zeros only, the comparator is total; the resonance tolerance stays a
    parameter and is the [tol] of EDSpec.susc. *)
Require Import Bool List Arith Lia Ring Ring_theory ZArith.
From PV Require Import EDSpec NumLit Sparse SparseProofs TermList TermListProofs GFPart SuscPart BigSum GFPartProofs GFFullProofs
     SuscPartProofs.
From PVgen Require Import Gen_C01.
Import ListNotations.

Section SuscFull.
Variable K : Type.
Variable NO : numops K.
Notation k0 := (n0 K NO).
Notation k1 := (n1 K NO).
Notation kadd := (nadd K NO).
Notation ksub := (nsub K NO).
Notation kmul := (nmul K NO).
Notation kdiv := (ndiv K NO).
Notation kopp := (nopp K NO).
Variable kinv : K -> K.
Hypothesis Kr : ring_theory k0 k1 kadd kmul ksub kopp (@eq K).
Hypothesis Kdiv : forall a b, kdiv a b = kmul a (kinv b).
Add Ring KringSuscFull : Kr.
Notation bsum := (bigsum K k0 kadd).
Notation cs_get := (cs_get K NO).

Let BS_fold := @fold_left_bigsum K k0 k1 kadd kmul ksub kopp Kr.
Let BS_ext := @bigsum_ext K k0 kadd.
Let BS_zero := @bigsum_zero K k0 k1 kadd kmul ksub kopp Kr.
Let BS_map := @bigsum_map K k0 kadd.
Let BS_filter := @bigsum_filter K k0 k1 kadd kmul ksub kopp Kr.

Variable T : tols K.
Hypothesis Hrel : forall R, susc_relevant K NO (t_matrix_element K T) R = false -> R = k0.
Hypothesis Hcmp : forall a b, susc_compare K NO (t_compare K T) a b = false -> susc_compare K NO (t_compare K T) b a = true.

(** * A. the object's value is the sum over its parts *)
Lemma scompute_parts_values fixed lenient beta z : forall ps outs,
  (forall p, In p ps -> part_wf K (snd p)) ->
  scompute_parts K NO fixed lenient T ps = WDone outs ->
  bsum outs (fun po => susc_part_value K NO (snd po) beta z) = bsum ps (fun p => susc_part_spec K NO kinv T (snd p) beta z).
Proof.
  induction ps as [|[lr inp] ps IH]; intros outs W E; cbn [scompute_parts] in E.
  - injection E as <-. reflexivity.
  - destruct (susc_part_compute K NO fixed lenient T inp) as [o| | |] eqn:C; cbn [wbind] in E; try discriminate E.
    destruct (scompute_parts K NO fixed lenient T ps) as [r| | |] eqn:R; cbn [wmap] in E; try discriminate E.
    injection E as <-. cbn [bigsum snd].
    rewrite (susc_part_exact K NO kinv Kr Kdiv T Hrel Hcmp fixed lenient inp (W (lr, inp) (or_introl eq_refl)) o beta z C).
    rewrite (IH r); [reflexivity| |reflexivity]. intros p Hp. apply W. right. exact Hp.
Qed.

Lemma susc_sum_bsum (parts : list ((nat * nat) * spart_out K)) beta z :
  susc_sum K NO parts beta z = bsum parts (fun po => susc_part_value K NO (snd po) beta z).
Proof. unfold susc_sum. rewrite BS_fold. ring. Qed.

Theorem susc_value_sum fixed lenient beta z ps outs :
  (forall p, In p ps -> part_wf K (snd p)) ->
  scompute_parts K NO fixed lenient T ps = WDone outs ->
  susc_value K NO outs None beta z = bsum ps (fun p => susc_part_spec K NO kinv T (snd p) beta z).
Proof. intros W E. unfold susc_value. rewrite susc_sum_bsum. apply (scompute_parts_values fixed lenient beta z ps outs W E). Qed.

(** * B. the block-indexed quadruple sum *)
Variable nb : nat.
Variable dim : nat -> nat.
Variable g : gf_in K.
(** full-space data, block-indexed: <L n| A |R m>, <R m| B |L n> *)
Variable Af : nat -> nat -> nat -> nat -> K.
Variable Bf : nat -> nat -> nat -> nat -> K.      (* Bf R m L n *)
Hypothesis BS : blocks_sound K NO nb dim g Af Bf.

(** the kernel of a pair of states (L n), (R m): resonant ? [z ~ 0] beta w_{L n} : (w_{R m} - w_{L n}) / (z - (E_{R m} - E_{L n})) *)
Definition sblock_kernel (beta z : K) (L R n m : nat) : K :=
  let P := ksub (nth m (g_E K g R) k0) (nth n (g_E K g L) k0) in
  if susc_is_zero_pole K NO (t_resonance K T) P then (if z_is_zero K NO z then kmul beta (nth n (g_W K g L) k0) else k0)
  else kmul (ksub (nth m (g_W K g R) k0) (nth n (g_W K g L) k0)) (kinv (ksub z P)).

Definition sblock_term (beta z : K) (L R n m : nat) : K :=
  kmul (kmul (Af L n R m) (Bf R m L n)) (sblock_kernel beta z L R n m).

Definition susc_blocks_spec (beta z : K) : K :=
  bsum (seq 0 nb) (fun L => bsum (seq 0 nb) (fun R =>
    bsum (seq 0 (dim L)) (fun n => bsum (seq 0 (dim R)) (fun m => sblock_term beta z L R n m)))).

Notation part_at := (part_at K g).

Lemma sblock_pair_sum beta z L R : L < nb -> R < nb ->
  bsum (seq 0 (dim L)) (fun n => bsum (seq 0 (dim R)) (fun m => sblock_term beta z L R n m)) =
  if memb (L, R) (g_cl K g) && memb (L, R) (g_cxr K g) then susc_part_spec K NO kinv T (part_at (L, R)) beta z else k0.
Proof.
  intros HL HR. destruct (memb (L, R) (g_cl K g)) eqn:M1; destruct (memb (L, R) (g_cxr K g)) eqn:M2; cbn [andb].
  - apply memb_in in M1. apply memb_in in M2.
    destruct (selected_part K NO nb dim g Af Bf BS L R M1 M2) as [a [b [E [Ea [Eb [_ [Oa Ia]]]]]]].
    unfold GFFullProofs.part_at. rewrite E. cbn [snd]. unfold susc_part_spec. cbn [p_C p_CX]. rewrite Oa, Ia.
    apply BS_ext. intros n Hn. apply in_seq in Hn. apply BS_ext. intros m Hm. apply in_seq in Hm.
    unfold sblock_term.
    rewrite (bs_C_restr K NO nb dim g Af Bf BS L R n m) by lia. rewrite (bs_CX_restr K NO nb dim g Af Bf BS L R n m) by lia.
    apply memb_in in M1. apply memb_in in M2. rewrite M1, M2, Ea, Eb. reflexivity.
  - apply BS_zero. intros n Hn. apply in_seq in Hn. apply BS_zero. intros m Hm. apply in_seq in Hm.
    unfold sblock_term. rewrite (bs_CX_restr K NO nb dim g Af Bf BS L R n m) by lia. rewrite M2. ring.
  - apply BS_zero. intros n Hn. apply in_seq in Hn. apply BS_zero. intros m Hm. apply in_seq in Hm.
    unfold sblock_term. rewrite (bs_C_restr K NO nb dim g Af Bf BS L R n m) by lia. rewrite M1. ring.
  - apply BS_zero. intros n Hn. apply in_seq in Hn. apply BS_zero. intros m Hm. apply in_seq in Hm.
    unfold sblock_term. rewrite (bs_C_restr K NO nb dim g Af Bf BS L R n m) by lia. rewrite M1. ring.
Qed.

(** the sum over the parts that Susceptibility::compute() makes = the block-indexed quadruple sum over the full space *)
Theorem susc_blocks_sum fixed lenient beta z parts :
  susc_compute K NO fixed lenient T g = WDone parts -> susc_value K NO parts None beta z = susc_blocks_spec beta z.
Proof.
  unfold susc_compute.
  rewrite (gf_prepare_spec K g (bs_cl_sorted _ _ _ _ _ _ _ BS) (bs_cxr_sorted _ _ _ _ _ _ _ BS)).
  set (sel := filter (fun lr => g_ret K g (fst lr) || g_ret K g (snd lr)) (stripes_spec (g_cl K g) (g_cxr K g))).
  assert (Esel : sel = stripes_spec (g_cl K g) (g_cxr K g)).
  { unfold sel. apply filter_all_true. intros lr _. rewrite (bs_retained _ _ _ _ _ _ _ BS). reflexivity. }
  assert (Hsel : forall lr, In lr sel -> In lr (g_cl K g) /\ In lr (g_cxr K g)).
  { intros [L R] H. rewrite Esel in H. apply in_stripes_spec in H. exact H. }
  rewrite (all_some_mkpart K NO nb dim g Af Bf BS sel Hsel). intros E.
  rewrite (susc_value_sum fixed lenient beta z (map (fun lr => (lr, part_at lr)) sel) parts) ; [| |exact E].
  2:{ intros p Hp. apply in_map_iff in Hp. destruct Hp as [[L R] [<- Hin]]. cbn [snd].
      destruct (Hsel _ Hin) as [H1 H2]. destruct (selected_part K NO nb dim g Af Bf BS L R H1 H2) as [a [b [Em [_ [_ [W _]]]]]].
      unfold GFFullProofs.part_at. rewrite Em. exact W. }
  rewrite BS_map. cbn [snd]. rewrite Esel. unfold stripes_spec. rewrite BS_filter.
  rewrite (sum_over_pairs K NO Kr nb (g_cl K g)).
  - unfold susc_blocks_spec. apply BS_ext. intros L HL. apply in_seq in HL. apply BS_ext. intros R HR. apply in_seq in HR.
    rewrite (sblock_pair_sum beta z L R) by lia. fold (memb (L, R) (g_cxr K g)).
    destruct (memb (L, R) (g_cl K g)); destruct (memb (L, R) (g_cxr K g)); reflexivity.
  - apply ksorted_nodup. exact (bs_cl_sorted _ _ _ _ _ _ _ BS).
  - intros [L R] H. exact (bs_cl_range _ _ _ _ _ _ _ BS L R H).
Qed.

(** * C. the flattened (global) data: EDSpec.susc *)
Variables (E w : list K) (Am Bm : list (list K)).
Hypothesis AS : assembled K NO nb dim g Af Bf E w Am Bm.
Notation off := (off dim).

Theorem susc_full_is_blocks beta z :
  susc K NO beta (t_resonance K T) E w Am Bm z (z_is_zero K NO z) = susc_blocks_spec beta z.
Proof.
  unfold susc.
  rewrite (ksum_idx K NO Kr (fun n row => ksum K NO (idx row) (fun mc =>
             if nre_ltb K NO (nabs K NO (ksub (nth (fst mc) E k0) (nth n E k0))) (t_resonance K T)
             then (if z_is_zero K NO z then kmul (kmul beta (kmul (snd mc) (mget K NO Bm (fst mc) n))) (nth n w k0) else k0)
             else kdiv (kmul (kmul (snd mc) (mget K NO Bm (fst mc) n)) (ksub (nth (fst mc) w k0) (nth n w k0)))
                       (ksub z (ksub (nth (fst mc) E k0) (nth n E k0))))) [] Am).
  rewrite (as_rows _ _ _ _ _ _ _ _ _ _ _ AS), (bsum_blocks K NO Kr dim). unfold susc_blocks_spec.
  apply BS_ext. intros L HL. apply in_seq in HL.
  transitivity (bsum (seq 0 (dim L)) (fun n => bsum (seq 0 nb) (fun R => bsum (seq 0 (dim R)) (fun m => sblock_term beta z L R n m)))).
  2:{ rewrite (bigsum_swap K k0 k1 kadd kmul ksub kopp Kr). reflexivity. }
  apply BS_ext. intros n Hn. apply in_seq in Hn.
  pose proof (off_mono dim L nb ltac:(lia)) as HoL.
  rewrite (ksum_idx K NO Kr (fun m c =>
             if nre_ltb K NO (nabs K NO (ksub (nth m E k0) (nth (off L + n) E k0))) (t_resonance K T)
             then (if z_is_zero K NO z then kmul (kmul beta (kmul c (mget K NO Bm m (off L + n)))) (nth (off L + n) w k0) else k0)
             else kdiv (kmul (kmul c (mget K NO Bm m (off L + n))) (ksub (nth m w k0) (nth (off L + n) w k0)))
                       (ksub z (ksub (nth m E k0) (nth (off L + n) E k0)))) k0 (nth (off L + n) Am [])).
  rewrite (as_cols _ _ _ _ _ _ _ _ _ _ _ AS) by lia. rewrite (bsum_blocks K NO Kr dim).
  apply BS_ext. intros R HR. apply in_seq in HR. apply BS_ext. intros m Hm. apply in_seq in Hm.
  unfold sblock_term, sblock_kernel. cbv zeta.
  rewrite <- (as_C _ _ _ _ _ _ _ _ _ _ _ AS L R n m) by lia. rewrite <- (as_CX _ _ _ _ _ _ _ _ _ _ _ AS L R n m) by lia.
  rewrite (as_E _ _ _ _ _ _ _ _ _ _ _ AS L n), (as_E _ _ _ _ _ _ _ _ _ _ _ AS R m),
          (as_w _ _ _ _ _ _ _ _ _ _ _ AS L n), (as_w _ _ _ _ _ _ _ _ _ _ _ AS R m) by lia.
  unfold mget. unfold susc_is_zero_pole.
  destruct (nre_ltb K NO (nabs K NO (ksub (nth m (g_E K g R) k0) (nth n (g_E K g L) k0))) (t_resonance K T)).
  - destruct (z_is_zero K NO z); ring.
  - rewrite Kdiv. ring.
Qed.

(** the headline: for a sound block structure and assembled global data, the value the library's algorithm computes
    (any mode of the loops that returns; exact form) is the full-space sum of the specification, zero-pole term included *)
Theorem susc_blocks_eq_full fixed lenient beta z parts :
  susc_compute K NO fixed lenient T g = WDone parts ->
  susc_value K NO parts None beta z = susc K NO beta (t_resonance K T) E w Am Bm z (z_is_zero K NO z).
Proof. intros H. rewrite susc_full_is_blocks. apply (susc_blocks_sum fixed lenient beta z parts H). Qed.

End SuscFull.
