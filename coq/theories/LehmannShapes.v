(** LehmannShapes.v -- the vocabulary in which translator/gen_lehmann.py describes the CONTROL STRUCTURE of the Lehmann-sum
    code of pomerol (properties C01, C14, C02): the two-iterator merge loops over compressed sparse matrices
    (GreensFunctionPart::compute, SusceptibilityPart::compute, chaseIndices, TwoParticleGFPart::compute), what is done at a
    matched position (term created / zero-pole weight accumulated), TermList::add_term, TermList::operator(), the sums over
    parts of GreensFunction / Susceptibility / TwoParticleGF, addMultiterm, TwoParticleGFPart::operator().

    The generated files coq/gen/Gen_Leh*.v say, in these terms, what the source text of the tree under test does, statement
    by statement; PV.LehmannGen interprets the descriptions (the [..._src] functions) and PV.LehmannGenProofs proves that the
    description of THIS tree is the one the hand-written models PV.Sparse / PV.GFPart / PV.SuscPart / PV.TermList / PV.Chi follow.

    Hand-written; nothing here computes. *)
Require Import List Bool ZArith.

(** * 1. Loops over two Eigen InnerIterators
    The two iterators of a merge loop are named by ROLE: [ItA] walks a RowMajor matrix (Cinner, Ainner, the `ket` iterators),
    [ItB] a ColMajor one (CXinner, Binner, the `bra` iterators); inside chaseIndices ItA is the first parameter, ItB the second. *)
Inductive itr : Set := ItA | ItB.
Inductive cmpop : Set := CmpLt | CmpLe | CmpEq | CmpNe | CmpGt | CmpGe.
Inductive ival : Set :=
| IvLocal (i : itr)            (* the local that was initialised with i.index() *)
| IvOuter                      (* the variable of the enclosing for loop *)
| IvRead (i : itr).            (* a fresh read QuantumState(i.index()) *)
Inductive icond : Set :=
| IcValid (i : itr)            (* `i` in a boolean context: InnerIterator::operator bool *)
| IcCmp (c : cmpop) (a b : ival)
| IcAnd (a b : icond)          (* && : b is not evaluated when a is false *)
| IcOr (a b : icond)
| IcNot (a : icond).
Inductive wstmt : Set :=
| WsReadIndex (i : itr)                      (* QuantumState x = i.index(); *)
| WsIf (c : icond) (then_ else_ : list wstmt)
| WsAdvance (i : itr)                        (* ++i; *)
| WsFor (c : icond) (i : itr)                (* for(; c; ++i); *)
| WsBody (n : nat)                           (* the n-th maximal run of statements that do not touch the iterators *)
| WsReturn (b : bool)                        (* return b;   (chaseIndices) *)
| WsIfChase (then_ : list wstmt)             (* if(chaseIndices(ItA, ItB)) { then_ } *)
| WsPush (v : ival).                         (* <index list>.push_back(v); *)

(** the `for(index1 = FIRST; index1 CMP <matrix of iterator M>.outerSize(); ++index1)` around a merge loop, the
    `while(COND) { BODY }` inside it; both iterators are constructed on the outer index index1 *)
Record merge_nest : Set := mk_merge_nest {
  mn_first : nat;
  mn_cmp : cmpop;
  mn_bound : itr;
  mn_while : icond;
  mn_body : list wstmt
}.

(** * 2. What GreensFunctionPart::compute / SusceptibilityPart::compute do at a matched position
    Expressions are Gallina functions of the environment of the loop body and of the K-valued locals declared so far
    (numbered in declaration order; a local declared inside a branch is dropped at the end of the branch). *)
Section MatchBody.
Variable K : Type.
Record menv : Type := mk_menv {
  me_index1 : nat;             (* the outer index *)
  me_idxA : nat;               (* the local holding ItA.index() *)
  me_idxB : nat;               (* the local holding ItB.index() *)
  me_va : K;                   (* ItA.value() *)
  me_vb : K;                   (* ItB.value() *)
  me_wO : nat -> K;            (* DMpartOuter.getWeight *)
  me_wI : nat -> K;            (* DMpartInner.getWeight *)
  me_eO : nat -> K;            (* HpartOuter.getEigenValue *)
  me_eI : nat -> K;            (* HpartInner.getEigenValue *)
  me_tol_me : K;               (* MatrixElementTolerance *)
  me_tol_rr : K;               (* ReduceResonanceTolerance *)
  me_blkO : nat;               (* HpartOuter.getBlockNumber() *)
  me_blkI : nat                (* HpartInner.getBlockNumber() *)
}.
Definition mexp : Type := menv -> (nat -> K) -> K.
Definition mcond : Type := menv -> (nat -> K) -> bool.
Inductive mstmt : Type :=
| MsLet (f : mexp)                                   (* ComplexType / RealType x = f; *)
| MsIf (c : mcond) (then_ else_ : list mstmt)
| MsAddTerm (residue pole : mexp)                    (* Terms.add_term(Term(residue, pole)); *)
| MsZeroAdd (w : mexp).                              (* ZeroPoleWeight += w; *)
Inductive mevent : Type :=
| MeAdd (residue pole : K)
| MeZero (w : K).
End MatchBody.
Arguments mk_menv {K}.
Arguments me_index1 {K}. Arguments me_idxA {K}. Arguments me_idxB {K}. Arguments me_va {K}. Arguments me_vb {K}.
Arguments me_wO {K}. Arguments me_wI {K}. Arguments me_eO {K}. Arguments me_eI {K}. Arguments me_tol_me {K}. Arguments me_tol_rr {K}.
Arguments me_blkO {K}. Arguments me_blkI {K}.
Arguments MsLet {K}. Arguments MsIf {K}. Arguments MsAddTerm {K}. Arguments MsZeroAdd {K}.
Arguments MeAdd {K}. Arguments MeZero {K}.

(** * 3. TermList::add_term(term) *)
Inductive at_cond : Set :=
| AcInserted                   (* res.second *)
| AcNegligible (plus : nat)    (* is_negligible(reduced, data.size() + plus) *)
| AcNot (c : at_cond).
Inductive at_stmt : Set :=
| AtSumInit                    (* TermType sum = term; *)
| AtInsert                     (* res = data.insert(sum); *)
| AtIf (c : at_cond) (then_ else_ : list at_stmt)
| AtReturn                     (* return; *)
| AtReducedInit                (* TermType reduced = *res.first; *)
| AtReducedAddSum              (* reduced += sum; *)
| AtErase                      (* data.erase(res.first); *)
| AtSumAssign                  (* sum = reduced; *)
| AtLoop (body : list at_stmt). (* for(;;) { body } *)

(** * 4. TermList::operator()(args): `res = INIT; for(it over data, forward) res OP= ( *it)(args); return res;` *)
Inductive acc_op : Set := AccPlus | AccMinus | AccAssign.
Record tl_eval_shape : Set := mk_tl_eval {
  te_init_zero : bool;         (* ComplexType res = 0 *)
  te_forward : bool;           (* begin() .. end(), ++it *)
  te_op : acc_op;              (* res += *)
  te_all_args : bool           (* the term is called with all the parameters of the operator, in order *)
}.

(** * 5. Values: sums over the parts, subtraction of the disconnected part
    `Value` is the one ComplexType local; expressions are functions of the environment below. *)
Section ValueStmts.
Variable K : Type.
Record venv : Type := mk_venv {
  ve_arg : K;                  (* z or tau *)
  ve_beta : K;
  ve_aveA : K;
  ve_aveB : K
}.
Inductive vcond : Type :=
| VcVanishing                  (* Vanishing *)
| VcSubtract                   (* SubtractDisconnected *)
| VcNot (c : vcond)
| VcLeaf (f : venv -> bool).   (* a test on the argument, e.g. abs(z) < 1e-15 *)
Inductive vstmt : Type :=
| VsInit                                     (* ComplexType Value = 0; *)
| VsIf (c : vcond) (then_ else_ : list vstmt)
| VsReturnZero                               (* return 0; *)
| VsReturnValue                              (* return Value; *)
| VsForParts (op : acc_op)                   (* for(iter over parts, forward) Value op= <part>(arg); *)
| VsSub (f : venv -> K).                     (* Value -= f; *)
End ValueStmts.
Arguments mk_venv {K}. Arguments ve_arg {K}. Arguments ve_beta {K}. Arguments ve_aveA {K}. Arguments ve_aveB {K}.
Arguments VcVanishing {K}. Arguments VcSubtract {K}. Arguments VcNot {K}. Arguments VcLeaf {K}.
Arguments VsInit {K}. Arguments VsIf {K}. Arguments VsReturnZero {K}. Arguments VsReturnValue {K}. Arguments VsForParts {K}. Arguments VsSub {K}.

(** * 6. Which term list a part's call operator evaluates with which arguments *)
Inductive part_arg : Set :=
| PaArg (n : nat)              (* the n-th parameter of the operator (after the frequency permutation, for the 2PGF part) *)
| PaBeta                       (* the member beta *)
| PaReduceResonanceTolerance   (* the member ReduceResonanceTolerance *)
| PaDefault.                   (* the argument is left out: the default value of the callee's parameter *)

(** * 7. TwoParticleGFPart::addMultiterm: K-valued locals numbered in declaration order (parameters come first:
    Coeff beta Ei Ej Ek El Wi Wj Wk Wl are 0..9), the tolerance member is a separate argument *)
Section Multiterm.
Variable K : Type.
Definition texp : Type := K -> (nat -> K) -> K.          (* CoefficientTolerance, locals *)
Definition tcond : Type := K -> (nat -> K) -> bool.
Inductive tstmt : Type :=
| TsLet (f : texp)
| TsIf (c : tcond) (then_ else_ : list tstmt)
| TsAddNonRes (coeff p1 p2 p3 : texp) (isz4 : bool)            (* NonResonantTerms.add_term(NonResonantTerm(..)) *)
| TsAddRes (rescoeff nonrescoeff p1 p2 p3 : texp) (isz1z2 : bool).  (* ResonantTerms.add_term(ResonantTerm(..)) *)
End Multiterm.
Arguments TsLet {K}. Arguments TsIf {K}. Arguments TsAddNonRes {K}. Arguments TsAddRes {K}.

(** * 8. TwoParticleGFPart::operator()(z1, z2, z3) *)
Section PartEval.
Variable K : Type.
Record tp_eval_shape : Type := mk_tp_eval {
  pe_frequencies : K -> K -> K -> list K;    (* ComplexType Frequencies[3] = {...} *)
  pe_slots : list nat;                       (* z_k = Frequencies[Permutation.perm[slot_k]] *)
  pe_status_checked : bool;                  (* if (Status != Computed) throw ...;  in front of the return *)
  pe_nonres_args : list part_arg;            (* NonResonantTerms(...) *)
  pe_res_args : list part_arg;               (* ResonantTerms(...) *)
  pe_combine : acc_op                        (* return <nonres> + <res> *)
}.
End PartEval.
Arguments mk_tp_eval {K}. Arguments pe_frequencies {K}. Arguments pe_slots {K}. Arguments pe_status_checked {K}.
Arguments pe_nonres_args {K}. Arguments pe_res_args {K}. Arguments pe_combine {K}.

(** * 9. TwoParticleGFPart::compute: the loop nest
    for(index1 < <outerSize of M1>) for(index3 < <outerSize of M3>) {
       bra4(CX4, index1); ket4(O3, index3); list.clear();  while(W4) { BODY4 }
       if (!list.empty()) { [locals] bra2(O2, index3); ket2(O1, index1);  while(W2) { BODY2 } } }
    BODY2 contains, as its WsBody 0, `[locals] for(p4 < list.size()) { index4 = list[p4]; [locals] INNER }`.  Matrices are numbered
    0 = O1, 1 = O2, 2 = O3, 3 = CX4; an iterator is (matrix, outer variable) with outer variable 1 = index1, 3 = index3.
    In the two whiles ItA is the RowMajor (`ket`) iterator, ItB the ColMajor (`bra`) one. *)
Record tp_nest : Set := mk_tp_nest {
  tn_first1 : nat; tn_cmp1 : cmpop; tn_bound1 : nat;   (* for(index1 = FIRST; index1 CMP <matrix>.outerSize(); ++index1) *)
  tn_first3 : nat; tn_cmp3 : cmpop; tn_bound3 : nat;
  tn_bra4 : nat * nat; tn_ket4 : nat * nat;            (* the two iterators of the first while *)
  tn_clear_first : bool;                               (* Index4List.clear() in front of the first while *)
  tn_while4 : icond; tn_body4 : list wstmt;
  tn_guard_nonempty : bool;                            (* if (!Index4List.empty()) around the second part *)
  tn_bra2 : nat * nat; tn_ket2 : nat * nat;
  tn_while2 : icond; tn_body2 : list wstmt;
  tn_inner_first : nat; tn_inner_cmp : cmpop           (* for (p4 = FIRST; p4 CMP Index4List.size(); ++p4) *)
}.

(** what is done for one quadruple (index1, index2, index3, index4): all K-valued locals of the nest in declaration order
    (their initialisers are pure reads), then the statements of the innermost loop body *)
Section TPBody.
Variable K : Type.
Record tenv : Type := mk_tenv {
  te_i1 : nat; te_i3 : nat;                   (* index1, index3 *)
  te_idxA : nat; te_idxB : nat;               (* the locals read from the ket / bra iterator of the second while (index2) *)
  te_i4 : nat;                                (* Index4List[p4] *)
  te_E : nat -> nat -> K;                     (* Hpart<k>.getEigenValue(i) *)
  te_W : nat -> nat -> K;                     (* DMpart<k>.getWeight(i) *)
  te_va : K; te_vb : K;                       (* <ket iterator>.value(), <bra iterator>.value() *)
  te_coeff : nat -> nat -> nat -> K;          (* <matrix m>.coeff(..) as (m, outer index, inner index) *)
  te_sign : K;                                (* Permutation.sign *)
  te_beta : K;                                (* DMpart1.beta *)
  te_tol : K                                  (* CoefficientTolerance *)
}.
Definition pexp : Type := tenv -> (nat -> K) -> K.
Inductive pstmt : Type :=
| PsLet (f : pexp)
| PsIf (c : tenv -> (nat -> K) -> bool) (then_ else_ : list pstmt)
| PsMulAssign (n : nat) (f : pexp)           (* local n *= f *)
| PsAddMultiterm (args : list pexp).         (* addMultiterm(args) *)
End TPBody.
Arguments mk_tenv {K}. Arguments te_i1 {K}. Arguments te_i3 {K}. Arguments te_idxA {K}. Arguments te_idxB {K}. Arguments te_i4 {K}.
Arguments te_E {K}. Arguments te_W {K}. Arguments te_va {K}. Arguments te_vb {K}. Arguments te_coeff {K}. Arguments te_sign {K}.
Arguments te_beta {K}. Arguments te_tol {K}.
Arguments PsLet {K}. Arguments PsIf {K}. Arguments PsMulAssign {K}. Arguments PsAddMultiterm {K}.

(** the terms addMultiterm hands to the two term lists *)
Inductive temit (K : Type) : Type :=
| TeNonRes (coeff p1 p2 p3 : K) (isz4 : bool)
| TeRes (rescoeff nonrescoeff p1 p2 p3 : K) (isz1z2 : bool).
Arguments TeNonRes {K}. Arguments TeRes {K}.

(** * 10. TwoParticleGF::compute(clear, freqs, comm): the order of the statements that matter *)
Inductive bcast_root : Set := RootOwner (* job_map[p] *) | RootZero | RootOther.
(** ComputeAndClearWrap::run:  p->compute();  if (fill_) { for (w = FIRST; w CMP freqs_->size(); ++w) ( *data_)[w] OP= ( *p)(get<0>, get<1>, get<2> of freqs[w]); }
    if (clear_) p->clear(); *)
Record wrap_run_shape : Set := mk_wrap_run {
  wr_compute_first : bool;
  wr_fill_guarded : bool;                    (* the loop stands under if (fill_) *)
  wr_first : nat; wr_cmp : cmpop;            (* the loop runs over all frequencies *)
  wr_op : acc_op;
  wr_args : list nat;                        (* the tuple components handed to the part, in order *)
  wr_clear_guarded_last : bool               (* if (clear_) p->clear(); as the last statement *)
}.
Record tpgf_compute_shape : Set := mk_tpgf_compute {
  tc_status_throw_first : bool;              (* if (Status < Prepared) throw ... before anything else but the declaration *)
  tc_computed_returns : bool;                (* if (Status >= Computed) return m_data; *)
  tc_size_before_vanishing : bool;           (* m_data.resize(freqs.size(), 0.0) in front of if (!Vanishing) *)
  tc_fill_flag_nonempty : bool;              (* fill_container = freqs.size() > 0 *)
  tc_reduce_guarded : bool;                  (* if (!m_data.empty()) reduce(...) *)
  tc_reduce_root : nat;
  tc_bcast_only_if_kept : bool;              (* if (!clear) { for parts: broadcasts; Status = Computed } *)
  tc_bcast_roots : list bcast_root;          (* roots of the broadcasts of NonResonantTerms, ResonantTerms *)
  tc_marks_computed : bool
}.
