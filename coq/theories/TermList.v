(** Model of TermList<Term> (include/pomerol/TermList.h) for the single-pole terms of
    GreensFunctionPart and SusceptibilityPart.

    The container is a std::set<Term, Term::Compare> whose comparator is
        compare(t1, t2) = (t2.Pole - t1.Pole >= Tolerance)          GreensFunctionPart.h:53-55
    This is NOT a strict weak ordering (equivalence "closer than Tolerance" is not transitive), so what
    std::set does with it has to be read off the implementation.  libstdc++'s red-black tree
    (bits/stl_tree.h) never compares two stored keys after insertion; find / insert / erase(key) are
    descents that go left or right according to ONE of the predicates
        x |-> !compare(x, k)      (_M_lower_bound:            find, equal_range)
        x |-> compare(k, x)       (_M_get_insert_unique_pos, _M_upper_bound: insert, equal_range)
    of the stored key x.  When such a predicate is monotone along the in-order sequence (false ... false
    true ... true) the descent ends at the first element satisfying it, whatever the shape of the tree
    ([TermListProofs.tree_lower_bound_is_scan]; for insert, which needs the element BEFORE that position -- the
    one that blocks a refused insertion --: [TermListProofs.tree_insert_pos_is_scan]).  Monotonicity holds as soon as the stored sequence is
    increasing w.r.t. compare and compare is transitive ([TermListProofs.scan_*]); and that invariant
    ([sorted_sep]: consecutive stored poles are at least Tolerance apart) is preserved by add_term
    ([TermListProofs.add_term_sorted]) because a merge keeps the STORED pole (Term::operator+= adds
    residues only).  Hence the set is modelled by its in-order sequence, a list, and the
    operations by linear scans for the first element satisfying the predicate; erase(iterator) removes the
    element the iterator points to.

    Generic in the pole type P and the residue type C; nothing here computes with numbers.
    Besides the new sequence add_term returns an [event] describing what happened to the term: the
    events are ghost data (the C++ has no such thing) used to state the truncation bound.

    add_term is the retry loop of TermList.h as it is since the repair b3c7635 (insert; while refused: reduce with the
    blocking element, erase it by iterator, return if negligible, retry).  [add_term_findform] is the former
    find / erase(key) / insert form, kept for comparison only. *)
Require Import Bool List Arith.
Import ListNotations.

Section TermList.
Variables P C : Type.
Variable comp : P -> P -> bool.       (* Term::Compare::operator()(t1, t2) on the poles *)
Variable negl : C -> nat -> bool.     (* Term::IsNegligible::operator()(t, ToleranceDivisor) on the residue *)
Variable cadd : C -> C -> C.          (* Term::operator+= on the residues *)

Definition term : Type := (P * C)%type.     (* (Pole, Residue) *)
Definition pole (t : term) : P := fst t.
Definition residue (t : term) : C := snd t.

(** first position whose element satisfies [pred]: (elements before, elements from there on) *)
Fixpoint scan (pred : term -> bool) (l : list term) : list term * list term :=
  match l with
  | [] => ([], [])
  | x :: r => if pred x then ([], x :: r) else let ba := scan pred r in (x :: fst ba, snd ba)
  end.

(** std::set::find(k)  (stl_tree.h: _M_lower_bound, then `j == end() || compare(k, *j) ? end() : j`) *)
Definition set_find (k : P) (l : list term) : option term :=
  match snd (scan (fun x => negb (comp (pole x) k)) l) with
  | x :: _ => if comp k (pole x) then None else Some x
  | [] => None
  end.

(** std::set::insert(t)  (_M_get_insert_unique_pos + _M_insert_): the descent finds the first stored x with
    compare(t, x); j = its predecessor; the element is inserted there unless j exists and !compare(j, t)
    ("equivalent key present": the insertion is refused and the returned iterator points to j, the BLOCKING element).
    Result: Inserted (new sequence) | Blocked b j a  (the sequence is b ++ j :: a) *)
Inductive ins_res : Type :=
| Inserted (l' : list term)
| Blocked (b : list term) (j : term) (a : list term).

Definition set_insert_res (t : term) (l : list term) : ins_res :=
  let ba := scan (fun x => comp (pole t) (pole x)) l in
  match rev (fst ba) with
  | [] => Inserted (t :: l)
  | j :: rb => if comp (pole j) (pole t) then Inserted (fst ba ++ t :: snd ba) else Blocked (rev rb) j (snd ba)
  end.

(** insert() as (new sequence, `second` of the returned pair) *)
Definition set_insert (t : term) (l : list term) : list term * bool :=
  match set_insert_res t l with
  | Inserted l' => (l', true)
  | Blocked _ _ _ => (l, false)
  end.

(** std::set::erase(key k): erases equal_range(k) = [lower_bound(k), upper_bound(k)).
    Result: (new sequence, erased elements).   (Used by the former form of add_term only; the present one erases by iterator.) *)
Definition set_erase (k : P) (l : list term) : list term * list term :=
  let ba := scan (fun x => negb (comp (pole x) k)) l in
  let er := scan (fun x => comp k (pole x)) (snd ba) in
  (fst ba ++ snd er, fst er).

(** what happened to an added term (ghost): the chain of merges it went through -- every step is
    (stored term that blocked the insertion and was erased, the reduced term = that term += the running sum) --
    and what became of the last sum. *)
Inductive final : Type :=
| FinInserted       (* the (reduced) term was inserted *)
| FinNegligible     (* the reduced term was negligible and dropped *)
| FinFuel.          (* the bound of the model's for(;;) ran out; never happens: every retry removes a stored term
                       ([TermListProofs.add_term_fuel_suffices], no hypothesis on the comparator) *)
Inductive event : Type :=
| EvChain (steps : list (term * term)) (fin : final).
(** [EvChain [] FinInserted]: no like term, inserted at once.
    [EvChain [(x, s)] FinInserted]: blocked by x, s = x += t inserted.  [EvChain [(x, s)] FinNegligible]: s dropped.
    On a sequence satisfying the invariant chains have at most one step ([TermListProofs.add_term_spec]): the reduced
    term keeps the pole of the erased one, so it fits where that one was. *)

(** TermList::add_term   (TermList.h:48-61)
      sum = term;
      for(;;) { res = data.insert(sum);  if(res.second) return;
                reduced = *res.first;  reduced += sum;  data.erase(res.first);
                if(is_negligible(reduced, data.size() + 1)) return;
                sum = reduced; }
    Term::operator+= adds the residues and keeps the pole of the left operand (the stored term).
    Result: new sequence, (steps, final disposition). *)
Fixpoint add_term_loop (fuel : nat) (sum : term) (l : list term) : list term * (list (term * term) * final) :=
  match set_insert_res sum l with
  | Inserted l' => (l', ([], FinInserted))
  | Blocked b e a =>
    let reduced : term := (pole e, cadd (residue e) (residue sum)) in
    let l' := b ++ a in
    if negl (residue reduced) (length l' + 1) then (l', ([(e, reduced)], FinNegligible))
    else match fuel with
         | O => (l', ([(e, reduced)], FinFuel))
         | S f => let r := add_term_loop f reduced l' in (fst r, ((e, reduced) :: fst (snd r), snd (snd r)))
         end
  end.

Definition add_term (t : term) (l : list term) : list term * event :=
  let r := add_term_loop (length l) t l in (fst r, EvChain (fst (snd r)) (snd (snd r))).

(** The form add_term had BEFORE the repair b3c7635 (find / erase(key) / insert, the return value of insert ignored):
      it = data.find(term);
      if(it == data.end()) data.insert(term);
      else { sum = *it; sum += term; data.erase( *it);
             if(!is_negligible(sum, data.size() + 1)) data.insert(sum); }
    Kept as a documented fact about the old form: on a sequence satisfying the invariant it agrees with the present form
    when at most one stored term is like the added one, and differs otherwise (find() returns the LOWER like neighbour,
    the refused insert() points to the UPPER one): PV.LehmannGenProofs.add_term_findform_agrees / add_term_forms_differ. *)
Definition add_term_findform (t : term) (l : list term) : list term :=
  match set_find (pole t) l with
  | None => fst (set_insert t l)
  | Some x =>
    let sum : term := (pole x, cadd (residue x) (residue t)) in
    let e := set_erase (pole x) l in
    if negl (residue sum) (S (length (fst e))) then fst e else fst (set_insert sum (fst e))
  end.

(** adding a sequence of terms, in order; events in the same order *)
Fixpoint add_terms (ts : list term) (l : list term) : list term * list event :=
  match ts with
  | [] => (l, [])
  | t :: r => let s := add_term t l in
              let s' := add_terms r (fst s) in (fst s', snd s :: snd s')
  end.

(** TermList::check_terms  (TermList.h:103-115): the ordering only (since 7d733ea; negligibility w.r.t. the final size is
    not an invariant of add_term) *)
Fixpoint check_sorted (l : list term) : bool :=
  match l with
  | a :: ((b :: _) as r) => comp (pole a) (pole b) && check_sorted r
  | _ => true
  end.
Definition check_terms (l : list term) : bool := check_sorted l.

(** the invariant: consecutive stored poles are increasing w.r.t. compare, i.e. at least Tolerance apart *)
Fixpoint sorted_sep (l : list term) : Prop :=
  match l with
  | a :: ((b :: _) as r) => comp (pole a) (pole b) = true /\ sorted_sep r
  | _ => True
  end.

(** * Evaluation: TermList::operator()  (TermList.h:68-77):  res = 0; for(it...) res += ( *it)(args) *)
Section Eval.
Variable K : Type.
Variable k0 : K.
Variable kadd : K -> K -> K.
Variable f : term -> K.                  (* Term::operator()(args) *)
Definition eval (l : list term) : K := fold_left (fun acc t => kadd acc (f t)) l k0.
End Eval.

End TermList.

Arguments Inserted {P C} l'.
Arguments Blocked {P C} b j a.
Arguments EvChain {P C} steps fin.
