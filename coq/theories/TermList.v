(** Model of TermList<Term> (include/pomerol/TermList.h) for the single-pole terms of
    GreensFunctionPart and SusceptibilityPart.

    The container is a std::set<Term, Term::Compare> whose comparator is
        compare(t1, t2) = (t2.Pole - t1.Pole >= Tolerance)          GreensFunctionPart.h:53-55
    This is NOT a strict weak ordering (equivalence "closer than Tolerance" is not transitive), so what
    std::set does with it has to be read off the implementation.  libstdc++'s red-black tree
    (bits/stl_tree.h) never compares two stored keys after insertion; find / insert / erase(key) are
    descents that go left or right according to ONE of the predicates
        x |-> !compare(x, k)      (_M_lower_bound:            find, equal_range)
        x |-> compare(k, x)       (_M_get_insert_unique_pos, _M_upper_bound: insert, equal_range)
    of the stored key x.  When such a predicate is monotone along the in-order sequence (false ... false
    true ... true) the descent ends at the first element satisfying it, whatever the shape of the tree
    ([TermListProofs.tree_lower_bound_is_scan]).  Monotonicity holds as soon as the stored sequence is
    increasing w.r.t. compare and compare is transitive ([TermListProofs.scan_*]); and that invariant
    ([sorted_sep]: consecutive stored poles are at least Tolerance apart) is preserved by add_term
    ([TermListProofs.add_term_sorted]) because a merge keeps the STORED pole (Term::operator+= adds
    residues only).  Hence the set is modelled by its in-order sequence, a list, and the three
    operations by linear scans for the first element satisfying the predicate.

    Generic in the pole type P and the residue type C; nothing here computes with numbers.
    Besides the new sequence add_term returns an [event] describing what happened to the term: the
    events are ghost data (the C++ has no such thing) used to state the truncation bound. *)
Require Import Bool List Arith.
Import ListNotations.

Section TermList.
Variables P C : Type.
Variable comp : P -> P -> bool.       (* Term::Compare::operator()(t1, t2) on the poles *)
Variable negl : C -> nat -> bool.     (* Term::IsNegligible::operator()(t, ToleranceDivisor) on the residue *)
Variable cadd : C -> C -> C.          (* Term::operator+= on the residues *)

Definition term : Type := (P * C)%type.     (* (Pole, Residue) *)
Definition pole (t : term) : P := fst t.
Definition residue (t : term) : C := snd t.

(** first position whose element satisfies [pred]: (elements before, elements from there on) *)
Fixpoint scan (pred : term -> bool) (l : list term) : list term * list term :=
  match l with
  | [] => ([], [])
  | x :: r => if pred x then ([], x :: r) else let ba := scan pred r in (x :: fst ba, snd ba)
  end.

(** std::set::find(k)  (stl_tree.h: _M_lower_bound, then `j == end() || compare(k, *j) ? end() : j`) *)
Definition set_find (k : P) (l : list term) : option term :=
  match snd (scan (fun x => negb (comp (pole x) k)) l) with
  | x :: _ => if comp k (pole x) then None else Some x
  | [] => None
  end.

(** std::set::insert(t)  (_M_get_insert_unique_pos + _M_insert_): the descent finds the first stored x with
    compare(t, x); j = its predecessor; the element is inserted there unless j exists and !compare(j, t)
    ("equivalent key present": the insertion is silently refused).  Result: (new sequence, inserted?) *)
Definition set_insert (t : term) (l : list term) : list term * bool :=
  let ba := scan (fun x => comp (pole t) (pole x)) l in
  match rev (fst ba) with
  | [] => (t :: l, true)
  | j :: _ => if comp (pole j) (pole t) then (fst ba ++ t :: snd ba, true) else (l, false)
  end.

(** std::set::erase(key k): erases equal_range(k) = [lower_bound(k), upper_bound(k)).
    Result: (new sequence, erased elements) *)
Definition set_erase (k : P) (l : list term) : list term * list term :=
  let ba := scan (fun x => negb (comp (pole x) k)) l in
  let er := scan (fun x => comp k (pole x)) (snd ba) in
  (fst ba ++ snd er, fst er).

(** what happened to an added term (ghost) *)
Inductive event : Type :=
| EvNew                                   (* no like term: inserted *)
| EvRefused                               (* no like term found, but insert() refused it (never happens: add_term_sorted) *)
| EvMerged (erased : list term) (sum : term) (inserted : bool)
                                          (* like term found: [erased] were removed, [sum] was re-inserted (or refused) *)
| EvNegligible (erased : list term) (sum : term).   (* like term found, the sum was negligible and dropped *)

(** TermList::add_term   (TermList.h:48-59)
      it = data.find(term);
      if(it == data.end()) data.insert(term);
      else { sum = *it; sum += term; data.erase( *it);
             if(!is_negligible(sum, data.size() + 1)) data.insert(sum); }                              *)
Definition add_term (t : term) (l : list term) : list term * event :=
  match set_find (pole t) l with
  | None =>
    let r := set_insert t l in (fst r, if snd r then EvNew else EvRefused)
  | Some x =>
    let sum : term := (pole x, cadd (residue x) (residue t)) in
    let e := set_erase (pole x) l in
    if negl (residue sum) (S (length (fst e))) then (fst e, EvNegligible (snd e) sum)
    else let r := set_insert sum (fst e) in (fst r, EvMerged (snd e) sum (snd r))
  end.

(** adding a sequence of terms, in order; events in the same order *)
Fixpoint add_terms (ts : list term) (l : list term) : list term * list event :=
  match ts with
  | [] => (l, [])
  | t :: r => let s := add_term t l in
              let s' := add_terms r (fst s) in (fst s', snd s :: snd s')
  end.

(** TermList::check_terms  (TermList.h:95-109) *)
Fixpoint check_sorted (l : list term) : bool :=
  match l with
  | a :: ((b :: _) as r) => comp (pole a) (pole b) && check_sorted r
  | _ => true
  end.
Definition check_terms (l : list term) : bool :=
  forallb (fun t => negb (negl (residue t) (S (length l)))) l && check_sorted l.

(** the invariant: consecutive stored poles are increasing w.r.t. compare, i.e. at least Tolerance apart *)
Fixpoint sorted_sep (l : list term) : Prop :=
  match l with
  | a :: ((b :: _) as r) => comp (pole a) (pole b) = true /\ sorted_sep r
  | _ => True
  end.

(** * Evaluation: TermList::operator()  (TermList.h:68-77):  res = 0; for(it...) res += ( *it)(args) *)
Section Eval.
Variable K : Type.
Variable k0 : K.
Variable kadd : K -> K -> K.
Variable f : term -> K.                  (* Term::operator()(args) *)
Definition eval (l : list term) : K := fold_left (fun acc t => kadd acc (f t)) l k0.
End Eval.

End TermList.

Arguments EvNew {P C}.
Arguments EvRefused {P C}.
Arguments EvMerged {P C} erased sum inserted.
Arguments EvNegligible {P C} erased sum.
