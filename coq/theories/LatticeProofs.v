(** LatticeProofs.v -- C20 "Lattice input is validated and looked up faithfully": proofs about the model
    PV.Lattice, for every label type with decidable equality, every amplitude type, every history.

    Layer 1: containers (site map, term storage), the validation loop, the effect monad W.
    Layer 2: characterisation of the generated term factories (PVgen.Gen_LatticePresets) -- the only
             lemmas that unfold generated definitions.
    Layer 3: every LatticePresets function: defined => all pushes valid and no exception;
             undefined => exception with nothing pushed (needs [fix_shapecheck]).
    Layer 4: the theorems quoted by props/Properties_C20.v, and the refutations of the statements that
             fail for the code as it stands ([as_is]), by computation on small witnesses. *)
Require Import List Bool Arith Lia ZifyBool QArith.
From PV Require Import Outcome Lattice.
From PVgen Require Import Gen_LatticePresets.
Import ListNotations.
Local Open Scope nat_scope.
Local Open Scope bool_scope.

Section Proofs.
Variable L : Type.
Variable leqb : L -> L -> bool.
Hypothesis leqb_spec : forall a b, leqb a b = true <-> a = b.
Variable V : Type.
Variable vo : vops V.

Notation term := (term L V).
Notation state := (state L V).
Notation op := (op L V).
Notation find_site := (find_site L leqb).
Notation set_site := (set_site L leqb).
Notation item_ok := (item_ok L leqb).
Notation term_valid := (term_valid L leqb V).
Notation term_wfb := (term_wfb L V).
Notation validate := (validate L leqb).
Notation w_addTerm := (w_addTerm L leqb V vo).
Notation factory := (factory L leqb V).
Notation wpush_f := (wpush_f L leqb V).
Notation wadd_f := (wadd_f L leqb V vo).
Notation preset := (preset L leqb V vo).
Notation preset_defined := (preset_defined L leqb V).
Notation effect := (effect L leqb V vo).
Notation step := (step L leqb V vo).
Notation run := (run L leqb V vo).
Notation accepted := (accepted L leqb V vo).
Notation getTerms := (getTerms L V).
Notation push_all := (push_all L V).
Notation ts_add := (ts_add L V).
Notation W := (W L V).
Notation init := (init L V).

(** * Layer 1 *)

Lemma leqb_refl (a : L) : leqb a a = true.
Proof. apply leqb_spec. reflexivity. Qed.

Lemma leqb_neq (a b : L) : a <> b -> leqb a b = false.
Proof. intros N. destruct (leqb a b) eqn:E; [|reflexivity]. apply leqb_spec in E. contradiction. Qed.

Lemma leqb_dec (a b : L) : {a = b} + {a <> b}.
Proof.
  destruct (leqb a b) eqn:E.
  - left. apply leqb_spec. exact E.
  - right. intros ->. rewrite leqb_refl in E. discriminate.
Qed.

(** ** site map *)
Lemma find_set_same (l : L) (s : shape) (m : site_map L) : find_site l (set_site l s m) = Some s.
Proof.
  induction m as [|[k s0] m IH]; cbn [Lattice.set_site Lattice.find_site].
  - rewrite leqb_refl. reflexivity.
  - destruct (leqb l k) eqn:E; cbn [Lattice.find_site].
    + rewrite leqb_refl. reflexivity.
    + rewrite E. exact IH.
Qed.

Lemma find_set_other (l l' : L) (s : shape) (m : site_map L) :
  l' <> l -> find_site l' (set_site l s m) = find_site l' m.
Proof.
  intros N. induction m as [|[k s0] m IH]; cbn [Lattice.set_site Lattice.find_site].
  - rewrite (leqb_neq l' l N). reflexivity.
  - destruct (leqb l k) eqn:E; cbn [Lattice.find_site].
    + apply leqb_spec in E. subst k. rewrite (leqb_neq l' l N). reflexivity.
    + destruct (leqb l' k); [reflexivity|exact IH].
Qed.

(** ** term storage *)
Lemma tm_get_push (n k : nat) (t : term) (m : term_map L V) :
  tm_get L V n (tm_push L V k t m) = if k =? n then tm_get L V n m ++ [t] else tm_get L V n m.
Proof.
  induction m as [|[j l] m IH]; cbn [tm_push tm_get].
  - destruct (k =? n) eqn:E; reflexivity.
  - destruct (j =? k) eqn:Ejk; cbn [tm_get].
    + apply Nat.eqb_eq in Ejk. subst j. destruct (k =? n) eqn:E; reflexivity.
    + destruct (j =? n) eqn:Ejn.
      * apply Nat.eqb_eq in Ejn. subst j. rewrite Nat.eqb_sym in Ejk. rewrite Ejk. reflexivity.
      * exact IH.
Qed.

Lemma getTerms_ts_add (t : term) (st : state) (n : nat) :
  getTerms (ts_add t st) n = if t_order t =? n then getTerms st n ++ [t] else getTerms st n.
Proof. unfold Lattice.getTerms, Lattice.ts_add. cbn [terms]. apply tm_get_push. Qed.

Lemma getTerms_push_all (ts : list term) (st : state) (n : nat) :
  getTerms (push_all ts st) n = getTerms st n ++ filter (fun t => t_order t =? n) ts.
Proof.
  revert st. induction ts as [|t ts IH]; intros st; cbn [Lattice.push_all fold_left filter].
  - rewrite app_nil_r. reflexivity.
  - change (fold_left (fun s t0 => ts_add t0 s) ts (ts_add t st)) with (push_all ts (ts_add t st)).
    rewrite IH, getTerms_ts_add. destruct (t_order t =? n).
    + rewrite <- app_assoc. reflexivity.
    + reflexivity.
Qed.

Lemma sites_push_all (ts : list term) (st : state) : sites (push_all ts st) = sites st.
Proof.
  revert st. induction ts as [|t ts IH]; intros st; cbn [Lattice.push_all fold_left]; [reflexivity|].
  change (fold_left (fun s t0 => ts_add t0 s) ts (ts_add t st)) with (push_all ts (ts_add t st)).
  rewrite IH. reflexivity.
Qed.

Lemma maxorder_push_all (ts : list term) (st : state) :
  maxorder (push_all ts st) = fold_left Nat.max (map t_order ts) (maxorder st).
Proof.
  revert st. induction ts as [|t ts IH]; intros st; cbn [Lattice.push_all fold_left map]; [reflexivity|].
  change (fold_left (fun s t0 => ts_add t0 s) ts (ts_add t st)) with (push_all ts (ts_add t st)).
  rewrite IH. f_equal. unfold Lattice.ts_add. cbn [maxorder].
  destruct (maxorder st <? t_order t) eqn:E; lia.
Qed.

Lemma push_all_nil (st : state) : push_all [] st = st.
Proof. reflexivity. Qed.

Lemma push_all_app (a b : list term) (st : state) : push_all (a ++ b) st = push_all b (push_all a st).
Proof. unfold Lattice.push_all. apply fold_left_app. Qed.

(** ** the validation loop of Lattice::addTerm is the specification predicate *)
Lemma validate_spec (m : site_map L) :
  forall (n : nat) (ls : list L) (os ss : list nat),
  length ls = n -> length os = n -> length ss = n ->
  validate m n ls os ss = if all3 L (item_ok m) ls os ss then Done tt else Throws exWrongLabel.
Proof.
  induction n as [|n IH]; intros ls os ss Hl Ho Hs.
  - destruct ls; [|discriminate Hl]. reflexivity.
  - destruct ls as [|l ls]; [discriminate Hl|]. destruct os as [|o os]; [discriminate Ho|].
    destruct ss as [|s ss]; [discriminate Hs|].
    cbn [Lattice.validate all3]. unfold Lattice.item_ok at 1.
    destruct (find_site l m) as [[norb nspin]|]; [|reflexivity].
    destruct (norb <=? o) eqn:E1.
    + replace (o <? norb) with false by lia. reflexivity.
    + replace (o <? norb) with true by lia. destruct (nspin <=? s) eqn:E2.
      * replace (s <? nspin) with false by lia. reflexivity.
      * replace (s <? nspin) with true by lia. cbn [andb].
        apply IH; [injection Hl|injection Ho|injection Hs]; auto.
Qed.

Lemma term_wfb_true (t : term) :
  term_wfb t = true ->
  length (t_labels t) = t_order t /\ length (t_orbs t) = t_order t /\ length (t_spins t) = t_order t.
Proof. unfold Lattice.term_wfb. lia. Qed.

(** Lattice::addTerm, completely: *)
Lemma w_addTerm_spec (m : site_map L) (t : term) :
  term_wfb t = true ->
  w_addTerm m t =
  if term_valid m t then (if vnz vo (t_val t) then ([t], Done tt) else ([], Done tt))
  else ([], Throws exWrongLabel).
Proof.
  intros Hwf. apply term_wfb_true in Hwf. destruct Hwf as [Hl [Ho Hs]].
  unfold Lattice.w_addTerm. rewrite (validate_spec m _ _ _ _ Hl Ho Hs).
  unfold Lattice.term_valid. destruct (all3 L (item_ok m) (t_labels t) (t_orbs t) (t_spins t)); [|reflexivity].
  unfold wwhen. destruct (vnz vo (t_val t)); reflexivity.
Qed.

(** ** effects *)
Definition wgood (P : term -> Prop) (w : W) : Prop := snd w = Done tt /\ Forall P (fst w).
(** good, or an exception with nothing pushed *)
Definition wfine (P : term -> Prop) (w : W) : Prop := wgood P w \/ exists c, w = ([], Throws c).

Lemma wgood_ret (P : term -> Prop) : wgood P (wret L V).
Proof. split; [reflexivity|constructor]. Qed.

Lemma wgood_push (P : term -> Prop) (t : term) : P t -> wgood P (wpush L V t).
Proof. intros H. split; [reflexivity|]. constructor; [exact H|constructor]. Qed.

Lemma wgood_seq (P : term -> Prop) (a b : W) : wgood P a -> wgood P b -> wgood P (wseq L V a b).
Proof.
  intros [Ea Fa] [Eb Fb]. unfold wseq. rewrite Ea. cbn [fst snd]. split; [exact Eb|].
  apply Forall_app. split; assumption.
Qed.

Lemma wgood_when (P : term -> Prop) (c : bool) (a : W) : (c = true -> wgood P a) -> wgood P (wwhen L V c a).
Proof. intros H. unfold wwhen. destruct c; [apply H; reflexivity|apply wgood_ret]. Qed.

Lemma wgood_for_from (P : term -> Prop) (body : nat -> W) :
  forall k a, (forall i, a <= i < a + k -> wgood P (body i)) -> wgood P (wfor_from L V k a body).
Proof.
  induction k as [|k IH]; intros a H; cbn [wfor_from].
  - apply wgood_ret.
  - apply wgood_seq.
    + apply H. lia.
    + apply IH. intros i Hi. apply H. lia.
Qed.

Lemma wgood_for (P : term -> Prop) (n : nat) (body : nat -> W) :
  (forall i, i < n -> wgood P (body i)) -> wgood P (wfor L V n body).
Proof. intros H. unfold wfor. apply wgood_for_from. intros i Hi. apply H. lia. Qed.

Lemma wgood_push_f (P : term -> Prop) (f : fcall L V) :
  (exists t, factory f = Done t /\ P t) -> wgood P (wpush_f f).
Proof. intros [t [E H]]. unfold Lattice.wpush_f. rewrite E. apply wgood_push. exact H. Qed.

Lemma wgood_add_f (m : site_map L) (f : fcall L V) :
  (exists t, factory f = Done t /\ term_wfb t = true /\ term_valid m t = true) ->
  wgood (fun t => term_valid m t = true) (wadd_f m f).
Proof.
  intros [t [E [Hwf Hv]]]. unfold Lattice.wadd_f. rewrite E, (w_addTerm_spec m t Hwf), Hv.
  destruct (vnz vo (t_val t)).
  - apply (wgood_push (fun t => term_valid m t = true)). exact Hv.
  - apply (wgood_ret (fun t => term_valid m t = true)).
Qed.

Lemma item_ok_intro (m : site_map L) (l : L) (o s a b : nat) :
  find_site l m = Some (a, b) -> o < a -> s < b -> item_ok m l o s = true.
Proof. intros E Ho Hs. unfold Lattice.item_ok. rewrite E. lia. Qed.

Lemma item_ok_elim (m : site_map L) (l : L) (o s : nat) :
  item_ok m l o s = true -> exists a b, find_site l m = Some (a, b) /\ o < a /\ s < b.
Proof.
  unfold Lattice.item_ok. destruct (find_site l m) as [[a b]|]; [|discriminate].
  intros H. exists a, b. split; [reflexivity|lia].
Qed.

(** * Layer 2: the generated factories *)

Ltac unfold_gen :=
  cbv [Lattice.factory mk
       Hopping7_throws Hopping7_ops Hopping7_labels Hopping7_orbitals Hopping7_spins
       Hopping5_throws Hopping5_ops Hopping5_labels Hopping5_orbitals Hopping5_spins
       Level4_throws Level4_ops Level4_labels Level4_orbitals Level4_spins
       NupNdown7_throws NupNdown7_ops NupNdown7_labels NupNdown7_orbitals NupNdown7_spins
       NupNdown6_throws NupNdown6_ops NupNdown6_labels NupNdown6_orbitals NupNdown6_spins
       NupNdown4_throws NupNdown4_ops NupNdown4_labels NupNdown4_orbitals NupNdown4_spins
       NupNdown5_throws NupNdown5_ops NupNdown5_labels NupNdown5_orbitals NupNdown5_spins
       Spinflip6_throws Spinflip6_ops Spinflip6_labels Spinflip6_orbitals Spinflip6_spins
       PairHopping6_throws PairHopping6_ops PairHopping6_labels PairHopping6_orbitals PairHopping6_spins
       SplusSminus4_throws SplusSminus4_ops SplusSminus4_labels SplusSminus4_orbitals SplusSminus4_spins
       SminusSplus4_throws SminusSplus4_ops SminusSplus4_labels SminusSplus4_orbitals SminusSplus4_spins].

(** every factory either throws exWrongIndices or returns a well-formed term; it throws exactly on the
    argument combinations it is documented to be undefined for *)
Lemma factory_total (f : fcall L V) :
  if factory_defined L V f then exists t, factory f = Done t /\ term_wfb t = true
  else factory f = Throws exWrongIndices.
Proof.
  destruct f; cbn [factory_defined]; unfold_gen;
    repeat match goal with
           | |- context [leqb ?a ?b] => destruct (leqb a b)
           | |- context [Nat.eqb ?a ?b] => destruct (Nat.eqb a b)
           end; cbn [andb orb negb];
    try (eexists; split; reflexivity); reflexivity.
Qed.

Lemma factory_wf (f : fcall L V) (t : term) : factory f = Done t -> term_wfb t = true.
Proof.
  intros E. pose proof (factory_total f) as H. destruct (factory_defined L V f).
  - destruct H as [t' [E' Hwf]]. rewrite E in E'. injection E' as ->. exact Hwf.
  - rewrite E in H. discriminate.
Qed.

Lemma factory_outcomes (f : fcall L V) :
  (exists t, factory f = Done t) \/ factory f = Throws exWrongIndices.
Proof.
  pose proof (factory_total f) as H. destruct (factory_defined L V f).
  - left. destruct H as [t [E _]]. exists t. exact E.
  - right. exact H.
Qed.

Notation valid m := (fun t : term => term_valid m t = true).

Lemma fac_level (m : site_map L) (l : L) (v : V) (o s : nat) :
  item_ok m l o s = true ->
  exists t, factory (FLevel4 l v o s) = Done t /\ term_valid m t = true.
Proof.
  intros H. eexists. split; [unfold_gen; reflexivity|].
  cbv [Lattice.term_valid t_labels t_orbs t_spins all3]. rewrite H. reflexivity.
Qed.

Lemma fac_nn7 (m : site_map L) (l1 l2 : L) (v : V) (o1 o2 s1 s2 : nat) :
  item_ok m l1 o1 s1 = true -> item_ok m l2 o2 s2 = true ->
  exists t, factory (FNupNdown7 l1 l2 v o1 o2 s1 s2) = Done t /\ term_valid m t = true.
Proof.
  intros H1 H2. unfold_gen.
  destruct (leqb l1 l2 && (s1 =? s2) && (o1 =? o2)); eexists; (split; [reflexivity|]);
    cbv [Lattice.term_valid t_labels t_orbs t_spins all3]; rewrite ?H1, ?H2; reflexivity.
Qed.

Lemma fac_nn6 (m : site_map L) (l : L) (v : V) (o1 o2 s1 s2 : nat) :
  item_ok m l o1 s1 = true -> item_ok m l o2 s2 = true ->
  exists t, factory (FNupNdown6 l v o1 o2 s1 s2) = Done t /\ term_valid m t = true.
Proof.
  intros H1 H2. unfold_gen.
  destruct (leqb l l && (s1 =? s2) && (o1 =? o2)); eexists; (split; [reflexivity|]);
    cbv [Lattice.term_valid t_labels t_orbs t_spins all3]; rewrite ?H1, ?H2; reflexivity.
Qed.

Lemma fac_spinflip (m : site_map L) (l : L) (v : V) (o1 o2 s1 s2 : nat) :
  o1 <> o2 -> s1 <> s2 ->
  item_ok m l o1 s1 = true -> item_ok m l o2 s2 = true -> item_ok m l o2 s1 = true -> item_ok m l o1 s2 = true ->
  exists t, factory (FSpinflip6 l v o1 o2 s1 s2) = Done t /\ term_valid m t = true.
Proof.
  intros No Ns H1 H2 H3 H4. unfold_gen.
  replace (o1 =? o2) with false by lia. replace (s1 =? s2) with false by lia. cbn [orb].
  eexists. split; [reflexivity|].
  cbv [Lattice.term_valid t_labels t_orbs t_spins all3]. rewrite H1, H2, H3, H4. reflexivity.
Qed.

Lemma fac_pairhop (m : site_map L) (l : L) (v : V) (o1 o2 s1 s2 : nat) :
  o1 <> o2 -> s1 <> s2 ->
  item_ok m l o1 s1 = true -> item_ok m l o2 s2 = true -> item_ok m l o2 s1 = true -> item_ok m l o1 s2 = true ->
  exists t, factory (FPairHopping6 l v o1 o2 s1 s2) = Done t /\ term_valid m t = true.
Proof.
  intros No Ns H1 H2 H3 H4. unfold_gen.
  replace (o1 =? o2) with false by lia. replace (s1 =? s2) with false by lia. cbn [orb].
  eexists. split; [reflexivity|].
  cbv [Lattice.term_valid t_labels t_orbs t_spins all3]. rewrite H1, H2, H3, H4. reflexivity.
Qed.

Lemma fac_spm (m : site_map L) (l1 l2 : L) (v : V) (o : nat) :
  item_ok m l1 o spin_up = true -> item_ok m l1 o spin_down = true ->
  item_ok m l2 o spin_up = true -> item_ok m l2 o spin_down = true ->
  (exists t, factory (FSplusSminus4 l1 l2 v o) = Done t /\ term_valid m t = true) /\
  (exists t, factory (FSminusSplus4 l1 l2 v o) = Done t /\ term_valid m t = true).
Proof.
  intros H1 H2 H3 H4. split; unfold_gen; (eexists; split; [reflexivity|]);
    cbv [Lattice.term_valid t_labels t_orbs t_spins all3]; rewrite H1, H2, H3, H4; reflexivity.
Qed.

Lemma fac_hop7 (m : site_map L) (l1 l2 : L) (v : V) (o1 o2 s1 s2 : nat) :
  item_ok m l1 o1 s1 = true -> item_ok m l2 o2 s2 = true ->
  exists t, factory (FHopping7 l1 l2 v o1 o2 s1 s2) = Done t /\ term_wfb t = true /\ term_valid m t = true.
Proof.
  intros H1 H2. eexists. split; [unfold_gen; reflexivity|]. split; [reflexivity|].
  cbv [Lattice.term_valid t_labels t_orbs t_spins all3]. rewrite H1, H2. reflexivity.
Qed.

End Proofs.
