(** LatticeProofs.v -- C20 "Lattice input is validated and looked up faithfully": proofs about the model
    PV.Lattice, for every label type with decidable equality, every amplitude type, every history.

    Layer 1: containers (site map, term storage), the validation loop, the effect monad W.
    Layer 2: characterisation of the generated term factories (PVgen.Gen_LatticePresets) -- the only
             lemmas that unfold generated definitions.
    Layer 3: every LatticePresets function: defined => all pushes valid and no exception;
             undefined => exception with nothing pushed (needs [fix_shapecheck]).
    Layer 4: the theorems quoted by props/Properties_C20.v, and the refutations of the statements that
             fail for the code as it stands ([as_is]), by computation on small witnesses. *)
Require Import List Bool Arith Lia ZifyBool QArith.
From PV Require Import Outcome Lattice.
From PVgen Require Import Gen_LatticePresets.
Import ListNotations.
Local Open Scope nat_scope.
Local Open Scope bool_scope.

Section Proofs.
Variable L : Type.
Variable leqb : L -> L -> bool.
Hypothesis leqb_spec : forall a b, leqb a b = true <-> a = b.
Variable V : Type.
Variable vo : vops V.

Notation term := (term L V).
Notation state := (state L V).
Notation op := (op L V).
Notation find_site := (find_site L leqb).
Notation set_site := (set_site L leqb).
Notation item_ok := (item_ok L leqb).
Notation term_valid := (term_valid L leqb V).
Notation term_wfb := (term_wfb L V).
Notation validate := (validate L leqb).
Notation w_addTerm := (w_addTerm L leqb V vo).
Notation factory := (factory L leqb V).
Notation wpush_f := (wpush_f L leqb V).
Notation wadd_f := (wadd_f L leqb V vo).
Notation preset := (preset L leqb V vo).
Notation preset_defined := (preset_defined L leqb V).
Notation effect := (effect L leqb V vo).
Notation step := (step L leqb V vo).
Notation run := (run L leqb V vo).
Notation accepted := (accepted L leqb V vo).
Notation getTerms := (getTerms L V).
Notation push_all := (push_all L V).
Notation ts_add := (ts_add L V).
Notation W := (W L V).
Notation init := (init L V).

(** * Layer 1 *)

Lemma leqb_refl (a : L) : leqb a a = true.
Proof. apply leqb_spec. reflexivity. Qed.

Lemma leqb_neq (a b : L) : a <> b -> leqb a b = false.
Proof. intros N. destruct (leqb a b) eqn:E; [|reflexivity]. apply leqb_spec in E. contradiction. Qed.

Lemma leqb_dec (a b : L) : {a = b} + {a <> b}.
Proof.
  destruct (leqb a b) eqn:E.
  - left. apply leqb_spec. exact E.
  - right. intros ->. rewrite leqb_refl in E. discriminate.
Qed.

(** ** site map *)
Lemma find_set_same (l : L) (s : shape) (m : site_map L) : find_site l (set_site l s m) = Some s.
Proof.
  induction m as [|[k s0] m IH]; cbn [Lattice.set_site Lattice.find_site].
  - rewrite leqb_refl. reflexivity.
  - destruct (leqb l k) eqn:E; cbn [Lattice.find_site].
    + rewrite leqb_refl. reflexivity.
    + rewrite E. exact IH.
Qed.

Lemma find_set_other (l l' : L) (s : shape) (m : site_map L) :
  l' <> l -> find_site l' (set_site l s m) = find_site l' m.
Proof.
  intros N. induction m as [|[k s0] m IH]; cbn [Lattice.set_site Lattice.find_site].
  - rewrite (leqb_neq l' l N). reflexivity.
  - destruct (leqb l k) eqn:E; cbn [Lattice.find_site].
    + apply leqb_spec in E. subst k. rewrite (leqb_neq l' l N). reflexivity.
    + destruct (leqb l' k); [reflexivity|exact IH].
Qed.

(** ** term storage *)
Lemma tm_get_push (n k : nat) (t : term) (m : term_map L V) :
  tm_get L V n (tm_push L V k t m) = if k =? n then tm_get L V n m ++ [t] else tm_get L V n m.
Proof.
  induction m as [|[j l] m IH]; cbn [tm_push tm_get].
  - destruct (k =? n) eqn:E; reflexivity.
  - destruct (j =? k) eqn:Ejk; cbn [tm_get].
    + apply Nat.eqb_eq in Ejk. subst j. destruct (k =? n) eqn:E; reflexivity.
    + destruct (j =? n) eqn:Ejn.
      * apply Nat.eqb_eq in Ejn. subst j. rewrite Nat.eqb_sym in Ejk. rewrite Ejk. reflexivity.
      * exact IH.
Qed.

Lemma getTerms_ts_add (t : term) (st : state) (n : nat) :
  getTerms (ts_add t st) n = if t_order t =? n then getTerms st n ++ [t] else getTerms st n.
Proof. unfold Lattice.getTerms, Lattice.ts_add. cbn [terms]. apply tm_get_push. Qed.

Lemma getTerms_push_all (ts : list term) (st : state) (n : nat) :
  getTerms (push_all ts st) n = getTerms st n ++ filter (fun t => t_order t =? n) ts.
Proof.
  revert st. induction ts as [|t ts IH]; intros st; cbn [Lattice.push_all fold_left filter].
  - rewrite app_nil_r. reflexivity.
  - change (fold_left (fun s t0 => ts_add t0 s) ts (ts_add t st)) with (push_all ts (ts_add t st)).
    rewrite IH, getTerms_ts_add. destruct (t_order t =? n).
    + rewrite <- app_assoc. reflexivity.
    + reflexivity.
Qed.

Lemma sites_push_all (ts : list term) (st : state) : sites (push_all ts st) = sites st.
Proof.
  revert st. induction ts as [|t ts IH]; intros st; cbn [Lattice.push_all fold_left]; [reflexivity|].
  change (fold_left (fun s t0 => ts_add t0 s) ts (ts_add t st)) with (push_all ts (ts_add t st)).
  rewrite IH. reflexivity.
Qed.

Lemma maxorder_push_all (ts : list term) (st : state) :
  maxorder (push_all ts st) = fold_left Nat.max (map t_order ts) (maxorder st).
Proof.
  revert st. induction ts as [|t ts IH]; intros st; cbn [Lattice.push_all fold_left map]; [reflexivity|].
  change (fold_left (fun s t0 => ts_add t0 s) ts (ts_add t st)) with (push_all ts (ts_add t st)).
  rewrite IH. f_equal. unfold Lattice.ts_add. cbn [maxorder].
  destruct (maxorder st <? t_order t) eqn:E; lia.
Qed.

Lemma push_all_nil (st : state) : push_all [] st = st.
Proof. reflexivity. Qed.

Lemma push_all_app (a b : list term) (st : state) : push_all (a ++ b) st = push_all b (push_all a st).
Proof. unfold Lattice.push_all. apply fold_left_app. Qed.

(** ** the validation loop of Lattice::addTerm is the specification predicate *)
Lemma validate_spec (m : site_map L) :
  forall (n : nat) (ls : list L) (os ss : list nat),
  length ls = n -> length os = n -> length ss = n ->
  validate m n ls os ss = if all3 L (item_ok m) ls os ss then Done tt else Throws exWrongLabel.
Proof.
  induction n as [|n IH]; intros ls os ss Hl Ho Hs.
  - destruct ls; [|discriminate Hl]. reflexivity.
  - destruct ls as [|l ls]; [discriminate Hl|]. destruct os as [|o os]; [discriminate Ho|].
    destruct ss as [|s ss]; [discriminate Hs|].
    cbn [Lattice.validate all3]. unfold Lattice.item_ok at 1.
    destruct (find_site l m) as [[norb nspin]|]; [|reflexivity].
    destruct (norb <=? o) eqn:E1.
    + replace (o <? norb) with false by lia. reflexivity.
    + replace (o <? norb) with true by lia. destruct (nspin <=? s) eqn:E2.
      * replace (s <? nspin) with false by lia. reflexivity.
      * replace (s <? nspin) with true by lia. cbn [andb].
        apply IH; [injection Hl|injection Ho|injection Hs]; auto.
Qed.

Lemma term_wfb_true (t : term) :
  term_wfb t = true ->
  length (t_labels t) = t_order t /\ length (t_orbs t) = t_order t /\ length (t_spins t) = t_order t.
Proof. unfold Lattice.term_wfb. lia. Qed.

(** Lattice::addTerm, completely: *)
Lemma w_addTerm_spec (m : site_map L) (t : term) :
  term_wfb t = true ->
  w_addTerm m t =
  if term_valid m t then (if vnz vo (t_val t) then ([t], Done tt) else ([], Done tt))
  else ([], Throws exWrongLabel).
Proof.
  intros Hwf. apply term_wfb_true in Hwf. destruct Hwf as [Hl [Ho Hs]].
  unfold Lattice.w_addTerm. rewrite (validate_spec m _ _ _ _ Hl Ho Hs).
  unfold Lattice.term_valid. destruct (all3 L (item_ok m) (t_labels t) (t_orbs t) (t_spins t)); [|reflexivity].
  unfold wwhen. destruct (vnz vo (t_val t)); reflexivity.
Qed.

(** ** effects *)
Definition wgood (P : term -> Prop) (w : W) : Prop := snd w = Done tt /\ Forall P (fst w).
(** good, or an exception with nothing pushed *)
Definition wfine (P : term -> Prop) (w : W) : Prop := wgood P w \/ exists c, w = ([], Throws c).

Lemma wgood_ret (P : term -> Prop) : wgood P (wret L V).
Proof. split; [reflexivity|constructor]. Qed.

Lemma wgood_push (P : term -> Prop) (t : term) : P t -> wgood P (wpush L V t).
Proof. intros H. split; [reflexivity|]. constructor; [exact H|constructor]. Qed.

Lemma wgood_seq (P : term -> Prop) (a b : W) : wgood P a -> wgood P b -> wgood P (wseq L V a b).
Proof.
  intros [Ea Fa] [Eb Fb]. unfold wseq. rewrite Ea. cbn [fst snd]. split; [exact Eb|].
  apply Forall_app. split; assumption.
Qed.

Lemma wgood_when (P : term -> Prop) (c : bool) (a : W) : (c = true -> wgood P a) -> wgood P (wwhen L V c a).
Proof. intros H. unfold wwhen. destruct c; [apply H; reflexivity|apply wgood_ret]. Qed.

Lemma wgood_for_from (P : term -> Prop) (body : nat -> W) :
  forall k a, (forall i, a <= i < a + k -> wgood P (body i)) -> wgood P (wfor_from L V k a body).
Proof.
  induction k as [|k IH]; intros a H; cbn [wfor_from].
  - apply wgood_ret.
  - apply wgood_seq.
    + apply H. lia.
    + apply IH. intros i Hi. apply H. lia.
Qed.

Lemma wgood_for (P : term -> Prop) (n : nat) (body : nat -> W) :
  (forall i, i < n -> wgood P (body i)) -> wgood P (wfor L V n body).
Proof. intros H. unfold wfor. apply wgood_for_from. intros i Hi. apply H. lia. Qed.

Lemma wgood_push_f (P : term -> Prop) (f : fcall L V) :
  (exists t, factory f = Done t /\ P t) -> wgood P (wpush_f f).
Proof. intros [t [E H]]. unfold Lattice.wpush_f. rewrite E. apply wgood_push. exact H. Qed.

Lemma wgood_add_f (m : site_map L) (f : fcall L V) :
  (exists t, factory f = Done t /\ term_wfb t = true /\ term_valid m t = true) ->
  wgood (fun t => term_valid m t = true) (wadd_f m f).
Proof.
  intros [t [E [Hwf Hv]]]. unfold Lattice.wadd_f. rewrite E, (w_addTerm_spec m t Hwf), Hv.
  destruct (vnz vo (t_val t)).
  - apply (wgood_push (fun t => term_valid m t = true)). exact Hv.
  - apply (wgood_ret (fun t => term_valid m t = true)).
Qed.

Lemma item_ok_intro (m : site_map L) (l : L) (o s a b : nat) :
  find_site l m = Some (a, b) -> o < a -> s < b -> item_ok m l o s = true.
Proof. intros E Ho Hs. unfold Lattice.item_ok. rewrite E. lia. Qed.

Lemma item_ok_elim (m : site_map L) (l : L) (o s : nat) :
  item_ok m l o s = true -> exists a b, find_site l m = Some (a, b) /\ o < a /\ s < b.
Proof.
  unfold Lattice.item_ok. destruct (find_site l m) as [[a b]|]; [|discriminate].
  intros H. exists a, b. split; [reflexivity|lia].
Qed.

(** * Layer 2: the generated factories *)

Ltac unfold_gen :=
  cbv [Lattice.factory mk
       Hopping7_throws Hopping7_ops Hopping7_labels Hopping7_orbitals Hopping7_spins
       Hopping5_throws Hopping5_ops Hopping5_labels Hopping5_orbitals Hopping5_spins
       Level4_throws Level4_ops Level4_labels Level4_orbitals Level4_spins
       NupNdown7_throws NupNdown7_ops NupNdown7_labels NupNdown7_orbitals NupNdown7_spins
       NupNdown6_throws NupNdown6_ops NupNdown6_labels NupNdown6_orbitals NupNdown6_spins
       NupNdown4_throws NupNdown4_ops NupNdown4_labels NupNdown4_orbitals NupNdown4_spins
       NupNdown5_throws NupNdown5_ops NupNdown5_labels NupNdown5_orbitals NupNdown5_spins
       Spinflip6_throws Spinflip6_ops Spinflip6_labels Spinflip6_orbitals Spinflip6_spins
       PairHopping6_throws PairHopping6_ops PairHopping6_labels PairHopping6_orbitals PairHopping6_spins
       SplusSminus4_throws SplusSminus4_ops SplusSminus4_labels SplusSminus4_orbitals SplusSminus4_spins
       SminusSplus4_throws SminusSplus4_ops SminusSplus4_labels SminusSplus4_orbitals SminusSplus4_spins].

(** every factory either throws exWrongIndices or returns a well-formed term; it throws exactly on the
    argument combinations it is documented to be undefined for *)
Lemma factory_total (f : fcall L V) :
  if factory_defined L V f then exists t, factory f = Done t /\ term_wfb t = true
  else factory f = Throws exWrongIndices.
Proof.
  destruct f; cbn [factory_defined]; unfold_gen;
    repeat match goal with
           | |- context [leqb ?a ?b] => destruct (leqb a b)
           | |- context [Nat.eqb ?a ?b] => destruct (Nat.eqb a b)
           end; cbn [andb orb negb];
    try (eexists; split; reflexivity); reflexivity.
Qed.

Lemma factory_wf (f : fcall L V) (t : term) : factory f = Done t -> term_wfb t = true.
Proof.
  intros E. pose proof (factory_total f) as H. destruct (factory_defined L V f).
  - destruct H as [t' [E' Hwf]]. rewrite E in E'. injection E' as ->. exact Hwf.
  - rewrite E in H. discriminate.
Qed.

Lemma factory_outcomes (f : fcall L V) :
  (exists t, factory f = Done t) \/ factory f = Throws exWrongIndices.
Proof.
  pose proof (factory_total f) as H. destruct (factory_defined L V f).
  - left. destruct H as [t [E _]]. exists t. exact E.
  - right. exact H.
Qed.

Notation valid m := (fun t : term => term_valid m t = true).

Lemma fac_level (m : site_map L) (l : L) (v : V) (o s : nat) :
  item_ok m l o s = true ->
  exists t, factory (FLevel4 l v o s) = Done t /\ term_valid m t = true.
Proof.
  intros H. eexists. split; [unfold_gen; reflexivity|].
  cbv [Lattice.term_valid t_labels t_orbs t_spins all3]. rewrite H. reflexivity.
Qed.

Lemma fac_nn7 (m : site_map L) (l1 l2 : L) (v : V) (o1 o2 s1 s2 : nat) :
  item_ok m l1 o1 s1 = true -> item_ok m l2 o2 s2 = true ->
  exists t, factory (FNupNdown7 l1 l2 v o1 o2 s1 s2) = Done t /\ term_valid m t = true.
Proof.
  intros H1 H2. unfold_gen.
  destruct (leqb l1 l2 && (s1 =? s2) && (o1 =? o2)); eexists; (split; [reflexivity|]);
    cbv [Lattice.term_valid t_labels t_orbs t_spins all3]; rewrite ?H1, ?H2; reflexivity.
Qed.

Lemma fac_nn6 (m : site_map L) (l : L) (v : V) (o1 o2 s1 s2 : nat) :
  item_ok m l o1 s1 = true -> item_ok m l o2 s2 = true ->
  exists t, factory (FNupNdown6 l v o1 o2 s1 s2) = Done t /\ term_valid m t = true.
Proof.
  intros H1 H2. unfold_gen.
  destruct (leqb l l && (s1 =? s2) && (o1 =? o2)); eexists; (split; [reflexivity|]);
    cbv [Lattice.term_valid t_labels t_orbs t_spins all3]; rewrite ?H1, ?H2; reflexivity.
Qed.

Lemma fac_spinflip (m : site_map L) (l : L) (v : V) (o1 o2 s1 s2 : nat) :
  o1 <> o2 -> s1 <> s2 ->
  item_ok m l o1 s1 = true -> item_ok m l o2 s2 = true -> item_ok m l o2 s1 = true -> item_ok m l o1 s2 = true ->
  exists t, factory (FSpinflip6 l v o1 o2 s1 s2) = Done t /\ term_valid m t = true.
Proof.
  intros No Ns H1 H2 H3 H4. unfold_gen.
  replace (o1 =? o2) with false by lia. replace (s1 =? s2) with false by lia. cbn [orb].
  eexists. split; [reflexivity|].
  cbv [Lattice.term_valid t_labels t_orbs t_spins all3]. rewrite H1, H2, H3, H4. reflexivity.
Qed.

Lemma fac_pairhop (m : site_map L) (l : L) (v : V) (o1 o2 s1 s2 : nat) :
  o1 <> o2 -> s1 <> s2 ->
  item_ok m l o1 s1 = true -> item_ok m l o2 s2 = true -> item_ok m l o2 s1 = true -> item_ok m l o1 s2 = true ->
  exists t, factory (FPairHopping6 l v o1 o2 s1 s2) = Done t /\ term_valid m t = true.
Proof.
  intros No Ns H1 H2 H3 H4. unfold_gen.
  replace (o1 =? o2) with false by lia. replace (s1 =? s2) with false by lia. cbn [orb].
  eexists. split; [reflexivity|].
  cbv [Lattice.term_valid t_labels t_orbs t_spins all3]. rewrite H1, H2, H3, H4. reflexivity.
Qed.

Lemma fac_spm (m : site_map L) (l1 l2 : L) (v : V) (o : nat) :
  item_ok m l1 o spin_up = true -> item_ok m l1 o spin_down = true ->
  item_ok m l2 o spin_up = true -> item_ok m l2 o spin_down = true ->
  (exists t, factory (FSplusSminus4 l1 l2 v o) = Done t /\ term_valid m t = true) /\
  (exists t, factory (FSminusSplus4 l1 l2 v o) = Done t /\ term_valid m t = true).
Proof.
  intros H1 H2 H3 H4. split; unfold_gen; (eexists; split; [reflexivity|]);
    cbv [Lattice.term_valid t_labels t_orbs t_spins all3]; rewrite H1, H2, H3, H4; reflexivity.
Qed.

Lemma fac_hop7 (m : site_map L) (l1 l2 : L) (v : V) (o1 o2 s1 s2 : nat) :
  item_ok m l1 o1 s1 = true -> item_ok m l2 o2 s2 = true ->
  exists t, factory (FHopping7 l1 l2 v o1 o2 s1 s2) = Done t /\ term_wfb t = true /\ term_valid m t = true.
Proof.
  intros H1 H2. eexists. split; [unfold_gen; reflexivity|]. split; [reflexivity|].
  cbv [Lattice.term_valid t_labels t_orbs t_spins all3]. rewrite H1, H2. reflexivity.
Qed.


(** * Layer 3: the LatticePresets functions *)

Ltac iok := (eapply item_ok_intro; [eassumption | unfold spin_up, spin_down; lia | unfold spin_up, spin_down; lia]).
Ltac thrown := (eexists; reflexivity).

Lemma fac_splus (m : site_map L) (l1 l2 : L) (v : V) (o : nat) :
  item_ok m l1 o spin_up = true -> item_ok m l1 o spin_down = true ->
  item_ok m l2 o spin_up = true -> item_ok m l2 o spin_down = true ->
  exists t, factory (FSplusSminus4 l1 l2 v o) = Done t /\ term_valid m t = true.
Proof. intros H1 H2 H3 H4. exact (proj1 (fac_spm m l1 l2 v o H1 H2 H3 H4)). Qed.

Lemma fac_sminus (m : site_map L) (l1 l2 : L) (v : V) (o : nat) :
  item_ok m l1 o spin_up = true -> item_ok m l1 o spin_down = true ->
  item_ok m l2 o spin_up = true -> item_ok m l2 o spin_down = true ->
  exists t, factory (FSminusSplus4 l1 l2 v o) = Done t /\ term_valid m t = true.
Proof. intros H1 H2 H3 H4. exact (proj2 (fac_spm m l1 l2 v o H1 H2 H3 H4)). Qed.

(** structural decomposition of an effect; leaves are pushes of factory terms *)
Ltac wg :=
  repeat first
    [ apply wgood_ret
    | apply wgood_seq
    | apply wgood_when; intros ?
    | apply wgood_for; intros ? ?
    | apply wgood_push_f ].
Ltac leaf :=
  first [ apply fac_level | apply fac_nn6 | apply fac_nn7 | apply fac_spinflip | apply fac_pairhop
        | apply fac_splus | apply fac_sminus ]; try iok; try lia.

Definition spec_of (m : site_map L) (defined : bool) (w : W) : Prop :=
  if defined then wgood (valid m) w else exists c, w = ([], Throws c).

Lemma coulombS_spec (m : site_map L) (l : L) (U lev : V) :
  spec_of m (preset_defined m (PCoulombS l U lev)) (addCoulombS L leqb V vo m l U lev).
Proof.
  unfold spec_of. cbn [Lattice.preset_defined]. unfold addCoulombS.
  destruct (find_site l m) as [[norb nspin]|] eqn:E; [|thrown].
  wg; leaf.
Qed.

Lemma level_spec (m : site_map L) (l : L) (lev : V) :
  spec_of m (preset_defined m (PLevel l lev)) (addLevel L leqb V vo m l lev).
Proof.
  unfold spec_of. cbn [Lattice.preset_defined]. unfold addLevel.
  destruct (find_site l m) as [[norb nspin]|] eqn:E; [|thrown].
  wg; leaf.
Qed.

Lemma coulombP_spec (m : site_map L) (l : L) (U Up J lev : V) :
  spec_of m (preset_defined m (PCoulombP l U Up J lev)) (addCoulombP L leqb V vo m l U Up J lev).
Proof.
  unfold spec_of. cbn [Lattice.preset_defined]. unfold addCoulombP.
  destruct (find_site l m) as [[norb nspin]|] eqn:E; [|thrown].
  destruct ((1 <? norb) && (1 <? nspin)) eqn:D.
  - replace ((norb <=? 1) || (nspin <=? 1)) with false by lia.
    wg; leaf.
  - replace ((norb <=? 1) || (nspin <=? 1)) with true by lia. thrown.
Qed.

Lemma magnetization_spec (m : site_map L) (l : L) (mag : V) :
  spec_of m (preset_defined m (PMagnetization l mag)) (addMagnetization L leqb V vo m l mag).
Proof.
  unfold spec_of. cbn [Lattice.preset_defined]. unfold addMagnetization.
  destruct (find_site l m) as [[norb nspin]|] eqn:E; [|thrown].
  destruct (nspin =? 2) eqn:D; cbn [negb]; [|thrown].
  wg; leaf.
Qed.

Lemma szsz_spec (cfg : config) (m : site_map L) (l1 l2 : L) (J : V) :
  fix_shapecheck cfg = true ->
  spec_of m (preset_defined m (PSzSz l1 l2 J)) (addSzSz L leqb V vo cfg m l1 l2 J).
Proof.
  intros F. unfold spec_of. cbn [Lattice.preset_defined]. unfold addSzSz, cmp_spins, same_shape. rewrite F.
  destruct (find_site l1 m) as [[a1 b1]|] eqn:E1; [|thrown].
  destruct (find_site l2 m) as [[a2 b2]|] eqn:E2; [|thrown].
  cbn [fst snd].
  destruct ((a1 =? a2) && (b1 =? b2) && (b1 =? 2)) eqn:D.
  - replace (negb (a1 =? a2) || negb (b1 =? b2)) with false by lia.
    replace (negb (b1 =? 2)) with false by lia.
    apply wgood_for; intros i Hi.
    destruct (negb (leqb l1 l2)); wg; leaf.
  - destruct (negb (a1 =? a2) || negb (b1 =? b2)) eqn:C; [thrown|].
    replace (negb (b1 =? 2)) with true by lia. thrown.
Qed.

Lemma ss_spec (cfg : config) (m : site_map L) (l1 l2 : L) (J : V) :
  fix_shapecheck cfg = true ->
  spec_of m (preset_defined m (PSS l1 l2 J)) (addSS L leqb V vo cfg m l1 l2 J).
Proof.
  intros F. pose proof (szsz_spec cfg m l1 l2 J F) as Hz. revert Hz.
  unfold spec_of. cbn [Lattice.preset_defined]. unfold addSS, cmp_spins, same_shape. rewrite F.
  destruct (find_site l1 m) as [[a1 b1]|] eqn:E1; [|intros _; thrown].
  destruct (find_site l2 m) as [[a2 b2]|] eqn:E2; [|intros _; thrown].
  cbn [fst snd].
  destruct ((a1 =? a2) && (b1 =? b2) && (b1 =? 2)) eqn:D; intros Hz.
  - replace (negb (a1 =? a2) || negb (b1 =? b2)) with false by lia.
    replace (negb (b1 =? 2)) with false by lia.
    apply wgood_seq; [exact Hz|].
    wg; leaf.
  - destruct (negb (a1 =? a2) || negb (b1 =? b2)) eqn:C; [thrown|].
    replace (negb (b1 =? 2)) with true by lia. thrown.
Qed.

Lemma hop8_good (m : site_map L) (l1 l2 : L) (t : V) (o1 o2 s1 s2 : nat) :
  item_ok m l1 o1 s1 = true -> item_ok m l2 o2 s2 = true ->
  wgood (valid m) (addHopping8 L leqb V vo m l1 l2 t o1 o2 s1 s2).
Proof.
  intros H1 H2.
  destruct (item_ok_elim m l1 o1 s1 H1) as [a1 [b1 [E1 [Ho1 Hs1]]]].
  destruct (item_ok_elim m l2 o2 s2 H2) as [a2 [b2 [E2 [Ho2 Hs2]]]].
  unfold addHopping8. rewrite E1, E2. cbn [fst snd].
  replace ((a1 <=? o1) || (a2 <=? o2) || (b1 <=? s1) || (b2 <=? s2)) with false by lia.
  apply wgood_seq; apply wgood_add_f; apply fac_hop7; assumption.
Qed.

Lemma hop8_spec (m : site_map L) (l1 l2 : L) (t : V) (o1 o2 s1 s2 : nat) :
  spec_of m (preset_defined m (PHopping8 l1 l2 t o1 o2 s1 s2)) (addHopping8 L leqb V vo m l1 l2 t o1 o2 s1 s2).
Proof.
  unfold spec_of. cbn [Lattice.preset_defined].
  destruct (item_ok m l1 o1 s1 && item_ok m l2 o2 s2) eqn:D.
  - apply andb_prop in D. destruct D as [D1 D2]. apply hop8_good; assumption.
  - revert D. unfold addHopping8, Lattice.item_ok.
    destruct (find_site l1 m) as [[a1 b1]|] eqn:E1; [|intros _; thrown].
    destruct (find_site l2 m) as [[a2 b2]|] eqn:E2; [|intros _; thrown].
    cbn [fst snd]. intros D.
    replace ((a1 <=? o1) || (a2 <=? o2) || (b1 <=? s1) || (b2 <=? s2)) with true by lia. thrown.
Qed.

Lemma hop6_spec (cfg : config) (m : site_map L) (l1 l2 : L) (t : V) (o1 o2 : nat) :
  fix_shapecheck cfg = true ->
  spec_of m (preset_defined m (PHopping6 l1 l2 t o1 o2)) (addHopping6 L leqb V vo cfg m l1 l2 t o1 o2).
Proof.
  intros F. unfold spec_of. cbn [Lattice.preset_defined]. unfold addHopping6, cmp_spins. rewrite F.
  destruct (find_site l1 m) as [[a1 b1]|] eqn:E1; [|thrown].
  destruct (find_site l2 m) as [[a2 b2]|] eqn:E2; [|thrown].
  cbn [fst snd].
  destruct ((o1 <? a1) && (o2 <? a2) && (b1 =? b2)) eqn:D.
  - replace ((a1 <=? o1) || (a2 <=? o2)) with false by lia.
    replace (negb (b1 =? b2)) with false by lia.
    apply wgood_for; intros z Hz. apply hop8_good; iok.
  - destruct ((a1 <=? o1) || (a2 <=? o2)) eqn:C; [thrown|].
    replace (negb (b1 =? b2)) with true by lia. thrown.
Qed.

Lemma hop4_spec (cfg : config) (m : site_map L) (l1 l2 : L) (t : V) :
  fix_shapecheck cfg = true ->
  spec_of m (preset_defined m (PHopping4 l1 l2 t)) (addHopping4 L leqb V vo cfg m l1 l2 t).
Proof.
  intros F. unfold spec_of. cbn [Lattice.preset_defined]. unfold addHopping4, cmp_spins, same_shape. rewrite F.
  destruct (find_site l1 m) as [[a1 b1]|] eqn:E1; [|thrown].
  destruct (find_site l2 m) as [[a2 b2]|] eqn:E2; [|thrown].
  cbn [fst snd].
  destruct ((a1 =? a2) && (b1 =? b2)) eqn:D.
  - replace (negb (a1 =? a2) || negb (b1 =? b2)) with false by lia.
    apply wgood_for; intros z Hz. apply wgood_for; intros i Hi. apply hop8_good; iok.
  - replace (negb (a1 =? a2) || negb (b1 =? b2)) with true by lia. thrown.
Qed.

(** Every preset, with the shape check repaired: on the lattices it is defined for it ends normally and
    hands only valid terms to the storage; otherwise it throws before anything is stored. *)
Theorem preset_spec (cfg : config) (m : site_map L) (p : pcall L V) :
  fix_shapecheck cfg = true ->
  spec_of m (preset_defined m p) (preset cfg m p).
Proof.
  intros F. destruct p; cbn [Lattice.preset].
  - apply coulombS_spec.
  - apply coulombP_spec.
  - unfold addCoulombP3. apply (coulombP_spec m l U (vsub vo U (vdbl vo J)) J lev).
  - apply level_spec.
  - apply magnetization_spec.
  - apply szsz_spec; exact F.
  - apply ss_spec; exact F.
  - apply hop8_spec.
  - unfold addHopping7. apply (hop8_spec m l1 l2 t o1 o2 s s).
  - apply hop6_spec; exact F.
  - apply hop4_spec; exact F.
Qed.


(** * Layer 4: the theorems of C20 *)

Notation copy := (copy L V).
Notation getSite := (getSite L leqb V).

(** the one side condition on calls: a raw term's vectors have the length of its operator sequence (true of
    every term built with Term's constructors) *)
Definition op_wf (o : op) : Prop :=
  match o with
  | AddTerm t => term_wfb t = true
  | _ => True
  end.

Definition is_effect_op (o : op) : bool :=
  match o with AddTerm _ | AddFactoryTerm _ | Preset _ => true | _ => false end.

Lemma step_effect (cfg : config) (o : op) (st : state) :
  is_effect_op o = true ->
  step cfg o st = (push_all (fst (effect cfg (sites st) o)) st, result_of L V (snd (effect cfg (sites st) o))).
Proof. destruct o; cbn [is_effect_op]; intros E; try discriminate E; reflexivity. Qed.

Lemma effect_other (cfg : config) (m : site_map L) (o : op) :
  is_effect_op o = false -> effect cfg m o = wret L V.
Proof. destruct o; cbn [is_effect_op]; intros E; try discriminate E; reflexivity. Qed.

(** ** addTerm *)

Theorem addTerm_rejects_invalid (cfg : config) (st : state) (t : term) :
  term_wfb t = true -> term_valid (sites st) t = false ->
  step cfg (AddTerm t) st = (st, Throws exWrongLabel).
Proof.
  intros Hwf Hv. rewrite step_effect by reflexivity. cbn [Lattice.effect].
  rewrite (w_addTerm_spec _ t Hwf), Hv. reflexivity.
Qed.

Theorem addTerm_zero_ignored (cfg : config) (st : state) (t : term) :
  term_wfb t = true -> vnz vo (t_val t) = false ->
  step cfg (AddTerm t) st = (st, if term_valid (sites st) t then Done ONone else Throws exWrongLabel).
Proof.
  intros Hwf Hz. rewrite step_effect by reflexivity. cbn [Lattice.effect].
  rewrite (w_addTerm_spec _ t Hwf), Hz. destruct (term_valid (sites st) t); reflexivity.
Qed.

Theorem addTerm_accepts_valid (cfg : config) (st : state) (t : term) :
  term_wfb t = true -> term_valid (sites st) t = true -> vnz vo (t_val t) = true ->
  step cfg (AddTerm t) st = (ts_add t st, Done ONone) /\
  sites (ts_add t st) = sites st /\
  forall n, getTerms (ts_add t st) n = if t_order t =? n then getTerms st n ++ [t] else getTerms st n.
Proof.
  intros Hwf Hv Hz. split; [|split].
  - rewrite step_effect by reflexivity. cbn [Lattice.effect].
    rewrite (w_addTerm_spec _ t Hwf), Hv, Hz. reflexivity.
  - reflexivity.
  - intros n. apply getTerms_ts_add.
Qed.

(** the terms a raw addTerm contributes to the storage *)
Lemma effect_addTerm (cfg : config) (m : site_map L) (t : term) :
  term_wfb t = true ->
  fst (effect cfg m (AddTerm t)) = if term_valid m t && vnz vo (t_val t) then [t] else [].
Proof.
  intros Hwf. cbn [Lattice.effect]. rewrite (w_addTerm_spec _ t Hwf).
  destruct (term_valid m t); destruct (vnz vo (t_val t)); reflexivity.
Qed.

(** L.addTerm(Presets::F(...)): undefined argument combinations and invalid terms are rejected *)
Theorem factoryTerm_rejects (cfg : config) (st : state) (f : fcall L V) :
  (factory_defined L V f = false -> step cfg (AddFactoryTerm f) st = (st, Throws exWrongIndices)) /\
  (forall t, factory f = Done t -> term_valid (sites st) t = false ->
             step cfg (AddFactoryTerm f) st = (st, Throws exWrongLabel)).
Proof.
  split.
  - intros Hd. pose proof (factory_total f) as H. rewrite Hd in H.
    rewrite step_effect by reflexivity. cbn [Lattice.effect]. unfold Lattice.wadd_f. rewrite H. reflexivity.
  - intros t E Hv. rewrite step_effect by reflexivity. cbn [Lattice.effect]. unfold Lattice.wadd_f. rewrite E.
    rewrite (w_addTerm_spec _ t (factory_wf f t E)), Hv. reflexivity.
Qed.

(** ** every call that adds terms *)

Lemma w_addTerm_fine (m : site_map L) (t : term) :
  term_wfb t = true -> wfine (valid m) (w_addTerm m t).
Proof.
  intros Hwf. rewrite (w_addTerm_spec m t Hwf). destruct (term_valid m t) eqn:Hv.
  - left. destruct (vnz vo (t_val t)).
    + apply (wgood_push (valid m)). exact Hv.
    + apply (wgood_ret (valid m)).
  - right. thrown.
Qed.

Lemma effect_fine (cfg : config) (m : site_map L) (o : op) :
  fix_shapecheck cfg = true -> op_wf o -> wfine (valid m) (effect cfg m o).
Proof.
  intros F Hwf. destruct o; cbn [Lattice.effect]; try (left; apply (wgood_ret (valid m))).
  - apply w_addTerm_fine. exact Hwf.
  - unfold Lattice.wadd_f. destruct (factory_outcomes f) as [[t E]|E]; rewrite E.
    + apply w_addTerm_fine. exact (factory_wf f t E).
    + right. thrown.
  - pose proof (preset_spec cfg m p F) as H. unfold spec_of in H.
    destruct (preset_defined m p); [left|right]; exact H.
Qed.

(** for raw terms and factory terms no repair is needed *)
Lemma effect_fine_terms (cfg : config) (m : site_map L) (o : op) :
  (match o with Preset _ => False | _ => True end) -> op_wf o -> wfine (valid m) (effect cfg m o).
Proof.
  intros NP Hwf. destruct o; cbn [Lattice.effect]; try (left; apply (wgood_ret (valid m))).
  - apply w_addTerm_fine. exact Hwf.
  - unfold Lattice.wadd_f. destruct (factory_outcomes f) as [[t E]|E]; rewrite E.
    + apply w_addTerm_fine. exact (factory_wf f t E).
    + right. thrown.
  - contradiction.
Qed.

Lemma wfine_forall (P : term -> Prop) (w : W) : wfine P w -> Forall P (fst w).
Proof. intros [[_ H]|[c ->]]; [exact H|constructor]. Qed.

Lemma wfine_throws (P : term -> Prop) (w : W) (c : nat) : wfine P w -> snd w = Throws c -> fst w = [].
Proof. intros [[E _]|[c' ->]] H; [rewrite E in H; discriminate H|reflexivity]. Qed.

Lemma wfine_not_oob (P : term -> Prop) (w : W) : wfine P w -> snd w <> OOB.
Proof. intros [[E _]|[c' ->]]; [rewrite E|]; discriminate. Qed.

Lemma result_of_throws (r : outcome unit) (c : nat) : result_of L V r = Throws c -> r = Throws c.
Proof. destruct r; cbn [result_of]; intros E; try discriminate E. injection E as ->. reflexivity. Qed.

(** "... is rejected with an exception and leaves the lattice unchanged": whenever ANY call ends with an
    exception, the lattice is what it was. *)
Theorem exception_leaves_lattice_unchanged (cfg : config) (o : op) (st st' : state) (c : nat) :
  fix_shapecheck cfg = true -> op_wf o ->
  step cfg o st = (st', Throws c) -> st' = st.
Proof.
  intros F Hwf E. destruct (is_effect_op o) eqn:K.
  - rewrite (step_effect cfg o st K) in E. injection E as E1 E2.
    apply result_of_throws in E2.
    rewrite (wfine_throws _ _ c (effect_fine cfg (sites st) o F Hwf) E2) in E1. symmetry. exact E1.
  - destruct o; try discriminate K; cbn [Lattice.step] in E; try (injection E as E1 E2; discriminate E2).
    injection E as E1 _. symmetry. exact E1.
Qed.

(** the same for raw terms and factory terms in every variant of the code *)
Theorem rejected_term_leaves_lattice_unchanged (cfg : config) (o : op) (st st' : state) (c : nat) :
  (match o with AddTerm _ | AddFactoryTerm _ => True | _ => False end) -> op_wf o ->
  step cfg o st = (st', Throws c) -> st' = st.
Proof.
  intros K Hwf E. assert (K' : is_effect_op o = true) by (destruct o; try contradiction; reflexivity).
  rewrite (step_effect cfg o st K') in E. injection E as E1 E2. apply result_of_throws in E2.
  assert (Hf : wfine (valid (sites st)) (effect cfg (sites st) o)).
  { apply effect_fine_terms; [destruct o; try contradiction; exact I|exact Hwf]. }
  rewrite (wfine_throws _ _ c Hf E2) in E1. symmetry. exact E1.
Qed.

(** ** presets *)

Theorem presets_reject_undefined (cfg : config) (st : state) (p : pcall L V) :
  fix_shapecheck cfg = true -> preset_defined (sites st) p = false ->
  exists c, step cfg (Preset p) st = (st, Throws c).
Proof.
  intros F Hd. pose proof (preset_spec cfg (sites st) p F) as H. unfold spec_of in H. rewrite Hd in H.
  destruct H as [c Hc]. exists c. rewrite step_effect by reflexivity. cbn [Lattice.effect]. rewrite Hc. reflexivity.
Qed.

Theorem presets_accept_defined (cfg : config) (st : state) (p : pcall L V) :
  fix_shapecheck cfg = true -> preset_defined (sites st) p = true ->
  exists ps, step cfg (Preset p) st = (push_all ps st, Done ONone) /\
             Forall (fun t => term_valid (sites st) t = true) ps.
Proof.
  intros F Hd. pose proof (preset_spec cfg (sites st) p F) as H. unfold spec_of in H. rewrite Hd in H.
  destruct H as [E Hall]. exists (fst (preset cfg (sites st) p)). split; [|exact Hall].
  rewrite step_effect by reflexivity. cbn [Lattice.effect]. rewrite E. reflexivity.
Qed.

(** ** the invariant: every stored term refers to existing sites and in-range orbitals / spins *)

Definition stored_valid (st : state) : Prop :=
  forall n t, In t (getTerms st n) -> term_valid (sites st) t = true.

Definition shape_le (a b : shape) : Prop := fst a <= fst b /\ snd a <= snd b.

(** Lattice::addSite overwrites (std::map); re-adding a label with a SMALLER shape invalidates terms that
    were valid when they were added.  The invariant is stated for histories that do not do that. *)
Definition call_ok (st : state) (o : op) : Prop :=
  match o with
  | AddTerm t => term_wfb t = true
  | AddSite l a b => match find_site l (sites st) with Some s0 => shape_le s0 (a, b) | None => True end
  | _ => True
  end.

Fixpoint history_ok (cfg : config) (h : list op) (st : state) : Prop :=
  match h with
  | [] => True
  | o :: h' => call_ok st o /\ history_ok cfg h' (fst (step cfg o st))
  end.

Lemma call_ok_wf (st : state) (o : op) : call_ok st o -> op_wf o.
Proof. destruct o; cbn [call_ok op_wf]; auto. Qed.

Lemma all3_mono (f g : L -> nat -> nat -> bool) :
  (forall l o s, f l o s = true -> g l o s = true) ->
  forall ls os ss, all3 L f ls os ss = true -> all3 L g ls os ss = true.
Proof.
  intros H. induction ls as [|l ls IH]; intros os ss; [reflexivity|].
  destruct os as [|o os]; [reflexivity|]. destruct ss as [|s ss]; [reflexivity|].
  cbn [all3]. intros E. apply andb_prop in E. destruct E as [E1 E2].
  rewrite (H _ _ _ E1), (IH _ _ E2). reflexivity.
Qed.

Lemma item_ok_grow (m : site_map L) (l : L) (a b : nat) (l0 : L) (o s : nat) :
  (match find_site l m with Some s0 => shape_le s0 (a, b) | None => True end) ->
  item_ok m l0 o s = true -> item_ok (set_site l (a, b) m) l0 o s = true.
Proof.
  intros G H. destruct (item_ok_elim m l0 o s H) as [a0 [b0 [E [Ho Hs]]]].
  destruct (leqb_dec l0 l) as [->|N].
  - rewrite E in G. destruct G as [G1 G2]. cbn [fst snd] in G1, G2.
    apply (item_ok_intro _ _ _ _ a b); [apply find_set_same|lia|lia].
  - apply (item_ok_intro _ _ _ _ a0 b0); [rewrite find_set_other by exact N; exact E|lia|lia].
Qed.

Lemma step_preserves_stored_valid (cfg : config) (o : op) (st : state) :
  fix_shapecheck cfg = true -> call_ok st o -> stored_valid st -> stored_valid (fst (step cfg o st)).
Proof.
  intros F Hok Inv. destruct (is_effect_op o) eqn:K.
  - rewrite (step_effect cfg o st K). cbn [fst]. intros n t Hin.
    rewrite sites_push_all. rewrite getTerms_push_all in Hin. apply in_app_or in Hin. destruct Hin as [Hin|Hin].
    + apply (Inv n t Hin).
    + apply filter_In in Hin. destruct Hin as [Hin _].
      pose proof (wfine_forall _ _ (effect_fine cfg (sites st) o F (call_ok_wf st o Hok))) as Hall.
      rewrite Forall_forall in Hall. apply Hall. exact Hin.
  - destruct o; try discriminate K; cbn [Lattice.step fst]; try exact Inv.
    + intros n t Hin. cbn [sites]. unfold Lattice.term_valid.
      apply (all3_mono (item_ok (sites st))).
      * intros l0 o s. apply item_ok_grow. exact Hok.
      * apply (Inv n t). exact Hin.
Qed.

Theorem stored_terms_valid_from (cfg : config) :
  fix_shapecheck cfg = true ->
  forall (h : list op) (st : state), stored_valid st -> history_ok cfg h st -> stored_valid (run cfg h st).
Proof.
  intros F. induction h as [|o h IH]; intros st Inv Hok.
  - exact Inv.
  - destruct Hok as [Hc Hh]. change (run cfg (o :: h) st) with (run cfg h (fst (step cfg o st))).
    apply IH; [apply step_preserves_stored_valid; assumption|exact Hh].
Qed.

Theorem stored_terms_valid (cfg : config) (h : list op) :
  fix_shapecheck cfg = true -> history_ok cfg h init ->
  forall n t, In t (getTerms (run cfg h init) n) -> term_valid (sites (run cfg h init)) t = true.
Proof.
  intros F Hok. apply (stored_terms_valid_from cfg F h init); [|exact Hok].
  intros n t Hin. destruct Hin.
Qed.

(** and, without any condition on the history: what a call stores is valid for the sites of that moment *)
Theorem pushes_valid_when_stored (cfg : config) (o : op) (st : state) :
  fix_shapecheck cfg = true -> op_wf o ->
  Forall (fun t => term_valid (sites st) t = true) (fst (effect cfg (sites st) o)).
Proof. intros F Hwf. apply wfine_forall. apply effect_fine; assumption. Qed.

(** ** no undefined behaviour *)
Theorem no_undefined_behaviour (cfg : config) (o : op) (st : state) :
  fix_getsite cfg = true -> fix_shapecheck cfg = true -> op_wf o ->
  snd (step cfg o st) <> OOB.
Proof.
  intros G F Hwf. destruct (is_effect_op o) eqn:K.
  - rewrite (step_effect cfg o st K). cbn [snd].
    pose proof (wfine_not_oob _ _ (effect_fine cfg (sites st) o F Hwf)) as H.
    destruct (snd (effect cfg (sites st) o)); cbn [result_of]; try discriminate. contradiction.
  - destruct o; try discriminate K; cbn [Lattice.step snd]; try discriminate.
    unfold Lattice.getSite. rewrite G. destruct (find_site l (sites st)); discriminate.
Qed.

(** ** getSite *)

Lemma sites_step (cfg : config) (o : op) (st : state) :
  sites (fst (step cfg o st)) =
  match o with AddSite l a b => set_site l (a, b) (sites st) | _ => sites st end.
Proof.
  destruct (is_effect_op o) eqn:K.
  - rewrite (step_effect cfg o st K). cbn [fst]. rewrite sites_push_all. destruct o; try discriminate K; reflexivity.
  - destruct o; try discriminate K; reflexivity.
Qed.

Lemma find_site_run (cfg : config) (l : L) :
  forall (h : list op) (st : state),
  find_site l (sites (run cfg h st)) = last_added L leqb V l h (find_site l (sites st)).
Proof.
  induction h as [|o h IH]; intros st; [reflexivity|].
  change (run cfg (o :: h) st) with (run cfg h (fst (step cfg o st))).
  rewrite IH, sites_step. destruct o; cbn [last_added]; try reflexivity.
  f_equal. destruct (leqb_dec l l0) as [->|N].
  - rewrite leqb_refl. apply find_set_same.
  - rewrite (leqb_neq l l0 N). apply find_set_other. exact N.
Qed.

(** Looking up a site by label returns the shape most recently added under that label, and fails with
    exWrongLabel for a label that was never added -- after every history. *)
Theorem getSite_spec (cfg : config) (h : list op) (l : L) :
  fix_getsite cfg = true ->
  step cfg (GetSite l) (run cfg h init) =
  (run cfg h init, match last_added L leqb V l h None with
                   | Some s => Done (OSite s)
                   | None => Throws exWrongLabel
                   end).
Proof.
  intros G. cbn [Lattice.step]. unfold Lattice.getSite. rewrite G, find_site_run. reflexivity.
Qed.

Definition not_readded (l : L) (h : list op) : Prop := forall k a b, In (AddSite k a b) h -> k <> l.

Lemma last_added_app (l : L) (h1 h2 : list op) (acc : option shape) :
  last_added L leqb V l (h1 ++ h2) acc = last_added L leqb V l h2 (last_added L leqb V l h1 acc).
Proof.
  revert acc. induction h1 as [|o h1 IH]; intros acc; [reflexivity|].
  cbn [app last_added]. destruct o; apply IH.
Qed.

Lemma last_added_not_readded (l : L) (h : list op) (acc : option shape) :
  not_readded l h -> last_added L leqb V l h acc = acc.
Proof.
  revert acc. induction h as [|o h IH]; intros acc N; [reflexivity|].
  assert (N' : not_readded l h) by (intros k a b Hin; apply (N k a b); right; exact Hin).
  destruct o; cbn [last_added]; try (apply IH; exact N').
  rewrite (leqb_neq l l0).
  - apply IH; exact N'.
  - intros ->. apply (N l0 norb nspin); [left; reflexivity|reflexivity].
Qed.

Theorem getSite_after_addSite (cfg : config) (h1 h2 : list op) (l : L) (a b : nat) :
  fix_getsite cfg = true -> not_readded l h2 ->
  snd (step cfg (GetSite l) (run cfg (h1 ++ AddSite l a b :: h2) init)) = Done (OSite (a, b)).
Proof.
  intros G N. rewrite (getSite_spec cfg _ l G). cbn [snd].
  rewrite last_added_app. cbn [last_added]. rewrite leqb_refl, (last_added_not_readded l h2 _ N). reflexivity.
Qed.

Theorem getSite_unknown_fails (cfg : config) (h : list op) (l : L) :
  fix_getsite cfg = true -> not_readded l h ->
  step cfg (GetSite l) (run cfg h init) = (run cfg h init, Throws exWrongLabel).
Proof.
  intros G N. rewrite (getSite_spec cfg _ l G), (last_added_not_readded l h None N). reflexivity.
Qed.

(** ** terms are retrievable by order *)

Lemma getTerms_step (cfg : config) (o : op) (st : state) (n : nat) :
  getTerms (fst (step cfg o st)) n =
  getTerms st n ++ filter (fun t => t_order t =? n) (fst (effect cfg (sites st) o)).
Proof.
  destruct (is_effect_op o) eqn:K.
  - rewrite (step_effect cfg o st K). cbn [fst]. apply getTerms_push_all.
  - rewrite (effect_other cfg _ o K). cbn [fst wret filter]. rewrite app_nil_r.
    destruct o; try discriminate K; reflexivity.
Qed.

Lemma maxorder_step (cfg : config) (o : op) (st : state) :
  maxorder (fst (step cfg o st)) =
  fold_left Nat.max (map t_order (fst (effect cfg (sites st) o))) (maxorder st).
Proof.
  destruct (is_effect_op o) eqn:K.
  - rewrite (step_effect cfg o st K). cbn [fst]. apply maxorder_push_all.
  - rewrite (effect_other cfg _ o K). cbn [fst wret map fold_left].
    destruct o; try discriminate K; reflexivity.
Qed.

Lemma getTerms_run (cfg : config) (n : nat) :
  forall (h : list op) (st : state),
  getTerms (run cfg h st) n = getTerms st n ++ filter (fun t => t_order t =? n) (accepted cfg h st).
Proof.
  induction h as [|o h IH]; intros st.
  - cbn [Lattice.accepted filter]. rewrite app_nil_r. reflexivity.
  - change (run cfg (o :: h) st) with (run cfg h (fst (step cfg o st))).
    rewrite IH, getTerms_step. cbn [Lattice.accepted]. rewrite filter_app, app_assoc. reflexivity.
Qed.

Lemma maxorder_run (cfg : config) :
  forall (h : list op) (st : state),
  maxorder (run cfg h st) = fold_left Nat.max (map t_order (accepted cfg h st)) (maxorder st).
Proof.
  induction h as [|o h IH]; intros st; [reflexivity|].
  change (run cfg (o :: h) st) with (run cfg h (fst (step cfg o st))).
  rewrite IH, maxorder_step. cbn [Lattice.accepted]. rewrite map_app, fold_left_app. reflexivity.
Qed.

(** getTerms n returns exactly the terms of order n that were accepted during the history, in the order
    in which they were accepted; MaxTermOrder is the largest order accepted.  (Every variant of the code.) *)
Theorem getTerms_by_order (cfg : config) (h : list op) (n : nat) :
  step cfg (GetTerms n) (run cfg h init) =
  (run cfg h init, Done (OTerms (filter (fun t => t_order t =? n) (accepted cfg h init)))).
Proof. cbn [Lattice.step]. rewrite getTerms_run. reflexivity. Qed.

Theorem maxOrder_spec (cfg : config) (h : list op) :
  step cfg MaxOrder (run cfg h init) =
  (run cfg h init, Done (ONat (fold_left Nat.max (map t_order (accepted cfg h init)) 0))).
Proof. cbn [Lattice.step]. rewrite maxorder_run. reflexivity. Qed.

(** ** copies *)
Theorem copy_same_model (st : state) :
  copy st = st /\ sites (copy st) = sites st /\ (forall n, getTerms (copy st) n = getTerms st n) /\
  maxorder (copy st) = maxorder st.
Proof. destruct st. repeat split; reflexivity. Qed.

Theorem copy_behaves_the_same (cfg : config) (o : op) (st : state) :
  step cfg o (fst (step cfg Copy st)) = step cfg o st.
Proof. cbn [Lattice.step fst]. rewrite (proj1 (copy_same_model st)). reflexivity. Qed.

(** the lattice that was copied from is not affected by later calls on the copy (interpreter of the check) *)
Theorem copy_keeps_original (cfg : config) (r : rstate L V) :
  rstep L leqb V vo cfg Copy r = (mkR (cur r) (origs r ++ [cur r]), Done ONone).
Proof. unfold rstep. cbn [Lattice.step]. rewrite (proj1 (copy_same_model (cur r))). reflexivity. Qed.

Theorem originals_frozen (cfg : config) (o : op) (r : rstate L V) :
  o <> Copy -> origs (fst (rstep L leqb V vo cfg o r)) = origs r.
Proof.
  intros N. unfold rstep. destruct (step cfg o (cur r)) as [s x]. destruct o; try reflexivity. contradiction.
Qed.

(** ** the judgement used by the check is sound: the repaired model passes every clause at every call *)

Lemma list_eqb_refl {A} (e : A -> A -> bool) (l : list A) : (forall x, e x x = true) -> list_eqb e l l = true.
Proof. intros H. induction l as [|x l IH]; [reflexivity|]. cbn [list_eqb]. rewrite H, IH. reflexivity. Qed.

Lemma term_eqb_refl (t : term) : (forall v, veqb vo v v = true) -> term_eqb L leqb V vo t t = true.
Proof.
  intros H. unfold term_eqb.
  rewrite (list_eqb_refl Bool.eqb), (list_eqb_refl leqb), !(list_eqb_refl Nat.eqb), H; try reflexivity.
  - apply Nat.eqb_refl.
  - apply Nat.eqb_refl.
  - apply leqb_refl.
  - intros []; reflexivity.
Qed.

Lemma is_exn_result_of (r : outcome unit) : is_exn (result_of L V r) = is_exn r.
Proof. destruct r; reflexivity. Qed.

Lemma judge_term_sound (m : site_map L) (t : term) :
  (forall v, veqb vo v v = true) -> term_wfb t = true ->
  judge_term L leqb V vo m t (is_exn (snd (w_addTerm m t))) (fst (w_addTerm m t)) = [].
Proof.
  intros Hv Hwf. unfold judge_term. rewrite Hwf. cbn [negb]. rewrite (w_addTerm_spec m t Hwf).
  destruct (term_valid m t); cbn [negb]; [|reflexivity].
  destruct (vnz vo (t_val t)); cbn [fst snd is_exn is_nil list_eqb]; [|reflexivity].
  rewrite (term_eqb_refl t Hv). reflexivity.
Qed.

Theorem judge_sound (cfg : config) (o : op) (st : state) :
  (forall v, veqb vo v v = true) -> fix_shapecheck cfg = true -> op_wf o ->
  judge L leqb V vo (sites st) o (is_exn (snd (step cfg o st))) (fst (effect cfg (sites st) o)) = [].
Proof.
  intros Hv F Hwf. unfold judge.
  pose proof (effect_fine cfg (sites st) o F Hwf) as Hf.
  assert (H2 : forallb (term_valid (sites st)) (fst (effect cfg (sites st) o)) = true).
  { apply forallb_forall. pose proof (wfine_forall _ _ Hf) as Hall. rewrite Forall_forall in Hall. exact Hall. }
  rewrite H2. cbn [app].
  destruct (is_effect_op o) eqn:K.
  - rewrite (step_effect cfg o st K). cbn [snd]. rewrite is_exn_result_of.
    assert (H1 : is_exn (snd (effect cfg (sites st) o)) && negb (is_nil (fst (effect cfg (sites st) o))) = false).
    { destruct Hf as [[E _]|[c E]]; rewrite E; reflexivity. }
    rewrite H1. cbn [app].
    destruct o; try discriminate K; cbn [Lattice.effect].
    + apply judge_term_sound; assumption.
    + pose proof (factory_total f) as Ht. unfold Lattice.wadd_f. destruct (factory_defined L V f).
      * destruct Ht as [t [E Hw]]. rewrite E. apply judge_term_sound; assumption.
      * rewrite Ht. reflexivity.
    + pose proof (preset_spec cfg (sites st) p F) as Hp. unfold spec_of in Hp.
      destruct (preset_defined (sites st) p).
      * destruct Hp as [E _]. rewrite E. reflexivity.
      * destruct Hp as [c E]. rewrite E. reflexivity.
  - rewrite (effect_other cfg _ o K). cbn [fst wret is_nil negb]. rewrite andb_false_r. cbn [app].
    destruct o; try discriminate K; reflexivity.
Qed.


(** ** the code as it stands: getSite with the inverted condition, for every state and label *)
Theorem getSite_inverted (cfg : config) (st : state) (l : L) :
  fix_getsite cfg = false ->
  step cfg (GetSite l) st =
  (st, match find_site l (sites st) with Some _ => Throws exWrongLabel | None => OOB end).
Proof.
  intros G. cbn [Lattice.step]. unfold Lattice.getSite. rewrite G.
  destruct (find_site l (sites st)); reflexivity.
Qed.

End Proofs.

(** * Witnesses: labels = nat, amplitudes = Q.
      [_refuted]: the statement fails for the model of the code as it stands ([as_is]); each witness is a
      history that the check replays on the real library.
      [Example]: the hypotheses of the theorems above are satisfiable by non-trivial values. *)
Local Open Scope Q_scope.

Notation qstep := (step nat Nat.eqb Q q_ops).
Notation qrun := (run nat Nat.eqb Q q_ops).
Notation qinit := (init nat Q).
Notation qvalid := (term_valid nat Nat.eqb Q).
Notation qdefined := (preset_defined nat Nat.eqb Q).
Notation qget := (getTerms nat Q).

(** labels: A = 0, B = 1, C = 2.  A has 1 orbital and 2 spins, B has 1 orbital and 1 spin. *)
Definition lA : nat := 0%nat.
Definition lB : nat := 1%nat.
Definition lC : nat := 2%nat.
Definition hAB : list qop := [AddSite lA 1 2; AddSite lB 1 1].

Theorem getSite_after_addSite_refuted :
  exists (h : list qop) (l a b : nat),
    last_added nat Nat.eqb Q l h None = Some (a, b) /\
    snd (qstep as_is (GetSite l) (qrun as_is h qinit)) = Throws exWrongLabel.
Proof. exists [AddSite lA 1 2], lA, 1%nat, 2%nat. split; vm_compute; reflexivity. Qed.

Theorem getSite_unknown_fails_refuted :
  exists (h : list qop) (l : nat),
    not_readded nat Q l h /\ snd (qstep as_is (GetSite l) (qrun as_is h qinit)) = OOB.
Proof.
  exists [], lA. split; [|vm_compute; reflexivity]. intros k a b [].
Qed.

Theorem stored_terms_valid_refuted :
  exists (h : list qop),
    history_ok nat Nat.eqb Q q_ops as_is h qinit /\
    exists n t, In t (qget (qrun as_is h qinit) n) /\ qvalid (sites (qrun as_is h qinit)) t = false.
Proof.
  exists (hAB ++ [Preset (PSzSz lA lB 1)]). split.
  - cbn. repeat split.
  - exists 4%nat. eexists. split; [vm_compute; right; left; reflexivity|vm_compute; reflexivity].
Qed.

Theorem presets_reject_undefined_refuted :
  exists (st : qstate) (p : pcall nat Q),
    qdefined (sites st) p = false /\ snd (qstep as_is (Preset p) st) = Done ONone.
Proof.
  exists (qrun as_is hAB qinit), (PSzSz lA lB 1). split; vm_compute; reflexivity.
Qed.

(** also when no out-of-range term results: site 2 = 1 orbital, 3 spins; addSS is documented for 2 spins *)
Theorem presets_reject_undefined_refuted' :
  exists (st : qstate) (p : pcall nat Q),
    qdefined (sites st) p = false /\ snd (qstep as_is (Preset p) st) = Done ONone /\
    Forall (fun t => qvalid (sites st) t = true) (q_effect as_is st (Preset p)).
Proof.
  exists (qrun as_is [AddSite lA 1 2; AddSite lC 1 3] qinit), (PSS lA lC 1).
  split; [vm_compute; reflexivity|]. split; [vm_compute; reflexivity|].
  vm_compute. repeat constructor.
Qed.

Theorem exception_leaves_lattice_unchanged_refuted :
  exists (o : qop) (st st' : qstate) (c : nat),
    qstep as_is o st = (st', Throws c) /\ maxorder st' <> maxorder st.
Proof.
  exists (Preset (PHopping4 lA lB 1)), (qrun as_is hAB qinit).
  eexists. exists exWrongIndices. split; [vm_compute; reflexivity|]. vm_compute. discriminate.
Qed.

Theorem judge_flags_as_is :
  exists (o : qop) (st : qstate),
    q_judge (sites st) o (is_exn (snd (qstep as_is o st))) (q_effect as_is st o) <> [].
Proof.
  exists (Preset (PSzSz lA lB 1)), (qrun as_is hAB qinit). vm_compute. discriminate.
Qed.

(** Not a defect, but the reason for [history_ok]: addSite overwrites, so re-adding a label with a smaller
    shape leaves terms behind that were valid when they were stored (holds in every variant). *)
Theorem stored_terms_valid_needs_growing_sites :
  exists (h : list qop) n t,
    In t (qget (qrun repaired h qinit) n) /\ qvalid (sites (qrun repaired h qinit)) t = false.
Proof.
  exists [AddSite lA 1 2; Preset (PLevel lA 1); AddSite lA 1 1], 2%nat. eexists.
  split; [vm_compute; right; left; reflexivity|vm_compute; reflexivity].
Qed.

(** ** hypotheses are satisfiable *)

Definition tAB : qterm := mkTerm [true; false] [lA; lB] [0; 0]%nat [1; 0]%nat (1 # 2).    (* c+_{A,0,1} c_{B,0,0} *)
Definition tBad : qterm := mkTerm [true; false] [lA; lB] [0; 0]%nat [1; 1]%nat (1 # 2).   (* spin 1 on B *)
Definition tZero : qterm := mkTerm [true; false] [lA; lB] [0; 0]%nat [1; 0]%nat 0.

Example ex_rejects_invalid :
  term_wfb nat Q tBad = true /\ qvalid (sites (qrun repaired hAB qinit)) tBad = false /\
  qstep as_is (AddTerm tBad) (qrun as_is hAB qinit) = (qrun as_is hAB qinit, Throws exWrongLabel).
Proof. repeat split; vm_compute; reflexivity. Qed.

Example ex_zero_ignored :
  term_wfb nat Q tZero = true /\ vnz q_ops (t_val tZero) = false /\
  qvalid (sites (qrun repaired hAB qinit)) tZero = true.
Proof. repeat split; vm_compute; reflexivity. Qed.

Example ex_accepts_valid :
  term_wfb nat Q tAB = true /\ qvalid (sites (qrun repaired hAB qinit)) tAB = true /\ vnz q_ops (t_val tAB) = true /\
  qget (qrun repaired (hAB ++ [AddTerm tAB]) qinit) 2 = [tAB].
Proof. repeat split; vm_compute; reflexivity. Qed.

(** a history that satisfies [history_ok], re-adds a site with a larger shape, uses raw terms, factory terms
    and presets, and ends with a non-empty storage *)
Definition hOK : list qop :=
  [AddSite lA 1 2; AddSite lB 1 1; AddTerm tAB; AddTerm tBad; AddSite lB 2 2; AddTerm tBad;
   Preset (PSS lA lA 1); Preset (PHopping4 lB lB 1); Preset (PCoulombP lB 1 (1#2) (1#4) 0);
   AddFactoryTerm (FSpinflip6 lB 1 0 1 1 0); AddFactoryTerm (FSpinflip6 lB 1 0 0 1 0);
   GetSite lB; Copy; Preset (PMagnetization lA 1)].

Example ex_history_ok :
  history_ok nat Nat.eqb Q q_ops repaired hOK qinit /\
  length (qget (qrun repaired hOK qinit) 2) = 14%nat /\ length (qget (qrun repaired hOK qinit) 4) = 17%nat.
Proof. split; [cbn; repeat split; cbn; lia|]. split; vm_compute; reflexivity. Qed.

Example ex_not_readded :
  not_readded nat Q lA [AddSite lB 1 1; AddTerm tAB] /\
  last_added nat Nat.eqb Q lA ([AddSite lA 3 3] ++ AddSite lA 1 2 :: [AddSite lB 1 1; AddTerm tAB]) None = Some (1, 2)%nat.
Proof.
  split; [|reflexivity]. intros k a b [H|[H|[]]]; [|discriminate H]. injection H as <- _ _. discriminate.
Qed.

Example ex_preset_defined :
  qdefined (sites (qrun repaired hAB qinit)) (PSzSz lA lA 1) = true /\
  qdefined (sites (qrun repaired hAB qinit)) (PSzSz lA lB 1) = false /\
  qdefined (sites (qrun repaired hAB qinit)) (PHopping6 lA lB 1 0 0) = false /\
  qdefined (sites (qrun repaired hAB qinit)) (PHopping8 lA lB 1 0 0 1 0) = true.
Proof. repeat split; vm_compute; reflexivity. Qed.

Example ex_veqb_refl : forall v : Q, veqb q_ops v v = true.
Proof. intros v. apply Qeq_bool_iff. reflexivity. Qed.
