(** FieldOpGen.v -- the eigenbasis field operators rebuilt around the control structure that the translator reads off the C++ (C10).

    PV.HPart (FieldOperatorPart::compute, the copy loop of FieldOperatorContainer::computeAll) and PV.ContainerHistory (histories
    of prepareAll / computeAll) are hand-written.  translator/gen_ham.py regenerates, on every run, from the tree under test:

      PVgen.Gen_FieldOpPartCompute  gen_fop_...        FieldOperatorPart::compute: shapes, zero fill, the outer loop over the states
                                                       of the `from` block, the guard, ranges / cells / values of the two inner loops,
                                                       which dense matrix reaches sparseView under which condition, sparseView / prune
      PVgen.Gen_FieldOpCompute      gen_fo_compute_... FieldOperator::compute(comm): the loop over the parts
      PVgen.Gen_FocPrepareAll       gen_foc_prepare_...   FieldOperatorContainer::prepareAll
      PVgen.Gen_FocComputeAll       gen_foc_...        FieldOperatorContainer::computeAll: what precedes the loop, the loop, how
                                                       cdag.compute() is called, how c is filled from cdag

    Below, the functions of HPart.v / ContainerHistory.v that these describe are written once more, loop for loop, around the
    generated pieces ([..._src]).  The value expressions of the inner loops are generic in the number type; they are read at
    [outcome K], the matrices being the bounds-checked reads HPart.mget_chk, so that a read outside a matrix stays [OOB].
    PV.FieldOpGenProofs proves `generated piece = what the model has`, `..._src = model`, and the theorems of
    props/Properties_C10_source.v.   Definitions only. *)
Require Import Bool List Arith ZArith.
From PV Require Import Outcome Fock Poly EDSpec HPart HamShapes HPartGen ContainerHistory.
From PVgen Require Import Gen_FieldOpPartCompute Gen_FieldOpCompute Gen_FocPrepareAll Gen_FocComputeAll.
Import ListNotations.

Section Src.
Variable fb : bool.
Variable K : Type.
Variable NO : numops K.
Variable eps : K.
Notation "0" := (n0 K NO).
Notation kadd := (nadd K NO).
Notation ksub := (nsub K NO).
Notation kmul := (nmul K NO).
Notation conj := (nconj K NO).
Notation ltb := (nre_ltb K NO).
Notation kabs := (nabs K NO).

Definition lift1 (f : K -> K) (a : outcome K) : outcome K := bind a (fun x => Done (f x)).
Definition lift2 (f : K -> K -> K) (a b : outcome K) : outcome K := bind a (fun x => bind b (fun y => Done (f x y))).

(** * FieldOperatorPart::compute: the loops.  LeftMat is kept as its list of columns, RightMat as its list of rows, as in
    HPart.fop_fill -- which is what the generated cells (LeftMat(loop, k), RightMat(k, loop)) say; any other cell convention is
    not modelled. *)
Definition fop_fill_src (S : classification) (o : fop) (Hfrom Hto : mat K) (nt nf : nat) (fromStates : list nat)
  : outcome (list (list K) * list (list K)) :=
  let HTo := mget_chk K Hto in
  let HFrom := mget_chk K Hfrom in
  match gen_fop_left_cell, gen_fop_right_cell with
  | (IdxLoop, IdxSource), (IdxSource, IdxLoop) =>
    if gen_fop_zeroed then
      fold_left (fun acc kpos =>
        bind acc (fun LR =>
        match nth_error fromStates kpos with
        | None => OOB
        | Some Kst =>
          bind (act_map K NO eps (sc_M S) (fop_poly K NO o) Kst) (fun result1 =>
            match result1 with
            | [] => Done LR
            | (Lst, sign) :: _ =>
              if gen_fop_guard K ltb kabs eps sign false then
                bind (getInnerState fb S Lst) (fun l =>
                bind (getInnerState fb S Kst) (fun k =>
                bind (outcome_map (fun n => gen_fop_left_value (outcome K) (lift2 kadd) (lift2 ksub) (lift2 kmul) (lift1 conj)
                                                               HTo HFrom (Done sign) l k n) (gen_fop_left_range nt nf))
                     (fun lcol =>
                bind (outcome_map (fun m => gen_fop_right_value (outcome K) (lift2 kadd) (lift2 ksub) (lift2 kmul) (lift1 conj)
                                                                HTo HFrom (Done sign) l k m) (gen_fop_right_range nt nf))
                     (fun rrow =>
                  match set_nth (fst LR) k lcol, set_nth (snd LR) k rrow with
                  | Some L', Some R' => Done (L', R')
                  | _, _ => OOB
                  end))))
              else Done LR
            end)
        end))
        (gen_fop_outer nt nf)
        (Done (repeat (repeat 0 (fst (gen_fop_left_shape nt nf))) (snd (gen_fop_left_shape nt nf)),
               repeat (repeat 0 (snd (gen_fop_right_shape nt nf))) (fst (gen_fop_right_shape nt nf))))
    else Uninit
  | _, _ => Throws ex_unmodelled
  end.

(** which dense matrix goes on: the first generated case whose condition holds *)
Fixpoint pick_dense (cases : list (fop_cond * fop_dense_kind)) (from to : nat) : option fop_dense_kind :=
  match cases with
  | [] => None
  | (c, d) :: r =>
    match c with
    | FCondAlways => Some d
    | FCondToEqFrom => if to =? from then Some d else pick_dense r from to
    | FCondToNeFrom => if to =? from then pick_dense r from to else Some d
    | FCondUnrecognised => None
    end
  end.

Definition fop_dense_src (S : classification) (o : fop) (from to : nat) (Hfrom Hto : mat K) : outcome (mat K) :=
  bind (getFockStates S to) (fun toStates =>
  bind (getFockStates S from) (fun fromStates =>
    let nt := length toStates in
    let nf := length fromStates in
    bind (fop_fill_src S o Hfrom Hto nt nf fromStates) (fun LR =>
      match pick_dense gen_fop_dense_cases from to with
      | Some DenseLeftTimesRight => Done (mmul K NO nf (transpose K NO nt (fst LR)) (snd LR))
      | _ => Throws ex_unmodelled
      end))).

(** sparseView(reference, dummy_precision) and prune(reference, dummy_precision), in the generated order; the reference is the
    member MatrixElementTolerance, whose literal is generated as mantissa * 10^exponent and injected by [ofdec] *)
Definition step_reference (s : fop_sparsify) (tol : K) : option K :=
  match s with
  | StepSparseView RefTolerance | StepPrune RefTolerance => Some tol
  | _ => None
  end.
Fixpoint run_sparsify (steps : list fop_sparsify) (tol prec : K) (m : mat K) : outcome (mat K) :=
  match steps with
  | [] => Done m
  | s :: r => match step_reference s tol with
              | Some reference => run_sparsify r tol prec (prune K NO reference prec m)
              | None => Throws ex_unmodelled
              end
  end.
Definition fop_tolerance_src (ofdec : Z -> Z -> K) : K := ofdec gen_fop_tolerance_mantissa gen_fop_tolerance_exponent.
Definition fop_compute_src (complex_build : bool) (ofdec : Z -> Z -> K) (S : classification) (o : fop) (from to : nat)
    (Hfrom Hto : mat K) (prec : K) : outcome (mat K) :=
  bind (fop_dense_src S o from to Hfrom Hto)
       (run_sparsify (if complex_build then gen_fop_sparsify else gen_fop_sparsify_real) (fop_tolerance_src ofdec) prec).

(** * FieldOperatorContainer::computeAll, the copy into the annihilation operator (HPart.container_copy) with the generated keys *)
Definition pair_key (s : bimap_side) (lr : nat * nat) : nat := match s with SideLeft => fst lr | SideRight => snd lr end.

Definition container_copy_src (ncols : nat -> nat) (cdag_bimap : list (nat * nat)) (cdag_parts : list ((nat * nat) * mat K))
           (c_parts : list (nat * nat)) : outcome (list ((nat * nat) * option (mat K))) :=
  fold_left (fun acc lr =>
    bind acc (fun cs =>
      match assoc_right cdag_parts (pair_key gen_foc_copy_source lr), assoc_right cs (pair_key gen_foc_copy_target lr) with
      | Some (_, m), Some (key, _) =>
        match gen_foc_copy_op with
        | CopyAdjoint =>
          Done (map (fun e => if Nat.eqb (snd (fst e)) (pair_key gen_foc_copy_target lr)
                              then (fst e, Some (adjoint K NO (ncols (snd lr)) m)) else e) cs)
        | CopyTranspose =>
          Done (map (fun e => if Nat.eqb (snd (fst e)) (pair_key gen_foc_copy_target lr)
                              then (fst e, Some (transpose K NO (ncols (snd lr)) m)) else e) cs)
        end
      | _, _ => OOB
      end))
    cdag_bimap (Done (map (fun lr => (lr, None)) c_parts)).

End Src.

(** * FieldOperator::compute(comm): the parts whose compute() is called *)
Definition fo_computed_parts_src (nparts : nat) : list nat := map gen_fo_compute_part (gen_fo_compute_visits nparts).

(** * Histories of a FieldOperatorContainer (PV.ContainerHistory) with the generated prepareAll / computeAll
    [None]: the source does something the model has no description for. *)
Section History.
Variable V : Type.
Variable single_cx : nat -> V.
Variable adjoint : V -> V.
Variable transpose : V -> V.

Definition effective_src (n : nat) (s : list nat) : list nat := match s with [] => gen_foc_prepare_default n | _ => s end.

Definition prepare_all_src (n : nat) (s : list nat) (c : container V) : option (container V) :=
  match gen_foc_prepare_creator, gen_foc_prepare_annihilator with
  | SlotNewPrepared, SlotNewPrepared =>
    let eff := effective_src n s in
    Some (fold_left (fun c i => put V i (fresh V) c) (map (fun k => nth k eff 0) (gen_foc_prepare_visits (length eff))) c)
  | _, _ => None                      (* an operator that was not prepared: its compute() throws *)
  end.

(** one iteration of the loop of computeAll: cdag.compute() (a Computed operator returns at once), then c from cdag *)
Definition compute_entry_src (i : nat) (e : entry V) : entry V :=
  let cx := match e_cx e with Some v => v | None => single_cx i end in
  mkEntry (Some cx)
          (if gen_foc_annihilator_same_index && gen_foc_marks_computed
           then Some (match gen_foc_copy_op with CopyAdjoint => adjoint cx | CopyTranspose => transpose cx end)
           else e_c e).

Definition pre_fires (p : foc_pre) (c : container V) : option bool :=
  match p with
  | PreReturnIfFirstAnnihilatorComputed => Some (match c with (_, mkEntry _ (Some _)) :: _ => true | _ => false end)
  | PreReturnIfFirstCreatorComputed => Some (match c with (_, mkEntry (Some _) _) :: _ => true | _ => false end)
  | PreReturnIfUnrecognised => None
  end.

Fixpoint run_pre (ps : list foc_pre) (c : container V) (loop : container V -> container V) : option (container V) :=
  match ps with
  | [] => Some (loop c)
  | p :: r => match pre_fires p c with
              | None => None
              | Some true => Some c               (* return; *)
              | Some false => run_pre r c loop
              end
  end.

(** the iterations are independent (iteration k touches only the operators of the k-th index): the loop over the positions
    VISITS is "apply the body at the visited positions" *)
Definition visit_map {A} (visits : list nat) (f : A -> A) (l : list A) : list A :=
  map (fun kp => if existsb (Nat.eqb (fst kp)) visits then f (snd kp) else snd kp) (combine (seq 0 (length l)) l).

Definition compute_all_src (c : container V) : option (container V) :=
  match gen_foc_compute_call with
  | CallUnconditional =>
    run_pre gen_foc_compute_all_pre c
            (fun c => visit_map (gen_foc_compute_all_visits (length c)) (fun p => (fst p, compute_entry_src (fst p) (snd p))) c)
  | CallGuarded => None
  end.

Definition do_step_src (n : nat) (st : step) (c : container V) : option (container V) :=
  match st with PrepareAll s => prepare_all_src n s c | ComputeAll => compute_all_src c end.

Definition run_from_src (n : nat) (h : list step) (c : container V) : option (container V) :=
  fold_left (fun oc st => match oc with Some c => do_step_src n st c | None => None end) h (Some c).
Definition run_src (n : nat) (h : list step) : option (container V) := run_from_src n h [].

End History.
