(** Proofs for C02 (two-particle Green's function), about the model PV.Chi and the translator output PVgen.Gen_Multiterm.

    Layer 1 ("characterisation lemmas"): facts proved by unfolding the GENERATED definitions
      (multiterm_eq_doc_phi and the gen_ lemmas).  This is the only place where they are unfolded.
    Layer 2: the sparse walk (chi_walk_complete), the term lists, table vs on-demand evaluation,
      the Lehmann sum. *)
Require Import Bool List Arith ZArith Lia Sorted Permutation Field Ring Setoid.
From PV Require Import Outcome EDSpec Chi.
From PVgen Require Import Gen_Multiterm.
Import ListNotations.

(** * Layer 1: the generated multiterm is the documented kernel *)
Section GenericField.
Variable K : Type.
Variables (k0 k1 : K) (kadd kmul ksub : K -> K -> K) (kopp : K -> K) (kdiv : K -> K -> K) (kinv : K -> K).
Hypothesis Kf : field_theory k0 k1 kadd kmul ksub kopp kdiv kinv (@eq K).
Add Field Kfield : Kf.
Variables (abs_gt abs_lt real_ge : K -> K -> bool).

Notation "0" := k0. Notation "1" := k1.
Infix "+" := kadd. Infix "*" := kmul. Infix "-" := ksub. Infix "/" := kdiv.
Notation "- x" := (kopp x).
Notation G f := (f K kadd ksub kmul kdiv kopp abs_gt abs_lt real_ge) (only parsing).

Definition phi_doc (res12 res23 : bool) (beta Ei Ej Ek El wi wj wk wl z1 z2 z3 : K) : K :=
  let d1 := z1 + Ei - Ej in
  let d3 := z3 + Ek - El in
  (wi + wl) / (d1 * (z1 + z2 + z3 + Ei - El) * d3)
  - (wj + wk) / (d1 * (z2 + Ej - Ek) * d3)
  + (if res12 then beta * wi else (wk - wi) / (z1 + z2 + Ei - Ek)) / (d1 * d3)
  - (if res23 then beta * wj else (wl - wj) / (z2 + z3 + Ej - El)) / (d1 * d3).

Definition emission_value (res12 res23 : bool) (z1 z2 z3 : K) (e : emission K) : K :=
  match e with
  | EmitNonRes _ c p1 p2 p3 f => G nonres_eval c p1 p2 p3 f z1 z2 z3
  | EmitRes _ rc nc p1 p2 p3 f => G res_eval_with (if f then res12 else res23) rc nc p1 p2 p3 f z1 z2 z3
  end.
Definition multiterm_sum (res12 res23 : bool) (tol Coeff beta Ei Ej Ek El wi wj wk wl z1 z2 z3 : K) : K :=
  fold_left (fun acc ge => acc + emission_value res12 res23 z1 z2 z3 (snd ge))
            (G addMultiterm tol Coeff beta Ei Ej Ek El wi wj wk wl) 0.

Theorem multiterm_eq_doc_phi (res12 res23 : bool) (tol Coeff beta Ei Ej Ek El wi wj wk wl z1 z2 z3 : K) :
  z1 + Ei - Ej <> 0 -> z2 + Ej - Ek <> 0 -> z3 + Ek - El <> 0 ->
  z1 + z2 + z3 + Ei - El <> 0 ->
  (res12 = false -> z1 + z2 + Ei - Ek <> 0) ->
  (res23 = false -> z2 + z3 + Ej - El <> 0) ->
  multiterm_sum res12 res23 tol Coeff beta Ei Ej Ek El wi wj wk wl z1 z2 z3
  = Coeff * phi_doc res12 res23 beta Ei Ej Ek El wi wj wk wl z1 z2 z3.
Proof.
  intros H1 H2 H3 H4 H12 H23.
  unfold multiterm_sum, phi_doc, addMultiterm, emission_value.
  cbv [fold_left snd nonres_eval res_eval_with res_value_z1z2 res_value_z2z3 res_diff_z1z2 res_diff_z2z3].
  destruct res12, res23;
    try specialize (H12 eq_refl); try specialize (H23 eq_refl);
    (field; repeat split; try assumption;
     intro HH;
     first [ apply H1; rewrite <- HH; ring | apply H2; rewrite <- HH; ring | apply H3; rewrite <- HH; ring
           | apply H4; rewrite <- HH; ring | apply H12; rewrite <- HH; ring | apply H23; rewrite <- HH; ring ]).
Qed.
End GenericField.

(** * The sparse merge walk *)
Section Walk.
Variable K : Type.
Variable NO : numops K.
Notation slice := (slice K).
Notation smat := (smat K).

Definition idx_lt (a b : nat * K) : Prop := fst a < fst b.
Definition sorted (s : slice) : Prop := StronglySorted idx_lt s.
Definition msorted (m : smat) : Prop := forall o, sorted (outer K m o).

(** specification of the merge walk: for every ket entry, in order, the bra entry with the same inner index, if any *)
Fixpoint common (ket bra : slice) : list (nat * K * K) :=
  match ket with
  | [] => []
  | (i, v) :: kt =>
    match find (fun e => fst e =? i) bra with
    | Some e => (i, v, snd e) :: common kt bra
    | None => common kt bra
    end
  end.

Lemma sorted_tl a s : sorted (a :: s) -> sorted s.
Proof. intros H. inversion H; assumption. Qed.
Lemma sorted_head_lt a s e : sorted (a :: s) -> In e s -> fst a < fst e.
Proof. intros H Hin. inversion H as [|x l Hs Hf]; subst. rewrite Forall_forall in Hf. apply Hf; assumption. Qed.

Lemma advance_nil g t : advance K g t [] = [].
Proof. cbn. rewrite andb_false_r. reflexivity. Qed.
Lemma advance_cons g t i v s : advance K g t ((i, v) :: s) = if i <? t then advance K g t s else (i, v) :: s.
Proof. cbn [advance it_index it_valid]. rewrite andb_true_r. reflexivity. Qed.

(** dropping bra entries below t does not change what entries with index >= t find *)
Lemma find_advance g t k bra : t <= k ->
  find (fun e : nat * K => fst e =? k) (advance K g t bra) = find (fun e => fst e =? k) bra.
Proof.
  intros Htk. induction bra as [|[j u] bt IH].
  - rewrite advance_nil. reflexivity.
  - rewrite advance_cons. destruct (j <? t) eqn:E.
    + rewrite IH. cbn [find fst]. destruct (j =? k) eqn:E2; [|reflexivity].
      apply Nat.eqb_eq in E2. apply Nat.ltb_lt in E. lia.
    + reflexivity.
Qed.

Lemma common_advance_bra g t ket bra : (forall e, In e ket -> t <= fst e) ->
  common ket (advance K g t bra) = common ket bra.
Proof.
  induction ket as [|[i v] kt IH]; intros H; [reflexivity|].
  cbn [common]. rewrite find_advance by (apply (H (i, v)); left; reflexivity).
  rewrite IH by (intros e He; apply H; right; exact He). reflexivity.
Qed.

Lemma find_none_below k (bra : slice) : (forall e, In e bra -> k < fst e) ->
  find (fun e : nat * K => fst e =? k) bra = None.
Proof.
  induction bra as [|[j u] bt IH]; intros H; [reflexivity|].
  cbn [find fst]. destruct (j =? k) eqn:E.
  - apply Nat.eqb_eq in E. specialize (H (j, u) (or_introl eq_refl)). cbn in H. lia.
  - apply IH. intros e He. apply H. right. exact He.
Qed.

Lemma common_advance_ket g t ket bra : (forall e, In e bra -> t <= fst e) ->
  common (advance K g t ket) bra = common ket bra.
Proof.
  intros H. induction ket as [|[i v] kt IH].
  - rewrite advance_nil. reflexivity.
  - rewrite advance_cons. destruct (i <? t) eqn:E; [|reflexivity].
    rewrite IH. cbn [common]. rewrite find_none_below; [reflexivity|].
    intros e He. apply Nat.ltb_lt in E. specialize (H e He). lia.
Qed.

Lemma common_skip_bra ket j u bt : (forall e, In e ket -> fst e <> j) ->
  common ket ((j, u) :: bt) = common ket bt.
Proof.
  induction ket as [|[i v] kt IH]; intros H; [reflexivity|].
  cbn [common find fst]. destruct (j =? i) eqn:E.
  - apply Nat.eqb_eq in E. exfalso. apply (H (i, v)); [left; reflexivity|]. cbn. lia.
  - rewrite IH by (intros e He; apply H; right; exact He). reflexivity.
Qed.

Lemma advance_length g t s : length (advance K g t s) <= length s.
Proof.
  induction s as [|[i v] r IH]; [rewrite advance_nil; cbn; lia|].
  rewrite advance_cons. destruct (i <? t); cbn [length]; lia.
Qed.
Lemma advance_sorted g t s : sorted s -> sorted (advance K g t s).
Proof.
  induction s as [|[i v] r IH]; intros H; [rewrite advance_nil; exact H|].
  rewrite advance_cons. destruct (i <? t); [apply IH; eapply sorted_tl; exact H|exact H].
Qed.

Lemma common_nil_r ket : common ket [] = [].
Proof. induction ket as [|[i v] kt IH]; [reflexivity|]. cbn [common find]. exact IH. Qed.

Theorem walk_spec g : forall fuel ket bra acc,
  sorted ket -> sorted bra -> length ket + length bra <= fuel ->
  walk K NO g fuel ket bra acc = Done (acc ++ common ket bra).
Proof.
  induction fuel as [|f IH]; intros ket bra acc Hk Hb Hf.
  - destruct ket, bra; cbn in Hf; try lia. cbn. rewrite app_nil_r. reflexivity.
  - destruct bra as [|[j u] bt].
    { cbn [walk it_valid andb]. rewrite common_nil_r, app_nil_r. reflexivity. }
    destruct ket as [|[i v] kt].
    { cbn [walk it_valid andb]. cbn [common]. rewrite app_nil_r. reflexivity. }
    cbn [walk it_valid andb]. unfold chase. cbn [it_index].
    destruct (i =? j) eqn:Eij.
    + apply Nat.eqb_eq in Eij. subst j. cbn [tl it_index it_value].
      rewrite IH.
      * cbn [common find fst]. rewrite Nat.eqb_refl. cbn [snd].
        rewrite common_skip_bra.
        -- rewrite <- app_assoc. reflexivity.
        -- intros e He. pose proof (sorted_head_lt _ _ _ Hk He) as Hlt. cbn in Hlt. lia.
      * eapply sorted_tl; exact Hk.
      * eapply sorted_tl; exact Hb.
      * cbn [length] in Hf. lia.
    + apply Nat.eqb_neq in Eij. destruct (i <? j) eqn:Elt.
      * apply Nat.ltb_lt in Elt.
        assert (Hbnd : forall e, In e ((j, u) :: bt) -> j <= fst e).
        { intros e [<-|He]; [cbn; lia|]. pose proof (sorted_head_lt _ _ _ Hb He) as Hl. cbn in Hl. lia. }
        rewrite IH.
        -- rewrite common_advance_ket by exact Hbnd. reflexivity.
        -- apply advance_sorted. exact Hk.
        -- exact Hb.
        -- rewrite advance_cons. replace (i <? j) with true by (symmetry; apply Nat.ltb_lt; exact Elt).
           pose proof (advance_length g j kt). cbn [length] in *. lia.
      * apply Nat.ltb_ge in Elt.
        assert (Hbnd : forall e, In e ((i, v) :: kt) -> i <= fst e).
        { intros e [<-|He]; [cbn; lia|]. pose proof (sorted_head_lt _ _ _ Hk He) as Hl. cbn in Hl. lia. }
        rewrite IH.
        -- rewrite common_advance_bra by exact Hbnd. reflexivity.
        -- exact Hk.
        -- apply advance_sorted. exact Hb.
        -- rewrite advance_cons. replace (j <? i) with true by (symmetry; apply Nat.ltb_lt; lia).
           pose proof (advance_length g i bt). cbn [length] in *. lia.
Qed.

(** the walk terminates for ANY two slices (sorted or not): every iteration consumes at least one entry *)
Lemma advance_cons_lt g t i v s : i < t -> length (advance K g t ((i, v) :: s)) <= length s.
Proof.
  intros H. rewrite advance_cons. replace (i <? t) with true by (symmetry; apply Nat.ltb_lt; exact H).
  apply advance_length.
Qed.

Theorem walk_total g : forall fuel ket bra acc,
  length ket + length bra <= fuel -> exists l, walk K NO g fuel ket bra acc = Done l.
Proof.
  induction fuel as [|f IH]; intros ket bra acc Hf.
  - destruct ket, bra; cbn in Hf; try lia. eexists. reflexivity.
  - destruct bra as [|[j u] bt]; [eexists; reflexivity|].
    destruct ket as [|[i v] kt]; [eexists; reflexivity|].
    cbn [walk it_valid andb]. unfold chase. cbn [it_index].
    destruct (i =? j) eqn:Eij.
    + apply IH. cbn [tl length] in *. lia.
    + apply Nat.eqb_neq in Eij. destruct (i <? j) eqn:Elt.
      * apply Nat.ltb_lt in Elt. apply IH. pose proof (advance_cons_lt g j i v kt Elt). cbn [length] in *. lia.
      * apply Nat.ltb_ge in Elt. apply IH. assert (j < i) by lia.
        pose proof (advance_cons_lt g i j u bt H). cbn [length] in *. lia.
Qed.

(** * The loops of TwoParticleGFPart::compute *)
Notation part_in := (part_in K).
Notation visit := (visit K).

Definition mk_visit (i1 i3 : nat) (m2 m4 : nat * K * K) : visit :=
  {| v_i1 := i1; v_i2 := fst (fst m2); v_i3 := i3; v_i4 := fst (fst m4); v_O1 := snd (fst m2); v_O2 := snd m2 |}.
Definition spec13 (p : part_in) (i1 i3 : nat) : list visit :=
  let m4 := common (outer K (p_O3 K p) i3) (outer K (p_CX4 K p) i1) in
  let m2 := common (outer K (p_O1 K p) i1) (outer K (p_O2 K p) i3) in
  flat_map (fun e2 => map (fun e4 => mk_visit i1 i3 e2 e4) m4) m2.
Definition spec_visits (p : part_in) : list visit :=
  flat_map (fun i1 => flat_map (fun i3 => spec13 p i1 i3) (seq 0 (length (p_O2 K p)))) (seq 0 (length (p_CX4 K p))).

Definition part_sorted (p : part_in) : Prop :=
  msorted (p_O1 K p) /\ msorted (p_O2 K p) /\ msorted (p_O3 K p) /\ msorted (p_CX4 K p).

Lemma flat_map_nil_fn {A B} (l : list A) : flat_map (fun _ : A => @nil B) l = [].
Proof. induction l; [reflexivity|assumption]. Qed.

Lemma visits_13_spec g p i1 i3 : part_sorted p -> visits_13 K NO g p i1 i3 = Done (spec13 p i1 i3).
Proof.
  intros (H1 & H2 & H3 & H4). unfold visits_13, spec13.
  rewrite walk_spec; [|apply H3|apply H4|unfold walk_fuel; lia].
  cbn [bind app].
  destruct (common (outer K (p_O3 K p) i3) (outer K (p_CX4 K p) i1)) as [|e4 m4] eqn:E4.
  - cbn [map]. rewrite flat_map_nil_fn. reflexivity.
  - cbn [map]. rewrite walk_spec; [|apply H1|apply H2|unfold walk_fuel; lia].
    cbn [bind app]. rewrite <- flat_map_concat_map. f_equal.
    apply flat_map_ext. intros e2. cbn [map]. f_equal. rewrite map_map. reflexivity.
Qed.

Lemma visits_loop3_spec g p i1 i3s : part_sorted p ->
  visits_loop3 K NO g p i1 i3s = Done (flat_map (fun i3 => spec13 p i1 i3) i3s).
Proof.
  intros Hs. induction i3s as [|i3 r IH]; [reflexivity|].
  cbn [visits_loop3 flat_map]. rewrite visits_13_spec by exact Hs. cbn [bind]. rewrite IH. reflexivity.
Qed.

Lemma visits_loop1_spec g p i1s i3s : part_sorted p ->
  visits_loop1 K NO g p i1s i3s = Done (flat_map (fun i1 => flat_map (fun i3 => spec13 p i1 i3) i3s) i1s).
Proof.
  intros Hs. induction i1s as [|i1 r IH]; [reflexivity|].
  cbn [visits_loop1 flat_map]. rewrite visits_loop3_spec by exact Hs. cbn [bind]. rewrite IH. reflexivity.
Qed.

Theorem part_visits_spec g p : part_sorted p -> part_visits K NO g p = Done (spec_visits p).
Proof. intros Hs. unfold part_visits, spec_visits. apply visits_loop1_spec. exact Hs. Qed.


(** ** Which quadruples are visited *)
Definition quad (v : visit) : nat * nat * nat * nat := (v_i1 K v, v_i2 K v, v_i3 K v, v_i4 K v).
(** (o, i) is a stored entry of the sparse matrix m (outer index o, inner index i) *)
Definition stored (m : smat) (o i : nat) : Prop := In i (map fst (outer K m o)).
Definition stored_val (m : smat) (o i : nat) (x : K) : Prop := In (i, x) (outer K m o).

Lemma sorted_find (s : slice) i x : sorted s -> In (i, x) s -> find (fun e : nat * K => fst e =? i) s = Some (i, x).
Proof.
  induction s as [|[j u] r IH]; intros Hs Hin; [destruct Hin|].
  cbn [find fst]. destruct Hin as [Heq|Hin].
  - inversion Heq; subst. rewrite Nat.eqb_refl. reflexivity.
  - pose proof (sorted_head_lt _ _ _ Hs Hin) as Hlt. cbn in Hlt.
    replace (j =? i) with false by (symmetry; apply Nat.eqb_neq; lia).
    apply IH; [eapply sorted_tl; exact Hs|exact Hin].
Qed.

Lemma find_idx_some (s : slice) i e : find (fun e : nat * K => fst e =? i) s = Some e -> In e s /\ fst e = i.
Proof. intros H. apply find_some in H. destruct H as [H1 H2]. apply Nat.eqb_eq in H2. split; assumption. Qed.

Lemma common_in ket bra i v u : sorted bra ->
  (In (i, v, u) (common ket bra) <-> In (i, v) ket /\ In (i, u) bra).
Proof.
  intros Hb. induction ket as [|[k w] kt IH]; [cbn; tauto|].
  cbn [common]. destruct (find (fun e : nat * K => fst e =? k) bra) as [e|] eqn:E.
  - apply find_idx_some in E. destruct E as [Ein Ek]. destruct e as [k' u']. cbn in Ek. subst k'. cbn [snd].
    cbn [In]. rewrite IH. split.
    + intros [Heq|[H1 H2]].
      * inversion Heq; subst. split; [left; reflexivity|exact Ein].
      * split; [right; exact H1|exact H2].
    + intros [[Heq|H1] H2].
      * inversion Heq; subst. left.
        pose proof (sorted_find bra i u Hb H2) as F1. pose proof (sorted_find bra i u' Hb Ein) as F2.
        rewrite F1 in F2. inversion F2; subst. reflexivity.
      * right. split; assumption.
  - rewrite IH. cbn [In]. split.
    + intros [H1 H2]. split; [right; exact H1|exact H2].
    + intros [[Heq|H1] H2].
      * inversion Heq; subst. rewrite (sorted_find bra i u Hb H2) in E. discriminate E.
      * split; assumption.
Qed.

Definition idx3 (e : nat * K * K) : nat := fst (fst e).

Lemma common_idx_in ket bra e : In e (common ket bra) -> In (idx3 e) (map fst ket).
Proof.
  induction ket as [|[k w] kt IH]; [intros []|].
  cbn [common]. destruct (find (fun e : nat * K => fst e =? k) bra) as [e'|].
  - intros [<-|Hin]; [left; reflexivity|right; apply IH; exact Hin].
  - intros Hin. right. apply IH. exact Hin.
Qed.

Lemma common_idx_nodup ket bra : sorted ket -> NoDup (map idx3 (common ket bra)).
Proof.
  induction ket as [|[k w] kt IH]; intros Hk; [constructor|].
  cbn [common]. pose proof (sorted_tl _ _ Hk) as Hkt.
  destruct (find (fun e : nat * K => fst e =? k) bra) as [e'|]; [|apply IH; exact Hkt].
  cbn [map]. constructor; [|apply IH; exact Hkt].
  intros Hin. apply in_map_iff in Hin. destruct Hin as [e [He Hin]].
  apply common_idx_in in Hin. rewrite He in Hin. unfold idx3 in Hin. cbn [fst] in Hin.
  apply in_map_iff in Hin. destruct Hin as [e2 [He2 Hin2]].
  pose proof (sorted_head_lt _ _ _ Hk Hin2) as Hlt. cbn in Hlt. lia.
Qed.

Lemma NoDup_app_intro {A} (l l' : list A) :
  NoDup l -> NoDup l' -> (forall a, In a l -> ~ In a l') -> NoDup (l ++ l').
Proof.
  induction l as [|a l IH]; intros Hl Hl' Hd; [exact Hl'|].
  cbn [app]. inversion Hl as [|x l0 Hna Hl0]; subst. constructor.
  - intros Hin. apply in_app_or in Hin. destruct Hin as [Hin|Hin]; [exact (Hna Hin)|].
    exact (Hd a (or_introl eq_refl) Hin).
  - apply IH; [exact Hl0|exact Hl'|]. intros b Hb. apply Hd. right. exact Hb.
Qed.

Lemma NoDup_flat_map {A B} (f : A -> list B) (l : list A) :
  NoDup l -> (forall a, In a l -> NoDup (f a)) ->
  (forall a a' b, In a l -> In a' l -> In b (f a) -> In b (f a') -> a = a') ->
  NoDup (flat_map f l).
Proof.
  induction l as [|a l IH]; intros Hl Hf Hd; [constructor|].
  cbn [flat_map]. inversion Hl as [|x l' Hna Hl']; subst.
  apply NoDup_app_intro.
  - apply Hf. left. reflexivity.
  - apply IH; [exact Hl'| |].
    + intros a0 Ha0. apply Hf. right. exact Ha0.
    + intros a0 a' b Ha0 Ha' Hb Hb'. apply (Hd a0 a' b); [right; exact Ha0|right; exact Ha'|exact Hb|exact Hb'].
  - intros b Hb Hin. apply in_flat_map in Hin. destruct Hin as [a' [Ha' Hb']].
    assert (a = a') by (apply (Hd a a' b); [left; reflexivity|right; exact Ha'|exact Hb|exact Hb']).
    subst a'. exact (Hna Ha').
Qed.

Lemma in_spec13 p i1 i3 v : In v (spec13 p i1 i3) <->
  exists e2 e4, In e2 (common (outer K (p_O1 K p) i1) (outer K (p_O2 K p) i3)) /\
                In e4 (common (outer K (p_O3 K p) i3) (outer K (p_CX4 K p) i1)) /\ v = mk_visit i1 i3 e2 e4.
Proof.
  unfold spec13. rewrite in_flat_map. split.
  - intros [e2 [H2 Hin]]. apply in_map_iff in Hin. destruct Hin as [e4 [<- H4]]. exists e2, e4. auto.
  - intros [e2 [e4 [H2 [H4 ->]]]]. exists e2. split; [exact H2|]. apply in_map_iff. exists e4. auto.
Qed.

Lemma in_spec_visits p v : In v (spec_visits p) <->
  exists i1 i3, i1 < length (p_CX4 K p) /\ i3 < length (p_O2 K p) /\ In v (spec13 p i1 i3).
Proof.
  unfold spec_visits. rewrite in_flat_map. split.
  - intros [i1 [H1 Hin]]. apply in_flat_map in Hin. destruct Hin as [i3 [H3 Hin]].
    apply in_seq in H1. apply in_seq in H3. exists i1, i3. repeat split; [lia|lia|exact Hin].
  - intros [i1 [i3 [H1 [H3 Hin]]]]. exists i1. split; [apply in_seq; lia|].
    apply in_flat_map. exists i3. split; [apply in_seq; lia|exact Hin].
Qed.

Lemma outer_nonempty_lt (m : smat) o e : In e (outer K m o) -> o < length m.
Proof.
  unfold outer. intros H. destruct (Nat.lt_ge_cases o (length m)) as [Hl|Hl]; [exact Hl|].
  rewrite nth_overflow in H by exact Hl. destruct H.
Qed.

Lemma map_flat_map {A B C} (h : B -> C) (f : A -> list B) (l : list A) :
  map h (flat_map f l) = flat_map (fun a => map h (f a)) l.
Proof. induction l as [|a l IH]; [reflexivity|]. cbn [flat_map]. rewrite map_app, IH. reflexivity. Qed.

Lemma NoDup_map_quad13 p i1 i3 : part_sorted p -> NoDup (map quad (spec13 p i1 i3)).
Proof.
  intros (H1 & H2 & H3 & H4). unfold spec13. rewrite map_flat_map.
  set (m2 := common (outer K (p_O1 K p) i1) (outer K (p_O2 K p) i3)).
  set (m4 := common (outer K (p_O3 K p) i3) (outer K (p_CX4 K p) i1)).
  assert (N2 : NoDup (map idx3 m2)) by (apply common_idx_nodup; apply H1).
  assert (N4 : NoDup (map idx3 m4)) by (apply common_idx_nodup; apply H3).
  assert (Hq : forall e2, map quad (map (fun e4 => mk_visit i1 i3 e2 e4) m4) = map (fun i4 => (i1, idx3 e2, i3, i4)) (map idx3 m4)).
  { intros e2. rewrite !map_map. reflexivity. }
  clearbody m2 m4. clear H1 H2 H3 H4.
  induction m2 as [|e2 r IH]; [constructor|].
  cbn [flat_map]. cbn [map] in N2. inversion N2 as [|x l Hna Hr]; subst.
  apply NoDup_app_intro.
  - rewrite Hq. apply FinFun.Injective_map_NoDup; [|exact N4]. intros a b Hab. inversion Hab. reflexivity.
  - apply IH. exact Hr.
  - intros q Hq1 Hq2. rewrite Hq in Hq1. apply in_map_iff in Hq1. destruct Hq1 as [i4 [<- _]].
    apply in_flat_map in Hq2. destruct Hq2 as [e2' [He2' Hin]]. rewrite Hq in Hin.
    apply in_map_iff in Hin. destruct Hin as [i4' [Heq _]]. inversion Heq as [[Hi2 Hi4]].
    apply Hna. rewrite <- Hi2. apply in_map. exact He2'.
Qed.

Lemma in_spec13_idx p i1 i3 v : In v (spec13 p i1 i3) -> v_i1 K v = i1 /\ v_i3 K v = i3.
Proof. intros H. apply in_spec13 in H. destruct H as [e2 [e4 [_ [_ ->]]]]. split; reflexivity. Qed.

Theorem spec_visits_nodup p : part_sorted p -> NoDup (map quad (spec_visits p)).
Proof.
  intros Hs. unfold spec_visits. rewrite map_flat_map.
  apply NoDup_flat_map.
  - apply seq_NoDup.
  - intros i1 _. rewrite map_flat_map. apply NoDup_flat_map.
    + apply seq_NoDup.
    + intros i3 _. apply NoDup_map_quad13. exact Hs.
    + intros i3 i3' q _ _ Hq Hq'. apply in_map_iff in Hq. apply in_map_iff in Hq'.
      destruct Hq as [v [<- Hv]]. destruct Hq' as [v' [Heq Hv']].
      apply in_spec13_idx in Hv. apply in_spec13_idx in Hv'. unfold quad in Heq. inversion Heq. lia.
  - intros i1 i1' q _ _ Hq Hq'. apply in_map_iff in Hq. apply in_map_iff in Hq'.
    destruct Hq as [v [<- Hv]]. destruct Hq' as [v' [Heq Hv']].
    apply in_flat_map in Hv. apply in_flat_map in Hv'.
    destruct Hv as [i3 [_ Hv]]. destruct Hv' as [i3' [_ Hv']].
    apply in_spec13_idx in Hv. apply in_spec13_idx in Hv'. unfold quad in Heq. inversion Heq. lia.
Qed.

(** membership: exactly the quadruples with four stored matrix elements, with the values of O1 and O2 *)
Theorem spec_visits_in p v : part_sorted p ->
  (In v (spec_visits p) <->
   stored_val (p_O1 K p) (v_i1 K v) (v_i2 K v) (v_O1 K v) /\
   stored_val (p_O2 K p) (v_i3 K v) (v_i2 K v) (v_O2 K v) /\
   stored (p_O3 K p) (v_i3 K v) (v_i4 K v) /\
   stored (p_CX4 K p) (v_i1 K v) (v_i4 K v)).
Proof.
  intros (H1 & H2 & H3 & H4). rewrite in_spec_visits. split.
  - intros [i1 [i3 [L1 [L3 Hin]]]]. apply in_spec13 in Hin.
    destruct Hin as [[[i2 a] b] [[[i4 c] d] [Hc2 [Hc4 ->]]]].
    apply common_in in Hc2; [|apply H2]. apply common_in in Hc4; [|apply H4].
    unfold mk_visit, stored_val, stored. cbn [v_i1 v_i2 v_i3 v_i4 v_O1 v_O2 fst snd].
    destruct Hc2 as [Ha Hb]. destruct Hc4 as [Hc Hd].
    repeat split; [exact Ha|exact Hb| |].
    + apply in_map_iff. exists (i4, c). split; [reflexivity|exact Hc].
    + apply in_map_iff. exists (i4, d). split; [reflexivity|exact Hd].
  - intros (Ha & Hb & Hc & Hd). unfold stored_val, stored in *.
    apply in_map_iff in Hc. destruct Hc as [[i4 c] [E4 Hc]]. cbn in E4.
    apply in_map_iff in Hd. destruct Hd as [[i4' d] [E4' Hd]]. cbn in E4'. subst i4'.
    exists (v_i1 K v), (v_i3 K v). split; [eapply outer_nonempty_lt; exact Hd|].
    split; [eapply outer_nonempty_lt; exact Hb|].
    apply in_spec13. exists (v_i2 K v, v_O1 K v, v_O2 K v), (i4, c, d).
    split; [apply common_in; [apply H2|split; assumption]|].
    split; [apply common_in; [apply H4|split; [exact Hc|rewrite E4; exact Hd]]|].
    destruct v. unfold mk_visit. cbn in *. subst. reflexivity.
Qed.

(** chi_walk_complete: TwoParticleGFPart::compute visits every quadruple (index1,index2,index3,index4) with four stored
    (non-zero) matrix elements exactly once, for any sparsity patterns, whatever is read past the end of a slice ([g]);
    it never runs out of fuel. *)
Theorem chi_walk_complete g p : part_sorted p ->
  exists vs, part_visits K NO g p = Done vs /\
    NoDup (map quad vs) /\
    forall i1 i2 i3 i4,
      In (i1, i2, i3, i4) (map quad vs) <->
      stored (p_O1 K p) i1 i2 /\ stored (p_O2 K p) i3 i2 /\ stored (p_O3 K p) i3 i4 /\ stored (p_CX4 K p) i1 i4.
Proof.
  intros Hs. exists (spec_visits p). split; [apply part_visits_spec; exact Hs|].
  split; [apply spec_visits_nodup; exact Hs|].
  intros i1 i2 i3 i4. rewrite in_map_iff. split.
  - intros [v [Hq Hin]]. apply spec_visits_in in Hin; [|exact Hs].
    unfold quad in Hq. inversion Hq; subst. destruct Hin as (Ha & Hb & Hc & Hd).
    repeat split; [| |exact Hc|exact Hd].
    + unfold stored. apply in_map_iff. eexists. split; [|exact Ha]. reflexivity.
    + unfold stored. apply in_map_iff. eexists. split; [|exact Hb]. reflexivity.
  - intros (Ha & Hb & Hc & Hd). unfold stored in Ha, Hb.
    apply in_map_iff in Ha. destruct Ha as [[i2a a] [Ea Ha]]. cbn in Ea. subst i2a.
    apply in_map_iff in Hb. destruct Hb as [[i2b b] [Eb Hb]]. cbn in Eb. subst i2b.
    exists {| v_i1 := i1; v_i2 := i2; v_i3 := i3; v_i4 := i4; v_O1 := a; v_O2 := b |}.
    split; [reflexivity|]. apply spec_visits_in; [exact Hs|]. cbn. repeat split; assumption.
Qed.

End Walk.

(** * The table returned by compute(clear, freqs) against on-demand evaluation *)
Section Table.
Variable K : Type.
Variable NO : numops K.
Notation part_in := (part_in K).
Notation part_st := (part_st K).
Notation kadd := (nadd K NO).
Notation "0" := (n0 K NO).

(** TwoParticleGFPart::compute always terminates normally in the model (no fuel exhaustion), for any matrices *)
Lemma visits_13_total g p i1 i3 : exists l, visits_13 K NO g p i1 i3 = Done l.
Proof.
  unfold visits_13.
  destruct (walk_total K NO g (walk_fuel K (outer K (p_O3 K p) i3) (outer K (p_CX4 K p) i1))
                       (outer K (p_O3 K p) i3) (outer K (p_CX4 K p) i1) []) as [m4 E4];
    [unfold walk_fuel; lia|].
  rewrite E4. cbn [bind].
  destruct (map (fun m : nat * K * K => fst (fst m)) m4); [eexists; reflexivity|].
  destruct (walk_total K NO g (walk_fuel K (outer K (p_O1 K p) i1) (outer K (p_O2 K p) i3))
                       (outer K (p_O1 K p) i1) (outer K (p_O2 K p) i3) []) as [m2 E2];
    [unfold walk_fuel; lia|].
  rewrite E2. cbn [bind]. eexists. reflexivity.
Qed.

Lemma visits_loop3_total g p i1 i3s : exists l, visits_loop3 K NO g p i1 i3s = Done l.
Proof.
  induction i3s as [|i3 r [l IH]]; [eexists; reflexivity|].
  cbn [visits_loop3]. destruct (visits_13_total g p i1 i3) as [a Ea]. rewrite Ea, IH. cbn [bind]. eexists. reflexivity.
Qed.

Lemma visits_loop1_total g p i1s i3s : exists l, visits_loop1 K NO g p i1s i3s = Done l.
Proof.
  induction i1s as [|i1 r [l IH]]; [eexists; reflexivity|].
  cbn [visits_loop1]. destruct (visits_loop3_total g p i1 i3s) as [a Ea]. rewrite Ea, IH. cbn [bind]. eexists. reflexivity.
Qed.

Theorem part_compute_total g tl p : exists st, part_compute K NO g tl p = Done st /\ ps_computed K st = true.
Proof.
  unfold part_compute, part_visits.
  destruct (visits_loop1_total g p (seq 0 (length (p_CX4 K p))) (seq 0 (length (p_O2 K p)))) as [vs E].
  rewrite E. cbn [bind]. eexists. split; reflexivity.
Qed.

(** the state a part has after compute() *)
Definition computed_st (g : nat) (tl : tols K) (p : part_in) : part_st :=
  match part_compute K NO g tl p with Done st => st | _ => part_constructed K end.
Lemma computed_st_eq g tl p : part_compute K NO g tl p = Done (computed_st g tl p).
Proof. unfold computed_st. destruct (part_compute_total g tl p) as [st [E _]]. rewrite E. reflexivity. Qed.
Lemma computed_st_computed g tl p : ps_computed K (computed_st g tl p) = true.
Proof. unfold computed_st. destruct (part_compute_total g tl p) as [st [E C]]. rewrite E. exact C. Qed.

(** value of a computed part (the non-throwing branch of TwoParticleGFPart::operator()) *)
Definition part_val (tl : tols K) (p : part_in) (st : part_st) (f : K * K * K) : K :=
  match part_eval K NO tl p {| ps_nr := ps_nr K st; ps_r := ps_r K st; ps_computed := true; ps_refused := ps_refused K st |}
                  (fst (fst f)) (snd (fst f)) (snd f) with
  | Done v => v | _ => 0 end.
Lemma part_eval_computed tl p st f : ps_computed K st = true ->
  part_eval K NO tl p st (fst (fst f)) (snd (fst f)) (snd f) = Done (part_val tl p st f).
Proof.
  intros C. unfold part_val. destruct st as [a b c d]. cbn in C. subst c. cbn [ps_nr ps_r ps_refused].
  unfold part_eval. cbn [ps_computed negb]. reflexivity.
Qed.

(** column sum: what on-demand evaluation accumulates for one frequency triple, starting from d *)
Definition col (g : nat) (tl : tols K) (ps : list part_in) (d : K) (f : K * K * K) : K :=
  fold_left (fun acc p => kadd acc (part_val tl p (computed_st g tl p) f)) ps d.

Lemma accumulate_spec tl p st : ps_computed K st = true -> forall freqs data, length data = length freqs ->
  accumulate K NO tl p st freqs data = Done (map (fun df => kadd (fst df) (part_val tl p st (snd df))) (combine data freqs)).
Proof.
  intros C. induction freqs as [|f fr IH]; intros data Hl.
  - destruct data; [reflexivity|discriminate Hl].
  - destruct data as [|d dr]; [discriminate Hl|]. cbn [accumulate].
    rewrite (part_eval_computed tl p st f C). cbn [bind]. rewrite IH by (cbn in Hl; lia). cbn [bind combine map fst snd].
    reflexivity.
Qed.

Lemma combine_map_l {A B C} (h : A * B -> C) (l : list A) (l' : list B) :
  length l = length l' ->
  combine (map h (combine l l')) l' = map (fun ab => (h ab, snd ab)) (combine l l').
Proof.
  revert l'. induction l as [|a l IH]; intros [|b l'] Hl; try discriminate Hl; [reflexivity|].
  cbn [combine map snd]. rewrite IH by (cbn in Hl; lia). reflexivity.
Qed.

Lemma run_parts_spec g tl clear freqs : forall (ps : list (part_in * part_st)) data,
  length data = length freqs ->
  run_parts K NO g tl clear (negb (Nat.eqb (length freqs) 0)) freqs ps data =
  Done (map (fun pq => (fst pq, if clear then part_clear K (computed_st g tl (fst pq)) else computed_st g tl (fst pq))) ps,
        map (fun df => col g tl (map fst ps) (fst df) (snd df)) (combine data freqs)).
Proof.
  induction ps as [|[p st0] r IH]; intros data Hl.
  - cbn [run_parts map col fold_left]. f_equal. f_equal.
    revert freqs Hl. induction data as [|d dr IHd]; intros [|f fr] Hl; try discriminate Hl; [reflexivity|].
    cbn [combine map fst]. f_equal. apply IHd. cbn in Hl. lia.
  - cbn [run_parts]. unfold wrap_run. rewrite computed_st_eq. cbn [bind].
    destruct freqs as [|f0 fr0] eqn:Ef.
    + destruct data; [|discriminate Hl]. cbn [length Nat.eqb negb bind fst snd].
      specialize (IH [] eq_refl). cbn [length Nat.eqb negb] in IH. rewrite IH. cbn [bind fst snd map combine]. reflexivity.
    + rewrite <- Ef in *. assert (Efill : negb (length freqs =? 0) = true) by (rewrite Ef; reflexivity).
      rewrite Efill in IH |- *.
      rewrite accumulate_spec by (apply computed_st_computed || exact Hl). cbn [bind fst snd].
      rewrite IH by (rewrite map_length, combine_length; lia).
      cbn [bind fst snd map]. f_equal. f_equal.
      rewrite combine_map_l by exact Hl. rewrite map_map. apply map_ext. intros [d f]. cbn [fst snd col fold_left map]. reflexivity.
Qed.

Lemma sum_parts_spec g tl f : forall (ps : list part_in) acc,
  sum_parts K NO tl (map (fun p => (p, computed_st g tl p)) ps) (fst (fst f)) (snd (fst f)) (snd f) acc = Done (col g tl ps acc f).
Proof.
  induction ps as [|p r IH]; intros acc; [reflexivity|].
  cbn [map sum_parts]. rewrite (part_eval_computed tl p _ f (computed_st_computed g tl p)). cbn [bind].
  rewrite IH. reflexivity.
Qed.

Lemma nth_map_combine_repeat {B} (h : K * B -> K) (l : list B) w (d : B) : w < length l ->
  nth w (map h (combine (repeat 0 (length l)) l)) 0 = h (0, nth w l d).
Proof.
  revert w. induction l as [|b l IH]; intros w Hw; [cbn in Hw; lia|].
  cbn [length repeat combine map]. destruct w as [|w]; [reflexivity|]. cbn [nth]. apply IH. cbn in Hw. lia.
Qed.

(** table_eq_on_demand: with the repaired compute ([fixed] = true), for every list of parts (vanishing component or not),
    every list of frequencies (empty or not), with and without purge: compute returns normally, the table has one entry
    per frequency, and entry w equals what on-demand evaluation of a (non-purged) computed object returns for freqs[w]. *)
Theorem table_eq_on_demand g tl clear (ps : list part_in) (freqs : list (K * K * K)) :
  exists table s' sx,
    gf_compute_gen K NO true true g tl clear freqs (gf_prepared K ps) = Done (table, s') /\
    gf_compute_gen K NO true true g tl false [] (gf_prepared K ps) = Done ([], sx) /\
    length table = length freqs /\
    forall w f, nth_error freqs w = Some f ->
      gf_value K NO tl sx (fst (fst f)) (snd (fst f)) (snd f) = Done (nth w table 0).
Proof.
  unfold gf_compute_gen, gf_prepared. cbn [g_status g_vanishing g_parts].
  destruct ps as [|p0 pr] eqn:Eps.
  - (* vanishing component *)
    cbn [negb map]. do 3 eexists. split; [reflexivity|]. split; [reflexivity|]. split; [apply repeat_length|].
    intros w f Hw. unfold gf_value. cbn [g_vanishing]. f_equal.
    symmetry. apply nth_repeat.
  - rewrite <- Eps. cbn [negb].
    replace (match ps with [] => true | _ :: _ => false end) with false by (rewrite Eps; reflexivity). cbn [negb].
    pose proof (run_parts_spec g tl clear freqs (map (fun p => (p, part_constructed K)) ps) (repeat 0 (length freqs)) (repeat_length _ _)) as R1.
    pose proof (run_parts_spec g tl false [] (map (fun p => (p, part_constructed K)) ps) (repeat 0 (length (@nil (K*K*K)))) eq_refl) as R2.
    cbn [length] in R2. cbn [length Nat.eqb negb repeat] in R2 |- *.
    rewrite R1, R2. cbn [bind snd fst andb]. do 3 eexists. split; [reflexivity|]. split; [reflexivity|].
    split; [rewrite map_length, combine_length, repeat_length; lia|].
    intros w f Hw. unfold gf_value. cbn [g_vanishing g_parts].
    replace (match ps with [] => true | _ :: _ => false end) with false by (rewrite Eps; reflexivity).
    rewrite !map_map. cbn [fst].
    rewrite (sum_parts_spec g tl f ps 0). f_equal.
    assert (Hlt : w < length freqs) by (apply nth_error_Some; rewrite Hw; discriminate).
    rewrite (nth_map_combine_repeat _ freqs w f Hlt). cbn [fst snd].
    rewrite (nth_error_nth _ _ _ Hw). rewrite map_id. reflexivity.
Qed.

End Table.

(** * The unrepaired compute violates the table property: witnesses *)

(** a small executable number type for witnesses: the integers (division = Z.quot; exp, conj unused) *)
Definition Zops : numops Z :=
  {| n0 := 0%Z; n1 := 1%Z; nadd := Z.add; nsub := Z.sub; nmul := Z.mul; ndiv := Z.quot; nopp := Z.opp; nconj := fun x => x;
     nexp := fun x => x; nre_ltb := Z.ltb; nabs := Z.abs; nofZ := fun x => x; nI := 0%Z |}.
Definition Ztols : tols Z := {| t_cmp_nr := 0%Z; t_neg_nr := 0%Z; t_cmp_r := 0%Z; t_neg_r := 0%Z; t_reduce := 0%Z; t_coeff := 0%Z |}.

(** one spinless mode: block 0 = {|0>}, block 1 = {|1>};  <1|c^+|0> = 1,  <0|c|1> = 1;  E = (0), (1); weights 2, 1 (unnormalised) *)
Definition wit_cdag : fieldop Z := {| fo_map := [(1, 0)%Z]; fo_parts := [(1%Z, ([[(0%nat, 1%Z)]], [[(0%nat, 1%Z)]]))] |}.
Definition wit_c : fieldop Z := {| fo_map := [(0, 1)%Z]; fo_parts := [(0%Z, ([[(0%nat, 1%Z)]], [[(0%nat, 1%Z)]]))] |}.
Definition wit_none : fieldop Z := {| fo_map := []; fo_parts := [] |}.
Definition wit_world (cx4 : fieldop Z) : world Z :=
  {| w_E := [[0%Z]; [1%Z]]; w_W := [[2%Z]; [1%Z]]; w_ret := [true; true]; w_beta := 1%Z;
     w_C1 := wit_c; w_C2 := wit_c; w_CX3 := wit_cdag; w_CX4 := cx4 |}.

(** chi_0000 of the one-mode world has two parts (the orderings c c^+ c c^+), a world whose last operator has no
    blocks gives a vanishing component *)
Example wit_prepare_parts : exists p1 p2, gf_prepare Z (wit_world wit_cdag) = Done [p1; p2].
Proof. vm_compute. do 2 eexists. reflexivity. Qed.
Example wit_prepare_vanishing : gf_prepare Z (wit_world wit_none) = Done [].
Proof. reflexivity. Qed.

Definition wit_parts (cx4 : fieldop Z) : list (part_in Z) :=
  match gf_prepare Z (wit_world cx4) with Done ps => ps | _ => [] end.

(** FULL statement of table_eq_on_demand for the code as it is ([fixed] = false):
      forall ps freqs clear, exists table s', gf_compute false .. clear freqs (gf_prepared ps) = Done (table, s')
                                              /\ length table = length freqs /\ (entries equal on-demand values).
    It is false of the faithful model, in two ways. *)

(** (1) vanishing component, one frequency triple: the returned table is EMPTY although on-demand evaluation
    returns the value 0 for that triple (TwoParticleGF.cpp:158-163: the table is sized inside `if (!Vanishing)`) *)
Theorem table_eq_on_demand_refuted :
  exists (ps : list (part_in Z)) (freqs : list (Z * Z * Z)) (clear : bool) table s',
    gf_compute_gen Z Zops false false 0 Ztols clear freqs (gf_prepared Z ps) = Done (table, s') /\
    length table <> length freqs /\
    (forall f, In f freqs -> gf_value Z Zops Ztols s' (fst (fst f)) (snd (fst f)) (snd f) = Done 0%Z).
Proof.
  exists (wit_parts wit_none), [(1, 3, 5)%Z], false, [], {| g_status := Computed; g_parts := []; g_vanishing := true |}.
  split; [vm_compute; reflexivity|]. split; [discriminate|]. intros f [<-|[]]. reflexivity.
Qed.

(** (2) non-vanishing component, empty frequency list (this is also the default call compute()):
    `&m_data[0]` is taken on an empty vector (TwoParticleGF.cpp:176), undefined behaviour; the model reports OOB *)
Theorem table_empty_freqs_undefined :
  exists (ps : list (part_in Z)) (clear : bool),
    ps <> [] /\ gf_compute_gen Z Zops false false 0 Ztols clear [] (gf_prepared Z ps) = OOB.
Proof. exists (wit_parts wit_cdag), false. vm_compute. split; [discriminate|reflexivity]. Qed.

(** the repaired compute on the same witnesses *)
Example table_fixed_on_witness :
  exists s', gf_compute_gen Z Zops true true 0 Ztols false [(1, 3, 5)%Z] (gf_prepared Z (wit_parts wit_none)) = Done ([0%Z], s').
Proof. vm_compute. eexists. reflexivity. Qed.

(** * Term lists: std::set with a tolerance comparator *)
Section TermListTheory.
Variable T : Type.
Variables (comp : T -> T -> bool) (plus : T -> T -> T) (negl : T -> nat -> bool).

(** ** facts that hold for ANY comparator *)
Lemma split_lower_app t l : fst (split_lower T comp t l) ++ snd (split_lower T comp t l) = l.
Proof.
  induction l as [|e r IH]; [reflexivity|]. cbn [split_lower]. destruct (comp e t).
  - destruct (split_lower T comp t r) as [a b]. cbn [fst snd app] in *. f_equal. exact IH.
  - reflexivity.
Qed.
Lemma split_upper_app t l : fst (split_upper T comp t l) ++ snd (split_upper T comp t l) = l.
Proof.
  induction l as [|e r IH]; [reflexivity|]. cbn [split_upper]. destruct (comp t e).
  - reflexivity.
  - destruct (split_upper T comp t r) as [a b]. cbn [fst snd app] in *. f_equal. exact IH.
Qed.

(** std::set::insert either adds the term (the new set is a permutation of t :: l) or is blocked by a stored term *)
Lemma set_insert_res_cases t l :
  (exists l', set_insert_res T comp t l = Inserted T l' /\ Permutation l' (t :: l)) \/
  (exists a e b, set_insert_res T comp t l = Blocked T a e b /\ l = a ++ e :: b /\ comp e t = false).
Proof.
  unfold set_insert_res. pose proof (split_upper_app t l) as Happ.
  destruct (split_upper T comp t l) as [a b]. cbn [fst snd] in Happ.
  destruct (rev a) as [|pred ra] eqn:Er.
  - left. assert (a = []) by (apply (f_equal (@rev T)) in Er; rewrite rev_involutive in Er; exact Er).
    subst a. cbn in Happ. subst b. eexists. split; [reflexivity|apply Permutation_refl].
  - assert (Ha : a = rev ra ++ [pred]) by (apply (f_equal (@rev T)) in Er; rewrite rev_involutive in Er; exact Er).
    destruct (comp pred t) eqn:Ec.
    + left. eexists. split; [reflexivity|]. rewrite <- Happ. apply Permutation_sym. apply Permutation_middle.
    + right. exists (rev ra), pred, b. split; [reflexivity|]. split; [|exact Ec].
      rewrite <- Happ, Ha, <- app_assoc. reflexivity.
Qed.

(** ** the repaired add_term conserves every additive weight, for ANY comparator *)
Section Conservation.
Variable M : Type.
Variables (madd : M -> M -> M) (m0 : M).
Hypothesis madd_assoc : forall a b c, madd a (madd b c) = madd (madd a b) c.
Hypothesis madd_comm : forall a b, madd a b = madd b a.
Hypothesis madd_0 : forall a, madd m0 a = a.
Variable w : T -> M.
Hypothesis w_plus : forall a b, w (plus a b) = madd (w a) (w b).

Definition total (l : list T) : M := fold_right (fun t acc => madd (w t) acc) m0 l.

Lemma total_app a b : total (a ++ b) = madd (total a) (total b).
Proof.
  induction a as [|x a IH]; cbn [app total fold_right]; [rewrite madd_0; reflexivity|].
  fold (total (a ++ b)). fold (total a). rewrite IH, madd_assoc. reflexivity.
Qed.
Lemma total_perm l l' : Permutation l l' -> total l = total l'.
Proof.
  induction 1 as [|x l l' _ IH|x y l|l l' l'' _ IH1 _ IH2]; cbn [total fold_right].
  - reflexivity.
  - fold (total l). fold (total l'). rewrite IH. reflexivity.
  - fold (total l). rewrite !madd_assoc, (madd_comm (w y) (w x)). reflexivity.
  - rewrite IH1. exact IH2.
Qed.

(** no term is dropped as negligible *)
Hypothesis negl_never : forall t n, negl t n = false.

Theorem add_term_loop_conserves : forall fuel t l, length l <= fuel ->
  exists l', add_term_loop T comp plus negl fuel t l = (true, l') /\ total l' = madd (total l) (w t).
Proof.
  induction fuel as [|f IH]; intros t l Hf.
  - destruct l; [|cbn in Hf; lia]. cbn. eexists. split; [reflexivity|].
    cbn. rewrite madd_comm. reflexivity.
  - cbn [add_term_loop]. destruct (set_insert_res_cases t l) as [[l' [E P]]|[a [e [b [E [Hl _]]]]]]; rewrite E.
    + exists l'. split; [reflexivity|]. rewrite (total_perm _ _ P). cbn [total fold_right]. fold (total l).
      apply madd_comm.
    + rewrite negl_never.
      destruct (IH (plus e t) (a ++ b)) as [l' [E' Ht]].
      { subst l. rewrite app_length in *. cbn [length] in Hf. lia. }
      exists l'. split; [exact E'|]. rewrite Ht, w_plus. subst l.
      rewrite (total_perm (a ++ e :: b) (e :: a ++ b)) by (apply Permutation_sym, Permutation_middle).
      cbn [total fold_right]. fold (total (a ++ b)).
      rewrite madd_assoc. f_equal. apply madd_comm.
Qed.
(** a whole sequence of add_term calls with the repaired add_term: nothing refused, the total weight is conserved *)
Theorem add_terms_retry_conserves : forall ts n l,
  exists l', add_terms_gen T comp plus negl true ts (n, l) = (n, l') /\ total l' = madd (total l) (total ts).
Proof.
  induction ts as [|t r IH]; intros n l.
  - exists l. split; [reflexivity|]. cbn [total fold_right]. rewrite madd_comm, madd_0. reflexivity.
  - cbn [add_terms_gen snd fst]. unfold add_term_gen.
    destruct (add_term_loop_conserves (length l) t l (le_n _)) as [l1 [E1 H1]]. rewrite E1.
    destruct (IH n l1) as [l' [E' H']]. exists l'. split; [exact E'|].
    rewrite H', H1. cbn [total fold_right]. fold (total r). rewrite madd_assoc. reflexivity.
Qed.
End Conservation.

(** ** the comparator is a strict weak order on the terms that occur: keys *)
Section Keys.
Variable Good : T -> Prop.
Variable Key : Type.
Variable key : T -> Key.
Variable klt : Key -> Key -> Prop.
Hypothesis klt_trans : forall a b c, klt a b -> klt b c -> klt a c.
Hypothesis klt_irrefl : forall a, ~ klt a a.
Hypothesis klt_total : forall a b, klt a b \/ a = b \/ klt b a.
Hypothesis comp_key : forall a b, Good a -> Good b -> (comp a b = true <-> klt (key a) (key b)).
Hypothesis plus_good : forall a b, Good a -> Good b -> key a = key b -> Good (plus a b) /\ key (plus a b) = key a.

Definition tlt (a b : T) : Prop := klt (key a) (key b).
Definition Inv (l : list T) : Prop := Forall Good l /\ StronglySorted tlt l.

Lemma klt_asym a b : klt a b -> ~ klt b a.
Proof. intros H1 H2. exact (klt_irrefl a (klt_trans _ _ _ H1 H2)). Qed.

Lemma comp_false a b : Good a -> Good b -> (comp a b = false <-> ~ klt (key a) (key b)).
Proof.
  intros Ga Gb. pose proof (comp_key a b Ga Gb) as H. destruct (comp a b).
  - split; [discriminate|]. intros Hn. exfalso. apply Hn. apply H. reflexivity.
  - split; [|reflexivity]. intros _ Hk. apply H in Hk. discriminate Hk.
Qed.

Lemma SS_app (a b : list T) : StronglySorted tlt (a ++ b) <->
  StronglySorted tlt a /\ StronglySorted tlt b /\ (forall x y, In x a -> In y b -> tlt x y).
Proof.
  induction a as [|x a IH]; cbn [app].
  - split; [intros H; repeat split; [constructor|exact H|intros x y []]|intros [_ [H _]]; exact H].
  - split.
    + intros H. inversion H as [|x' l' Hs Hf]; subst. apply IH in Hs. destruct Hs as [Ha [Hb Hab]].
      rewrite Forall_forall in Hf. repeat split.
      * constructor; [exact Ha|]. apply Forall_forall. intros y Hy. apply Hf. apply in_or_app. left. exact Hy.
      * exact Hb.
      * intros x0 y [<-|Hx] Hy; [apply Hf; apply in_or_app; right; exact Hy|apply Hab; assumption].
    + intros [Ha [Hb Hab]]. inversion Ha as [|x' l' Hs Hf]; subst. constructor.
      * apply IH. repeat split; [exact Hs|exact Hb|]. intros x0 y Hx Hy. apply Hab; [right; exact Hx|exact Hy].
      * apply Forall_forall. intros y Hy. apply in_app_or in Hy. destruct Hy as [Hy|Hy].
        -- rewrite Forall_forall in Hf. apply Hf. exact Hy.
        -- apply Hab; [left; reflexivity|exact Hy].
Qed.

(** the set splits around a key *)
Definition below (t : T) (l : list T) : Prop := Forall (fun e => klt (key e) (key t)) l.
Definition above (t : T) (l : list T) : Prop := Forall (fun e => klt (key t) (key e)) l.

Lemma split_lower_below t a b : Forall Good (a ++ b) -> Good t -> below t a ->
  (match b with [] => True | e :: _ => ~ klt (key e) (key t) end) ->
  split_lower T comp t (a ++ b) = (a, b).
Proof.
  intros G Gt Ha Hb. induction a as [|x a IH]; cbn [app].
  - destruct b as [|e b]; [reflexivity|]. cbn [split_lower].
    replace (comp e t) with false; [reflexivity|]. symmetry. apply comp_false; [|exact Gt|exact Hb].
    inversion G; assumption.
  - cbn [split_lower]. inversion Ha as [|x' a' Hx Ha']; subst. cbn [app] in G. inversion G as [|x' l' Gx G']; subst.
    replace (comp x t) with true by (symmetry; apply comp_key; assumption).
    rewrite IH by assumption. reflexivity.
Qed.

Lemma split_upper_above t a b : Forall Good (a ++ b) -> Good t ->
  Forall (fun e => ~ klt (key t) (key e)) a ->
  (match b with [] => True | e :: _ => klt (key t) (key e) end) ->
  split_upper T comp t (a ++ b) = (a, b).
Proof.
  intros G Gt Ha Hb. induction a as [|x a IH]; cbn [app].
  - destruct b as [|e b]; [reflexivity|]. cbn [split_upper].
    replace (comp t e) with true; [reflexivity|]. symmetry. apply comp_key; [exact Gt| |exact Hb].
    inversion G; assumption.
  - cbn [split_upper]. inversion Ha as [|x' a' Hx Ha']; subst. cbn [app] in G. inversion G as [|x' l' Gx G']; subst.
    replace (comp t x) with false by (symmetry; apply comp_false; assumption).
    rewrite IH by assumption. reflexivity.
Qed.

(** every sorted set splits as (below t) ++ (optional element with the key of t) ++ (above t) *)
Lemma Inv_split t l : Inv l ->
  exists a m b, l = a ++ m ++ b /\ below t a /\ above t b /\ (m = [] \/ exists e, m = [e] /\ key e = key t).
Proof.
  intros [G S]. induction l as [|x l IH].
  - exists [], [], []. split; [reflexivity|]. split; [constructor|]. split; [constructor|]. left. reflexivity.
  - inversion G as [|x' l' Gx G']; subst. inversion S as [|x' l' S' Hf]; subst.
    destruct (IH G' S') as [a [m [b [El [Ha [Hb Hm]]]]]].
    destruct (klt_total (key x) (key t)) as [Hlt|[Heq|Hgt]].
    + exists (x :: a), m, b. split; [rewrite El; reflexivity|]. split; [constructor; assumption|]. split; [exact Hb|exact Hm].
    + (* x has the key of t: everything after x is above *)
      exists [], [x], l. split; [reflexivity|]. split; [constructor|]. split; [|right; exists x; split; [reflexivity|exact Heq]].
      apply Forall_forall. intros y Hy. rewrite Forall_forall in Hf. specialize (Hf y Hy). unfold tlt in Hf.
      rewrite <- Heq. exact Hf.
    + exists [], [], (x :: l). split; [reflexivity|]. split; [constructor|]. split; [|left; reflexivity].
      constructor; [exact Hgt|]. apply Forall_forall. intros y Hy. rewrite Forall_forall in Hf. specialize (Hf y Hy).
      unfold tlt in Hf. eapply klt_trans; eassumption.
Qed.

Lemma below_not_above t l : below t l -> Forall (fun e => ~ klt (key t) (key e)) l.
Proof. unfold below. rewrite !Forall_forall. intros H e He. apply klt_asym. apply H. exact He. Qed.

Lemma Inv_insert t a b : Good t -> Inv (a ++ b) -> below t a -> above t b -> Inv (a ++ t :: b).
Proof.
  intros Gt [G S] Ha Hb. split.
  - apply Forall_app in G. destruct G as [Ga Gb]. apply Forall_app. split; [exact Ga|constructor; assumption].
  - apply SS_app in S. destruct S as [Sa [Sb Sab]]. apply SS_app. repeat split; [exact Sa| |].
    + constructor; [exact Sb|exact Hb].
    + intros x y Hx [<-|Hy].
      * unfold below in Ha. rewrite Forall_forall in Ha. apply Ha. exact Hx.
      * apply Sab; assumption.
Qed.

Lemma Inv_remove a e b : Inv (a ++ e :: b) -> Inv (a ++ b).
Proof.
  intros [G S]. split.
  - apply Forall_app in G. destruct G as [Ga Gb]. inversion Gb; subst. apply Forall_app. split; assumption.
  - apply SS_app in S. destruct S as [Sa [Sb Sab]]. inversion Sb; subst. apply SS_app. repeat split; [exact Sa|assumption|].
    intros x y Hx Hy. apply Sab; [exact Hx|right; exact Hy].
Qed.

Lemma insert_between t a b : Good t -> Forall Good (a ++ b) -> below t a -> above t b ->
  set_insert_res T comp t (a ++ b) = Inserted T (a ++ t :: b).
Proof.
  intros Gt G Ha Hb. unfold set_insert_res.
  rewrite (split_upper_above t a b G Gt (below_not_above t a Ha)).
  2:{ destruct b as [|e b]; [exact I|]. inversion Hb; assumption. }
  destruct (rev a) as [|pred ra] eqn:Er.
  - assert (a = []) by (apply (f_equal (@rev T)) in Er; rewrite rev_involutive in Er; exact Er). subst a. reflexivity.
  - assert (Hin : In pred a) by (apply in_rev; rewrite Er; left; reflexivity).
    replace (comp pred t) with true; [reflexivity|]. symmetry. apply comp_key; [|exact Gt|].
    + apply Forall_app in G. destruct G as [Ga _]. rewrite Forall_forall in Ga. apply Ga. exact Hin.
    + unfold below in Ha. rewrite Forall_forall in Ha. apply Ha. exact Hin.
Qed.

Lemma below_key t t' l : key t = key t' -> below t l -> below t' l.
Proof. unfold below. intros E H. rewrite <- E. exact H. Qed.
Lemma above_key t t' l : key t = key t' -> above t l -> above t' l.
Proof. unfold above. intros E H. rewrite <- E. exact H. Qed.

(** what add_term (as it is in the repository) does on a sorted set of Good terms: never refuses an insertion *)
Theorem add_term_plain_spec t l : Inv l -> Good t ->
  exists a b, 
    (l = a ++ b /\ below t a /\ above t b /\ add_term_plain T comp plus negl t l = (true, a ++ t :: b)) \/
    (exists e, l = a ++ e :: b /\ key e = key t /\ below t a /\ above t b /\
       add_term_plain T comp plus negl t l =
         (true, if negl (plus e t) (length (a ++ b) + 1) then a ++ b else a ++ plus e t :: b)).
Proof.
  intros HI Gt. pose proof HI as [G S].
  destruct (Inv_split t l HI) as [a [m [b [El [Ha [Hb [Hm|[e [Hm Hk]]]]]]]]]; subst m; cbn [app] in El; subst l.
  - exists a, b. left. repeat split; try assumption.
    unfold add_term_plain, set_find.
    rewrite (split_lower_below t a b G Gt Ha).
    2:{ destruct b as [|e b]; [exact I|]. inversion Hb; subst. apply klt_asym. assumption. }
    cbn [snd]. unfold set_insert.
    destruct b as [|e b].
    + rewrite (insert_between t a [] Gt G Ha Hb). reflexivity.
    + replace (comp t e) with true.
      * rewrite (insert_between t a (e :: b) Gt G Ha Hb). reflexivity.
      * symmetry. apply comp_key; [exact Gt| |inversion Hb; assumption].
        apply Forall_app in G. destruct G as [_ Gb]. inversion Gb; assumption.
  - exists a, b. right. exists e. repeat split; try assumption.
    assert (Ge : Good e). { apply Forall_app in G. destruct G as [_ Gb]. inversion Gb; assumption. }
    unfold add_term_plain, set_find.
    rewrite (split_lower_below t a (e :: b) G Gt Ha) by (rewrite Hk; apply klt_irrefl).
    cbn [snd]. replace (comp t e) with false by (symmetry; apply comp_false; [exact Gt|exact Ge|rewrite Hk; apply klt_irrefl]).
    (* erase *)
    assert (Eer : set_erase T comp e (a ++ e :: b) = a ++ b).
    { unfold set_erase. rewrite (split_lower_below e a (e :: b) G Ge (below_key t e a (eq_sym Hk) Ha)) by apply klt_irrefl.
      change (e :: b) with ([e] ++ b).
      rewrite (split_upper_above e [e] b).
      - reflexivity.
      - apply Forall_app in G. destruct G as [_ Gb]. exact Gb.
      - exact Ge.
      - constructor; [apply klt_irrefl|constructor].
      - destruct b as [|y b]; [exact I|]. inversion Hb; subst. rewrite Hk. assumption. }
    rewrite Eer.
    destruct (negl (plus e t) (length (a ++ b) + 1)); [reflexivity|].
    destruct (plus_good e t Ge Gt Hk) as [Gs Ks].
    unfold set_insert. rewrite (insert_between (plus e t) a b Gs).
    + reflexivity.
    + apply Forall_app in G. destruct G as [Ga Gb]. inversion Gb; subst. apply Forall_app. split; assumption.
    + apply (below_key t); [rewrite Ks; symmetry; exact Hk|exact Ha].
    + apply (above_key t); [rewrite Ks; symmetry; exact Hk|exact Hb].
Qed.

Theorem add_term_plain_inv t l : Inv l -> Good t ->
  exists l', add_term_plain T comp plus negl t l = (true, l') /\ Inv l'.
Proof.
  intros HI Gt. destruct (add_term_plain_spec t l HI Gt) as [a [b [[El [Ha [Hb E]]]|[e [El [Hk [Ha [Hb E]]]]]]]]; subst l.
  - eexists. split; [exact E|]. apply Inv_insert; assumption.
  - eexists. split; [exact E|]. pose proof (Inv_remove a e b HI) as HI'.
    destruct (negl (plus e t) (length (a ++ b) + 1)); [exact HI'|].
    assert (Ge : Good e). { destruct HI as [G _]. apply Forall_app in G. destruct G as [_ Gb]. inversion Gb; assumption. }
    destruct (plus_good e t Ge Gt Hk) as [Gs Ks].
    apply Inv_insert; [exact Gs|exact HI'| |].
    + apply (below_key t); [rewrite Ks; symmetry; exact Hk|exact Ha].
    + apply (above_key t); [rewrite Ks; symmetry; exact Hk|exact Hb].
Qed.

(** a sequence of add_term calls on a sorted set of Good terms: no insertion is refused *)
Theorem add_terms_plain_no_refusal : forall ts n l, Inv l -> Forall Good ts ->
  fst (add_terms_gen T comp plus negl false ts (n, l)) = n /\ Inv (snd (add_terms_gen T comp plus negl false ts (n, l))).
Proof.
  induction ts as [|t r IH]; intros n l HI G; [split; [reflexivity|exact HI]|].
  inversion G as [|t' r' Gt Gr]; subst. cbn [add_terms_gen snd fst]. unfold add_term_gen.
  destruct (add_term_plain_inv t l HI Gt) as [l' [E HI']]. rewrite E. apply IH; assumption.
Qed.

End Keys.
End TermListTheory.

(** * Weight IS lost by add_term as it is in the repository when the separation hypothesis fails: a witness.
    Integer poles, tolerance 10: the terms with first pole 0 and 12 are stored separately (12 >= 10 apart); the term with
    pole 6 is equivalent to the first, the reduced term moves to the weighted mean 3, which is equivalent to the stored
    term at 12 (|12 - 3| < 10): std::set::insert refuses it, and the weight of two of the three terms is gone. *)
Definition loss_terms : list (nrterm Z) := [mk_nr Z 1 0 0 0 false; mk_nr Z 1 12 0 0 false; mk_nr Z 1 6 0 0 false]%Z.
Definition coeff_total (l : list (nrterm Z)) : Z := fold_right (fun t acc => (nr_coeff Z t + acc)%Z) 0%Z l.

Theorem chi_termlist_loss_witness :
  let r := add_terms_gen (nrterm Z) (nr_comp Z Zops 10%Z) (nr_plus Z Zops) (nr_negl Z Zops 0%Z) false loss_terms (O, []) in
  fst r = 1%nat /\ coeff_total (snd r) = 1%Z /\ coeff_total loss_terms = 3%Z.
Proof. vm_compute. repeat split. Qed.

(** the repaired add_term on the same input: nothing refused, nothing lost *)
Theorem chi_termlist_retry_witness :
  let r := add_terms_gen (nrterm Z) (nr_comp Z Zops 10%Z) (nr_plus Z Zops) (nr_negl Z Zops 0%Z) true loss_terms (O, []) in
  fst r = O /\ coeff_total (snd r) = 3%Z.
Proof. vm_compute. repeat split. Qed.

(** unconditional conservation of the coefficient sum by the repaired add_term, for the non-resonant terms over any
    commutative ring of coefficients and ANY tolerance (when no term is dropped as negligible) *)
Theorem chi_termlist_retry_no_loss (K : Type) (NO : numops K)
  (kadd_assoc : forall a b c, nadd K NO a (nadd K NO b c) = nadd K NO (nadd K NO a b) c)
  (kadd_comm : forall a b, nadd K NO a b = nadd K NO b a)
  (kadd_0 : forall a, nadd K NO (n0 K NO) a = a)
  (tol : K) (ts : list (nrterm K)) (n : nat) (l : list (nrterm K)) :
  exists l', add_terms_gen (nrterm K) (nr_comp K NO tol) (nr_plus K NO) (fun _ _ => false) true ts (n, l) = (n, l') /\
    total (nrterm K) K (nadd K NO) (n0 K NO) (nr_coeff K) l' =
    nadd K NO (total (nrterm K) K (nadd K NO) (n0 K NO) (nr_coeff K) l) (total (nrterm K) K (nadd K NO) (n0 K NO) (nr_coeff K) ts).
Proof.
  apply add_terms_retry_conserves; try assumption; reflexivity.
Qed.
