(** The spine for an arbitrary partition of the Fock states: the value computed by the model pipeline [Spine.spine_gf]
    equals the full-space Lehmann sum [EDSpec.gf] on the assembled eigenvalues, assembled weights and the field
    operators rotated by the assembled eigenvector matrix.

    The hypotheses [blocks_sound] and [assembled] of C01's [gf_blocks_eq_full] are DISCHARGED here from
      - well-formedness of the partition ([partition_ok]: C07 partition_exact, in the representation of PV.HPart),
      - the block maps of c_i and c^+_j recorded by FieldOperator::prepare being exact and single-target ([op_ok]: the
        conclusion of C07 single_target, in the representation of PV.HPart),
      - C10's list-level characterisation of FieldOperatorPart::compute (HPartProofs.fop_dense_entries),
      - the shapes of the eigen-data ([eig_ok]); the density-matrix facts are derived from the model (Thermal.dm_compute).
    [partition_ok] and [op_ok] are discharged for the one-block partition in SpineOneBlock.v. *)
Require Import Bool List Arith Lia Ring Ring_theory.
From PV Require Import Outcome Fock Poly PolySem EDSpec HPart HPartSpec HPartProofs Sparse SparseProofs BigSum
     TermList GFPart GFPartProofs GFFullProofs Spine SpineSparseProofs SpineLinAlg.
From PV Require Symm PartitionInvariance Thermal.
From PVgen Require Import Gen_C01.
Import ListNotations.

(** * Generic helpers *)
Lemma find_unique {A} (key : A -> nat) : forall (l : list A) x, NoDup (map key l) -> In x l ->
  find (fun e => key e =? key x) l = Some x.
Proof.
  induction l as [|y l IH]; intros x Hnd Hin; [destruct Hin|]. cbn [map] in Hnd. inversion Hnd as [|a b Hy Hnd']; subst.
  cbn [find]. destruct Hin as [->|Hin]; [rewrite Nat.eqb_refl; reflexivity|].
  destruct (Nat.eqb_spec (key y) (key x)) as [E|_]; [|apply IH; assumption].
  exfalso. apply Hy. rewrite E. apply in_map. exact Hin.
Qed.

Lemma find_none_key {A} (key : A -> nat) (k : nat) : forall l : list A, ~ In k (map key l) -> find (fun e => key e =? k) l = None.
Proof.
  induction l as [|y l IH]; intros H; [reflexivity|]. cbn [find]. cbn [map In] in H.
  destruct (Nat.eqb_spec (key y) k) as [E|_]; [exfalso; apply H; left; exact E|]. apply IH. intro; apply H; right; assumption.
Qed.

Lemma hp_fo_bimap_wf (prs : list (nat * nat)) : PartitionInvariance.bimap_wf (fo_bimap prs).
Proof.
  unfold fo_bimap.
  assert (G : forall l bm, PartitionInvariance.bimap_wf bm -> PartitionInvariance.bimap_wf (fold_left bimap_insert l bm)).
  { induction l as [|[L R] l IH]; intros bm H; cbn [fold_left]; [exact H|]. apply IH.
    exact (PartitionInvariance.bimap_insert_wf L R bm H). }
  apply G. split; constructor.
Qed.

Lemma outcome_map_Forall2 {A B} (f : A -> outcome B) : forall (l : list A) (r : list B),
  outcome_map f l = Done r -> Forall2 (fun a b => f a = Done b) l r.
Proof.
  induction l as [|a l IH]; intros r E; cbn [outcome_map] in E.
  - injection E as <-. constructor.
  - destruct (f a) as [b| | | |] eqn:Fa; cbn [bind] in E; try discriminate.
    destruct (outcome_map f l) as [r'| | | |] eqn:Fl; cbn [bind] in E; try discriminate.
    injection E as <-. constructor; [exact Fa|apply IH; reflexivity].
Qed.

Lemma outcome_map_exists {A B} (f : A -> outcome B) : forall (l : list A),
  (forall a, In a l -> exists b, f a = Done b) -> exists r, outcome_map f l = Done r.
Proof.
  induction l as [|a l IH]; intros H; [exists []; reflexivity|].
  destruct (H a (or_introl eq_refl)) as [b Hb]. destruct IH as [r Hr]; [intros x Hx; apply H; right; exact Hx|].
  exists (b :: r). cbn [outcome_map]. rewrite Hb. cbn [bind]. rewrite Hr. reflexivity.
Qed.

Section SpineP.
Variable K : Type.
Variable NO : numops K.
Notation k0 := (n0 K NO).
Notation k1 := (n1 K NO).
Notation kadd := (nadd K NO).
Notation ksub := (nsub K NO).
Notation kmul := (nmul K NO).
Notation kdiv := (ndiv K NO).
Notation kopp := (nopp K NO).
Notation conj := (nconj K NO).
Notation ltb := (nre_ltb K NO).
Notation kabs := (nabs K NO).
Variable kinv : K -> K.
Hypothesis Kr : ring_theory k0 k1 kadd kmul ksub kopp (@eq K).
Hypothesis Kdiv : forall a b, kdiv a b = kmul a (kinv b).
Hypothesis conj0 : conj k0 = k0.
Add Ring KringSP : Kr.
Notation bsum := (bigsum K k0 kadd).
Notation cs_get := (cs_get K NO).

Let BS_ext := @bigsum_ext K k0 kadd.
Let BS_zero := @bigsum_zero K k0 k1 kadd kmul ksub kopp Kr.
Let BS_swap := @bigsum_swap K k0 k1 kadd kmul ksub kopp Kr.
Let BS_plus := @bigsum_plus K k0 k1 kadd kmul ksub kopp Kr.

Variable fb : bool.
Variable eps : K.
Hypothesis one_not_small : ltb (kabs k1) eps = false.
Hypothesis mone_not_small : ltb (kabs (kopp k1)) eps = false.
Hypothesis one_large : ltb eps (kabs k1) = true.
Hypothesis mone_large : ltb eps (kabs (kopp k1)) = true.
Variables reference prec : K.
(** pruning tolerance 0: only exact zeros are dropped by sparseView / prune *)
Hypothesis Hkeep : forall x, keep_entry K NO reference prec x = false -> x = k0.
Variable T : tols K.
Hypothesis Hrel : forall R, gf_relevant K NO (t_matrix_element K T) R = false -> R = k0.
Hypothesis Hcmp : forall a b, gf_compare K NO (t_compare K T) a b = false -> gf_compare K NO (t_compare K T) b a = true.

Variable S : classification.
Variable ED : eigdata K.
Notation nb := (length (sc_states S)).
Notation dimf := (block_size S).
Notation N := (state_size S).
Notation M := (sc_M S).
Notation states b := (nth b (sc_states S) []) (only parsing).
Notation Ug := (assembled_U K NO S ED).
Notation offs := (off (block_size S)).

(** * The hypotheses about the neighbouring layers, in the representation of PV.HPart *)
(** C07 (partition_exact): the blocks are duplicate-free, list labels below 2^M, StateBlockIndex is the block of each
    label, and every label is in its block *)
Record partition_ok : Prop := {
  po_wf : wf_class S;
  po_cover : forall s, s < N -> block_of S s < nb /\ In s (states (block_of S s));
  po_total : length (concat (sc_states S)) = N
}.
(** shapes of the eigen-data *)
Record eig_ok : Prop := {
  eo_len : length ED = nb;
  eo_E : forall b, b < nb -> length (Eof K ED b) = dimf b;
  eo_U : forall b, b < nb -> square K (dimf b) (Uof K ED b)
}.
(** C07 (single_target) for the operator o: prepare() records exactly the block pairs the operator connects, no bimap
    insertion is refused, and the image of a state of block R lies in the recorded left block *)
Record op_ok (o : fop) (prs : list (nat * nat)) : Prop := {
  oo_range : mono_in_range M (fop_mono o);
  oo_prepare : fo_prepare fb K NO eps S o = Done prs;
  oo_bimap : fo_bimap prs = prs;
  oo_pairs : forall L R, In (L, R) prs -> L < nb /\ R < nb;
  oo_target : forall L R s t sg, In (L, R) prs -> In s (states R) -> tgt_of K NO M o s = Some (t, sg) -> In t (states L);
  oo_complete : forall R s t sg, R < nb -> In s (states R) -> tgt_of K NO M o s = Some (t, sg) -> exists L, In (L, R) prs
}.

Hypothesis PO : partition_ok.
Hypothesis EO : eig_ok.

(** * Facts about the partition *)
Lemma states_nth_error b : b < nb -> nth_error (sc_states S) b = Some (states b).
Proof. intros H. apply nth_error_nth'. exact H. Qed.

Lemma blk_in b s : b < nb -> In s (states b) -> s < N /\ block_of S s = b.
Proof.
  intros Hb Hs. destruct (proj2 (po_wf PO) b (states b) s (states_nth_error b Hb) Hs) as [H1 H2].
  split; [exact H1|]. unfold block_of. apply (nth_error_nth _ _ 0 H2).
Qed.

Lemma states_nodup b : b < nb -> NoDup (states b).
Proof. intros Hb. exact (proj1 (po_wf PO) b (states b) (states_nth_error b Hb)). Qed.

Lemma existsb_eqb_in s l : existsb (Nat.eqb s) l = true <-> In s l.
Proof.
  rewrite existsb_exists. split.
  - intros [y [Hy E]]. apply Nat.eqb_eq in E. subst. exact Hy.
  - intros H. exists s. split; [exact H|apply Nat.eqb_refl].
Qed.

Lemma blk_mem s b : s < N -> b < nb -> (b =? block_of S s) = existsb (Nat.eqb s) (states b).
Proof.
  intros Hs Hb. destruct (Nat.eqb_spec b (block_of S s)) as [E|NE]; symmetry.
  - apply existsb_eqb_in. subst b. exact (proj2 (po_cover PO s Hs)).
  - apply not_true_iff_false. intros H. apply existsb_eqb_in in H. destruct (blk_in b s Hb H) as [_ E]. congruence.
Qed.

Lemma pos_in_nth b k : b < nb -> k < dimf b -> pos_in S (nth k (states b) 0) = k.
Proof.
  intros Hb Hk. unfold pos_in.
  assert (Hn : nth_error (states b) k = Some (nth k (states b) 0)) by (apply nth_error_nth'; exact Hk).
  destruct (blk_in b _ Hb (nth_error_In _ _ Hn)) as [_ E]. rewrite E.
  rewrite (find_pos_nth (states b) k _ 0 (states_nodup b Hb) Hn). reflexivity.
Qed.

Lemma pos_in_find b t : b < nb -> In t (states b) -> find_pos (states b) t 0 = Some (pos_in S t) /\ pos_in S t < dimf b.
Proof.
  intros Hb Ht. destruct (In_nth _ _ 0 Ht) as [k [Hk E]].
  assert (Hn : nth_error (states b) k = Some t) by (rewrite <- E; apply nth_error_nth'; exact Hk).
  rewrite (find_pos_nth (states b) k t 0 (states_nodup b Hb) Hn). rewrite <- E, (pos_in_nth b k Hb Hk). split; [reflexivity|exact Hk].
Qed.

Lemma offs_goff b : b <= nb -> offs b = goff nat (sc_states S) b.
Proof. apply (off_goff nat offs dimf (sc_states S)); [reflexivity|reflexivity|]. intros b' _. reflexivity. Qed.

Lemma offs_total : offs nb = N.
Proof. rewrite offs_goff by lia. rewrite goff_all. exact (po_total PO). Qed.

Lemma offs_lt b k : b < nb -> k < dimf b -> offs b + k < N.
Proof. intros Hb Hk. pose proof (off_mono dimf b nb Hb). rewrite offs_total in H. lia. Qed.

(** * The assembled eigenvector matrix *)
Notation seg := (useg K NO S).

Lemma seg_length s b : b < nb -> length (seg s (b, nth b ED ([], []))) = dimf b.
Proof.
  intros Hb. unfold useg. cbn [fst snd]. fold (Eof K ED b). fold (Uof K ED b). rewrite (eo_E EO b Hb).
  destruct (b =? block_of S s); [|apply repeat_length].
  destruct (Nat.lt_ge_cases (pos_in S s) (length (Uof K ED b))) as [H|H].
  - rewrite (nth_indep _ _ [] H). destruct (eo_U EO b Hb) as [HU HUr]. apply HUr. lia.
  - rewrite nth_overflow by exact H. apply repeat_length.
Qed.

Lemma nth_segs s b : b < nb ->
  nth b (map (seg s) (combine (seq 0 (length ED)) ED)) [] = seg s (b, nth b ED ([], [])).
Proof.
  intros Hb.
  assert (Hl : length (combine (seq 0 (length ED)) ED) = nb).
  { rewrite combine_length, seq_length, Nat.min_id. exact (eo_len EO). }
  rewrite (nth_indep _ [] (seg s (0, ([], [])))) by (rewrite map_length, Hl; exact Hb).
  rewrite (map_nth (seg s)). rewrite combine_nth by (rewrite seq_length; reflexivity).
  rewrite seq_nth by (rewrite (eo_len EO); exact Hb). reflexivity.
Qed.

Lemma Ug_row_length s : s < N -> length (nth s Ug []) = N.
Proof.
  intros Hs. unfold assembled_U. rewrite (nth_map_seq _ N s []) by exact Hs.
  rewrite <- goff_all.
  assert (Hl : length (map (seg s) (combine (seq 0 (length ED)) ED)) = nb).
  { rewrite map_length, combine_length, seq_length, Nat.min_id. exact (eo_len EO). }
  rewrite Hl. rewrite <- offs_total. symmetry. apply (off_goff K offs dimf); [reflexivity|reflexivity| |rewrite Hl; lia].
  intros b Hb. rewrite Hl in Hb. rewrite nth_segs by exact Hb. symmetry. apply seg_length. exact Hb.
Qed.

Lemma Ug_square : square K N Ug.
Proof. split; [unfold assembled_U; rewrite map_length, seq_length; reflexivity|]. intros i Hi. apply Ug_row_length. exact Hi. Qed.

Lemma Ug_entry s b k : s < N -> b < nb -> k < dimf b ->
  mget K NO Ug s (offs b + k) = if b =? block_of S s then mget K NO (Uof K ED b) (pos_in S s) k else k0.
Proof.
  intros Hs Hb Hk. unfold mget at 1. unfold assembled_U. rewrite (nth_map_seq _ N s []) by exact Hs.
  assert (Hl : length (map (seg s) (combine (seq 0 (length ED)) ED)) = nb).
  { rewrite map_length, combine_length, seq_length, Nat.min_id. exact (eo_len EO). }
  assert (Ho : offs b = goff K (map (seg s) (combine (seq 0 (length ED)) ED)) b).
  { apply (off_goff K offs dimf); [reflexivity|reflexivity| |lia]. intros b' Hb'. rewrite Hl in Hb'. rewrite nth_segs by exact Hb'.
    symmetry. apply seg_length. exact Hb'. }
  rewrite Ho. rewrite nth_concat_goff by (rewrite ?Hl, ?nth_segs, ?seg_length; assumption).
  rewrite nth_segs by exact Hb. unfold useg. cbn [fst snd]. fold (Eof K ED b). fold (Uof K ED b).
  destruct (b =? block_of S s); [|apply nth_repeat].
  unfold mget. destruct (Nat.lt_ge_cases (pos_in S s) (length (Uof K ED b))) as [H|H].
  - rewrite (nth_indep _ _ [] H). reflexivity.
  - rewrite !(nth_overflow (Uof K ED b)) by exact H. rewrite nth_repeat. destruct k; reflexivity.
Qed.

(** * The Jordan-Wigner matrix *)
Lemma poly_matrix_square p : square K N (poly_matrix K NO M p).
Proof.
  unfold poly_matrix, state_size. cbv zeta. split; [rewrite map_length, seq_length; reflexivity|].
  intros i Hi. rewrite (nth_map_seq _ (Nat.pow 2 M) i []) by exact Hi. rewrite map_length, seq_length. reflexivity.
Qed.

Lemma tgt_of_range o s t sg : tgt_of K NO M o s = Some (t, sg) -> t < N.
Proof.
  unfold tgt_of. intros H.
  destruct (act_mono (fop_mono o) (state_of_nat M s)) as [[[sgb s']|]| | | |] eqn:E; try discriminate.
  injection H as <- _. apply (mono_entry_range M (fop_mono o) s sgb). unfold mono_entry. rewrite E. reflexivity.
Qed.

Lemma bsum_delta_list (l : list nat) (t : nat) (f : nat -> K) : NoDup l ->
  bsum l (fun s => if t =? s then f s else k0) = if existsb (Nat.eqb t) l then f t else k0.
Proof.
  induction l as [|x l IH]; intros Hnd; [reflexivity|]. inversion Hnd as [|a b Hx Hnd']; subst.
  cbn [bigsum existsb]. rewrite IH by exact Hnd'. destruct (Nat.eqb_spec t x) as [->|NE]; cbn [orb].
  - assert (E : existsb (Nat.eqb x) l = false).
    { apply not_true_iff_false. intros E. apply existsb_eqb_in in E. exact (Hx E). }
    rewrite E. ring.
  - ring.
Qed.

(** the rotated operator on a pair of blocks, in terms of the images of the states of the right block:
    entry (offset L + n, offset R + m) of U^+ O U  =  sum_k conj(U_L[pos(O k), n]) sign_k U_R[k, m] over the states k of
    block R whose image lies in block L *)
Definition rot_term (o : fop) (L R n m k : nat) : K :=
  match tgt_of K NO M o (nth k (states R) 0) with
  | Some (t, sg) => if existsb (Nat.eqb t) (states L)
                    then kmul (conj (mget K NO (Uof K ED L) (pos_in S t) n)) (kmul sg (mget K NO (Uof K ED R) k m))
                    else k0
  | None => k0
  end.

Theorem rotated_block_entry o L R n m : L < nb -> R < nb -> n < dimf L -> m < dimf R ->
  mget K NO (rotate K NO N Ug (poly_matrix K NO M (fop_poly K NO o))) (offs L + n) (offs R + m) =
  bsum (seq 0 (dimf R)) (rot_term o L R n m).
Proof.
  intros HL HR Hn Hm.
  rewrite (rotate_entry K NO Kr N Ug _ _ _ Ug_square (poly_matrix_square _) (offs_lt L n HL Hn) (offs_lt R m HR Hm)).
  rewrite BS_swap.
  (* outer sum over t: restrict to the states of block R *)
  transitivity (bsum (seq 0 N) (fun t => if existsb (Nat.eqb t) (states R) then
      bsum (seq 0 N) (fun s => kmul (conj (mget K NO Ug s (offs L + n)))
          (kmul (mget K NO (poly_matrix K NO M (fop_poly K NO o)) s t) (mget K NO (Uof K ED R) (pos_in S t) m))) else k0)).
  { apply BS_ext. intros t Ht. apply in_seq in Ht. rewrite <- (blk_mem t R) by lia.
    destruct (R =? block_of S t) eqn:E.
    - apply BS_ext. intros s _. rewrite (Ug_entry t R m) by lia. rewrite E. reflexivity.
    - apply BS_zero. intros s _. rewrite (Ug_entry t R m) by lia. rewrite E. ring. }
  rewrite (bsum_members K NO Kr N (states R)) by (try apply states_nodup; try exact HR; intros s Hs; apply (blk_in R s HR Hs)).
  rewrite (bsum_positions K NO 0). apply BS_ext. intros k Hk. apply in_seq in Hk. unfold block_size in Hk.
  rewrite (pos_in_nth R k HR) by (unfold block_size; lia).
  assert (Hkin : In (nth k (states R) 0) (states R)) by (apply nth_In; lia).
  destruct (blk_in R _ HR Hkin) as [Htk _]. set (t := nth k (states R) 0) in *.
  (* inner sum over s: restrict to the states of block L *)
  transitivity (bsum (seq 0 N) (fun s => if existsb (Nat.eqb s) (states L) then
      kmul (conj (mget K NO (Uof K ED L) (pos_in S s) n))
           (kmul (mget K NO (poly_matrix K NO M (fop_poly K NO o)) s t) (mget K NO (Uof K ED R) k m)) else k0)).
  { apply BS_ext. intros s Hs. apply in_seq in Hs. rewrite <- (blk_mem s L) by lia. rewrite (Ug_entry s L n) by lia.
    destruct (L =? block_of S s); [reflexivity|]. rewrite conj0. ring. }
  rewrite (bsum_members K NO Kr N (states L)) by (try apply states_nodup; try exact HL; intros s Hs; apply (blk_in L s HL Hs)).
  unfold rot_term. fold t.
  transitivity (bsum (states L) (fun s =>
      match tgt_of K NO M o t with
      | Some (t', sg) => if t' =? s then kmul (conj (mget K NO (Uof K ED L) (pos_in S s) n)) (kmul sg (mget K NO (Uof K ED R) k m)) else k0
      | None => k0
      end)).
  { apply BS_ext. intros s Hs. destruct (blk_in L s HL Hs) as [Hsl _].
    rewrite (jw_entry_tgt K NO M o s t Hsl Htk).
    destruct (tgt_of K NO M o t) as [[t' sg]|]; [destruct (t' =? s)|]; ring. }
  destruct (tgt_of K NO M o t) as [[t' sg]|]; [|apply BS_zero; reflexivity].
  apply (bsum_delta_list (states L) t' (fun s => kmul (conj (mget K NO (Uof K ED L) (pos_in S s) n)) (kmul sg (mget K NO (Uof K ED R) k m)))).
  apply states_nodup. exact HL.
Qed.


(** * FieldOperatorPart::compute on the recorded block pairs (C10: HPartProofs.fop_dense_entries) *)
Lemma fop_dense_shape o from to Hf Ht Dm : from < nb -> to < nb ->
  fop_dense fb K NO eps S o from to Hf Ht = Done Dm ->
  length Dm = dimf to /\ forall r, r < dimf to -> length (nth r Dm []) = dimf from.
Proof.
  intros Hfr Hto. unfold fop_dense, getFockStates. rewrite (states_nth_error to Hto), (states_nth_error from Hfr). cbn [bind].
  destruct (fop_fill fb K NO eps S o Hf Ht (length (states to)) (length (states from)) (states from)) as [[Lc Rr]| | | |];
    cbn [bind]; try discriminate.
  intros E. injection E as <-. cbn [fst snd].
  assert (Hl : length (transpose K NO (length (states to)) Lc) = dimf to) by (unfold transpose; apply transpose_aux_length).
  split; [rewrite mmul_length; exact Hl|]. intros r Hr. apply mmul_row_length. rewrite Hl. exact Hr.
Qed.

Section OneOperator.
Variable o : fop.
Variable prs : list (nat * nat).
Hypothesis OO : op_ok o prs.

Lemma part_entries L R : In (L, R) prs ->
  exists Dm, fop_dense fb K NO eps S o R L (Uof K ED R) (Uof K ED L) = Done Dm /\
    forall n m, n < dimf L -> m < dimf R -> mget K NO Dm n m = bsum (seq 0 (dimf R)) (rot_term o L R n m).
Proof.
  intros Hin. destruct (oo_pairs o prs OO L R Hin) as [HL HR].
  destruct (fop_dense_entries fb K NO eps one_not_small mone_not_small one_large mone_large S o R L (states R) (states L)
              (Uof K ED R) (Uof K ED L) (po_wf PO) (oo_range o prs OO) (states_nth_error R HR) (states_nth_error L HL)
              (eo_U EO R HR) (eo_U EO L HL)) as [Dm [HD Hent]].
  { intros Kst Lst sg HK HT. exact (oo_target o prs OO L R Kst Lst sg Hin HK HT). }
  exists Dm. split; [exact HD|]. intros n m Hn Hm. rewrite (Hent n m Hn Hm). rewrite (bsum_fold K NO Kr).
  apply BS_ext. intros k Hk. apply in_seq in Hk. unfold lentry, rentry, rot_term.
  destruct (tgt_of K NO M o (nth k (states R) 0)) as [[t sg]|] eqn:E; [|ring].
  assert (Ht : In t (states L)).
  { apply (oo_target o prs OO L R (nth k (states R) 0) t sg Hin); [apply nth_In; unfold block_size in Hk; lia|exact E]. }
  rewrite (proj2 (existsb_eqb_in t (states L)) Ht). rewrite (proj1 (pos_in_find L t HL Ht)). reflexivity.
Qed.

Lemma rot_term_zero L R n m k : L < nb -> R < nb -> k < dimf R -> ~ In (L, R) prs -> rot_term o L R n m k = k0.
Proof.
  intros HL HR Hk Hnot. unfold rot_term.
  destruct (tgt_of K NO M o (nth k (states R) 0)) as [[t sg]|] eqn:E; [|reflexivity].
  destruct (existsb (Nat.eqb t) (states L)) eqn:X; [|reflexivity]. exfalso. apply existsb_eqb_in in X.
  assert (Hs : In (nth k (states R) 0) (states R)) by (apply nth_In; exact Hk).
  destruct (oo_complete o prs OO R _ t sg HR Hs E) as [L' HL'].
  pose proof (oo_target o prs OO L' R _ t sg HL' Hs E) as Ht'.
  destruct (oo_pairs o prs OO L' R HL') as [HL'' _].
  destruct (blk_in L t HL X) as [_ E1]. destruct (blk_in L' t HL'' Ht') as [_ E2]. apply Hnot. congruence.
Qed.

Lemma Forall2_parts (F : nat * nat -> outcome (mat K)) : forall ps parts,
  Forall2 (fun lr b => bind (F lr) (fun Dm => Done (lr, Dm)) = Done b) ps parts ->
  map fst parts = ps /\ forall lr Dm, In (lr, Dm) parts -> F lr = Done Dm.
Proof.
  induction 1 as [|lr b ps parts Hb _ [IH1 IH2]]; [split; [reflexivity|intros ? ? []]|].
  destruct (F lr) as [Dm| | | |] eqn:E; cbn [bind] in Hb; try discriminate. injection Hb as <-.
  split; [cbn [map fst]; rewrite IH1; reflexivity|].
  intros lr' Dm' [H|H]; [injection H as <- <-; exact E|apply IH2; exact H].
Qed.

Lemma op_compute_spec : exists parts, op_compute K NO fb eps S ED o = Done parts.
Proof.
  unfold op_compute. rewrite (oo_prepare o prs OO). cbn [bind]. apply outcome_map_exists.
  intros [L R] Hin. destruct (part_entries L R Hin) as [Dm [HD _]]. cbn [fst snd]. rewrite HD. cbn [bind]. eexists. reflexivity.
Qed.

Variable parts : list ((nat * nat) * mat K).
Hypothesis HP : op_compute K NO fb eps S ED o = Done parts.

Lemma parts_spec : map fst parts = prs /\
  forall lr Dm, In (lr, Dm) parts -> fop_dense fb K NO eps S o (snd lr) (fst lr) (Uof K ED (snd lr)) (Uof K ED (fst lr)) = Done Dm.
Proof.
  revert HP. unfold op_compute. rewrite (oo_prepare o prs OO). cbn [bind]. intros HP'.
  apply outcome_map_Forall2 in HP'.
  exact (Forall2_parts (fun lr => fop_dense fb K NO eps S o (snd lr) (fst lr) (Uof K ED (snd lr)) (Uof K ED (fst lr))) prs parts HP').
Qed.

Lemma bimap_parts : fo_bimap (map fst parts) = prs.
Proof. rewrite (proj1 parts_spec). exact (oo_bimap o prs OO). Qed.

Lemma prs_nodup : NoDup (map fst prs) /\ NoDup (map snd prs).
Proof. rewrite <- (oo_bimap o prs OO). exact (hp_fo_bimap_wf prs). Qed.

(** the part stored for a recorded pair: found from either side, right shape, entries = rotated block *)
Lemma part_of_pair L R : In (L, R) prs ->
  exists Dm, part_from_left K parts L = Some ((L, R), Dm) /\ part_from_right K parts R = Some ((L, R), Dm) /\
    length Dm = dimf L /\ (forall r, r < dimf L -> length (nth r Dm []) = dimf R) /\
    forall n m, n < dimf L -> m < dimf R -> mget K NO Dm n m = bsum (seq 0 (dimf R)) (rot_term o L R n m).
Proof.
  intros Hin. destruct (oo_pairs o prs OO L R Hin) as [HL HR]. destruct parts_spec as [Hm Hd].
  assert (Hx : exists Dm, In ((L, R), Dm) parts).
  { rewrite <- Hm in Hin. apply in_map_iff in Hin. destruct Hin as [[lr Dm] [E Hx]]. cbn [fst] in E. subst lr. exists Dm. exact Hx. }
  destruct Hx as [Dm Hx]. exists Dm. pose proof (Hd _ _ Hx) as HD. cbn [fst snd] in HD.
  split; [|split].
  - unfold part_from_left. apply (find_unique (fun e : (nat * nat) * mat K => fst (fst e)) (rev parts) ((L, R), Dm)); [|apply in_rev in Hx; exact Hx].
    rewrite map_rev. apply NoDup_rev. rewrite <- (map_map fst fst), Hm. exact (proj1 prs_nodup).
  - unfold part_from_right. apply (find_unique (fun e : (nat * nat) * mat K => snd (fst e)) (rev parts) ((L, R), Dm)); [|apply in_rev in Hx; exact Hx].
    rewrite map_rev. apply NoDup_rev. rewrite <- (map_map fst snd), Hm. exact (proj2 prs_nodup).
  - destruct (fop_dense_shape o R L _ _ Dm HR HL HD) as [H1 H2]. split; [exact H1|]. split; [exact H2|].
    destruct (part_entries L R Hin) as [Dm' [HD' Hent]]. rewrite HD in HD'. injection HD' as <-. exact Hent.
Qed.

Lemma keep_id x : (if keep K NO reference prec x then x else k0) = x.
Proof. unfold keep. destruct (keep_entry K NO reference prec x) eqn:E; [reflexivity|]. symmetry. apply Hkeep. exact E. Qed.

End OneOperator.

(** * The density matrix: shapes of the weights, all blocks retained (from the model, Thermal.dm_compute) *)
Variable D : list (Thermal.dmpart K).
Record dm_ok : Prop := {
  do_len : length D = nb;
  do_W : forall b, b < nb -> length (Wof K NO D b) = dimf b;
  do_ret : forall b, b < nb -> Thermal.is_retained K D b = true
}.

Lemma spine_dm_ok beta : spine_dm K NO beta S ED = Done D -> dm_ok.
Proof.
  unfold spine_dm, Thermal.dm_compute.
  destruct (Thermal.ground_energy K ltb (thermal_hparts K S ED)) as [g| | | |]; cbn [bind]; try discriminate.
  intros E. injection E as E. cbv zeta in E. unfold Thermal.dm_unnormalized in E.
  revert E. generalize (Thermal.dm_Z K k0 kadd (map (Thermal.compute_unnormalized K k0 kadd ksub kmul kopp (nexp K NO) beta g) (thermal_hparts K S ED))).
  intros Z E. rewrite map_map in E. unfold thermal_hparts in E. rewrite map_map in E.
  pose (F := fun se : list nat * (list K * mat K) =>
     Thermal.normalize K kdiv Z (Thermal.compute_unnormalized K k0 kadd ksub kmul kopp (nexp K NO) beta g
        (Thermal.mk_hpart K (fst se) (fst (snd se)) (snd (snd se))))).
  change (map F (combine (sc_states S) ED) = D) in E.
  assert (Hl : length (combine (sc_states S) ED) = nb) by (rewrite combine_length, (eo_len EO), Nat.min_id; reflexivity).
  assert (Hn : forall b, b < nb -> nth b D (Thermal.mk_dmpart K [] k0 false) = F (nth b (sc_states S) [], nth b ED ([], []))).
  { intros b Hb. rewrite <- E. rewrite (nth_indep _ _ (F ([], ([], [])))) by (rewrite map_length, Hl; exact Hb).
    rewrite (map_nth F). rewrite combine_nth by (symmetry; exact (eo_len EO)). reflexivity. }
  constructor.
  - rewrite <- E, map_length. exact Hl.
  - intros b Hb. unfold Wof. rewrite (Hn b Hb). unfold F, Thermal.normalize, Thermal.compute_unnormalized.
    cbn [Thermal.dp_weights Thermal.hp_eig fst snd]. rewrite !map_length. exact (eo_E EO b Hb).
  - intros b Hb. unfold Thermal.is_retained. change false with (Thermal.dp_retained K (Thermal.mk_dmpart K [] k0 false)).
    rewrite map_nth, (Hn b Hb). reflexivity.
Qed.

(** * blocks_sound and assembled for the pipeline's data *)
Variables i j : nat.
Variables prsC prsX : list (nat * nat).
Hypothesis OC : op_ok (FC i) prsC.
Hypothesis OX : op_ok (FCdag j) prsX.
Hypothesis DO : dm_ok.
Variables cparts cxparts : list ((nat * nat) * mat K).
Hypothesis HC : op_compute K NO fb eps S ED (FC i) = Done cparts.
Hypothesis HX : op_compute K NO fb eps S ED (FCdag j) = Done cxparts.

Notation g := (spine_gf_in K NO reference prec S ED D cparts cxparts).
Definition g_all_retained : gf_in K :=
  mkgf K (g_cl K g) (g_cxr K g) (g_cpart K g) (g_cxpart K g) (g_E K g) (g_W K g) (fun _ => true).
Notation g' := g_all_retained.

Notation Ci := (rotate K NO N Ug (op_matrix K NO M (cann i))).
Notation CXj := (rotate K NO N Ug (op_matrix K NO M (cdag j))).
Definition Cf (L n R m : nat) : K := mget K NO Ci (offs L + n) (offs R + m).
Definition CXf (R m L n : nat) : K := mget K NO CXj (offs R + m) (offs L + n).

Lemma in_cl L R : In (L, R) (g_cl K g') <-> In (L, R) prsC.
Proof.
  cbn [g_cl g_all_retained spine_gf_in]. unfold Symm.left_view. rewrite PartitionInvariance.sort_by_In.
  rewrite (bimap_parts (FC i) prsC OC cparts HC). reflexivity.
Qed.
Lemma in_cxr L R : In (L, R) (g_cxr K g') <-> In (R, L) prsX.
Proof.
  cbn [g_cxr g_all_retained spine_gf_in]. unfold Symm.right_view. rewrite in_map_iff. split.
  - intros [[a b] [E H]]. unfold swap in E. cbn [fst snd] in E. injection E as <- <-.
    apply PartitionInvariance.sort_by_In in H. rewrite (bimap_parts (FCdag j) prsX OX cxparts HX) in H. exact H.
  - intros H. exists (R, L). split; [reflexivity|]. apply PartitionInvariance.sort_by_In.
    rewrite (bimap_parts (FCdag j) prsX OX cxparts HX). exact H.
Qed.

Theorem spine_blocks_sound : blocks_sound K NO nb dimf g' Cf CXf.
Proof.
  constructor.
  - cbn [g_cl g_all_retained spine_gf_in]. apply PartitionInvariance.left_view_ksorted. apply hp_fo_bimap_wf.
  - cbn [g_cxr g_all_retained spine_gf_in]. exact (PartitionInvariance.right_view_ksorted _ (hp_fo_bimap_wf _)).
  - intros L R H. apply in_cl in H. exact (oo_pairs _ _ OC L R H).
  - intros L R H. apply in_cxr in H. destruct (oo_pairs _ _ OX R L H). split; assumption.
  - reflexivity.
  - intros L R H. apply in_cl in H. destruct (oo_pairs _ _ OC L R H) as [HL HR].
    destruct (part_of_pair (FC i) prsC OC cparts HC L R H) as [Dm [Hf [_ [Hlen [Hrow _]]]]].
    cbn [g_cpart g_all_retained spine_gf_in]. rewrite Hf. cbn [snd]. eexists. split; [reflexivity|]. split; [|split].
    + apply cs_row_major_wf. intros r Hr. destruct (In_nth _ _ [] Hr) as [q [Hq <-]]. rewrite Hrow by lia. lia.
    + rewrite cs_row_major_outer. exact Hlen.
    + reflexivity.
  - intros L R H. apply in_cxr in H. destruct (oo_pairs _ _ OX R L H) as [HR HL].
    destruct (part_of_pair (FCdag j) prsX OX cxparts HX R L H) as [Dm [_ [Hf [Hlen [Hrow _]]]]].
    cbn [g_cxpart g_all_retained spine_gf_in]. rewrite Hf. cbn [fst snd]. eexists. split; [reflexivity|]. split; [|split].
    + apply cs_col_major_wf. lia.
    + apply cs_col_major_outer.
    + reflexivity.
  - intros b Hb. exact (eo_E EO b Hb).
  - intros b Hb. exact (do_W DO b Hb).
  - intros L R n m HL HR Hn Hm. unfold Cf.
    change (op_matrix K NO M (cann i)) with (poly_matrix K NO M (fop_poly K NO (FC i))).
    rewrite (rotated_block_entry (FC i) L R n m HL HR Hn Hm).
    destruct (memb (L, R) (g_cl K g')) eqn:Mb.
    + apply memb_in in Mb. apply in_cl in Mb.
      destruct (part_of_pair (FC i) prsC OC cparts HC L R Mb) as [Dm [Hf [_ [Hlen [Hrow Hent]]]]].
      cbn [g_cpart g_all_retained spine_gf_in]. rewrite Hf. cbn [snd].
      rewrite (cs_row_major_get K NO Kr) by (rewrite ?Hrow; lia). rewrite keep_id. symmetry. apply Hent; assumption.
    + apply BS_zero. intros k Hk. apply in_seq in Hk. apply (rot_term_zero (FC i) prsC OC L R n m k HL HR); [lia|].
      intros Hin. apply in_cl in Hin. apply memb_in in Hin. congruence.
  - intros L R n m HL HR Hn Hm. unfold CXf.
    change (op_matrix K NO M (cdag j)) with (poly_matrix K NO M (fop_poly K NO (FCdag j))).
    rewrite (rotated_block_entry (FCdag j) R L m n HR HL Hm Hn).
    destruct (memb (L, R) (g_cxr K g')) eqn:Mb.
    + apply memb_in in Mb. apply in_cxr in Mb.
      destruct (part_of_pair (FCdag j) prsX OX cxparts HX R L Mb) as [Dm [_ [Hf [Hlen [Hrow Hent]]]]].
      cbn [g_cxpart g_all_retained spine_gf_in]. rewrite Hf. cbn [fst snd].
      rewrite (cs_col_major_get K NO Kr) by lia. rewrite keep_id. symmetry. apply Hent; assumption.
    + apply BS_zero. intros k Hk. apply in_seq in Hk. apply (rot_term_zero (FCdag j) prsX OX R L m n k HR HL); [lia|].
      intros Hin. apply in_cxr in Hin. apply memb_in in Hin. congruence.
Qed.

Lemma offs_concat {A} (ls : list (list A)) (d : A) b k : length ls = nb -> (forall b', b' < nb -> length (nth b' ls []) = dimf b') ->
  b < nb -> k < dimf b -> nth (offs b + k) (concat ls) d = nth k (nth b ls []) d.
Proof.
  intros Hl Hd Hb Hk.
  assert (Ho : offs b = goff A ls b).
  { apply (off_goff A offs dimf); [reflexivity|reflexivity| |lia]. intros b' Hb'. symmetry. apply Hd. lia. }
  rewrite Ho. apply nth_concat_goff; [lia|]. rewrite Hd by exact Hb. exact Hk.
Qed.

Theorem spine_assembled : assembled K NO nb dimf g' Cf CXf (assembled_E K ED) (assembled_w K D) Ci CXj.
Proof.
  constructor.
  - rewrite rotate_length. symmetry. exact offs_total.
  - intros r Hr. rewrite offs_total in *. apply rotate_row_length. exact Hr.
  - reflexivity.
  - reflexivity.
  - intros b k Hb Hk. cbn [g_E g_all_retained spine_gf_in]. unfold assembled_E.
    rewrite (offs_concat (map fst ED) k0 b k); try assumption.
    + unfold Eof. change (@nil K) with (fst (@nil K, @nil (list K))). rewrite map_nth. reflexivity.
    + rewrite map_length. exact (eo_len EO).
    + intros b' Hb'. change (@nil K) with (fst (@nil K, @nil (list K))). rewrite map_nth. exact (eo_E EO b' Hb').
  - intros b k Hb Hk. cbn [g_W g_all_retained spine_gf_in]. unfold assembled_w.
    rewrite (offs_concat (map (Thermal.dp_weights K) D) k0 b k); try assumption.
    + unfold Wof. change (@nil K) with (Thermal.dp_weights K (Thermal.mk_dmpart K [] k0 false)). rewrite map_nth. reflexivity.
    + rewrite map_length. exact (do_len DO).
    + intros b' Hb'. change (@nil K) with (Thermal.dp_weights K (Thermal.mk_dmpart K [] k0 false)). rewrite map_nth. exact (do_W DO b' Hb').
Qed.

(** isRetained is only asked for blocks of selected pairs, which are below the number of blocks *)
Lemma gf_compute_retained fixed lenient : gf_compute K NO fixed lenient T g = gf_compute K NO fixed lenient T g'.
Proof.
  unfold gf_compute.
  rewrite (gf_prepare_spec K g (bs_cl_sorted _ _ _ _ _ _ _ spine_blocks_sound) (bs_cxr_sorted _ _ _ _ _ _ _ spine_blocks_sound)).
  rewrite (gf_prepare_spec K g' (bs_cl_sorted _ _ _ _ _ _ _ spine_blocks_sound) (bs_cxr_sorted _ _ _ _ _ _ _ spine_blocks_sound)).
  change (g_cl K g') with (g_cl K g). change (g_cxr K g') with (g_cxr K g).
  replace (filter (fun lr => g_ret K g (fst lr) || g_ret K g (snd lr)) (stripes_spec (g_cl K g) (g_cxr K g)))
    with (filter (fun lr => g_ret K g' (fst lr) || g_ret K g' (snd lr)) (stripes_spec (g_cl K g) (g_cxr K g))); [reflexivity|].
  apply filter_ext_in. intros [L R] Hin. apply in_stripes_spec in Hin. destruct Hin as [H1 _].
  destruct (bs_cl_range _ _ _ _ _ _ _ spine_blocks_sound L R H1) as [HL _].
  cbn [g_ret g_all_retained spine_gf_in fst snd]. rewrite (do_ret DO L HL). reflexivity.
Qed.

Theorem spine_value fixed lenient z parts :
  gf_compute K NO fixed lenient T g = WDone parts ->
  gf_value K NO parts z = gf K NO (assembled_E K ED) (assembled_w K D) Ci CXj z.
Proof.
  rewrite gf_compute_retained. intros H.
  exact (gf_blocks_eq_full K NO kinv Kr Kdiv T Hrel Hcmp nb dimf g' Cf CXf spine_blocks_sound
           (assembled_E K ED) (assembled_w K D) Ci CXj spine_assembled fixed lenient z parts H).
Qed.

(** with the repaired loops ([fixed] = true) the computation returns: no read outside the arrays, no missing part *)
Lemma compute_parts_total lenient : forall ps, (forall p, In p ps -> part_wf K (snd p)) ->
  exists outs, compute_parts K NO true lenient T ps = WDone outs.
Proof.
  induction ps as [|[lr inp] ps IH]; intros W; [exists []; reflexivity|].
  destruct (gf_part_compute_fixed K NO lenient T inp (W (lr, inp) (or_introl eq_refl))) as [o Ho].
  destruct IH as [outs Ho']; [intros p Hp; apply W; right; exact Hp|].
  exists ((lr, o) :: outs). cbn [compute_parts]. rewrite Ho. cbn [wbind]. rewrite Ho'. reflexivity.
Qed.

Theorem spine_compute_total lenient : exists parts, gf_compute K NO true lenient T g = WDone parts.
Proof.
  rewrite gf_compute_retained. unfold gf_compute.
  rewrite (gf_prepare_spec K g' (bs_cl_sorted _ _ _ _ _ _ _ spine_blocks_sound) (bs_cxr_sorted _ _ _ _ _ _ _ spine_blocks_sound)).
  set (sel := filter _ _).
  assert (Hsel : forall lr, In lr sel -> In lr (g_cl K g') /\ In lr (g_cxr K g')).
  { intros [L R] H. unfold sel in H. apply filter_In in H. destruct H as [H _]. apply in_stripes_spec in H. exact H. }
  rewrite (all_some_mkpart K NO nb dimf g' Cf CXf spine_blocks_sound sel Hsel).
  apply compute_parts_total. intros p Hp. apply in_map_iff in Hp. destruct Hp as [[L R] [<- Hin]]. cbn [snd].
  destruct (Hsel _ Hin) as [H1 H2].
  destruct (selected_part K NO nb dimf g' Cf CXf spine_blocks_sound L R H1 H2) as [a [b [Em [_ [_ [W _]]]]]].
  unfold part_at. rewrite Em. exact W.
Qed.

End SpineP.

(** * The spine theorem for any partition satisfying C07's conclusions *)
Theorem spine_gf_partition (K : Type) (NO : numops K) (kinv : K -> K)
  (Kr : ring_theory (n0 K NO) (n1 K NO) (nadd K NO) (nmul K NO) (nsub K NO) (nopp K NO) (@eq K))
  (Kdiv : forall a b, ndiv K NO a b = nmul K NO a (kinv b))
  (conj0 : nconj K NO (n0 K NO) = n0 K NO)
  (fb : bool) (eps : K)
  (one_not_small : nre_ltb K NO (nabs K NO (n1 K NO)) eps = false)
  (mone_not_small : nre_ltb K NO (nabs K NO (nopp K NO (n1 K NO))) eps = false)
  (one_large : nre_ltb K NO eps (nabs K NO (n1 K NO)) = true)
  (mone_large : nre_ltb K NO eps (nabs K NO (nopp K NO (n1 K NO))) = true)
  (reference prec : K) (Hkeep : forall x, keep_entry K NO reference prec x = false -> x = n0 K NO)
  (T : tols K)
  (Hrel : forall R, gf_relevant K NO (t_matrix_element K T) R = false -> R = n0 K NO)
  (Hcmp : forall a b, gf_compare K NO (t_compare K T) a b = false -> gf_compare K NO (t_compare K T) b a = true)
  (S : classification) (ED : eigdata K) (i j : nat) (prsC prsX : list (nat * nat)) :
  partition_ok S -> eig_ok K S ED ->
  op_ok K NO fb eps S (FC i) prsC -> op_ok K NO fb eps S (FCdag j) prsX ->
  forall (fixed lenient : bool) (beta z : K) (parts : list ((nat * nat) * part_out K)),
  spine_gf K NO fb eps reference prec T fixed lenient S ED beta i j = Done (WDone parts) ->
  exists D, spine_dm K NO beta S ED = Done D /\
    gf_value K NO parts z =
    gf K NO (assembled_E K ED) (assembled_w K D)
       (rotate K NO (state_size S) (assembled_U K NO S ED) (op_matrix K NO (sc_M S) (cann i)))
       (rotate K NO (state_size S) (assembled_U K NO S ED) (op_matrix K NO (sc_M S) (cdag j))) z.
Proof.
  intros PO EO OC OX fixed lenient beta z parts. unfold spine_gf.
  destruct (spine_dm K NO beta S ED) as [D| | | |] eqn:HD; cbn [bind]; try discriminate.
  destruct (op_compute K NO fb eps S ED (FC i)) as [cparts| | | |] eqn:HC; cbn [bind]; try discriminate.
  destruct (op_compute K NO fb eps S ED (FCdag j)) as [cxparts| | | |] eqn:HX; cbn [bind]; try discriminate.
  intros E. injection E as E. exists D. split; [reflexivity|].
  exact (spine_value K NO kinv Kr Kdiv conj0 fb eps one_not_small mone_not_small one_large mone_large reference prec Hkeep
           T Hrel Hcmp S ED PO EO D i j prsC prsX OC OX (spine_dm_ok K NO S ED EO D beta HD) cparts cxparts HC HX
           fixed lenient z parts E).
Qed.

(** with the repaired loops the whole pipeline returns a value (the density matrix needs one non-empty block at least) *)
Theorem spine_gf_partition_total (K : Type) (NO : numops K) (kinv : K -> K)
  (Kr : ring_theory (n0 K NO) (n1 K NO) (nadd K NO) (nmul K NO) (nsub K NO) (nopp K NO) (@eq K))
  (Kdiv : forall a b, ndiv K NO a b = nmul K NO a (kinv b))
  (conj0 : nconj K NO (n0 K NO) = n0 K NO)
  (fb : bool) (eps : K)
  (one_not_small : nre_ltb K NO (nabs K NO (n1 K NO)) eps = false)
  (mone_not_small : nre_ltb K NO (nabs K NO (nopp K NO (n1 K NO))) eps = false)
  (one_large : nre_ltb K NO eps (nabs K NO (n1 K NO)) = true)
  (mone_large : nre_ltb K NO eps (nabs K NO (nopp K NO (n1 K NO))) = true)
  (reference prec : K) (Hkeep : forall x, keep_entry K NO reference prec x = false -> x = n0 K NO)
  (T : tols K)
  (S : classification) (ED : eigdata K) (i j : nat) (prsC prsX : list (nat * nat)) :
  partition_ok S -> eig_ok K S ED ->
  op_ok K NO fb eps S (FC i) prsC -> op_ok K NO fb eps S (FCdag j) prsX ->
  forall (lenient : bool) (beta : K) D, spine_dm K NO beta S ED = Done D ->
  exists parts, spine_gf K NO fb eps reference prec T true lenient S ED beta i j = Done (WDone parts).
Proof.
  intros PO EO OC OX lenient beta D HD. unfold spine_gf. rewrite HD. cbn [bind].
  destruct (op_compute_spec K NO Kr fb eps one_not_small mone_not_small one_large mone_large S ED PO EO (FC i) prsC OC) as [cparts HC].
  destruct (op_compute_spec K NO Kr fb eps one_not_small mone_not_small one_large mone_large S ED PO EO (FCdag j) prsX OX) as [cxparts HX].
  rewrite HC, HX. cbn [bind].
  destruct (spine_compute_total K NO Kr conj0 fb eps one_not_small mone_not_small one_large mone_large reference prec Hkeep
              T S ED PO EO D i j prsC prsX OC OX (spine_dm_ok K NO S ED EO D beta HD) cparts cxparts HC HX lenient) as [parts Hp].
  exists parts. rewrite Hp. reflexivity.
Qed.
