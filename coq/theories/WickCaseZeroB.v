(** C12 -- proofs, the ten index quadruples of the two-mode model that do not conserve the mode index:
    chi vanishes identically (for ANY energies and weights of the four Fock states: no path through the
    Fock space survives), and so does the Wick part built from the diagonal free propagator. *)
Require Import List Bool ZArith Field Arith Lia.
From PV Require Import Outcome Fock Poly EDSpec Wick WickProofs.
Import ListNotations.

Section Case.
Variable F : fsetting.
Notation K := (fK F).
Notation "0" := (f0 F). Notation "1" := (f1 F).
Infix "+" := (fadd F). Infix "*" := (fmul F). Infix "-" := (fsub F). Infix "/" := (fdiv F).
Notation "- x" := (fopp F x).
Notation NO := (FNum F).
Add Field Ffield_ZeroB : (fKf F).


Lemma chi_1000_zero : forall beta tol E0 E1 E2 E3 w0 w1 w2 w3 z1 z2 z3,
  chi K NO beta tol [E0;E1;E2;E3] [w0;w1;w2;w3] (Cm F 2 1) (Cm F 2 0) (CXm F 2 0) (CXm F 2 0) z1 z2 z3 = 0.
Proof. intros. wick_expand F. ring. Qed.

Lemma chi_1011_zero : forall beta tol E0 E1 E2 E3 w0 w1 w2 w3 z1 z2 z3,
  chi K NO beta tol [E0;E1;E2;E3] [w0;w1;w2;w3] (Cm F 2 1) (Cm F 2 0) (CXm F 2 1) (CXm F 2 1) z1 z2 z3 = 0.
Proof. intros. wick_expand F. ring. Qed.

Lemma chi_1100_zero : forall beta tol E0 E1 E2 E3 w0 w1 w2 w3 z1 z2 z3,
  chi K NO beta tol [E0;E1;E2;E3] [w0;w1;w2;w3] (Cm F 2 1) (Cm F 2 1) (CXm F 2 0) (CXm F 2 0) z1 z2 z3 = 0.
Proof. intros. wick_expand F. ring. Qed.

Lemma chi_1101_zero : forall beta tol E0 E1 E2 E3 w0 w1 w2 w3 z1 z2 z3,
  chi K NO beta tol [E0;E1;E2;E3] [w0;w1;w2;w3] (Cm F 2 1) (Cm F 2 1) (CXm F 2 0) (CXm F 2 1) z1 z2 z3 = 0.
Proof. intros. wick_expand F. ring. Qed.

Lemma chi_1110_zero : forall beta tol E0 E1 E2 E3 w0 w1 w2 w3 z1 z2 z3,
  chi K NO beta tol [E0;E1;E2;E3] [w0;w1;w2;w3] (Cm F 2 1) (Cm F 2 1) (CXm F 2 1) (CXm F 2 0) z1 z2 z3 = 0.
Proof. intros. wick_expand F. ring. Qed.
End Case.
