(** Model of IndexContainer2<GreensFunction, GFContainer> (include/pomerol/IndexContainer2.h) and GFContainer
    (src/pomerol/GFContainer.cpp) as a state machine over histories of calls.

    An element remembers from which operator indices it was created (GFContainer::createElement, GFContainer.cpp:28-32:
    `new GreensFunction(S, H, Operators.getAnnihilationOperator(Indices.Index1), Operators.getCreationOperator(Indices.Index2), DM)`),
    an allocation id, and its ComputableObject status.  FieldOperatorContainer::get*Operator throws std::logic_error when
    IndexInfo.checkIndex fails (FieldOperatorContainer.cpp:45-61): modelled by [OThrows]. *)
Require Import Bool List Arith Lia.
Import ListNotations.

Inductive status : Type := Constructed | Prepared | Computed.
Definition status_max_prepared (s : status) : status := match s with Constructed => Prepared | _ => s end.

Record elem : Type := mkelem { el_id : nat; el_c : nat; el_cx : nat; el_status : status }.
Definition key : Type := (nat * nat)%type.       (* IndexCombination2 (Index1, Index2) *)

Record cstate : Type := mkc { emap : list (key * elem); next_id : nat }.
Definition cinit : cstate := mkc [] 0.

Definition key_eqb (a b : key) : bool := (fst a =? fst b) && (snd a =? snd b).
(** IndexCombination2::operator<  (Index.cpp:84-87) *)
Definition key_ltb (a b : key) : bool := (fst a <? fst b) || ((fst a =? fst b) && (snd a <? snd b)).

Fixpoint mfind (k : key) (m : list (key * elem)) : option elem :=
  match m with
  | [] => None
  | (k', e) :: r => if key_eqb k k' then Some e else mfind k r
  end.
(** std::map::operator[] followed by assignment: replace or insert at the sorted position *)
Fixpoint mset (k : key) (e : elem) (m : list (key * elem)) : list (key * elem) :=
  match m with
  | [] => [(k, e)]
  | (k', e') :: r => if key_eqb k k' then (k, e) :: r
                     else if key_ltb k k' then (k, e) :: (k', e') :: r
                     else (k', e') :: mset k e r
  end.

(** std::set<IndexCombination2> built from a sequence: sorted, without duplicates *)
Fixpoint sins (k : key) (s : list key) : list key :=
  match s with
  | [] => [k]
  | k' :: r => if key_eqb k k' then s else if key_ltb k k' then k :: s else k' :: sins k r
  end.
Definition set_of (l : list key) : list key := fold_left (fun s k => sins k s) l [].

(** enumerateInitialIndices  (IndexContainer2.h:125-135) *)
Definition all_indices (N : nat) : list key :=
  flat_map (fun i => map (fun j => (i, j)) (seq 0 N)) (seq 0 N).

Inductive cop : Type :=
| Fill (ks : list key)           (* fill(InitialIndices) *)
| SetK (k : key)                 (* set(Indices) *)
| IsIn (k : key)                 (* isInContainer *)
| Lookup (k : key)               (* operator()(Index1, Index2) *)
| PrepareAll (ks : list key)     (* GFContainer::prepareAll *)
| ComputeAll                     (* GFContainer::computeAll *)
| PrepareAt (k : key)            (* container(i,j).prepare()  -- through the returned reference *)
| ComputeAt (k : key).           (* container(i,j).compute() *)

Inductive cout : Type := OUnit | OBool (b : bool) | OElem (e : elem) | OThrows.

Section Machine.
Variable N : nat.      (* IndexInfo.getIndexSize() *)

(** createElement: throws unless both indices pass checkIndex *)
Definition create (st : cstate) (k : key) : option elem :=
  if (fst k <? N) && (snd k <? N) then Some (mkelem (next_id st) (fst k) (snd k) Constructed) else None.

(** set  (IndexContainer2.h:88-97) *)
Definition do_set (st : cstate) (k : key) : cstate * cout :=
  match create st k with
  | None => (st, OThrows)
  | Some e => (mkc (mset k e (emap st)) (S (next_id st)), OElem e)
  end.

(** the loop of fill  (IndexContainer2.h:79-84): stops at the first exception, keeping what was inserted *)
Fixpoint fill_loop (st : cstate) (II : list key) : cstate * cout :=
  match II with
  | [] => (st, OUnit)
  | k :: r =>
    match mfind k (emap st) with
    | Some _ => fill_loop st r                      (* isInContainer: skip *)
    | None => match do_set st k with
              | (st', OThrows) => (st', OThrows)
              | (st', _) => fill_loop st' r
              end
    end
  end.
(** fill  (IndexContainer2.h:63-85): ElementsMap.clear(); II = empty ? all : given *)
Definition do_fill (st : cstate) (ks : list key) : cstate * cout :=
  let II := match set_of ks with [] => all_indices N | s => s end in
  fill_loop (mkc [] (next_id st)) II.

Definition upd_status (f : status -> status) (k : key) (m : list (key * elem)) : list (key * elem) :=
  map (fun ke => if key_eqb k (fst ke) then (fst ke, mkelem (el_id (snd ke)) (el_c (snd ke)) (el_cx (snd ke)) (f (el_status (snd ke)))) else ke) m.
Definition all_status (f : status -> status) (m : list (key * elem)) : list (key * elem) :=
  map (fun ke => (fst ke, mkelem (el_id (snd ke)) (el_c (snd ke)) (el_cx (snd ke)) (f (el_status (snd ke))))) m.

(** operator()  (IndexContainer2.h:99-114): find, else "cache miss": set *)
Definition do_lookup (st : cstate) (k : key) : cstate * cout :=
  match mfind k (emap st) with
  | Some e => (st, OElem e)
  | None => do_set st k
  end.

Definition cstep (st : cstate) (o : cop) : cstate * cout :=
  match o with
  | Fill ks => do_fill st ks
  | SetK k => do_set st k
  | IsIn k => (st, OBool (match mfind k (emap st) with Some _ => true | None => false end))
  | Lookup k => do_lookup st k
  | PrepareAll ks =>
    match do_fill st ks with
    | (st', OThrows) => (st', OThrows)
    | (st', _) => (mkc (all_status status_max_prepared (emap st')) (next_id st'), OUnit)
    end
  | ComputeAll => (mkc (all_status (fun _ => Computed) (emap st)) (next_id st), OUnit)
  | PrepareAt k =>
    match do_lookup st k with
    | (st', OElem _) => (mkc (upd_status status_max_prepared k (emap st')) (next_id st'), OUnit)
    | r => r
    end
  | ComputeAt k =>
    match do_lookup st k with
    | (st', OElem _) => (mkc (upd_status (fun _ => Computed) k (emap st')) (next_id st'), OUnit)
    | r => r
    end
  end.

Fixpoint crun (st : cstate) (ops : list cop) : cstate :=
  match ops with
  | [] => st
  | o :: r => crun (fst (cstep st o)) r
  end.
End Machine.
