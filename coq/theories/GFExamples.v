(** The hypotheses of the C01 / C14 theorems are satisfiable by non-trivial values: an instance over the real numbers
    (PV.TermIntegrals.Rops) with tolerances 0, a small well-formed part, and the exact theorems applied to it. *)
Require Import Reals Lra List Bool Arith Ring_theory.
From PV Require Import EDSpec NumLit Sparse SparseProofs TermList GFPart SuscPart GFPartProofs SuscPartProofs TermIntegrals.
From PVgen Require Import Gen_C01.
Import ListNotations.
Local Open Scope R_scope.

Lemma Rops_ring : ring_theory (n0 R Rops) (n1 R Rops) (nadd R Rops) (nmul R Rops) (nsub R Rops) (nopp R Rops) (@eq R).
Proof. exact RTheory. Qed.
Lemma Rops_div : forall a b, ndiv R Rops a b = nmul R Rops a (/ b).
Proof. reflexivity. Qed.

Definition T0 : tols R := mktols R 0 0 0 (1 / 2).

Lemma T0_rel : forall x, gf_relevant R Rops (t_matrix_element R T0) x = false -> x = n0 R Rops.
Proof.
  intros x. unfold gf_relevant. cbn [t_matrix_element T0 nre_ltb nabs n0 Rops]. unfold Rltb.
  destruct (Rlt_dec 0 (Rabs x)) as [|H]; [discriminate|]. intros _.
  destruct (Req_dec x 0) as [E|NE]; [exact E|]. exfalso. apply H. apply Rabs_pos_lt. exact NE.
Qed.
Lemma T0_cmp : forall a b, gf_compare R Rops (t_compare R T0) a b = false -> gf_compare R Rops (t_compare R T0) b a = true.
Proof.
  intros a b. unfold gf_compare. cbn [t_compare T0 nre_ltb nsub Rops]. unfold Rltb.
  destruct (Rlt_dec (b - a) 0); destruct (Rlt_dec (a - b) 0); cbn [negb]; try reflexivity; try discriminate. lra.
Qed.
Lemma T0_srel : forall x, susc_relevant R Rops (t_matrix_element R T0) x = false -> x = n0 R Rops.
Proof. exact T0_rel. Qed.
Lemma T0_scmp : forall a b, susc_compare R Rops (t_compare R T0) a b = false -> susc_compare R Rops (t_compare R T0) b a = true.
Proof. exact T0_cmp. Qed.

(** C = [[0, 2], [3, 0]] (row-major), CX = [[0, 5], [7, 0]] (column-major), two levels per block *)
Definition ex_inp : part_in R :=
  mkpart R (mkcs 2 [0; 1; 2]%nat [1; 0]%nat [2; 3]) (mkcs 2 [0; 1; 2]%nat [1; 0]%nat [7; 5])
         [0; 1] [1 / 2; 2] [1 / 4; 1 / 8] [3 / 8; 1 / 4].

Example ex_part_wf : part_wf R ex_inp.
Proof.
  constructor; cbn [p_C p_CX p_wO p_eO p_wI p_eI ex_inp];
    try (apply cs_wf_b_sound; vm_compute; reflexivity); vm_compute; repeat constructor.
Qed.

(** the exact theorem on this instance: the repaired loops return, and the value is the Lehmann double sum *)
Example ex_gf_exact (z : R) :
  exists o, gf_part_compute R Rops true false T0 ex_inp = WDone o /\
            gf_part_value R Rops o z = gf_part_spec R Rops ex_inp z.
Proof. exact (gf_part_exact_fixed R Rops Rinv Rops_ring Rops_div T0 T0_rel T0_cmp false ex_inp ex_part_wf z). Qed.

Example ex_susc_exact (beta z : R) :
  exists o, susc_part_compute R Rops true false T0 ex_inp = WDone o /\
            susc_part_value R Rops o beta z = susc_part_spec R Rops Rinv T0 ex_inp beta z.
Proof. exact (susc_part_exact_fixed R Rops Rinv Rops_ring Rops_div T0 T0_srel T0_scmp false ex_inp ex_part_wf beta z). Qed.

(** * The hypotheses of gf_blocks_eq_full are satisfiable: one block of two levels, c and c^+ with two entries each *)
From PV Require Import GFFullProofs.
Definition exA : cs R := mkcs 2 [0; 1; 2]%nat [1; 0]%nat [2; 3].          (* C  = [[0, 2], [3, 0]] row-major *)
Definition exB : cs R := mkcs 2 [0; 1; 2]%nat [1; 0]%nat [7; 5].          (* CX = [[0, 5], [7, 0]] column-major *)
Definition exG : gf_in R :=
  mkgf R [(0, 0)%nat] [(0, 0)%nat] (fun L => if Nat.eqb L 0 then Some exA else None) (fun L => if Nat.eqb L 0 then Some exB else None)
       (fun _ => [0; 1]) (fun _ => [1 / 4; 1 / 8]) (fun _ => true).
Definition exCf (L n Rb m : nat) : R := cs_get R Rops exA n m.
Definition exCXf (Rb m L n : nat) : R := cs_get R Rops exB n m.
Definition exDim (b : nat) : nat := 2%nat.

Lemma lt2_cases (n : nat) : (n < 2)%nat -> n = 0%nat \/ n = 1%nat.
Proof. intros H. destruct n as [|[|n]]; [left; reflexivity|right; reflexivity|]. exfalso. apply (Nat.nlt_0_r n). apply Nat.succ_lt_mono, Nat.succ_lt_mono. exact H. Qed.
Lemma lt1_case (n : nat) : (n < 1)%nat -> n = 0%nat.
Proof. intros H. destruct n as [|n]; [reflexivity|]. exfalso. apply (Nat.nlt_0_r n). apply Nat.succ_lt_mono. exact H. Qed.

Example ex_blocks_sound : blocks_sound R Rops 1 exDim exG exCf exCXf.
Proof.
  constructor; cbn [g_cl g_cxr g_ret g_cpart g_cxpart g_E g_W exG].
  - split; [intros y []|exact I].
  - split; [intros y []|exact I].
  - intros L Rb [H|[]]. injection H as <- <-. split; constructor.
  - intros L Rb [H|[]]. injection H as <- <-. split; constructor.
  - reflexivity.
  - intros L Rb [H|[]]. injection H as <- <-. exists exA. cbn. repeat split; try (apply cs_wf_b_sound; vm_compute; reflexivity).
  - intros L Rb [H|[]]. injection H as <- <-. exists exB. cbn. repeat split; try (apply cs_wf_b_sound; vm_compute; reflexivity).
  - reflexivity.
  - reflexivity.
  - intros L Rb n m HL HR _ _. rewrite (lt1_case L HL), (lt1_case Rb HR). reflexivity.
  - intros L Rb n m HL HR _ _. rewrite (lt1_case L HL), (lt1_case Rb HR). reflexivity.
Qed.

Example ex_assembled :
  assembled R Rops 1 exDim exG exCf exCXf [0; 1] [1 / 4; 1 / 8] [[0; 2]; [3; 0]] [[0; 5]; [7; 0]].
Proof.
  constructor.
  - reflexivity.
  - intros i Hi. cbn in Hi. destruct (lt2_cases i Hi) as [-> | ->]; reflexivity.
  - intros L Rb n m HL HR Hn Hm. rewrite (lt1_case L HL), (lt1_case Rb HR).
    destruct (lt2_cases n Hn) as [-> | ->]; destruct (lt2_cases m Hm) as [-> | ->];
      unfold exCf, cs_get, mget; cbn; lra.
  - intros L Rb n m HL HR Hn Hm. rewrite (lt1_case L HL), (lt1_case Rb HR).
    destruct (lt2_cases n Hn) as [-> | ->]; destruct (lt2_cases m Hm) as [-> | ->];
      unfold exCXf, cs_get, mget; cbn; lra.
  - intros b k Hb Hk. rewrite (lt1_case b Hb). destruct (lt2_cases k Hk) as [-> | ->]; reflexivity.
  - intros b k Hb Hk. rewrite (lt1_case b Hb). destruct (lt2_cases k Hk) as [-> | ->]; reflexivity.
Qed.

(** the full theorem on this instance *)
Example ex_blocks_eq_full (z : R) parts :
  gf_compute R Rops true false T0 exG = WDone parts ->
  gf_value R Rops parts z = gf R Rops [0; 1] [1 / 4; 1 / 8] [[0; 2]; [3; 0]] [[0; 5]; [7; 0]] z.
Proof.
  exact (gf_blocks_eq_full R Rops Rinv Rops_ring Rops_div T0 T0_rel T0_cmp 1 exDim exG exCf exCXf ex_blocks_sound
           [0; 1] [1 / 4; 1 / 8] [[0; 2]; [3; 0]] [[0; 5]; [7; 0]] ex_assembled true false z parts).
Qed.
