(** The hypotheses of the C01 / C14 theorems are satisfiable by non-trivial values: an instance over the real numbers
    (PV.TermIntegrals.Rops) with tolerances 0, a small well-formed part, and the exact theorems applied to it. *)
Require Import Reals Lra List Bool Arith Ring_theory.
From PV Require Import EDSpec NumLit Sparse SparseProofs TermList GFPart SuscPart GFPartProofs SuscPartProofs TermIntegrals.
From PVgen Require Import Gen_C01.
Import ListNotations.
Local Open Scope R_scope.

Lemma Rops_ring : ring_theory (n0 R Rops) (n1 R Rops) (nadd R Rops) (nmul R Rops) (nsub R Rops) (nopp R Rops) (@eq R).
Proof. exact RTheory. Qed.
Lemma Rops_div : forall a b, ndiv R Rops a b = nmul R Rops a (/ b).
Proof. reflexivity. Qed.

Definition T0 : tols R := mktols R 0 0 0 (1 / 2).

Lemma T0_rel : forall x, gf_relevant R Rops (t_matrix_element R T0) x = false -> x = n0 R Rops.
Proof.
  intros x. unfold gf_relevant. cbn [t_matrix_element T0 nre_ltb nabs n0 Rops]. unfold Rltb.
  destruct (Rlt_dec 0 (Rabs x)) as [|H]; [discriminate|]. intros _.
  destruct (Req_dec x 0) as [E|NE]; [exact E|]. exfalso. apply H. apply Rabs_pos_lt. exact NE.
Qed.
Lemma T0_cmp : forall a b, gf_compare R Rops (t_compare R T0) a b = false -> gf_compare R Rops (t_compare R T0) b a = true.
Proof.
  intros a b. unfold gf_compare. cbn [t_compare T0 nre_ltb nsub Rops]. unfold Rltb.
  destruct (Rlt_dec (b - a) 0); destruct (Rlt_dec (a - b) 0); cbn [negb]; try reflexivity; try discriminate. lra.
Qed.
Lemma T0_srel : forall x, susc_relevant R Rops (t_matrix_element R T0) x = false -> x = n0 R Rops.
Proof. exact T0_rel. Qed.
Lemma T0_scmp : forall a b, susc_compare R Rops (t_compare R T0) a b = false -> susc_compare R Rops (t_compare R T0) b a = true.
Proof. exact T0_cmp. Qed.

(** C = [[0, 2], [3, 0]] (row-major), CX = [[0, 5], [7, 0]] (column-major), two levels per block *)
Definition ex_inp : part_in R :=
  mkpart R (mkcs 2 [0; 1; 2]%nat [1; 0]%nat [2; 3]) (mkcs 2 [0; 1; 2]%nat [1; 0]%nat [7; 5])
         [0; 1] [1 / 2; 2] [1 / 4; 1 / 8] [3 / 8; 1 / 4].

Example ex_part_wf : part_wf R ex_inp.
Proof.
  constructor; cbn [p_C p_CX p_wO p_eO p_wI p_eI ex_inp];
    try (apply cs_wf_b_sound; vm_compute; reflexivity); vm_compute; repeat constructor.
Qed.

(** the exact theorem on this instance: the repaired loops return, and the value is the Lehmann double sum *)
Example ex_gf_exact (z : R) :
  exists o, gf_part_compute R Rops true false T0 ex_inp = WDone o /\
            gf_part_value R Rops o z = gf_part_spec R Rops ex_inp z.
Proof. exact (gf_part_exact_fixed R Rops Rinv Rops_ring Rops_div T0 T0_rel T0_cmp false ex_inp ex_part_wf z). Qed.

Example ex_susc_exact (beta z : R) :
  exists o, susc_part_compute R Rops true false T0 ex_inp = WDone o /\
            susc_part_value R Rops o beta z = susc_part_spec R Rops Rinv T0 ex_inp beta z.
Proof. exact (susc_part_exact_fixed R Rops Rinv Rops_ring Rops_div T0 T0_srel T0_scmp false ex_inp ex_part_wf beta z). Qed.
