(** One part of the two-particle Green's function on a CHAIN OF FOUR BLOCKS (item (1) of the list of lemmas missing for the
    any-partition statement of the two-particle spine): the rectangular form of SpineChiPart.dense_part_emitted.

    A part created by TwoParticleGF::prepare for the chain L0 -> L1 -> L2 -> L3 -> L0 reads four rectangular matrices
      X1 : d0 x d1 (O1, row-major),  X2 : d1 x d2 (O2, column-major),  X3 : d2 x d3 (O3, row-major),  X4 : d3 x d0 (CX4, column-major)
    and the eigenvalues / weights of the four blocks.  For the compressed views of dense matrices of these shapes the terms handed
    to the two term lists sum to
      sign * sum_{i<d0, j<d1, k<d2, l<d3} X1[i][j] X2[j][k] X3[k][l] X4[l][i] phi(E0_i, E1_j, E2_k, E3_l; w...; y1, y2, y3)
    ([chain_part_emitted]); with SpineChiTermLists.termlists_faithful_exact (which is stated for any part) this is the value of the
    part.  Hypotheses as in SpineChiPart: exact value tests and regularity of (y1, y2, y3) on the chain ([chain_regular]). *)
Require Import Bool List Arith ZArith Lia Field Ring.
From PV Require Import Outcome EDSpec HPartProofs Spine SpineSparseProofs Chi ChiProofs ChiLehmann SpineChi SpineChiPart.
From PVgen Require Import Gen_Multiterm.
Import ListNotations.

Section Chain.
Variable K : Type.
Variable NO : numops K.
Notation "0" := (n0 K NO).
Notation kadd := (nadd K NO).
Notation ksub := (nsub K NO).
Notation kmul := (nmul K NO).
Notation kdiv := (ndiv K NO).
Notation kopp := (nopp K NO).
Notation ltb := (nre_ltb K NO).
Notation kabs := (nabs K NO).
Infix "+" := (nadd K NO).
Infix "*" := (nmul K NO).
Infix "-" := (nsub K NO).
Hypothesis Kf : field_theory 0 (n1 K NO) kadd kmul ksub kopp kdiv (ChiLehmann.kinv K NO) (@eq K).
Add Field KfieldCH : Kf.
Notation lsum := (ChiLehmann.lsum K NO).
Notation lsum_zero := (ChiLehmann.lsum_zero K NO Kf).
Notation lsum_flat_map := (ChiLehmann.lsum_flat_map K NO Kf).
Notation lsum_scal := (ChiLehmann.lsum_scal K NO Kf).
Notation G f := (f K kadd ksub kmul kdiv kopp (abs_gt K NO) (abs_lt K NO) (real_ge K NO)) (only parsing).

Variable keepf : K -> bool.
Hypothesis Hkeep : forall x, keepf x = false -> x = 0.
Notation srow := (sparse_row K keepf).
Notation rows := (smat_rows K keepf).
Notation cols := (smat_cols K NO keepf).
Variable tl : tols K.
Hypothesis guards_exact : forall x, abs_gt K NO x (t_coeff K tl) = false -> x = 0.
Notation tol := (t_reduce K tl).

(** an r x c matrix as a list of rows *)
Definition shape (r c : nat) (X : mat K) : Prop := length X = r /\ forall i, i < r -> length (nth i X []) = c.

Variables d0 d1 d2 d3 : nat.
Variables E0 E1 E2 E3 w0 w1 w2 w3 : list K.
Variable beta : K.
Variables X1 X2 X3 X4 : mat K.
Hypothesis SH1 : shape d0 d1 X1.
Hypothesis SH2 : shape d1 d2 X2.
Hypothesis SH3 : shape d2 d3 X3.
Hypothesis SH4 : shape d3 d0 X4.
Variable perm : nat * nat * nat.
Variable sg : Z.
Variable blocks : Z * Z * Z * Z.

Definition chain_part : part_in K :=
  {| p_O1 := rows X1; p_O2 := cols d2 X2; p_O3 := rows X3; p_CX4 := cols d0 X4;
     p_E1 := E0; p_E2 := E1; p_E3 := E2; p_E4 := E3; p_W1 := w0; p_W2 := w1; p_W3 := w2; p_W4 := w3;
     p_beta := beta; p_perm := perm; p_sign := sg; p_blocks := blocks |}.
Notation p := chain_part.

Variables y1 y2 y3 : K.

Definition chain_quad_ok (a b c d : nat) : Prop :=
  let Ea := nth a E0 0 in let Eb := nth b E1 0 in let Ec := nth c E2 0 in let Ed := nth d E3 0 in
  y1 + Ea - Eb <> 0 /\ y2 + Eb - Ec <> 0 /\ y3 + Ec - Ed <> 0 /\ y1 + y2 + y3 + Ea - Ed <> 0 /\
  code_res K NO tl true Ea Eb Ec Ed y1 y2 y3 = (ltb (kabs (y1 + y2)) tol && ltb (kabs (Ea - Ec)) tol) /\
  code_res K NO tl false Ea Eb Ec Ed y1 y2 y3 = (ltb (kabs (y2 + y3)) tol && ltb (kabs (Eb - Ed)) tol) /\
  (code_res K NO tl true Ea Eb Ec Ed y1 y2 y3 = false -> y1 + y2 + Ea - Ec <> 0) /\
  (code_res K NO tl false Ea Eb Ec Ed y1 y2 y3 = false -> y2 + y3 + Eb - Ed <> 0) /\
  G compute_weight_guard (t_coeff K tl) (nth a w0 0) (nth b w1 0) (nth c w2 0) (nth d w3 0) = true.
Definition chain_regular : Prop := forall a b c d, a < d0 -> b < d1 -> c < d2 -> d < d3 -> chain_quad_ok a b c d.
Hypothesis REG : chain_regular.

Definition CPHI (a b c d : nat) : K :=
  phi K NO beta tol (nth a E0 0) (nth b E1 0) (nth c E2 0) (nth d E3 0) (nth a w0 0) (nth b w1 0) (nth c w2 0) (nth d w3 0) y1 y2 y3.

Lemma chain_visit_value (i1 i2 i3 i4 : nat) (a b : K) : i1 < d0 -> i2 < d1 -> i3 < d2 -> i4 < d3 ->
  emitted_value K NO tl y1 y2 y3
    (visit_emissions K NO tl p {| v_i1 := i1; v_i2 := i2; v_i3 := i3; v_i4 := i4; v_O1 := a; v_O2 := b |}) =
  (a * b * nth i4 (nth i3 X3 []) 0 * nth i1 (nth i4 X4 []) 0) * signK K NO sg * CPHI i1 i2 i3 i4.
Proof.
  intros H1 H2 H3 H4. destruct (REG i1 i2 i3 i4 H1 H2 H3 H4) as [D1 [D2 [D3 [D4 [R12 [R23 [N12 [N23 WG]]]]]]]].
  unfold visit_emissions. cbn [v_i1 v_i2 v_i3 v_i4 v_O1 v_O2 p_E1 p_E2 p_E3 p_E4 p_W1 p_W2 p_W3 p_W4 p_O3 p_CX4 p_beta p_sign chain_part].
  rewrite WG. unfold compute_call.
  rewrite (multiterm_emitted_value K NO Kf tl guards_exact _ beta _ _ _ _ _ _ _ _ y1 y2 y3 D1 D2 D3 D4 N12 N23).
  rewrite R12, R23. unfold compute_apply_sign, compute_matrix_element.
  rewrite (coeff_rows K NO keepf Hkeep X3 i3 i4) by (rewrite (proj2 SH3 i3 H3); exact H4).
  unfold smat_cols. rewrite (coeff_rows K NO keepf Hkeep (transpose K NO d0 X4) i1 i4) by (rewrite (col_length K NO d0 X4 i1 H1), (proj1 SH4); exact H4).
  rewrite (col_entry K NO d0 X4 i1 i4 H1). unfold CPHI, phi_doc, phi. reflexivity.
Qed.

Definition chain_visit_total : K :=
  lsum (spec_visits K p) (fun v => emitted_value K NO tl y1 y2 y3 (visit_emissions K NO tl p v)).

Definition chain_term (i j k l : nat) : K :=
  nth j (nth i X1 []) 0 * nth k (nth j X2 []) 0 * nth l (nth k X3 []) 0 * nth i (nth l X4 []) 0 * CPHI i j k l.

(** the block-chain sum: the restriction of the Lehmann 4-chain sum of this operator ordering to the four blocks *)
Definition chain_sum : K :=
  lsum (seq O d0) (fun i => lsum (seq O d1) (fun j => lsum (seq O d2) (fun k => lsum (seq O d3) (fun l => chain_term i j k l)))).

Theorem chain_part_emitted : chain_visit_total = signK K NO sg * chain_sum.
Proof.
  unfold chain_visit_total, chain_sum, spec_visits. cbn [p_CX4 p_O2 chain_part]. rewrite !(cols_length K NO keepf).
  rewrite lsum_flat_map.
  transitivity (lsum (seq O d0) (fun i => lsum (seq O d2) (fun k => lsum (seq O d1) (fun j => lsum (seq O d3) (fun l =>
                  signK K NO sg * chain_term i j k l))))).
  - apply ChiLehmann.lsum_ext. intros i1 Hi1. apply in_seq in Hi1. rewrite lsum_flat_map.
    apply ChiLehmann.lsum_ext. intros i3 Hi3. apply in_seq in Hi3.
    unfold spec13. cbn [p_O1 p_O2 p_O3 p_CX4 chain_part]. rewrite lsum_flat_map.
    unfold smat_cols. rewrite !(outer_rows K keepf).
    set (r1 := nth i1 X1 []). set (c2 := nth i3 (transpose K NO d2 X2) []).
    set (r3 := nth i3 X3 []). set (c4 := nth i1 (transpose K NO d0 X4) []).
    assert (L1 : length r1 = d1) by (apply (proj2 SH1); lia).
    assert (L2 : length c2 = d1) by (unfold c2; rewrite (col_length K NO) by lia; exact (proj1 SH2)).
    assert (L3 : length r3 = d3) by (apply (proj2 SH3); lia).
    assert (L4 : length c4 = d3) by (unfold c4; rewrite (col_length K NO) by lia; exact (proj1 SH4)).
    transitivity (lsum (common K (srow r1) (srow c2)) (fun e2 =>
                    (fun j a b => lsum (seq O d3) (fun l => (a * b * nth l r3 0 * nth l c4 0) * signK K NO sg * CPHI i1 j i3 l))
                      (fst (fst e2)) (snd (fst e2)) (snd e2))).
    { apply ChiLehmann.lsum_ext. intros e2 He2. rewrite (ChiLehmann.lsum_map K NO).
      pose proof (common_srow_lt K NO keepf r1 _ e2 He2) as Hj. rewrite L1 in Hj.
      transitivity (lsum (common K (srow r3) (srow c4)) (fun e4 =>
                      (fun l v u => (snd (fst e2) * snd e2 * v * u) * signK K NO sg * CPHI i1 (fst (fst e2)) i3 l)
                        (fst (fst e4)) (snd (fst e4)) (snd e4))).
      - apply ChiLehmann.lsum_ext. intros e4 He4. pose proof (common_srow_lt K NO keepf r3 _ e4 He4) as Hl. rewrite L3 in Hl.
        destruct (common_srow_vals K NO keepf r3 c4 e4 He4) as [V3 V4]. unfold mk_visit.
        rewrite (chain_visit_value i1 (fst (fst e2)) i3 (fst (fst e4)) (snd (fst e2)) (snd e2)) by lia.
        cbv beta. rewrite V3, V4. unfold r3, c4. rewrite (col_entry K NO d0 X4 i1 (fst (fst e4))) by lia. reflexivity.
      - apply (common_dense K NO Kf keepf Hkeep (fun l v u => (snd (fst e2) * snd e2 * v * u) * signK K NO sg * CPHI i1 (fst (fst e2)) i3 l) r3 c4 d3 L3 L4);
          intros; ring. }
    rewrite (common_dense K NO Kf keepf Hkeep
               (fun j a b => lsum (seq O d3) (fun l => (a * b * nth l r3 0 * nth l c4 0) * signK K NO sg * CPHI i1 j i3 l)) r1 c2 d1 L1 L2).
    + apply ChiLehmann.lsum_ext. intros j Hj. apply in_seq in Hj. apply ChiLehmann.lsum_ext. intros l Hl. apply in_seq in Hl.
      unfold chain_term, r1, c2, r3, c4. rewrite (col_entry K NO d2 X2 i3 j) by lia. rewrite (col_entry K NO d0 X4 i1 l) by lia. ring.
    + intros j u. apply lsum_zero. intros l _. ring.
    + intros j v. apply lsum_zero. intros l _. ring.
  - rewrite <- lsum_scal. apply ChiLehmann.lsum_ext. intros i _.
    rewrite (lsum_swap K NO Kf (seq O d2) (seq O d1) (fun k j => lsum (seq O d3) (fun l => signK K NO sg * chain_term i j k l))).
    rewrite <- lsum_scal. apply ChiLehmann.lsum_ext. intros j _. rewrite <- lsum_scal. apply ChiLehmann.lsum_ext. intros k _.
    rewrite <- lsum_scal. reflexivity.
Qed.

Lemma chain_part_sorted : part_sorted K p.
Proof.
  unfold part_sorted. cbn [p_O1 p_O2 p_O3 p_CX4 chain_part]. unfold smat_cols. repeat split; apply (rows_msorted K keepf).
Qed.

End Chain.
