(** Thermal.v -- model of the thermal layer of pomerol (properties C09 and C19):

      Hamiltonian::computeGroundEnergy                    src/pomerol/Hamiltonian.cpp:105-113
      HamiltonianPart::getMinimumEigenvalue               src/pomerol/HamiltonianPart.cpp:125-129
      DensityMatrixPart  (computeUnnormalized, normalize, getAverage*, getWeight, truncate, isRetained)
                                                          src/pomerol/DensityMatrixPart.cpp
      DensityMatrix      (prepare, compute, getWeight, getAverage*, truncateBlocks, isRetained)
                                                          src/pomerol/DensityMatrix.cpp
      EnsembleAverage    (prepare, compute)               src/pomerol/EnsembleAverage.cpp
      the `isRetained` tests and the stripe selection of
        GreensFunction::prepare                           src/pomerol/GreensFunction.cpp:25-66
        Susceptibility::prepare                           src/pomerol/Susceptibility.cpp:27-68
        TwoParticleGF::prepare                            src/pomerol/TwoParticleGF.cpp:60-112

    The model is generic in the number type [K] (Section variables: an ordered field with an
    exponential), so that the same definitions are executed at binary64 (extract/Extract_C09.v, the
    exponential is supplied by the OCaml driver) and reasoned about over Coq's reals
    (ThermalProofs.v).  Loops are folds in the order of the C++ loops, with the C++ accumulators.

    Conventions.
    - A Fock state is its label (FockState::to_ulong): mode i is bit i.
    - An eigenvector matrix is a list of rows: row = position of the Fock state inside the block,
      column = number of the eigenstate (HamiltonianPart::getEigenState(s) = H.col(s),
      HamiltonianPart.cpp:119-123).
    - Vectors of one block have the length of the block (Eigenvalues.size() = H.rows() = getSize()
      after HamiltonianPart::compute); reads inside the loops below are therefore in bounds, which is
      the well-formedness hypothesis [wf_hpart] of the theorems.  Reads that the C++ does NOT keep in
      bounds by construction (minCoeff of an empty vector, a state label that is in no block, a mode
      index beyond the bit string) are explicit [outcome]s. *)
Require Import Bool List Arith.
From PV Require Import Outcome.
Import ListNotations.

Section Thermal.
Variable K : Type.
Variable k0 : K.
Variables kadd ksub kmul kdiv : K -> K -> K.
Variables kopp kexp kabs : K -> K.
Variable kltb : K -> K -> bool.          (* strict order: kltb a b  <->  a < b *)
Variable kofnat : nat -> K.              (* conversion of counts and of bool (0/1) to RealType *)

(** * Hamiltonian blocks after diagonalisation *)
Record hpart := mk_hpart {
  hp_states : list nat;          (* S.getFockStates(block): labels in block order *)
  hp_eig : list K;               (* Eigenvalues *)
  hp_vec : list (list K)         (* H after diagonalisation, rows *)
}.

Definition hp_size (hp : hpart) : nat := length (hp_eig hp).

(** Eigen's minCoeff(): left-to-right reduction with (b < a) ? b : a; an empty vector is an
    assertion failure / undefined behaviour: [OOB]. *)
Definition min_coeff (l : list K) : outcome K :=
  match l with
  | [] => OOB
  | x :: t => Done (fold_left (fun acc y => if kltb y acc then y else acc) t x)
  end.

Fixpoint map_outcome {A B} (f : A -> outcome B) (l : list A) : outcome (list B) :=
  match l with
  | [] => Done []
  | a :: t => bind (f a) (fun b => bind (map_outcome f t) (fun bs => Done (b :: bs)))
  end.

(** Hamiltonian.cpp:105-113: LEV(b) = parts[b]->getMinimumEigenvalue(); GroundEnergy = LEV.minCoeff() *)
Definition ground_energy (H : list hpart) : outcome K :=
  bind (map_outcome (fun hp => min_coeff (hp_eig hp)) H) min_coeff.

(** * DensityMatrixPart *)
Record dmpart := mk_dmpart {
  dp_weights : list K;
  dp_zpart : K;
  dp_retained : bool             (* constructor: retained(true), DensityMatrixPart.cpp:5 *)
}.

(** DensityMatrixPart.cpp:8-18.  weights(s) = exp(-beta*(E_s - GroundEnergy)); Z_part += weights(s).
    (-beta*(..) parses as (-beta)*(..).) *)
Definition unnormalized_weight (beta ground e : K) : K := kexp (kmul (kopp beta) (ksub e ground)).
Definition compute_unnormalized (beta ground : K) (hp : hpart) : dmpart :=
  let w := map (unnormalized_weight beta ground) (hp_eig hp) in
  mk_dmpart w (fold_left kadd w k0) true.

(** DensityMatrixPart.cpp:20-24 *)
Definition normalize (Z : K) (dp : dmpart) : dmpart :=
  mk_dmpart (map (fun w => kdiv w Z) (dp_weights dp)) (kdiv (dp_zpart dp) Z) (dp_retained dp).

(** DensityMatrixPart.cpp:31-39 *)
Definition part_average_energy (hp : hpart) (dp : dmpart) : K :=
  fold_left (fun acc we => kadd acc (kmul (fst we) (snd we))) (combine (dp_weights dp) (hp_eig hp)) k0.

Definition col (m : list (list K)) (s : nat) : list K := map (fun row => nth s row k0) m.

(** Common shape of DensityMatrixPart.cpp:41-84: one accumulator over the nested loops
      for s < weights.size():  v = hpart.getEigenState(s)
        for fi < v.size():     acc += pre(weights(s), FockState(block, fi)) * std::abs(v(fi)*v(fi)) *)
Definition part_fock_average (pre : K -> nat -> K) (hp : hpart) (dp : dmpart) : K :=
  fold_left (fun acc sw =>
               fold_left (fun acc' fv => kadd acc' (kmul (pre (snd sw) (fst fv)) (kabs (kmul (snd fv) (snd fv)))))
                         (combine (hp_states hp) (col (hp_vec hp) (fst sw))) acc)
            (combine (seq 0 (length (dp_weights dp))) (dp_weights dp)) k0.

Fixpoint popcount_fuel (fuel n : nat) : nat :=
  match fuel with
  | O => 0
  | S f => (if Nat.odd n then 1 else 0) + popcount_fuel f (Nat.div2 n)
  end.
(** FockState::count() on a bit string of M modes *)
Definition popcount (M n : nat) : nat := popcount_fuel M n.
Definition b2k (b : bool) : K := kofnat (if b then 1 else 0).

(** DensityMatrixPart.cpp:41-53: weights(s) * FockState.count() * |v|^2 *)
Definition part_average_occupancy (M : nat) (hp : hpart) (dp : dmpart) : K :=
  part_fock_average (fun w f => kmul w (kofnat (popcount M f))) hp dp.
(** DensityMatrixPart.cpp:55-67: weights(s) * FockState.test(i) * |v|^2 *)
Definition part_average_occupancy_i (i : nat) (hp : hpart) (dp : dmpart) : K :=
  part_fock_average (fun w f => kmul w (b2k (Nat.testbit f i))) hp dp.
(** DensityMatrixPart.cpp:71-84: weights(s) * FockState[i] * FockState[j] * |v|^2 *)
Definition part_average_double_occupancy (i j : nat) (hp : hpart) (dp : dmpart) : K :=
  part_fock_average (fun w f => kmul (kmul w (b2k (Nat.testbit f i))) (b2k (Nat.testbit f j))) hp dp.

(** DensityMatrixPart.cpp:91-100: retained = exists s, weights(s) > Tolerance (loop with break) *)
Definition truncate (tol : K) (dp : dmpart) : dmpart :=
  mk_dmpart (dp_weights dp) (dp_zpart dp) (existsb (fun w => kltb tol w) (dp_weights dp)).

(** * DensityMatrix *)

(** DensityMatrix.cpp:15-41: prepare (one part per block, all with the global ground energy), then
    compute: Z = sum of the partial sums, every part divided by Z. *)
Definition dm_unnormalized (beta ground : K) (H : list hpart) : list dmpart :=
  map (compute_unnormalized beta ground) H.
Definition dm_Z (parts : list dmpart) : K := fold_left (fun z dp => kadd z (dp_zpart dp)) parts k0.
Definition dm_compute (beta : K) (H : list hpart) : outcome (list dmpart) :=
  bind (ground_energy H) (fun g =>
    let parts := dm_unnormalized beta g H in
    Done (map (normalize (dm_Z parts)) parts)).

(** DensityMatrix.cpp:98-102 *)
Definition dm_truncate (tol : K) (D : list dmpart) : list dmpart := map (truncate tol) D.
(** DensityMatrix.cpp:116-119 (parts[in]: the block number comes from a bimap, hence is < NumberOfBlocks) *)
Definition is_retained (D : list dmpart) (b : nat) : bool := nth b (map dp_retained D) false.

(** DensityMatrix.cpp:62-96: E += part->getAverage...() over the parts, in block order *)
Definition dm_sum_parts (f : hpart -> dmpart -> K) (H : list hpart) (D : list dmpart) : K :=
  fold_left (fun acc hd => kadd acc (f (fst hd) (snd hd))) (combine H D) k0.
Definition dm_average_energy := dm_sum_parts part_average_energy.
Definition dm_average_occupancy (M : nat) := dm_sum_parts (part_average_occupancy M).
(** test(i) / operator[](i) with i >= size of the bit string is undefined behaviour *)
Definition dm_average_occupancy_i (M i : nat) (H : list hpart) (D : list dmpart) : outcome K :=
  if i <? M then Done (dm_sum_parts (part_average_occupancy_i i) H D) else OOB.
Definition dm_average_double_occupancy (M i j : nat) (H : list hpart) (D : list dmpart) : outcome K :=
  if (i <? M) && (j <? M) then Done (dm_sum_parts (part_average_double_occupancy i j) H D) else OOB.

(** position of a label in a block: StatesClassification::getInnerState, StatesClassification.cpp:78-89 *)
Fixpoint index_of (x : nat) (l : list nat) : option nat :=
  match l with
  | [] => None
  | y :: t => if Nat.eqb y x then Some 0 else option_map S (index_of x t)
  end.
(** block of a label (StateBlockIndex[state]): the block that lists it *)
Fixpoint find_state (st : nat) (H : list hpart) (b : nat) : option (nat * nat) :=
  match H with
  | [] => None
  | hp :: t => match index_of st (hp_states hp) with
               | Some inner => Some (b, inner)
               | None => find_state st t (S b)
               end
  end.
(** DensityMatrix.cpp:43-50 and Hamiltonian.cpp:125-129: value attached to a state label =
    entry [inner position of the label in its block] of that block's vector; exWrongState = Throws 1 *)
Definition lookup_state (vecs : list (list K)) (H : list hpart) (st : nat) : outcome K :=
  match find_state st H 0 with
  | None => Throws 1
  | Some (b, inner) =>
    match nth_error vecs b with
    | None => OOB
    | Some v => match nth_error v inner with None => OOB | Some x => Done x end
    end
  end.
Definition dm_get_weight (H : list hpart) (D : list dmpart) (st : nat) : outcome K :=
  lookup_state (map dp_weights D) H st.
Definition ham_get_eigenvalue (H : list hpart) (st : nat) : outcome K :=
  lookup_state (map hp_eig H) H st.
(** Hamiltonian.cpp:131-141: all eigenvalues, block after block *)
Definition ham_get_eigenvalues (H : list hpart) : list K := concat (map hp_eig H).

(** * Field-operator parts and EnsembleAverage *)
Record oppart := mk_oppart {
  op_left : nat;                 (* block of the bra *)
  op_right : nat;                (* block of the ket *)
  op_mat : list (list K)         (* rows of the row-major sparse matrix; coeff = 0 where nothing is stored *)
}.
(** a prepared FieldOperator: its parts in the iteration order of LeftRightBlocks.left (ascending left index) *)
Definition fieldop := list oppart.
Definition coeff (m : list (list K)) (i j : nat) : K := nth j (nth i m []) k0.
Definition get_part_from_left (A : fieldop) (l : nat) : option oppart :=
  find (fun p => Nat.eqb (op_left p) l) A.

(** EnsembleAverage.cpp:45-57: sum over index1 < outerSize of A(index1,index1) * weight(index1) *)
Definition ea_compute (Apart : oppart) (dp : dmpart) : K :=
  fold_left (fun acc i => kadd acc (kmul (coeff (op_mat Apart) i i) (nth i (dp_weights dp) k0)))
            (seq 0 (length (op_mat Apart))) k0.

(** EnsembleAverage.cpp:14-42: only diagonal blocks, only retained blocks; result += compute(...) *)
Definition ea_prepare (A : fieldop) (D : list dmpart) : outcome K :=
  fold_left (fun acc p =>
     bind acc (fun r =>
       if Nat.eqb (op_left p) (op_right p) then
         if is_retained D (op_left p) then
           match get_part_from_left A (op_left p), nth_error D (op_left p) with
           | Some Apart, Some dp => Done (kadd r (ea_compute Apart dp))
           | _, _ => OOB
           end
         else Done r
       else Done r)) A (Done k0).

(** * Stripe selection and the retained tests of the other three prepare functions *)

(** GreensFunction.cpp:25-66 (and, line for line, Susceptibility.cpp:27-68): merge walk over
    C.left (pairs (Cleft, Cright) ascending in Cleft) and CX.right (pairs (CXright, CXleft) ascending in
    CXright).  A part is the pair of blocks (Cleft, Cright). [ret] is DM.isRetained. *)
Fixpoint stripe_walk (fuel : nat) (ret : nat -> bool) (cl cxr : list (nat * nat)) (acc : list (nat * nat))
  : outcome (list (nat * nat)) :=
  match cl, cxr with
  | (Cleft, Cright) :: cl', (CXright, CXleft) :: cxr' =>
    match fuel with
    | O => OutOfFuel
    | S f =>
      let acc' := if Nat.eqb Cleft CXright && Nat.eqb Cright CXleft
                  then (if ret Cleft || ret Cright then acc ++ [(Cleft, Cright)] else acc)
                  else acc in
      stripe_walk f ret (if Nat.leb Cleft CXright then cl' else cl)
                        (if Nat.leb CXright Cleft then cxr' else cxr) acc'
    end
  | _, _ => Done acc
  end.
Definition gf_prepare (ret : nat -> bool) (cl cxr : list (nat * nat)) : outcome (list (nat * nat)) :=
  stripe_walk (length cl + length cxr) ret cl cxr [].
Definition susc_prepare := gf_prepare.

(** bimaps as lists of (left, right); FieldOperator.cpp:151-165 *)
Definition bimap := list (nat * nat).
Definition get_right_index (bm : bimap) (l : nat) : option nat :=
  option_map snd (find (fun p => Nat.eqb (fst p) l) bm).
Definition get_left_index (bm : bimap) (r : nat) : option nat :=
  option_map fst (find (fun p => Nat.eqb (snd p) r) bm).

(** Misc.cpp:23-30 *)
Definition permutations3 : list (list nat) := [[0;1;2]; [0;2;1]; [1;0;2]; [1;2;0]; [2;0;1]; [2;1;0]].

(** TwoParticleGF.cpp:60-112.  [ops] = [C1; C2; CX3] (their bimaps); [cx4r] = CX4's bimap in the iteration order
    of .right (pairs (right key, left) = (LeftIndices[0], LeftIndices[3])).  A part is (p, L0, L1, L2, L3). *)
Definition op_at (ops : list bimap) (perm : list nat) (pos : nat) : bimap := nth (nth pos perm 0) ops [].
Definition tpgf_part := (nat * (nat * nat * nat * nat))%type.
Definition tpgf_try (ret : nat -> bool) (ops : list bimap) (pn : nat) (perm : list nat) (L0 L3 : nat) : list tpgf_part :=
  match get_left_index (op_at ops perm 2) L3, get_right_index (op_at ops perm 0) L0 with
  | Some L2, Some L1 =>
    match get_right_index (op_at ops perm 1) L1 with
    | Some r => if Nat.eqb r L2
                then (if ret L0 || ret L1 || ret L2 || ret L3 then [(pn, (L0, L1, L2, L3))] else [])
                else []
    | None => []
    end
  | _, _ => []
  end.
Definition tpgf_prepare (ret : nat -> bool) (ops : list bimap) (cx4r : list (nat * nat)) : list tpgf_part :=
  flat_map (fun o => flat_map (fun pp => tpgf_try ret ops (fst pp) (snd pp) (fst o) (snd o))
                              (combine (seq 0 6) permutations3)) cx4r.

End Thermal.
