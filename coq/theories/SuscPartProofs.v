(** Proofs about [PV.SuscPart]:
      - [susc_part_exact]: with MatrixElementTolerance 0 and a total comparator the value of a part is
          sum_{n,m} A[n,m] B[m,n] * ( resonant(E_m - E_n) ? [z ~ 0] beta w_n : (w_m - w_n)/(z - (E_m - E_n)) )
        i.e. the zero-pole weight beta * sum_{resonant} A_nm B_mn w_n at zero frequency and nothing elsewhere;
      - [susc_chase_in_bounds] (the walk is PV.Sparse.part_walk: the Sparse theorems apply verbatim);
      - [subtract_only_at_zero], [supply_coincide];
      - [susc_stripes_complete] = GFPartProofs.gf_stripes_complete (same function). *)
Require Import Bool List Arith Lia Ring Ring_theory ZArith.
From PV Require Import EDSpec NumLit Sparse SparseProofs TermList TermListProofs GFPart SuscPart BigSum GFPartProofs.
From PVgen Require Import Gen_C01.
Import ListNotations.

Section Char.
Variable K : Type.
Variable NO : numops K.
Lemma susc_term_eval_char R P z : susc_term_eval K NO R P z = ndiv K NO (nopp K NO R) (nsub K NO z P).
Proof. reflexivity. Qed.
Lemma susc_residue_char va vb wO wI i1 i2 :
  susc_residue K NO va vb wO wI i1 i2 = nmul K NO (nmul K NO va vb) (nsub K NO (wO i1) (wI i2)).
Proof. reflexivity. Qed.
Lemma susc_zero_weight_char va vb wO wI i1 i2 :
  susc_zero_weight K NO va vb wO wI i1 i2 = nmul K NO (nmul K NO va vb) (wO i1).
Proof. reflexivity. Qed.
Lemma susc_pole_char eO eI i1 i2 : susc_pole K NO eO eI i1 i2 = nsub K NO (eI i2) (eO i1).
Proof. reflexivity. Qed.
Lemma susc_part_eval_char t zw beta z :
  susc_part_eval K NO t zw beta z =
  nadd K NO t (if nre_ltb K NO (nabs K NO z) (lit_dec K NO 1 (-15)) then nmul K NO zw beta else n0 K NO).
Proof. reflexivity. Qed.
Lemma susc_part_tau_char t zw : susc_part_tau K NO t zw = nadd K NO t zw.
Proof. reflexivity. Qed.
Lemma susc_subtract_char V a b beta z :
  susc_subtract K NO V a b beta z =
  if nre_ltb K NO (nabs K NO z) (lit_dec K NO 1 (-15)) then nsub K NO V (nmul K NO (nmul K NO a b) beta) else V.
Proof. reflexivity. Qed.
Lemma susc_subtract_tau_char V a b : susc_subtract_tau K NO V a b = nsub K NO V (nmul K NO a b).
Proof. reflexivity. Qed.
Lemma susc_matsubara_mult_char n : susc_total_matsubara_mult n = (2 * n)%Z /\ susc_matsubara_mult n = (2 * n)%Z.
Proof. split; reflexivity. Qed.
End Char.

Section Exact.
Variable K : Type.
Variable NO : numops K.
Notation k0 := (n0 K NO).
Notation k1 := (n1 K NO).
Notation kadd := (nadd K NO).
Notation ksub := (nsub K NO).
Notation kmul := (nmul K NO).
Notation kdiv := (ndiv K NO).
Notation kopp := (nopp K NO).
Variable kinv : K -> K.
Hypothesis Kr : ring_theory k0 k1 kadd kmul ksub kopp (@eq K).
Hypothesis Kdiv : forall a b, kdiv a b = kmul a (kinv b).
Add Ring KringS : Kr.
Notation bsum := (bigsum K k0 kadd).
Notation cs_get := (cs_get K NO).

Let BS_fold := @fold_left_bigsum K k0 k1 kadd kmul ksub kopp Kr.
Let BS_ext := @bigsum_ext K k0 kadd.
Let BS_flat_map := @bigsum_flat_map K k0 k1 kadd kmul ksub kopp Kr.
Let BS_map := @bigsum_map K k0 kadd.
Let BS_plus := @bigsum_plus K k0 k1 kadd kmul ksub kopp Kr.
Let BS_scale_r := @bigsum_scale_r K k0 k1 kadd kmul ksub kopp Kr.

(** the frequency test of SusceptibilityPart::operator()(z) and Susceptibility::operator()(z) *)
Definition z_is_zero (z : K) : bool := nre_ltb K NO (nabs K NO z) (lit_dec K NO 1 (-15)).

(** the kernel: resonant ? [z ~ 0] beta w_n : (w_m - w_n)/(z - (E_m - E_n)) *)
Definition skern (T : tols K) (inp : part_in K) (beta z : K) (o m : nat) : K :=
  let P := ksub (nth m (p_eI K inp) k0) (nth o (p_eO K inp) k0) in
  if susc_is_zero_pole K NO (t_resonance K T) P then (if z_is_zero z then kmul beta (nth o (p_wO K inp) k0) else k0)
  else kmul (ksub (nth m (p_wI K inp) k0) (nth o (p_wO K inp) k0)) (kinv (ksub z P)).

Definition susc_part_spec (T : tols K) (inp : part_in K) (beta z : K) : K :=
  bsum (seq 0 (cs_outer (p_C K inp))) (fun n =>
    bsum (seq 0 (cs_inner (p_C K inp))) (fun m =>
      kmul (kmul (cs_get (p_C K inp) n m) (cs_get (p_CX K inp) n m)) (skern T inp beta z n m))).

(** what happens at a matched position, as a total function *)
Definition scand (T : tols K) (inp : part_in K) (m : nat * (nat * nat)) : smatch K :=
  let o := fst m in let p := fst (snd m) in let q := snd (snd m) in
  let i2 := idx_at (p_C K inp) p in
  let va := nth p (cs_val (p_C K inp)) k0 in let vb := nth q (cs_val (p_CX K inp)) k0 in
  let P := ksub (nth i2 (p_eI K inp) k0) (nth o (p_eO K inp) k0) in
  if susc_is_zero_pole K NO (t_resonance K T) P then SZero K (kmul (kmul va vb) (nth o (p_wO K inp) k0)) P
  else let R := kmul (kmul va vb) (ksub (nth o (p_wO K inp) k0) (nth i2 (p_wI K inp) k0)) in
       STerm K (susc_relevant K NO (t_matrix_element K T) R) (P, R).

Lemma susc_match_scand T inp (W : part_wf K inp) m :
  In m (matches_part (p_C K inp) (p_CX K inp)) -> susc_match K NO T inp m = Some (scand T inp m).
Proof.
  destruct m as [o [p q]]. intros Hin. apply in_matches_part in Hin. destruct Hin as [Ho [Hp [Hq E]]].
  pose proof (ptr_S_le_len K _ (pw_C K inp W) o Ho) as Lp.
  pose proof (ptr_S_le_len K _ (pw_CX K inp W) o ltac:(pose proof (pw_outer K inp W); lia)) as Lq.
  assert (Hi2 : idx_at (p_C K inp) p < cs_inner (p_C K inp)) by (apply (wf_idx_bound _ (pw_C K inp W)); lia).
  unfold susc_match, scand, rdv. cbn [fst snd].
  rewrite (nth_error_nth' (cs_val (p_C K inp)) k0) by (rewrite (wf_val_len _ (pw_C K inp W)); lia).
  rewrite (nth_error_nth' (cs_val (p_CX K inp)) k0) by (rewrite (wf_val_len _ (pw_CX K inp W)); lia).
  rewrite (nth_error_nth' (cs_idx (p_C K inp)) 0) by lia.
  fold (idx_at (p_C K inp) p).
  rewrite (nth_error_nth' (p_wO K inp) k0) by (pose proof (pw_wO K inp W); lia).
  rewrite (nth_error_nth' (p_wI K inp) k0) by (pose proof (pw_wI K inp W); lia).
  rewrite (nth_error_nth' (p_eO K inp) k0) by (pose proof (pw_eO K inp W); lia).
  rewrite (nth_error_nth' (p_eI K inp) k0) by (pose proof (pw_eI K inp W); lia).
  cbv beta zeta delta [susc_pole].
  destruct (susc_is_zero_pole K NO (t_resonance K T) _); reflexivity.
Qed.

Lemma susc_part_compute_done fixed lenient T inp (W : part_wf K inp) o :
  susc_part_compute K NO fixed lenient T inp = WDone o ->
  let raw := map (scand T inp) (matches_part (p_C K inp) (p_CX K inp)) in
  o = mksout K (fst (susc_add_terms K NO T (s_kept K raw))) (s_zero K NO raw) raw (snd (susc_add_terms K NO T (s_kept K raw))).
Proof.
  unfold susc_part_compute. intros E.
  destruct (part_walk fixed lenient (p_C K inp) (p_CX K inp)) as [l| | |] eqn:Wk; cbn [wbind] in E; try discriminate E.
  pose proof (part_walk_complete _ _ (pw_C K inp W) (pw_CX K inp W) (pw_outer K inp W) fixed lenient l Wk) as ->.
  rewrite (all_some_map _ (scand T inp)) in E by (intros m Hm; apply susc_match_scand; assumption).
  injection E as <-. reflexivity.
Qed.

(** the susceptibility walk is the same function as the Green's function walk: in bounds once repaired *)
Theorem susc_part_compute_fixed lenient T inp (W : part_wf K inp) :
  exists o, susc_part_compute K NO true lenient T inp = WDone o.
Proof.
  unfold susc_part_compute.
  rewrite (part_walk_in_bounds _ _ (pw_C K inp W) (pw_CX K inp W) (pw_outer K inp W) lenient). cbn [wbind].
  rewrite (all_some_map _ (scand T inp)) by (intros m Hm; apply susc_match_scand; assumption).
  eexists. reflexivity.
Qed.

Definition fzs (z : K) (t : gterm K) : K := susc_term_eval K NO (snd t) (fst t) z.
(** contribution of one match to the value at z *)
Definition contrib (beta z : K) (s : smatch K) : K :=
  match s with
  | SZero _ w _ => if z_is_zero z then kmul w beta else k0
  | STerm _ true t => fzs z t
  | STerm _ false _ => k0
  end.

Lemma s_zero_sum raw : s_zero K NO raw = bsum raw (fun s => match s with SZero _ w _ => w | _ => k0 end).
Proof.
  unfold s_zero.
  transitivity (fold_left (fun acc s => kadd acc (match s with SZero _ w _ => w | _ => k0 end)) raw k0).
  - generalize k0 at 1 3. induction raw as [|s raw IH]; intros a; [reflexivity|]. cbn [fold_left].
    destruct s; rewrite <- IH; f_equal; ring.
  - rewrite BS_fold. ring.
Qed.

Lemma s_kept_sum raw z : bsum (s_kept K raw) (fzs z) = bsum raw (fun s => match s with STerm _ true t => fzs z t | _ => k0 end).
Proof.
  unfold s_kept. rewrite BS_flat_map. apply BS_ext. intros s _.
  destruct s as [w P|[|] t]; cbn [bigsum]; ring.
Qed.

(** value of a part = sum of the contributions, whatever the tolerances, when the term list loses nothing *)
Lemma value_as_contrib raw terms beta z :
  eval K K K k0 kadd (fzs z) terms = bsum (s_kept K raw) (fzs z) ->
  susc_part_value K NO (mksout K terms (s_zero K NO raw) raw []) beta z = bsum raw (contrib beta z).
Proof.
  intros E. unfold susc_part_value, susc_terms_eval. cbn [so_terms so_zero].
  change (fun t : term K K => susc_term_eval K NO (snd t) (fst t) z) with (fzs z).
  rewrite susc_part_eval_char, E, s_kept_sum, s_zero_sum. fold (z_is_zero z).
  destruct (z_is_zero z) eqn:Z.
  - rewrite BS_scale_r, <- BS_plus. apply BS_ext. intros s _. destruct s as [w P|[|] t]; cbn [contrib]; rewrite ?Z; ring.
  - transitivity (kadd (bsum raw (fun s => match s with STerm _ true t => fzs z t | _ => k0 end)) (bsum raw (fun _ => k0))).
    { rewrite (bigsum_zero K k0 k1 kadd kmul ksub kopp Kr raw (fun _ => k0)) by reflexivity. ring. }
    rewrite <- BS_plus. apply BS_ext. intros s _. destruct s as [w P|[|] t]; cbn [contrib]; rewrite ?Z; ring.
Qed.

Section ExactForm.
Variable T : tols K.
Hypothesis Hrel : forall R, susc_relevant K NO (t_matrix_element K T) R = false -> R = k0.
Hypothesis Hcmp : forall a b, susc_compare K NO (t_compare K T) a b = false -> susc_compare K NO (t_compare K T) b a = true.

Lemma contrib_scand inp beta z o p q :
  contrib beta z (scand T inp (o, (p, q))) =
  kmul (kmul (nth p (cs_val (p_C K inp)) k0) (nth q (cs_val (p_CX K inp)) k0)) (skern T inp beta z o (idx_at (p_C K inp) p)).
Proof.
  unfold scand, skern. cbn [fst snd].
  destruct (susc_is_zero_pole K NO (t_resonance K T) _); cbn [contrib].
  - destruct (z_is_zero z); ring.
  - destruct (susc_relevant K NO (t_matrix_element K T) _) eqn:R.
    + unfold fzs. cbn [fst snd]. rewrite susc_term_eval_char, Kdiv. ring.
    + apply Hrel in R.
      transitivity (kmul (kopp (kmul (kmul (nth p (cs_val (p_C K inp)) k0) (nth q (cs_val (p_CX K inp)) k0))
                                     (ksub (nth o (p_wO K inp) k0) (nth (idx_at (p_C K inp) p) (p_wI K inp) k0))))
                         (kinv (ksub z (ksub (nth (idx_at (p_C K inp) p) (p_eI K inp) k0) (nth o (p_eO K inp) k0))))).
      * rewrite R. ring.
      * ring.
Qed.

Lemma sum_contrib inp (W : part_wf K inp) beta z :
  bsum (map (scand T inp) (matches_part (p_C K inp) (p_CX K inp))) (contrib beta z) = susc_part_spec T inp beta z.
Proof.
  rewrite BS_map. unfold matches_part. rewrite BS_flat_map. unfold susc_part_spec.
  apply BS_ext. intros o Ho. apply in_seq in Ho. rewrite BS_map.
  unfold matches_outer. rewrite (sum_matches K NO Kr).
  transitivity (bsum (seq (ptr_at (p_C K inp) o) (ptr_at (p_C K inp) (S o) - ptr_at (p_C K inp) o)) (fun p' =>
                bsum (seq (ptr_at (p_CX K inp) o) (ptr_at (p_CX K inp) (S o) - ptr_at (p_CX K inp) o)) (fun q' =>
                  if idx_at (p_C K inp) p' =? idx_at (p_CX K inp) q'
                  then kmul (kmul (nth p' (cs_val (p_C K inp)) k0) (nth q' (cs_val (p_CX K inp)) k0))
                            (skern T inp beta z o (idx_at (p_C K inp) p')) else k0))).
  { apply BS_ext. intros p' _. apply BS_ext. intros q' _. rewrite contrib_scand. reflexivity. }
  rewrite (dense_sum K NO Kr _ _ _ _ (skern T inp beta z o) _ _ _ _ (cs_inner (p_C K inp))).
  - apply BS_ext. intros m _. reflexivity.
  - intros p' Hp'. apply (wf_idx_bound _ (pw_C K inp W)).
    pose proof (ptr_S_le_len K _ (pw_C K inp W) o ltac:(lia)). lia.
Qed.

Theorem susc_part_exact fixed lenient inp (W : part_wf K inp) o beta z :
  susc_part_compute K NO fixed lenient T inp = WDone o ->
  susc_part_value K NO o beta z = susc_part_spec T inp beta z.
Proof.
  intros E. rewrite (susc_part_compute_done fixed lenient T inp W o E). cbv zeta.
  rewrite <- (sum_contrib inp W beta z).
  set (raw := map (scand T inp) (matches_part (p_C K inp) (p_CX K inp))).
  unfold susc_part_value. cbn [so_terms so_zero].
  pose proof (value_as_contrib raw (fst (susc_add_terms K NO T (s_kept K raw))) beta z) as V.
  unfold susc_part_value in V. cbn [so_terms so_zero] in V. apply V.
  unfold susc_add_terms.
  rewrite (termlist_exact_total K K _ _ _ Hcmp K k0 k1 kadd kmul ksub kopp Kr (fzs z)).
  unfold eval at 1. cbn [fold_left]. unfold eval. rewrite BS_fold. unfold gterm in *.
  generalize (bsum (s_kept K raw) (fzs z)). intros a. ring.
Qed.

Corollary susc_part_exact_fixed lenient inp (W : part_wf K inp) beta z :
  exists o, susc_part_compute K NO true lenient T inp = WDone o /\ susc_part_value K NO o beta z = susc_part_spec T inp beta z.
Proof.
  destruct (susc_part_compute_fixed lenient T inp W) as [o E]. exists o. split; [exact E|].
  apply (susc_part_exact true lenient inp W o beta z E).
Qed.

(** the zero-pole weight is seen at zero frequency only: for z not ~ 0 the resonant pairs contribute nothing,
    for z ~ 0 they contribute beta * A_nm B_mn w_n *)
Lemma skern_resonant inp beta z o m :
  susc_is_zero_pole K NO (t_resonance K T) (ksub (nth m (p_eI K inp) k0) (nth o (p_eO K inp) k0)) = true ->
  skern T inp beta z o m = if z_is_zero z then kmul beta (nth o (p_wO K inp) k0) else k0.
Proof. intros H. unfold skern. cbv zeta. rewrite H. reflexivity. Qed.
End ExactForm.

(** * Subtraction of the disconnected part *)
Theorem subtract_only_at_zero parts aveA aveB beta z :
  susc_value K NO parts (Some (aveA, aveB)) beta z =
  if z_is_zero z then ksub (susc_value K NO parts None beta z) (kmul (kmul aveA aveB) beta)
  else susc_value K NO parts None beta z.
Proof. unfold susc_value. rewrite susc_subtract_char. reflexivity. Qed.

(** in imaginary time the subtracted object differs by <A><B> everywhere *)
Theorem subtract_tau parts aveA aveB tau beta :
  susc_value_tau K NO parts (Some (aveA, aveB)) tau beta =
  ksub (susc_value_tau K NO parts None tau beta) (kmul aveA aveB).
Proof. unfold susc_value_tau. rewrite susc_subtract_tau_char. reflexivity. Qed.

(** the three ways of supplying <A>, <B> coincide: the caller's EnsembleAverage objects may be fresh or already
    prepared (prepare() returns at once on a prepared object, so nothing is accumulated twice) *)
Definition ea_fresh_or_prepared (g : gf_in K) (s : ea_state K) : Prop :=
  s = ea_new K NO \/ s = ea_prepare K NO g (ea_new K NO).

Lemma ea_prepare_idem g s : ea_prepare K NO g (ea_prepare K NO g s) = ea_prepare K NO g s.
Proof. unfold ea_prepare. destruct (ea_prepared K s) eqn:E; [rewrite E; reflexivity|reflexivity]. Qed.

Theorem supply_coincide gA gB sa sb :
  ea_fresh_or_prepared gA sa -> ea_fresh_or_prepared gB sb ->
  supplied K NO gA gB (SupplyObjects K sa sb) = supplied K NO gA gB (SupplyInternal K) /\
  supplied K NO gA gB (SupplyNumbers K (ensemble_average K NO gA) (ensemble_average K NO gB)) = supplied K NO gA gB (SupplyInternal K).
Proof.
  intros [->| ->] [->| ->]; cbn [supplied]; unfold ensemble_average; rewrite ?ea_prepare_idem; split; reflexivity.
Qed.
End Exact.
