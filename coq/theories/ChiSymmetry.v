(** C13 -- the exchange symmetries of the two-particle Green's function at the level of the Lehmann
    specification PV.EDSpec.chi: definitions.

    - [chi_lehmann]: the abstract [chi : quad -> triple -> V] of PV.Container4Spec instantiated by the
      specification of a directly constructed TwoParticleGF: EDSpec.chi on eigen-data (energies, weights,
      matrices of c_i and c^+_i in the eigenbasis) at the Matsubara frequencies of the requested index triple.
    - [kscale]: "value * RealType(sign)" on the number type.
    - [regular]: what the second symmetry needs of the data at a set of frequencies (see below).

    Proofs: ChiSymmetryProofs.v; an exact instance (rationals) with a checker: ChiSymmetryExamples.v; the
    instance at Coquelicot's complex numbers with genuine Matsubara frequencies: ChiSymmetryC.v. *)
Require Import Bool List Arith ZArith.
From PV Require Import EDSpec Container4.
Import ListNotations.

Section Defs.
Variable K : Type.
Variable NO : numops K.
Notation "0" := (n0 K NO).
Infix "+" := (nadd K NO).
Infix "-" := (nsub K NO).
Infix "*" := (nmul K NO).
Notation "- x" := (nopp K NO x).
Notation ltb := (nre_ltb K NO).
Notation kabs := (nabs K NO).

(** * Eigen-data of one system and the Lehmann chi as a function of (quadruple, index triple) *)
Record edata := {
  ed_beta : K; ed_tol : K;
  ed_E : list K; ed_w : list K;                 (* energies and weights of the eigenstates *)
  ed_C : nat -> list (list K);                  (* <a| c_i |b> in the eigenbasis *)
  ed_CX : nat -> list (list K);                 (* <a| c^+_i |b> *)
  ed_freq : Z -> K                              (* Matsubara index -> frequency (i (2n+1) pi / beta) *)
}.

Definition chi_lehmann (D : edata) (q : quad) (t : triple) : K :=
  let '(i, j, k, l) := q in
  let '(m1, m2, m3) := t in
  chi K NO (ed_beta D) (ed_tol D) (ed_E D) (ed_w D) (ed_C D i) (ed_C D j) (ed_CX D k) (ed_CX D l)
      (ed_freq D m1) (ed_freq D m2) (ed_freq D m3).

(** value * RealType(sign); the container only ever uses sign = +1 / -1 *)
Definition kscale (s : Z) (v : K) : K :=
  if Z.eqb s 1 then v else if Z.eqb s (-1) then - v else nofZ K NO s * v.

(** * Shapes *)
Definition square (n : nat) (M : list (list K)) : Prop := length M = n /\ forall r, In r M -> length r = n.

(** * Regularity of eigen-data at a set of frequencies

    [res_ok]: the resonance test of the kernel phi for the bosonic combination x + y and the level pair (a, b)
    decides whether the denominator x + y + Ea - Eb vanishes, and a detected resonance has equal weights
    (true for Gibbs weights: equal energies have equal weights). *)
Definition res_ok (tol x y Ea Eb wa wb : K) : Prop :=
  if ltb (kabs (x + y)) tol && ltb (kabs (Ea - Eb)) tol
  then x + y + Ea - Eb = 0 /\ wa = wb
  else x + y + Ea - Eb <> 0.

(** [regular n tol E w fs]: for the frequencies in [fs] and the n eigenstates,
    - no fermionic denominator f + Ea - Eb vanishes,
    - every resonance test is exact in the sense of [res_ok]. *)
Definition regular (n : nat) (tol : K) (E w : list K) (fs : list K) : Prop :=
  (forall f a b, In f fs -> (a < n)%nat -> (b < n)%nat -> f + nth a E 0 - nth b E 0 <> 0) /\
  (forall x y a b, In x fs -> In y fs -> (a < n)%nat -> (b < n)%nat ->
     res_ok tol x y (nth a E 0) (nth b E 0) (nth a w 0) (nth b w 0)).

(** the four frequencies of chi(z1, z2; z3): z1, z2, -z3 and -(z1 + z2 - z3) (they add up to zero) *)
Definition fset (z1 z2 z3 : K) : list K := [z1; z2; - z3; - (z1 + z2 - z3)].

(** regularity of eigen-data of dimension n at every Matsubara index triple *)
Definition edata_regular (n : nat) (D : edata) : Prop :=
  (forall i, square n (ed_C D i)) /\ (forall i, square n (ed_CX D i)) /\
  (forall a b c : Z, ed_freq D (a + b - c)%Z = ed_freq D a + ed_freq D b - ed_freq D c) /\
  (forall m1 m2 m3, regular n (ed_tol D) (ed_E D) (ed_w D) (fset (ed_freq D m1) (ed_freq D m2) (ed_freq D m3))).

End Defs.
