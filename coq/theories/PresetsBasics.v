(** PresetsBasics.v -- C04, layer 1: finite sums, matrices as functions on pairs of Fock states, the
    Jordan-Wigner matrices of number operators and of operator strings, adjoints.
    Everything here is generic (no lattice, no presets); used by PresetsProofs.v. *)
Require Import Bool List Arith Lia Ring Ring_theory Permutation.
From PV Require Import Outcome Fock Poly PolySem CAR AlgebraBasics AlgebraProofs NormalizeProofs PresetsSpec.
Import ListNotations.

(** * Fock-level facts that do not mention coefficients *)

Lemma state_eqb_sym : forall s t, state_eqb s t = state_eqb t s.
Proof.
  induction s as [|a s IH]; destruct t as [|b t]; cbn [state_eqb]; try reflexivity.
  rewrite IH. destruct a, b; reflexivity.
Qed.

Lemma state_eqb_spec : forall s t, state_eqb s t = true <-> s = t.
Proof.
  intros s t. split; [apply state_eqb_eq|]. intros ->. apply state_eqb_refl.
Qed.

(** the adjoint of an operator string: reversed, creation <-> annihilation *)
Definition adjoint_mono (m : monomial) : monomial := rev (map flip_type m).

Lemma flip_type_invol : forall o, flip_type (flip_type o) = o.
Proof. intros [a i]. unfold flip_type. cbn [fst snd]. rewrite negb_involutive. reflexivity. Qed.

Lemma adjoint_mono_invol : forall m, adjoint_mono (adjoint_mono m) = m.
Proof.
  intros m. unfold adjoint_mono. rewrite map_rev, rev_involutive, map_map.
  rewrite <- (map_id m) at 2. apply map_ext. apply flip_type_invol.
Qed.

Lemma adjoint_mono_app : forall a b, adjoint_mono (a ++ b) = adjoint_mono b ++ adjoint_mono a.
Proof. intros a b. unfold adjoint_mono. rewrite map_app, rev_app_distr. reflexivity. Qed.

Lemma adjoint_mono_in_range : forall M m, mono_in_range M m -> mono_in_range M (adjoint_mono m).
Proof.
  intros M m H. unfold mono_in_range, adjoint_mono in *. apply Forall_rev.
  apply Forall_map. eapply Forall_impl; [|exact H]. intros [a i] Hi. exact Hi.
Qed.

(** one operator: <t| o |s> and <s| o^+ |t> are the same transition with the same sign *)
Lemma act_op_adjoint : forall o s sg t,
  act_op o s = Done (Some (sg, t)) -> act_op (flip_type o) t = Done (Some (sg, s)).
Proof.
  intros [a i] s sg t. unfold act_op, flip_type, op_idx, op_ann. cbn [fst snd].
  destruct (i <? length s) eqn:Hi; [|discriminate].
  apply Nat.ltb_lt in Hi.
  destruct (eqb (nth i s false) (negb a)) eqn:E; [discriminate|].
  intro H. inversion H; subst sg t; clear H.
  rewrite CAR.upd_length. replace (i <? length s) with true by (symmetry; apply Nat.ltb_lt; exact Hi).
  rewrite CAR.nth_upd_same by exact Hi. rewrite negb_involutive.
  replace (eqb (negb a) a) with false by (destruct a; reflexivity).
  rewrite CAR.par_upd_ge by lia. rewrite CAR.upd_upd_same.
  assert (Hn : nth i s false = a).
  { destruct (nth i s false), a; cbn in E; congruence. }
  rewrite <- Hn. rewrite CAR.upd_nth_id. reflexivity.
Qed.

Lemma act_mono_adjoint : forall m s sg t,
  act_mono m s = Done (Some (sg, t)) -> act_mono (adjoint_mono m) t = Done (Some (sg, s)).
Proof.
  induction m as [|o m IH]; intros s sg t H.
  - cbn in H. inversion H; subst. reflexivity.
  - rewrite act_mono_cons in H. unfold act_then in H.
    destruct (act_mono m s) as [[[sg1 u]|]| | | |] eqn:E1; try discriminate.
    destruct (act_op o u) as [[[sg2 v]|]| | | |] eqn:E2; try discriminate.
    inversion H; subst sg t; clear H.
    change (o :: m) with ([o] ++ m). rewrite adjoint_mono_app.
    change (adjoint_mono [o]) with [flip_type o].
    rewrite act_mono_app. unfold act_then. rewrite act_mono_single.
    rewrite (act_op_adjoint o u sg2 v E2).
    rewrite (IH s sg1 u E1). rewrite xorb_comm. reflexivity.
Qed.

Section PB.
Variable K : Type.
Variables (k0 k1 : K) (kadd kmul ksub : K -> K -> K) (kopp : K -> K).
Variable kzero : K -> bool.
Hypothesis Hring : ring_ok K k0 k1 kadd kmul ksub kopp kzero.
Let Rth : ring_theory k0 k1 kadd kmul ksub kopp (@eq K) := proj1 Hring.
Add Ring Kring_PB : Rth.
Variable M : nat.

Local Notation cm := (coef_mono K k0 k1 kopp).
Local Notation cp := (coef_poly K k0 k1 kadd kmul kopp).
Local Notation ksum := (@PolySem.ksum K k0 kadd _).
Local Notation mat := (PresetsSpec.mat K).
Local Notation m_zero := (PresetsSpec.m_zero K k0).
Local Notation m_id := (PresetsSpec.m_id K k0 k1).
Local Notation m_add := (PresetsSpec.m_add K kadd).
Local Notation m_sub := (PresetsSpec.m_sub K ksub).
Local Notation m_scale := (PresetsSpec.m_scale K kmul).
Local Notation m_mul := (PresetsSpec.m_mul K k0 kadd kmul M).
Local Notation m_sum := (@PresetsSpec.m_sum K k0 kadd _).
Local Notation m_diag := (PresetsSpec.m_diag K k0).
Local Notation m_comm := (PresetsSpec.m_comm K k0 kadd kmul ksub M).
Local Notation meq := (PresetsSpec.meq K M).
Local Notation m_op := (PresetsSpec.m_op K k0 k1 kopp).
Local Notation m_c := (PresetsSpec.m_c K k0 k1 kopp).
Local Notation m_cdag := (PresetsSpec.m_cdag K k0 k1 kopp).
Local Notation m_prod := (PresetsSpec.m_prod K k0 k1 kadd kmul M).
Local Notation occ := (PresetsSpec.occ K k0 k1).
Local Notation m_n := (PresetsSpec.m_n K k0 k1).
Local Notation m_nn := (PresetsSpec.m_nn K k0 k1 kmul).
Local Notation m_sum_if := (@PresetsSpec.m_sum_if K k0 kadd _).

Let ks_ext := AlgebraBasics.ksum_ext K k0 kadd.
Let ks_zero := AlgebraBasics.ksum_zero K k0 k1 kadd kmul ksub kopp kzero Hring.
Let ks_zero_ext := AlgebraBasics.ksum_zero_ext K k0 k1 kadd kmul ksub kopp kzero Hring.
Let ks_app := AlgebraBasics.ksum_app K k0 k1 kadd kmul ksub kopp kzero Hring.
Let ks_add := AlgebraBasics.ksum_add K k0 k1 kadd kmul ksub kopp kzero Hring.
Let ks_sub := AlgebraBasics.ksum_sub K k0 k1 kadd kmul ksub kopp kzero Hring.
Let ks_scale_l := AlgebraBasics.ksum_scale_l K k0 k1 kadd kmul ksub kopp kzero Hring.
Let ks_scale_r := AlgebraBasics.ksum_scale_r K k0 k1 kadd kmul ksub kopp kzero Hring.
Let ks_swap := AlgebraBasics.ksum_swap K k0 k1 kadd kmul ksub kopp kzero Hring.
Let ks_states_single := AlgebraBasics.ksum_states_single K k0 k1 kadd kmul ksub kopp kzero Hring.

(** * Finite sums *)

Lemma ksum_cons' : forall (A : Type) (a : A) l (f : A -> K), ksum (a :: l) f = kadd (f a) (ksum l f).
Proof. reflexivity. Qed.

Lemma ksum_flat_map : forall (A B : Type) (g : A -> list B) (l : list A) (f : B -> K),
  ksum (flat_map g l) f = ksum l (fun a => ksum (g a) f).
Proof.
  induction l as [|a l IH]; intros f; cbn [flat_map]; [reflexivity|].
  rewrite ks_app, ksum_cons', IH. reflexivity.
Qed.

Lemma ksum_filter : forall (A : Type) (p : A -> bool) (l : list A) (f : A -> K),
  ksum (filter p l) f = ksum l (fun a => if p a then f a else k0).
Proof.
  induction l as [|a l IH]; intros f; cbn [filter]; [reflexivity|].
  rewrite ksum_cons'. destruct (p a).
  - rewrite ksum_cons', IH. reflexivity.
  - rewrite IH. ring.
Qed.

Lemma ksum_perm : forall (A : Type) (l l' : list A) (f : A -> K),
  Permutation l l' -> ksum l f = ksum l' f.
Proof.
  intros A l l' f P. induction P as [|x l l' P IH|x y l|l l' l'' P1 IH1 P2 IH2].
  - reflexivity.
  - rewrite !ksum_cons', IH. reflexivity.
  - rewrite !ksum_cons'. ring.
  - rewrite IH1. exact IH2.
Qed.

Lemma ksum_opp : forall (A : Type) (l : list A) (f : A -> K),
  ksum l (fun a => kopp (f a)) = kopp (ksum l f).
Proof.
  induction l as [|a l IH]; intros f.
  - cbn. ring.
  - rewrite !ksum_cons', IH. ring.
Qed.

(** sum_{j < n, j < i} f j = sum_{j < i} f j   for i <= n *)
Lemma ksum_seq_lt : forall (n i : nat) (f : nat -> K), i <= n ->
  ksum (seq 0 n) (fun j => if j <? i then f j else k0) = ksum (seq 0 i) f.
Proof.
  intros n i f H. replace n with (i + (n - i)) by lia. rewrite seq_app, ks_app.
  rewrite (ks_zero_ext _ (seq (0 + i) (n - i))).
  - rewrite (ks_ext _ (seq 0 i) _ f); [ring|].
    intros j Hj. apply in_seq in Hj. replace (j <? i) with true; [reflexivity|].
    symmetry. apply Nat.ltb_lt. lia.
  - intros j Hj. apply in_seq in Hj. replace (j <? i) with false; [reflexivity|].
    symmetry. apply Nat.ltb_ge. lia.
Qed.

(** a sum over a list without duplicates that picks one element *)
Lemma ksum_pick : forall (n i : nat) (c : K),
  ksum (seq 0 n) (fun j => if j =? i then c else k0) = if i <? n then c else k0.
Proof.
  intros n i c. induction n as [|n IH].
  - reflexivity.
  - rewrite seq_S, ks_app, IH. cbn [plus]. rewrite ksum_cons'. cbn [PolySem.ksum fold_right].
    destruct (Nat.eq_dec n i) as [E|E].
    + subst n. rewrite Nat.eqb_refl, Nat.ltb_irrefl.
      replace (i <? S i) with true by (symmetry; apply Nat.ltb_lt; lia). ring.
    + replace (n =? i) with false by (symmetry; apply Nat.eqb_neq; exact E).
      destruct (i <? n) eqn:E1.
      * apply Nat.ltb_lt in E1. replace (i <? S n) with true by (symmetry; apply Nat.ltb_lt; lia). ring.
      * apply Nat.ltb_ge in E1. replace (i <? S n) with false by (symmetry; apply Nat.ltb_ge; lia). ring.
Qed.

(** * Matrices *)

Lemma meq_refl : forall A, meq A A.
Proof. intros A s t _ _. reflexivity. Qed.
Lemma meq_sym : forall A B, meq A B -> meq B A.
Proof. intros A B H s t Hs Ht. symmetry. apply H; assumption. Qed.
Lemma meq_trans : forall A B C, meq A B -> meq B C -> meq A C.
Proof. intros A B C H1 H2 s t Hs Ht. rewrite H1 by assumption. apply H2; assumption. Qed.

Lemma meq_add : forall A A' B B', meq A A' -> meq B B' -> meq (m_add A B) (m_add A' B').
Proof. intros A A' B B' H1 H2 s t Hs Ht. unfold PresetsSpec.m_add. rewrite H1, H2 by assumption. reflexivity. Qed.
Lemma meq_sub : forall A A' B B', meq A A' -> meq B B' -> meq (m_sub A B) (m_sub A' B').
Proof. intros A A' B B' H1 H2 s t Hs Ht. unfold PresetsSpec.m_sub. rewrite H1, H2 by assumption. reflexivity. Qed.
Lemma meq_scale : forall c A A', meq A A' -> meq (m_scale c A) (m_scale c A').
Proof. intros c A A' H s t Hs Ht. unfold PresetsSpec.m_scale. rewrite H by assumption. reflexivity. Qed.
Lemma meq_sum : forall (X : Type) (l : list X) (f g : X -> mat),
  (forall x, In x l -> meq (f x) (g x)) -> meq (m_sum l f) (m_sum l g).
Proof.
  intros X l f g H s t Hs Ht. unfold PresetsSpec.m_sum. apply ks_ext. intros x Hx. apply H; assumption.
Qed.
Lemma meq_sum_if : forall (X : Type) (l : list X) (p : X -> bool) (f g : X -> mat),
  (forall x, In x l -> p x = true -> meq (f x) (g x)) -> meq (m_sum_if l p f) (m_sum_if l p g).
Proof.
  intros X l p f g H. unfold PresetsSpec.m_sum_if. apply meq_sum. intros x Hx.
  destruct (p x) eqn:E; [apply H; assumption|apply meq_refl].
Qed.
Lemma meq_mul : forall A A' B B', meq A A' -> meq B B' -> meq (m_mul A B) (m_mul A' B').
Proof.
  intros A A' B B' H1 H2 s t Hs Ht. unfold PresetsSpec.m_mul. apply ks_ext. intros u Hu.
  apply all_states_length in Hu. rewrite H1, H2 by assumption. reflexivity.
Qed.

(** ** linearity of the product *)
Lemma m_mul_add_l : forall A B C, meq (m_mul (m_add A B) C) (m_add (m_mul A C) (m_mul B C)).
Proof.
  intros A B C s t _ _. unfold PresetsSpec.m_mul, PresetsSpec.m_add. rewrite <- ks_add.
  apply ks_ext. intros u _. ring.
Qed.
Lemma m_mul_add_r : forall A B C, meq (m_mul A (m_add B C)) (m_add (m_mul A B) (m_mul A C)).
Proof.
  intros A B C s t _ _. unfold PresetsSpec.m_mul, PresetsSpec.m_add. rewrite <- ks_add.
  apply ks_ext. intros u _. ring.
Qed.
Lemma m_mul_scale_l : forall c A B, meq (m_mul (m_scale c A) B) (m_scale c (m_mul A B)).
Proof.
  intros c A B s t _ _. unfold PresetsSpec.m_mul, PresetsSpec.m_scale. rewrite <- ks_scale_l.
  apply ks_ext. intros u _. ring.
Qed.
Lemma m_mul_scale_r : forall c A B, meq (m_mul A (m_scale c B)) (m_scale c (m_mul A B)).
Proof.
  intros c A B s t _ _. unfold PresetsSpec.m_mul, PresetsSpec.m_scale. rewrite <- ks_scale_l.
  apply ks_ext. intros u _. ring.
Qed.
Lemma m_mul_sum_l : forall (X : Type) (l : list X) (f : X -> mat) B,
  meq (m_mul (m_sum l f) B) (m_sum l (fun x => m_mul (f x) B)).
Proof.
  intros X l f B s t _ _. unfold PresetsSpec.m_mul, PresetsSpec.m_sum.
  rewrite ks_swap. apply ks_ext. intros u _. rewrite <- ks_scale_r. reflexivity.
Qed.
Lemma m_mul_sum_r : forall (X : Type) (l : list X) A (f : X -> mat),
  meq (m_mul A (m_sum l f)) (m_sum l (fun x => m_mul A (f x))).
Proof.
  intros X l A f s t _ _. unfold PresetsSpec.m_mul, PresetsSpec.m_sum.
  rewrite ks_swap. apply ks_ext. intros u _. rewrite <- ks_scale_l. reflexivity.
Qed.
Lemma m_mul_zero_l : forall B, meq (m_mul m_zero B) m_zero.
Proof.
  intros B s t _ _. unfold PresetsSpec.m_mul, PresetsSpec.m_zero. apply ks_zero_ext. intros u _. ring.
Qed.
Lemma m_mul_zero_r : forall A, meq (m_mul A m_zero) m_zero.
Proof.
  intros B s t _ _. unfold PresetsSpec.m_mul, PresetsSpec.m_zero. apply ks_zero_ext. intros u _. ring.
Qed.

(** ** diagonal matrices *)
Lemma m_mul_diag_l : forall f A, meq (m_mul (m_diag f) A) (fun s t => kmul (f t) (A s t)).
Proof.
  intros f A s t Hs Ht. unfold PresetsSpec.m_mul, PresetsSpec.m_diag.
  rewrite (ks_states_single M t).
  - rewrite state_eqb_refl. reflexivity.
  - exact Ht.
  - intros u Hu Hn. rewrite state_eqb_neq by exact Hn. ring.
Qed.
Lemma m_mul_diag_r : forall f A, meq (m_mul A (m_diag f)) (fun s t => kmul (A s t) (f s)).
Proof.
  intros f A s t Hs Ht. unfold PresetsSpec.m_mul, PresetsSpec.m_diag.
  rewrite (ks_states_single M s).
  - rewrite state_eqb_refl. reflexivity.
  - exact Hs.
  - intros u Hu Hn. rewrite state_eqb_neq by congruence. ring.
Qed.
Lemma m_mul_diag_diag : forall f g, meq (m_mul (m_diag f) (m_diag g)) (m_diag (fun s => kmul (f s) (g s))).
Proof.
  intros f g s t Hs Ht. rewrite m_mul_diag_l by assumption. unfold PresetsSpec.m_diag.
  destruct (state_eqb s t) eqn:E; [|ring]. apply state_eqb_eq in E. subst t. reflexivity.
Qed.
Lemma m_mul_id_r : forall A, meq (m_mul A m_id) A.
Proof.
  intros A s t Hs Ht. change m_id with (m_diag (fun _ => k1)). rewrite m_mul_diag_r by assumption. ring.
Qed.
Lemma m_mul_id_l : forall A, meq (m_mul m_id A) A.
Proof.
  intros A s t Hs Ht. change m_id with (m_diag (fun _ => k1)). rewrite m_mul_diag_l by assumption. ring.
Qed.

Lemma m_diag_add : forall f g, meq (m_add (m_diag f) (m_diag g)) (m_diag (fun s => kadd (f s) (g s))).
Proof.
  intros f g s t _ _. unfold PresetsSpec.m_add, PresetsSpec.m_diag. destruct (state_eqb s t); ring.
Qed.
Lemma m_diag_sub : forall f g, meq (m_sub (m_diag f) (m_diag g)) (m_diag (fun s => ksub (f s) (g s))).
Proof.
  intros f g s t _ _. unfold PresetsSpec.m_sub, PresetsSpec.m_diag. destruct (state_eqb s t); ring.
Qed.
Lemma m_diag_scale : forall c f, meq (m_scale c (m_diag f)) (m_diag (fun s => kmul c (f s))).
Proof.
  intros c f s t _ _. unfold PresetsSpec.m_scale, PresetsSpec.m_diag. destruct (state_eqb s t); ring.
Qed.
Lemma m_diag_sum : forall (X : Type) (l : list X) (f : X -> state -> K),
  meq (m_sum l (fun x => m_diag (f x))) (m_diag (fun s => ksum l (fun x => f x s))).
Proof.
  intros X l f s t _ _. unfold PresetsSpec.m_sum, PresetsSpec.m_diag.
  destruct (state_eqb s t); [reflexivity|]. apply ks_zero.
Qed.
Lemma m_diag_ext : forall f g, (forall s, length s = M -> f s = g s) -> meq (m_diag f) (m_diag g).
Proof.
  intros f g H s t Hs _. unfold PresetsSpec.m_diag. rewrite H by exact Hs. reflexivity.
Qed.
Lemma m_diag_zero : meq m_zero (m_diag (fun _ => k0)).
Proof. intros s t _ _. unfold PresetsSpec.m_zero, PresetsSpec.m_diag. destruct (state_eqb s t); reflexivity. Qed.

(** ** associativity *)
Lemma m_mul_assoc : forall A B C, meq (m_mul (m_mul A B) C) (m_mul A (m_mul B C)).
Proof.
  intros A B C s t _ _. unfold PresetsSpec.m_mul.
  transitivity (ksum (all_states M) (fun u => ksum (all_states M) (fun v => kmul (kmul (A v t) (B u v)) (C s u)))).
  - apply ks_ext. intros u _. rewrite <- ks_scale_r. reflexivity.
  - rewrite ks_swap. apply ks_ext. intros v _. rewrite <- ks_scale_l. apply ks_ext. intros u _. ring.
Qed.

(** * Operator strings *)

(** the product of the Jordan-Wigner matrices of o_1 ... o_k is the action of the string, right to left *)
Lemma m_prod_mono : forall m s t, length s = M -> m_prod (map m_op m) s t = cm m s t.
Proof.
  induction m as [|o m IH]; intros s t Hs.
  - cbn [map PresetsSpec.m_prod fold_right]. unfold PresetsSpec.m_id, coef_mono. cbn [act_mono]. reflexivity.
  - cbn [map PresetsSpec.m_prod fold_right].
    change (fold_right m_mul m_id (map m_op m)) with (m_prod (map m_op m)).
    change (o :: m) with ([o] ++ m).
    rewrite (AlgebraBasics.coef_mono_app K k0 k1 kadd kmul ksub kopp kzero Hring M [o] m s t Hs).
    unfold PresetsSpec.m_mul. apply ks_ext. intros u Hu. rewrite IH by exact Hs. reflexivity.
Qed.

Lemma m_mul_mono : forall m1 m2, meq (m_mul (cm m1) (cm m2)) (cm (m1 ++ m2)).
Proof.
  intros m1 m2 s t Hs _. unfold PresetsSpec.m_mul.
  rewrite (AlgebraBasics.coef_mono_app K k0 k1 kadd kmul ksub kopp kzero Hring M m1 m2 s t Hs). reflexivity.
Qed.

(** number operators *)
Lemma cm_n_diag : forall i, i < M -> meq (cm [cdag i; cann i]) (m_n i).
Proof.
  intros i Hi s t Hs _. rewrite cm_n by lia. unfold PresetsSpec.m_n, PresetsSpec.m_diag, PresetsSpec.occ.
  destruct (nth i s false), (state_eqb s t); reflexivity.
Qed.

Lemma cm_nn_diag : forall i j, i < M -> j < M -> meq (cm [cdag i; cann i; cdag j; cann j]) (m_nn i j).
Proof.
  intros i j Hi Hj.
  change [cdag i; cann i; cdag j; cann j] with ([cdag i; cann i] ++ [cdag j; cann j]).
  eapply meq_trans; [apply meq_sym, m_mul_mono|].
  eapply meq_trans; [apply meq_mul; apply cm_n_diag; assumption|].
  unfold PresetsSpec.m_n, PresetsSpec.m_nn. apply m_mul_diag_diag.
Qed.

Lemma m_nn_product : forall i j, meq (m_mul (m_n i) (m_n j)) (m_nn i j).
Proof. intros i j. unfold PresetsSpec.m_n, PresetsSpec.m_nn. apply m_mul_diag_diag. Qed.

Lemma m_n_product : forall i, i < M -> meq (m_mul (m_cdag i) (m_c i)) (m_n i).
Proof.
  intros i Hi. unfold PresetsSpec.m_cdag, PresetsSpec.m_c, PresetsSpec.m_op.
  eapply meq_trans; [apply m_mul_mono|]. apply cm_n_diag. exact Hi.
Qed.

Lemma occ_idem : forall i s, kmul (occ i s) (occ i s) = occ i s.
Proof. intros i s. unfold PresetsSpec.occ. destruct (nth i s false); ring. Qed.

(** * Adjoints *)
Variable kconj : K -> K.
Hypothesis conj0 : kconj k0 = k0.
Hypothesis conj1 : kconj k1 = k1.
Hypothesis conj_add : forall a b, kconj (kadd a b) = kadd (kconj a) (kconj b).
Hypothesis conj_mul : forall a b, kconj (kmul a b) = kmul (kconj a) (kconj b).
Hypothesis conj_opp : forall a, kconj (kopp a) = kopp (kconj a).
Hypothesis conj_invol : forall a, kconj (kconj a) = a.
Local Notation m_adj := (PresetsSpec.m_adj K kconj).
Local Notation m_hermitian := (PresetsSpec.m_hermitian K kconj M).

Lemma conj_sub : forall a b, kconj (ksub a b) = ksub (kconj a) (kconj b).
Proof.
  intros a b. replace (ksub a b) with (kadd a (kopp b)) by ring.
  rewrite conj_add, conj_opp. ring.
Qed.

Lemma conj_ksum : forall (A : Type) (l : list A) (f : A -> K),
  kconj (ksum l f) = ksum l (fun a => kconj (f a)).
Proof.
  induction l as [|a l IH]; intros f; [exact conj0|].
  rewrite !ksum_cons', conj_add, IH. reflexivity.
Qed.

(** <t| m |s> = conj <s| m^+ |t>, m^+ = the reversed string with the types flipped *)
Lemma coef_mono_adjoint : forall m s t, cm (adjoint_mono m) s t = kconj (cm m t s).
Proof.
  assert (Hdir : forall m s t sg u, act_mono m t = Done (Some (sg, u)) ->
            cm (adjoint_mono m) s t = kconj (cm m t s) ).
  { intros m s t sg u H. unfold coef_mono at 2. rewrite H.
    destruct (state_eqb u s) eqn:E.
    - apply state_eqb_eq in E. subst u. unfold coef_mono.
      rewrite (act_mono_adjoint m t sg s H), state_eqb_refl.
      destruct sg; [rewrite conj_opp, conj1|rewrite conj1]; reflexivity.
    - rewrite conj0. unfold coef_mono.
      destruct (act_mono (adjoint_mono m) s) as [[[sg' v]|]| | | |] eqn:E'; try reflexivity.
      destruct (state_eqb v t) eqn:Ev; [|reflexivity].
      apply state_eqb_eq in Ev. subst v.
      apply act_mono_adjoint in E'. rewrite adjoint_mono_invol in E'.
      rewrite H in E'. inversion E'; subst. rewrite state_eqb_refl in E. discriminate. }
  intros m s t.
  destruct (act_mono m t) as [[[sg u]|]| | | |] eqn:E.
  - eapply Hdir. exact E.
  - unfold coef_mono at 2. rewrite E, conj0. unfold coef_mono.
    destruct (act_mono (adjoint_mono m) s) as [[[sg' v]|]| | | |] eqn:E'; try reflexivity.
    destruct (state_eqb v t) eqn:Ev; [|reflexivity].
    apply state_eqb_eq in Ev. subst v.
    apply act_mono_adjoint in E'. rewrite adjoint_mono_invol in E'. congruence.
  - unfold coef_mono at 2. rewrite E, conj0. unfold coef_mono.
    destruct (act_mono (adjoint_mono m) s) as [[[sg' v]|]| | | |] eqn:E'; try reflexivity.
    destruct (state_eqb v t) eqn:Ev; [|reflexivity].
    apply state_eqb_eq in Ev. subst v.
    apply act_mono_adjoint in E'. rewrite adjoint_mono_invol in E'. congruence.
  - unfold coef_mono at 2. rewrite E, conj0. unfold coef_mono.
    destruct (act_mono (adjoint_mono m) s) as [[[sg' v]|]| | | |] eqn:E'; try reflexivity.
    destruct (state_eqb v t) eqn:Ev; [|reflexivity].
    apply state_eqb_eq in Ev. subst v.
    apply act_mono_adjoint in E'. rewrite adjoint_mono_invol in E'. congruence.
  - unfold coef_mono at 2. rewrite E, conj0. unfold coef_mono.
    destruct (act_mono (adjoint_mono m) s) as [[[sg' v]|]| | | |] eqn:E'; try reflexivity.
    destruct (state_eqb v t) eqn:Ev; [|reflexivity].
    apply state_eqb_eq in Ev. subst v.
    apply act_mono_adjoint in E'. rewrite adjoint_mono_invol in E'. congruence.
  - unfold coef_mono at 2. rewrite E, conj0. unfold coef_mono.
    destruct (act_mono (adjoint_mono m) s) as [[[sg' v]|]| | | |] eqn:E'; try reflexivity.
    destruct (state_eqb v t) eqn:Ev; [|reflexivity].
    apply state_eqb_eq in Ev. subst v.
    apply act_mono_adjoint in E'. rewrite adjoint_mono_invol in E'. congruence.
Qed.

Lemma m_adj_mono : forall m, meq (m_adj (cm m)) (cm (adjoint_mono m)).
Proof. intros m s t _ _. unfold PresetsSpec.m_adj. symmetry. apply coef_mono_adjoint. Qed.

Lemma m_adj_add : forall A B, meq (m_adj (m_add A B)) (m_add (m_adj A) (m_adj B)).
Proof. intros A B s t _ _. unfold PresetsSpec.m_adj, PresetsSpec.m_add. apply conj_add. Qed.
Lemma m_adj_scale : forall c A, meq (m_adj (m_scale c A)) (m_scale (kconj c) (m_adj A)).
Proof. intros c A s t _ _. unfold PresetsSpec.m_adj, PresetsSpec.m_scale. apply conj_mul. Qed.
Lemma m_adj_sum : forall (X : Type) (l : list X) (f : X -> mat),
  meq (m_adj (m_sum l f)) (m_sum l (fun x => m_adj (f x))).
Proof. intros X l f s t _ _. unfold PresetsSpec.m_adj, PresetsSpec.m_sum. apply conj_ksum. Qed.
Lemma m_adj_mul : forall A B, meq (m_adj (m_mul A B)) (m_mul (m_adj B) (m_adj A)).
Proof.
  intros A B s t _ _. unfold PresetsSpec.m_adj, PresetsSpec.m_mul. rewrite conj_ksum.
  apply ks_ext. intros u _. rewrite conj_mul. ring.
Qed.
Lemma m_adj_adj : forall A, meq (m_adj (m_adj A)) A.
Proof. intros A s t _ _. unfold PresetsSpec.m_adj. apply conj_invol. Qed.
Lemma meq_adj : forall A B, meq A B -> meq (m_adj A) (m_adj B).
Proof. intros A B H s t Hs Ht. unfold PresetsSpec.m_adj. rewrite H by assumption. reflexivity. Qed.

Lemma herm_meq : forall A B, meq A B -> m_hermitian A -> m_hermitian B.
Proof.
  intros A B H HA. unfold PresetsSpec.m_hermitian in *.
  eapply meq_trans; [apply meq_sym; exact H|]. eapply meq_trans; [exact HA|]. apply meq_adj. exact H.
Qed.
Lemma herm_add : forall A B, m_hermitian A -> m_hermitian B -> m_hermitian (m_add A B).
Proof.
  intros A B HA HB. unfold PresetsSpec.m_hermitian in *.
  eapply meq_trans; [|apply meq_sym, m_adj_add]. apply meq_add; assumption.
Qed.
Lemma herm_scale : forall c A, kconj c = c -> m_hermitian A -> m_hermitian (m_scale c A).
Proof.
  intros c A Hc HA. unfold PresetsSpec.m_hermitian in *.
  eapply meq_trans; [|apply meq_sym, m_adj_scale]. rewrite Hc. apply meq_scale. exact HA.
Qed.
Lemma herm_sum : forall (X : Type) (l : list X) (f : X -> mat),
  (forall x, In x l -> m_hermitian (f x)) -> m_hermitian (m_sum l f).
Proof.
  intros X l f H. unfold PresetsSpec.m_hermitian in *.
  eapply meq_trans; [|apply meq_sym, m_adj_sum]. apply meq_sum. exact H.
Qed.
Lemma herm_zero : m_hermitian m_zero.
Proof. intros s t _ _. unfold PresetsSpec.m_adj, PresetsSpec.m_zero. symmetry. exact conj0. Qed.
Lemma herm_sum_if : forall (X : Type) (l : list X) (p : X -> bool) (f : X -> mat),
  (forall x, In x l -> p x = true -> m_hermitian (f x)) -> m_hermitian (m_sum_if l p f).
Proof.
  intros X l p f H. unfold PresetsSpec.m_sum_if. apply herm_sum. intros x Hx.
  destruct (p x) eqn:E; [apply H; assumption|apply herm_zero].
Qed.
Lemma herm_diag : forall f : state -> K, (forall s, kconj (f s) = f s) -> m_hermitian (m_diag f).
Proof.
  intros f H s t _ _. unfold PresetsSpec.m_adj, PresetsSpec.m_diag. rewrite (state_eqb_sym t s).
  destruct (state_eqb s t) eqn:E.
  - apply state_eqb_eq in E. subst t. symmetry. apply H.
  - symmetry. exact conj0.
Qed.
(** A + A^+ *)
Lemma herm_plus_adj : forall A B, meq B (m_adj A) -> m_hermitian (m_add A B).
Proof.
  intros A B H. unfold PresetsSpec.m_hermitian.
  eapply meq_trans; [|apply meq_sym, m_adj_add].
  intros s t Hs Ht. unfold PresetsSpec.m_add.
  rewrite (H s t Hs Ht). unfold PresetsSpec.m_adj at 3. rewrite (H t s Ht Hs).
  unfold PresetsSpec.m_adj. rewrite conj_invol. ring.
Qed.

Lemma conj_occ : forall i s, kconj (occ i s) = occ i s.
Proof. intros i s. unfold PresetsSpec.occ. destruct (nth i s false); assumption. Qed.

End PB.

(** * Rearranging sums of matrices *)
Section Sums.
Variable K : Type.
Variables (k0 k1 : K) (kadd kmul ksub : K -> K -> K) (kopp : K -> K).
Variable kzero : K -> bool.
Hypothesis Hring : ring_ok K k0 k1 kadd kmul ksub kopp kzero.
Let Rth : ring_theory k0 k1 kadd kmul ksub kopp (@eq K) := proj1 Hring.
Add Ring Kring_PBS : Rth.
Variable M : nat.

Local Notation ksum := (@PolySem.ksum K k0 kadd _).
Local Notation mat := (PresetsSpec.mat K).
Local Notation m_zero := (PresetsSpec.m_zero K k0).
Local Notation m_add := (PresetsSpec.m_add K kadd).
Local Notation m_sub := (PresetsSpec.m_sub K ksub).
Local Notation m_scale := (PresetsSpec.m_scale K kmul).
Local Notation m_sum := (@PresetsSpec.m_sum K k0 kadd _).
Local Notation m_sum_if := (@PresetsSpec.m_sum_if K k0 kadd _).
Local Notation meq := (PresetsSpec.meq K M).
Local Notation rng := PresetsSpec.rng.

Let ks_ext := AlgebraBasics.ksum_ext K k0 kadd.
Let ks_zero := AlgebraBasics.ksum_zero K k0 k1 kadd kmul ksub kopp kzero Hring.
Let ks_add := AlgebraBasics.ksum_add K k0 k1 kadd kmul ksub kopp kzero Hring.
Let ks_scale_l := AlgebraBasics.ksum_scale_l K k0 k1 kadd kmul ksub kopp kzero Hring.
Let ks_swap := AlgebraBasics.ksum_swap K k0 k1 kadd kmul ksub kopp kzero Hring.

(** [if c then A else 0] *)
Definition m_when (c : bool) (A : mat) : mat := if c then A else m_zero.

Lemma m_sum_if_when : forall (X : Type) (l : list X) (p : X -> bool) (f : X -> mat),
  m_sum_if l p f = m_sum l (fun x => m_when (p x) (f x)).
Proof. reflexivity. Qed.

Lemma m_add_comm : forall A B, meq (m_add A B) (m_add B A).
Proof. intros A B s u _ _. unfold PresetsSpec.m_add. ring. Qed.
Lemma m_add_assoc : forall A B C, meq (m_add (m_add A B) C) (m_add A (m_add B C)).
Proof. intros A B C s u _ _. unfold PresetsSpec.m_add. ring. Qed.
Lemma m_add_zero_l : forall A, meq (m_add m_zero A) A.
Proof. intros A s u _ _. unfold PresetsSpec.m_add, PresetsSpec.m_zero. ring. Qed.
Lemma m_add_zero_r : forall A, meq (m_add A m_zero) A.
Proof. intros A s u _ _. unfold PresetsSpec.m_add, PresetsSpec.m_zero. ring. Qed.
Lemma m_scale_add : forall c A B, meq (m_scale c (m_add A B)) (m_add (m_scale c A) (m_scale c B)).
Proof. intros c A B s u _ _. unfold PresetsSpec.m_add, PresetsSpec.m_scale. ring. Qed.
Lemma m_scale_zero : forall c, meq (m_scale c m_zero) m_zero.
Proof. intros c s u _ _. unfold PresetsSpec.m_zero, PresetsSpec.m_scale. ring. Qed.
Lemma m_scale_scale : forall a b A, meq (m_scale a (m_scale b A)) (m_scale (kmul a b) A).
Proof. intros a b A s u _ _. unfold PresetsSpec.m_scale. ring. Qed.
Lemma m_scale_when : forall c (b : bool) A, meq (m_scale c (m_when b A)) (m_when b (m_scale c A)).
Proof. intros c [|] A; [apply meq_refl|apply m_scale_zero]. Qed.
Lemma m_when_add : forall (b : bool) A B, meq (m_when b (m_add A B)) (m_add (m_when b A) (m_when b B)).
Proof. intros [|] A B; [apply meq_refl|]. apply meq_sym, m_add_zero_l. Qed.
Lemma meq_when : forall (b : bool) A B, (b = true -> meq A B) -> meq (m_when b A) (m_when b B).
Proof. intros [|] A B H; [apply H; reflexivity|apply meq_refl]. Qed.

Lemma m_sum_zero : forall (X : Type) (l : list X), meq (m_sum l (fun _ => m_zero)) m_zero.
Proof. intros X l s u _ _. unfold PresetsSpec.m_sum, PresetsSpec.m_zero. apply ks_zero. Qed.
Lemma m_sum_add : forall (X : Type) (l : list X) (f g : X -> mat),
  meq (m_sum l (fun x => m_add (f x) (g x))) (m_add (m_sum l f) (m_sum l g)).
Proof. intros X l f g s u _ _. unfold PresetsSpec.m_sum, PresetsSpec.m_add. apply ks_add. Qed.
Lemma m_sum_scale : forall (X : Type) (l : list X) c (f : X -> mat),
  meq (m_sum l (fun x => m_scale c (f x))) (m_scale c (m_sum l f)).
Proof. intros X l c f s u _ _. unfold PresetsSpec.m_sum, PresetsSpec.m_scale. apply ks_scale_l. Qed.
Lemma m_sum_swap : forall (X Y : Type) (lx : list X) (ly : list Y) (f : X -> Y -> mat),
  meq (m_sum lx (fun x => m_sum ly (fun y => f x y))) (m_sum ly (fun y => m_sum lx (fun x => f x y))).
Proof. intros X Y lx ly f s u _ _. unfold PresetsSpec.m_sum. apply ks_swap. Qed.
Lemma m_sum_when : forall (X : Type) (l : list X) (b : bool) (f : X -> mat),
  meq (m_sum l (fun x => m_when b (f x))) (m_when b (m_sum l f)).
Proof. intros X l [|] f; [apply meq_refl|apply m_sum_zero]. Qed.

(** sum_{j < i} f j = sum_{j < n, j < i} f j for i <= n *)
Lemma m_sum_lt : forall n i (f : nat -> mat), i <= n ->
  meq (m_sum (rng i) f) (m_sum_if (rng n) (fun j => j <? i) f).
Proof.
  intros n i f H s u _ _. unfold PresetsSpec.m_sum_if, PresetsSpec.m_sum, PresetsSpec.rng. symmetry.
  rewrite <- (ksum_seq_lt K k0 k1 kadd kmul ksub kopp kzero Hring n i (fun j => f j s u) H).
  apply ks_ext. intros j _. destruct (j <? i); reflexivity.
Qed.

(** relabelling a double sum with a symmetric condition *)
Lemma m_sum_if_sym : forall (l : list nat) (p : nat -> nat -> bool) (f : nat -> nat -> mat),
  (forall a b, p a b = p b a) ->
  meq (m_sum l (fun a => m_sum_if l (fun b => p a b) (fun b => f a b)))
      (m_sum l (fun a => m_sum_if l (fun b => p a b) (fun b => f b a))).
Proof.
  intros l p f Hp. unfold PresetsSpec.m_sum_if.
  eapply meq_trans; [apply m_sum_swap|]. apply meq_sum. intros a _. apply meq_sum. intros b _.
  rewrite (Hp b a). apply meq_refl.
Qed.

(** conditional sums *)
Lemma when_app : forall (c : bool) (A : mat) s u, (if c then A else m_zero) s u = if c then A s u else k0.
Proof. intros [|] A s u; reflexivity. Qed.

Lemma m_sum_if_add : forall (X : Type) (l : list X) (p : X -> bool) (f g : X -> mat),
  meq (m_sum_if l p (fun x => m_add (f x) (g x))) (m_add (m_sum_if l p f) (m_sum_if l p g)).
Proof.
  intros X l p f g s u _ _. unfold PresetsSpec.m_sum_if, PresetsSpec.m_sum, PresetsSpec.m_add.
  rewrite <- ks_add. apply ks_ext. intros x _. rewrite !when_app. unfold PresetsSpec.m_add.
  destruct (p x); ring.
Qed.
Lemma m_sum_if_scale : forall (X : Type) (l : list X) (p : X -> bool) c (f : X -> mat),
  meq (m_sum_if l p (fun x => m_scale c (f x))) (m_scale c (m_sum_if l p f)).
Proof.
  intros X l p c f s u _ _. unfold PresetsSpec.m_sum_if, PresetsSpec.m_sum, PresetsSpec.m_scale.
  rewrite <- ks_scale_l. apply ks_ext. intros x _. rewrite !when_app. unfold PresetsSpec.m_scale.
  destruct (p x); ring.
Qed.
Lemma m_sum_if_swap_plain : forall (X Y : Type) (lx : list X) (ly : list Y) (p : X -> bool) (f : X -> Y -> mat),
  meq (m_sum_if lx p (fun x => m_sum ly (fun y => f x y))) (m_sum ly (fun y => m_sum_if lx p (fun x => f x y))).
Proof.
  intros X Y lx ly p f s u _ _. unfold PresetsSpec.m_sum_if, PresetsSpec.m_sum.
  transitivity (ksum lx (fun x => ksum ly (fun y => if p x then f x y s u else k0))).
  - apply ks_ext. intros x _. rewrite when_app. unfold PresetsSpec.m_sum. destruct (p x); [reflexivity|].
    symmetry. apply ks_zero.
  - rewrite ks_swap. apply ks_ext. intros y _. apply ks_ext. intros x _. rewrite when_app. reflexivity.
Qed.
Lemma m_sum_if_swap : forall (X Y : Type) (lx : list X) (ly : list Y) (p : X -> bool) (q : Y -> bool)
  (f : X -> Y -> mat),
  meq (m_sum_if lx p (fun x => m_sum_if ly q (fun y => f x y)))
      (m_sum_if ly q (fun y => m_sum_if lx p (fun x => f x y))).
Proof.
  intros X Y lx ly p q f. unfold PresetsSpec.m_sum_if at 2 4.
  eapply meq_trans; [apply m_sum_if_swap_plain|]. apply meq_sum. intros y _.
  intros s u _ _. unfold PresetsSpec.m_sum_if, PresetsSpec.m_sum. rewrite when_app.
  destruct (q y).
  - apply ks_ext. intros x _. reflexivity.
  - unfold PresetsSpec.m_sum. transitivity (ksum lx (fun _ => k0)); [|apply ks_zero].
    apply ks_ext. intros x _. rewrite when_app. destruct (p x); reflexivity.
Qed.
Lemma m_sum_swap_if : forall (X Y : Type) (lx : list X) (ly : list Y) (q : Y -> bool) (f : X -> Y -> mat),
  meq (m_sum lx (fun x => m_sum_if ly q (fun y => f x y))) (m_sum_if ly q (fun y => m_sum lx (fun x => f x y))).
Proof. intros. apply meq_sym. apply m_sum_if_swap_plain. Qed.

End Sums.
