(** C12 -- non-vacuity / cross-check of the all-M theorems by COMPUTATION: the field setting of PV.Wick
    instantiated at the canonical rationals Qc (exact zero test), and the executable specification
    (EDSpec.gf, EDSpec.chi on the Jordan-Wigner matrices of 4 and 5 modes, 16 and 32 Fock states) evaluated
    with vm_compute at concrete levels (degenerate, zero and generic ones), Boltzmann factors and frequencies,
    compared with the closed forms gfree / chi0_free.  These evaluations do not use the theorems. *)
Require Import List Bool ZArith QArith Qcanon Field Arith Lia.
From PV Require Import Outcome Fock Poly EDSpec Wick WickProofs WickAllM WickAllMChi WickAllMMain.
Import ListNotations.

Definition Qisz (x : Qc) : bool := Qeq_bool (this x) 0.

Lemma Qisz_spec : forall x, Qisz x = true <-> x = 0%Qc.
Proof.
  intro x. unfold Qisz. rewrite Qeq_bool_iff. split.
  - intro H. apply Qc_is_canon. exact H.
  - intro H. subst x. reflexivity.
Qed.

Lemma Q_nz_test : forall x : Qc, Qisz 0%Qc && negb (Qisz x) = negb (Qisz x).
Proof. intro x. reflexivity. Qed.
Lemma Q_res_test : forall x : Qc, Qisz x && negb (Qisz 1%Qc) = Qisz x.
Proof. intro x. change (Qisz 1%Qc) with false. cbn [negb]. apply andb_true_r. Qed.
Lemma Q_two : (1 + 1)%Qc <> 0%Qc.
Proof. intro H. apply Qisz_spec in H. vm_compute in H. discriminate. Qed.

Definition QcSetting : fsetting := {|
  fK := Qc; f0 := 0%Qc; f1 := 1%Qc; fadd := Qcplus; fmul := Qcmult; fsub := Qcminus; fopp := Qcopp;
  fdiv := Qcdiv; finv := Qcinv; fKf := Qcft;
  fisz := Qisz; fisz_spec := Qisz_spec;
  fabs := fun z => z; fltb := fun a b => Qisz a && negb (Qisz b); ftol := 1%Qc;
  fnz_test := Q_nz_test; fres_test := Q_res_test; ftwo := Q_two |}.

Definition q (a : Z) (b : positive) : Qc := Q2Qc (a # b).
Definition same (a b : Qc) : bool := Qeq_bool (this a) (this b).
Definition idx4 : list nat := [0; 1; 2; 3]%nat.
Definition idx5 : list nat := [0; 1; 2; 3; 4]%nat.

(** four modes: levels 1/2, -1/3, 1/2 (degenerate with mode 0), 0; Boltzmann factors 2, 1/3, 2, 1 *)
Definition eps4 : list Qc := [q 1 2; q (-1) 3; q 1 2; q 0 1].
Definition xs4 : list Qc := [q 2 1; q 1 3; q 2 1; q 1 1].
Definition G4 (i j : nat) (z : Qc) : Qc :=
  gf Qc (FNum QcSetting) (energies QcSetting eps4) (gibbs QcSetting xs4) (Cm QcSetting 4 i) (CXm QcSetting 4 j) z.
Definition X4 (beta : Qc) (i j k l : nat) (z1 z2 z3 : Qc) : Qc :=
  chi Qc (FNum QcSetting) beta (ftol QcSetting) (energies QcSetting eps4) (gibbs QcSetting xs4)
      (Cm QcSetting 4 i) (Cm QcSetting 4 j) (CXm QcSetting 4 k) (CXm QcSetting 4 l) z1 z2 z3.

(** G_ij(z) = delta_ij / (z - eps_i): all 16 index pairs, 16 Fock states *)
Example G4_closed_form :
  forallb (fun i => forallb (fun j => same (G4 i j (q 7 5)) (gfree QcSetting eps4 i j (q 7 5))) idx4) idx4 = true.
Proof. vm_compute. reflexivity. Qed.

(** chi = chi0: ALL 256 index quadruples at a generic triple, at z1 = z3, at z2 = z3, at z1 + z2 = 0 *)
Definition all_quadruples4 (beta z1 z2 z3 : Qc) : bool :=
  forallb (fun i => forallb (fun j => forallb (fun k => forallb (fun l =>
    same (X4 beta i j k l z1 z2 z3) (chi0_free QcSetting eps4 beta i j k l z1 z2 z3)) idx4) idx4) idx4) idx4.

Example chi4_generic : all_quadruples4 (q 3 1) (q 7 5) (q 11 7) (q 13 9) = true.
Proof. vm_compute. reflexivity. Qed.
Example chi4_z1_eq_z3 : all_quadruples4 (q 3 1) (q 7 5) (q 11 7) (q 7 5) = true.
Proof. vm_compute. reflexivity. Qed.
Example chi4_z2_eq_z3 : all_quadruples4 (q 3 1) (q 7 5) (q 11 7) (q 11 7) = true.
Proof. vm_compute. reflexivity. Qed.
Example chi4_z1_plus_z2_zero : all_quadruples4 (q 3 1) (q 7 5) (q (-7) 5) (q 13 9) = true.
Proof. vm_compute. reflexivity. Qed.
(** ... and the Wick part is not identically zero there *)
Example chi4_nontrivial :
  same (X4 (q 3 1) 0 1 0 1 (q 7 5) (q 11 7) (q 7 5)) 0%Qc = false /\
  same (X4 (q 3 1) 0 2 2 0 (q 7 5) (q 11 7) (q 11 7)) 0%Qc = false /\
  same (X4 (q 3 1) 3 3 3 3 (q 7 5) (q 11 7) (q 7 5)) 0%Qc = false.
Proof. vm_compute. repeat split; reflexivity. Qed.

(** five modes, 32 Fock states: the propagator *)
Definition eps5 : list Qc := [q 1 2; q (-1) 3; q 1 2; q 0 1; q 5 4].
Definition xs5 : list Qc := [q 2 1; q 1 3; q 2 1; q 1 1; q 1 7].
Example G5_closed_form :
  forallb (fun i => forallb (fun j =>
    same (gf Qc (FNum QcSetting) (energies QcSetting eps5) (gibbs QcSetting xs5) (Cm QcSetting 5 i) (CXm QcSetting 5 j) (q 7 5))
         (gfree QcSetting eps5 i j (q 7 5))) idx5) idx5 = true.
Proof. vm_compute. reflexivity. Qed.

(** the theorems instantiated at these data (hypotheses discharged by computation where they are decidable) *)
Example free_gf_diag_allM_at_eps5 : forall i j, (i < 5)%nat -> (j < 5)%nat ->
  gf Qc (FNum QcSetting) (energies QcSetting eps5) (gibbs QcSetting xs5) (Cm QcSetting 5 i) (CXm QcSetting 5 j) (q 7 5) =
  gfree QcSetting eps5 i j (q 7 5).
Proof.
  intros i j Hi Hj. apply (free_gf_diag_allM QcSetting eps5 xs5); try assumption; try reflexivity.
  - intros x Hx H. apply Qisz_spec in H. cbn [In xs5] in Hx.
    repeat (destruct Hx as [Hx|Hx]; [subst x; vm_compute in H; discriminate|]). contradiction.
  - intros _ H. apply Qisz_spec in H.
    do 5 (destruct i as [|i]; [vm_compute in H; discriminate|]). lia.
Qed.
