(** Proofs for C13 (2PGF container honours the exchange symmetries regardless of request history).

    Layer 1: characterisation of the translator-generated tables (PVgen.Gen_Container4): complete finite checks
             by [vm_compute], and [alias_denotes] under the two exchange symmetries.
    Layer 2: map / element-store lemmas, invariants of the state machine, the refinement theorems by induction
             over the history.  Layer 2 uses the tables only through [tables_ok] and [set_inserts_nontrivial = true]. *)
Require Import ZArith Bool List Arith Lia ZifyBool.
Import ListNotations.
From PVgen Require Import Gen_Container4.
From PV Require Import Container4 Container4Spec.
Local Open Scope Z_scope.

(** * Keys *)

Lemma quad_eqb_eq (a b : quad) : quad_eqb a b = true <-> a = b.
Proof.
  destruct a as [[[a1 a2] a3] a4], b as [[[b1 b2] b3] b4]. unfold quad_eqb.
  rewrite !andb_true_iff, !Nat.eqb_eq. split.
  - intros [[[H1 H2] H3] H4]. congruence.
  - intros H. inversion H. auto.
Qed.

Lemma quad_eqb_refl (a : quad) : quad_eqb a a = true.
Proof. apply quad_eqb_eq. reflexivity. Qed.

Lemma quad_eqb_neq (a b : quad) : quad_eqb a b = false <-> a <> b.
Proof.
  split.
  - intros E H. apply quad_eqb_eq in H. congruence.
  - intros H. destruct (quad_eqb a b) eqn:E; [|reflexivity]. apply quad_eqb_eq in E. contradiction.
Qed.

Lemma quad_eqb_sym (a b : quad) : quad_eqb a b = quad_eqb b a.
Proof.
  destruct (quad_eqb a b) eqn:E.
  - apply quad_eqb_eq in E. subst. symmetry. apply quad_eqb_refl.
  - apply quad_eqb_neq in E. symmetry. apply quad_eqb_neq. congruence.
Qed.

(** * Maps *)

Section Maps.
  Context {A : Type}.

  Lemma qfind_qins_same (k : quad) (v : A) (m : qmap A) :
    qfind k m = None -> qfind k (qins k v m) = Some v.
  Proof.
    induction m as [|[k' v'] r IH]; cbn [qfind qins]; intros H.
    - rewrite quad_eqb_refl. reflexivity.
    - destruct (quad_eqb k k') eqn:E; [discriminate H|].
      destruct (quad_ltb k' k); cbn [qfind].
      + rewrite E. apply IH. exact H.
      + rewrite quad_eqb_refl. reflexivity.
  Qed.

  Lemma qfind_qins_other (k k' : quad) (v : A) (m : qmap A) :
    k' <> k -> qfind k' (qins k v m) = qfind k' m.
  Proof.
    intros N. apply quad_eqb_neq in N.
    induction m as [|[k2 v2] r IH]; cbn [qfind qins].
    - rewrite N. reflexivity.
    - destruct (quad_ltb k2 k); cbn [qfind].
      + rewrite IH. reflexivity.
      + rewrite N. reflexivity.
  Qed.

  (** std::map::insert: existing entries win, otherwise the new key is found with the new value *)
  Lemma qfind_qinsert (k k' : quad) (v : A) (m : qmap A) :
    qfind k' (qinsert k v m) =
    match qfind k' m with
    | Some x => Some x
    | None => if quad_eqb k' k then Some v else None
    end.
  Proof.
    unfold qinsert. destruct (qfind k m) eqn:Ek.
    - destruct (qfind k' m) eqn:Ek'; [reflexivity|].
      destruct (quad_eqb k' k) eqn:E; [|reflexivity].
      apply quad_eqb_eq in E. subst k'. congruence.
    - destruct (quad_eqb k' k) eqn:E.
      + apply quad_eqb_eq in E. subst k'. rewrite Ek. apply qfind_qins_same. exact Ek.
      + apply quad_eqb_neq in E. rewrite qfind_qins_other by exact E.
        destruct (qfind k' m); reflexivity.
  Qed.

  Lemma qfind_In (k : quad) (v : A) (m : qmap A) : qfind k m = Some v -> In (k, v) m.
  Proof.
    induction m as [|[k' v'] r IH]; cbn [qfind]; intros H; [discriminate H|].
    destruct (quad_eqb k k') eqn:E.
    - apply quad_eqb_eq in E. subst k'. inversion H. left. reflexivity.
    - right. apply IH. exact H.
  Qed.

  Lemma In_qfind (k : quad) (v : A) (m : qmap A) : In (k, v) m -> exists v', qfind k m = Some v'.
  Proof.
    induction m as [|[k' v'] r IH]; cbn [qfind In]; intros H; [contradiction|].
    destruct (quad_eqb k k') eqn:E; [eexists; reflexivity|].
    destruct H as [H|H].
    - inversion H. subst. rewrite quad_eqb_refl in E. discriminate E.
    - apply IH. exact H.
  Qed.

  (** re-labelling the values by a function of the key keeps the keys *)
  Lemma qfind_map_key {B : Type} (F : quad -> B) (m : qmap A) (q : quad) :
    qfind q (map (fun kv => (fst kv, F (fst kv))) m) =
    match qfind q m with Some _ => Some (F q) | None => None end.
  Proof.
    induction m as [|[k v] r IH]; cbn [qfind map fst]; [reflexivity|].
    destruct (quad_eqb q k) eqn:E.
    - apply quad_eqb_eq in E. subst k. reflexivity.
    - exact IH.
  Qed.
End Maps.
