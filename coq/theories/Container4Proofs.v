(** Proofs for C13 (2PGF container honours the exchange symmetries regardless of request history).

    Layer 1: characterisation of the translator-generated tables (PVgen.Gen_Container4): complete finite checks
             by [vm_compute], and [alias_denotes] under the two exchange symmetries.
    Layer 2: map / element-store lemmas, invariants of the state machine, the refinement theorems by induction
             over the history.  Layer 2 uses the tables only through [tables_ok] and [set_inserts_nontrivial = true]. *)
Require Import ZArith Bool List Arith Lia ZifyBool.
Import ListNotations.
From PVgen Require Import Gen_Container4.
From PV Require Import Container4 Container4Spec.
Local Open Scope Z_scope.

(** * Keys *)

Lemma quad_eqb_eq (a b : quad) : quad_eqb a b = true <-> a = b.
Proof.
  destruct a as [[[a1 a2] a3] a4], b as [[[b1 b2] b3] b4]. unfold quad_eqb.
  rewrite !andb_true_iff, !Nat.eqb_eq. split.
  - intros [[[H1 H2] H3] H4]. congruence.
  - intros H. inversion H. auto.
Qed.

Lemma quad_eqb_refl (a : quad) : quad_eqb a a = true.
Proof. apply quad_eqb_eq. reflexivity. Qed.

Lemma quad_eqb_neq (a b : quad) : quad_eqb a b = false <-> a <> b.
Proof.
  split.
  - intros E H. apply quad_eqb_eq in H. congruence.
  - intros H. destruct (quad_eqb a b) eqn:E; [|reflexivity]. apply quad_eqb_eq in E. contradiction.
Qed.

Lemma quad_eqb_sym (a b : quad) : quad_eqb a b = quad_eqb b a.
Proof.
  destruct (quad_eqb a b) eqn:E.
  - apply quad_eqb_eq in E. subst. symmetry. apply quad_eqb_refl.
  - apply quad_eqb_neq in E. symmetry. apply quad_eqb_neq. congruence.
Qed.

(** * Maps *)

Section Maps.
  Context {A : Type}.

  Lemma qfind_qins_same (k : quad) (v : A) (m : qmap A) :
    qfind k m = None -> qfind k (qins k v m) = Some v.
  Proof.
    induction m as [|[k' v'] r IH]; cbn [qfind qins]; intros H.
    - rewrite quad_eqb_refl. reflexivity.
    - destruct (quad_eqb k k') eqn:E; [discriminate H|].
      destruct (quad_ltb k' k); cbn [qfind].
      + rewrite E. apply IH. exact H.
      + rewrite quad_eqb_refl. reflexivity.
  Qed.

  Lemma qfind_qins_other (k k' : quad) (v : A) (m : qmap A) :
    k' <> k -> qfind k' (qins k v m) = qfind k' m.
  Proof.
    intros N. apply quad_eqb_neq in N.
    induction m as [|[k2 v2] r IH]; cbn [qfind qins].
    - rewrite N. reflexivity.
    - destruct (quad_ltb k2 k); cbn [qfind].
      + rewrite IH. reflexivity.
      + rewrite N. reflexivity.
  Qed.

  (** std::map::insert: existing entries win, otherwise the new key is found with the new value *)
  Lemma qfind_qinsert (k k' : quad) (v : A) (m : qmap A) :
    qfind k' (qinsert k v m) =
    match qfind k' m with
    | Some x => Some x
    | None => if quad_eqb k' k then Some v else None
    end.
  Proof.
    unfold qinsert. destruct (qfind k m) eqn:Ek.
    - destruct (qfind k' m) eqn:Ek'; [reflexivity|].
      destruct (quad_eqb k' k) eqn:E; [|reflexivity].
      apply quad_eqb_eq in E. subst k'. congruence.
    - destruct (quad_eqb k' k) eqn:E.
      + apply quad_eqb_eq in E. subst k'. rewrite Ek. apply qfind_qins_same. exact Ek.
      + apply quad_eqb_neq in E. rewrite qfind_qins_other by exact E.
        destruct (qfind k' m); reflexivity.
  Qed.

  Lemma qfind_In (k : quad) (v : A) (m : qmap A) : qfind k m = Some v -> In (k, v) m.
  Proof.
    induction m as [|[k' v'] r IH]; cbn [qfind]; intros H; [discriminate H|].
    destruct (quad_eqb k k') eqn:E.
    - apply quad_eqb_eq in E. subst k'. inversion H. left. reflexivity.
    - right. apply IH. exact H.
  Qed.

  Lemma In_qfind (k : quad) (v : A) (m : qmap A) : In (k, v) m -> exists v', qfind k m = Some v'.
  Proof.
    induction m as [|[k' v'] r IH]; cbn [qfind In]; intros H; [contradiction|].
    destruct (quad_eqb k k') eqn:E; [eexists; reflexivity|].
    destruct H as [H|H].
    - inversion H. subst. rewrite quad_eqb_refl in E. discriminate E.
    - apply IH. exact H.
  Qed.

  (** re-labelling the values by a function of the key keeps the keys *)
  Lemma qfind_map_key {B : Type} (F : quad -> B) (m : qmap A) (q : quad) :
    qfind q (map (fun kv => (fst kv, F (fst kv))) m) =
    match qfind q m with Some _ => Some (F q) | None => None end.
  Proof.
    induction m as [|[k v] r IH]; cbn [qfind map fst]; [reflexivity|].
    destruct (quad_eqb q k) eqn:E.
    - apply quad_eqb_eq in E. subst k. reflexivity.
    - exact IH.
  Qed.
End Maps.

(** * Status order *)

Lemma status_leb_refl (s : status) : status_leb s s = true.
Proof. destruct s; reflexivity. Qed.

Lemma status_leb_trans (a b c : status) :
  status_leb a b = true -> status_leb b c = true -> status_leb a c = true.
Proof. destruct a, b, c; cbn; congruence. Qed.

Lemma status_leb_Computed (s : status) : status_leb Computed s = true -> s = Computed.
Proof. destruct s; cbn; congruence. Qed.

Lemma smax_ge_l (a b : status) : status_leb a (smax a b) = true.
Proof. destruct a, b; reflexivity. Qed.

Lemma smax_ge_r (a b : status) : status_leb b (smax a b) = true.
Proof. destruct a, b; reflexivity. Qed.

Lemma smax_lub (a b c : status) :
  status_leb a c = true -> status_leb b c = true -> status_leb (smax a b) c = true.
Proof. destruct a, b, c; cbn; congruence. Qed.

(** * Element store *)

Lemma upd_length {A : Type} (i : nat) (x : A) (l : list A) : length (upd i x l) = length l.
Proof.
  revert i. induction l as [|y r IH]; intros i; [destruct i; reflexivity|].
  destruct i; cbn [upd length]; [reflexivity|]. rewrite IH. reflexivity.
Qed.

Lemma nth_error_upd_same {A : Type} (i : nat) (x : A) (l : list A) :
  (i < length l)%nat -> nth_error (upd i x l) i = Some x.
Proof.
  revert i. induction l as [|y r IH]; intros i H; cbn [length] in H; [lia|].
  destruct i; cbn [upd nth_error]; [reflexivity|]. apply IH. lia.
Qed.

Lemma nth_error_upd_other {A : Type} (i j : nat) (x : A) (l : list A) :
  i <> j -> nth_error (upd i x l) j = nth_error l j.
Proof.
  revert i j. induction l as [|y r IH]; intros i j H; [destruct i; reflexivity|].
  destruct i, j; cbn [upd nth_error]; try reflexivity; [congruence|]. apply IH. congruence.
Qed.

(** statuses only grow, indices of elements never change *)
Definition store_le (el el' : estore) : Prop :=
  length el = length el' /\
  forall e q s, nth_error el e = Some (q, s) ->
                exists s', nth_error el' e = Some (q, s') /\ status_leb s s' = true.

Lemma store_le_refl (el : estore) : store_le el el.
Proof.
  split; [reflexivity|]. intros e q s H. exists s. split; [exact H|apply status_leb_refl].
Qed.

Lemma store_le_trans (a b c : estore) : store_le a b -> store_le b c -> store_le a c.
Proof.
  intros [L1 H1] [L2 H2]. split; [congruence|].
  intros e q s H. destruct (H1 e q s H) as [s1 [E1 O1]]. destruct (H2 e q s1 E1) as [s2 [E2 O2]].
  exists s2. split; [exact E2|]. eapply status_leb_trans; eassumption.
Qed.

Lemma store_le_upd (el : estore) (e : nat) (q : quad) (s s' : status) :
  nth_error el e = Some (q, s) -> status_leb s s' = true -> store_le el (upd e (q, s') el).
Proof.
  intros H O. split; [symmetry; apply upd_length|].
  intros e' q' s0 H'. destruct (Nat.eq_dec e e') as [E|N].
  - subst e'. rewrite H in H'. inversion H'. subst q' s0. exists s'. split; [|exact O].
    apply nth_error_upd_same. apply nth_error_Some. congruence.
  - exists s0. split; [|apply status_leb_refl]. rewrite nth_error_upd_other by exact N. exact H'.
Qed.

Lemma prepare_elem_le (e : nat) (el el' : estore) (o : cout) :
  prepare_elem e el = (el', o) -> store_le el el'.
Proof.
  unfold prepare_elem. destruct (nth_error el e) as [[q s]|] eqn:E.
  - destruct s; intros H; inversion H; subst; try apply store_le_refl.
    eapply store_le_upd; [exact E|reflexivity].
  - intros H. inversion H. apply store_le_refl.
Qed.

Lemma compute_elem_le (e : nat) (el el' : estore) (o : cout) :
  compute_elem e el = (el', o) -> store_le el el'.
Proof.
  unfold compute_elem. destruct (nth_error el e) as [[q s]|] eqn:E.
  - destruct s; intros H; inversion H; subst; try apply store_le_refl.
    eapply store_le_upd; [exact E|reflexivity].
  - intros H. inversion H. apply store_le_refl.
Qed.

Lemma run_seq_le (f : nat -> estore -> estore * cout) :
  (forall e el el' o, f e el = (el', o) -> store_le el el') ->
  forall ids el el' o, run_seq f ids el = (el', o) -> store_le el el'.
Proof.
  intros Hf. induction ids as [|e r IH]; intros el el' o H; cbn [run_seq] in H.
  - inversion H. apply store_le_refl.
  - destruct (f e el) as [el1 o1] eqn:E. pose proof (Hf _ _ _ _ E) as L1.
    destruct o1; try (inversion H; subst; exact L1).
    eapply store_le_trans; [exact L1|]. eapply IH. exact H.
Qed.

(** prepare() over a list of existing elements never throws and leaves every one of them at least Prepared *)
Lemma run_seq_prepare (ids : list nat) :
  forall el el' o,
  run_seq prepare_elem ids el = (el', o) ->
  (forall e, In e ids -> (e < length el)%nat) ->
  o = OUnit /\
  forall e, In e ids -> exists q s, nth_error el' e = Some (q, s) /\ status_leb Prepared s = true.
Proof.
  induction ids as [|e r IH]; intros el el' o H V; cbn [run_seq] in H.
  - inversion H. split; [reflexivity|]. intros e [].
  - destruct (prepare_elem e el) as [el1 o1] eqn:E.
    pose proof (prepare_elem_le _ _ _ _ E) as L1.
    assert (Ve : (e < length el)%nat) by (apply V; left; reflexivity).
    assert (P1 : o1 = OUnit /\ exists q s, nth_error el1 e = Some (q, s) /\ status_leb Prepared s = true).
    { unfold prepare_elem in E. destruct (nth_error el e) as [[q s]|] eqn:En.
      - destruct s; inversion E; subst; (split; [reflexivity|]).
        + exists q, Prepared. split; [|reflexivity]. apply nth_error_upd_same. exact Ve.
        + exists q, Prepared. split; [exact En|reflexivity].
        + exists q, Computed. split; [exact En|reflexivity].
      - apply nth_error_None in En. lia. }
    destruct P1 as [-> [q [s [En O]]]].
    assert (V1 : forall e', In e' r -> (e' < length el1)%nat).
    { intros e' I. destruct L1 as [Len _]. rewrite <- Len. apply V. right. exact I. }
    destruct (IH _ _ _ H V1) as [-> Hall]. split; [reflexivity|].
    intros e' [<-|I]; [|apply Hall; exact I].
    pose proof (run_seq_le _ prepare_elem_le _ _ _ _ H) as [_ L2].
    destruct (L2 _ _ _ En) as [s2 [En2 O2]]. exists q, s2. split; [exact En2|].
    eapply status_leb_trans; eassumption.
Qed.

(** a bulk compute that returns normally leaves every element it went through Computed *)
Lemma run_seq_compute_unit (ids : list nat) :
  forall el el',
  run_seq compute_elem ids el = (el', OUnit) ->
  forall e, In e ids -> exists q, nth_error el' e = Some (q, Computed).
Proof.
  induction ids as [|e r IH]; intros el el' H e' I; [destruct I|].
  cbn [run_seq] in H. destruct (compute_elem e el) as [el1 o1] eqn:E.
  destruct o1; try discriminate H.
  destruct I as [<-|I]; [|eapply IH; eassumption].
  assert (P1 : exists q, nth_error el1 e = Some (q, Computed)).
  { unfold compute_elem in E. destruct (nth_error el e) as [[q s]|] eqn:En; [|discriminate E].
    destruct s; inversion E; subst.
    - exists q. apply nth_error_upd_same. apply nth_error_Some. congruence.
    - exists q. exact En. }
  destruct P1 as [q En]. pose proof (run_seq_le _ compute_elem_le _ _ _ _ H) as [_ L2].
  destruct (L2 _ _ _ En) as [s2 [En2 O2]]. apply status_leb_Computed in O2. subst s2. exists q. exact En2.
Qed.

(** a bulk compute over elements that are all at least Prepared does not throw *)
Lemma run_seq_compute_ok (ids : list nat) :
  forall el,
  (forall e, In e ids -> exists q s, nth_error el e = Some (q, s) /\ status_leb Prepared s = true) ->
  snd (run_seq compute_elem ids el) = OUnit.
Proof.
  induction ids as [|e r IH]; intros el H; [reflexivity|].
  cbn [run_seq]. destruct (compute_elem e el) as [el1 o1] eqn:E.
  pose proof (compute_elem_le _ _ _ _ E) as [_ L1].
  assert (o1 = OUnit) as ->.
  { destruct (H e (or_introl eq_refl)) as [q [s [En O]]]. unfold compute_elem in E. rewrite En in E.
    destruct s; inversion E; try reflexivity. discriminate O. }
  apply IH. intros e' I. destruct (H e' (or_intror I)) as [q [s [En O]]].
  destruct (L1 _ _ _ En) as [s1 [En1 O1]]. exists q, s1. split; [exact En1|].
  eapply status_leb_trans; eassumption.
Qed.

(** the only exceptions of the element operations; Dangling needs a missing element *)
Lemma run_seq_not_dangling (f : nat -> estore -> estore * cout) :
  (forall e el el' o, f e el = (el', o) -> store_le el el') ->
  (forall e el, (e < length el)%nat -> snd (f e el) <> OThrows Dangling) ->
  forall ids el, (forall e, In e ids -> (e < length el)%nat) ->
  snd (run_seq f ids el) <> OThrows Dangling.
Proof.
  intros Hle Hf. induction ids as [|e r IH]; intros el V; cbn [run_seq]; [discriminate|].
  destruct (f e el) as [el1 o1] eqn:E.
  pose proof (Hf e el (V e (or_introl eq_refl))) as N. rewrite E in N. cbn [snd] in N.
  destruct (Hle _ _ _ _ E) as [Len _].
  destruct o1; cbn [snd]; try exact N.
  apply IH. intros e' I. rewrite <- Len. apply V. right. exact I.
Qed.

Lemma prepare_elem_not_dangling (e : nat) (el : estore) :
  (e < length el)%nat -> snd (prepare_elem e el) <> OThrows Dangling.
Proof.
  intros H. unfold prepare_elem. destruct (nth_error el e) as [[q s]|] eqn:E.
  - destruct s; discriminate.
  - apply nth_error_None in E. lia.
Qed.

Lemma compute_elem_not_dangling (e : nat) (el : estore) :
  (e < length el)%nat -> snd (compute_elem e el) <> OThrows Dangling.
Proof.
  intros H. unfold compute_elem. destruct (nth_error el e) as [[q s]|] eqn:E.
  - destruct s; discriminate.
  - apply nth_error_None in E. lia.
Qed.

(** * Layer 1: the generated tables *)

Lemma nodupb_sound (l : list (nat * nat * nat * nat)) : nodupb l = true -> NoDup l.
Proof.
  induction l as [|a r IH]; cbn [nodupb]; intros H; [constructor|].
  apply andb_true_iff in H. destruct H as [H1 H2]. constructor; [|apply IH; exact H2].
  intros I. apply negb_true_iff in H1.
  assert (E : existsb (quad_eqb a) r = true).
  { apply existsb_exists. exists a. split; [exact I|apply quad_eqb_refl]. }
  congruence.
Qed.

(** an entry is a permutation of 0..3 carrying the sign of its parity *)
Definition perm_ok (p : perm4) : Prop :=
  quad_in_range (fst p) = true /\ quad_distinct (fst p) = true /\ snd p = parity_sign (fst p).

(** permutations4 (src/pomerol/Misc.cpp) consists of 24 distinct permutations of 0..3, each with the sign of its
    parity: a complete finite check over the generated table. *)
Theorem perm_table_correct :
  length permutations4 = 24%nat /\ permutations4_declared_size = 24%nat /\
  NoDup (map fst permutations4) /\ Forall perm_ok permutations4.
Proof.
  split; [vm_compute; reflexivity|]. split; [vm_compute; reflexivity|]. split.
  - apply nodupb_sound. vm_compute. reflexivity.
  - unfold permutations4. repeat (apply Forall_cons; [repeat split; vm_compute; reflexivity|]). apply Forall_nil.
Qed.

(** hence it lists every permutation of 0..3 *)
Theorem perm_table_complete : forall p : nat * nat * nat * nat,
  quad_in_range p = true -> quad_distinct p = true -> In p (map fst permutations4).
Proof.
  intros p R D.
  assert (E : existsb (quad_eqb p) (map fst permutations4) = true).
  { destruct p as [[[a b] c] d]. unfold quad_in_range in R.
    rewrite !andb_true_iff, !Nat.ltb_lt in R. destruct R as [[[Ra Rb] Rc] Rd].
    destruct a as [|[|[|[|a]]]]; try lia; destruct b as [|[|[|[|b]]]]; try lia;
      destruct c as [|[|[|[|c]]]]; try lia; destruct d as [|[|[|[|d]]]]; try lia;
        try (vm_compute in D; discriminate D); vm_compute; reflexivity. }
  apply existsb_exists in E. destruct E as [x [I Ex]]. apply quad_eqb_eq in Ex. subst x. exact I.
Qed.

(** every index into permutations4 used by IndexContainer4::set is inside the table, the frequency array has
    four entries and the argument slots are perm[0], perm[1], perm[2]: no read past an array in perm_eval *)
Theorem table_reads_in_bounds :
  (set_owner_perm_index < length permutations4)%nat /\
  Forall (fun a => (snd a < length permutations4)%nat) set_aliases /\
  (forall n1 n2 n3, length (freq_array n1 n2 n3) = 4%nat) /\
  Forall (fun k => (k < 4)%nat) eval_arg_slots /\ length eval_arg_slots = 3%nat.
Proof.
  split; [vm_compute; lia|]. split.
  - unfold set_aliases. repeat (apply Forall_cons; [vm_compute; lia|]). apply Forall_nil.
  - split; [intros; reflexivity|]. split; [|reflexivity].
    unfold eval_arg_slots. repeat (apply Forall_cons; [lia|]). apply Forall_nil.
Qed.

Section Tables.
  Variable V : Type.
  Variable vneg : V -> V.
  Variable vscale : Z -> V -> V.
  Variable chi : quad -> triple -> V.

  (** what layer 2 needs to know about the tables: the entry made for the owner returns chi of the owner's key,
      every alias entry returns chi of the alias key *)
  Definition tables_ok : Prop :=
    (forall q, entry_denotes V vscale chi (perm_at set_owner_perm_index) q q) /\
    (forall req pos idx, In (req, pos, idx) set_aliases ->
       forall q, alias_cond q req = true ->
                 entry_denotes V vscale chi (perm_at idx) q (alias_key q pos)).

  Hypothesis swap12 : swap12_law V vneg chi.
  Hypothesis swap34 : swap34_law V vneg chi.
  Hypothesis invol : neg_invol V vneg.
  Hypothesis scale : scale_law V vneg vscale.

  (** The alias table of IndexContainer4::set, with ElementWithPermFreq::operator(), implements
      chi_jikl(w1,w2;w3) = -chi_ijkl(w2,w1;w3), chi_ijlk(w1,w2;w3) = -chi_ijkl(w1,w2;w1+w2-w3) and their composition. *)
  Theorem alias_denotes : tables_ok.
  Proof.
    destruct scale as [S1 Sm]. split.
    - intros [[[i j] k] l] [[n1 n2] n3].
      cbv - [Z.add Z.sub Z.opp]. apply S1.
    - intros req pos idx I [[[i j] k] l] C [[n1 n2] n3].
      unfold set_aliases in I. cbn [In] in I.
      destruct I as [I|[I|[I|[]]]]; inversion I; subst req pos idx; clear I C;
        cbv - [Z.add Z.sub Z.opp].
      + rewrite Sm. symmetry. apply swap12.
      + rewrite Sm. symmetry. apply swap34.
      + rewrite S1. rewrite (swap12 i j l k n1 n2 n3). rewrite (swap34 i j k l n2 n1 n3). rewrite invol.
        replace (n2 + n1 - n3) with (n1 + n2 - n3) by lia. reflexivity.
  Qed.
End Tables.

(** the hypotheses of [alias_denotes] are satisfiable by a chi that depends on all indices and all frequencies *)
Example chi_example : exists (chi : quad -> triple -> Z),
  swap12_law Z Z.opp chi /\ swap34_law Z Z.opp chi /\ neg_invol Z Z.opp /\ scale_law Z Z.opp Z.mul /\
  chi (0, 1, 0, 1)%nat (1, 2, 3) <> chi (0, 1, 0, 1)%nat (2, 1, 3).
Proof.
  exists (fun q n =>
            let '(i, j, k, l) := q in let '(w1, w2, w3) := n in
            (Z.of_nat i * w2 - Z.of_nat j * w1) * (Z.of_nat k * (w1 + w2 - w3) - Z.of_nat l * w3)).
  split; [|split; [|split; [|split; [split|]]]].
  - intros i j k l w1 w2 w3. cbn beta iota. ring.
  - intros i j k l w1 w2 w3. cbn beta iota. ring.
  - intros v. apply Z.opp_involutive.
  - intros v. destruct v; reflexivity.
  - intros v. destruct v; reflexivity.
  - vm_compute. discriminate.
Qed.

(** * Unique keys *)

Section Keys.
  Context {A : Type}.

  Lemma qfind_None_notin (k : quad) (m : qmap A) : qfind k m = None <-> ~ In k (qkeys m).
  Proof.
    induction m as [|[k' v'] r IH]; cbn [qfind qkeys map fst In].
    - split; [intros _ []|reflexivity].
    - destruct (quad_eqb k k') eqn:E.
      + apply quad_eqb_eq in E. subst k'. split; [discriminate|]. intros N. exfalso. apply N. left. reflexivity.
      + apply quad_eqb_neq in E. rewrite IH. unfold qkeys. split.
        * intros N [H|H]; [congruence|contradiction].
        * intros N H. apply N. right. exact H.
  Qed.

  Lemma In_qkeys_qins (k k' : quad) (v : A) (m : qmap A) :
    In k' (qkeys (qins k v m)) <-> k' = k \/ In k' (qkeys m).
  Proof.
    induction m as [|[k2 v2] r IH]; cbn [qins qkeys map fst In].
    - split; [intros [H|[]]; left; congruence|intros [H|[]]; left; congruence].
    - destruct (quad_ltb k2 k); cbn [qkeys map fst In].
      + unfold qkeys in IH. rewrite IH. tauto.
      + split; [intros [H|H]; [left; congruence|right; exact H]|intros [H|H]; [left; congruence|right; exact H]].
  Qed.

  Lemma NoDup_qins (k : quad) (v : A) (m : qmap A) :
    NoDup (qkeys m) -> ~ In k (qkeys m) -> NoDup (qkeys (qins k v m)).
  Proof.
    induction m as [|[k2 v2] r IH]; cbn [qins qkeys map fst]; intros N I.
    - constructor; [intros []|constructor].
    - destruct (quad_ltb k2 k); cbn [qkeys map fst].
      + inversion N as [|x l N1 N2]. subst. constructor.
        * intros H. apply (In_qkeys_qins k k2 v r) in H. destruct H as [H|H]; [|contradiction].
          apply I. left. exact H.
        * apply IH; [exact N2|]. intros H. apply I. right. exact H.
      + constructor; [exact I|exact N].
  Qed.

  Lemma NoDup_qinsert (k : quad) (v : A) (m : qmap A) : NoDup (qkeys m) -> NoDup (qkeys (qinsert k v m)).
  Proof.
    intros N. unfold qinsert. destruct (qfind k m) eqn:F; [exact N|].
    apply NoDup_qins; [exact N|]. apply qfind_None_notin. exact F.
  Qed.

  Lemma NoDup_In_qfind (k : quad) (v : A) (m : qmap A) : NoDup (qkeys m) -> In (k, v) m -> qfind k m = Some v.
  Proof.
    induction m as [|[k' v'] r IH]; cbn [qfind qkeys map fst In]; intros N I; [contradiction|].
    inversion N as [|x l N1 N2]. subst. destruct I as [I|I].
    - inversion I. subst. rewrite quad_eqb_refl. reflexivity.
    - destruct (quad_eqb k k') eqn:E.
      + apply quad_eqb_eq in E. subst k'. exfalso. apply N1. change k with (fst (k, v)). apply in_map. exact I.
      + apply IH; assumption.
  Qed.
End Keys.

(** * Layer 2: IndexContainer4::set *)

Lemma set_inserts_nontrivial_true : set_inserts_nontrivial = true.
Proof. reflexivity. Qed.

Lemma qfind_add_alias (q : quad) (e : nat) (em : qmap (nat * perm4))
      (a : list (nat * nat) * (nat * nat * nat * nat) * nat) (k : quad) :
  qfind k (add_alias q e em a) =
  match qfind k em with
  | Some x => Some x
  | None => if alias_cond q (fst (fst a)) && quad_eqb k (alias_key q (snd (fst a)))
            then Some (e, perm_at (snd a)) else None
  end.
Proof.
  destruct a as [[req pos] idx]. cbn [fst snd]. unfold add_alias.
  destruct (alias_cond q req) eqn:C; cbn [andb].
  - destruct (qfind (alias_key q pos) em) eqn:F.
    + destruct (qfind k em) eqn:Fk; [reflexivity|].
      destruct (quad_eqb k (alias_key q pos)) eqn:E; [|reflexivity].
      apply quad_eqb_eq in E. subst k. congruence.
    + rewrite qfind_qinsert. reflexivity.
  - destruct (qfind k em); reflexivity.
Qed.

Lemma fold_alias_mono (q : quad) (e : nat) (al : list (list (nat * nat) * (nat * nat * nat * nat) * nat)) :
  forall em k x, qfind k em = Some x -> qfind k (fold_left (add_alias q e) al em) = Some x.
Proof.
  induction al as [|a r IH]; intros em k x H; cbn [fold_left]; [exact H|].
  apply IH. rewrite qfind_add_alias, H. reflexivity.
Qed.

Lemma fold_alias_new (q : quad) (e : nat) (al : list (list (nat * nat) * (nat * nat * nat * nat) * nat)) :
  forall em k r, qfind k (fold_left (add_alias q e) al em) = Some r ->
  qfind k em = Some r \/
  (qfind k em = None /\ fst r = e /\
   exists req pos idx, In (req, pos, idx) al /\ alias_cond q req = true /\ k = alias_key q pos /\ snd r = perm_at idx).
Proof.
  induction al as [|a rest IH]; intros em k r H; cbn [fold_left] in H; [left; exact H|].
  destruct (IH _ _ _ H) as [H1|[H1 [He [req [pos [idx [I [C [Ek Ep]]]]]]]]].
  - rewrite qfind_add_alias in H1. destruct (qfind k em) eqn:F; [left; exact H1|]. right.
    destruct a as [[req pos] idx]. cbn [fst snd] in H1.
    destruct (alias_cond q req && quad_eqb k (alias_key q pos)) eqn:B; [|discriminate H1].
    apply andb_true_iff in B. destruct B as [C E]. apply quad_eqb_eq in E. inversion H1. subst r.
    split; [reflexivity|]. split; [reflexivity|]. exists req, pos, idx.
    split; [left; reflexivity|]. split; [exact C|]. split; [exact E|reflexivity].
  - right. rewrite qfind_add_alias in H1. destruct (qfind k em) eqn:F; [discriminate H1|].
    split; [reflexivity|]. split; [exact He|]. exists req, pos, idx.
    split; [right; exact I|]. split; [exact C|]. split; [exact Ek|exact Ep].
Qed.

(** the entries [set q] creates for its new element: the owner, or one of the table's aliases *)
Definition new_entry (q k : quad) (p : perm4) : Prop :=
  (k = q /\ p = perm_at set_owner_perm_index) \/
  exists req pos idx, In (req, pos, idx) set_aliases /\ alias_cond q req = true /\ k = alias_key q pos /\ p = perm_at idx.

Lemma set_elems (st : cstate) (q : quad) : elems (fst (set_ st q)) = elems st ++ [(q, Constructed)].
Proof. reflexivity. Qed.

Lemma set_nontriv (st : cstate) (q : quad) :
  nontriv (fst (set_ st q)) = qinsert q (length (elems st)) (nontriv st).
Proof. unfold set_. cbn [fst nontriv]. rewrite set_inserts_nontrivial_true. reflexivity. Qed.

Lemma set_emap_mono (st : cstate) (q k : quad) (x : nat * perm4) :
  qfind k (emap st) = Some x -> qfind k (emap (fst (set_ st q))) = Some x.
Proof.
  intros H. unfold set_. cbn [fst emap]. apply fold_alias_mono. rewrite qfind_qinsert, H. reflexivity.
Qed.

Lemma set_emap_new (st : cstate) (q k : quad) (r : nat * perm4) :
  qfind k (emap (fst (set_ st q))) = Some r ->
  qfind k (emap st) = Some r \/
  (qfind k (emap st) = None /\ fst r = length (elems st) /\ new_entry q k (snd r)).
Proof.
  unfold set_. cbn [fst emap]. intros H.
  destruct (fold_alias_new _ _ _ _ _ _ H) as [H1|[H1 [He [req [pos [idx [I [C [Ek Ep]]]]]]]]].
  - rewrite qfind_qinsert in H1. destruct (qfind k (emap st)) eqn:F; [left; exact H1|]. right.
    destruct (quad_eqb k q) eqn:E; [|discriminate H1]. apply quad_eqb_eq in E. inversion H1. subst r k.
    split; [reflexivity|]. split; [reflexivity|]. left. split; reflexivity.
  - right. rewrite qfind_qinsert in H1. destruct (qfind k (emap st)) eqn:F; [discriminate H1|].
    split; [reflexivity|]. split; [exact He|]. right. exists req, pos, idx.
    split; [exact I|]. split; [exact C|]. split; [exact Ek|exact Ep].
Qed.

Lemma set_emap_self (st : cstate) (q : quad) :
  qfind q (emap st) = None ->
  qfind q (emap (fst (set_ st q))) = Some (length (elems st), perm_at set_owner_perm_index) /\
  snd (set_ st q) = (length (elems st), perm_at set_owner_perm_index).
Proof.
  intros H. unfold set_. cbn [fst snd emap].
  assert (E : qfind q (qinsert q (length (elems st), perm_at set_owner_perm_index) (emap st)) =
              Some (length (elems st), perm_at set_owner_perm_index)).
  { rewrite qfind_qinsert, H, quad_eqb_refl. reflexivity. }
  split; [apply fold_alias_mono; exact E|]. rewrite E. reflexivity.
Qed.

Lemma nth_error_snoc_old {A : Type} (l : list A) (x : A) (e : nat) (y : A) :
  nth_error l e = Some y -> nth_error (l ++ [x]) e = Some y.
Proof.
  intros H. rewrite nth_error_app1; [exact H|]. apply nth_error_Some. congruence.
Qed.

Lemma nth_error_snoc_new {A : Type} (l : list A) (x : A) : nth_error (l ++ [x]) (length l) = Some x.
Proof. rewrite nth_error_app2 by lia. rewrite Nat.sub_diag. reflexivity. Qed.

(** * Extension of a state: entries and elements stay, statuses grow *)

Definition ext (st st' : cstate) : Prop :=
  (forall k x, qfind k (emap st) = Some x -> qfind k (emap st') = Some x) /\
  (forall e q s, nth_error (elems st) e = Some (q, s) ->
                 exists s', nth_error (elems st') e = Some (q, s') /\ status_leb s s' = true).

Lemma ext_refl (st : cstate) : ext st st.
Proof.
  split; [intros k x H; exact H|]. intros e q s H. exists s. split; [exact H|apply status_leb_refl].
Qed.

Lemma ext_trans (a b c : cstate) : ext a b -> ext b c -> ext a c.
Proof.
  intros [M1 E1] [M2 E2]. split; [intros k x H; apply M2, M1, H|].
  intros e q s H. destruct (E1 _ _ _ H) as [s1 [H1 O1]]. destruct (E2 _ _ _ H1) as [s2 [H2 O2]].
  exists s2. split; [exact H2|]. eapply status_leb_trans; eassumption.
Qed.

Lemma ext_set (st : cstate) (q : quad) : ext st (fst (set_ st q)).
Proof.
  split; [intros k x H; apply set_emap_mono; exact H|].
  intros e q0 s H. exists s. split; [|apply status_leb_refl]. rewrite set_elems. apply nth_error_snoc_old. exact H.
Qed.

Lemma ext_with_elems (st : cstate) (el : estore) : store_le (elems st) el -> ext st (with_elems st el).
Proof. intros [_ L]. split; [intros k x H; exact H|]. exact L. Qed.

(** * Invariants *)

Section Invariants.
  Variable V : Type.
  Variable vscale : Z -> V -> V.
  Variable chi : quad -> triple -> V.
  Hypothesis T : tables_ok V vscale chi.

  (** every entry refers to an existing element and returns chi of its key; every NonTrivialElements entry
      refers to an existing element made for its key.  Holds for both variants of fill. *)
  Definition inv_sound (st : cstate) : Prop :=
    (forall k e p, qfind k (emap st) = Some (e, p) ->
       exists q0 s, nth_error (elems st) e = Some (q0, s) /\ entry_denotes V vscale chi p q0 k) /\
    (forall q0 e, qfind q0 (nontriv st) = Some e -> exists s, nth_error (elems st) e = Some (q0, s)).

  Lemma new_entry_denotes (q k : quad) (p : perm4) : new_entry q k p -> entry_denotes V vscale chi p q k.
  Proof.
    destruct T as [To Ta]. intros [[-> ->]|[req [pos [idx [I [C [-> ->]]]]]]].
    - apply To.
    - eapply Ta; eassumption.
  Qed.

  Lemma inv_sound_init : inv_sound init.
  Proof. split; intros; discriminate. Qed.

  Lemma inv_sound_set (st : cstate) (q : quad) : inv_sound st -> inv_sound (fst (set_ st q)).
  Proof.
    intros [I1 I2]. split.
    - intros k e p H. rewrite set_elems. destruct (set_emap_new _ _ _ _ H) as [H1|[_ [He N]]].
      + destruct (I1 _ _ _ H1) as [q0 [s [En D]]]. exists q0, s. split; [|exact D].
        apply nth_error_snoc_old. exact En.
      + cbn [fst snd] in He, N. subst e. exists q, Constructed. split; [apply nth_error_snoc_new|].
        apply new_entry_denotes. exact N.
    - intros q0 e H. rewrite set_elems. rewrite set_nontriv, qfind_qinsert in H.
      destruct (qfind q0 (nontriv st)) eqn:F.
      + inversion H. subst n. destruct (I2 _ _ F) as [s En]. exists s. apply nth_error_snoc_old. exact En.
      + destruct (quad_eqb q0 q) eqn:E; [|discriminate H]. apply quad_eqb_eq in E. inversion H. subst q0 e.
        exists Constructed. apply nth_error_snoc_new.
  Qed.

  Lemma inv_sound_store (st : cstate) (el : estore) :
    inv_sound st -> store_le (elems st) el -> inv_sound (with_elems st el).
  Proof.
    intros [I1 I2] [_ L]. split.
    - intros k e p H. cbn [with_elems emap] in H. destruct (I1 _ _ _ H) as [q0 [s [En D]]].
      destruct (L _ _ _ En) as [s' [En' _]]. exists q0, s'. split; [exact En'|exact D].
    - intros q0 e H. cbn [with_elems nontriv] in H. destruct (I2 _ _ H) as [s En].
      destruct (L _ _ _ En) as [s' [En' _]]. exists s'. exact En'.
  Qed.

  (** operator(): the state it leaves is sound, extends the old one, and the returned entry is the one stored under q *)
  Lemma lookup_spec (st st1 : cstate) (q : quad) (r : nat * perm4) :
    lookup st q = (st1, r) -> inv_sound st ->
    inv_sound st1 /\ ext st st1 /\ qfind q (emap st1) = Some r.
  Proof.
    unfold lookup. intros H I. destruct (qfind q (emap st)) eqn:F.
    - inversion H. subst st1 r. split; [exact I|]. split; [apply ext_refl|exact F].
    - assert (E1 : st1 = fst (set_ st q)) by (rewrite H; reflexivity).
      assert (E2 : r = snd (set_ st q)) by (rewrite H; reflexivity).
      destruct (set_emap_self _ _ F) as [S1 S2]. subst st1 r.
      split; [apply inv_sound_set; exact I|]. split; [apply ext_set|]. rewrite S2. exact S1.
  Qed.

  Lemma fold_left_inv {S X : Type} (P : S -> Prop) (f : S -> X -> S) :
    (forall s x, P s -> P (f s x)) -> forall l s, P s -> P (fold_left f l s).
  Proof. intros Hf. induction l as [|x r IH]; intros s H; [exact H|]. apply IH, Hf, H. Qed.

  Definition fill_step (st : cstate) (q : quad) : cstate := if isInContainer st q then st else fst (set_ st q).

  Lemma fill_unfold (fixed : bool) (nidx : nat) (st : cstate) (qs : list quad) :
    fill fixed nidx st qs =
    fold_left fill_step (match qs with [] => enumerate nidx | _ => qset_of_list qs end)
              (mkState [] (if fixed then [] else nontriv st) (elems st)).
  Proof. reflexivity. Qed.

  Lemma inv_sound_fill (fixed : bool) (nidx : nat) (st : cstate) (qs : list quad) :
    inv_sound st -> inv_sound (fill fixed nidx st qs).
  Proof.
    intros [I1 I2]. rewrite fill_unfold. apply fold_left_inv.
    - intros s x H. unfold fill_step. destruct (isInContainer s x); [exact H|apply inv_sound_set; exact H].
    - split; [intros k e p H; discriminate H|]. cbn [nontriv elems]. destruct fixed; [intros q0 e H; discriminate H|exact I2].
  Qed.

  (** repaired fill only: both maps describe the same elements *)
  Definition inv_fixed (st : cstate) : Prop :=
    (forall k e p, qfind k (emap st) = Some (e, p) ->
       exists q0 s, nth_error (elems st) e = Some (q0, s) /\ qfind q0 (nontriv st) = Some e) /\
    (forall q0 e, qfind q0 (nontriv st) = Some e -> exists p, qfind q0 (emap st) = Some (e, p)).

  Lemma inv_fixed_init : inv_fixed init.
  Proof. split; intros; discriminate. Qed.

  Lemma inv_fixed_set (st : cstate) (q : quad) :
    qfind q (emap st) = None -> inv_fixed st -> inv_fixed (fst (set_ st q)).
  Proof.
    intros F [I1 I2].
    assert (Fn : qfind q (nontriv st) = None).
    { destruct (qfind q (nontriv st)) eqn:G; [|reflexivity]. destruct (I2 _ _ G) as [p Hp]. congruence. }
    split.
    - intros k e p H. rewrite set_elems, set_nontriv. destruct (set_emap_new _ _ _ _ H) as [H1|[_ [He N]]].
      + destruct (I1 _ _ _ H1) as [q0 [s [En G]]]. exists q0, s. split; [apply nth_error_snoc_old; exact En|].
        rewrite qfind_qinsert, G. reflexivity.
      + cbn [fst] in He. subst e. exists q, Constructed. split; [apply nth_error_snoc_new|].
        rewrite qfind_qinsert, Fn, quad_eqb_refl. reflexivity.
    - intros q0 e H. rewrite set_nontriv, qfind_qinsert in H. destruct (qfind q0 (nontriv st)) eqn:G.
      + inversion H. subst n. destruct (I2 _ _ G) as [p Hp]. exists p. apply set_emap_mono. exact Hp.
      + destruct (quad_eqb q0 q) eqn:E; [|discriminate H]. apply quad_eqb_eq in E. inversion H. subst q0 e.
        exists (perm_at set_owner_perm_index). apply set_emap_self. exact F.
  Qed.

  Lemma inv_fixed_store (st : cstate) (el : estore) :
    inv_fixed st -> store_le (elems st) el -> inv_fixed (with_elems st el).
  Proof.
    intros [I1 I2] [_ L]. split; [|exact I2].
    intros k e p H. cbn [with_elems emap] in H. destruct (I1 _ _ _ H) as [q0 [s [En G]]].
    destruct (L _ _ _ En) as [s' [En' _]]. exists q0, s'. split; [exact En'|exact G].
  Qed.

  Lemma isInContainer_false (st : cstate) (q : quad) : isInContainer st q = false -> qfind q (emap st) = None.
  Proof. unfold isInContainer. destruct (qfind q (emap st)); [discriminate|reflexivity]. Qed.

  Lemma isInContainer_true (st : cstate) (q : quad) :
    isInContainer st q = true <-> exists r, qfind q (emap st) = Some r.
  Proof.
    unfold isInContainer. destruct (qfind q (emap st)) as [r|]; split; intros H; try reflexivity.
    - exists r. reflexivity.
    - discriminate H.
    - destruct H as [r H]. discriminate H.
  Qed.

  Lemma inv_fixed_fill (nidx : nat) (st : cstate) (qs : list quad) : inv_fixed (fill true nidx st qs).
  Proof.
    rewrite fill_unfold. apply fold_left_inv.
    - intros s x H. unfold fill_step. destruct (isInContainer s x) eqn:E; [exact H|].
      apply inv_fixed_set; [apply isInContainer_false; exact E|exact H].
    - split; intros; discriminate.
  Qed.

  Lemma inv_fixed_lookup (st st1 : cstate) (q : quad) (r : nat * perm4) :
    lookup st q = (st1, r) -> inv_fixed st -> inv_fixed st1.
  Proof.
    unfold lookup. intros H I. destruct (qfind q (emap st)) eqn:F.
    - inversion H. subst st1. exact I.
    - assert (E1 : st1 = fst (set_ st q)) by (rewrite H; reflexivity). subst st1.
      apply inv_fixed_set; assumption.
  Qed.

  (** * The caller's view is a lower bound of the real statuses *)

  Definition inv_ghost (st : cstate) (g : gmap) : Prop :=
    forall k s, qfind k g = Some s ->
      exists e p q0 s', qfind k (emap st) = Some (e, p) /\ nth_error (elems st) e = Some (q0, s') /\
                        status_leb s s' = true.

  Lemma qfind_gsync (g : gmap) (st' : cstate) (k : quad) :
    qfind k (gsync g st') =
    match qfind k (emap st') with
    | Some _ => Some (match qfind k g with Some s => s | None => Constructed end)
    | None => None
    end.
  Proof.
    unfold gsync. apply (qfind_map_key (fun q => match qfind q g with Some s => s | None => Constructed end)).
  Qed.

  Lemma qfind_gall (s : status) (g : gmap) (k : quad) :
    qfind k (gall s g) = match qfind k g with Some _ => Some s | None => None end.
  Proof. unfold gall. apply (qfind_map_key (fun _ => s)). Qed.

  Lemma qfind_graise (q : quad) (s : status) (g : gmap) (k : quad) :
    qfind k (graise q s g) =
    match qfind k g with
    | Some v => Some (if quad_eqb k q then smax s v else v)
    | None => None
    end.
  Proof.
    unfold graise. induction g as [|[k0 v0] r IH]; cbn [map qfind fst snd]; [reflexivity|].
    destruct (quad_eqb k0 q) eqn:E0; cbn [qfind fst snd]; destruct (quad_eqb k k0) eqn:E; try exact IH.
    - apply quad_eqb_eq in E. subst k0. rewrite E0. reflexivity.
    - apply quad_eqb_eq in E. subst k0. rewrite E0. reflexivity.
  Qed.

  Lemma ghost_sync (st st' : cstate) (g : gmap) :
    inv_ghost st g -> inv_sound st' -> ext st st' -> inv_ghost st' (gsync g st').
  Proof.
    intros G [I1 _] [M E] k s H. rewrite qfind_gsync in H.
    destruct (qfind k (emap st')) as [[e p]|] eqn:F; [|discriminate H]. inversion H as [Hs]. clear H.
    destruct (I1 _ _ _ F) as [q0 [s' [En _]]].
    destruct (qfind k g) as [s0|] eqn:Fg.
    - destruct (G _ _ Fg) as [e0 [p0 [q00 [s0' [F0 [En0 O0]]]]]].
      apply M in F0. rewrite F in F0. inversion F0. subst e0 p0.
      destruct (E _ _ _ En0) as [s2 [En2 O2]]. rewrite En in En2. inversion En2. subst q00 s2.
      exists e, p, q0, s'. split; [reflexivity|]. split; [exact En|]. eapply status_leb_trans; eassumption.
    - exists e, p, q0, s'. split; [reflexivity|]. split; [exact En|reflexivity].
  Qed.

  Lemma ghost_all (st' : cstate) (g : gmap) (s : status) :
    (forall k e p, qfind k (emap st') = Some (e, p) ->
       exists q0 s', nth_error (elems st') e = Some (q0, s') /\ status_leb s s' = true) ->
    inv_ghost st' (gall s (gsync g st')).
  Proof.
    intros A k s0 H. rewrite qfind_gall, qfind_gsync in H.
    destruct (qfind k (emap st')) as [[e p]|] eqn:F; [|discriminate H]. inversion H. subst s0.
    destruct (A _ _ _ F) as [q0 [s' [En O]]]. exists e, p, q0, s'. split; [reflexivity|]. split; assumption.
  Qed.

  Lemma ghost_raise (st : cstate) (g : gmap) (q : quad) (s : status) :
    inv_ghost st g ->
    (forall e p q0 s', qfind q (emap st) = Some (e, p) -> nth_error (elems st) e = Some (q0, s') ->
                       status_leb s s' = true) ->
    inv_ghost st (graise q s g).
  Proof.
    intros G A k v' H. rewrite qfind_graise in H. destruct (qfind k g) as [v|] eqn:F; [|discriminate H].
    inversion H as [Hv]. clear H. destruct (G _ _ F) as [e [p [q0 [s' [Fe [En O]]]]]].
    exists e, p, q0, s'. split; [exact Fe|]. split; [exact En|].
    destruct (quad_eqb k q) eqn:E; [|exact O]. apply quad_eqb_eq in E. subst k.
    apply smax_lub; [|exact O]. eapply A; eassumption.
  Qed.

  (** * Single operations *)

  Lemma prepare_elem_post (e : nat) (el el' : estore) (o : cout) (q : quad) (s : status) :
    nth_error el e = Some (q, s) -> prepare_elem e el = (el', o) ->
    o = OUnit /\ exists s', nth_error el' e = Some (q, s') /\ status_leb Prepared s' = true.
  Proof.
    intros En H. unfold prepare_elem in H. rewrite En in H.
    destruct s; inversion H; subst; (split; [reflexivity|]).
    - exists Prepared. split; [|reflexivity]. apply nth_error_upd_same. apply nth_error_Some. congruence.
    - exists Prepared. split; [exact En|reflexivity].
    - exists Computed. split; [exact En|reflexivity].
  Qed.

  Lemma compute_elem_post (e : nat) (el el' : estore) (q : quad) (s : status) :
    nth_error el e = Some (q, s) -> compute_elem e el = (el', OUnit) -> nth_error el' e = Some (q, Computed).
  Proof.
    intros En H. unfold compute_elem in H. rewrite En in H. destruct s; inversion H; subst.
    - apply nth_error_upd_same. apply nth_error_Some. congruence.
    - exact En.
  Qed.

  Lemma emap_ids_In (st : cstate) (k : quad) (e : nat) (p : perm4) :
    qfind k (emap st) = Some (e, p) -> In e (emap_ids st).
  Proof.
    intros H. apply qfind_In in H. unfold emap_ids.
    change e with ((fun kv : quad * (nat * perm4) => fst (snd kv)) (k, (e, p))). apply in_map. exact H.
  Qed.

  Lemma nontriv_ids_In (st : cstate) (q0 : quad) (e : nat) : qfind q0 (nontriv st) = Some e -> In e (nontriv_ids st).
  Proof.
    intros H. apply qfind_In in H. unfold nontriv_ids.
    change e with (snd (q0, e)). apply in_map. exact H.
  Qed.

  (** keys are unique in both maps (they model std::map) *)
  Definition inv_keys (st : cstate) : Prop := NoDup (qkeys (emap st)) /\ NoDup (qkeys (nontriv st)).

  Lemma inv_keys_init : inv_keys init.
  Proof. split; constructor. Qed.

  Lemma NoDup_add_alias (q : quad) (e : nat) (em : qmap (nat * perm4))
        (a : list (nat * nat) * (nat * nat * nat * nat) * nat) :
    NoDup (qkeys em) -> NoDup (qkeys (add_alias q e em a)).
  Proof.
    intros N. destruct a as [[req pos] idx]. unfold add_alias.
    destruct (alias_cond q req); [|exact N].
    destruct (qfind (alias_key q pos) em); [exact N|]. apply NoDup_qinsert. exact N.
  Qed.

  Lemma inv_keys_set (st : cstate) (q : quad) : inv_keys st -> inv_keys (fst (set_ st q)).
  Proof.
    intros [N1 N2]. split.
    - unfold set_. cbn [fst emap]. apply fold_left_inv.
      + intros s x H. apply NoDup_add_alias. exact H.
      + apply NoDup_qinsert. exact N1.
    - rewrite set_nontriv. apply NoDup_qinsert. exact N2.
  Qed.

  Lemma inv_keys_fill (fixed : bool) (nidx : nat) (st : cstate) (qs : list quad) :
    inv_keys st -> inv_keys (fill fixed nidx st qs).
  Proof.
    intros [N1 N2]. rewrite fill_unfold. apply fold_left_inv.
    - intros s x H. unfold fill_step. destruct (isInContainer s x); [exact H|apply inv_keys_set; exact H].
    - split; [constructor|]. cbn [nontriv]. destruct fixed; [constructor|exact N2].
  Qed.

  Lemma inv_keys_lookup (st st1 : cstate) (q : quad) (r : nat * perm4) :
    lookup st q = (st1, r) -> inv_keys st -> inv_keys st1.
  Proof.
    unfold lookup. intros H I. destruct (qfind q (emap st)).
    - inversion H. subst st1. exact I.
    - assert (E1 : st1 = fst (set_ st q)) by (rewrite H; reflexivity). subst st1. apply inv_keys_set. exact I.
  Qed.

  Lemma emap_ids_entry (st : cstate) (e : nat) :
    inv_keys st -> In e (emap_ids st) -> exists k p, qfind k (emap st) = Some (e, p).
  Proof.
    intros [N _] H. unfold emap_ids in H. apply in_map_iff in H. destruct H as [[k [e' p]] [E I]].
    cbn [fst snd] in E. subst e'. exists k, p. apply NoDup_In_qfind; assumption.
  Qed.

  Lemma nontriv_ids_entry (st : cstate) (e : nat) :
    inv_keys st -> In e (nontriv_ids st) -> exists q0, qfind q0 (nontriv st) = Some e.
  Proof.
    intros [_ N] H. unfold nontriv_ids in H. apply in_map_iff in H. destruct H as [[q0 e'] [E I]].
    cbn [snd] in E. subst e'. exists q0. apply NoDup_In_qfind; assumption.
  Qed.

  Lemma emap_ids_valid (st : cstate) :
    inv_sound st -> inv_keys st -> forall e, In e (emap_ids st) -> (e < length (elems st))%nat.
  Proof.
    intros [I1 _] K e H. destruct (emap_ids_entry _ _ K H) as [k [p F]].
    destruct (I1 _ _ _ F) as [q0 [s [En _]]]. apply nth_error_Some. congruence.
  Qed.

  Lemma nontriv_ids_valid (st : cstate) :
    inv_sound st -> inv_keys st -> forall e, In e (nontriv_ids st) -> (e < length (elems st))%nat.
  Proof.
    intros [_ I2] K e H. destruct (nontriv_ids_entry _ _ K H) as [q0 F].
    destruct (I2 _ _ F) as [s En]. apply nth_error_Some. congruence.
  Qed.

  (** * One step, both variants of fill: soundness and unique keys are kept, no dangling element is met *)

  Definition inv_any (st : cstate) : Prop := inv_sound st /\ inv_keys st.

  Lemma inv_any_store (st : cstate) (el : estore) :
    inv_any st -> store_le (elems st) el -> inv_any (with_elems st el).
  Proof. intros [I K] L. split; [apply inv_sound_store; assumption|exact K]. Qed.

  Lemma cstep_any (fixed : bool) (van : quad -> bool) (nidx : nat) (st : cstate) (op : cop) :
    inv_any st ->
    inv_any (fst (cstep fixed van nidx st op)) /\ snd (cstep fixed van nidx st op) <> OThrows Dangling.
  Proof.
    intros [I K]. destruct op as [qs|qs|b|q|q|q|q n]; cbn [cstep].
    - split; [|discriminate]. cbn [fst]. split; [apply inv_sound_fill; exact I|apply inv_keys_fill; exact K].
    - unfold prepare_all.
      pose proof (inv_sound_fill fixed nidx st qs I) as I1. pose proof (inv_keys_fill fixed nidx st qs K) as K1.
      destruct (run_seq prepare_elem (emap_ids (fill fixed nidx st qs)) (elems (fill fixed nidx st qs))) as [el o] eqn:R.
      cbn [fst snd]. split.
      + apply inv_any_store; [split; assumption|]. eapply run_seq_le; [exact prepare_elem_le|exact R].
      + destruct (run_seq_prepare _ _ _ _ R (emap_ids_valid _ I1 K1)) as [-> _]. discriminate.
    - unfold compute_all.
      set (ids := if b then nontriv_ids st else emap_ids st).
      assert (Vd : forall e, In e ids -> (e < length (elems st))%nat).
      { subst ids. destruct b; [apply nontriv_ids_valid|apply emap_ids_valid]; assumption. }
      pose proof (run_seq_not_dangling compute_elem compute_elem_le compute_elem_not_dangling ids (elems st) Vd) as ND.
      destruct (run_seq compute_elem ids (elems st)) as [el o] eqn:R. cbn [fst snd] in *. split; [|exact ND].
      apply inv_any_store; [split; assumption|]. eapply run_seq_le; [exact compute_elem_le|exact R].
    - split; [|discriminate]. destruct (lookup st q) as [st1 r] eqn:L. cbn [fst].
      destruct (lookup_spec _ _ _ _ L I) as [I1 _]. split; [exact I1|]. eapply inv_keys_lookup; eassumption.
    - destruct (lookup st q) as [st1 r] eqn:L. destruct (lookup_spec _ _ _ _ L I) as [I1 [_ F]].
      pose proof (inv_keys_lookup _ _ _ _ L K) as K1. destruct r as [e p]. cbn [fst].
      destruct I1 as [I1a I1b]. destruct (I1a _ _ _ F) as [q0 [s [En _]]].
      destruct (prepare_elem e (elems st1)) as [el o] eqn:P. cbn [fst snd].
      destruct (prepare_elem_post _ _ _ _ _ _ En P) as [-> _]. split; [|discriminate].
      apply inv_any_store; [split; [split; assumption|exact K1]|]. eapply prepare_elem_le. exact P.
    - destruct (lookup st q) as [st1 r] eqn:L. destruct (lookup_spec _ _ _ _ L I) as [I1 [_ F]].
      pose proof (inv_keys_lookup _ _ _ _ L K) as K1. destruct r as [e p]. cbn [fst].
      destruct I1 as [I1a I1b]. destruct (I1a _ _ _ F) as [q0 [s [En _]]].
      assert (Ve : (e < length (elems st1))%nat) by (apply nth_error_Some; congruence).
      pose proof (compute_elem_not_dangling e (elems st1) Ve) as ND.
      destruct (compute_elem e (elems st1)) as [el o] eqn:P. cbn [fst snd] in *. split; [|exact ND].
      apply inv_any_store; [split; [split; assumption|exact K1]|]. eapply compute_elem_le. exact P.
    - destruct (lookup st q) as [st1 r] eqn:L. destruct (lookup_spec _ _ _ _ L I) as [I1 [_ F]].
      pose proof (inv_keys_lookup _ _ _ _ L K) as K1. cbn [fst snd]. split; [split; assumption|].
      destruct r as [e p]. destruct I1 as [I1a _]. destruct (I1a _ _ _ F) as [q0 [s [En _]]].
      unfold eval_elem. destruct (perm_eval p n) as [sg t]. rewrite En. destruct s; try discriminate.
      destruct (van q0); discriminate.
  Qed.

  (** whatever [Eval] returns as a value is chi of the requested key *)
  Lemma eval_value_sound (fixed : bool) (van : quad -> bool) (nidx : nat) (st : cstate) (q : quad) (n : triple)
        (sg : Z) (q0 : quad) (t : triple) :
    inv_sound st -> eval_out fixed van nidx st q n = OVal sg q0 t -> vscale sg (chi q0 t) = chi q n.
  Proof.
    intros I. unfold eval_out. cbn [cstep]. destruct (lookup st q) as [st1 r] eqn:L.
    destruct (lookup_spec _ _ _ _ L I) as [[I1 _] [_ F]]. cbn [snd]. destruct r as [e p].
    destruct (I1 _ _ _ F) as [q1 [s [En D]]]. unfold eval_elem.
    specialize (D n). destruct (perm_eval p n) as [sg' t'] eqn:PE. cbn [fst snd] in D.
    rewrite En. destruct s; [discriminate| |].
    - destruct (van q1); [|discriminate]. intros H. inversion H. subst. exact D.
    - intros H. inversion H. subst. exact D.
  Qed.

  (** an element that is Computed is evaluable, and evaluation leaves the state alone *)
  Lemma eval_computed (fixed : bool) (van : quad -> bool) (nidx : nat) (st : cstate) (q : quad) (n : triple)
        (e : nat) (p : perm4) (q0 : quad) :
    inv_sound st -> qfind q (emap st) = Some (e, p) -> nth_error (elems st) e = Some (q0, Computed) ->
    exists sg t, cstep fixed van nidx st (Eval q n) = (st, OVal sg q0 t) /\ vscale sg (chi q0 t) = chi q n.
  Proof.
    intros [I1 _] F En. cbn [cstep]. unfold lookup. rewrite F. unfold eval_elem.
    destruct (I1 _ _ _ F) as [q1 [s [En' D]]]. rewrite En in En'. inversion En'. subst q1 s.
    specialize (D n). destruct (perm_eval p n) as [sg t]. cbn [fst snd] in D. rewrite En.
    exists sg, t. split; [reflexivity|exact D].
  Qed.

  (** * One step of the repaired container together with the caller's view *)

  Definition inv_all (st : cstate) (g : gmap) : Prop := inv_any st /\ inv_fixed st /\ inv_ghost st g.

  (** after prepareAll every listed element is at least Prepared *)
  Lemma prepare_all_post (fixed : bool) (nidx : nat) (st st' : cstate) (qs : list quad) (o : cout) :
    inv_any st -> prepare_all fixed nidx st qs = (st', o) ->
    o = OUnit /\
    forall k e p, qfind k (emap st') = Some (e, p) ->
                  exists q0 s', nth_error (elems st') e = Some (q0, s') /\ status_leb Prepared s' = true.
  Proof.
    intros [I K] H. unfold prepare_all in H.
    pose proof (inv_sound_fill fixed nidx st qs I) as I1. pose proof (inv_keys_fill fixed nidx st qs K) as K1.
    destruct (run_seq prepare_elem (emap_ids (fill fixed nidx st qs)) (elems (fill fixed nidx st qs))) as [el o1] eqn:R.
    inversion H. subst st' o1. clear H.
    destruct (run_seq_prepare _ _ _ _ R (emap_ids_valid _ I1 K1)) as [-> A]. split; [reflexivity|].
    intros k e p F. cbn [with_elems emap elems] in *. apply A. eapply emap_ids_In. exact F.
  Qed.

  (** after a computeAll that returned normally every listed element of the repaired container is Computed;
      without splitting this holds for the unrepaired container as well *)
  Lemma compute_all_post (st st' : cstate) (b : bool) :
    inv_any st -> (b = true -> inv_fixed st) -> compute_all st b = (st', OUnit) ->
    forall k e p, qfind k (emap st') = Some (e, p) -> exists q0, nth_error (elems st') e = Some (q0, Computed).
  Proof.
    intros [I K] Fx H k e p F. unfold compute_all in H.
    destruct (run_seq compute_elem (if b then nontriv_ids st else emap_ids st) (elems st)) as [el o] eqn:R.
    inversion H. subst st' o. clear H. cbn [with_elems emap elems] in *.
    eapply run_seq_compute_unit; [exact R|]. destruct b.
    - destruct (Fx eq_refl) as [F1 _]. destruct (F1 _ _ _ F) as [q0 [s [_ G]]]. eapply nontriv_ids_In. exact G.
    - eapply emap_ids_In. exact F.
  Qed.

  Lemma rstep_all (van : quad -> bool) (nidx : nat) (sg : cstate * gmap) (op : cop) :
    inv_all (fst sg) (snd sg) ->
    inv_all (fst (rstep true van nidx sg op)) (snd (rstep true van nidx sg op)).
  Proof.
    destruct sg as [st g]. cbn [fst snd]. intros [A [Fx G]].
    pose proof (cstep_any true van nidx st op A) as [A' _].
    unfold rstep. cbn [fst snd]. destruct (cstep true van nidx st op) as [st' o] eqn:C. cbn [fst snd] in *.
    split; [exact A'|]. destruct A as [I K]. destruct A' as [I' K'].
    destruct op as [qs|qs|b|q|q|q|q n]; cbn [cstep gstep] in *.
    - (* Fill *)
      inversion C. subst st' o. split; [apply inv_fixed_fill|].
      apply ghost_all. intros k e p F. destruct I' as [I1 _]. destruct (I1 _ _ _ F) as [q0 [s [En _]]].
      exists q0, s. split; [exact En|reflexivity].
    - (* PrepareAll *)
      destruct (prepare_all_post _ _ _ _ _ _ (conj I K) C) as [-> P]. split.
      + unfold prepare_all in C.
        destruct (run_seq prepare_elem (emap_ids (fill true nidx st qs)) (elems (fill true nidx st qs))) as [el o1] eqn:R.
        inversion C. apply inv_fixed_store; [apply inv_fixed_fill|]. eapply run_seq_le; [exact prepare_elem_le|exact R].
      + apply ghost_all. exact P.
    - (* ComputeAll *)
      assert (E : ext st st' /\ inv_fixed st').
      { unfold compute_all in C.
        destruct (run_seq compute_elem (if b then nontriv_ids st else emap_ids st) (elems st)) as [el o1] eqn:R.
        inversion C. pose proof (run_seq_le _ compute_elem_le _ _ _ _ R) as L.
        split; [apply ext_with_elems; exact L|apply inv_fixed_store; assumption]. }
      destruct E as [E Fx']. split; [exact Fx'|].
      destruct o; try (apply (ghost_sync st); assumption).
      apply ghost_all. intros k e p F.
      destruct (compute_all_post st st' b (conj I K) (fun _ => Fx) C _ _ _ F) as [q0 En].
      exists q0, Computed. split; [exact En|reflexivity].
    - (* Lookup *)
      destruct (lookup st q) as [st1 r] eqn:L. cbn [fst] in C. inversion C. subst st' o.
      destruct (lookup_spec _ _ _ _ L I) as [_ [E _]].
      split; [eapply inv_fixed_lookup; eassumption|]. apply (ghost_sync st); assumption.
    - (* PrepareElem *)
      destruct (lookup st q) as [st1 [e p]] eqn:L. destruct (lookup_spec _ _ _ _ L I) as [[I1 I1b] [E F]].
      cbn [fst] in C. destruct (I1 _ _ _ F) as [q0 [s [En _]]].
      destruct (prepare_elem e (elems st1)) as [el o1] eqn:P. inversion C. subst st' o1. clear C.
      destruct (prepare_elem_post _ _ _ _ _ _ En P) as [-> [s1 [En1 O1]]].
      pose proof (prepare_elem_le _ _ _ _ P) as Le.
      split; [apply inv_fixed_store; [eapply inv_fixed_lookup; eassumption|exact Le]|].
      apply ghost_raise.
      + apply (ghost_sync st); [exact G|exact I'|]. eapply ext_trans; [exact E|apply ext_with_elems; exact Le].
      + intros e' p' q0' s' F' En'. cbn [with_elems emap elems] in *. rewrite F in F'. inversion F'. subst e' p'.
        rewrite En1 in En'. inversion En'. subst. exact O1.
    - (* ComputeElem *)
      destruct (lookup st q) as [st1 [e p]] eqn:L. destruct (lookup_spec _ _ _ _ L I) as [[I1 I1b] [E F]].
      cbn [fst] in C. destruct (I1 _ _ _ F) as [q0 [s [En _]]].
      destruct (compute_elem e (elems st1)) as [el o1] eqn:P. inversion C. subst st' o1. clear C.
      pose proof (compute_elem_le _ _ _ _ P) as Le.
      split; [apply inv_fixed_store; [eapply inv_fixed_lookup; eassumption|exact Le]|].
      assert (Gs : inv_ghost (with_elems st1 el) (gsync g (with_elems st1 el))).
      { apply (ghost_sync st); [exact G|exact I'|]. eapply ext_trans; [exact E|apply ext_with_elems; exact Le]. }
      destruct o; try exact Gs.
      apply ghost_raise; [exact Gs|].
      intros e' p' q0' s' F' En'. cbn [with_elems emap elems] in *. rewrite F in F'. inversion F'. subst e' p'.
      rewrite (compute_elem_post _ _ _ _ _ En P) in En'. inversion En'. reflexivity.
    - (* Eval *)
      destruct (lookup st q) as [st1 r] eqn:L. inversion C. subst st' o.
      destruct (lookup_spec _ _ _ _ L I) as [_ [E _]].
      split; [eapply inv_fixed_lookup; eassumption|]. apply (ghost_sync st); assumption.
  Qed.

  Lemma run_any (fixed : bool) (van : quad -> bool) (nidx : nat) (ops : list cop) :
    inv_any (fst (run fixed van nidx ops)).
  Proof.
    unfold run. apply (fold_left_inv (fun sg => inv_any (fst sg))).
    - intros [st g] op H. unfold rstep. cbn [fst snd] in *.
      pose proof (cstep_any fixed van nidx st op H) as [A _].
      destruct (cstep fixed van nidx st op). exact A.
    - split; [apply inv_sound_init|apply inv_keys_init].
  Qed.

  Lemma run_all (van : quad -> bool) (nidx : nat) (ops : list cop) :
    inv_all (fst (run true van nidx ops)) (snd (run true van nidx ops)).
  Proof.
    unfold run. apply (fold_left_inv (fun sg => inv_all (fst sg) (snd sg))).
    - intros sg op H. apply rstep_all. exact H.
    - split; [split; [apply inv_sound_init|apply inv_keys_init]|]. split; [apply inv_fixed_init|].
      intros k s H. discriminate H.
  Qed.

  (** * Main statements, relative to [tables_ok] *)

  Lemma refines_core (van : quad -> bool) (nidx : nat) (ops : list cop) (q : quad) (n : triple) :
    qfind q (snd (run true van nidx ops)) = Some Computed ->
    exists sg q0 t,
      cstep true van nidx (fst (run true van nidx ops)) (Eval q n) = (fst (run true van nidx ops), OVal sg q0 t) /\
      vscale sg (chi q0 t) = chi q n.
  Proof.
    intros H. destruct (run_all van nidx ops) as [[I _] [_ G]].
    destruct (G _ _ H) as [e [p [q0 [s' [F [En O]]]]]]. apply status_leb_Computed in O. subst s'.
    destruct (eval_computed true van nidx _ q n e p q0 I F En) as [sg [t [E D]]].
    exists sg, q0, t. split; assumption.
  Qed.

  Lemma listed_core (fixed : bool) (van : quad -> bool) (nidx : nat) (ops : list cop) (b : bool) (st' : cstate) :
    (fixed = true \/ b = false) ->
    cstep fixed van nidx (fst (run fixed van nidx ops)) (ComputeAll b) = (st', OUnit) ->
    forall q n, isInContainer st' q = true ->
    exists sg q0 t, cstep fixed van nidx st' (Eval q n) = (st', OVal sg q0 t) /\ vscale sg (chi q0 t) = chi q n.
  Proof.
    intros Hv C q n L. pose proof (run_any fixed van nidx ops) as A.
    pose proof (cstep_any fixed van nidx _ (ComputeAll b) A) as [[I' _] _]. rewrite C in I'. cbn [fst] in I'.
    apply isInContainer_true in L. destruct L as [[e p] F]. cbn [cstep] in C.
    assert (Fx : b = true -> inv_fixed (fst (run fixed van nidx ops))).
    { intros Hb. destruct Hv as [->|Hv]; [|congruence]. destruct (run_all van nidx ops) as [_ [Fx _]]. exact Fx. }
    destruct (compute_all_post _ _ _ A Fx C _ _ _ F) as [q0 En].
    destruct (eval_computed fixed van nidx st' q n e p q0 I' F En) as [sg [t [E D]]].
    exists sg, q0, t. split; assumption.
  Qed.
End Invariants.

(** * Statements that do not mention chi: instantiate the invariants at a one-point value type *)

Lemma tables_ok_unit : tables_ok unit (fun _ _ => tt) (fun _ _ => tt).
Proof. split; intros; intros n; reflexivity. Qed.

Definition inv_any_u := inv_any unit (fun _ _ => tt) (fun _ _ => tt).

Lemma run_snoc (fixed : bool) (van : quad -> bool) (nidx : nat) (ops : list cop) (op : cop) :
  run fixed van nidx (ops ++ [op]) = rstep fixed van nidx (run fixed van nidx ops) op.
Proof. unfold run. rewrite fold_left_app. reflexivity. Qed.

(** No operation of any history ever meets a map entry without an element (the model's analogue of a dangling
    pointer), for both variants of fill. *)
Theorem no_dangling : forall (fixed : bool) (van : quad -> bool) (nidx : nat) (ops : list cop) (op : cop),
  snd (cstep fixed van nidx (fst (run fixed van nidx ops)) op) <> OThrows Dangling.
Proof.
  intros fixed van nidx ops op.
  apply (cstep_any unit (fun _ _ => tt) (fun _ _ => tt) tables_ok_unit fixed van nidx _ op).
  apply run_any. exact tables_ok_unit.
Qed.

(** fill / prepareAll list every quadruple they were asked for *)
Lemma qset_of_list_In (q : quad) (l : list quad) : In q l -> In q (qset_of_list l).
Proof.
  intros H. unfold qset_of_list.
  assert (G : forall l acc, (In q l \/ qfind q acc = Some tt) ->
                            qfind q (fold_left (fun acc q => qinsert q tt acc) l acc) = Some tt).
  { clear l H. induction l as [|x r IH]; intros acc H; cbn [fold_left].
    - destruct H as [[]|H]. exact H.
    - apply IH. destruct H as [[H|H]|H].
      + subst x. right. rewrite qfind_qinsert, quad_eqb_refl. destruct (qfind q acc) as [[]|]; reflexivity.
      + left. exact H.
      + right. rewrite qfind_qinsert, H. reflexivity. }
  specialize (G l [] (or_introl H)). apply qfind_In in G.
  change q with (fst (q, tt)). apply in_map. exact G.
Qed.

Lemma fill_step_listed (q : quad) : forall (II : list quad) (st : cstate),
  (In q II \/ isInContainer st q = true) -> isInContainer (fold_left fill_step II st) q = true.
Proof.
  induction II as [|x r IH]; intros st H; cbn [fold_left].
  - destruct H as [[]|H]. exact H.
  - apply IH. unfold fill_step. destruct H as [[H|H]|H].
    + subst x. right. destruct (isInContainer st q) eqn:E; [exact E|].
      apply isInContainer_true. eexists. apply set_emap_self. apply isInContainer_false. exact E.
    + left. exact H.
    + right. destruct (isInContainer st x); [exact H|].
      apply isInContainer_true in H. destruct H as [r0 H]. apply isInContainer_true. exists r0.
      apply set_emap_mono. exact H.
Qed.

Theorem fill_lists_requested : forall (fixed : bool) (nidx : nat) (st : cstate) (qs : list quad) (q : quad),
  In q qs -> isInContainer (fill fixed nidx st qs) q = true.
Proof.
  intros fixed nidx st qs q H. rewrite fill_unfold. apply fill_step_listed. left.
  destruct qs as [|x r]; [destruct H|]. apply qset_of_list_In. exact H.
Qed.

(** In the repaired container a bulk computation directly after a bulk preparation never throws, whatever
    happened before. *)
Theorem bulk_compute_succeeds : forall (van : quad -> bool) (nidx : nat) (ops : list cop) (qs : list quad) (b : bool),
  snd (cstep true van nidx (fst (run true van nidx (ops ++ [PrepareAll qs]))) (ComputeAll b)) = OUnit.
Proof.
  intros van nidx ops qs b.
  pose proof (run_all unit (fun _ _ => tt) (fun _ _ => tt) tables_ok_unit van nidx (ops ++ [PrepareAll qs])) as [[I K] [[F1 F2] _]].
  pose proof (run_any unit (fun _ _ => tt) (fun _ _ => tt) tables_ok_unit true van nidx ops) as A0.
  rewrite run_snoc in *. unfold rstep in *. cbn [cstep] in *.
  destruct (prepare_all true nidx (fst (run true van nidx ops)) qs) as [st o] eqn:P. cbn [fst snd] in *.
  destruct (prepare_all_post unit (fun _ _ => tt) (fun _ _ => tt) tables_ok_unit _ _ _ _ _ _ A0 P) as [_ Pp].
  unfold compute_all.
  assert (R : snd (run_seq compute_elem (if b then nontriv_ids st else emap_ids st) (elems st)) = OUnit).
  { apply run_seq_compute_ok. intros e H. destruct b.
    - destruct (nontriv_ids_entry _ _ K H) as [q0 G]. destruct (F2 _ _ G) as [p Fe]. eapply Pp. exact Fe.
    - destruct (emap_ids_entry _ _ K H) as [k [p Fe]]. eapply Pp. exact Fe. }
  destruct (run_seq compute_elem (if b then nontriv_ids st else emap_ids st) (elems st)). exact R.
Qed.

(** the caller's view has an entry for every listed key *)
Lemma ghost_keys (fixed : bool) (van : quad -> bool) (nidx : nat) (ops : list cop) (k : quad) :
  qfind k (snd (run fixed van nidx ops)) = None -> qfind k (emap (fst (run fixed van nidx ops))) = None.
Proof.
  unfold run.
  apply (fold_left_inv (fun sg : cstate * gmap => qfind k (snd sg) = None -> qfind k (emap (fst sg)) = None)).
  - intros [st g] op _. unfold rstep. cbn [fst snd]. destruct (cstep fixed van nidx st op) as [st' o]. cbn [fst snd].
    assert (Gs : forall g0, qfind k (gsync g0 st') = None -> qfind k (emap st') = None).
    { intros g0 H. rewrite qfind_gsync in H. destruct (qfind k (emap st')); [discriminate H|reflexivity]. }
    intros H. destruct op as [qs|qs|b|q'|q'|q'|q' n]; cbn [gstep] in H.
    + apply (Gs []). rewrite qfind_gall in H. destruct (qfind k (gsync [] st')); [discriminate H|reflexivity].
    + apply (Gs []). rewrite qfind_gall in H. destruct (qfind k (gsync [] st')); [discriminate H|reflexivity].
    + apply (Gs g). destruct o; try exact H.
      rewrite qfind_gall in H. destruct (qfind k (gsync g st')); [discriminate H|reflexivity].
    + apply (Gs g). exact H.
    + apply (Gs g). rewrite qfind_graise in H. destruct (qfind k (gsync g st')); [discriminate H|reflexivity].
    + apply (Gs g). destruct o; try exact H.
      rewrite qfind_graise in H. destruct (qfind k (gsync g st')); [discriminate H|reflexivity].
    + apply (Gs g). exact H.
  - intros _. reflexivity.
Qed.

(** Repaired container, every history: when every listed quadruple is at least Prepared in the caller's view, a bulk
    computation returns normally. *)
Theorem bulk_compute_succeeds_general : forall (van : quad -> bool) (nidx : nat) (ops : list cop) (b : bool),
  (forall k s, qfind k (snd (run true van nidx ops)) = Some s -> status_leb Prepared s = true) ->
  snd (cstep true van nidx (fst (run true van nidx ops)) (ComputeAll b)) = OUnit.
Proof.
  intros van nidx ops b H.
  pose proof (run_all unit (fun _ _ => tt) (fun _ _ => tt) tables_ok_unit van nidx ops) as [[I K] [[F1 F2] G]].
  cbn [cstep]. unfold compute_all.
  set (st := fst (run true van nidx ops)) in *.
  assert (R : snd (run_seq compute_elem (if b then nontriv_ids st else emap_ids st) (elems st)) = OUnit).
  { apply run_seq_compute_ok. intros e He.
    assert (En : exists k p, qfind k (emap st) = Some (e, p)).
    { destruct b.
      - destruct (nontriv_ids_entry _ _ K He) as [q0 Gq]. destruct (F2 _ _ Gq) as [p Fe]. exists q0, p. exact Fe.
      - apply emap_ids_entry; assumption. }
    destruct En as [k [p Fe]].
    destruct (qfind k (snd (run true van nidx ops))) as [s|] eqn:Gk.
    - destruct (G _ _ Gk) as [e' [p' [q0 [s' [Fe' [Ee O]]]]]]. fold st in Fe'. rewrite Fe in Fe'. inversion Fe'. subst e' p'.
      exists q0, s'. split; [exact Ee|]. eapply status_leb_trans; [apply (H _ _ Gk)|exact O].
    - apply ghost_keys in Gk. fold st in Gk. congruence. }
  destruct (run_seq compute_elem (if b then nontriv_ids st else emap_ids st) (elems st)). exact R.
Qed.

(** * The theorems of C13 *)

Section Main.
  Variable V : Type.
  Variable vneg : V -> V.
  Variable vscale : Z -> V -> V.
  Variable chi : quad -> triple -> V.
  Hypothesis swap12 : swap12_law V vneg chi.
  Hypothesis swap34 : swap34_law V vneg chi.
  Hypothesis invol : neg_invol V vneg.
  Hypothesis scale : scale_law V vneg vscale.

  Let T : tables_ok V vscale chi := alias_denotes V vneg vscale chi swap12 swap34 invol scale.

  (** Both variants of fill, every history: whatever value an evaluation returns is chi of the requested
      quadruple -- whether the key is stored or an alias, whatever was filled, requested, prepared or computed before. *)
  Theorem eval_sound : forall (fixed : bool) (van : quad -> bool) (nidx : nat) (ops : list cop) (q : quad) (n : triple)
                              (sg : Z) (q0 : quad) (t : triple),
    eval_out fixed van nidx (fst (run fixed van nidx ops)) q n = OVal sg q0 t -> vscale sg (chi q0 t) = chi q n.
  Proof.
    intros fixed van nidx ops q n sg q0 t H.
    eapply (eval_value_sound V vscale chi T); [|exact H]. apply (run_any V vscale chi T).
  Qed.

  (** Repaired container, every history: a quadruple that the caller has prepared and computed through the container
      (caller's view = Computed) evaluates, without changing the container, to chi of that quadruple. *)
  Theorem container_refines_spec : forall (van : quad -> bool) (nidx : nat) (ops : list cop) (q : quad) (n : triple),
    qfind q (snd (run true van nidx ops)) = Some Computed ->
    exists sg q0 t,
      cstep true van nidx (fst (run true van nidx ops)) (Eval q n) = (fst (run true van nidx ops), OVal sg q0 t) /\
      vscale sg (chi q0 t) = chi q n.
  Proof. intros van nidx ops q n H. apply (refines_core V vscale chi T). exact H. Qed.

  (** Repaired container: after a bulk computation that returns normally every key the container lists evaluates
      (no exception) to chi of that key. *)
  Theorem listed_elements_evaluable : forall (van : quad -> bool) (nidx : nat) (ops : list cop) (b : bool) (st' : cstate),
    cstep true van nidx (fst (run true van nidx ops)) (ComputeAll b) = (st', OUnit) ->
    forall q n, isInContainer st' q = true ->
    exists sg q0 t, cstep true van nidx st' (Eval q n) = (st', OVal sg q0 t) /\ vscale sg (chi q0 t) = chi q n.
  Proof. intros van nidx ops b st' C q n L. eapply (listed_core V vscale chi T); [left; reflexivity|exact C|exact L]. Qed.

  (** The same holds for the unrepaired container when the bulk computation does not split the communicator. *)
  Theorem listed_elements_evaluable_nosplit : forall (fixed : bool) (van : quad -> bool) (nidx : nat) (ops : list cop) (st' : cstate),
    cstep fixed van nidx (fst (run fixed van nidx ops)) (ComputeAll false) = (st', OUnit) ->
    forall q n, isInContainer st' q = true ->
    exists sg q0 t, cstep fixed van nidx st' (Eval q n) = (st', OVal sg q0 t) /\ vscale sg (chi q0 t) = chi q n.
  Proof. intros fixed van nidx ops st' C q n L. eapply (listed_core V vscale chi T); [right; reflexivity|exact C|exact L]. Qed.
End Main.

(** * How the caller's view becomes Computed: exactly the two ways the property names *)

(** bulk: prepareAll(qs); computeAll(split or not) -- in the repaired container, after any history, every requested
    quadruple (and every other listed one) is Computed in the caller's view *)
Theorem ready_after_bulk : forall (van : quad -> bool) (nidx : nat) (ops : list cop) (qs : list quad) (b : bool) (q : quad),
  isInContainer (fst (run true van nidx (ops ++ [PrepareAll qs]))) q = true ->
  qfind q (snd (run true van nidx ((ops ++ [PrepareAll qs]) ++ [ComputeAll b]))) = Some Computed.
Proof.
  intros van nidx ops qs b q L. rewrite (run_snoc true van nidx (ops ++ [PrepareAll qs])).
  pose proof (bulk_compute_succeeds van nidx ops qs b) as B.
  unfold rstep. destruct (cstep true van nidx (fst (run true van nidx (ops ++ [PrepareAll qs]))) (ComputeAll b)) as [st' o] eqn:C.
  cbn [snd fst] in *. subst o. cbn [gstep]. rewrite qfind_gall, qfind_gsync.
  assert (E : emap st' = emap (fst (run true van nidx (ops ++ [PrepareAll qs])))).
  { cbn [cstep] in C. unfold compute_all in C.
    destruct (run_seq compute_elem _ _) in C. inversion C. reflexivity. }
  rewrite E. apply isInContainer_true in L. destruct L as [r ->]. reflexivity.
Qed.

Theorem requested_are_listed : forall (fixed : bool) (van : quad -> bool) (nidx : nat) (ops : list cop) (qs : list quad) (q : quad),
  In q qs -> isInContainer (fst (run fixed van nidx (ops ++ [PrepareAll qs]))) q = true.
Proof.
  intros fixed van nidx ops qs q H. rewrite run_snoc. unfold rstep. cbn [cstep]. unfold prepare_all.
  destruct (run_seq prepare_elem _ _). cbn [fst]. unfold isInContainer. cbn [with_elems emap].
  apply (fill_lists_requested fixed nidx _ qs q H).
Qed.

(** on demand: container(q).prepare(); container(q).compute() -- after any history the compute call returns
    normally and q is Computed in the caller's view (both variants of fill) *)
Theorem ready_after_on_demand : forall (fixed : bool) (van : quad -> bool) (nidx : nat) (ops : list cop) (q : quad),
  snd (cstep fixed van nidx (fst (run fixed van nidx (ops ++ [PrepareElem q]))) (ComputeElem q)) = OUnit /\
  qfind q (snd (run fixed van nidx ((ops ++ [PrepareElem q]) ++ [ComputeElem q]))) = Some Computed.
Proof.
  intros fixed van nidx ops q.
  pose proof (run_any unit (fun _ _ => tt) (fun _ _ => tt) tables_ok_unit fixed van nidx ops) as [I0 K0].
  rewrite (run_snoc fixed van nidx (ops ++ [PrepareElem q])). rewrite (run_snoc fixed van nidx ops).
  assert (P1 : exists st1 g1 e p q0 s1,
             rstep fixed van nidx (run fixed van nidx ops) (PrepareElem q) = (st1, g1) /\
             qfind q (emap st1) = Some (e, p) /\ nth_error (elems st1) e = Some (q0, s1) /\
             status_leb Prepared s1 = true).
  { unfold rstep. cbn [cstep].
    destruct (lookup (fst (run fixed van nidx ops)) q) as [st1 [e p]] eqn:L.
    destruct (lookup_spec unit (fun _ _ => tt) (fun _ _ => tt) tables_ok_unit _ _ _ _ L I0) as [[I1 _] [_ F]].
    destruct (I1 _ _ _ F) as [q0 [s [En _]]]. cbn [fst].
    destruct (prepare_elem e (elems st1)) as [el o] eqn:P.
    destruct (prepare_elem_post _ _ _ _ _ _ En P) as [-> [s1 [En1 O1]]].
    eexists _, _, e, p, q0, s1. split; [reflexivity|]. cbn [with_elems emap elems]. split; [exact F|]. split; assumption. }
  destruct P1 as [st1 [g1 [e [p [q0 [s1 [-> [F [En1 O1]]]]]]]]].
  unfold rstep. cbn [fst snd cstep]. unfold lookup. rewrite F. cbn [fst].
  assert (C : exists el2, compute_elem e (elems st1) = (el2, OUnit)).
  { unfold compute_elem. rewrite En1. destruct s1; [discriminate O1|eexists; reflexivity|eexists; reflexivity]. }
  destruct C as [el2 C]. rewrite C. cbn [fst snd]. split; [reflexivity|].
  cbn [gstep]. rewrite qfind_graise, qfind_gsync. cbn [with_elems emap]. rewrite F, quad_eqb_refl.
  destruct (match qfind q g1 with Some s0 => s0 | None => Constructed end); reflexivity.
Qed.

(** the caller's view of a quadruple stays Computed under every call except fill / prepareAll (which discard the elements) *)
Theorem ready_stable : forall (fixed : bool) (van : quad -> bool) (nidx : nat) (ops : list cop) (op : cop) (q : quad),
  (forall qs, op <> Fill qs /\ op <> PrepareAll qs) ->
  qfind q (snd (run fixed van nidx ops)) = Some Computed ->
  qfind q (snd (run fixed van nidx (ops ++ [op]))) = Some Computed.
Proof.
  intros fixed van nidx ops op q Hop H.
  pose proof (run_any unit (fun _ _ => tt) (fun _ _ => tt) tables_ok_unit fixed van nidx ops) as A0.
  pose proof (run_any unit (fun _ _ => tt) (fun _ _ => tt) tables_ok_unit fixed van nidx (ops ++ [op])) as A1.
  rewrite run_snoc in *. unfold rstep in *.
  destruct (cstep fixed van nidx (fst (run fixed van nidx ops)) op) as [st' o] eqn:C. cbn [fst snd] in *.
  (* q is listed before (the caller's view only has listed keys) and stays listed *)
  assert (S : qfind q (gsync (snd (run fixed van nidx ops)) st') = Some Computed ->
              qfind q (gstep (snd (run fixed van nidx ops)) op st' o) = Some Computed).
  { intros Gs. destruct op as [qs|qs|b|q'|q'|q'|q' n]; cbn [gstep].
    - destruct (Hop qs) as [N _]. congruence.
    - destruct (Hop qs) as [_ N]. congruence.
    - destruct o; try exact Gs. rewrite qfind_gall, Gs. reflexivity.
    - exact Gs.
    - rewrite qfind_graise, Gs. destruct (quad_eqb q q'); reflexivity.
    - destruct o; try exact Gs. rewrite qfind_graise, Gs. destruct (quad_eqb q q'); reflexivity.
    - exact Gs. }
  apply S. rewrite qfind_gsync, H.
  (* listed before: the ghost is a sub-map of the listing; show q stays listed *)
  assert (Lq : exists r, qfind q (emap st') = Some r); [|destruct Lq as [r ->]; reflexivity].
  clear S A1.
  assert (Lb : exists r, qfind q (emap (fst (run fixed van nidx ops))) = Some r).
  { (* by induction over the history the ghost's keys are listed keys *)
    clear C Hop op st' o A0. revert H. generalize Computed. unfold run.
    apply (fold_left_inv (fun sg => forall s, qfind q (snd sg) = Some s -> exists r, qfind q (emap (fst sg)) = Some r)).
    - intros [st g] op IH s. unfold rstep. cbn [fst snd]. destruct (cstep fixed van nidx st op) as [st' o] eqn:C.
      cbn [fst snd]. intros Hg.
      assert (Gs : forall g0, (exists s0, qfind q (gsync g0 st') = Some s0) -> exists r, qfind q (emap st') = Some r).
      { intros g0 [s0 Hs]. rewrite qfind_gsync in Hs. destruct (qfind q (emap st')) as [r|]; [exists r; reflexivity|discriminate Hs]. }
      destruct op as [qs|qs|b|q'|q'|q'|q' n]; cbn [gstep] in Hg.
      + apply (Gs []). rewrite qfind_gall in Hg. destruct (qfind q (gsync [] st')); [eexists; reflexivity|discriminate Hg].
      + apply (Gs []). rewrite qfind_gall in Hg. destruct (qfind q (gsync [] st')); [eexists; reflexivity|discriminate Hg].
      + apply (Gs g). destruct o; try (eexists; exact Hg).
        rewrite qfind_gall in Hg. destruct (qfind q (gsync g st')); [eexists; reflexivity|discriminate Hg].
      + apply (Gs g). eexists. exact Hg.
      + apply (Gs g). rewrite qfind_graise in Hg. destruct (qfind q (gsync g st')); [eexists; reflexivity|discriminate Hg].
      + apply (Gs g). destruct o; try (eexists; exact Hg).
        rewrite qfind_graise in Hg. destruct (qfind q (gsync g st')); [eexists; reflexivity|discriminate Hg].
      + apply (Gs g). eexists. exact Hg.
    - intros s Hs. discriminate Hs. }
  destruct Lb as [r Lb]. exists r. destruct A0 as [I0 K0].
  destruct op as [qs|qs|b|q'|q'|q'|q' n]; cbn [cstep] in C.
  - destruct (Hop qs) as [N _]. congruence.
  - destruct (Hop qs) as [_ N]. congruence.
  - unfold compute_all in C. destruct (run_seq compute_elem _ _) in C. inversion C. exact Lb.
  - destruct (lookup (fst (run fixed van nidx ops)) q') as [st1 r1] eqn:L. inversion C. subst st'.
    destruct (lookup_spec unit (fun _ _ => tt) (fun _ _ => tt) tables_ok_unit _ _ _ _ L I0) as [_ [[M _] _]]. apply M. exact Lb.
  - destruct (lookup (fst (run fixed van nidx ops)) q') as [st1 r1] eqn:L.
    destruct (lookup_spec unit (fun _ _ => tt) (fun _ _ => tt) tables_ok_unit _ _ _ _ L I0) as [_ [[M _] _]].
    destruct (prepare_elem (fst r1) (elems st1)) in C. inversion C. cbn [with_elems emap]. apply M. exact Lb.
  - destruct (lookup (fst (run fixed van nidx ops)) q') as [st1 r1] eqn:L.
    destruct (lookup_spec unit (fun _ _ => tt) (fun _ _ => tt) tables_ok_unit _ _ _ _ L I0) as [_ [[M _] _]].
    destruct (compute_elem (fst r1) (elems st1)) in C. inversion C. cbn [with_elems emap]. apply M. exact Lb.
  - destruct (lookup (fst (run fixed van nidx ops)) q') as [st1 r1] eqn:L. inversion C. subst st'.
    destruct (lookup_spec unit (fun _ _ => tt) (fun _ _ => tt) tables_ok_unit _ _ _ _ L I0) as [_ [[M _] _]]. apply M. exact Lb.
Qed.

(** * The container as read on 2026-09-26 (fill clears ElementsMap only) violates the statements *)

Definition q0101 : quad := (0, 1, 0, 1)%nat.
Definition nowhere_vanishing : quad -> bool := fun _ => false.

(** prepareAll(S); prepareAll(S); computeAll(split): the caller has prepared and computed (0,1,0,1) through the bulk
    calls, the bulk computation returned normally, and the evaluation throws: computeAll_split went through the stale
    NonTrivialElements entry of the first prepareAll, the element found by the lookup was never computed. *)
Theorem container_refines_spec_refuted :
  exists (van : quad -> bool) (nidx : nat) (ops : list cop) (q : quad) (n : triple),
    qfind q (snd (run false van nidx ops)) = Some Computed /\
    eval_out false van nidx (fst (run false van nidx ops)) q n = OThrows UncomputedPart.
Proof.
  exists nowhere_vanishing, 2%nat, [PrepareAll [q0101]; PrepareAll [q0101]; ComputeAll true], q0101, (0, 0, 0).
  vm_compute. split; reflexivity.
Qed.

Theorem listed_elements_evaluable_refuted :
  exists (van : quad -> bool) (nidx : nat) (ops : list cop) (b : bool) (st' : cstate) (q : quad) (n : triple),
    cstep false van nidx (fst (run false van nidx ops)) (ComputeAll b) = (st', OUnit) /\
    isInContainer st' q = true /\
    eval_out false van nidx st' q n = OThrows UncomputedPart.
Proof.
  exists nowhere_vanishing, 2%nat, [PrepareAll [q0101]; PrepareAll [q0101]], true.
  eexists. exists q0101, (0, 0, 0). split; [vm_compute; reflexivity|]. vm_compute. split; reflexivity.
Qed.

(** fill(S); prepareAll(S); computeAll(split) throws "Object status mismatch": the stale element of the fill was never prepared *)
Theorem bulk_compute_succeeds_refuted :
  exists (van : quad -> bool) (nidx : nat) (ops : list cop) (qs : list quad) (b : bool),
    snd (cstep false van nidx (fst (run false van nidx (ops ++ [PrepareAll qs]))) (ComputeAll b)) = OThrows StatusMismatch.
Proof.
  exists nowhere_vanishing, 2%nat, [Fill [q0101]], [q0101], true. vm_compute. reflexivity.
Qed.

(** * The hypotheses of the theorems are satisfiable by non-trivial histories *)

Definition example_history : list cop :=
  [PrepareAll [q0101]; ComputeAll true; Lookup (0, 0, 1, 1)%nat; PrepareAll [(0, 0, 0, 1)%nat; q0101];
   Eval (1, 1, 1, 1)%nat (0, 0, 0); PrepareAll [q0101; (1, 1, 0, 0)%nat]; ComputeAll true;
   PrepareElem (0, 0, 1, 0)%nat; ComputeElem (0, 0, 1, 0)%nat; Lookup (1, 1, 1, 0)%nat].

(* an alias key (1,0,0,1) of the stored (0,1,0,1) after repeated prepareAll with different sets, and the alias (0,0,1,0)
   of an element obtained on demand, are both Computed in the caller's view; the evaluation passes permuted frequencies *)
Example container_refines_spec_hyp :
  qfind (1, 0, 0, 1)%nat (snd (run true nowhere_vanishing 2 example_history)) = Some Computed /\
  qfind (0, 0, 1, 0)%nat (snd (run true nowhere_vanishing 2 example_history)) = Some Computed /\
  qfind (1, 1, 1, 0)%nat (snd (run true nowhere_vanishing 2 example_history)) = Some Constructed /\
  eval_out true nowhere_vanishing 2 (fst (run true nowhere_vanishing 2 example_history)) (1, 0, 0, 1)%nat (0, 1, 2)
  = OVal (-1) q0101 (1, 0, 2) /\
  eval_out true nowhere_vanishing 2 (fst (run true nowhere_vanishing 2 example_history)) (0, 0, 0, 1)%nat (0, 1, 2)
  = OVal (-1) (0, 0, 1, 0)%nat (0, 1, -1).
Proof. vm_compute. repeat split; reflexivity. Qed.

Example listed_elements_evaluable_hyp :
  snd (cstep true nowhere_vanishing 2 (fst (run true nowhere_vanishing 2 [PrepareAll []; Lookup q0101])) (ComputeAll true)) = OUnit /\
  length (emap (fst (run true nowhere_vanishing 2 [PrepareAll []]))) = 16%nat /\
  length (nontriv (fst (run true nowhere_vanishing 2 [PrepareAll []]))) = 9%nat.
Proof. vm_compute. repeat split; reflexivity. Qed.

(* a bulk computation may legitimately throw: an element obtained on demand was not prepared *)
Example compute_all_may_throw :
  snd (cstep true nowhere_vanishing 2 (fst (run true nowhere_vanishing 2 [PrepareAll [q0101]; Lookup (0, 0, 0, 0)%nat])) (ComputeAll false))
  = OThrows StatusMismatch.
Proof. vm_compute. reflexivity. Qed.

Example perm_table_complete_hyp : quad_in_range (2, 0, 3, 1)%nat = true /\ quad_distinct (2, 0, 3, 1)%nat = true.
Proof. split; reflexivity. Qed.

(* every listed quadruple is at least Prepared in the caller's view: bulk preparation, then an element obtained and
   prepared on demand (its aliases are listed too and count as prepared only once asked for) *)
Example bulk_compute_succeeds_general_hyp :
  let ops := [PrepareAll [q0101]; PrepareElem (0, 0, 0, 0)%nat] in
  (forall k s, qfind k (snd (run true nowhere_vanishing 2 ops)) = Some s -> status_leb Prepared s = true) /\
  length (snd (run true nowhere_vanishing 2 ops)) = 5%nat.
Proof.
  cbv zeta. split; [|vm_compute; reflexivity]. intros k s.
  assert (E : snd (run true nowhere_vanishing 2 [PrepareAll [q0101]; PrepareElem (0, 0, 0, 0)%nat]) =
              [((0, 0, 0, 0)%nat, Prepared); ((0, 1, 0, 1)%nat, Prepared); ((0, 1, 1, 0)%nat, Prepared);
               ((1, 0, 0, 1)%nat, Prepared); ((1, 0, 1, 0)%nat, Prepared)]) by (vm_compute; reflexivity).
  rewrite E. cbn [qfind].
  repeat match goal with |- context [quad_eqb ?a ?b] => destruct (quad_eqb a b) end;
    intros H; inversion H; reflexivity.
Qed.
