(** Proofs for C13 (2PGF container honours the exchange symmetries regardless of request history).

    Layer 1: characterisation of the translator-generated tables (PVgen.Gen_Container4): complete finite checks
             by [vm_compute], and [alias_denotes] under the two exchange symmetries.
    Layer 2: map / element-store lemmas, invariants of the state machine, the refinement theorems by induction
             over the history.  Layer 2 uses the tables only through [tables_ok] and [set_inserts_nontrivial = true]. *)
Require Import ZArith Bool List Arith Lia ZifyBool.
Import ListNotations.
From PVgen Require Import Gen_Container4.
From PV Require Import Container4 Container4Spec.
Local Open Scope Z_scope.

(** * Keys *)

Lemma quad_eqb_eq (a b : quad) : quad_eqb a b = true <-> a = b.
Proof.
  destruct a as [[[a1 a2] a3] a4], b as [[[b1 b2] b3] b4]. unfold quad_eqb.
  rewrite !andb_true_iff, !Nat.eqb_eq. split.
  - intros [[[H1 H2] H3] H4]. congruence.
  - intros H. inversion H. auto.
Qed.

Lemma quad_eqb_refl (a : quad) : quad_eqb a a = true.
Proof. apply quad_eqb_eq. reflexivity. Qed.

Lemma quad_eqb_neq (a b : quad) : quad_eqb a b = false <-> a <> b.
Proof.
  split.
  - intros E H. apply quad_eqb_eq in H. congruence.
  - intros H. destruct (quad_eqb a b) eqn:E; [|reflexivity]. apply quad_eqb_eq in E. contradiction.
Qed.

Lemma quad_eqb_sym (a b : quad) : quad_eqb a b = quad_eqb b a.
Proof.
  destruct (quad_eqb a b) eqn:E.
  - apply quad_eqb_eq in E. subst. symmetry. apply quad_eqb_refl.
  - apply quad_eqb_neq in E. symmetry. apply quad_eqb_neq. congruence.
Qed.

(** * Maps *)

Section Maps.
  Context {A : Type}.

  Lemma qfind_qins_same (k : quad) (v : A) (m : qmap A) :
    qfind k m = None -> qfind k (qins k v m) = Some v.
  Proof.
    induction m as [|[k' v'] r IH]; cbn [qfind qins]; intros H.
    - rewrite quad_eqb_refl. reflexivity.
    - destruct (quad_eqb k k') eqn:E; [discriminate H|].
      destruct (quad_ltb k' k); cbn [qfind].
      + rewrite E. apply IH. exact H.
      + rewrite quad_eqb_refl. reflexivity.
  Qed.

  Lemma qfind_qins_other (k k' : quad) (v : A) (m : qmap A) :
    k' <> k -> qfind k' (qins k v m) = qfind k' m.
  Proof.
    intros N. apply quad_eqb_neq in N.
    induction m as [|[k2 v2] r IH]; cbn [qfind qins].
    - rewrite N. reflexivity.
    - destruct (quad_ltb k2 k); cbn [qfind].
      + rewrite IH. reflexivity.
      + rewrite N. reflexivity.
  Qed.

  (** std::map::insert: existing entries win, otherwise the new key is found with the new value *)
  Lemma qfind_qinsert (k k' : quad) (v : A) (m : qmap A) :
    qfind k' (qinsert k v m) =
    match qfind k' m with
    | Some x => Some x
    | None => if quad_eqb k' k then Some v else None
    end.
  Proof.
    unfold qinsert. destruct (qfind k m) eqn:Ek.
    - destruct (qfind k' m) eqn:Ek'; [reflexivity|].
      destruct (quad_eqb k' k) eqn:E; [|reflexivity].
      apply quad_eqb_eq in E. subst k'. congruence.
    - destruct (quad_eqb k' k) eqn:E.
      + apply quad_eqb_eq in E. subst k'. rewrite Ek. apply qfind_qins_same. exact Ek.
      + apply quad_eqb_neq in E. rewrite qfind_qins_other by exact E.
        destruct (qfind k' m); reflexivity.
  Qed.

  Lemma qfind_In (k : quad) (v : A) (m : qmap A) : qfind k m = Some v -> In (k, v) m.
  Proof.
    induction m as [|[k' v'] r IH]; cbn [qfind]; intros H; [discriminate H|].
    destruct (quad_eqb k k') eqn:E.
    - apply quad_eqb_eq in E. subst k'. inversion H. left. reflexivity.
    - right. apply IH. exact H.
  Qed.

  Lemma In_qfind (k : quad) (v : A) (m : qmap A) : In (k, v) m -> exists v', qfind k m = Some v'.
  Proof.
    induction m as [|[k' v'] r IH]; cbn [qfind In]; intros H; [contradiction|].
    destruct (quad_eqb k k') eqn:E; [eexists; reflexivity|].
    destruct H as [H|H].
    - inversion H. subst. rewrite quad_eqb_refl in E. discriminate E.
    - apply IH. exact H.
  Qed.

  (** re-labelling the values by a function of the key keeps the keys *)
  Lemma qfind_map_key {B : Type} (F : quad -> B) (m : qmap A) (q : quad) :
    qfind q (map (fun kv => (fst kv, F (fst kv))) m) =
    match qfind q m with Some _ => Some (F q) | None => None end.
  Proof.
    induction m as [|[k v] r IH]; cbn [qfind map fst]; [reflexivity|].
    destruct (quad_eqb q k) eqn:E.
    - apply quad_eqb_eq in E. subst k. reflexivity.
    - exact IH.
  Qed.
End Maps.

(** * Status order *)

Lemma status_leb_refl (s : status) : status_leb s s = true.
Proof. destruct s; reflexivity. Qed.

Lemma status_leb_trans (a b c : status) :
  status_leb a b = true -> status_leb b c = true -> status_leb a c = true.
Proof. destruct a, b, c; cbn; congruence. Qed.

Lemma status_leb_Computed (s : status) : status_leb Computed s = true -> s = Computed.
Proof. destruct s; cbn; congruence. Qed.

Lemma smax_ge_l (a b : status) : status_leb a (smax a b) = true.
Proof. destruct a, b; reflexivity. Qed.

Lemma smax_ge_r (a b : status) : status_leb b (smax a b) = true.
Proof. destruct a, b; reflexivity. Qed.

Lemma smax_lub (a b c : status) :
  status_leb a c = true -> status_leb b c = true -> status_leb (smax a b) c = true.
Proof. destruct a, b, c; cbn; congruence. Qed.

(** * Element store *)

Lemma upd_length {A : Type} (i : nat) (x : A) (l : list A) : length (upd i x l) = length l.
Proof.
  revert i. induction l as [|y r IH]; intros i; [destruct i; reflexivity|].
  destruct i; cbn [upd length]; [reflexivity|]. rewrite IH. reflexivity.
Qed.

Lemma nth_error_upd_same {A : Type} (i : nat) (x : A) (l : list A) :
  (i < length l)%nat -> nth_error (upd i x l) i = Some x.
Proof.
  revert i. induction l as [|y r IH]; intros i H; cbn [length] in H; [lia|].
  destruct i; cbn [upd nth_error]; [reflexivity|]. apply IH. lia.
Qed.

Lemma nth_error_upd_other {A : Type} (i j : nat) (x : A) (l : list A) :
  i <> j -> nth_error (upd i x l) j = nth_error l j.
Proof.
  revert i j. induction l as [|y r IH]; intros i j H; [destruct i; reflexivity|].
  destruct i, j; cbn [upd nth_error]; try reflexivity; [congruence|]. apply IH. congruence.
Qed.

(** statuses only grow, indices of elements never change *)
Definition store_le (el el' : estore) : Prop :=
  length el = length el' /\
  forall e q s, nth_error el e = Some (q, s) ->
                exists s', nth_error el' e = Some (q, s') /\ status_leb s s' = true.

Lemma store_le_refl (el : estore) : store_le el el.
Proof.
  split; [reflexivity|]. intros e q s H. exists s. split; [exact H|apply status_leb_refl].
Qed.

Lemma store_le_trans (a b c : estore) : store_le a b -> store_le b c -> store_le a c.
Proof.
  intros [L1 H1] [L2 H2]. split; [congruence|].
  intros e q s H. destruct (H1 e q s H) as [s1 [E1 O1]]. destruct (H2 e q s1 E1) as [s2 [E2 O2]].
  exists s2. split; [exact E2|]. eapply status_leb_trans; eassumption.
Qed.

Lemma store_le_upd (el : estore) (e : nat) (q : quad) (s s' : status) :
  nth_error el e = Some (q, s) -> status_leb s s' = true -> store_le el (upd e (q, s') el).
Proof.
  intros H O. split; [symmetry; apply upd_length|].
  intros e' q' s0 H'. destruct (Nat.eq_dec e e') as [E|N].
  - subst e'. rewrite H in H'. inversion H'. subst q' s0. exists s'. split; [|exact O].
    apply nth_error_upd_same. apply nth_error_Some. congruence.
  - exists s0. split; [|apply status_leb_refl]. rewrite nth_error_upd_other by exact N. exact H'.
Qed.

Lemma prepare_elem_le (e : nat) (el el' : estore) (o : cout) :
  prepare_elem e el = (el', o) -> store_le el el'.
Proof.
  unfold prepare_elem. destruct (nth_error el e) as [[q s]|] eqn:E.
  - destruct s; intros H; inversion H; subst; try apply store_le_refl.
    eapply store_le_upd; [exact E|reflexivity].
  - intros H. inversion H. apply store_le_refl.
Qed.

Lemma compute_elem_le (e : nat) (el el' : estore) (o : cout) :
  compute_elem e el = (el', o) -> store_le el el'.
Proof.
  unfold compute_elem. destruct (nth_error el e) as [[q s]|] eqn:E.
  - destruct s; intros H; inversion H; subst; try apply store_le_refl.
    eapply store_le_upd; [exact E|reflexivity].
  - intros H. inversion H. apply store_le_refl.
Qed.

Lemma run_seq_le (f : nat -> estore -> estore * cout) :
  (forall e el el' o, f e el = (el', o) -> store_le el el') ->
  forall ids el el' o, run_seq f ids el = (el', o) -> store_le el el'.
Proof.
  intros Hf. induction ids as [|e r IH]; intros el el' o H; cbn [run_seq] in H.
  - inversion H. apply store_le_refl.
  - destruct (f e el) as [el1 o1] eqn:E. pose proof (Hf _ _ _ _ E) as L1.
    destruct o1; try (inversion H; subst; exact L1).
    eapply store_le_trans; [exact L1|]. eapply IH. exact H.
Qed.

(** prepare() over a list of existing elements never throws and leaves every one of them at least Prepared *)
Lemma run_seq_prepare (ids : list nat) :
  forall el el' o,
  run_seq prepare_elem ids el = (el', o) ->
  (forall e, In e ids -> (e < length el)%nat) ->
  o = OUnit /\
  forall e, In e ids -> exists q s, nth_error el' e = Some (q, s) /\ status_leb Prepared s = true.
Proof.
  induction ids as [|e r IH]; intros el el' o H V; cbn [run_seq] in H.
  - inversion H. split; [reflexivity|]. intros e [].
  - destruct (prepare_elem e el) as [el1 o1] eqn:E.
    pose proof (prepare_elem_le _ _ _ _ E) as L1.
    assert (Ve : (e < length el)%nat) by (apply V; left; reflexivity).
    assert (P1 : o1 = OUnit /\ exists q s, nth_error el1 e = Some (q, s) /\ status_leb Prepared s = true).
    { unfold prepare_elem in E. destruct (nth_error el e) as [[q s]|] eqn:En.
      - destruct s; inversion E; subst; (split; [reflexivity|]).
        + exists q, Prepared. split; [|reflexivity]. apply nth_error_upd_same. exact Ve.
        + exists q, Prepared. split; [exact En|reflexivity].
        + exists q, Computed. split; [exact En|reflexivity].
      - apply nth_error_None in En. lia. }
    destruct P1 as [-> [q [s [En O]]]].
    assert (V1 : forall e', In e' r -> (e' < length el1)%nat).
    { intros e' I. destruct L1 as [Len _]. rewrite <- Len. apply V. right. exact I. }
    destruct (IH _ _ _ H V1) as [-> Hall]. split; [reflexivity|].
    intros e' [<-|I]; [|apply Hall; exact I].
    pose proof (run_seq_le _ prepare_elem_le _ _ _ _ H) as [_ L2].
    destruct (L2 _ _ _ En) as [s2 [En2 O2]]. exists q, s2. split; [exact En2|].
    eapply status_leb_trans; eassumption.
Qed.

(** a bulk compute that returns normally leaves every element it went through Computed *)
Lemma run_seq_compute_unit (ids : list nat) :
  forall el el',
  run_seq compute_elem ids el = (el', OUnit) ->
  forall e, In e ids -> exists q, nth_error el' e = Some (q, Computed).
Proof.
  induction ids as [|e r IH]; intros el el' H e' I; [destruct I|].
  cbn [run_seq] in H. destruct (compute_elem e el) as [el1 o1] eqn:E.
  destruct o1; try discriminate H.
  destruct I as [<-|I]; [|eapply IH; eassumption].
  assert (P1 : exists q, nth_error el1 e = Some (q, Computed)).
  { unfold compute_elem in E. destruct (nth_error el e) as [[q s]|] eqn:En; [|discriminate E].
    destruct s; inversion E; subst.
    - exists q. apply nth_error_upd_same. apply nth_error_Some. congruence.
    - exists q. exact En. }
  destruct P1 as [q En]. pose proof (run_seq_le _ compute_elem_le _ _ _ _ H) as [_ L2].
  destruct (L2 _ _ _ En) as [s2 [En2 O2]]. apply status_leb_Computed in O2. subst s2. exists q. exact En2.
Qed.

(** a bulk compute over elements that are all at least Prepared does not throw *)
Lemma run_seq_compute_ok (ids : list nat) :
  forall el,
  (forall e, In e ids -> exists q s, nth_error el e = Some (q, s) /\ status_leb Prepared s = true) ->
  snd (run_seq compute_elem ids el) = OUnit.
Proof.
  induction ids as [|e r IH]; intros el H; [reflexivity|].
  cbn [run_seq]. destruct (compute_elem e el) as [el1 o1] eqn:E.
  pose proof (compute_elem_le _ _ _ _ E) as [_ L1].
  assert (o1 = OUnit) as ->.
  { destruct (H e (or_introl eq_refl)) as [q [s [En O]]]. unfold compute_elem in E. rewrite En in E.
    destruct s; inversion E; try reflexivity. discriminate O. }
  apply IH. intros e' I. destruct (H e' (or_intror I)) as [q [s [En O]]].
  destruct (L1 _ _ _ En) as [s1 [En1 O1]]. exists q, s1. split; [exact En1|].
  eapply status_leb_trans; eassumption.
Qed.

(** the only exceptions of the element operations; Dangling needs a missing element *)
Lemma run_seq_not_dangling (f : nat -> estore -> estore * cout) :
  (forall e el el' o, f e el = (el', o) -> store_le el el') ->
  (forall e el, (e < length el)%nat -> snd (f e el) <> OThrows Dangling) ->
  forall ids el, (forall e, In e ids -> (e < length el)%nat) ->
  snd (run_seq f ids el) <> OThrows Dangling.
Proof.
  intros Hle Hf. induction ids as [|e r IH]; intros el V; cbn [run_seq]; [discriminate|].
  destruct (f e el) as [el1 o1] eqn:E.
  pose proof (Hf e el (V e (or_introl eq_refl))) as N. rewrite E in N. cbn [snd] in N.
  destruct (Hle _ _ _ _ E) as [Len _].
  destruct o1; cbn [snd]; try exact N.
  apply IH. intros e' I. rewrite <- Len. apply V. right. exact I.
Qed.

Lemma prepare_elem_not_dangling (e : nat) (el : estore) :
  (e < length el)%nat -> snd (prepare_elem e el) <> OThrows Dangling.
Proof.
  intros H. unfold prepare_elem. destruct (nth_error el e) as [[q s]|] eqn:E.
  - destruct s; discriminate.
  - apply nth_error_None in E. lia.
Qed.

Lemma compute_elem_not_dangling (e : nat) (el : estore) :
  (e < length el)%nat -> snd (compute_elem e el) <> OThrows Dangling.
Proof.
  intros H. unfold compute_elem. destruct (nth_error el e) as [[q s]|] eqn:E.
  - destruct s; discriminate.
  - apply nth_error_None in E. lia.
Qed.

(** * Layer 1: the generated tables *)

Lemma nodupb_sound (l : list (nat * nat * nat * nat)) : nodupb l = true -> NoDup l.
Proof.
  induction l as [|a r IH]; cbn [nodupb]; intros H; [constructor|].
  apply andb_true_iff in H. destruct H as [H1 H2]. constructor; [|apply IH; exact H2].
  intros I. apply negb_true_iff in H1.
  assert (E : existsb (quad_eqb a) r = true).
  { apply existsb_exists. exists a. split; [exact I|apply quad_eqb_refl]. }
  congruence.
Qed.

(** an entry is a permutation of 0..3 carrying the sign of its parity *)
Definition perm_ok (p : perm4) : Prop :=
  quad_in_range (fst p) = true /\ quad_distinct (fst p) = true /\ snd p = parity_sign (fst p).

(** permutations4 (src/pomerol/Misc.cpp) consists of 24 distinct permutations of 0..3, each with the sign of its
    parity: a complete finite check over the generated table. *)
Theorem perm_table_correct :
  length permutations4 = 24%nat /\ permutations4_declared_size = 24%nat /\
  NoDup (map fst permutations4) /\ Forall perm_ok permutations4.
Proof.
  split; [vm_compute; reflexivity|]. split; [vm_compute; reflexivity|]. split.
  - apply nodupb_sound. vm_compute. reflexivity.
  - unfold permutations4. repeat (apply Forall_cons; [repeat split; vm_compute; reflexivity|]). apply Forall_nil.
Qed.

(** hence it lists every permutation of 0..3 *)
Theorem perm_table_complete : forall p : nat * nat * nat * nat,
  quad_in_range p = true -> quad_distinct p = true -> In p (map fst permutations4).
Proof.
  intros p R D.
  assert (E : existsb (quad_eqb p) (map fst permutations4) = true).
  { destruct p as [[[a b] c] d]. unfold quad_in_range in R.
    rewrite !andb_true_iff, !Nat.ltb_lt in R. destruct R as [[[Ra Rb] Rc] Rd].
    destruct a as [|[|[|[|a]]]]; try lia; destruct b as [|[|[|[|b]]]]; try lia;
      destruct c as [|[|[|[|c]]]]; try lia; destruct d as [|[|[|[|d]]]]; try lia;
        try (vm_compute in D; discriminate D); vm_compute; reflexivity. }
  apply existsb_exists in E. destruct E as [x [I Ex]]. apply quad_eqb_eq in Ex. subst x. exact I.
Qed.

(** every index into permutations4 used by IndexContainer4::set is inside the table, the frequency array has
    four entries and the argument slots are perm[0], perm[1], perm[2]: no read past an array in perm_eval *)
Theorem table_reads_in_bounds :
  (set_owner_perm_index < length permutations4)%nat /\
  Forall (fun a => (snd a < length permutations4)%nat) set_aliases /\
  (forall n1 n2 n3, length (freq_array n1 n2 n3) = 4%nat) /\
  Forall (fun k => (k < 4)%nat) eval_arg_slots /\ length eval_arg_slots = 3%nat.
Proof.
  split; [vm_compute; lia|]. split.
  - unfold set_aliases. repeat (apply Forall_cons; [vm_compute; lia|]). apply Forall_nil.
  - split; [intros; reflexivity|]. split; [|reflexivity].
    unfold eval_arg_slots. repeat (apply Forall_cons; [lia|]). apply Forall_nil.
Qed.

Section Tables.
  Variable V : Type.
  Variable vneg : V -> V.
  Variable vscale : Z -> V -> V.
  Variable chi : quad -> triple -> V.

  (** what layer 2 needs to know about the tables: the entry made for the owner returns chi of the owner's key,
      every alias entry returns chi of the alias key *)
  Definition tables_ok : Prop :=
    (forall q, entry_denotes V vscale chi (perm_at set_owner_perm_index) q q) /\
    (forall req pos idx, In (req, pos, idx) set_aliases ->
       forall q, alias_cond q req = true ->
                 entry_denotes V vscale chi (perm_at idx) q (alias_key q pos)).

  Hypothesis swap12 : swap12_law V vneg chi.
  Hypothesis swap34 : swap34_law V vneg chi.
  Hypothesis invol : neg_invol V vneg.
  Hypothesis scale : scale_law V vneg vscale.

  (** The alias table of IndexContainer4::set, with ElementWithPermFreq::operator(), implements
      chi_jikl(w1,w2;w3) = -chi_ijkl(w2,w1;w3), chi_ijlk(w1,w2;w3) = -chi_ijkl(w1,w2;w1+w2-w3) and their composition. *)
  Theorem alias_denotes : tables_ok.
  Proof.
    destruct scale as [S1 Sm]. split.
    - intros [[[i j] k] l] [[n1 n2] n3].
      cbv - [Z.add Z.sub Z.opp]. apply S1.
    - intros req pos idx I [[[i j] k] l] C [[n1 n2] n3].
      unfold set_aliases in I. cbn [In] in I.
      destruct I as [I|[I|[I|[]]]]; inversion I; subst req pos idx; clear I C;
        cbv - [Z.add Z.sub Z.opp].
      + rewrite Sm. symmetry. apply swap12.
      + rewrite Sm. symmetry. apply swap34.
      + rewrite S1. rewrite (swap12 i j l k n1 n2 n3). rewrite (swap34 i j k l n2 n1 n3). rewrite invol.
        replace (n2 + n1 - n3) with (n1 + n2 - n3) by lia. reflexivity.
  Qed.
End Tables.

(** the hypotheses of [alias_denotes] are satisfiable by a chi that depends on all indices and all frequencies *)
Example chi_example : exists (chi : quad -> triple -> Z),
  swap12_law Z Z.opp chi /\ swap34_law Z Z.opp chi /\ neg_invol Z Z.opp /\ scale_law Z Z.opp Z.mul /\
  chi (0, 1, 0, 1)%nat (1, 2, 3) <> chi (0, 1, 0, 1)%nat (2, 1, 3).
Proof.
  exists (fun q n =>
            let '(i, j, k, l) := q in let '(w1, w2, w3) := n in
            (Z.of_nat i * w2 - Z.of_nat j * w1) * (Z.of_nat k * (w1 + w2 - w3) - Z.of_nat l * w3)).
  repeat split.
  - intros i j k l w1 w2 w3. cbn beta iota. ring.
  - intros i j k l w1 w2 w3. cbn beta iota. ring.
  - intros v. apply Z.opp_involutive.
  - intros v. destruct v; reflexivity.
  - intros v. destruct v; reflexivity.
  - vm_compute. discriminate.
Qed.
