(** Proofs about the normal-ordering bubble sort [Poly.normalize_and_insert] (the model of
    Pomerol::Operator::normalize_and_insert) and about [Poly.insert]:

    - soundness: the target polynomial gains exactly c * (matrix of the raw monomial);
    - totality: the fuel [fuel_for m] is enough, nothing is out of bounds, nothing throws;
    - well-formedness: the map stays strictly sorted and all keys are normal ordered.

    The termination measure is the number of inversions of the monomial for the operator order:
    every swap removes exactly one inversion, a contraction call is made on a monomial with
    strictly fewer inversions, so [inv m + 1] units of fuel are enough, and
    [inv m <= |m|^2 < fuel_for m].

    No axioms are used. *)
Require Import Bool List Arith Lia Ring_theory Ring ZArith.
From PV Require Import Outcome Fock Poly PolySem CAR.
Import ListNotations.

(** * The operator order *)

Lemma op_compare_refl : forall a, op_compare a a = Eq.
Proof. intros [[|] i]; unfold op_compare; cbn [fst snd]; apply Nat.compare_refl. Qed.

Lemma op_compare_eq : forall a b, op_compare a b = Eq -> a = b.
Proof.
  intros [[|] i] [[|] j]; unfold op_compare; cbn [fst snd]; intro H;
    try discriminate; apply Nat.compare_eq_iff in H; subst; reflexivity.
Qed.

Lemma op_compare_antisym : forall a b, op_compare b a = CompOpp (op_compare a b).
Proof.
  intros [[|] i] [[|] j]; unfold op_compare; cbn [fst snd]; try reflexivity;
    apply Nat.compare_antisym.
Qed.

Lemma op_compare_lt_trans : forall a b c,
  op_compare a b = Lt -> op_compare b c = Lt -> op_compare a c = Lt.
Proof.
  intros [[|] i] [[|] j] [[|] k]; unfold op_compare; cbn [fst snd]; intros H1 H2;
    try discriminate; try reflexivity;
    apply Nat.compare_lt_iff in H1; apply Nat.compare_lt_iff in H2; apply Nat.compare_lt_iff; lia.
Qed.

Lemma op_compare_gt_lt : forall a b, op_compare a b = Gt -> op_compare b a = Lt.
Proof. intros a b H. rewrite op_compare_antisym, H. reflexivity. Qed.

Lemma op_eqb_refl : forall a, op_eqb a a = true.
Proof. intro a. unfold op_eqb. rewrite op_compare_refl. reflexivity. Qed.

Lemma op_eqb_true : forall a b, op_eqb a b = true -> a = b.
Proof.
  intros a b. unfold op_eqb. destruct (op_compare a b) eqn:E; try discriminate.
  intros _. apply op_compare_eq; exact E.
Qed.

Lemma op_gtb_true : forall a b, op_gtb a b = true -> op_compare a b = Gt.
Proof. intros a b. unfold op_gtb. destruct (op_compare a b); congruence. Qed.

Lemma op_gtb_antisym : forall a b, op_gtb a b = true -> op_gtb b a = false.
Proof.
  intros a b H. apply op_gtb_true in H. unfold op_gtb.
  rewrite op_compare_antisym, H. reflexivity.
Qed.

(** neither equal nor greater: strictly smaller *)
Lemma op_not_eq_gt_lt : forall a b, op_eqb a b = false -> op_gtb a b = false -> op_compare a b = Lt.
Proof. intros a b. unfold op_eqb, op_gtb. destruct (op_compare a b); congruence. Qed.

(** [prev > cur] and [prev == flip(cur)]: prev = c_i, cur = c^+_i *)
Lemma op_gt_flip : forall p cur, op_gtb p cur = true -> op_eqb p (flip_type cur) = true ->
  p = cann (op_idx cur) /\ cur = cdag (op_idx cur).
Proof.
  intros p [tc j] Hgt Hfl. apply op_eqb_true in Hfl. subst p.
  unfold flip_type, op_idx, cann, cdag in *; cbn [fst snd] in *.
  destruct tc; [|split; reflexivity].
  unfold op_gtb, op_compare in Hgt; cbn [fst snd negb] in Hgt. discriminate.
Qed.

(** [prev != cur] and [prev != flip(cur)]: different modes *)
Lemma op_neq_noflip_idx : forall p cur, op_eqb p cur = false -> op_eqb p (flip_type cur) = false ->
  op_idx p <> op_idx cur.
Proof.
  intros [tp i] [tc j] H1 H2. unfold flip_type, op_idx in *; cbn [fst snd] in *.
  intro E; subst j.
  destruct tp, tc; cbn [negb] in H2;
    first [ rewrite op_eqb_refl in H1; discriminate | rewrite op_eqb_refl in H2; discriminate ].
Qed.

(** * The monomial order *)

Lemma lex_compare_refl : forall a, lex_compare a a = Eq.
Proof. induction a as [|x a IH]; cbn [lex_compare]; [reflexivity|]. rewrite op_compare_refl; exact IH. Qed.

Lemma lex_compare_eq : forall a b, lex_compare a b = Eq -> a = b.
Proof.
  induction a as [|x a IH]; destruct b as [|y b]; cbn [lex_compare]; intro H; try discriminate;
    [reflexivity|].
  destruct (op_compare x y) eqn:E; try discriminate.
  apply op_compare_eq in E. apply IH in H. subst; reflexivity.
Qed.

Lemma lex_compare_antisym : forall a b, lex_compare b a = CompOpp (lex_compare a b).
Proof.
  induction a as [|x a IH]; destruct b as [|y b]; cbn [lex_compare]; try reflexivity.
  rewrite (op_compare_antisym x y). destruct (op_compare x y); cbn [CompOpp]; auto.
Qed.

Lemma lex_compare_lt_trans : forall a b c,
  lex_compare a b = Lt -> lex_compare b c = Lt -> lex_compare a c = Lt.
Proof.
  induction a as [|x a IH]; destruct b as [|y b]; destruct c as [|z c]; cbn [lex_compare];
    intros H1 H2; try discriminate; try reflexivity.
  destruct (op_compare x y) eqn:E1; try discriminate;
  destruct (op_compare y z) eqn:E2; try discriminate.
  - apply op_compare_eq in E1. apply op_compare_eq in E2. subst. rewrite op_compare_refl.
    eapply IH; eauto.
  - apply op_compare_eq in E1. subst. rewrite E2. reflexivity.
  - apply op_compare_eq in E2. subst. rewrite E1. reflexivity.
  - rewrite (op_compare_lt_trans x y z E1 E2). reflexivity.
Qed.

Lemma mono_compare_refl : forall a, mono_compare a a = Eq.
Proof. intro a. unfold mono_compare. rewrite Nat.compare_refl. apply lex_compare_refl. Qed.

(** the map order identifies only equal monomials *)
Lemma mono_compare_eq : forall a b, mono_compare a b = Eq -> a = b.
Proof.
  intros a b. unfold mono_compare.
  destruct (Nat.compare (length a) (length b)); try discriminate. apply lex_compare_eq.
Qed.

Lemma mono_compare_antisym : forall a b, mono_compare b a = CompOpp (mono_compare a b).
Proof.
  intros a b. unfold mono_compare. rewrite (Nat.compare_antisym (length a) (length b)).
  destruct (Nat.compare (length a) (length b)); cbn [CompOpp]; try reflexivity.
  apply lex_compare_antisym.
Qed.

Lemma mono_compare_gt_lt : forall a b, mono_compare a b = Gt -> mono_compare b a = Lt.
Proof. intros a b H. rewrite mono_compare_antisym, H. reflexivity. Qed.

Lemma mono_compare_lt_gt : forall a b, mono_compare a b = Lt -> mono_compare b a = Gt.
Proof. intros a b H. rewrite mono_compare_antisym, H. reflexivity. Qed.

Lemma mono_compare_lt_trans : forall a b c,
  mono_compare a b = Lt -> mono_compare b c = Lt -> mono_compare a c = Lt.
Proof.
  intros a b c. unfold mono_compare.
  destruct (Nat.compare (length a) (length b)) eqn:E1; try discriminate;
  destruct (Nat.compare (length b) (length c)) eqn:E2; try discriminate; intros H1 H2.
  - apply Nat.compare_eq_iff in E1. apply Nat.compare_eq_iff in E2.
    replace (Nat.compare (length a) (length c)) with Eq
      by (symmetry; apply Nat.compare_eq_iff; lia).
    eapply lex_compare_lt_trans; eauto.
  - apply Nat.compare_eq_iff in E1. apply Nat.compare_lt_iff in E2.
    replace (Nat.compare (length a) (length c)) with Lt
      by (symmetry; apply Nat.compare_lt_iff; lia). reflexivity.
  - apply Nat.compare_lt_iff in E1. apply Nat.compare_eq_iff in E2.
    replace (Nat.compare (length a) (length c)) with Lt
      by (symmetry; apply Nat.compare_lt_iff; lia). reflexivity.
  - apply Nat.compare_lt_iff in E1. apply Nat.compare_lt_iff in E2.
    replace (Nat.compare (length a) (length c)) with Lt
      by (symmetry; apply Nat.compare_lt_iff; lia). reflexivity.
Qed.

(** * Normal-ordered monomials *)

Lemma mono_normal_snoc : forall l a b,
  mono_normal (l ++ [a]) -> op_compare a b = Lt -> mono_normal (l ++ [a; b]).
Proof.
  induction l as [|x l IH]; intros a b H Hab.
  - cbn [app mono_normal]. auto.
  - rewrite <- app_comm_cons in H. rewrite <- app_comm_cons.
    cbn [mono_normal] in H. destruct H as [Hx Hl].
    cbn [mono_normal]. split; [|apply IH; assumption].
    destruct l as [|y l]; cbn [app] in *; exact Hx.
Qed.

(** * Inversions: the termination measure *)

Definition cnt (a : op) (l : list op) : nat := length (filter (fun b => op_gtb a b) l).

(** number of pairs i < j with m[i] > m[j] *)
Fixpoint inv (m : list op) : nat :=
  match m with
  | [] => 0
  | a :: t => cnt a t + inv t
  end.

Lemma cnt_app : forall a l1 l2, cnt a (l1 ++ l2) = cnt a l1 + cnt a l2.
Proof. intros a l1 l2. unfold cnt. rewrite filter_app, app_length. reflexivity. Qed.

Lemma cnt_cons : forall a b l, cnt a (b :: l) = (if op_gtb a b then 1 else 0) + cnt a l.
Proof. intros a b l. unfold cnt. cbn [filter]. destruct (op_gtb a b); reflexivity. Qed.

Lemma cnt_le_length : forall a l, cnt a l <= length l.
Proof.
  intros a l. induction l as [|b l IH]; [apply Nat.le_refl|].
  rewrite cnt_cons. cbn [length]. destruct (op_gtb a b); lia.
Qed.

(** a swap of an adjacent out-of-order pair removes exactly one inversion *)
Lemma inv_swap : forall a b A B, op_gtb a b = true ->
  inv (A ++ a :: b :: B) = S (inv (A ++ b :: a :: B)).
Proof.
  intros a b A B Hab. induction A as [|x A IH].
  - cbn [app inv]. rewrite !cnt_cons, Hab, (op_gtb_antisym a b Hab). lia.
  - rewrite <- !app_comm_cons. cbn [inv]. rewrite IH, !cnt_app, !cnt_cons. lia.
Qed.

(** dropping an adjacent out-of-order pair removes at least one inversion *)
Lemma inv_remove : forall a b A B, op_gtb a b = true ->
  inv (A ++ B) < inv (A ++ a :: b :: B).
Proof.
  intros a b A B Hab. induction A as [|x A IH].
  - cbn [app inv]. rewrite !cnt_cons, Hab. lia.
  - rewrite <- !app_comm_cons. cbn [inv]. rewrite !cnt_app, !cnt_cons. lia.
Qed.

Lemma inv_bound : forall m, inv m <= length m * length m.
Proof.
  induction m as [|a m IH]; cbn [inv length]; [lia|].
  pose proof (cnt_le_length a m). nia.
Qed.

Lemma inv_lt_fuel_for : forall m, inv m < fuel_for m.
Proof. intro m. unfold fuel_for. pose proof (inv_bound m). nia. Qed.

(** * Range *)

Lemma mono_in_range_app : forall M a b, mono_in_range M (a ++ b) <-> mono_in_range M a /\ mono_in_range M b.
Proof. intros M a b. unfold mono_in_range. apply Forall_app. Qed.

Lemma mono_in_range_cons : forall M o m, mono_in_range M (o :: m) <-> op_idx o < M /\ mono_in_range M m.
Proof. intros M o m. unfold mono_in_range. apply Forall_cons_iff. Qed.

Section NP.
Variable K : Type.
Variables (k0 k1 : K) (kadd kmul ksub : K -> K -> K) (kopp : K -> K).
Variable kzero : K -> bool.

Local Arguments PassVanish {K} tgt.
Local Arguments PassEnd {K} m c tgt swapped.
Local Arguments PassFail {K} e.

Local Notation insert := (insert K kadd kzero).
Local Notation pass := (pass K kopp).
Local Notation nai := (normalize_and_insert K kadd kopp kzero).
Local Notation normalize := (normalize K kadd kopp kzero).
Local Notation coef_mono := (coef_mono K k0 k1 kopp).
Local Notation coef_poly := (coef_poly K k0 k1 kadd kmul kopp).
Local Notation poly_sorted := (poly_sorted K).
Local Notation poly_normal := (poly_normal K).

(** ** Unfolding equations (all by computation) *)

Lemma pass_nil : forall rec d p c tgt sw,
  pass rec d p [] c tgt sw = PassEnd (rev (p :: d)) c tgt sw.
Proof. reflexivity. Qed.

Lemma pass_cons : forall rec d p cur r c tgt sw,
  pass rec d p (cur :: r) c tgt sw =
  if op_eqb p cur then PassVanish tgt
  else if op_gtb p cur then
    match (if op_eqb p (flip_type cur) then rec (rev d ++ r) c tgt else Done tgt) with
    | Done tgt' => pass rec (cur :: d) p r (kopp c) tgt' true
    | e => PassFail e
    end
  else pass rec (p :: d) cur r c tgt sw.
Proof.
  intros rec d p cur r c tgt sw. cbn [Poly.pass].
  destruct (op_eqb p cur); [reflexivity|].
  destruct (op_gtb p cur); [|reflexivity].
  destruct (if op_eqb p (flip_type cur) then rec (rev d ++ r) c tgt else Done tgt); reflexivity.
Qed.

Lemma nai_O : forall m c tgt, nai 0 m c tgt = OutOfFuel.
Proof. reflexivity. Qed.

Lemma nai_S : forall f m c tgt,
  nai (S f) m c tgt =
  match m with
  | first :: x :: r =>
    match pass (nai f) [] first (x :: r) c tgt false with
    | PassVanish tgt' => Done tgt'
    | PassEnd m' c' tgt' true => nai f m' c' tgt'
    | PassEnd m' c' tgt' false => Done (insert m' c' tgt')
    | PassFail e => e
    end
  | _ => Done (insert m c tgt)
  end.
Proof. intros f [|first [|x r]] c tgt; reflexivity. Qed.

(** [PassFail] never carries a normal result *)
Lemma pass_fail_not_done : forall rec rest d p c tgt sw e,
  pass rec d p rest c tgt sw = PassFail e -> forall x, e <> Done x.
Proof.
  intros rec. induction rest as [|cur rest IH]; intros d p c tgt sw e H.
  - rewrite pass_nil in H. discriminate.
  - rewrite pass_cons in H.
    destruct (op_eqb p cur) eqn:Eeq; [discriminate|].
    destruct (op_gtb p cur) eqn:Egt; [|eapply IH; exact H].
    destruct (if op_eqb p (flip_type cur) then rec (rev d ++ rest) c tgt else Done tgt)
      as [tgt1| | | |] eqn:Er;
      try (inversion H; subst; intros x Hx; discriminate).
    eapply IH; exact H.
Qed.

(** ** Totality *)

Lemma pass_total : forall f,
  (forall m c tgt, inv m < f -> exists tgt', nai f m c tgt = Done tgt') ->
  forall rest d p c tgt sw,
  inv (rev d ++ p :: rest) <= f ->
  (sw = true -> inv (rev d ++ p :: rest) < f) ->
  match pass (nai f) d p rest c tgt sw with
  | PassVanish _ => True
  | PassEnd m' _ _ sw' => sw' = true -> inv m' < f
  | PassFail _ => False
  end.
Proof.
  intros f Hrec. induction rest as [|cur rest IH]; intros d p c tgt sw Hle Hsw.
  - rewrite pass_nil. cbn [rev]. exact Hsw.
  - rewrite pass_cons.
    destruct (op_eqb p cur) eqn:Eeq; [exact I|].
    destruct (op_gtb p cur) eqn:Egt.
    + pose proof (inv_swap p cur (rev d) rest Egt) as Hswap.
      pose proof (inv_remove p cur (rev d) rest Egt) as Hrem.
      assert (Hnext : forall tgt1,
        match pass (nai f) (cur :: d) p rest (kopp c) tgt1 true with
        | PassVanish _ => True
        | PassEnd m' _ _ sw' => sw' = true -> inv m' < f
        | PassFail _ => False
        end).
      { intro tgt1. apply IH; cbn [rev]; rewrite <- app_assoc; cbn [app]; intros; lia. }
      destruct (op_eqb p (flip_type cur)) eqn:Efl.
      * destruct (Hrec (rev d ++ rest) c tgt) as [tgt1 Ht1]; [lia|].
        rewrite Ht1. apply Hnext.
      * apply Hnext.
    + apply IH; cbn [rev]; rewrite <- app_assoc; cbn [app]; assumption.
Qed.

(** [inv m + 1] units of fuel are enough *)
Lemma nai_total : forall f m c tgt, inv m < f -> exists tgt', nai f m c tgt = Done tgt'.
Proof.
  induction f as [|f IHf]; intros m c tgt Hf; [lia|].
  rewrite nai_S. destruct m as [|first [|x r]]; try (eexists; reflexivity).
  pose proof (pass_total f IHf (x :: r) [] first c tgt false) as HP.
  cbn [rev app] in HP.
  destruct (pass (nai f) [] first (x :: r) c tgt false) as [tgt1|m' c' tgt1 [|]|e].
  - eexists; reflexivity.
  - apply IHf. apply HP; [lia|discriminate|reflexivity].
  - eexists; reflexivity.
  - exfalso. apply HP; [lia|discriminate].
Qed.

Lemma normalize_total : normalize_total_stmt K kadd kopp kzero.
Proof.
  unfold normalize_total_stmt. intros m c tgt. unfold Poly.normalize.
  apply nai_total. apply inv_lt_fuel_for.
Qed.

(** ** The map invariant *)

(** [m] is below the first key of [p] *)
Definition key_lb (m : monomial) (p : poly K) : Prop :=
  match p with
  | [] => True
  | (m', _) :: _ => mono_compare m m' = Lt
  end.

Lemma poly_sorted_cons : forall m c p, poly_sorted ((m, c) :: p) <-> key_lb m p /\ poly_sorted p.
Proof.
  intros m c p. cbn [PolySem.poly_sorted]. unfold key_lb.
  destruct p as [|[m' c'] p]; split; intros [H1 H2]; split; assumption.
Qed.

Lemma key_lb_insert : forall m0 m c p,
  mono_compare m0 m = Lt -> key_lb m0 p -> poly_sorted p -> key_lb m0 (insert m c p).
Proof.
  intros m0 m c p Hm Hlb Hs. destruct p as [|[m' c'] p]; cbn [Poly.insert].
  - exact Hm.
  - destruct (mono_compare m m') eqn:E.
    + destruct (kzero (kadd c' c)); [|exact Hlb].
      apply (proj1 (poly_sorted_cons _ _ _)) in Hs. destruct Hs as [Hlb' _].
      destruct p as [|[m'' c''] p]; [exact I|].
      unfold key_lb in *. eapply mono_compare_lt_trans; eauto.
    + exact Hm.
    + exact Hlb.
Qed.

Lemma insert_sorted : forall m c p, poly_sorted p -> poly_sorted (insert m c p).
Proof.
  intros m c. induction p as [|[m' c'] p IH]; intro Hs.
  - cbn [Poly.insert PolySem.poly_sorted]. auto.
  - cbn [Poly.insert]. destruct (mono_compare m m') eqn:E.
    + apply (proj1 (poly_sorted_cons _ _ _)) in Hs. destruct Hs as [Hlb Hs].
      destruct (kzero (kadd c' c)); [exact Hs|].
      apply poly_sorted_cons. split; assumption.
    + apply poly_sorted_cons. split; [exact E|exact Hs].
    + apply (proj1 (poly_sorted_cons _ _ _)) in Hs. destruct Hs as [Hlb Hs].
      apply poly_sorted_cons. split; [|apply IH; exact Hs].
      apply key_lb_insert; auto. apply mono_compare_gt_lt; exact E.
Qed.

Lemma insert_normal : forall m c p, mono_normal m -> poly_normal p -> poly_normal (insert m c p).
Proof.
  intros m c p Hm. unfold PolySem.poly_normal. induction p as [|[m' c'] p IH]; intro Hp.
  - cbn [Poly.insert]. constructor; [exact Hm|constructor].
  - cbn [Poly.insert]. inversion Hp as [|? ? Hh Ht]; subst.
    destruct (mono_compare m m') eqn:E.
    + destruct (kzero (kadd c' c)); [exact Ht|]. constructor; [exact Hh|exact Ht].
    + constructor; [exact Hm|exact Hp].
    + constructor; [exact Hh|apply IH; exact Ht].
Qed.

Lemma pass_wf : forall rec,
  (forall m c tgt tgt', poly_sorted tgt -> poly_normal tgt -> rec m c tgt = Done tgt' ->
     poly_sorted tgt' /\ poly_normal tgt') ->
  forall rest d p c tgt sw,
  poly_sorted tgt -> poly_normal tgt ->
  (sw = false -> mono_normal (rev (p :: d))) ->
  match pass rec d p rest c tgt sw with
  | PassVanish tgt' => poly_sorted tgt' /\ poly_normal tgt'
  | PassEnd m' _ tgt' sw' => poly_sorted tgt' /\ poly_normal tgt' /\ (sw' = false -> mono_normal m')
  | PassFail _ => True
  end.
Proof.
  intros rec Hrec. induction rest as [|cur rest IH]; intros d p c tgt sw Hs Hn Hm.
  - rewrite pass_nil. auto.
  - rewrite pass_cons.
    destruct (op_eqb p cur) eqn:Eeq; [auto|].
    destruct (op_gtb p cur) eqn:Egt.
    + destruct (op_eqb p (flip_type cur)) eqn:Efl.
      * destruct (rec (rev d ++ rest) c tgt) as [tgt1| | | |] eqn:Er; try exact I.
        destruct (Hrec _ _ _ _ Hs Hn Er) as [Hs1 Hn1].
        apply IH; auto. discriminate.
      * apply IH; auto. discriminate.
    + apply IH; auto. intro Hsw. specialize (Hm Hsw).
      cbn [rev] in *. rewrite <- app_assoc. cbn [app].
      apply mono_normal_snoc; [exact Hm|]. apply op_not_eq_gt_lt; assumption.
Qed.

Lemma nai_wf : forall f m c tgt tgt',
  poly_sorted tgt -> poly_normal tgt -> nai f m c tgt = Done tgt' ->
  poly_sorted tgt' /\ poly_normal tgt'.
Proof.
  induction f as [|f IHf]; intros m c tgt tgt' Hs Hn H; [rewrite nai_O in H; discriminate|].
  rewrite nai_S in H.
  assert (Hshort : mono_normal m -> Done (insert m c tgt) = Done tgt' ->
                   poly_sorted tgt' /\ poly_normal tgt').
  { intros Hm HH. inversion HH; subst. split; [apply insert_sorted|apply insert_normal]; auto. }
  destruct m as [|first [|x r]]; [apply Hshort; cbn; auto | apply Hshort; cbn; auto |].
  clear Hshort.
  pose proof (pass_wf (nai f) IHf (x :: r) [] first c tgt false Hs Hn) as HP.
  pose proof (pass_fail_not_done (nai f) (x :: r) [] first c tgt false) as HF.
  destruct (pass (nai f) [] first (x :: r) c tgt false) as [tgt1|m' c' tgt1 [|]|e].
  - inversion H; subst. apply HP. intros _. cbn. auto.
  - destruct HP as [Hs1 [Hn1 _]]; [intros _; cbn; auto|].
    eapply IHf; eauto.
  - destruct HP as [Hs1 [Hn1 Hm1]]; [intros _; cbn; auto|].
    inversion H; subst. split; [apply insert_sorted|apply insert_normal]; auto.
  - exfalso. eapply HF; [reflexivity|exact H].
Qed.

Lemma normalize_wf : normalize_wf_stmt K kadd kopp kzero.
Proof.
  unfold normalize_wf_stmt. intros m c tgt tgt' Hs Hn H. unfold Poly.normalize in H.
  eapply nai_wf; eauto.
Qed.

(** ** Soundness *)

Section WithRing.
Hypothesis Hring : ring_ok K k0 k1 kadd kmul ksub kopp kzero.

Let Rth : ring_theory k0 k1 kadd kmul ksub kopp (@eq K) := proj1 Hring.
Add Ring Kring_NP : Rth.

Lemma coef_poly_nil : forall s t, coef_poly [] s t = k0.
Proof. reflexivity. Qed.

Lemma coef_poly_cons : forall m c p s t,
  coef_poly ((m, c) :: p) s t = kadd (kmul c (coef_mono m s t)) (coef_poly p s t).
Proof. reflexivity. Qed.

(** inserting adds c * <t|m|s>; the list need not be sorted *)
Lemma insert_sound : forall m c p s t,
  coef_poly (insert m c p) s t = kadd (coef_poly p s t) (kmul c (coef_mono m s t)).
Proof.
  intros m c p s t. induction p as [|[m' c'] p IH]; cbn [Poly.insert].
  - rewrite coef_poly_cons, coef_poly_nil. ring.
  - destruct (mono_compare m m') eqn:E.
    + apply mono_compare_eq in E. subst m'.
      destruct (kzero (kadd c' c)) eqn:Z.
      * apply (proj2 Hring) in Z. rewrite coef_poly_cons.
        transitivity (kadd (coef_poly p s t) (kmul (kadd c' c) (coef_mono m s t))); [|ring].
        rewrite Z. ring.
      * rewrite !coef_poly_cons. ring.
    + rewrite !coef_poly_cons. ring.
    + rewrite coef_poly_cons, IH, coef_poly_cons. ring.
Qed.

(** the invariant of the inner loop: [coef_poly tgt + c * coef_mono (whole array)] is preserved *)
Lemma pass_sound : forall rec M s t, length s = M ->
  (forall m c tgt tgt', mono_in_range M m -> rec m c tgt = Done tgt' ->
     coef_poly tgt' s t = kadd (coef_poly tgt s t) (kmul c (coef_mono m s t))) ->
  forall rest d p c tgt sw,
  mono_in_range M (rev d ++ p :: rest) ->
  match pass rec d p rest c tgt sw with
  | PassVanish tgt' =>
      coef_poly tgt' s t = kadd (coef_poly tgt s t) (kmul c (coef_mono (rev d ++ p :: rest) s t))
  | PassEnd m' c' tgt' _ =>
      mono_in_range M m' /\
      kadd (coef_poly tgt' s t) (kmul c' (coef_mono m' s t)) =
      kadd (coef_poly tgt s t) (kmul c (coef_mono (rev d ++ p :: rest) s t))
  | PassFail _ => True
  end.
Proof.
  intros rec M s t HM Hrec. induction rest as [|cur rest IH]; intros d p c tgt sw Hr.
  - rewrite pass_nil. cbn [rev]. split; [exact Hr|reflexivity].
  - rewrite pass_cons.
    pose proof Hr as Hr0.
    apply mono_in_range_app in Hr0. destruct Hr0 as [Hrd Hr0].
    apply mono_in_range_cons in Hr0. destruct Hr0 as [Hp Hr0].
    apply mono_in_range_cons in Hr0. destruct Hr0 as [Hcur Hrest].
    assert (Hsw : mono_in_range M (rev d ++ cur :: p :: rest)).
    { apply mono_in_range_app. split; [exact Hrd|].
      apply mono_in_range_cons. split; [exact Hcur|].
      apply mono_in_range_cons. split; assumption. }
    assert (Hdrop : mono_in_range M (rev d ++ rest)).
    { apply mono_in_range_app. split; assumption. }
    destruct (op_eqb p cur) eqn:Eeq.
    { apply op_eqb_true in Eeq. subst cur.
      rewrite (coef_mono_same_twice Hring) by lia. ring. }
    destruct (op_gtb p cur) eqn:Egt.
    + destruct (op_eqb p (flip_type cur)) eqn:Efl.
      * destruct (op_gt_flip p cur Egt Efl) as [Ep Ec].
        assert (Hi : op_idx cur < length s) by lia.
        remember (op_idx cur) as i eqn:Ei. clear Ei. subst p cur.
        destruct (rec (rev d ++ rest) c tgt) as [tgt1| | | |] eqn:Er; try exact I.
        pose proof (Hrec _ _ _ _ Hdrop Er) as H1.
        specialize (IH (cdag i :: d) (cann i) (kopp c) tgt1 true).
        cbn [rev] in IH. rewrite <- app_assoc in IH. cbn [app] in IH.
        specialize (IH Hsw).
        assert (Hcar : coef_mono (rev d ++ cann i :: cdag i :: rest) s t =
                       ksub (coef_mono (rev d ++ rest) s t)
                            (coef_mono (rev d ++ cdag i :: cann i :: rest) s t)).
        { apply (coef_mono_car Hring). exact Hi. }
        destruct (pass rec (cdag i :: d) (cann i) rest (kopp c) tgt1 true) as [tgt2|m' c' tgt2 sw'|e].
        -- rewrite IH, H1, Hcar. ring.
        -- destruct IH as [IHr IHe]. split; [exact IHr|]. rewrite IHe, H1, Hcar. ring.
        -- exact I.
      * pose proof (op_neq_noflip_idx p cur Eeq Efl) as Hidx.
        specialize (IH (cur :: d) p (kopp c) tgt true).
        cbn [rev] in IH. rewrite <- app_assoc in IH. cbn [app] in IH.
        specialize (IH Hsw).
        assert (Hswap : coef_mono (rev d ++ p :: cur :: rest) s t =
                        kopp (coef_mono (rev d ++ cur :: p :: rest) s t)).
        { apply (coef_mono_swap Hring); lia. }
        destruct (pass rec (cur :: d) p rest (kopp c) tgt true) as [tgt2|m' c' tgt2 sw'|e].
        -- rewrite IH, Hswap. ring.
        -- destruct IH as [IHr IHe]. split; [exact IHr|]. rewrite IHe, Hswap. ring.
        -- exact I.
    + specialize (IH (p :: d) cur c tgt sw).
      cbn [rev] in IH. rewrite <- app_assoc in IH. cbn [app] in IH.
      exact (IH Hr).
Qed.

Lemma nai_sound : forall f M m c tgt tgt' s t,
  mono_in_range M m -> length s = M ->
  nai f m c tgt = Done tgt' ->
  coef_poly tgt' s t = kadd (coef_poly tgt s t) (kmul c (coef_mono m s t)).
Proof.
  induction f as [|f IHf]; intros M m c tgt tgt' s t Hr HM H; [rewrite nai_O in H; discriminate|].
  rewrite nai_S in H.
  assert (Hshort : Done (insert m c tgt) = Done tgt' ->
                   coef_poly tgt' s t = kadd (coef_poly tgt s t) (kmul c (coef_mono m s t))).
  { intro HH. inversion HH; subst. apply insert_sound. }
  destruct m as [|first [|x r]]; [exact (Hshort H) | exact (Hshort H) |].
  clear Hshort.
  assert (Hrec : forall m c tgt tgt', mono_in_range M m -> nai f m c tgt = Done tgt' ->
     coef_poly tgt' s t = kadd (coef_poly tgt s t) (kmul c (coef_mono m s t))).
  { intros m0 c0 tgt0 tgt0' Hr0 H0. eapply IHf; eauto. }
  pose proof (pass_sound (nai f) M s t HM Hrec (x :: r) [] first c tgt false) as HP.
  cbn [rev app] in HP. specialize (HP Hr).
  pose proof (pass_fail_not_done (nai f) (x :: r) [] first c tgt false) as HF.
  destruct (pass (nai f) [] first (x :: r) c tgt false) as [tgt1|m' c' tgt1 [|]|e].
  - inversion H; subst. exact HP.
  - destruct HP as [Hr1 He]. rewrite <- He. eapply IHf; eauto.
  - destruct HP as [Hr1 He]. inversion H; subst. rewrite <- He. apply insert_sound.
  - exfalso. eapply HF; [reflexivity|exact H].
Qed.

End WithRing.

Lemma normalize_sound : normalize_sound_stmt K k0 k1 kadd kmul ksub kopp kzero.
Proof.
  unfold normalize_sound_stmt. intros Hring M m c tgt tgt' s t Hr HM H.
  unfold Poly.normalize in H. eapply nai_sound; eauto.
Qed.

End NP.

(** * The hypotheses are satisfiable; the model computes *)

(** c_1 c^+_0 c^+_1 = c^+_0 - c^+_0 c^+_1 c_1  (one swap with sign, one contraction) *)
Example normalize_example :
  Poly.normalize Z Z.add Z.opp (fun c => Z.eqb c 0) [cann 1; cdag 0; cdag 1] 1%Z [] =
  Done [([cdag 0], (-1)%Z); ([cdag 0; cdag 1; cann 1], 1%Z)].
Proof. vm_compute. reflexivity. Qed.

(** [normalize_sound] applied to it, with [CAR.ring_ok_Z] for the ring hypothesis: on two modes
    the matrix of the result is the matrix of the raw monomial *)
Example normalize_sound_example : forall s t, length s = 2 ->
  coef_poly Z 0%Z 1%Z Z.add Z.mul Z.opp
    [([cdag 0], (-1)%Z); ([cdag 0; cdag 1; cann 1], 1%Z)] s t =
  (0 + 1 * coef_mono Z 0%Z 1%Z Z.opp [cann 1; cdag 0; cdag 1] s t)%Z.
Proof.
  intros s t Hs.
  apply (normalize_sound Z 0%Z 1%Z Z.add Z.mul Z.sub Z.opp (fun c => Z.eqb c 0) ring_ok_Z
           2 [cann 1; cdag 0; cdag 1] 1%Z [] _ s t).
  - repeat constructor.
  - exact Hs.
  - exact normalize_example.
Qed.

(** two equal neighbours after sorting: the monomial vanishes, the target is unchanged *)
Example normalize_example_vanish :
  Poly.normalize Z Z.add Z.opp (fun c => Z.eqb c 0) [cdag 1; cann 0; cdag 1] 1%Z [([], 5%Z)] =
  Done [([], 5%Z)].
Proof. vm_compute. reflexivity. Qed.

(** a non-trivial instance of the hypotheses of [normalize_sound] / [normalize_wf] *)
Example normalize_hyps_example :
  mono_in_range 2 [cann 1; cdag 0; cdag 1] /\ length [true; false] = 2 /\
  poly_sorted Z [([], 5%Z); ([cdag 0], 1%Z)] /\ poly_normal Z [([], 5%Z); ([cdag 0], 1%Z)].
Proof.
  repeat split; try (repeat constructor; fail).
Qed.
