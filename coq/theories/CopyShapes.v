(** CopyShapes.v -- vocabulary of translator/gen_copy.py (copy constructors of GreensFunction, Susceptibility, EnsembleAverage) and
    what a copy constructor written in that vocabulary does to the state of the new object.

    State of an object: a function from field names to values of an arbitrary type.  The fields of the two base classes are
    "beta" (Thermal) and "Status" (ComputableObject); every other field is a member of the class itself.  A field that no
    initialiser mentions, and every field of a default-constructed base or member, holds the value a freshly constructed object
    has ([fresh]).  No axioms. *)
Require Import List String Bool.
Import ListNotations.
Local Open Scope string_scope.

Inductive copy_init : Type :=
  | InitDefault (x : string)                  (* X()      : nothing taken from the source *)
  | InitBaseFromWhole (base : string)         (* B(SRC)   : the base sub-object copied *)
  | InitBaseFromField (base f : string)       (* B(SRC.f) : the base constructed from a field of the source *)
  | InitMember (m f : string).                (* m(SRC.f) *)

Inductive copy_body : Type :=
  | BodyEmpty
  | BodyDeepCopyParts (part_class : string)   (* for (it over SRC.parts) parts.push_back(new P( **it )) *)
  | BodyUnrecognised.

(** the fields a base class holds; the constructor argument of Thermal is beta *)
Definition base_fields (b : string) : list string :=
  if String.eqb b "Thermal" then ["beta"] else if String.eqb b "ComputableObject" then ["Status"] else [].

Section State.
  Variable V : Type.
  Variable fresh : string -> V.               (* the value of a field in a freshly constructed object *)

  (** what one initialiser says about field [f] of the new object: [Some v] when it sets it *)
  Definition init_sets (src : string -> V) (i : copy_init) (f : string) : option V :=
    match i with
    | InitDefault x => if String.eqb x f || existsb (String.eqb f) (base_fields x) then Some (fresh f) else None
    | InitBaseFromWhole b => if existsb (String.eqb f) (base_fields b) then Some (src f) else None
    | InitBaseFromField b g => if existsb (String.eqb f) (base_fields b) then Some (src g) else None
    | InitMember m g => if String.eqb m f then Some (src g) else None
    end.

  Fixpoint copy_field (src : string -> V) (inits : list copy_init) (f : string) : V :=
    match inits with
    | [] => fresh f
    | i :: r => match init_sets src i f with Some v => v | None => copy_field src r f end
    end.

  (** the copy constructor preserves the fields [fs]: whatever the source holds *)
  Definition preserves (inits : list copy_init) (fs : list string) : Prop :=
    forall (src : string -> V) f, In f fs -> copy_field src inits f = src f.
End State.

(** the parts of the copy: a deep copy of the source's list (same length, element-wise copies), or none *)
Definition parts_after_copy {P : Type} (b : copy_body) (src_parts : list P) : option (list P) :=
  match b with
  | BodyDeepCopyParts _ => Some src_parts
  | BodyEmpty => Some []
  | BodyUnrecognised => None
  end.

(** a tactic for [preserves] on closed initialiser lists *)
Ltac preserves_by_cases :=
  let src := fresh "src" in let f := fresh "f" in let H := fresh "H" in
  intros src f H; cbn [In] in H;
  repeat (destruct H as [<-|H]; [vm_compute; reflexivity|]); contradiction.

Local Open Scope string_scope.
(** what the statements exclude: a copy constructor that default-constructs the ComputableObject base does NOT preserve the Status
    (the mechanism of the seeded changes C01-8 / C11-8) *)
Example default_base_loses_status :
  ~ preserves nat (fun _ => 0)
      [InitBaseFromField "Thermal" "beta"; InitDefault "ComputableObject"; InitMember "S" "S"] ["beta"; "Status"; "S"].
Proof. intros H. specialize (H (fun _ => 1) "Status" (or_intror (or_introl eq_refl))). vm_compute in H. discriminate. Qed.
(** ... and one that forgets a member does not preserve it (C14-7: the subtraction state; C09-7: the result) *)
Example dropped_member_is_lost :
  ~ preserves nat (fun _ => 0) [InitBaseFromWhole "ComputableObject"; InitMember "A" "A"] ["Status"; "A"; "result"].
Proof. intros H. specialize (H (fun _ => 1) "result" (or_intror (or_intror (or_introl eq_refl)))). vm_compute in H. discriminate. Qed.
