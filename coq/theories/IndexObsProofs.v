(** C18, observables -- from "the Hamiltonian and the field operators are conjugated by the signed
    permutation P = U_pi of the Fock basis" to "every observable of the executable specification
    PV.EDSpec changes only by the induced permutation of indices".

    Over any number type whose operations form a commutative ring ([Rth]) and whose conjugation
    commutes with negation ([conj_opp]); matrices are EDSpec's lists of rows.

    Part A (any signed permutation Q of 0..dim-1, dim x dim matrices):
      [prow_is_mmul], [pconj_is_mmul], [Pmat_orthogonal]
                          prow Q U = P U,  pconj Q H = (P H) P^T,  P^T P = 1;
      [mmul_pconj_prow]   (P H P^T)(P U) = P (H U);
      [adjoint_prow_mmul] (P U)^+ (P V) = U^+ V;
      [rotate_permuted]   (P U)^+ (P O P^T) (P U) = U^+ O U    -- equality of lists of rows;
      [eigen_system_permuted], [residual_HU_zero], [residual_unitary_permuted]
                          (E, U) exact eigen-system of H  =>  (E, P U) exact eigen-system of P H P^T,
                          the certificate residual_HU of an exact eigen-system is 0, and
                          residual_unitary (P U) = residual_unitary U.
    Part B (Q = fock_sperm M pi, pi any [perm_on M pi]):
      [poly_matrix_permuted]  poly_matrix M (pi(p)) = P (poly_matrix M p) P^T;
      [rotate_poly_permuted], [rotate_op_permuted]
                              the matrices in the eigenbasis, built from (P U, pi(p)) and from (U, p), are EQUAL.
    Part C: consequently gf, gf_tau, <c^+_i c_j>, susc, susc_tau, chi built from (E, P U) and the operators
      with indices pi(i) are equal to those built from (E, U) and the operators with indices i.

    What is NOT proved (see PVprops.Properties_C18): that two DIFFERENT eigen-decompositions of the same
    Hermitian matrix give the same observables (the library diagonalises H' independently; its (E', U')
    need not be (E, P U) when eigenvalues are degenerate or come in another order).

    No axioms. *)
Require Import Bool List Arith Lia Permutation Ring Ring_theory.
From PV Require Import Outcome Fock Poly PolySem EDSpec BigSum IndexSem IndexPerm IndexPermProofs IndexObs.
Import ListNotations.

(** * Generic list facts (copies of PV.HPartProofs lemmas, to keep C18 independent of C03/C10) *)

Lemma nth_map_seq {A} (f : nat -> A) (n i : nat) (d : A) : i < n -> nth i (map f (seq 0 n)) d = f i.
Proof.
  intros H. rewrite (nth_indep _ d (f 0)) by (rewrite map_length, seq_length; exact H).
  rewrite map_nth. rewrite seq_nth by exact H. reflexivity.
Qed.

Lemma map_nth_seq_id {A} (l : list A) (d : A) : map (fun i => nth i l d) (seq 0 (length l)) = l.
Proof.
  induction l as [|a l IH]; [reflexivity|].
  cbn [length seq map nth]. f_equal. rewrite <- seq_shift, map_map. exact IH.
Qed.

Lemma nth_map_lt {A B} (f : A -> B) (l : list A) (i : nat) (da : A) (db : B) :
  i < length l -> nth i (map f l) db = f (nth i l da).
Proof.
  intros H. rewrite (nth_indep _ db (f da)) by (rewrite map_length; exact H). apply map_nth.
Qed.

Lemma state_of_nat_length (M n : nat) : length (state_of_nat M n) = M.
Proof. revert n. induction M as [|M IH]; intro n; cbn [state_of_nat length]; [reflexivity|rewrite IH; reflexivity]. Qed.

Lemma nat_of_state_of_nat (M n : nat) : n < Nat.pow 2 M -> nat_of_state (state_of_nat M n) = n.
Proof.
  revert n. induction M as [|M IH]; intros n H.
  - cbn in H. cbn. lia.
  - cbn [state_of_nat nat_of_state]. rewrite Nat.pow_succ_r' in H.
    pose proof (Nat.div2_odd n) as Hn. rewrite IH.
    + destruct (Nat.odd n); cbn [Nat.b2n] in Hn; lia.
    + destruct (Nat.odd n); cbn [Nat.b2n] in Hn; lia.
Qed.

Lemma nat_of_state_lt (s : state) : nat_of_state s < Nat.pow 2 (length s).
Proof.
  induction s as [|b s IH]; cbn [nat_of_state length]; [cbn; lia|].
  rewrite Nat.pow_succ_r'. destruct b; lia.
Qed.

Lemma state_of_nat_of_state (s : state) : state_of_nat (length s) (nat_of_state s) = s.
Proof.
  induction s as [|b s IH]; [reflexivity|].
  cbn [length state_of_nat nat_of_state].
  assert (Hodd : Nat.odd ((if b then 1 else 0) + 2 * nat_of_state s) = b).
  { rewrite Nat.odd_add_mul_2. destruct b; reflexivity. }
  assert (Hdiv : Nat.div2 ((if b then 1 else 0) + 2 * nat_of_state s) = nat_of_state s).
  { destruct b; [apply (Nat.div2_succ_double (nat_of_state s))|apply (Nat.div2_double (nat_of_state s))]. }
  rewrite Hodd, Hdiv, IH. reflexivity.
Qed.

Lemma in_combine_seq {A} (l : list A) (d : A) : forall (a i : nat) (x : A),
  In (i, x) (combine (seq a (length l)) l) -> a <= i < a + length l /\ x = nth (i - a) l d.
Proof.
  induction l as [|y l IH]; intros a i x H; [destruct H|].
  cbn [length seq combine] in H. destruct H as [H|H].
  - injection H as <- <-. split; [cbn [length]; lia|]. rewrite Nat.sub_diag. reflexivity.
  - apply IH in H. destruct H as [H1 H2]. split; [cbn [length]; lia|].
    replace (i - a) with (S (i - S a)) by lia. exact H2.
Qed.

Lemma in_idx {A} (l : list A) (d : A) (i : nat) (x : A) : In (i, x) (idx l) -> i < length l /\ x = nth i l d.
Proof.
  intros H. apply (in_combine_seq l d 0) in H. rewrite Nat.sub_0_r in H. destruct H as [H1 H2]. split; [lia|exact H2].
Qed.

Section Obs.
Variable K : Type.
Variable NO : numops K.
Notation k0 := (n0 K NO).
Notation k1 := (n1 K NO).
Notation kadd := (nadd K NO).
Notation kmul := (nmul K NO).
Notation ksub := (nsub K NO).
Notation kopp := (nopp K NO).
Notation conj := (nconj K NO).
Notation kabs := (nabs K NO).
Notation bsum := (bigsum K k0 kadd).
Notation mget := (EDSpec.mget K NO).
Notation mmul := (EDSpec.mmul K NO).
Notation transpose := (EDSpec.transpose K NO).
Notation adjoint := (EDSpec.adjoint K NO).
Notation rotate := (EDSpec.rotate K NO).
Notation sgnK := (IndexObs.sgnK K NO).
Notation wfm := (IndexObs.wfm K).
Notation prow := (IndexObs.prow K NO).
Notation pconj := (IndexObs.pconj K NO).
Notation Pmat := (IndexObs.Pmat K NO).

Hypothesis Rth : ring_theory k0 k1 kadd kmul ksub kopp (@eq K).
Add Ring ObsRing : Rth.

(** * Sums *)

Lemma ksum_bsum {A} (l : list A) (f : A -> K) : ksum K NO l f = bsum l f.
Proof. unfold ksum. rewrite (fold_left_bigsum K k0 k1 kadd kmul ksub kopp Rth). ring. Qed.

Lemma bsum_sgnK {A} (b : bool) (l : list A) (f : A -> K) : sgnK b (bsum l f) = bsum l (fun a => sgnK b (f a)).
Proof.
  destruct b; [|reflexivity]. unfold IndexObs.sgnK.
  induction l as [|x l IH]; cbn [bigsum]; [ring|]. rewrite <- IH. ring.
Qed.

Lemma bsum_perm {A} (l l' : list A) (f : A -> K) : Permutation l l' -> bsum l f = bsum l' f.
Proof.
  induction 1 as [|x l l' _ IH|x y l|l l' l'' _ IH1 _ IH2]; cbn [bigsum].
  - reflexivity.
  - rewrite IH. reflexivity.
  - ring.
  - rewrite IH1. exact IH2.
Qed.

(** * Shapes and entries *)

Lemma row_length (dim : nat) (A : mat K) (i : nat) : wfm dim A -> i < dim -> length (nth i A []) = dim.
Proof.
  intros [HL HR] Hi. rewrite Forall_forall in HR. apply HR. apply nth_In. lia.
Qed.

Lemma mat_eta (dim : nat) (A : mat K) : wfm dim A ->
  A = map (fun i => map (fun j => mget A i j) (seq 0 dim)) (seq 0 dim).
Proof.
  intros Hwf. transitivity (map (fun i => nth i A []) (seq 0 (length A))); [symmetry; apply map_nth_seq_id|].
  rewrite (proj1 Hwf). apply map_ext_in. intros i Hi. apply in_seq in Hi.
  transitivity (map (fun j => nth j (nth i A []) k0) (seq 0 (length (nth i A [])))); [symmetry; apply map_nth_seq_id|].
  rewrite (row_length dim A i Hwf) by lia. reflexivity.
Qed.

Lemma mat_ext (dim : nat) (A B : mat K) : wfm dim A -> wfm dim B ->
  (forall i j, i < dim -> j < dim -> mget A i j = mget B i j) -> A = B.
Proof.
  intros HA HB E. rewrite (mat_eta dim A HA), (mat_eta dim B HB).
  apply map_ext_in. intros i Hi. apply in_seq in Hi. apply map_ext_in. intros j Hj. apply in_seq in Hj.
  apply E; lia.
Qed.

Lemma transpose_aux_length (nc : nat) (m : mat K) : length (transpose_aux K NO nc m) = nc.
Proof. revert m. induction nc as [|nc IH]; intro m; cbn [transpose_aux length]; [reflexivity|rewrite IH; reflexivity]. Qed.

Lemma transpose_aux_rows (nc : nat) (m : mat K) : Forall (fun r => length r = length m) (transpose_aux K NO nc m).
Proof.
  revert m. induction nc as [|nc IH]; intro m; cbn [transpose_aux]; constructor.
  - apply map_length.
  - specialize (IH (map (fun r => tl r) m)). rewrite map_length in IH. exact IH.
Qed.

Lemma transpose_nth (nc : nat) (m : mat K) (n : nat) : n < nc ->
  nth n (transpose nc m) [] = map (fun r => nth n r k0) m.
Proof.
  unfold EDSpec.transpose. revert m n. induction nc as [|nc IH]; intros m n H; [lia|].
  cbn [transpose_aux]. destruct n as [|n]; cbn [nth].
  - apply map_ext. intros [|x r]; reflexivity.
  - rewrite IH by lia. rewrite map_map. apply map_ext. intros [|x r]; [destruct n; reflexivity|reflexivity].
Qed.

Lemma dot_maps {A} (l : list A) (f g : A -> K) :
  dot K NO (map f l) (map g l) = bsum l (fun x => kmul (f x) (g x)).
Proof.
  unfold dot. rewrite <- (ksum_bsum l). unfold ksum. generalize k0.
  induction l as [|x l IH]; intro a; [reflexivity|]. cbn [map combine fold_left fst snd]. apply IH.
Qed.

Lemma mmul_entry (ncb : nat) (a b : mat K) (i j : nat) : i < length a -> j < ncb ->
  mget (mmul ncb a b) i j = dot K NO (nth i a []) (map (fun r => nth j r k0) b).
Proof.
  intros Hi Hj. unfold EDSpec.mget, EDSpec.mmul. cbv zeta.
  assert (Hbt : length (transpose ncb b) = ncb) by (apply transpose_aux_length).
  rewrite <- (transpose_nth ncb b j Hj).
  generalize dependent (transpose ncb b). intros bt Hbt.
  rewrite (nth_map_lt _ a i [] []) by exact Hi.
  rewrite (nth_map_lt _ bt j [] k0) by (rewrite Hbt; exact Hj). reflexivity.
Qed.

Lemma mget_mmul (dim : nat) (a b : mat K) (i j : nat) :
  wfm dim a -> length b = dim -> i < dim -> j < dim ->
  mget (mmul dim a b) i j = bsum (seq 0 dim) (fun k => kmul (mget a i k) (mget b k j)).
Proof.
  intros Ha Hb Hi Hj. rewrite mmul_entry by (try rewrite (proj1 Ha); assumption).
  rewrite <- (map_nth_seq_id (nth i a []) k0) at 1. rewrite (row_length dim a i Ha Hi).
  rewrite <- (map_nth_seq_id b []) at 1. rewrite Hb, map_map.
  apply dot_maps.
Qed.

Lemma wfm_mmul (dim : nat) (a b : mat K) : length a = dim -> wfm dim (mmul dim a b).
Proof.
  intros Ha. unfold EDSpec.mmul. cbv zeta. split; [rewrite map_length; exact Ha|].
  apply Forall_forall. intros r Hr. apply in_map_iff in Hr. destruct Hr as [x [<- _]].
  rewrite map_length. apply transpose_aux_length.
Qed.

Lemma wfm_adjoint (dim : nat) (U : mat K) : wfm dim U -> wfm dim (adjoint dim U).
Proof.
  intros [HL HR]. unfold EDSpec.adjoint, EDSpec.transpose. split.
  - rewrite map_length. apply transpose_aux_length.
  - apply Forall_forall. intros r Hr. apply in_map_iff in Hr. destruct Hr as [x [<- Hx]].
    rewrite map_length. pose proof (transpose_aux_rows dim U) as HF. rewrite Forall_forall in HF.
    rewrite (HF x Hx). exact HL.
Qed.

Lemma mget_adjoint (dim : nat) (U : mat K) (n t : nat) : wfm dim U -> n < dim -> t < dim ->
  mget (adjoint dim U) n t = conj (mget U t n).
Proof.
  intros [HL HR] Hn Ht. unfold EDSpec.adjoint, EDSpec.mget.
  rewrite (nth_map_lt _ _ n [] []) by (apply Nat.lt_le_trans with dim; [exact Hn|]; unfold EDSpec.transpose; rewrite transpose_aux_length; apply Nat.le_refl).
  rewrite transpose_nth by exact Hn. rewrite map_map.
  rewrite (nth_map_lt _ U t [] k0) by lia. reflexivity.
Qed.

Lemma mget_transpose (dim : nat) (A : mat K) (n t : nat) : n < dim -> t < length A ->
  mget (transpose dim A) n t = mget A t n.
Proof.
  intros Hn Ht. unfold EDSpec.mget. rewrite transpose_nth by exact Hn.
  rewrite (nth_map_lt _ A t [] k0) by exact Ht. reflexivity.
Qed.

Lemma wfm_transpose (dim : nat) (A : mat K) : length A = dim -> wfm dim (transpose dim A).
Proof.
  intros HL. unfold EDSpec.transpose. split; [apply transpose_aux_length|].
  pose proof (transpose_aux_rows dim A) as HF. rewrite HL in HF. exact HF.
Qed.

Lemma wfm_poly_matrix (M : nat) (p : list (monomial * K)) : wfm (Nat.pow 2 M) (poly_matrix K NO M p).
Proof.
  unfold poly_matrix. cbv zeta. split; [rewrite map_length, seq_length; reflexivity|].
  apply Forall_forall. intros r Hr. apply in_map_iff in Hr. destruct Hr as [x [<- _]].
  rewrite map_length, seq_length. reflexivity.
Qed.

Lemma poly_matrix_entry (M : nat) (p : list (monomial * K)) (t s : nat) :
  t < Nat.pow 2 M -> s < Nat.pow 2 M ->
  mget (poly_matrix K NO M p) t s =
  ksum K NO p (fun mc => match mono_entry M (fst mc) s with
                         | Some (sg, t') => if Nat.eqb t' t then (if sg then kopp (snd mc) else snd mc) else k0
                         | None => k0
                         end).
Proof.
  intros Ht Hs. unfold EDSpec.mget, poly_matrix. cbv zeta.
  rewrite (nth_map_seq _ (Nat.pow 2 M) t []) by exact Ht.
  rewrite (nth_map_seq _ (Nat.pow 2 M) s k0) by exact Hs. reflexivity.
Qed.

(** * Part A: a signed permutation of the basis *)

Section SignedPerm.
Variable Q : sperm.
Hypothesis Qok : sperm_ok Q.
Notation dim := (sp_dim Q).
Notation fwd := (sp_fwd Q).
Notation inv := (sp_inv Q).
Notation sg := (sp_sg Q).

Lemma inv_lt (s : nat) : s < dim -> inv s < dim.
Proof. intros H. apply (Qok s H). Qed.
Lemma fwd_lt (s : nat) : s < dim -> fwd s < dim.
Proof. intros H. apply (Qok s H). Qed.
Lemma inv_fwd (s : nat) : s < dim -> inv (fwd s) = s.
Proof. intros H. apply (Qok s H). Qed.
Lemma fwd_inv (s : nat) : s < dim -> fwd (inv s) = s.
Proof. intros H. apply (Qok s H). Qed.

Lemma inv_perm_seq : Permutation (seq 0 dim) (map inv (seq 0 dim)).
Proof.
  apply NoDup_Permutation_bis.
  - apply seq_NoDup.
  - rewrite map_length. apply Nat.le_refl.
  - intros x Hx. apply in_seq in Hx. apply in_map_iff. exists (fwd x). split; [apply inv_fwd; lia|].
    apply in_seq. pose proof (fwd_lt x ltac:(lia)). lia.
Qed.

Lemma bsum_reindex (F : nat -> K) : bsum (seq 0 dim) (fun t => F (inv t)) = bsum (seq 0 dim) F.
Proof.
  rewrite <- (bigsum_map K k0 kadd inv (seq 0 dim) F). symmetry. apply bsum_perm. exact inv_perm_seq.
Qed.

Lemma wfm_prow (U : mat K) : wfm dim U -> wfm dim (prow Q U).
Proof.
  intros HU. unfold IndexObs.prow. split; [rewrite map_length, seq_length; reflexivity|].
  apply Forall_forall. intros r Hr. apply in_map_iff in Hr. destruct Hr as [x [<- Hx]]. apply in_seq in Hx.
  rewrite map_length. apply (row_length dim U); [exact HU|apply inv_lt; lia].
Qed.

Lemma wfm_pconj (H : mat K) : wfm dim (pconj Q H).
Proof.
  unfold IndexObs.pconj. split; [rewrite map_length, seq_length; reflexivity|].
  apply Forall_forall. intros r Hr. apply in_map_iff in Hr. destruct Hr as [x [<- _]].
  rewrite map_length, seq_length. reflexivity.
Qed.

Lemma wfm_Pmat : wfm dim (Pmat Q).
Proof.
  unfold IndexObs.Pmat. split; [rewrite map_length, seq_length; reflexivity|].
  apply Forall_forall. intros r Hr. apply in_map_iff in Hr. destruct Hr as [x [<- _]].
  rewrite map_length, seq_length. reflexivity.
Qed.

Lemma mget_prow (U : mat K) (r j : nat) : wfm dim U -> r < dim -> j < dim ->
  mget (prow Q U) r j = sgnK (sg (inv r)) (mget U (inv r) j).
Proof.
  intros HU Hr Hj. unfold IndexObs.prow, EDSpec.mget.
  rewrite (nth_map_seq _ dim r []) by exact Hr.
  rewrite (nth_map_lt _ _ j k0 k0) by (rewrite (row_length dim U); [exact Hj|exact HU|apply inv_lt; exact Hr]).
  reflexivity.
Qed.

Lemma mget_pconj (H : mat K) (r c : nat) : r < dim -> c < dim ->
  mget (pconj Q H) r c = sgnK (xorb (sg (inv r)) (sg (inv c))) (mget H (inv r) (inv c)).
Proof.
  intros Hr Hc. unfold IndexObs.pconj. unfold EDSpec.mget at 1.
  rewrite (nth_map_seq _ dim r []) by exact Hr.
  rewrite (nth_map_seq _ dim c k0) by exact Hc. reflexivity.
Qed.

Lemma mget_Pmat (r c : nat) : r < dim -> c < dim ->
  mget (Pmat Q) r c = if Nat.eqb (inv r) c then sgnK (sg c) k1 else k0.
Proof.
  intros Hr Hc. unfold IndexObs.Pmat, EDSpec.mget.
  rewrite (nth_map_seq _ dim r []) by exact Hr.
  rewrite (nth_map_seq _ dim c k0) by exact Hc. reflexivity.
Qed.

Lemma bsum_delta (k : nat) (f : nat -> K) : k < dim ->
  bsum (seq 0 dim) (fun i => if Nat.eqb k i then f i else k0) = f k.
Proof.
  intros Hk. rewrite (bigsum_delta_seq K k0 k1 kadd kmul ksub kopp Rth).
  cbn [Nat.leb andb Nat.add]. destruct (Nat.ltb_spec k dim); [reflexivity|lia].
Qed.

(** P U, literally *)
Theorem prow_is_mmul (U : mat K) : wfm dim U -> prow Q U = mmul dim (Pmat Q) U.
Proof.
  intros HU. apply (mat_ext dim); [apply wfm_prow; exact HU|apply wfm_mmul; apply wfm_Pmat|].
  intros r j Hr Hj. rewrite mget_prow by assumption.
  rewrite mget_mmul by (try apply wfm_Pmat; try apply HU; assumption).
  transitivity (bsum (seq 0 dim) (fun c => if Nat.eqb (inv r) c then kmul (sgnK (sg c) k1) (mget U c j) else k0)).
  - rewrite bsum_delta by (apply inv_lt; exact Hr). destruct (sg (inv r)); unfold IndexObs.sgnK; ring.
  - apply bigsum_ext. intros c Hc. apply in_seq in Hc. rewrite mget_Pmat by lia.
    destruct (Nat.eqb (inv r) c); [reflexivity|ring].
Qed.

(** (P H) P^T, literally *)
Theorem pconj_is_mmul (H : mat K) : wfm dim H ->
  pconj Q H = mmul dim (mmul dim (Pmat Q) H) (transpose dim (Pmat Q)).
Proof.
  intros HH. rewrite <- (prow_is_mmul H HH).
  apply (mat_ext dim); [apply wfm_pconj|apply wfm_mmul; apply (wfm_prow H HH)|].
  intros r c Hr Hc. rewrite mget_pconj by assumption.
  rewrite mget_mmul; [|apply wfm_prow; exact HH|apply wfm_transpose; apply wfm_Pmat|exact Hr|exact Hc].
  transitivity (bsum (seq 0 dim)
                  (fun k => if Nat.eqb (inv c) k then kmul (mget (prow Q H) r k) (sgnK (sg k) k1) else k0)).
  - rewrite bsum_delta by (apply inv_lt; exact Hc).
    rewrite mget_prow by (try apply inv_lt; assumption).
    destruct (sg (inv r)), (sg (inv c)); unfold IndexObs.sgnK; cbn [xorb]; ring.
  - apply bigsum_ext. intros k Hk. apply in_seq in Hk.
    rewrite mget_transpose by (try rewrite (proj1 wfm_Pmat); lia).
    rewrite mget_Pmat by lia. destruct (Nat.eqb (inv c) k); [reflexivity|ring].
Qed.

(** P^T P = 1 *)
Theorem Pmat_orthogonal : mmul dim (transpose dim (Pmat Q)) (Pmat Q) = identity_matrix K NO dim.
Proof.
  apply (mat_ext dim).
  - apply wfm_mmul. unfold EDSpec.transpose. apply transpose_aux_length.
  - unfold identity_matrix. split; [rewrite map_length, seq_length; reflexivity|].
    apply Forall_forall. intros r Hr. apply in_map_iff in Hr. destruct Hr as [x [<- _]].
    rewrite map_length, seq_length. reflexivity.
  - intros a b Ha Hb.
    rewrite mget_mmul; [|apply wfm_transpose; apply wfm_Pmat|apply wfm_Pmat|exact Ha|exact Hb].
    unfold identity_matrix. unfold EDSpec.mget at 3.
    rewrite (nth_map_seq _ dim a []) by exact Ha. rewrite (nth_map_seq _ dim b k0) by exact Hb.
    pose (G := fun x => if Nat.eqb a x then kmul (sgnK (sg x) k1) (if Nat.eqb x b then sgnK (sg b) k1 else k0) else k0).
    transitivity (bsum (seq 0 dim) (fun r => G (inv r))).
    + apply bigsum_ext. intros r Hr. apply in_seq in Hr.
      rewrite mget_transpose by (try rewrite (proj1 wfm_Pmat); lia).
      rewrite !mget_Pmat by lia. unfold G.
      destruct (Nat.eqb_spec (inv r) a) as [->|Hne].
      * rewrite Nat.eqb_refl. reflexivity.
      * destruct (Nat.eqb_spec a (inv r)) as [E|_]; [congruence|]. ring.
    + rewrite (bsum_reindex G). unfold G. rewrite bsum_delta by exact Ha.
      destruct (Nat.eqb_spec a b) as [->|_]; [|ring]. destruct (sg b); unfold IndexObs.sgnK; ring.
Qed.

(** (P H P^T)(P U) = P (H U) *)
Theorem mmul_pconj_prow (H U : mat K) : wfm dim H -> wfm dim U ->
  mmul dim (pconj Q H) (prow Q U) = prow Q (mmul dim H U).
Proof.
  intros HH HU.
  assert (HHU : wfm dim (mmul dim H U)) by (apply wfm_mmul; apply HH).
  apply (mat_ext dim); [apply wfm_mmul; apply wfm_pconj|apply wfm_prow; exact HHU|].
  intros r j Hr Hj.
  rewrite mget_mmul; [|apply wfm_pconj|apply (wfm_prow U HU)|exact Hr|exact Hj].
  rewrite mget_prow by assumption.
  rewrite mget_mmul; [|exact HH|apply HU|apply inv_lt; exact Hr|exact Hj].
  rewrite bsum_sgnK.
  rewrite <- (bsum_reindex (fun k => sgnK (sg (inv r)) (kmul (mget H (inv r) k) (mget U k j)))).
  apply bigsum_ext. intros k Hk. apply in_seq in Hk.
  rewrite mget_pconj, mget_prow by (try assumption; lia).
  destruct (sg (inv r)), (sg (inv k)); unfold IndexObs.sgnK; cbn [xorb]; ring.
Qed.

Hypothesis conj_opp : forall x, conj (kopp x) = kopp (conj x).

(** (P U)^+ (P V) = U^+ V *)
Theorem adjoint_prow_mmul (U V : mat K) : wfm dim U -> wfm dim V ->
  mmul dim (adjoint dim (prow Q U)) (prow Q V) = mmul dim (adjoint dim U) V.
Proof.
  intros HU HV.
  apply (mat_ext dim); [apply wfm_mmul; apply wfm_adjoint; apply wfm_prow; exact HU
                       |apply wfm_mmul; apply wfm_adjoint; exact HU|].
  intros n m Hn Hm.
  rewrite mget_mmul; [|apply wfm_adjoint; apply wfm_prow; exact HU|apply (wfm_prow V HV)|exact Hn|exact Hm].
  rewrite mget_mmul; [|apply wfm_adjoint; exact HU|apply HV|exact Hn|exact Hm].
  rewrite <- (bsum_reindex (fun t => kmul (mget (adjoint dim U) n t) (mget V t m))).
  apply bigsum_ext. intros t Ht. apply in_seq in Ht.
  rewrite mget_adjoint by (try apply wfm_prow; try assumption; lia).
  rewrite mget_adjoint by (try apply inv_lt; try assumption; lia).
  rewrite !mget_prow by (try assumption; lia).
  destruct (sg (inv t)); unfold IndexObs.sgnK; [rewrite conj_opp; ring|reflexivity].
Qed.

(** the operator in the eigenbasis does not notice the permutation:
    (P U)^+ (P O P^T) (P U) = U^+ O U, as lists of rows *)
Theorem rotate_permuted (U Om : mat K) : wfm dim U -> wfm dim Om ->
  rotate dim (prow Q U) (pconj Q Om) = rotate dim U Om.
Proof.
  intros HU HO. unfold EDSpec.rotate.
  rewrite (mmul_pconj_prow Om U HO HU).
  apply adjoint_prow_mmul; [exact HU|apply wfm_mmul; apply HO].
Qed.

(** exact eigen-systems are carried to exact eigen-systems *)
Theorem eigen_system_permuted (H U : mat K) (E : vec K) : wfm dim H -> wfm dim U ->
  eigen_system K NO dim H U E -> eigen_system K NO dim (pconj Q H) (prow Q U) E.
Proof.
  intros HH HU Heig i j Hi Hj. rewrite (mmul_pconj_prow H U HH HU).
  rewrite !mget_prow by (try assumption; apply wfm_mmul; apply HH).
  rewrite (Heig (inv i) j (inv_lt i Hi) Hj).
  destruct (sg (inv i)); unfold IndexObs.sgnK; ring.
Qed.

(** U^+ U - 1 is unchanged, hence the unitarity residual of the certificate is the same number *)
Theorem residual_unitary_permuted (U : mat K) : wfm dim U ->
  residual_unitary K NO dim (prow Q U) = residual_unitary K NO dim U.
Proof.
  intros HU. unfold residual_unitary. cbv zeta. rewrite (adjoint_prow_mmul U U HU HU). reflexivity.
Qed.
End SignedPerm.

(** the certificate value residual_HU of an exact eigen-system is exactly zero (only |0| = 0 is used) *)
Lemma max_abs_zeros (l : list K) : kabs k0 = k0 -> Forall (fun x => x = k0) l -> max_abs K NO l = k0.
Proof.
  intros Hk HF. unfold max_abs. induction HF as [|x l Hx _ IH]; [reflexivity|].
  cbn [fold_left]. subst x. rewrite Hk. destruct (nre_ltb K NO k0 k0); exact IH.
Qed.

Theorem residual_HU_zero (dim : nat) (H U : mat K) (E : vec K) :
  length H = dim -> kabs k0 = k0 -> eigen_system K NO dim H U E -> residual_HU K NO dim H U E = k0.
Proof.
  intros HL Hk Heig. unfold residual_HU. cbv zeta. apply max_abs_zeros; [exact Hk|].
  pose proof (wfm_mmul dim H U HL) as HHU.
  apply Forall_forall. intros x Hx. apply in_concat in Hx. destruct Hx as [l [Hl Hx]].
  apply in_map_iff in Hl. destruct Hl as [[i row] [<- Hir]]. cbn [fst snd] in Hx.
  apply (in_idx _ []) in Hir. destruct Hir as [Hi ->]. rewrite (proj1 HHU) in Hi.
  apply in_map_iff in Hx. destruct Hx as [[j v] [<- Hjc]]. cbn [fst snd].
  apply (in_idx _ k0) in Hjc. destruct Hjc as [Hj ->]. rewrite (row_length dim _ i HHU Hi) in Hj.
  change (nth j (nth i (mmul dim H U) []) k0) with (mget (mmul dim H U) i j).
  rewrite (Heig i j Hi Hj). ring.
Qed.

(** * Part B: the signed permutation of Fock states induced by an index permutation *)

Lemma state_of_nat_of_state_len (M : nat) (x : state) : length x = M -> state_of_nat M (nat_of_state x) = x.
Proof. intros <-. apply state_of_nat_of_state. Qed.

Section FockPerm.
Variable M : nat.
Variable pi : nat -> nat.
Hypothesis Hperm : perm_on M pi.
Notation Q := (fock_sperm M pi).
Notation dim := (Nat.pow 2 M).

Lemma fock_sperm_ok : sperm_ok Q.
Proof.
  intros s Hs. cbn [fock_sperm sp_dim sp_fwd sp_inv] in *.
  assert (L1 : length (fock_perm M pi (state_of_nat M s)) = M)
    by (rewrite fock_perm_length; apply state_of_nat_length).
  assert (L2 : length (state_perm (rev (adj_decomp M pi)) (state_of_nat M s)) = M)
    by (rewrite state_perm_length; apply state_of_nat_length).
  split; [|split; [|split]].
  - pose proof (nat_of_state_lt (fock_perm M pi (state_of_nat M s))) as H. rewrite L1 in H. exact H.
  - pose proof (nat_of_state_lt (state_perm (rev (adj_decomp M pi)) (state_of_nat M s))) as H. rewrite L2 in H. exact H.
  - rewrite (state_of_nat_of_state_len M _ L1). unfold fock_perm. rewrite state_perm_rev_l.
    apply nat_of_state_of_nat. exact Hs.
  - rewrite (state_of_nat_of_state_len M _ L2). unfold fock_perm. rewrite state_perm_rev_r.
    apply nat_of_state_of_nat. exact Hs.
Qed.

Lemma mono_entry_lt (m : monomial) (s : nat) (g : bool) (t : nat) : mono_entry M m s = Some (g, t) -> t < dim.
Proof.
  unfold mono_entry. destruct (act_mono m (state_of_nat M s)) as [[[g' s']|]| | |c|] eqn:E; try discriminate.
  intros H. injection H as _ <-.
  rewrite <- (state_of_nat_length M s), <- (act_mono_length m _ g' s' E). apply nat_of_state_lt.
Qed.

Lemma mono_entry_permute (m : monomial) (s : nat) :
  mono_entry M (map (ren_op pi) m) (sp_fwd Q s) =
  match mono_entry M m s with
  | Some (g, t) => Some (xorb g (xorb (sp_sg Q s) (sp_sg Q t)), sp_fwd Q t)
  | None => None
  end.
Proof.
  unfold mono_entry. cbn [fock_sperm sp_fwd sp_sg].
  rewrite (state_of_nat_of_state_len M) by (rewrite fock_perm_length; apply state_of_nat_length).
  rewrite (sem_permute_monomial M pi m _ Hperm (state_of_nat_length M s)).
  destruct (act_mono m (state_of_nat M s)) as [[[g s']|]| | |c|] eqn:E; try reflexivity.
  rewrite (state_of_nat_of_state_len M s')
    by (rewrite (act_mono_length m _ g s' E); apply state_of_nat_length).
  reflexivity.
Qed.

Lemma fwd_eqb (a b : nat) : a < dim -> b < dim -> Nat.eqb (sp_fwd Q a) (sp_fwd Q b) = Nat.eqb a b.
Proof.
  intros Ha Hb. destruct (Nat.eqb_spec a b) as [->|Hne]; [apply Nat.eqb_refl|].
  apply Nat.eqb_neq. intros E. apply Hne.
  rewrite <- (inv_fwd Q fock_sperm_ok a Ha), <- (inv_fwd Q fock_sperm_ok b Hb), E. reflexivity.
Qed.

Lemma poly_entry_permute (p : list (monomial * K)) (t s : nat) : t < dim -> s < dim ->
  mget (poly_matrix K NO M (poly_ren K pi p)) (sp_fwd Q t) (sp_fwd Q s) =
  sgnK (xorb (sp_sg Q t) (sp_sg Q s)) (mget (poly_matrix K NO M p) t s).
Proof.
  intros Ht Hs.
  rewrite poly_matrix_entry by (apply (fwd_lt Q fock_sperm_ok); assumption).
  rewrite poly_matrix_entry by assumption.
  rewrite !ksum_bsum. unfold poly_ren. rewrite bigsum_map, bsum_sgnK.
  apply bigsum_ext. intros [m c] _. cbn [fst snd].
  rewrite mono_entry_permute.
  destruct (mono_entry M m s) as [[g t1]|] eqn:E.
  - rewrite fwd_eqb by (try exact Ht; eapply mono_entry_lt; exact E).
    destruct (Nat.eqb_spec t1 t) as [->|Hne].
    + destruct g, (sp_sg Q t), (sp_sg Q s); unfold IndexObs.sgnK; cbn [xorb]; try reflexivity; ring.
    + destruct (xorb (sp_sg Q t) (sp_sg Q s)); unfold IndexObs.sgnK; [ring|reflexivity].
  - destruct (xorb (sp_sg Q t) (sp_sg Q s)); unfold IndexObs.sgnK; [ring|reflexivity].
Qed.

(** renaming the indices of a polynomial by pi conjugates its Fock-space matrix by P = U_pi *)
Theorem poly_matrix_permuted (p : list (monomial * K)) :
  poly_matrix K NO M (poly_ren K pi p) = pconj Q (poly_matrix K NO M p).
Proof.
  apply (mat_ext dim); [apply wfm_poly_matrix|apply (wfm_pconj Q)|].
  intros t s Ht Hs. rewrite (mget_pconj Q) by assumption.
  rewrite <- poly_entry_permute by (apply (inv_lt Q fock_sperm_ok); assumption).
  rewrite !(fwd_inv Q fock_sperm_ok) by assumption. reflexivity.
Qed.

Hypothesis conj_opp : forall x, conj (kopp x) = kopp (conj x).

Theorem rotate_poly_permuted (U : mat K) (p : list (monomial * K)) : wfm dim U ->
  rotate dim (prow Q U) (poly_matrix K NO M (poly_ren K pi p)) = rotate dim U (poly_matrix K NO M p).
Proof.
  intros HU. rewrite poly_matrix_permuted.
  apply (rotate_permuted Q fock_sperm_ok conj_opp U _ HU). apply wfm_poly_matrix.
Qed.

Theorem rotate_op_permuted (U : mat K) (d : bool) (i : nat) : wfm dim U ->
  rotate dim (prow Q U) (op_matrix K NO M (d, pi i)) = rotate dim U (op_matrix K NO M (d, i)).
Proof.
  intros HU. unfold op_matrix.
  change [([(d, pi i)], k1)] with (poly_ren K pi [([(d, i)], k1)]).
  apply rotate_poly_permuted. exact HU.
Qed.

(** * Part C: observables *)

Section Observables.
Variable U : mat K.
Hypothesis HU : wfm dim U.
Notation U' := (prow Q U).
Notation C u i := (rotate dim u (op_matrix K NO M (cann i))).
Notation CX u i := (rotate dim u (op_matrix K NO M (cdag i))).

(** G'_{pi(i) pi(j)}(z) = G_ij(z) *)
Theorem gf_permuted (E w : vec K) (i j : nat) (z : K) :
  gf K NO E w (C U' (pi i)) (CX U' (pi j)) z = gf K NO E w (C U i) (CX U j) z.
Proof. unfold cann, cdag. rewrite !(rotate_op_permuted U _ _ HU). reflexivity. Qed.

Theorem gf_tau_permuted (E w : vec K) (i j : nat) (tau : K) :
  gf_tau K NO E w (C U' (pi i)) (CX U' (pi j)) tau = gf_tau K NO E w (C U i) (CX U j) tau.
Proof. unfold cann, cdag. rewrite !(rotate_op_permuted U _ _ HU). reflexivity. Qed.

Lemma quad_permuted (i j : nat) : quad K NO M U' (pi i) (pi j) = quad K NO M U i j.
Proof. unfold quad, cann, cdag. cbv zeta. rewrite !(rotate_op_permuted U _ _ HU). reflexivity. Qed.

(** <c^+_{pi i} c_{pi j}>' = <c^+_i c_j>;  i = j: occupation numbers *)
Theorem density_matrix_permuted (w : vec K) (i j : nat) :
  trace_rho K NO w (quad K NO M U' (pi i) (pi j)) = trace_rho K NO w (quad K NO M U i j).
Proof. rewrite quad_permuted. reflexivity. Qed.

(** <n_{pi i} n_{pi j}>' = <n_i n_j> *)
Theorem double_occupancy_permuted (w : vec K) (i j : nat) :
  trace_rho K NO w (mmul dim (quad K NO M U' (pi i) (pi i)) (quad K NO M U' (pi j) (pi j))) =
  trace_rho K NO w (mmul dim (quad K NO M U i i) (quad K NO M U j j)).
Proof. rewrite !quad_permuted. reflexivity. Qed.

(** dynamical susceptibility of two quadratic operators *)
Theorem susc_permuted (beta tol : K) (E w : vec K) (a b c d : nat) (z : K) (z0 : bool) :
  susc K NO beta tol E w (quad K NO M U' (pi a) (pi b)) (quad K NO M U' (pi c) (pi d)) z z0 =
  susc K NO beta tol E w (quad K NO M U a b) (quad K NO M U c d) z z0.
Proof. rewrite !quad_permuted. reflexivity. Qed.

Theorem susc_tau_permuted (E w : vec K) (a b c d : nat) (tau : K) :
  susc_tau K NO E w (quad K NO M U' (pi a) (pi b)) (quad K NO M U' (pi c) (pi d)) tau =
  susc_tau K NO E w (quad K NO M U a b) (quad K NO M U c d) tau.
Proof. rewrite !quad_permuted. reflexivity. Qed.

(** two-particle Green's function *)
Theorem chi_permuted (beta tol : K) (E w : vec K) (i j k l : nat) (z1 z2 z3 : K) :
  chi K NO beta tol E w (C U' (pi i)) (C U' (pi j)) (CX U' (pi k)) (CX U' (pi l)) z1 z2 z3 =
  chi K NO beta tol E w (C U i) (C U j) (CX U k) (CX U l) z1 z2 z3.
Proof. unfold cann, cdag. rewrite !(rotate_op_permuted U _ _ HU). reflexivity. Qed.

(** the certificate: exact eigen-systems of H are carried to exact eigen-systems of H' *)
Theorem eigen_system_poly_permuted (p : list (monomial * K)) (E : vec K) :
  eigen_system K NO dim (poly_matrix K NO M p) U E ->
  eigen_system K NO dim (poly_matrix K NO M (poly_ren K pi p)) U' E.
Proof.
  intros Heig. rewrite poly_matrix_permuted.
  apply (eigen_system_permuted Q fock_sperm_ok _ U E (wfm_poly_matrix M p) HU Heig).
Qed.
End Observables.
End FockPerm.
End Obs.

(** * The same for the pi of the relabelling / re-ordering / mode-switch theorem *)
Require Import Permutation.
From PV Require Import Index IndexProofs.

(** relabelling sites, re-ordering the addSite calls or switching the ordering mode changes the Fock-space
    matrix of every polynomial written in the indices of the first table (Hamiltonian, c_i, c^+_i, ...) into
    P H P^T, with P the signed permutation matrix of pi = index_perm t1 t2 f;  P is orthogonal *)
Theorem hamiltonian_matrix_relabel :
  forall (K : Type) (NO : numops K),
  ring_theory (n0 K NO) (n1 K NO) (nadd K NO) (nmul K NO) (nsub K NO) (nopp K NO) (@eq K) ->
  forall (fx1 m1 fx2 m2 : bool) (calls1 calls2 : list site) (f g : label -> label) (t1 t2 : table),
  NoDup (labels calls1) ->
  (forall l, In l (labels calls1) -> g (f l) = l) ->
  Permutation (map (rename_site f) calls1) calls2 ->
  harmless fx1 m1 (site_map calls1) -> harmless fx2 m2 (site_map calls2) ->
  prepare_lattice fx1 m1 calls1 = Done t1 ->
  prepare_lattice fx2 m2 calls2 = Done t2 ->
  let N := IndexSize t1 in
  let pi := index_perm t1 t2 f in
  let P := fock_sperm N pi in
  let dim := Nat.pow 2 N in
  forall p : list (monomial * K),
    poly_matrix K NO N (poly_ren K pi p) = pconj K NO P (poly_matrix K NO N p) /\
    pconj K NO P (poly_matrix K NO N p) =
      mmul K NO dim (mmul K NO dim (Pmat K NO P) (poly_matrix K NO N p)) (transpose K NO dim (Pmat K NO P)) /\
    mmul K NO dim (transpose K NO dim (Pmat K NO P)) (Pmat K NO P) = identity_matrix K NO dim.
Proof.
  intros K NO Rth fx1 m1 fx2 m2 calls1 calls2 f g t1 t2 Hnd Hgf Hperm Hh1 Hh2 Hp1 Hp2 N pi P dim p.
  pose proof (proj1 (index_perm_perm_on fx1 m1 fx2 m2 calls1 calls2 f g t1 t2 Hnd Hgf Hperm Hh1 Hh2 Hp1 Hp2)) as Hpo.
  fold N pi in Hpo.
  pose proof (fock_sperm_ok N pi) as Hok.
  split; [apply (poly_matrix_permuted K NO Rth N pi Hpo)|]. split.
  - apply (pconj_is_mmul K NO Rth P Hok). apply wfm_poly_matrix.
  - apply (Pmat_orthogonal K NO Rth P Hok).
Qed.

(** PARTIAL (what is missing is said in PVprops.Properties_C18): every eigen-system (E, U) of H yields the
    eigen-system (E, P U) of the relabelled Hamiltonian, and all observables of EDSpec built from (E, P U) and
    the field operators with the NEW indices pi(i) equal those built from (E, U) and the OLD indices i. *)
Theorem observables_relabel_partial :
  forall (K : Type) (NO : numops K),
  ring_theory (n0 K NO) (n1 K NO) (nadd K NO) (nmul K NO) (nsub K NO) (nopp K NO) (@eq K) ->
  (forall x, nconj K NO (nopp K NO x) = nopp K NO (nconj K NO x)) ->
  forall (fx1 m1 fx2 m2 : bool) (calls1 calls2 : list site) (f g : label -> label) (t1 t2 : table),
  NoDup (labels calls1) ->
  (forall l, In l (labels calls1) -> g (f l) = l) ->
  Permutation (map (rename_site f) calls1) calls2 ->
  harmless fx1 m1 (site_map calls1) -> harmless fx2 m2 (site_map calls2) ->
  prepare_lattice fx1 m1 calls1 = Done t1 ->
  prepare_lattice fx2 m2 calls2 = Done t2 ->
  let N := IndexSize t1 in
  let pi := index_perm t1 t2 f in
  let P := fock_sperm N pi in
  let dim := Nat.pow 2 N in
  forall (H : list (monomial * K)) (U : EDSpec.mat K) (E w : EDSpec.vec K),
  wfm K dim U ->
  let U' := prow K NO P U in
  let C u i := rotate K NO dim u (op_matrix K NO N (cann i)) in
  let CX u i := rotate K NO dim u (op_matrix K NO N (cdag i)) in
  (eigen_system K NO dim (poly_matrix K NO N H) U E ->
   eigen_system K NO dim (poly_matrix K NO N (poly_ren K pi H)) U' E) /\
  residual_unitary K NO dim U' = residual_unitary K NO dim U /\
  (forall i j z, gf K NO E w (C U' (pi i)) (CX U' (pi j)) z = gf K NO E w (C U i) (CX U j) z) /\
  (forall i j tau, gf_tau K NO E w (C U' (pi i)) (CX U' (pi j)) tau = gf_tau K NO E w (C U i) (CX U j) tau) /\
  (forall i j, trace_rho K NO w (quad K NO N U' (pi i) (pi j)) = trace_rho K NO w (quad K NO N U i j)) /\
  (forall beta tol a b c d z z0,
     susc K NO beta tol E w (quad K NO N U' (pi a) (pi b)) (quad K NO N U' (pi c) (pi d)) z z0 =
     susc K NO beta tol E w (quad K NO N U a b) (quad K NO N U c d) z z0) /\
  (forall beta tol i j k l z1 z2 z3,
     chi K NO beta tol E w (C U' (pi i)) (C U' (pi j)) (CX U' (pi k)) (CX U' (pi l)) z1 z2 z3 =
     chi K NO beta tol E w (C U i) (C U j) (CX U k) (CX U l) z1 z2 z3).
Proof.
  intros K NO Rth Hconj fx1 m1 fx2 m2 calls1 calls2 f g t1 t2 Hnd Hgf Hperm Hh1 Hh2 Hp1 Hp2 N pi P dim H U E w HU U' C CX.
  pose proof (proj1 (index_perm_perm_on fx1 m1 fx2 m2 calls1 calls2 f g t1 t2 Hnd Hgf Hperm Hh1 Hh2 Hp1 Hp2)) as Hpo.
  fold N pi in Hpo.
  split; [apply (eigen_system_poly_permuted K NO Rth N pi Hpo U HU)|].
  split; [apply (residual_unitary_permuted K NO Rth P (fock_sperm_ok N pi) Hconj U HU)|].
  split; [intros i j z; apply (gf_permuted K NO Rth N pi Hpo Hconj U HU)|].
  split; [intros i j tau; apply (gf_tau_permuted K NO Rth N pi Hpo Hconj U HU)|].
  split; [intros i j; apply (density_matrix_permuted K NO Rth N pi Hpo Hconj U HU)|].
  split; [intros beta tol a b c d z z0; apply (susc_permuted K NO Rth N pi Hpo Hconj U HU)|].
  intros beta tol i j k l z1 z2 z3; apply (chi_permuted K NO Rth N pi Hpo Hconj U HU).
Qed.
