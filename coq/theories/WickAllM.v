(** C12 -- the free propagator for EVERY number of modes (diagonal single-particle matrix).

    For H = sum_i eps_i n_i on M modes (M arbitrary) the Fock basis is an eigenbasis; this file proves, about the
    EXECUTABLE SPECIFICATION PV.EDSpec.gf applied to the Jordan-Wigner matrices PV.EDSpec.op_matrix of c_i, c^+_j
    on M modes, the table of energies [Wick.energies eps] and the table of Gibbs weights [Wick.gibbs xs]:

        gf ... = delta_ij / (z - eps_i)            for every M = length eps, all i, j < M          [free_gf_diag_allM]

    as an identity over an arbitrary field (levels, Boltzmann factors x_i and z are free field elements).

    Method (no enumeration of states):
      1. the double sum of EDSpec.gf over labels n, m < 2^M is rewritten as a sum over bit strings
         ([SS M g] = sum over all states of length M, with  SS (S M) g = SS M (fun t => g (false::t) + g (true::t)));
      2. the Jordan-Wigner matrix elements are characterised through [sact] (Fock.act_op without the outcome
         monad): <t|o|s> is  +-1 [o s = t]  (by column) and  +-1 [o^+ t = s]  (by row, FockAdjoint.act_op_adjoint);
         the inner sum collapses to the single state m = c^+_j n;
      3. for i <> j the remaining matrix element <n| c_i c^+_j |n> vanishes (the bit string changes);
         for i = j the Jordan-Wigner sign squares to 1, E_m - E_n = eps_i, w_m = x_i w_n, and
         sum_{s, bit i clear} (1 + x_i) w_s = sum_s w_s = 1   by induction over the modes.

    The infrastructure (sums over states, [ent_by_col], [ent_by_row], [Est], [Wst]) is reused by WickAllMChi.v.
    No axioms. *)
Require Import List Bool ZArith Field Arith Lia.
From PV Require Import Outcome Fock Poly CAR FockAdjoint EDSpec Wick WickProofs.
Import ListNotations.

(** * Bit strings and labels *)
Lemma son_length : forall M n, length (state_of_nat M n) = M.
Proof. induction M as [|M IH]; intro n; cbn [state_of_nat length]; [reflexivity | rewrite IH; reflexivity]. Qed.

Lemma nos_son : forall M n, n < Nat.pow 2 M -> nat_of_state (state_of_nat M n) = n.
Proof.
  induction M as [|M IH]; intros n H.
  - cbn in H. cbn. lia.
  - cbn [state_of_nat nat_of_state]. rewrite Nat.pow_succ_r' in H.
    pose proof (Nat.div2_odd n) as Hn. rewrite IH.
    + destruct (Nat.odd n); cbn [Nat.b2n] in Hn; lia.
    + destruct (Nat.odd n); cbn [Nat.b2n] in Hn; lia.
Qed.

Lemma nos_lt : forall s, nat_of_state s < Nat.pow 2 (length s).
Proof.
  induction s as [|b s IH]; cbn [nat_of_state length]; [cbn; lia|].
  rewrite Nat.pow_succ_r'. destruct b; lia.
Qed.

Lemma son_nos : forall s, state_of_nat (length s) (nat_of_state s) = s.
Proof.
  induction s as [|b s IH]; [reflexivity|].
  cbn [length state_of_nat nat_of_state].
  assert (Hodd : Nat.odd ((if b then 1 else 0) + 2 * nat_of_state s) = b).
  { rewrite Nat.odd_add_mul_2. destruct b; reflexivity. }
  assert (Hdiv : Nat.div2 ((if b then 1 else 0) + 2 * nat_of_state s) = nat_of_state s).
  { destruct b; [apply (Nat.div2_succ_double (nat_of_state s)) | apply (Nat.div2_double (nat_of_state s))]. }
  rewrite Hodd, Hdiv, IH. reflexivity.
Qed.

Lemma nos_inj : forall a b, length a = length b -> nat_of_state a = nat_of_state b -> a = b.
Proof.
  intros a b HL HN. rewrite <- (son_nos a), <- (son_nos b), HL, HN. reflexivity.
Qed.

Lemma nos_eqb : forall a b, length a = length b -> a <> b -> Nat.eqb (nat_of_state a) (nat_of_state b) = false.
Proof. intros a b HL HN. apply Nat.eqb_neq. intro E. apply HN. now apply nos_inj. Qed.

Lemma testbit_nos : forall s k, Nat.testbit (nat_of_state s) k = nth k s false.
Proof.
  induction s as [|b s IH]; intro k.
  - cbn [nat_of_state]. rewrite Nat.bits_0. destruct k; reflexivity.
  - cbn [nat_of_state]. rewrite Nat.add_comm. change (if b then 1 else 0) with (Nat.b2n b).
    destruct k as [|k].
    + rewrite Nat.testbit_0_r. reflexivity.
    + rewrite Nat.testbit_succ_r. cbn [nth]. apply IH.
Qed.

(** * One operator on a bit string, without the outcome monad *)
Definition sact (o : op) (s : state) : option (bool * state) :=
  if eqb (nth (snd o) s false) (negb (fst o)) then None
  else Some (par (snd o) s, upd (snd o) (negb (fst o)) s).

Lemma act_op_sact : forall o s, snd o < length s -> act_op o s = Done (sact o s).
Proof.
  intros [ty i] s H. unfold act_op, sact, op_idx, op_ann. cbn [fst snd] in *.
  apply Nat.ltb_lt in H. rewrite H.
  destruct (eqb (nth i s false) (negb ty)); reflexivity.
Qed.

Lemma sact_length : forall o s g s', sact o s = Some (g, s') -> length s' = length s.
Proof.
  intros o s g s' H. unfold sact in H. destruct (eqb _ _); [discriminate|].
  inversion H; subst. apply upd_length.
Qed.

Lemma sact_adjoint : forall o a g b, snd o < length a ->
  sact o a = Some (g, b) -> sact (flip_type o) b = Some (g, a).
Proof.
  intros o a g b H E.
  assert (Hb : length b = length a) by (eapply sact_length; eassumption).
  assert (H1 : act_op o a = Done (Some (g, b))) by (rewrite act_op_sact by exact H; now rewrite E).
  apply act_op_adjoint_fwd in H1. rewrite act_op_sact in H1.
  - now inversion H1.
  - destruct o; cbn [flip_type fst snd] in *. lia.
Qed.

Lemma flip_flip : forall o, flip_type (flip_type o) = o.
Proof. exact flip_type_involutive. Qed.

Lemma mono_entry_single : forall M o n, snd o < M ->
  mono_entry M [o] n =
  match sact o (state_of_nat M n) with Some (sg, s') => Some (sg, nat_of_state s') | None => None end.
Proof.
  intros M o n H. unfold mono_entry. rewrite act_mono_single, act_op_sact by (rewrite son_length; exact H).
  destruct (sact o (state_of_nat M n)) as [[sg s']|]; reflexivity.
Qed.

(** the bit at a mode other than the operator's is untouched; the operator's own bit is flipped *)
Lemma sact_bit : forall ty i s g s' q, i < length s -> sact (ty, i) s = Some (g, s') ->
  nth q s' false = xorb (nth q s false) (Nat.eqb i q).
Proof.
  intros ty i s g s' q Hi H. unfold sact in H. cbn [fst snd] in H.
  destruct (eqb (nth i s false) (negb ty)) eqn:E; [discriminate|]. inversion H; subst g s'; clear H.
  destruct (Nat.eqb i q) eqn:Q.
  - apply Nat.eqb_eq in Q. subst q. rewrite nth_upd_same by exact Hi.
    apply eqb_false_iff in E. destruct (nth i s false), ty; cbn in *; congruence.
  - apply Nat.eqb_neq in Q. rewrite nth_upd_other by congruence. now rewrite xorb_false_r.
Qed.

(** * Generic list facts *)
Lemma nth_map_seq : forall A (f : nat -> A) D n d, n < D -> nth n (map f (seq 0 D)) d = f n.
Proof.
  intros A f D n d H. rewrite (nth_indep _ d (f 0)) by (rewrite map_length, seq_length; exact H).
  rewrite map_nth, seq_nth by exact H. reflexivity.
Qed.

Lemma combine_map_self : forall A B (f : A -> B) l, combine l (map f l) = map (fun a => (a, f a)) l.
Proof. induction l as [|a l IH]; cbn [combine map]; [reflexivity | now rewrite IH]. Qed.

Lemma fold_left_ext : forall A B (f g : A -> B -> A) l a, (forall x y, f x y = g x y) -> fold_left f l a = fold_left g l a.
Proof. intros A B f g l. induction l as [|b l IH]; intros a H; cbn [fold_left]; [reflexivity|]. rewrite H. now apply IH. Qed.

Lemma skipn_nth_cons : forall (s : state) k, k < length s -> skipn k s = nth k s false :: skipn (S k) s.
Proof.
  induction s as [|b s IH]; intros k H; [cbn in H; lia|].
  destruct k as [|k]; [reflexivity|]. cbn [length] in H. cbn [skipn nth]. rewrite IH by lia. reflexivity.
Qed.

Section AllM.
Variable F : fsetting.
Notation K := (fK F).
Notation "0" := (f0 F). Notation "1" := (f1 F).
Infix "+" := (fadd F). Infix "*" := (fmul F). Infix "-" := (fsub F). Infix "/" := (fdiv F).
Notation "- x" := (fopp F x).
Notation isz := (fisz F).
Notation NO := (FNum F).
Add Field Ffield_AllM : (fKf F).

(** * Sums *)
Fixpoint lsum {A} (l : list A) (f : A -> K) : K := match l with [] => 0 | a :: r => f a + lsum r f end.

Lemma ksum_lsum : forall A (l : list A) f, ksum K NO l f = lsum l f.
Proof.
  intros A l f. unfold ksum.
  assert (G : forall a, fold_left (fun acc x => nadd K NO acc (f x)) l a = a + lsum l f).
  { induction l as [|x l IH]; intro a; cbn [fold_left lsum]; [ring|]. rewrite IH. cbv [FNum nadd]. ring. }
  rewrite G. cbv [FNum n0]. ring.
Qed.

Lemma lsum_ext_in : forall A (l : list A) f g, (forall a, In a l -> f a = g a) -> lsum l f = lsum l g.
Proof.
  induction l as [|a l IH]; intros f g H; cbn [lsum]; [reflexivity|].
  rewrite (H a) by (left; reflexivity). rewrite (IH f g) by (intros; apply H; now right). reflexivity.
Qed.

Lemma lsum_map : forall A B (h : A -> B) l f, lsum (map h l) f = lsum l (fun a => f (h a)).
Proof. induction l as [|a l IH]; intro f; cbn [map lsum]; [reflexivity | now rewrite IH]. Qed.

Lemma lsum_app : forall A (l1 l2 : list A) f, lsum (l1 ++ l2) f = lsum l1 f + lsum l2 f.
Proof. induction l1 as [|a l IH]; intros l2 f; cbn [app lsum]; [ring | rewrite IH; ring]. Qed.

Lemma lsum_filter : forall A (p : A -> bool) l f, lsum (filter p l) f = lsum l (fun a => if p a then f a else 0).
Proof.
  induction l as [|a l IH]; intro f; cbn [filter lsum]; [reflexivity|].
  destruct (p a); cbn [lsum]; rewrite IH; ring.
Qed.

Definition sumN (D : nat) (f : nat -> K) : K := lsum (seq 0 D) f.

Lemma sumN_S : forall D f, sumN (S D) f = sumN D f + f D.
Proof. intros D f. unfold sumN. rewrite seq_S, lsum_app. cbn [lsum plus]. ring. Qed.

Lemma sumN_ext : forall D f g, (forall n, (n < D)%nat -> f n = g n) -> sumN D f = sumN D g.
Proof. intros D f g H. apply lsum_ext_in. intros n Hn. apply in_seq in Hn. apply H. lia. Qed.

Lemma sumN_zero : forall D f, (forall n, (n < D)%nat -> f n = 0) -> sumN D f = 0.
Proof.
  induction D as [|D IH]; intros f H; [reflexivity|]. rewrite sumN_S, IH, H by (intros; auto). ring.
Qed.

Lemma sumN_pick : forall D m0 (g : nat -> K), (m0 < D)%nat ->
  sumN D (fun m => if Nat.eqb m0 m then g m else 0) = g m0.
Proof.
  induction D as [|D IH]; intros m0 g H; [lia|]. rewrite sumN_S.
  destruct (Nat.eq_dec m0 D) as [E|E].
  - subst m0. rewrite Nat.eqb_refl. rewrite sumN_zero; [ring|].
    intros n Hn. assert (Q : Nat.eqb D n = false) by (apply Nat.eqb_neq; lia). now rewrite Q.
  - rewrite IH by lia. assert (Q : Nat.eqb m0 D = false) by (now apply Nat.eqb_neq). rewrite Q. ring.
Qed.

Lemma sumN_double : forall D f, sumN (2 * D) f = sumN D (fun k => f (2 * k)%nat + f (S (2 * k))).
Proof.
  induction D as [|D IH]; intro f; [reflexivity|].
  replace (2 * S D)%nat with (S (S (2 * D))) by lia. rewrite !sumN_S, IH. ring.
Qed.

(** sums over all bit strings of length M, in the order of their labels *)
Definition SS (M : nat) (g : state -> K) : K := sumN (Nat.pow 2 M) (fun n => g (state_of_nat M n)).

Lemma SS_0 : forall g, SS 0 g = g [].
Proof. intro g. unfold SS, sumN. cbn [Nat.pow seq lsum state_of_nat]. ring. Qed.

Lemma SS_S : forall M g, SS (S M) g = SS M (fun t => g (false :: t) + g (true :: t)).
Proof.
  intros M g. unfold SS. rewrite Nat.pow_succ_r', sumN_double. apply sumN_ext. intros k _.
  cbn [state_of_nat].
  assert (O1 : Nat.odd (2 * k) = false).
  { replace (2 * k)%nat with (0 + 2 * k)%nat by lia. now rewrite Nat.odd_add_mul_2. }
  assert (O2 : Nat.odd (S (2 * k)) = true).
  { replace (S (2 * k)) with (1 + 2 * k)%nat by lia. now rewrite Nat.odd_add_mul_2. }
  rewrite O1, O2, Nat.div2_double, Nat.div2_succ_double. reflexivity.
Qed.

Lemma SS_ext : forall M g h, (forall s, length s = M -> g s = h s) -> SS M g = SS M h.
Proof. intros M g h H. apply sumN_ext. intros n _. apply H. apply son_length. Qed.

Lemma SS_zero : forall M, SS M (fun _ => 0) = 0.
Proof. intro M. apply sumN_zero. reflexivity. Qed.

Lemma SS_scal : forall M c g, SS M (fun s => c * g s) = c * SS M g.
Proof.
  induction M as [|M IH]; intros c g; [rewrite !SS_0; reflexivity|].
  rewrite !SS_S, <- IH. apply SS_ext. intros. ring.
Qed.

Lemma SS_label : forall M (f : nat -> K), sumN (Nat.pow 2 M) f = SS M (fun s => f (nat_of_state s)).
Proof. intros M f. apply sumN_ext. intros n H. now rewrite nos_son. Qed.

(** * Energies and weights as functions of the bit string *)
Fixpoint Est (eps : list K) (s : state) : K :=
  match eps, s with e :: eps', b :: s' => (if b then e else 0) + Est eps' s' | _, _ => 0 end.
Fixpoint Wst (xs : list K) (s : state) : K :=
  match xs, s with x :: xs', b :: s' => (if b then x else 1) * Wst xs' s' | _, _ => 1 end.
Fixpoint Zp (xs : list K) : K := match xs with [] => 1 | x :: r => (1 + x) * Zp r end.

Lemma Est_nil : forall eps, Est eps [] = 0.
Proof. destruct eps; reflexivity. Qed.
Lemma Wst_nil : forall xs, Wst xs [] = 1.
Proof. destruct xs; reflexivity. Qed.

Lemma fold_E : forall eps (s : state) k a,
  fold_left (fun acc ie => if nth (fst ie) s false then acc + snd ie else acc) (combine (seq k (length eps)) eps) a =
  a + Est eps (skipn k s).
Proof.
  induction eps as [|e eps IH]; intros s k a; cbn [length seq combine fold_left]; [cbn [Est]; ring|].
  rewrite IH. cbn [fst snd].
  destruct (Nat.lt_ge_cases k (length s)) as [L|L].
  - rewrite (skipn_nth_cons s k L). cbn [Est]. destruct (nth k s false); ring.
  - rewrite (nth_overflow s false L). rewrite !skipn_all2 by lia. rewrite !Est_nil. ring.
Qed.

Lemma fold_W : forall xs (s : state) k a,
  fold_left (fun acc ix => if nth (fst ix) s false then acc * snd ix else acc) (combine (seq k (length xs)) xs) a =
  a * Wst xs (skipn k s).
Proof.
  induction xs as [|x xs IH]; intros s k a; cbn [length seq combine fold_left]; [cbn [Wst]; ring|].
  rewrite IH. cbn [fst snd].
  destruct (Nat.lt_ge_cases k (length s)) as [L|L].
  - rewrite (skipn_nth_cons s k L). cbn [Wst]. destruct (nth k s false); ring.
  - rewrite (nth_overflow s false L). rewrite !skipn_all2 by lia. rewrite !Wst_nil. ring.
Qed.

Lemma fold_Z : forall xs a, fold_left (fun acc x => acc * (1 + x)) xs a = a * Zp xs.
Proof. induction xs as [|x xs IH]; intro a; cbn [fold_left Zp]; [ring | rewrite IH; ring]. Qed.

(** the tables of Wick.v, entry of the label of a bit string *)
Lemma energies_nth : forall eps s, length s = length eps ->
  nth (nat_of_state s) (energies F eps) 0 = Est eps s.
Proof.
  intros eps s H. unfold energies. rewrite nth_map_seq by (rewrite <- H; apply nos_lt).
  unfold idx, bit.
  rewrite (fold_left_ext _ _ _ (fun acc ie => if nth (fst ie) s false then acc + snd ie else acc))
    by (intros; now rewrite testbit_nos).
  rewrite fold_E. cbn [skipn]. ring.
Qed.

Lemma gibbs_nth : forall xs s, length s = length xs ->
  nth (nat_of_state s) (gibbs F xs) 0 = Wst xs s / Zp xs.
Proof.
  intros xs s H. unfold gibbs. cbv zeta. rewrite nth_map_seq by (rewrite <- H; apply nos_lt).
  unfold idx, bit.
  rewrite (fold_left_ext _ _ _ (fun acc ix => if nth (fst ix) s false then acc * snd ix else acc))
    by (intros; now rewrite testbit_nos).
  rewrite fold_W, fold_Z. cbn [skipn]. rewrite !(Fdiv_def (fKf F)). f_equal; [ring|]. f_equal. ring.
Qed.

(** occupying an empty mode adds its level and multiplies the weight by its Boltzmann factor *)
Lemma Est_upd : forall eps s i, (i < length eps)%nat -> (i < length s)%nat -> nth i s false = false ->
  Est eps (upd i true s) = Est eps s + nth i eps 0.
Proof.
  induction eps as [|e eps IH]; intros s i He Hs Hb; [cbn in He; lia|].
  destruct s as [|b s]; [cbn in Hs; lia|]. destruct i as [|i].
  - cbn [nth] in Hb. subst b. cbn [upd Est nth]. ring.
  - cbn [nth length] in *. cbn [upd Est]. rewrite IH by (auto; lia). ring.
Qed.

Lemma Wst_upd : forall xs s i, (i < length xs)%nat -> (i < length s)%nat -> nth i s false = false ->
  Wst xs (upd i true s) = nth i xs 0 * Wst xs s.
Proof.
  induction xs as [|x xs IH]; intros s i He Hs Hb; [cbn in He; lia|].
  destruct s as [|b s]; [cbn in Hs; lia|]. destruct i as [|i].
  - cbn [nth] in Hb. subst b. cbn [upd Wst nth]. ring.
  - cbn [nth length] in *. cbn [upd Wst]. rewrite IH by (auto; lia). ring.
Qed.

(** the weights sum to the partition function; so do (1 + x_i) w_s over the states with mode i empty *)
Lemma SS_Wst : forall xs, SS (length xs) (Wst xs) = Zp xs.
Proof.
  induction xs as [|x xs IH]; [rewrite SS_0; reflexivity|].
  cbn [length]. rewrite SS_S. cbn [Wst Zp]. rewrite <- IH, <- SS_scal. apply SS_ext. intros. ring.
Qed.

Lemma SS_Wst_hole : forall xs i, (i < length xs)%nat ->
  SS (length xs) (fun s => if nth i s false then 0 else (1 + nth i xs 0) * Wst xs s) = Zp xs.
Proof.
  induction xs as [|x xs IH]; intros i H; [cbn in H; lia|].
  cbn [length] in *. rewrite SS_S. destruct i as [|i].
  - cbn [nth Wst Zp]. rewrite <- SS_Wst, <- SS_scal. apply SS_ext. intros. ring.
  - cbn [nth Wst Zp]. rewrite <- (IH i) by lia. rewrite <- SS_scal. apply SS_ext. intros s _.
    destruct (nth i s false); ring.
Qed.

Lemma Zp_nz : forall xs, (forall x, In x xs -> 1 + x <> 0) -> Zp xs <> 0.
Proof.
  induction xs as [|x xs IH]; intro H; cbn [Zp]; [apply (one_neq_zero F)|].
  apply (mul_nz F); [apply H; now left | apply IH; intros; apply H; now right].
Qed.

(** * Matrix elements of the Jordan-Wigner matrices *)
Definition sg1 (b : bool) : K := if b then fopp F 1 else 1.

Lemma sg1_sq : forall b, (0 + sg1 b) * (0 + sg1 b) = 1.
Proof. destruct b; unfold sg1; ring. Qed.
Lemma sg1_xorb : forall a b, sg1 (xorb a b) = sg1 a * sg1 b.
Proof. destruct a, b; unfold sg1; cbn [xorb]; ring. Qed.

(** the entry <t|o|s> exactly as EDSpec.poly_matrix computes it for the one-monomial polynomial [([o], 1)] *)
Definition ent (o : op) (M t s : nat) : K :=
  0 + match mono_entry M [o] s with
      | Some (sg, t') => if Nat.eqb t' t then sg1 sg else 0
      | None => 0
      end.

Lemma op_matrix_ent : forall M o,
  op_matrix K NO M o = map (fun t => map (fun s => ent o M t s) (seq 0 (Nat.pow 2 M))) (seq 0 (Nat.pow 2 M)).
Proof. reflexivity. Qed.

Lemma mget_op_matrix : forall M o t s, (t < Nat.pow 2 M)%nat -> (s < Nat.pow 2 M)%nat ->
  mget K NO (op_matrix K NO M o) t s = ent o M t s.
Proof.
  intros M o t s Ht Hs. rewrite op_matrix_ent. unfold mget.
  rewrite (nth_map_seq _ _ _ _ _ Ht). rewrite (nth_map_seq _ _ _ _ _ Hs). reflexivity.
Qed.

(** by column: <t|o|s> = +-[o s = t] *)
Lemma ent_by_col : forall o M t (s : state), (snd o < M)%nat -> length s = M ->
  ent o M t (nat_of_state s) =
  0 + match sact o s with Some (sg, s') => if Nat.eqb (nat_of_state s') t then sg1 sg else 0 | None => 0 end.
Proof.
  intros o M t s Ho Hs. unfold ent. rewrite mono_entry_single by exact Ho.
  rewrite <- Hs, son_nos. destruct (sact o s) as [[sg s']|]; reflexivity.
Qed.

(** by row: <t|o|s> = +-[o^+ t = s] *)
Lemma ent_by_row : forall o M (t s : state), (snd o < M)%nat -> length t = M -> length s = M ->
  ent o M (nat_of_state t) (nat_of_state s) =
  0 + match sact (flip_type o) t with Some (sg, u) => if Nat.eqb (nat_of_state u) (nat_of_state s) then sg1 sg else 0 | None => 0 end.
Proof.
  intros o M t s Ho Ht Hs. rewrite ent_by_col by assumption.
  assert (Hf : (snd (flip_type o) < length t)%nat) by (destruct o; cbn [flip_type snd] in *; lia).
  assert (Ho' : (snd o < length s)%nat) by lia.
  destruct (sact o s) as [[sg s']|] eqn:E1.
  - pose proof (sact_length _ _ _ _ E1) as L1.
    destruct (Nat.eqb (nat_of_state s') (nat_of_state t)) eqn:Q.
    + apply Nat.eqb_eq in Q. apply nos_inj in Q; [|lia]. subst s'.
      rewrite (sact_adjoint _ _ _ _ Ho' E1). now rewrite Nat.eqb_refl.
    + destruct (sact (flip_type o) t) as [[sg2 u]|] eqn:E2; [|reflexivity].
      destruct (Nat.eqb (nat_of_state u) (nat_of_state s)) eqn:Q2; [|reflexivity].
      exfalso. pose proof (sact_length _ _ _ _ E2) as L2.
      apply Nat.eqb_eq in Q2. apply nos_inj in Q2; [|lia]. subst u.
      apply sact_adjoint in E2; [|exact Hf]. rewrite flip_flip in E2. rewrite E2 in E1. inversion E1; subst.
      now rewrite Nat.eqb_refl in Q.
  - destruct (sact (flip_type o) t) as [[sg2 u]|] eqn:E2; [|reflexivity].
    destruct (Nat.eqb (nat_of_state u) (nat_of_state s)) eqn:Q2; [|reflexivity].
    exfalso. pose proof (sact_length _ _ _ _ E2) as L2.
    apply Nat.eqb_eq in Q2. apply nos_inj in Q2; [|lia]. subst u.
    apply sact_adjoint in E2; [|exact Hf]. rewrite flip_flip in E2. rewrite E2 in E1. discriminate.
Qed.

(** * EDSpec.gf on dense matrices given by entry functions *)
Lemma idx_map_seq : forall A (f : nat -> A) D, idx (map f (seq 0 D)) = map (fun n => (n, f n)) (seq 0 D).
Proof. intros A f D. unfold idx. rewrite map_length, seq_length. apply combine_map_self. Qed.

Lemma gf_dense : forall D E w (a b : nat -> nat -> K) z,
  gf K NO E w (map (fun t => map (fun s => a t s) (seq O D)) (seq O D))
              (map (fun t => map (fun s => b t s) (seq O D)) (seq O D)) z =
  sumN D (fun n => sumN D (fun m => a n m * b m n * (nth n w 0 + nth m w 0) / (z - (nth m E 0 - nth n E 0)))).
Proof.
  intros D E w a b z. unfold gf. rewrite ksum_lsum, idx_map_seq, lsum_map. apply lsum_ext_in.
  intros n Hn. apply in_seq in Hn. cbv beta zeta. cbn [fst snd].
  rewrite ksum_lsum, idx_map_seq, lsum_map. apply lsum_ext_in.
  intros m Hm. apply in_seq in Hm. cbv beta zeta. cbn [fst snd]. unfold mget.
  rewrite (nth_map_seq _ (fun t => map (fun s => b t s) (seq O D)) D m []) by lia.
  rewrite (nth_map_seq _ (fun s => b m s) D n) by lia. reflexivity.
Qed.

(** c^+_i on a state with mode i empty, then c_i: back to the state, with the same Jordan-Wigner sign *)
Lemma sact_cdag : forall j s, sact (cdag j) s = if nth j s false then None else Some (par j s, upd j true s).
Proof. intros j s. unfold sact, cdag. cbn [fst snd negb]. destruct (nth j s false); reflexivity. Qed.
Lemma sact_cann : forall i s, sact (cann i) s = if nth i s false then Some (par i s, upd i false s) else None.
Proof. intros i s. unfold sact, cann. cbn [fst snd negb]. destruct (nth i s false); reflexivity. Qed.

Lemma sact_cann_cdag : forall i s, (i < length s)%nat -> nth i s false = false ->
  sact (cann i) (upd i true s) = Some (par i s, s).
Proof.
  intros i s Hi B. rewrite sact_cann, nth_upd_same by exact Hi.
  rewrite par_upd_ge by lia. rewrite upd_upd_same.
  assert (E : upd i false s = s) by (rewrite <- B at 1; apply upd_nth_id). now rewrite E.
Qed.

(** * free_gf_diag for every M *)
Theorem free_gf_diag_allM : forall (eps xs : list K) (z : K) (i j : nat),
  length xs = length eps -> (i < length eps)%nat -> (j < length eps)%nat ->
  (forall x, In x xs -> 1 + x <> 0) -> (i = j -> z - nth i eps 0 <> 0) ->
  gf K NO (energies F eps) (gibbs F xs) (Cm F (length eps) i) (CXm F (length eps) j) z = gfree F eps i j z.
Proof.
  intros eps xs z i j Hlen Hi Hj Hx Hz. set (M := length eps) in *.
  unfold Cm, CXm. rewrite !op_matrix_ent, gf_dense.
  set (W := gibbs F xs). set (E := energies F eps).
  (* 1. the inner sum collapses to m = c^+_j n *)
  set (T := fun s : state => match sact (cdag j) s with
            | None => 0
            | Some (sg, s') => ent (cann i) M (nat_of_state s) (nat_of_state s') * (0 + sg1 sg) *
                               (nth (nat_of_state s) W 0 + nth (nat_of_state s') W 0) /
                               (z - (nth (nat_of_state s') E 0 - nth (nat_of_state s) E 0))
            end).
  transitivity (SS M T).
  { rewrite SS_label. apply SS_ext. intros s Hs. unfold T.
    destruct (sact (cdag j) s) as [[sg s']|] eqn:E1.
    - pose proof (sact_length _ _ _ _ E1) as L1.
      transitivity (sumN (Nat.pow 2 M) (fun m => if Nat.eqb (nat_of_state s') m
          then ent (cann i) M (nat_of_state s) m * (0 + sg1 sg) * (nth (nat_of_state s) W 0 + nth m W 0) /
               (z - (nth m E 0 - nth (nat_of_state s) E 0)) else 0)).
      + apply sumN_ext. intros m Hm. rewrite (ent_by_col (cdag j) M m s) by (cbn [cdag snd]; assumption). rewrite E1.
        destruct (Nat.eqb (nat_of_state s') m); [reflexivity | apply (gf_zero_r F)].
      + rewrite sumN_pick; [reflexivity|]. rewrite <- Hs, <- L1. apply nos_lt.
    - apply sumN_zero. intros m Hm. rewrite (ent_by_col (cdag j) M m s) by (cbn [cdag snd]; assumption). rewrite E1.
      apply (gf_zero_r F). }
  unfold gfree. destruct (Nat.eqb i j) eqn:Q.
  - (* 2a. i = j *)
    apply Nat.eqb_eq in Q. subst j. specialize (Hz eq_refl).
    assert (HZ : Zp xs <> 0) by now apply Zp_nz.
    transitivity (SS M (fun s => (1 / (Zp xs * (z - nth i eps 0))) *
                                 (if nth i s false then 0 else (1 + nth i xs 0) * Wst xs s))).
    + apply SS_ext. intros s Hs. unfold T. rewrite sact_cdag. destruct (nth i s false) eqn:B; [ring|].
      assert (Hi' : (i < length s)%nat) by lia.
      rewrite (ent_by_col (cann i) M _ (upd i true s)) by (cbn [cann snd]; rewrite ?upd_length; assumption).
      rewrite sact_cann_cdag by assumption. rewrite Nat.eqb_refl.
      unfold W, E. rewrite !gibbs_nth, !energies_nth by (rewrite ?upd_length; lia).
      rewrite Est_upd, Wst_upd by (assumption || lia).
      replace (z - (Est eps s + nth i eps 0 - Est eps s)) with (z - nth i eps 0) by ring.
      destruct (par i s); unfold sg1; field; split; assumption.
    + rewrite SS_scal. subst M. rewrite <- Hlen. rewrite SS_Wst_hole by lia. field. split; assumption.
  - (* 2b. i <> j: the bit string changes *)
    apply Nat.eqb_neq in Q. rewrite <- (SS_zero M). apply SS_ext. intros s Hs. unfold T. rewrite sact_cdag.
    destruct (nth j s false) eqn:Bj; [reflexivity|].
    rewrite (ent_by_col (cann i) M _ (upd j true s)) by (cbn [cann snd]; rewrite ?upd_length; assumption).
    rewrite sact_cann, nth_upd_other by exact Q.
    destruct (nth i s false) eqn:Bi; [|apply (gf_zero_l F)].
    rewrite nos_eqb; [apply (gf_zero_l F) | now rewrite !upd_length |].
    intro Heq. apply (f_equal (fun t => nth j t false)) in Heq.
    rewrite nth_upd_other, nth_upd_same in Heq by (congruence || lia). congruence.
Qed.
End AllM.

