(** The bridged spine in one statement: from the Hamiltonian polynomial h to the Green's function.

    [spine_gf_symmetry_analysis]  the spine theorem on the partition produced by the symmetry-analysis model run on (h, candidates)
                                  (number type of the analysis independent of the number type of the numerics);
    [spine_gf_of_hamiltonian]     one number type (a field with an exact zero test): the analysis returns a classification, the model
                                  of Hamiltonian::prepare returns the blocks, and for every per-block eigen-data that satisfy the
                                  EXACT certificate for those blocks
                                    (1) (assembled E, assembled U) is an exact eigen-system of poly_matrix h, the Jordan-Wigner
                                        matrix of the Hamiltonian polynomial on the full Fock space, and
                                    (2) the value of the model pipeline for G_ij(z) is EDSpec.gf of that eigen-system.
    Inter-layer hypotheses left: none.  What remains are hypotheses on the INPUT (exactness of the tolerances, the certificate
    of the external eigen-solver, shapes).  No axioms. *)
Require Import Bool List Arith Lia Ring Ring_theory Field Field_theory.
From PV Require Import Outcome Fock Poly PolySem EDSpec HPart HPartSpec HPartProofs Sparse TermList GFPart
     Spine SpinePartition SpineBridge SpineBridgeHam.
From PV Require Symm SymmProofs Thermal.
From PVgen Require Import Gen_C01.
Import ListNotations.

Theorem spine_gf_symmetry_analysis
  (KS : Type) (s0 s1 : KS) (sadd smul ssub : KS -> KS -> KS) (sopp : KS -> KS) (szero : KS -> bool) (shalf : KS)
  (SRING : ring_ok KS s0 s1 sadd smul ssub sopp szero) (S10 : s1 <> s0)
  (K : Type) (NO : numops K) (kinv : K -> K)
  (Kr : ring_theory (n0 K NO) (n1 K NO) (nadd K NO) (nmul K NO) (nsub K NO) (nopp K NO) (@eq K))
  (Kdiv : forall a b, ndiv K NO a b = nmul K NO a (kinv b))
  (conj0 : nconj K NO (n0 K NO) = n0 K NO)
  (fb : bool) (eps : K)
  (one_not_small : nre_ltb K NO (nabs K NO (n1 K NO)) eps = false)
  (mone_not_small : nre_ltb K NO (nabs K NO (nopp K NO (n1 K NO))) eps = false)
  (one_large : nre_ltb K NO eps (nabs K NO (n1 K NO)) = true)
  (mone_large : nre_ltb K NO eps (nabs K NO (nopp K NO (n1 K NO))) = true)
  (reference prec : K) (Hkeep : forall x, keep_entry K NO reference prec x = false -> x = n0 K NO)
  (T : tols K)
  (Hrel : forall R, gf_relevant K NO (t_matrix_element K T) R = false -> R = n0 K NO)
  (Hcmp : forall a b, gf_compare K NO (t_compare K T) a b = false -> gf_compare K NO (t_compare K T) b a = true)
  (fz sf : bool) (mode : Symm.symm_mode KS) (spins : list nat) (h : poly KS) (sy : Symm.symm KS) :
  mode_uniform KS sf mode (length spins) ->
  Symm.symmetrize KS s0 s1 sadd smul ssub sopp szero shalf fz sf mode spins h = Done sy ->
  exists c, Symm.sc_compute KS s0 sadd ssub sopp szero (length spins) (Symm.sy_ops sy) = Done c /\
    forall (ED : eigdata K) (i j : nat), i < length spins -> j < length spins -> eig_ok K (bridge (length spins) c) ED ->
    forall (fixed lenient : bool) (beta z : K) (parts : list ((nat * nat) * part_out K)),
    spine_gf K NO fb eps reference prec T fixed lenient (bridge (length spins) c) ED beta i j = Done (WDone parts) ->
    exists D, spine_dm K NO beta (bridge (length spins) c) ED = Done D /\
      gf_value K NO parts z =
      gf K NO (assembled_E K ED) (assembled_w K D)
         (rotate K NO (Nat.pow 2 (length spins)) (assembled_U K NO (bridge (length spins) c) ED) (op_matrix K NO (length spins) (cann i)))
         (rotate K NO (Nat.pow 2 (length spins)) (assembled_U K NO (bridge (length spins) c) ED) (op_matrix K NO (length spins) (cdag j))) z.
Proof.
  intros Hm Esy.
  destruct (analysis_ops_ok KS s0 s1 sadd smul ssub sopp szero shalf SRING fz sf mode spins h sy Hm Esy) as [Hr Hu].
  destruct (analysis_class_total KS s0 s1 sadd smul ssub sopp szero shalf SRING fz sf mode spins h sy Hm Esy) as [c Ec].
  exists c. split; [exact Ec|]. intros ED i j.
  exact (spine_gf_symmetry KS s0 s1 sadd smul ssub sopp szero SRING S10 (length spins) (Symm.sy_ops sy) c Hr Ec Hu
           K NO kinv Kr Kdiv conj0 fb eps one_not_small mone_not_small one_large mone_large reference prec Hkeep T Hrel Hcmp ED i j).
Qed.

Section OneNumberType.
Variable K : Type.
Variable NO : numops K.
Notation k0 := (n0 K NO).
Notation k1 := (n1 K NO).
Notation kadd := (nadd K NO).
Notation ksub := (nsub K NO).
Notation kmul := (nmul K NO).
Notation kdiv := (ndiv K NO).
Notation kopp := (nopp K NO).
Variable kinv : K -> K.
Hypothesis Kf : field_theory k0 k1 kadd kmul ksub kopp kdiv kinv (@eq K).
Add Field KfieldSBM : Kf.
Variable kzero : K -> bool.
Variable khalf : K.
Hypothesis Kzero : forall x, kzero x = true <-> x = k0.

Lemma field_no_zero_divisors : forall a b : K, kmul a b = k0 -> a = k0 \/ b = k0.
Proof.
  intros a b H. destruct (kzero a) eqn:Z; [left; apply Kzero; exact Z|]. right.
  assert (Ha : a <> k0) by (intro E; apply Kzero in E; congruence).
  transitivity (kmul (kinv a) (kmul a b)); [field; exact Ha|]. rewrite H. ring.
Qed.

Hypothesis conj0 : nconj K NO k0 = k0.
Variable fb : bool.
Variable eps : K.
Hypothesis one_not_small : nre_ltb K NO (nabs K NO k1) eps = false.
Hypothesis mone_not_small : nre_ltb K NO (nabs K NO (kopp k1)) eps = false.
Hypothesis one_large : nre_ltb K NO eps (nabs K NO k1) = true.
Hypothesis mone_large : nre_ltb K NO eps (nabs K NO (kopp k1)) = true.
Hypothesis zero_test_exact : forall x, is_zero K NO eps x = true <-> x = k0.
Variables reference prec : K.
Hypothesis Hkeep : forall x, keep_entry K NO reference prec x = false -> x = k0.
Variable T : tols K.
Hypothesis Hrel : forall R, gf_relevant K NO (t_matrix_element K T) R = false -> R = k0.
Hypothesis Hcmp : forall a b, gf_compare K NO (t_compare K T) a b = false -> gf_compare K NO (t_compare K T) b a = true.

Theorem spine_gf_of_hamiltonian (fz sf : bool) (mode : Symm.symm_mode K) (spins : list nat) (h : poly K) (sy : Symm.symm K) :
  poly_in_range K (length spins) h ->
  mode_uniform K sf mode (length spins) ->
  Symm.symmetrize K k0 k1 kadd kmul ksub kopp kzero khalf fz sf mode spins h = Done sy ->
  exists c Hs,
    Symm.sc_compute K k0 kadd ksub kopp kzero (length spins) (Symm.sy_ops sy) = Done c /\
    spine_hblocks K NO fb eps (bridge (length spins) c) h = Done Hs /\
    forall ED : eigdata K, eig_ok K (bridge (length spins) c) ED ->
    (forall b, b < length (sc_states (bridge (length spins) c)) ->
       eigensystem K NO (block_size (bridge (length spins) c) b) (nth b Hs []) (Uof K ED b) (Eof K ED b)) ->
    eigensystem K NO (Nat.pow 2 (length spins)) (poly_matrix K NO (length spins) h)
                (assembled_U K NO (bridge (length spins) c) ED) (assembled_E K ED) /\
    forall i j : nat, i < length spins -> j < length spins ->
    forall (fixed lenient : bool) (beta z : K) (parts : list ((nat * nat) * part_out K)),
    spine_gf K NO fb eps reference prec T fixed lenient (bridge (length spins) c) ED beta i j = Done (WDone parts) ->
    exists D, spine_dm K NO beta (bridge (length spins) c) ED = Done D /\
      gf_value K NO parts z =
      gf K NO (assembled_E K ED) (assembled_w K D)
         (rotate K NO (Nat.pow 2 (length spins)) (assembled_U K NO (bridge (length spins) c) ED) (op_matrix K NO (length spins) (cann i)))
         (rotate K NO (Nat.pow 2 (length spins)) (assembled_U K NO (bridge (length spins) c) ED) (op_matrix K NO (length spins) (cdag j))) z.
Proof.
  intros Hh Hm Esy.
  pose proof (F_R Kf) as Kr.
  assert (RING : ring_ok K k0 k1 kadd kmul ksub kopp kzero) by (split; [exact Kr|exact Kzero]).
  assert (Hc : match mode with Symm.SymmCustom _ cands => Forall (poly_in_range K (length spins)) cands | _ => True end)
    by (destruct mode; [exact I|exact I|exact (proj2 Hm)]).
  destruct (analysis_ops_ok K k0 k1 kadd kmul ksub kopp kzero khalf RING fz sf mode spins h sy Hm Esy) as [Hr Hu].
  destruct (analysis_class_total K k0 k1 kadd kmul ksub kopp kzero khalf RING fz sf mode spins h sy Hm Esy) as [c Ec].
  exists c. eexists. split; [exact Ec|]. split.
  - exact (spine_hblocks_symmetry K NO kzero khalf Kr Kzero field_no_zero_divisors fz sf mode spins h Hh Hc sy Esy c Ec fb eps zero_test_exact).
  - intros ED EO CERT. split.
    + apply (spine_symmetry_eigensystem K NO kzero khalf Kr Kzero field_no_zero_divisors fz sf mode spins h Hh Hc sy Esy c Ec fb eps
               zero_test_exact conj0 ED _ EO
               (spine_hblocks_symmetry K NO kzero khalf Kr Kzero field_no_zero_divisors fz sf mode spins h Hh Hc sy Esy c Ec fb eps zero_test_exact)).
      exact CERT.
    + intros i j Hi Hj.
      exact (spine_gf_symmetry K k0 k1 kadd kmul ksub kopp kzero RING (F_1_neq_0 Kf) (length spins) (Symm.sy_ops sy) c Hr Ec Hu
               K NO kinv Kr (Fdiv_def Kf) conj0 fb eps one_not_small mone_not_small one_large mone_large reference prec Hkeep
               T Hrel Hcmp ED i j Hi Hj EO).
Qed.

End OneNumberType.
