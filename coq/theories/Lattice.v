(** Lattice.v -- executable state-machine model of Pomerol::Lattice, Lattice::TermStorage,
    Lattice::Term::Presets and LatticePresets (properties C20 and C04).

    Sources modelled (file:line comments refer to /repo at the time of writing):
      src/pomerol/Lattice.cpp, include/pomerol/Lattice.h, src/pomerol/LatticePresets.cpp.

    * The operator / label / orbital / spin arrays of the term factories and their guard conditions are
      NOT written here: they are [PVgen.Gen_LatticePresets], regenerated from the C++ text on every run.
    * Everything with control flow (validation loop of Lattice::addTerm, the loops of the LatticePresets
      functions, which calls go through the validated [Lattice::addTerm] and which push straight into
      [L->Terms->addTerm], the order of the tests, the exception class of every throw) is hand-written
      below and tied to the code by the correspondence check (checks/C20.py).
    * Two places where the code at hand deviates from what it evidently intends are modelled both ways,
      selected by a [config]: [fix_getsite] (condition of Lattice::getSite) and [fix_shapecheck] (the
      spin-size comparison of addSzSz / addSS / addHopping(6 args) / addHopping(4 args)).  With both
      flags off the model is the code as it stands; which variant the real code is, is decided by the
      correspondence check, never assumed.

    This file contains definitions only (model, execution instance, specification predicates used by the
    check).  C20's proofs are in LatticeProofs.v. *)
Require Import List Bool Arith QArith.
From PV Require Import Outcome.
From PVgen Require Import Gen_LatticePresets.
Import ListNotations.
Local Open Scope nat_scope.
Local Open Scope bool_scope.

(** Exception classes, as codes of [Outcome.Throws]. *)
Definition exWrongLabel : nat := 1.      (* Lattice::exWrongLabel *)
Definition exWrongIndices : nat := 2.    (* Lattice::Term::Presets::exWrongIndices *)

Record config := mkConfig { fix_getsite : bool; fix_shapecheck : bool }.
Definition as_is : config := mkConfig false false.     (* the code as it stands *)
Definition repaired : config := mkConfig true true.    (* both minimal repairs applied *)

(** Amplitudes (MelemType) are abstract: a zero test ([if (std::abs(x))]), decidable equality (only used by
    the specification predicates), and the arithmetic the presets perform on their parameters. *)
Record vops (V : Type) := mkVops {
  vnz : V -> bool;          (* std::abs(x) != 0 *)
  veqb : V -> V -> bool;
  vneg : V -> V;            (* -x *)
  vsub : V -> V -> V;       (* x - y *)
  vhalf : V -> V;           (* x / 2. *)
  vquart : V -> V;          (* x / 4. *)
  vdbl : V -> V;            (* 2.0 * x *)
  vconj : V -> V            (* conj(x) in the complex build, identity in the real build *)
}.
Arguments vnz {V}. Arguments veqb {V}. Arguments vneg {V}. Arguments vsub {V}.
Arguments vhalf {V}. Arguments vquart {V}. Arguments vdbl {V}. Arguments vconj {V}.

(** Lattice::Term (Lattice.h:103-136).  The order N is the length of the operator sequence; the three
    other vectors have the same length for every term built by a constructor or a factory ([term_wf]
    below); a shorter vector makes the validation loop read past its end, which the model reports as OOB. *)
Record term (L V : Type) := mkTerm {
  t_ops : list bool;        (* OperatorSequence: true = creation *)
  t_labels : list L;        (* SiteLabels *)
  t_orbs : list nat;        (* Orbitals *)
  t_spins : list nat;       (* Spins *)
  t_val : V                 (* Value *)
}.
Arguments mkTerm {L V}. Arguments t_ops {L V}. Arguments t_labels {L V}.
Arguments t_orbs {L V}. Arguments t_spins {L V}. Arguments t_val {L V}.

Definition t_order {L V} (t : term L V) : nat := length (t_ops t).     (* Term::getOrder, Lattice.cpp:51 *)

(** Lattice::Site without its label: (OrbitalSize, SpinSize). *)
Definition shape := (nat * nat)%type.

(** What a call returns to the caller. *)
Inductive obs (L V : Type) :=
| ONone
| OSite (s : shape)
| OTerms (l : list (term L V))
| ONat (n : nat).
Arguments ONone {L V}. Arguments OSite {L V}. Arguments OTerms {L V}. Arguments ONat {L V}.

Section Model.
Variable L : Type.                   (* site labels (std::string) *)
Variable leqb : L -> L -> bool.      (* equality of labels *)
Variable V : Type.
Variable vo : vops V.

Notation term := (term L V).

(** * Sites: std::map<std::string, Site*> (Lattice.h:28).  Association list with unique keys; the
      iteration order of the map is not observable through the calls modelled here. *)
Definition site_map := list (L * shape).

Fixpoint find_site (l : L) (m : site_map) : option shape :=
  match m with
  | [] => None
  | (k, s) :: m' => if leqb l k then Some s else find_site l m'
  end.

(** [Sites[Label] = S] (Lattice.cpp:136): overwrites an existing entry. *)
Fixpoint set_site (l : L) (s : shape) (m : site_map) : site_map :=
  match m with
  | [] => [(l, s)]
  | (k, s0) :: m' => if leqb l k then (l, s) :: m' else (k, s0) :: set_site l s m'
  end.

(** * Term storage: std::map<unsigned int, std::list<Term*>> + MaxTermOrder (Lattice.h:140-160). *)
Definition term_map := list (nat * list term).

Fixpoint tm_get (n : nat) (m : term_map) : list term :=
  match m with
  | [] => []                                    (* Lattice.cpp:89: a fresh empty list *)
  | (k, l) :: m' => if k =? n then l else tm_get n m'
  end.

Fixpoint tm_push (n : nat) (t : term) (m : term_map) : term_map :=       (* Terms[N].push_back *)
  match m with
  | [] => [(n, [t])]
  | (k, l) :: m' => if k =? n then (k, l ++ [t]) :: m' else (k, l) :: tm_push n t m'
  end.

Record state := mkState { sites : site_map; terms : term_map; maxorder : nat }.

Definition init : state := mkState [] [] 0.           (* Lattice.cpp:96, :64-67 *)

(** TermStorage::addTerm (Lattice.cpp:69-75): no validation at all. *)
Definition ts_add (t : term) (st : state) : state :=
  let N := t_order t in
  mkState (sites st) (tm_push N t (terms st)) (if maxorder st <? N then N else maxorder st).

Definition push_all (ts : list term) (st : state) : state := fold_left (fun s t => ts_add t s) ts st.

Definition getTerms (st : state) (n : nat) : list term := tm_get n (terms st).    (* Lattice.cpp:82-90 *)

(** * Effects of calls that only *add terms*: the list of terms handed to TermStorage::addTerm, in order,
      and how the call ended.  None of the modelled functions reads the term storage, so a call is
      described by (pushes so far, outcome); an exception thrown in the middle of a loop keeps the pushes
      made before it. *)
Definition W := (list term * outcome unit)%type.
Definition wret : W := ([], Done tt).
Definition wthrow (c : nat) : W := ([], Throws c).
Definition woob : W := ([], OOB).
Definition wpush (t : term) : W := ([t], Done tt).
Definition wseq (a b : W) : W :=
  match snd a with
  | Done _ => (fst a ++ fst b, snd b)
  | _ => a
  end.
Definition wwhen (c : bool) (a : W) : W := if c then a else wret.

(** [for (unsigned short i = 0; i < n; ++i) body] *)
Fixpoint wfor_from (k i : nat) (body : nat -> W) : W :=
  match k with
  | O => wret
  | S k' => wseq (body i) (wfor_from k' (S i) body)
  end.
Definition wfor (n : nat) (body : nat -> W) : W := wfor_from n 0 body.

(** * Lattice::addTerm (Lattice.cpp:144-153). *)

(** The validation loop, :147-151: for i < N, three tests in this order, all throwing exWrongLabel. *)
Fixpoint validate (m : site_map) (n : nat) (ls : list L) (os ss : list nat) : outcome unit :=
  match n with
  | O => Done tt
  | S n' =>
    match ls, os, ss with
    | l :: ls', o :: os', s :: ss' =>
      match find_site l m with
      | None => Throws exWrongLabel                                    (* :148 *)
      | Some (norb, nspin) =>
        if norb <=? o then Throws exWrongLabel                         (* :149  Orbitals[i] >= OrbitalSize *)
        else if nspin <=? s then Throws exWrongLabel                   (* :150  Spins[i] >= SpinSize *)
        else validate m n' ls' os' ss'
      end
    | _, _, _ => OOB          (* a vector shorter than N is read past its end *)
    end
  end.

Definition w_addTerm (m : site_map) (t : term) : W :=
  match validate m (t_order t) (t_labels t) (t_orbs t) (t_spins t) with
  | Done _ => wwhen (vnz vo (t_val t)) (wpush t)                       (* :152 *)
  | Throws c => wthrow c
  | _ => woob
  end.

(** * Lattice::Term::Presets factories (LatticePresets.cpp:11-136); arrays and guards are generated. *)
Inductive fcall :=
| FHopping7 (l1 l2 : L) (v : V) (o1 o2 s1 s2 : nat)       (* :11 *)
| FHopping5 (l1 l2 : L) (v : V) (o s : nat)               (* :26 *)
| FLevel4 (l : L) (v : V) (o s : nat)                     (* :31 *)
| FNupNdown7 (l1 l2 : L) (v : V) (o1 o2 s1 s2 : nat)      (* :48, falls back to Level when degenerate *)
| FNupNdown6 (l : L) (v : V) (o1 o2 s1 s2 : nat)          (* :67 *)
| FNupNdown4 (l : L) (v : V) (o1 o2 : nat)                (* :72 *)
| FNupNdown5 (l : L) (v : V) (o s1 s2 : nat)              (* :77 *)
| FSpinflip6 (l : L) (v : V) (o1 o2 s1 s2 : nat)          (* :82, throws exWrongIndices *)
| FPairHopping6 (l : L) (v : V) (o1 o2 s1 s2 : nat)       (* :98, throws exWrongIndices *)
| FSplusSminus4 (l1 l2 : L) (v : V) (o : nat)             (* :114 *)
| FSminusSplus4 (l1 l2 : L) (v : V) (o : nat).            (* :129 *)

Definition mk (throws : bool) (ops : list bool) (ls : list L) (os ss : list nat) (v : V) : outcome term :=
  if throws then Throws exWrongIndices else Done (mkTerm ops ls os ss v).

Definition factory (f : fcall) : outcome term :=
  match f with
  | FHopping7 l1 l2 v o1 o2 s1 s2 =>
    mk (Hopping7_throws L leqb l1 l2 o1 o2 s1 s2) (Hopping7_ops L leqb l1 l2 o1 o2 s1 s2)
       (Hopping7_labels L leqb l1 l2 o1 o2 s1 s2) (Hopping7_orbitals L leqb l1 l2 o1 o2 s1 s2)
       (Hopping7_spins L leqb l1 l2 o1 o2 s1 s2) v
  | FHopping5 l1 l2 v o s =>
    mk (Hopping5_throws L leqb l1 l2 o s) (Hopping5_ops L leqb l1 l2 o s) (Hopping5_labels L leqb l1 l2 o s)
       (Hopping5_orbitals L leqb l1 l2 o s) (Hopping5_spins L leqb l1 l2 o s) v
  | FLevel4 l v o s =>
    mk (Level4_throws L leqb l o s) (Level4_ops L leqb l o s) (Level4_labels L leqb l o s)
       (Level4_orbitals L leqb l o s) (Level4_spins L leqb l o s) v
  | FNupNdown7 l1 l2 v o1 o2 s1 s2 =>
    mk (NupNdown7_throws L leqb l1 l2 o1 o2 s1 s2) (NupNdown7_ops L leqb l1 l2 o1 o2 s1 s2)
       (NupNdown7_labels L leqb l1 l2 o1 o2 s1 s2) (NupNdown7_orbitals L leqb l1 l2 o1 o2 s1 s2)
       (NupNdown7_spins L leqb l1 l2 o1 o2 s1 s2) v
  | FNupNdown6 l v o1 o2 s1 s2 =>
    mk (NupNdown6_throws L leqb l o1 o2 s1 s2) (NupNdown6_ops L leqb l o1 o2 s1 s2)
       (NupNdown6_labels L leqb l o1 o2 s1 s2) (NupNdown6_orbitals L leqb l o1 o2 s1 s2)
       (NupNdown6_spins L leqb l o1 o2 s1 s2) v
  | FNupNdown4 l v o1 o2 =>
    mk (NupNdown4_throws L leqb l o1 o2) (NupNdown4_ops L leqb l o1 o2) (NupNdown4_labels L leqb l o1 o2)
       (NupNdown4_orbitals L leqb l o1 o2) (NupNdown4_spins L leqb l o1 o2) v
  | FNupNdown5 l v o s1 s2 =>
    mk (NupNdown5_throws L leqb l o s1 s2) (NupNdown5_ops L leqb l o s1 s2) (NupNdown5_labels L leqb l o s1 s2)
       (NupNdown5_orbitals L leqb l o s1 s2) (NupNdown5_spins L leqb l o s1 s2) v
  | FSpinflip6 l v o1 o2 s1 s2 =>
    mk (Spinflip6_throws L leqb l o1 o2 s1 s2) (Spinflip6_ops L leqb l o1 o2 s1 s2)
       (Spinflip6_labels L leqb l o1 o2 s1 s2) (Spinflip6_orbitals L leqb l o1 o2 s1 s2)
       (Spinflip6_spins L leqb l o1 o2 s1 s2) v
  | FPairHopping6 l v o1 o2 s1 s2 =>
    mk (PairHopping6_throws L leqb l o1 o2 s1 s2) (PairHopping6_ops L leqb l o1 o2 s1 s2)
       (PairHopping6_labels L leqb l o1 o2 s1 s2) (PairHopping6_orbitals L leqb l o1 o2 s1 s2)
       (PairHopping6_spins L leqb l o1 o2 s1 s2) v
  | FSplusSminus4 l1 l2 v o =>
    mk (SplusSminus4_throws L leqb l1 l2 o) (SplusSminus4_ops L leqb l1 l2 o) (SplusSminus4_labels L leqb l1 l2 o)
       (SplusSminus4_orbitals L leqb l1 l2 o) (SplusSminus4_spins L leqb l1 l2 o) v
  | FSminusSplus4 l1 l2 v o =>
    mk (SminusSplus4_throws L leqb l1 l2 o) (SminusSplus4_ops L leqb l1 l2 o) (SminusSplus4_labels L leqb l1 l2 o)
       (SminusSplus4_orbitals L leqb l1 l2 o) (SminusSplus4_spins L leqb l1 l2 o) v
  end.

(** Calls that rely on the default arguments of LatticePresets.h:62,73,84. *)
Definition FNupNdown3 (l : L) (v : V) (o : nat) : fcall := FNupNdown5 l v o NupNdown5_default_spin1 NupNdown5_default_spin2.
Definition FSpinflip4 (l : L) (v : V) (o1 o2 : nat) : fcall := FSpinflip6 l v o1 o2 Spinflip6_default_spin1 Spinflip6_default_spin2.
Definition FPairHopping4 (l : L) (v : V) (o1 o2 : nat) : fcall := FPairHopping6 l v o1 o2 PairHopping6_default_spin1 PairHopping6_default_spin2.

(** [L->Terms->addTerm(Presets::F(...))]: straight into the storage, NO validation, no zero filter. *)
Definition wpush_f (f : fcall) : W :=
  match factory f with
  | Done t => wpush t
  | Throws c => wthrow c
  | _ => woob
  end.

(** [L->addTerm(Presets::F(...))]: validated and zero-filtered. *)
Definition wadd_f (m : site_map) (f : fcall) : W :=
  match factory f with
  | Done t => w_addTerm m t
  | Throws c => wthrow c
  | _ => woob
  end.

(** * LatticePresets (LatticePresets.cpp:147-300), each as the loops are written. *)

Definition addCoulombS (m : site_map) (l : L) (U lev : V) : W :=
  match find_site l m with
  | None => wthrow exWrongLabel                                                 (* :149 *)
  | Some (norb, nspin) =>                                                       (* :150-151 *)
    wfor norb (fun i =>                                                         (* :152 *)
    wfor nspin (fun z1 =>                                                       (* :153 *)
      wseq (wwhen (vnz vo lev) (wpush_f (FLevel4 l lev i z1)))                  (* :154 *)
           (wfor z1 (fun z2 =>                                                  (* :155 *)
              wwhen (vnz vo U) (wpush_f (FNupNdown6 l U i i z1 z2))))))         (* :156 *)
  end.

Definition addCoulombP (m : site_map) (l : L) (U Up J lev : V) : W :=
  match find_site l m with
  | None => wthrow exWrongLabel                                                 (* :163 *)
  | Some (norb, nspin) =>
    if (norb <=? 1) || (nspin <=? 1) then wthrow exWrongIndices                 (* :166 *)
    else
    wfor norb (fun i =>                                                         (* :167 *)
    wfor nspin (fun z1 =>                                                       (* :168 *)
      wseq (wwhen (vnz vo lev) (wpush_f (FLevel4 l lev i z1)))                  (* :169 *)
     (wseq (wfor norb (fun j =>                                                 (* :170, no zero test *)
              wwhen (negb (i =? j)) (wpush_f (FNupNdown6 l (vhalf vo (vsub vo Up J)) i j z1 z1))))
           (wfor z1 (fun z2 =>                                                  (* :171 *)
              wseq (wwhen (vnz vo U) (wpush_f (FNupNdown6 l U i i z1 z2)))      (* :172 *)
                   (wfor norb (fun j =>                                         (* :173 *)
                      wwhen (negb (i =? j))                                     (* :174 *)
                        (wseq (wwhen (vnz vo Up) (wpush_f (FNupNdown6 l Up i j z1 z2)))       (* :175 *)
                              (wwhen (vnz vo J)                                                (* :176 *)
                                 (wseq (wpush_f (FSpinflip6 l (vneg vo J) i j z1 z2))          (* :177 *)
                                       (wpush_f (FPairHopping6 l (vneg vo J) i j z1 z2))))))))))))  (* :178 *)
  end.

Definition addCoulombP3 (m : site_map) (l : L) (U J lev : V) : W :=              (* :187-190 *)
  addCoulombP m l U (vsub vo U (vdbl vo J)) J lev.

Definition addLevel (m : site_map) (l : L) (lev : V) : W :=
  match find_site l m with
  | None => wthrow exWrongLabel                                                 (* :194 *)
  | Some (norb, nspin) =>
    wfor norb (fun i =>                                                         (* :197 *)
    wfor nspin (fun z =>                                                        (* :198 *)
      wwhen (vnz vo lev) (wpush_f (FLevel4 l lev i z))))                        (* :199 *)
  end.

Definition addMagnetization (m : site_map) (l : L) (mag : V) : W :=
  match find_site l m with
  | None => wthrow exWrongLabel                                                 (* :205 *)
  | Some (norb, nspin) =>
    if negb (nspin =? 2) then wthrow exWrongIndices                             (* :208 *)
    else
    wfor norb (fun i =>                                                         (* :209 *)
      wseq (wpush_f (FLevel4 l mag i spin_up))                                  (* :210, no zero test *)
           (wpush_f (FLevel4 l (vneg vo mag) i spin_down)))                     (* :211 *)
  end.

(** The spin size that site 1's spin size is compared with: its own (code as it stands,
    LatticePresets.cpp:222,244,282,292) or site 2's (repaired). *)
Definition cmp_spins (cfg : config) (sh1 sh2 : shape) : nat :=
  if fix_shapecheck cfg then snd sh2 else snd sh1.

Definition addSzSz (cfg : config) (m : site_map) (l1 l2 : L) (J : V) : W :=
  match find_site l1 m with
  | None => wthrow exWrongLabel                                                 (* :218 *)
  | Some sh1 =>
  match find_site l2 m with
  | None => wthrow exWrongLabel                                                 (* :219 *)
  | Some sh2 =>
    let norb := fst sh1 in let nspin := snd sh1 in                              (* :220-221 *)
    if negb (norb =? fst sh2) || negb (nspin =? cmp_spins cfg sh1 sh2)          (* :222 *)
    then wthrow exWrongIndices
    else if negb (nspin =? 2) then wthrow exWrongLabel                          (* :223 (sic: exWrongLabel) *)
    else
    wfor norb (fun i =>                                                         (* :224 *)
      wseq (wpush_f (FNupNdown7 l1 l2 (vquart vo (vneg vo J)) i i spin_up spin_down))          (* :225 *)
     (wseq (wpush_f (FNupNdown7 l1 l2 (vquart vo (vneg vo J)) i i spin_down spin_up))          (* :226 *)
           (if negb (leqb l1 l2)                                                               (* :227 *)
            then wseq (wpush_f (FNupNdown7 l1 l2 (vquart vo J) i i spin_up spin_up))           (* :228 *)
                      (wpush_f (FNupNdown7 l1 l2 (vquart vo J) i i spin_down spin_down))       (* :229 *)
            else wseq (wpush_f (FLevel4 l1 (vquart vo J) i spin_up))                           (* :232 *)
                      (wpush_f (FLevel4 l1 (vquart vo J) i spin_down)))))                      (* :233 *)
  end end.

Definition addSS (cfg : config) (m : site_map) (l1 l2 : L) (J : V) : W :=
  match find_site l1 m with
  | None => wthrow exWrongLabel                                                 (* :240 *)
  | Some sh1 =>
  match find_site l2 m with
  | None => wthrow exWrongLabel                                                 (* :241 *)
  | Some sh2 =>
    let norb := fst sh1 in let nspin := snd sh1 in
    if negb (norb =? fst sh2) || negb (nspin =? cmp_spins cfg sh1 sh2)          (* :244 *)
    then wthrow exWrongIndices
    else if negb (nspin =? 2) then wthrow exWrongLabel                          (* :245 (sic) *)
    else
    wseq (addSzSz cfg m l1 l2 J)                                                (* :247 *)
         (wfor norb (fun i =>                                                   (* :248 *)
            wseq (wpush_f (FSplusSminus4 l1 l2 (vhalf vo J) i))                 (* :249 *)
                 (wpush_f (FSminusSplus4 l1 l2 (vhalf vo J) i))))               (* :250 *)
  end end.

Definition addHopping8 (m : site_map) (l1 l2 : L) (t : V) (o1 o2 s1 s2 : nat) : W :=
  match find_site l1 m with
  | None => wthrow exWrongLabel                                                 (* :256 *)
  | Some sh1 =>
  match find_site l2 m with
  | None => wthrow exWrongLabel                                                 (* :257 *)
  | Some sh2 =>
    if (fst sh1 <=? o1) || (fst sh2 <=? o2) || (snd sh1 <=? s1) || (snd sh2 <=? s2)     (* :258 *)
    then wthrow exWrongIndices
    else
    wseq (wadd_f m (FHopping7 l1 l2 t o1 o2 s1 s2))                             (* :261, validated addTerm *)
         (wadd_f m (FHopping7 l2 l1 (vconj vo t) o2 o1 s2 s1))                  (* :263 / :265 *)
  end end.

Definition addHopping7 (m : site_map) (l1 l2 : L) (t : V) (o1 o2 s : nat) : W :=        (* :269-272 *)
  addHopping8 m l1 l2 t o1 o2 s s.

Definition addHopping6 (cfg : config) (m : site_map) (l1 l2 : L) (t : V) (o1 o2 : nat) : W :=
  match find_site l1 m with
  | None => wthrow exWrongLabel                                                 (* :276 *)
  | Some sh1 =>
  match find_site l2 m with
  | None => wthrow exWrongLabel                                                 (* :277 *)
  | Some sh2 =>
    if (fst sh1 <=? o1) || (fst sh2 <=? o2) then wthrow exWrongIndices          (* :278 *)
    else
    let nspin := snd sh1 in                                                     (* :281 *)
    if negb (nspin =? cmp_spins cfg sh1 sh2) then wthrow exWrongIndices         (* :282 *)
    else wfor nspin (fun z => addHopping8 m l1 l2 t o1 o2 z z)                  (* :283 *)
  end end.

Definition addHopping4 (cfg : config) (m : site_map) (l1 l2 : L) (t : V) : W :=
  match find_site l1 m with
  | None => wthrow exWrongLabel                                                 (* :288 *)
  | Some sh1 =>
  match find_site l2 m with
  | None => wthrow exWrongLabel                                                 (* :289 *)
  | Some sh2 =>
    let norb := fst sh1 in let nspin := snd sh1 in                              (* :290-291 *)
    if negb (norb =? fst sh2) || negb (nspin =? cmp_spins cfg sh1 sh2)          (* :292 *)
    then wthrow exWrongIndices
    else
    wfor nspin (fun z =>                                                        (* :296 *)
    wfor norb (fun i =>                                                         (* :297 *)
      addHopping8 m l1 l2 t i i z z))                                           (* :298 *)
  end end.

Inductive pcall :=
| PCoulombS (l : L) (U lev : V)
| PCoulombP (l : L) (U Up J lev : V)
| PCoulombP3 (l : L) (U J lev : V)
| PLevel (l : L) (lev : V)
| PMagnetization (l : L) (mag : V)
| PSzSz (l1 l2 : L) (J : V)
| PSS (l1 l2 : L) (J : V)
| PHopping8 (l1 l2 : L) (t : V) (o1 o2 s1 s2 : nat)
| PHopping7 (l1 l2 : L) (t : V) (o1 o2 s : nat)
| PHopping6 (l1 l2 : L) (t : V) (o1 o2 : nat)
| PHopping4 (l1 l2 : L) (t : V).

Definition preset (cfg : config) (m : site_map) (p : pcall) : W :=
  match p with
  | PCoulombS l U lev => addCoulombS m l U lev
  | PCoulombP l U Up J lev => addCoulombP m l U Up J lev
  | PCoulombP3 l U J lev => addCoulombP3 m l U J lev
  | PLevel l lev => addLevel m l lev
  | PMagnetization l mag => addMagnetization m l mag
  | PSzSz l1 l2 J => addSzSz cfg m l1 l2 J
  | PSS l1 l2 J => addSS cfg m l1 l2 J
  | PHopping8 l1 l2 t o1 o2 s1 s2 => addHopping8 m l1 l2 t o1 o2 s1 s2
  | PHopping7 l1 l2 t o1 o2 s => addHopping7 m l1 l2 t o1 o2 s
  | PHopping6 l1 l2 t o1 o2 => addHopping6 cfg m l1 l2 t o1 o2
  | PHopping4 l1 l2 t => addHopping4 cfg m l1 l2 t
  end.

(** * Lattice::getSite (Lattice.cpp:155-160).
      As it stands: [if (it1 != Sites.end()) throw exWrongLabel(); return *(it1->second);] -- throws for
      every known label and dereferences end() for an unknown one.  Repaired: [==]. *)
Definition getSite (cfg : config) (st : state) (l : L) : outcome (obs L V) :=
  match find_site l (sites st) with
  | Some s => if fix_getsite cfg then Done (OSite s) else Throws exWrongLabel
  | None => if fix_getsite cfg then Throws exWrongLabel else OOB
  end.

(** * Lattice(const Lattice&) (Lattice.cpp:104-106): the site map and the term storage are copied
      (the Site and Term objects are shared, and are never modified through either lattice). *)
Definition copy (st : state) : state := mkState (sites st) (terms st) (maxorder st).

(** * One call. *)
Inductive op :=
| AddSite (l : L) (norb nspin : nat)       (* Lattice::addSite, Lattice.cpp:134-142 *)
| AddTerm (t : term)                       (* Lattice::addTerm *)
| AddFactoryTerm (f : fcall)               (* L.addTerm(Lattice::Term::Presets::F(...)) *)
| Preset (p : pcall)                       (* LatticePresets::addX(&L, ...) *)
| GetSite (l : L)
| GetTerms (n : nat)                       (* getTermStorage().getTerms(n) *)
| MaxOrder                                 (* getTermStorage().getMaxTermOrder() *)
| Copy.                                    (* continue with a copy-constructed lattice *)

(** The terms a call hands to the storage, and how it ends. *)
Definition effect (cfg : config) (m : site_map) (o : op) : W :=
  match o with
  | AddTerm t => w_addTerm m t
  | AddFactoryTerm f => wadd_f m f
  | Preset p => preset cfg m p
  | _ => wret
  end.

Definition result_of (r : outcome unit) : outcome (obs L V) :=
  match r with
  | Done _ => Done ONone
  | OOB => OOB
  | Uninit => Uninit
  | Throws c => Throws c
  | OutOfFuel => OutOfFuel
  end.

Definition step (cfg : config) (o : op) (st : state) : state * outcome (obs L V) :=
  match o with
  | AddSite l a b => (mkState (set_site l (a, b) (sites st)) (terms st) (maxorder st), Done ONone)
  | GetSite l => (st, getSite cfg st l)
  | GetTerms n => (st, Done (OTerms (getTerms st n)))
  | MaxOrder => (st, Done (ONat (maxorder st)))
  | Copy => (copy st, Done ONone)
  | _ => let w := effect cfg (sites st) o in (push_all (fst w) st, result_of (snd w))
  end.

(** State after a history of calls (results ignored), and the results. *)
Definition run (cfg : config) (h : list op) (st : state) : state :=
  fold_left (fun s o => fst (step cfg o s)) h st.

Fixpoint results (cfg : config) (h : list op) (st : state) : list (outcome (obs L V)) :=
  match h with
  | [] => []
  | o :: h' => snd (step cfg o st) :: results cfg h' (fst (step cfg o st))
  end.

(** Every term handed to the storage during a history, in order. *)
Fixpoint accepted (cfg : config) (h : list op) (st : state) : list term :=
  match h with
  | [] => []
  | o :: h' => fst (effect cfg (sites st) o) ++ accepted cfg h' (fst (step cfg o st))
  end.

(** Interpreter used by the correspondence check: [Copy] keeps the lattice it copied from alive, so that
    later calls on the copy can be seen not to affect it. *)
Record rstate := mkR { cur : state; origs : list state }.
Definition rinit : rstate := mkR init [].
Definition rstep (cfg : config) (o : op) (r : rstate) : rstate * outcome (obs L V) :=
  let (s, x) := step cfg o (cur r) in
  match o with
  | Copy => (mkR s (origs r ++ [cur r]), x)
  | _ => (mkR s (origs r), x)
  end.

(** * Specification predicates (independent of the loops above; used by the theorems of LatticeProofs.v
      and, extracted, by the check to judge what the implementation did). *)

(** the vectors of a term have the length of its operator sequence *)
Definition term_wfb (t : term) : bool :=
  (length (t_labels t) =? t_order t) && (length (t_orbs t) =? t_order t) && (length (t_spins t) =? t_order t).

(** position (label, orbital, spin) refers to an existing site and is inside its ranges *)
Definition item_ok (m : site_map) (l : L) (o s : nat) : bool :=
  match find_site l m with
  | Some (norb, nspin) => (o <? norb) && (s <? nspin)
  | None => false
  end.

Fixpoint all3 (f : L -> nat -> nat -> bool) (ls : list L) (os ss : list nat) : bool :=
  match ls, os, ss with
  | l :: ls', o :: os', s :: ss' => f l o s && all3 f ls' os' ss'
  | _, _, _ => true
  end.

Definition term_valid (m : site_map) (t : term) : bool :=
  all3 (item_ok m) (t_labels t) (t_orbs t) (t_spins t).

(** the combinations of arguments a factory is defined for (LatticePresets.h:65,76: alpha <> alpha',
    sigma <> sigma' for the spin-flip and pair-hopping terms) *)
Definition factory_defined (f : fcall) : bool :=
  match f with
  | FSpinflip6 _ _ o1 o2 s1 s2 | FPairHopping6 _ _ o1 o2 s1 s2 => negb (o1 =? o2) && negb (s1 =? s2)
  | _ => true
  end.

Definition same_shape (a b : shape) : bool := (fst a =? fst b) && (snd a =? snd b).

(** the lattices a preset is defined for (documentation of LatticePresets.h and the presets' own messages:
    "Cannot add multiorbital interaction to a site with 1 orbital or 1 spin", "Valid only for 2 spins",
    "Adjacent sites spin and orbital sizes do not match", "indices are checked to belong to the lattice") *)
Definition preset_defined (m : site_map) (p : pcall) : bool :=
  match p with
  | PCoulombS l _ _ | PLevel l _ => match find_site l m with Some _ => true | None => false end
  | PCoulombP l _ _ _ _ | PCoulombP3 l _ _ _ =>
    match find_site l m with Some (norb, nspin) => (1 <? norb) && (1 <? nspin) | None => false end
  | PMagnetization l _ => match find_site l m with Some (_, nspin) => nspin =? 2 | None => false end
  | PSzSz l1 l2 _ | PSS l1 l2 _ =>
    match find_site l1 m, find_site l2 m with
    | Some a, Some b => same_shape a b && (snd a =? 2)
    | _, _ => false
    end
  | PHopping8 l1 l2 _ o1 o2 s1 s2 => item_ok m l1 o1 s1 && item_ok m l2 o2 s2
  | PHopping7 l1 l2 _ o1 o2 s => item_ok m l1 o1 s && item_ok m l2 o2 s
  | PHopping6 l1 l2 _ o1 o2 =>
    match find_site l1 m, find_site l2 m with
    | Some a, Some b => (o1 <? fst a) && (o2 <? fst b) && (snd a =? snd b)
    | _, _ => false
    end
  | PHopping4 l1 l2 _ =>
    match find_site l1 m, find_site l2 m with
    | Some a, Some b => same_shape a b
    | _, _ => false
    end
  end.

(** the shape most recently added under a label during a history *)
Fixpoint last_added (l : L) (h : list op) (acc : option shape) : option shape :=
  match h with
  | [] => acc
  | AddSite k a b :: h' => last_added l h' (if leqb l k then Some (a, b) else acc)
  | _ :: h' => last_added l h' acc
  end.

(** equality of terms *)
Fixpoint list_eqb {A} (e : A -> A -> bool) (a b : list A) : bool :=
  match a, b with
  | [], [] => true
  | x :: a', y :: b' => e x y && list_eqb e a' b'
  | _, _ => false
  end.
Definition term_eqb (a b : term) : bool :=
  list_eqb Bool.eqb (t_ops a) (t_ops b) && list_eqb leqb (t_labels a) (t_labels b) &&
  list_eqb Nat.eqb (t_orbs a) (t_orbs b) && list_eqb Nat.eqb (t_spins a) (t_spins b) &&
  veqb vo (t_val a) (t_val b).

(** ** The property, clause by clause, as a judgement on ONE observed call.
    Given the site map before the call, the call, whether it ended with an exception (of any class) and
    the terms that appeared in the storage during it, return the clauses of C20 that are violated:
      1  an exception was thrown but the lattice changed
      2  a term that refers to an unknown site / out-of-range orbital or spin is now stored
      3  addTerm did not reject an invalid term
      4  addTerm rejected a valid term
      5  addTerm accepted a valid non-zero term but the storage did not grow by exactly that term
      6  a zero-amplitude term was not ignored by addTerm
      7  a term factory did not reject arguments it is undefined for
      8  a preset did not reject a lattice / index combination it is undefined for
      9  a preset rejected a combination it is defined for *)
Definition is_nil {A} (l : list A) : bool := match l with [] => true | _ => false end.

Definition judge_term (m : site_map) (t : term) (exn : bool) (delta : list term) : list nat :=
  if negb (term_wfb t) then []
  else if negb (term_valid m t) then (if exn then [] else [3])
  else if exn then [4]
  else if vnz vo (t_val t) then (if list_eqb term_eqb delta [t] then [] else [5])
  else (if is_nil delta then [] else [6]).

Definition judge (m : site_map) (o : op) (exn : bool) (delta : list term) : list nat :=
  (if exn && negb (is_nil delta) then [1] else []) ++
  (if forallb (term_valid m) delta then [] else [2]) ++
  match o with
  | AddTerm t => judge_term m t exn delta
  | AddFactoryTerm f =>
    match factory f with
    | Done t => if factory_defined f then judge_term m t exn delta else (if exn then [] else [7])
    | _ => if exn then [] else [7]
    end
  | Preset p => if preset_defined m p then (if exn then [9] else []) else (if exn then [] else [8])
  | _ => []
  end.

Definition is_exn {A} (r : outcome A) : bool := match r with Throws _ => true | _ => false end.

End Model.

Arguments FHopping7 {L V}. Arguments FHopping5 {L V}. Arguments FLevel4 {L V}. Arguments FNupNdown7 {L V}.
Arguments FNupNdown6 {L V}. Arguments FNupNdown4 {L V}. Arguments FNupNdown5 {L V}. Arguments FSpinflip6 {L V}.
Arguments FPairHopping6 {L V}. Arguments FSplusSminus4 {L V}. Arguments FSminusSplus4 {L V}.
Arguments PCoulombS {L V}. Arguments PCoulombP {L V}. Arguments PCoulombP3 {L V}. Arguments PLevel {L V}.
Arguments PMagnetization {L V}. Arguments PSzSz {L V}. Arguments PSS {L V}. Arguments PHopping8 {L V}.
Arguments PHopping7 {L V}. Arguments PHopping6 {L V}. Arguments PHopping4 {L V}.
Arguments AddSite {L V}. Arguments AddTerm {L V}. Arguments AddFactoryTerm {L V}. Arguments Preset {L V}.
Arguments GetSite {L V}. Arguments GetTerms {L V}. Arguments MaxOrder {L V}. Arguments Copy {L V}.
Arguments mkState {L V}. Arguments sites {L V}. Arguments terms {L V}. Arguments maxorder {L V}.
Arguments mkR {L V}. Arguments cur {L V}. Arguments origs {L V}.

(** * Execution instance: labels are natural numbers (the drivers number the label strings), amplitudes
      are reduced rationals (every amplitude the harness uses is a dyadic rational, and the presets'
      arithmetic on small dyadics is exact in binary64). *)
Definition q_ops : vops Q :=
  mkVops Q (fun q => negb (Qnum q =? 0)%Z) Qeq_bool
         (fun q => Qred (- q)) (fun a b => Qred (a - b))
         (fun q => Qred (q / (2 # 1))) (fun q => Qred (q / (4 # 1))) (fun q => Qred ((2 # 1) * q))
         (fun q => q).

Definition qterm := term nat Q.
Definition qop := op nat Q.
Definition qstate := state nat Q.
Definition qrstate := rstate nat Q.
Definition q_rinit : qrstate := rinit nat Q.
Definition q_rstep (cfg : config) (o : qop) (r : qrstate) : qrstate * outcome (obs nat Q) :=
  rstep nat Nat.eqb Q q_ops cfg o r.
Definition q_effect (cfg : config) (st : qstate) (o : qop) : list qterm :=
  fst (effect nat Nat.eqb Q q_ops cfg (sites st) o).
Definition q_getTerms (st : qstate) (n : nat) : list qterm := getTerms nat Q st n.
Definition q_judge (m : site_map nat) (o : qop) (exn : bool) (delta : list qterm) : list nat :=
  judge nat Nat.eqb Q q_ops m o exn delta.
Definition q_set_site (l : nat) (s : shape) (m : site_map nat) : site_map nat := set_site nat Nat.eqb l s m.
