(** ThermalGen.v -- the thermal layer rebuilt around the leaves that the translator reads off the C++ (C09, C19).

    PV.Thermal is hand-written.  translator/gen_thermal.py regenerates, on every run, from the source text of the
    tree under test:

      PVgen.Gen_ThermalWeight     gen_weight, gen_zpart_init, gen_zpart_step       DensityMatrixPart::computeUnnormalized
      PVgen.Gen_ThermalTruncate   gen_truncate_test, gen_truncate_flag             DensityMatrixPart::truncate
      PVgen.Gen_ThermalAverages   gen_occupancy_summand, gen_occupancy_i_summand,
                                  gen_double_occupancy_summand                     DensityMatrixPart::getAverage*Occupancy
      PVgen.Gen_RetainGF          gen_gf_stripe / _retention / _advance_left / _advance_right,
                                  gen_gf_flags_init, gen_gf_step (one iteration of the loop body) GreensFunction::prepare
      PVgen.Gen_RetainSusc        gen_susc_...                                                    Susceptibility::prepare
      PVgen.Gen_RetainEA          gen_ea_diagonal, gen_ea_retention, gen_ea_flags_init, gen_ea_step EnsembleAverage::prepare
      PVgen.Gen_RetainTPGF        gen_tpgf_blocks, gen_tpgf_retention                             TwoParticleGF::prepare

    Below, every function of PV.Thermal that contains one of these leaves is written once more, loop for loop as in
    Thermal.v, with the GENERATED leaf in the place of the hand-written one ([..._src]); everything else (ground energy,
    normalisation, the bimap lookups, the permutation loop) is shared with Thermal.v.  PV.ThermalGenProofs proves
    `generated leaf = hand-written leaf` (closed computations that stop checking when the source says something else),
    from them `..._src = model`, and the theorems of props/Properties_C09_source.v / Properties_C19_source.v, which are
    stated about the [..._src] definitions.

    Definitions only. *)
Require Import Bool List Arith Reals.
From Coquelicot Require Import Complex.
From PV Require Import Outcome Thermal ThermalSpec ThermalComplex ThermalShapes.
From PVgen Require Import Gen_ThermalWeight Gen_ThermalTruncate Gen_ThermalAverages
                          Gen_RetainGF Gen_RetainSusc Gen_RetainEA Gen_RetainTPGF.
Import ListNotations.

Section ThermalGen.
Variable K : Type.
Variable k0 : K.
Variables kadd ksub kmul kdiv : K -> K -> K.
Variables kopp kexp kabs : K -> K.
Variable kltb : K -> K -> bool.
Variable kofnat : nat -> K.

(** * DensityMatrixPart::computeUnnormalized, DensityMatrix::prepare + compute *)
Definition weight_src : K -> K -> K -> K := gen_weight K k0 kadd ksub kmul kdiv kopp kexp kabs kltb kofnat.
Definition zpart_init_src : K := gen_zpart_init K k0 kadd ksub kmul kdiv kopp kexp kabs kltb kofnat.
Definition zpart_step_src : K -> K -> K := gen_zpart_step K k0 kadd ksub kmul kdiv kopp kexp kabs kltb kofnat.

Definition compute_unnormalized_src (beta ground : K) (hp : hpart K) : dmpart K :=
  let w := map (weight_src beta ground) (hp_eig K hp) in
  mk_dmpart K w (fold_left zpart_step_src w zpart_init_src) true.

Definition dm_unnormalized_src (beta ground : K) (H : list (hpart K)) : list (dmpart K) :=
  map (compute_unnormalized_src beta ground) H.
Definition dm_compute_src (beta : K) (H : list (hpart K)) : outcome (list (dmpart K)) :=
  bind (ground_energy K kltb H) (fun g =>
    let parts := dm_unnormalized_src beta g H in
    Done (map (normalize K kdiv (dm_Z K k0 kadd parts)) parts)).

(** * DensityMatrixPart::truncate, DensityMatrix::truncateBlocks
    [gen_truncate_flag old found]: the flag on return from the flag on entry and "some weight passes the test". *)
Definition truncate_test_src : K -> K -> bool := gen_truncate_test K k0 kadd ksub kmul kdiv kopp kexp kabs kltb kofnat.
Definition truncate_src (tol : K) (dp : dmpart K) : dmpart K :=
  mk_dmpart K (dp_weights K dp) (dp_zpart K dp)
            (gen_truncate_flag (dp_retained K dp) (existsb (truncate_test_src tol) (dp_weights K dp))).
Definition dm_truncate_src (tol : K) (D : list (dmpart K)) : list (dmpart K) := map (truncate_src tol) D.

(** * The occupancies: nested loops over the eigenstate s and the position fi of a Fock state in the block, with the
    generated summand.  [mat_at m r c] = H(r,c) on the list of rows; positions run over those that have both a Fock
    state and a row of the matrix (all of them for well-formed blocks), as in Thermal.part_fock_average. *)
Definition mat_at (m : list (list K)) (r c : nat) : K := nth c (nth r m []) k0.
Definition part_sum_src (summand : (nat -> K) -> (nat -> nat) -> (nat -> nat -> K) -> nat -> nat -> K)
    (hp : hpart K) (dp : dmpart K) : K :=
  let W := fun s => nth s (dp_weights K dp) k0 in
  let F := fun fi => nth fi (hp_states K hp) 0%nat in
  let V := mat_at (hp_vec K hp) in
  fold_left (fun acc s =>
               fold_left (fun acc' fi => kadd acc' (summand W F V s fi))
                         (seq 0 (Nat.min (length (hp_states K hp)) (length (hp_vec K hp)))) acc)
            (seq 0 (length (dp_weights K dp))) k0.

Definition part_average_occupancy_src (M : nat) : hpart K -> dmpart K -> K :=
  part_sum_src (gen_occupancy_summand K k0 kadd ksub kmul kdiv kopp kexp kabs kltb kofnat (popcount M) Nat.testbit).
Definition part_average_occupancy_i_src (i : nat) : hpart K -> dmpart K -> K :=
  part_sum_src (fun W F V => gen_occupancy_i_summand K k0 kadd ksub kmul kdiv kopp kexp kabs kltb kofnat
                               (fun _ => 0%nat) Nat.testbit W F V i).
Definition part_average_double_occupancy_src (i j : nat) : hpart K -> dmpart K -> K :=
  part_sum_src (fun W F V => gen_double_occupancy_summand K k0 kadd ksub kmul kdiv kopp kexp kabs kltb kofnat
                               (fun _ => 0%nat) Nat.testbit W F V i j).

Definition dm_average_occupancy_src (M : nat) := dm_sum_parts K k0 kadd (part_average_occupancy_src M).
Definition dm_average_occupancy_i_src (M i : nat) (H : list (hpart K)) (D : list (dmpart K)) : outcome K :=
  if i <? M then Done (dm_sum_parts K k0 kadd (part_average_occupancy_i_src i) H D) else OOB.
Definition dm_average_double_occupancy_src (M i j : nat) (H : list (hpart K)) (D : list (dmpart K)) : outcome K :=
  if (i <? M) && (j <? M) then Done (dm_sum_parts K k0 kadd (part_average_double_occupancy_src i j) H D) else OOB.

(** * EnsembleAverage::prepare: the loop over the entries of A's left map, iterating the GENERATED step (one iteration of
    the loop body: is `result += compute(...)` executed and on which blocks, is the loop left, the bool locals).
    State of the fold: (result so far, "the loop has been left", bool locals). *)
Definition ea_iter_src (A : fieldop K) (D : list (dmpart K)) (st : outcome K * bool * list bool) (p : oppart K)
  : outcome K * bool * list bool :=
  let '(acc, exited, flags) := st in
  if exited then st else
  let s := gen_ea_step (is_retained K D) flags (op_left K p) (op_right K p) in
  ((if ws_push s then
      bind acc (fun r =>
        match get_part_from_left K A (part_block 0 (ws_part s)), nth_error D (part_block 2 (ws_part s)) with
        | Some Apart, Some dp => Done (kadd r (ea_compute K k0 kadd kmul Apart dp))
        | _, _ => OOB
        end)
    else acc), ws_exit s, ws_flags s).
Definition ea_prepare_src (A : fieldop K) (D : list (dmpart K)) : outcome K :=
  fst (fst (fold_left (ea_iter_src A D) A (Done k0, false, gen_ea_flags_init))).

End ThermalGen.

(** * The merge walk of GreensFunction::prepare / Susceptibility::prepare, iterating a step function: what ONE iteration
    of the loop body does (PV.ThermalShapes.walk_step; arguments of the step: DM.isRetained, the bool locals declared in
    front of the loop, then left.first, left.second, right.second, right.first -- for GreensFunction Cleft, Cright,
    CXleft, CXright).  Same fuel and same recursion as Thermal.stripe_walk, plus what the model does not have and the
    source might: leaving the loop early, state carried from one iteration to the next.  A created part is labelled
    by the blocks handed to the constructor as HpartOuter, HpartInner (arguments 3 and 2), as the harness prints them. *)
Fixpoint walk_steps (step : (nat -> bool) -> list bool -> nat -> nat -> nat -> nat -> walk_step)
                    (fuel : nat) (ret : nat -> bool) (flags : list bool) (cl cxr : list (nat * nat)) (acc : list (nat * nat))
  : outcome (list (nat * nat)) :=
  match cl, cxr with
  | (Cleft, Cright) :: cl', (CXright, CXleft) :: cxr' =>
    match fuel with
    | O => OutOfFuel
    | S f =>
      let s := step ret flags Cleft Cright CXleft CXright in
      let acc' := if ws_push s then acc ++ [(part_block 3 (ws_part s), part_block 2 (ws_part s))] else acc in
      if ws_exit s then Done acc'
      else walk_steps step f ret (ws_flags s)
                      (if ws_adv_left s then cl' else cl) (if ws_adv_right s then cxr' else cxr) acc'
    end
  | _, _ => Done acc
  end.

(** the step of the model, in the vocabulary of the generated files: a part for a retained stripe, built from the blocks
    of the stripe in the order of the constructor (C part, CX part, inner and outer Hamiltonian part, inner and outer
    density-matrix part); both advance tests; never an exit; no state *)
Definition model_walk_part (l_first l_second r_second r_first : nat) : list (nat * nat) :=
  [(acc_left_from_left, l_first); (acc_right_from_right, r_first); (acc_H, l_second); (acc_H, l_first);
   (acc_DM, l_second); (acc_DM, l_first)].
Definition model_walk_step (ret : nat -> bool) (l_first l_second r_second r_first : nat) : walk_step :=
  mk_walk_step ((Nat.eqb l_first r_first && Nat.eqb l_second r_second) && (ret l_first || ret l_second))
               (model_walk_part l_first l_second r_second r_first)
               (Nat.leb l_first r_first) (Nat.leb r_first l_first) false [].
Definition model_ea_step (ret : nat -> bool) (Aleft Aright : nat) : walk_step :=
  mk_walk_step (Nat.eqb Aleft Aright && ret Aleft) [(acc_left_from_left, Aleft); (acc_H, Aleft); (acc_DM, Aleft)]
               false false false [].

Definition gf_prepare_src (ret : nat -> bool) (cl cxr : list (nat * nat)) : outcome (list (nat * nat)) :=
  walk_steps gen_gf_step (length cl + length cxr) ret gen_gf_flags_init cl cxr [].
Definition susc_prepare_src (ret : nat -> bool) (al br : list (nat * nat)) : outcome (list (nat * nat)) :=
  walk_steps gen_susc_step (length al + length br) ret gen_susc_flags_init al br [].

(** * TwoParticleGF::prepare: Thermal.tpgf_try with the generated retention loop over LeftIndices[k] *)
Definition tpgf_try_src (ret : nat -> bool) (ops : list bimap) (pn : nat) (perm : list nat) (L0 L3 : nat) : list tpgf_part :=
  match get_left_index (op_at ops perm 2) L3, get_right_index (op_at ops perm 0) L0 with
  | Some L2, Some L1 =>
    match get_right_index (op_at ops perm 1) L1 with
    | Some r => if Nat.eqb r L2
                then (if gen_tpgf_retention ret (fun k => nth k [L0; L1; L2; L3] 0%nat) then [(pn, (L0, L1, L2, L3))] else [])
                else []
    | None => []
    end
  | _, _ => []
  end.
Definition tpgf_prepare_src (ret : nat -> bool) (ops : list bimap) (cx4r : list (nat * nat)) : list tpgf_part :=
  flat_map (fun o => flat_map (fun pp => tpgf_try_src ret ops (fst pp) (snd pp) (fst o) (snd o))
                              (combine (seq 0 6) permutations3)) cx4r.

(** * The instances used by the statements: RealType = R (weights, flags; both builds) ... *)
Definition Rweight_src := weight_src R 0%R Rplus Rminus Rmult Rdiv Ropp exp Rabs Rltb INR.
Definition Rdm_unnormalized_src := dm_unnormalized_src R 0%R Rplus Rminus Rmult Rdiv Ropp exp Rabs Rltb INR.
Definition Rdm_compute_src := dm_compute_src R 0%R Rplus Rminus Rmult Rdiv Ropp exp Rabs Rltb INR.
Definition Rtruncate_src := truncate_src R 0%R Rplus Rminus Rmult Rdiv Ropp exp Rabs Rltb INR.
Definition Rdm_truncate_src := dm_truncate_src R 0%R Rplus Rminus Rmult Rdiv Ropp exp Rabs Rltb INR.
Definition Rdm_average_occupancy_src := dm_average_occupancy_src R 0%R Rplus Rminus Rmult Rdiv Ropp exp Rabs Rltb INR.
Definition Rdm_average_occupancy_i_src := dm_average_occupancy_i_src R 0%R Rplus Rminus Rmult Rdiv Ropp exp Rabs Rltb INR.
Definition Rdm_average_double_occupancy_src :=
  dm_average_double_occupancy_src R 0%R Rplus Rminus Rmult Rdiv Ropp exp Rabs Rltb INR.
Definition Rea_prepare_src := ea_prepare_src R 0%R Rplus Rmult.

(** ... and MelemType = C (eigenvectors, operator matrices of the complex build; no order and no exponential is used by
    the averages: the unused operations are filled with the identity / a constant) *)
Definition Cdm_average_occupancy_src :=
  dm_average_occupancy_src C C0 Cplus Cminus Cmult Cdiv Copp (fun x => x) Cabs (fun _ _ => false) CofNat.
Definition Cdm_average_occupancy_i_src :=
  dm_average_occupancy_i_src C C0 Cplus Cminus Cmult Cdiv Copp (fun x => x) Cabs (fun _ _ => false) CofNat.
Definition Cdm_average_double_occupancy_src :=
  dm_average_double_occupancy_src C C0 Cplus Cminus Cmult Cdiv Copp (fun x => x) Cabs (fun _ _ => false) CofNat.
Definition Cea_prepare_src := ea_prepare_src C C0 Cplus Cmult.
