(** ThermalGen.v -- the thermal layer rebuilt around the leaves that the translator reads off the C++ (C09, C19).

    PV.Thermal is hand-written.  translator/gen_thermal.py regenerates, on every run, from the source text of the
    tree under test:

      PVgen.Gen_ThermalWeight     gen_weight, gen_zpart_init, gen_zpart_step       DensityMatrixPart::computeUnnormalized
      PVgen.Gen_ThermalTruncate   gen_truncate_test, gen_truncate_flag             DensityMatrixPart::truncate
      PVgen.Gen_ThermalAverages   gen_occupancy_summand, gen_occupancy_i_summand,
                                  gen_double_occupancy_summand                     DensityMatrixPart::getAverage*Occupancy
      PVgen.Gen_RetainGF          gen_gf_stripe / _retention / _advance_left / _advance_right     GreensFunction::prepare
      PVgen.Gen_RetainSusc        gen_susc_...                                                    Susceptibility::prepare
      PVgen.Gen_RetainEA          gen_ea_diagonal, gen_ea_retention                               EnsembleAverage::prepare
      PVgen.Gen_RetainTPGF        gen_tpgf_blocks, gen_tpgf_retention                             TwoParticleGF::prepare

    Below, every function of PV.Thermal that contains one of these leaves is written once more, loop for loop as in
    Thermal.v, with the GENERATED leaf in the place of the hand-written one ([..._src]); everything else (ground energy,
    normalisation, the bimap lookups, the permutation loop) is shared with Thermal.v.  PV.ThermalGenProofs proves
    `generated leaf = hand-written leaf` (closed computations that stop checking when the source says something else),
    from them `..._src = model`, and the theorems of props/Properties_C09_source.v / Properties_C19_source.v, which are
    stated about the [..._src] definitions.

    Definitions only. *)
Require Import Bool List Arith Reals.
From Coquelicot Require Import Complex.
From PV Require Import Outcome Thermal ThermalSpec ThermalComplex.
From PVgen Require Import Gen_ThermalWeight Gen_ThermalTruncate Gen_ThermalAverages
                          Gen_RetainGF Gen_RetainSusc Gen_RetainEA Gen_RetainTPGF.
Import ListNotations.

Section ThermalGen.
Variable K : Type.
Variable k0 : K.
Variables kadd ksub kmul kdiv : K -> K -> K.
Variables kopp kexp kabs : K -> K.
Variable kltb : K -> K -> bool.
Variable kofnat : nat -> K.

(** * DensityMatrixPart::computeUnnormalized, DensityMatrix::prepare + compute *)
Definition weight_src : K -> K -> K -> K := gen_weight K k0 kadd ksub kmul kdiv kopp kexp kabs kltb kofnat.
Definition zpart_init_src : K := gen_zpart_init K k0 kadd ksub kmul kdiv kopp kexp kabs kltb kofnat.
Definition zpart_step_src : K -> K -> K := gen_zpart_step K k0 kadd ksub kmul kdiv kopp kexp kabs kltb kofnat.

Definition compute_unnormalized_src (beta ground : K) (hp : hpart K) : dmpart K :=
  let w := map (weight_src beta ground) (hp_eig K hp) in
  mk_dmpart K w (fold_left zpart_step_src w zpart_init_src) true.

Definition dm_unnormalized_src (beta ground : K) (H : list (hpart K)) : list (dmpart K) :=
  map (compute_unnormalized_src beta ground) H.
Definition dm_compute_src (beta : K) (H : list (hpart K)) : outcome (list (dmpart K)) :=
  bind (ground_energy K kltb H) (fun g =>
    let parts := dm_unnormalized_src beta g H in
    Done (map (normalize K kdiv (dm_Z K k0 kadd parts)) parts)).

(** * DensityMatrixPart::truncate, DensityMatrix::truncateBlocks
    [gen_truncate_flag old found]: the flag on return from the flag on entry and "some weight passes the test". *)
Definition truncate_test_src : K -> K -> bool := gen_truncate_test K k0 kadd ksub kmul kdiv kopp kexp kabs kltb kofnat.
Definition truncate_src (tol : K) (dp : dmpart K) : dmpart K :=
  mk_dmpart K (dp_weights K dp) (dp_zpart K dp)
            (gen_truncate_flag (dp_retained K dp) (existsb (truncate_test_src tol) (dp_weights K dp))).
Definition dm_truncate_src (tol : K) (D : list (dmpart K)) : list (dmpart K) := map (truncate_src tol) D.

(** * The occupancies: nested loops over the eigenstate s and the position fi of a Fock state in the block, with the
    generated summand.  [mat_at m r c] = H(r,c) on the list of rows; positions run over those that have both a Fock
    state and a row of the matrix (all of them for well-formed blocks), as in Thermal.part_fock_average. *)
Definition mat_at (m : list (list K)) (r c : nat) : K := nth c (nth r m []) k0.
Definition part_sum_src (summand : (nat -> K) -> (nat -> nat) -> (nat -> nat -> K) -> nat -> nat -> K)
    (hp : hpart K) (dp : dmpart K) : K :=
  let W := fun s => nth s (dp_weights K dp) k0 in
  let F := fun fi => nth fi (hp_states K hp) 0%nat in
  let V := mat_at (hp_vec K hp) in
  fold_left (fun acc s =>
               fold_left (fun acc' fi => kadd acc' (summand W F V s fi))
                         (seq 0 (Nat.min (length (hp_states K hp)) (length (hp_vec K hp)))) acc)
            (seq 0 (length (dp_weights K dp))) k0.

Definition part_average_occupancy_src (M : nat) : hpart K -> dmpart K -> K :=
  part_sum_src (gen_occupancy_summand K k0 kadd ksub kmul kdiv kopp kexp kabs kltb kofnat (popcount M) Nat.testbit).
Definition part_average_occupancy_i_src (i : nat) : hpart K -> dmpart K -> K :=
  part_sum_src (fun W F V => gen_occupancy_i_summand K k0 kadd ksub kmul kdiv kopp kexp kabs kltb kofnat
                               (fun _ => 0%nat) Nat.testbit W F V i).
Definition part_average_double_occupancy_src (i j : nat) : hpart K -> dmpart K -> K :=
  part_sum_src (fun W F V => gen_double_occupancy_summand K k0 kadd ksub kmul kdiv kopp kexp kabs kltb kofnat
                               (fun _ => 0%nat) Nat.testbit W F V i j).

Definition dm_average_occupancy_src (M : nat) := dm_sum_parts K k0 kadd (part_average_occupancy_src M).
Definition dm_average_occupancy_i_src (M i : nat) (H : list (hpart K)) (D : list (dmpart K)) : outcome K :=
  if i <? M then Done (dm_sum_parts K k0 kadd (part_average_occupancy_i_src i) H D) else OOB.
Definition dm_average_double_occupancy_src (M i j : nat) (H : list (hpart K)) (D : list (dmpart K)) : outcome K :=
  if (i <? M) && (j <? M) then Done (dm_sum_parts K k0 kadd (part_average_double_occupancy_src i j) H D) else OOB.

(** * EnsembleAverage::prepare *)
Definition ea_prepare_src (A : fieldop K) (D : list (dmpart K)) : outcome K :=
  fold_left (fun acc p =>
     bind acc (fun r =>
       if gen_ea_diagonal (op_left K p) (op_right K p) then
         if gen_ea_retention (is_retained K D) (op_left K p) (op_right K p) then
           match get_part_from_left K A (op_left K p), nth_error D (op_left K p) with
           | Some Apart, Some dp => Done (kadd r (ea_compute K k0 kadd kmul Apart dp))
           | _, _ => OOB
           end
         else Done r
       else Done r)) A (Done k0).

End ThermalGen.

(** * The merge walk of GreensFunction::prepare / Susceptibility::prepare with the four tests as arguments
    (arguments of each test: left.first, left.second, right.second, right.first -- for GreensFunction
    Cleft, Cright, CXleft, CXright).  Same fuel and same recursion as Thermal.stripe_walk. *)
Fixpoint walk_with (stripe : nat -> nat -> nat -> nat -> bool)
                   (retention : (nat -> bool) -> nat -> nat -> nat -> nat -> bool)
                   (adv_left adv_right : nat -> nat -> nat -> nat -> bool)
                   (fuel : nat) (ret : nat -> bool) (cl cxr : list (nat * nat)) (acc : list (nat * nat))
  : outcome (list (nat * nat)) :=
  match cl, cxr with
  | (Cleft, Cright) :: cl', (CXright, CXleft) :: cxr' =>
    match fuel with
    | O => OutOfFuel
    | S f =>
      let acc' := if stripe Cleft Cright CXleft CXright
                  then (if retention ret Cleft Cright CXleft CXright then acc ++ [(Cleft, Cright)] else acc)
                  else acc in
      walk_with stripe retention adv_left adv_right f ret
                (if adv_left Cleft Cright CXleft CXright then cl' else cl)
                (if adv_right Cleft Cright CXleft CXright then cxr' else cxr) acc'
    end
  | _, _ => Done acc
  end.

Definition gf_prepare_src (ret : nat -> bool) (cl cxr : list (nat * nat)) : outcome (list (nat * nat)) :=
  walk_with gen_gf_stripe gen_gf_retention gen_gf_advance_left gen_gf_advance_right
            (length cl + length cxr) ret cl cxr [].
Definition susc_prepare_src (ret : nat -> bool) (al br : list (nat * nat)) : outcome (list (nat * nat)) :=
  walk_with gen_susc_stripe gen_susc_retention gen_susc_advance_left gen_susc_advance_right
            (length al + length br) ret al br [].

(** * TwoParticleGF::prepare: Thermal.tpgf_try with the generated retention loop over LeftIndices[k] *)
Definition tpgf_try_src (ret : nat -> bool) (ops : list bimap) (pn : nat) (perm : list nat) (L0 L3 : nat) : list tpgf_part :=
  match get_left_index (op_at ops perm 2) L3, get_right_index (op_at ops perm 0) L0 with
  | Some L2, Some L1 =>
    match get_right_index (op_at ops perm 1) L1 with
    | Some r => if Nat.eqb r L2
                then (if gen_tpgf_retention ret (fun k => nth k [L0; L1; L2; L3] 0%nat) then [(pn, (L0, L1, L2, L3))] else [])
                else []
    | None => []
    end
  | _, _ => []
  end.
Definition tpgf_prepare_src (ret : nat -> bool) (ops : list bimap) (cx4r : list (nat * nat)) : list tpgf_part :=
  flat_map (fun o => flat_map (fun pp => tpgf_try_src ret ops (fst pp) (snd pp) (fst o) (snd o))
                              (combine (seq 0 6) permutations3)) cx4r.

(** * The instances used by the statements: RealType = R (weights, flags; both builds) ... *)
Definition Rweight_src := weight_src R 0%R Rplus Rminus Rmult Rdiv Ropp exp Rabs Rltb INR.
Definition Rdm_unnormalized_src := dm_unnormalized_src R 0%R Rplus Rminus Rmult Rdiv Ropp exp Rabs Rltb INR.
Definition Rdm_compute_src := dm_compute_src R 0%R Rplus Rminus Rmult Rdiv Ropp exp Rabs Rltb INR.
Definition Rtruncate_src := truncate_src R 0%R Rplus Rminus Rmult Rdiv Ropp exp Rabs Rltb INR.
Definition Rdm_truncate_src := dm_truncate_src R 0%R Rplus Rminus Rmult Rdiv Ropp exp Rabs Rltb INR.
Definition Rdm_average_occupancy_src := dm_average_occupancy_src R 0%R Rplus Rminus Rmult Rdiv Ropp exp Rabs Rltb INR.
Definition Rdm_average_occupancy_i_src := dm_average_occupancy_i_src R 0%R Rplus Rminus Rmult Rdiv Ropp exp Rabs Rltb INR.
Definition Rdm_average_double_occupancy_src :=
  dm_average_double_occupancy_src R 0%R Rplus Rminus Rmult Rdiv Ropp exp Rabs Rltb INR.
Definition Rea_prepare_src := ea_prepare_src R 0%R Rplus Rmult.

(** ... and MelemType = C (eigenvectors, operator matrices of the complex build; no order and no exponential is used by
    the averages: the unused operations are filled with the identity / a constant) *)
Definition Cdm_average_occupancy_src :=
  dm_average_occupancy_src C C0 Cplus Cminus Cmult Cdiv Copp (fun x => x) Cabs (fun _ _ => false) CofNat.
Definition Cdm_average_occupancy_i_src :=
  dm_average_occupancy_i_src C C0 Cplus Cminus Cmult Cdiv Copp (fun x => x) Cabs (fun _ _ => false) CofNat.
Definition Cdm_average_double_occupancy_src :=
  dm_average_double_occupancy_src C C0 Cplus Cminus Cmult Cdiv Copp (fun x => x) Cabs (fun _ _ => false) CofNat.
Definition Cea_prepare_src := ea_prepare_src C C0 Cplus Cmult.
