(** C12 -- ARBITRARY single-particle matrix h: the linear algebra (ssreflect / mathcomp 1.15 style; this file only).

    1. [resolvent_similar], [resolvent_similar_inv], [resolvent_entry]
         h = V diag(d) W with V W = 1 (W = V^+ for a unitary V)  =>  (z - h)^-1 = V diag(1/(z - d_a)) W, i.e.
         ((z - h)^-1)_ij = sum_a V_ia W_aj / (z - d_a): the propagator of a general h is the rotated propagator
         of its diagonal form (whose many-body counterpart is WickAllM.free_gf_diag_allM).

    2. [lehmann_is_resolvent]   THE MANY-BODY STATEMENT, for every h (Hermitian or not), any number of modes M and
         any Fock-space dimension N, by the equation of motion instead of a Bogoliubov rotation:
           let C_i, CX_i (i < M) be N x N matrices with the canonical anticommutation relations
               C_i CX_j + CX_j C_i = delta_ij,   C_i C_j + C_j C_i = 0                        [car], [cc]
           (the operators c_i, c^+_i in the eigenbasis of H: U^+ c_i U; Rotate.car_eigenbasis transports the
            relations from the Fock basis, where CAR.v proves them for the Jordan-Wigner action),
           let H = sum_kl h_kl CX_k C_l be DIAGONAL there, H = diag(E)                        [Hdiag]
           (the certificate H U = U diag(E), U^+ U = 1 of the eigen-decomposition),
           let the weights sum to one                                                         [wnorm]
           and z - (E_m - E_n) <> 0 for all n, m                                              [znz]
           (true for z = i omega_n, omega_n <> 0, and real E).
         Then the Lehmann double sum  G_ij = sum_nm (C_i)_nm (CX_j)_mn (w_n + w_m) / (z - (E_m - E_n))
         -- literally the expression EDSpec.gf computes from these data -- satisfies  (z - h) G = 1,
         hence z - h is invertible and  G = (z - h)^-1.   NO assumption on h, on degeneracies or on the weights
         beyond normalisation (so it holds for any stationary ensemble, not only the Gibbs one).
         Proof: [c_i, H] = sum_l h_il c_l from the relations ([comm_H]), so (E_m - E_n) (C_i)_nm =
         sum_l h_il (C_l)_nm; therefore sum_l (z delta_il - h_il) G_lj = sum_nm (C_i)_nm (CX_j)_mn (w_n + w_m)
         = Tr rho {c_i, c^+_j} = delta_ij.
       [lehmann_diag]           specialisation h = diag(eps): G_ij = delta_ij / (z - eps_i).

    WHAT IS NOT FORMALISED (the remaining gap between 2. and a theorem about PV.EDSpec.gf for non-diagonal h):
      (a) the change of representation: EDSpec.gf works on lists of rows indexed by labels 0..2^M-1, 2. on mathcomp
          matrices 'M_N; the summand is the same expression term by term;
      (b) that the list-matrices [rotate dim U (op_matrix M (cann i))] satisfy [car], [cc] when U passes the
          unitarity certificate EXACTLY, and that [rotate dim U (poly_matrix M H)] is diagonal when the residual
          certificate is exactly zero: in floating point both hold up to the certified residuals only, which is
          why the statement for non-diagonal h is decided numerically on the library by checks/C12.py
          (G against the exact rational inverse (z - h)^-1);
      (c) the two-particle function for non-diagonal h (the analogous equation of motion couples chi to G G). *)
From mathcomp Require Import all_ssreflect all_algebra.
Set Implicit Arguments.
Unset Strict Implicit.
Unset Printing Implicit Defensive.
Import GRing.Theory.
Local Open Scope ring_scope.

Section Resolvent.
Variable F : fieldType.
Variables (M : nat) (V W : 'M[F]_M) (d : 'rV[F]_M) (z : F).
Hypothesis VW : V *m W = 1%:M.
Hypothesis zd : forall a, z - d 0 a != 0.

Definition h_of := V *m diag_mx d *m W.
Definition g_of := V *m diag_mx (\row_a (z - d 0 a)^-1) *m W.

Lemma resolvent_diag : (z%:M - diag_mx d) *m diag_mx (\row_a (z - d 0 a)^-1) = 1%:M.
Proof.
apply/matrixP => i j; rewrite mul_mx_diag !mxE.
case: (i =P j) => [->|_]; last by rewrite !mulr0n subrr mul0r.
by rewrite !mulr1n divff.
Qed.

Theorem resolvent_similar : (z%:M - h_of) *m g_of = 1%:M.
Proof.
have WV : W *m V = 1%:M by apply: mulmx1C.
have -> : z%:M - h_of = V *m (z%:M - diag_mx d) *m W.
  by rewrite /h_of mulmxBr mulmxBl scalar_mxC -(mulmxA z%:M) VW mulmx1.
rewrite /g_of !mulmxA -(mulmxA (V *m _)) WV mulmx1 -(mulmxA V) resolvent_diag mulmx1.
exact: VW.
Qed.

Corollary resolvent_similar_inv : z%:M - h_of \in unitmx /\ invmx (z%:M - h_of) = g_of.
Proof.
have E := resolvent_similar; have [U _] := mulmx1_unit E; split=> //.
by rewrite -[LHS]mulmx1 -E mulKmx.
Qed.

Lemma resolvent_entry i j : g_of i j = \sum_a V i a * W a j / (z - d 0 a).
Proof.
rewrite /g_of mul_mx_diag !mxE; apply: eq_bigr => a _.
by rewrite !mxE mulrAC.
Qed.
End Resolvent.

Section EOM.
Variable F : fieldType.
Variables (M N : nat).
Variables (C CX : 'I_M -> 'M[F]_N) (h : 'M[F]_M) (E w : 'rV[F]_N) (z : F).
Hypothesis car : forall i j, C i *m CX j + CX j *m C i = ((i == j)%:R)%:M.
Hypothesis cc : forall i j, C i *m C j + C j *m C i = 0.
Hypothesis Hdiag : \sum_k \sum_l h k l *: (CX k *m C l) = diag_mx E.
Hypothesis wnorm : \sum_n w 0 n = 1.
Hypothesis znz : forall n m, z - (E 0 m - E 0 n) != 0.

(** the Lehmann sum of EDSpec.gf *)
Definition Gl (i j : 'I_M) : F :=
  \sum_n \sum_m C i n m * CX j m n * (w 0 n + w 0 m) / (z - (E 0 m - E 0 n)).

(** [c_i, H] = sum_l h_il c_l *)
Lemma comm_H i : C i *m diag_mx E - diag_mx E *m C i = \sum_l h i l *: C l.
Proof.
have key k l : C i *m (h k l *: (CX k *m C l)) - (h k l *: (CX k *m C l)) *m C i
               = (h k l * (i == k)%:R) *: C l.
  rewrite -scalemxAr -scalemxAl -scalerBr -scalerA; congr (_ *: _).
  rewrite mulmxA; have -> : C i *m CX k = ((i == k)%:R)%:M - CX k *m C i by rewrite -(car i k) addrK.
  rewrite mulmxBl mul_scalar_mx -!mulmxA -addrA -opprD -mulmxDr cc mulmx0 subr0.
  by [].
rewrite -Hdiag mulmx_sumr mulmx_suml -sumrB.
transitivity (\sum_k \sum_l (h k l * (i == k)%:R) *: C l).
  apply: eq_bigr => k _; rewrite mulmx_sumr mulmx_suml -sumrB.
  by apply: eq_bigr => l _; exact: key.
rewrite [LHS](bigD1 i) //= [X in _ + X]big1 ?addr0 => [|k ne].
  by apply: eq_bigr => l _; rewrite eqxx mulr1.
rewrite big1 // => l _.
by rewrite eq_sym (negbTE ne) mulr0 scale0r.
Qed.

Lemma comm_entry i n m : \sum_l h i l * C l n m = C i n m * (E 0 m - E 0 n).
Proof.
have /matrixP/(_ n m) := comm_H i.
rewrite summxE mul_mx_diag mul_diag_mx !mxE => H.
rewrite mulrBr (mulrC (C i n m) (E 0 n)) H.
by apply: eq_bigr => l _; rewrite mxE.
Qed.

Theorem eom i j : \sum_l (z *+ (i == l) - h i l) * Gl l j = (i == j)%:R.
Proof.
pose X n m := CX j m n * (w 0 n + w 0 m) / (z - (E 0 m - E 0 n)).
transitivity (\sum_n \sum_m (\sum_l (z *+ (i == l) - h i l) * C l n m) * X n m).
  rewrite /Gl.
  under eq_bigr => l _ do rewrite big_distrr /=.
  rewrite exchange_big /=; apply: eq_bigr => n _.
  under eq_bigr => l _ do rewrite big_distrr /=.
  rewrite exchange_big /=; apply: eq_bigr => m _.
  rewrite big_distrl /=; apply: eq_bigr => l _.
  by rewrite /X !mulrA.
transitivity (\sum_n \sum_m C i n m * (CX j m n * (w 0 n + w 0 m))).
  apply: eq_bigr => n _; apply: eq_bigr => m _.
  have -> : \sum_l (z *+ (i == l) - h i l) * C l n m = C i n m * (z - (E 0 m - E 0 n)).
    under eq_bigr => l _ do rewrite mulrBl.
    rewrite sumrB comm_entry (bigD1 i) //= big1 ?addr0 => [|l ne].
      by rewrite eqxx mulr1n [RHS]mulrBr (mulrC z).
    by rewrite eq_sym (negbTE ne) mulr0n mul0r.
  by rewrite /X mulrACA divff ?mulr1.
transitivity (\sum_n w 0 n * ((C i *m CX j) n n + (CX j *m C i) n n)).
  under eq_bigr => n _ do under eq_bigr => m _ do rewrite mulrDr mulrDr.
  under eq_bigr => n _ do rewrite big_split /=.
  rewrite big_split /=.
  under [in RHS]eq_bigr => n _ do rewrite mulrDr.
  rewrite [in RHS]big_split /=; congr (_ + _).
    apply: eq_bigr => n _; rewrite mxE big_distrr /=.
    by apply: eq_bigr => m _; rewrite [LHS]mulrA [LHS]mulrC.
  rewrite exchange_big /=; apply: eq_bigr => m _; rewrite mxE big_distrr /=.
  by apply: eq_bigr => n _; rewrite [LHS]mulrA [LHS]mulrC (mulrC (C i n m)).
under eq_bigr => n _.
  have -> : (C i *m CX j) n n + (CX j *m C i) n n = (i == j)%:R.
    by have /matrixP/(_ n n) := car i j; rewrite !mxE eqxx mulr1n.
  over.
by rewrite -big_distrl /= wnorm mul1r.
Qed.

Definition Gmx : 'M[F]_M := \matrix_(i, j) Gl i j.

Theorem lehmann_is_resolvent :
  [/\ (z%:M - h) *m Gmx = 1%:M, z%:M - h \in unitmx & Gmx = invmx (z%:M - h)].
Proof.
have E1 : (z%:M - h) *m Gmx = 1%:M.
  apply/matrixP => i j; rewrite !mxE -[RHS](eom i j).
  by apply: eq_bigr => l _; rewrite !mxE.
have [U _] := mulmx1_unit E1; split=> //.
by rewrite -[RHS]mulmx1 -E1 mulKmx.
Qed.
End EOM.

(** diagonal h: the closed form of WickAllM.free_gf_diag_allM *)
Section EOMdiag.
Variable F : fieldType.
Variables (M N : nat).
Variables (C CX : 'I_M -> 'M[F]_N) (eps : 'rV[F]_M) (E w : 'rV[F]_N) (z : F).
Hypothesis car : forall i j, C i *m CX j + CX j *m C i = ((i == j)%:R)%:M.
Hypothesis cc : forall i j, C i *m C j + C j *m C i = 0.
Hypothesis Hdiag : \sum_k \sum_l (diag_mx eps) k l *: (CX k *m C l) = diag_mx E.
Hypothesis wnorm : \sum_n w 0 n = 1.
Hypothesis znz : forall n m, z - (E 0 m - E 0 n) != 0.

Corollary lehmann_diag i j : z - eps 0 i != 0 -> Gl C CX E w z i j = (i == j)%:R / (z - eps 0 i).
Proof.
move=> nz; have := eom car cc Hdiag wnorm znz i j.
rewrite (bigD1 i) //= big1 ?addr0 => [|l ne].
  by rewrite !mxE eqxx !mulr1n => <-; rewrite mulrAC divff // mul1r.
by rewrite !mxE eq_sym (negbTE ne) !mulr0n subrr mul0r.
Qed.
End EOMdiag.

(** * The hypotheses are satisfiable: one mode, c = |0><1|, H = e n, any normalised weights *)
Section Example.
Variable F : fieldType.
Definition c1 : 'M[F]_2 := \matrix_(i, j) ((i == 0) && (j == 1))%:R.
Definition cx1 : 'M[F]_2 := \matrix_(i, j) ((i == 1) && (j == 0))%:R.

Example eom_hypotheses_satisfiable (e w0 z : F) :
  z != 0 -> z - e != 0 -> z + e != 0 ->
  let C := fun _ : 'I_1 => c1 in let CX := fun _ : 'I_1 => cx1 in
  let h : 'M[F]_1 := e%:M in
  let E : 'rV[F]_2 := \row_n (if n == 0 then 0 else e) in
  let w : 'rV[F]_2 := \row_n (if n == 0 then w0 else 1 - w0) in
  [/\ forall i j, C i *m CX j + CX j *m C i = ((i == j)%:R)%:M,
      forall i j, C i *m C j + C j *m C i = 0,
      \sum_k \sum_l h k l *: (CX k *m C l) = diag_mx E,
      \sum_n w 0 n = 1 &
      forall n m, z - (E 0 m - E 0 n) != 0].
Proof.
move=> z0 ze zme C CX h E w; split.
- move=> i j; rewrite !ord1 eqxx; apply/matrixP => a b.
  rewrite !mxE !big_ord_recl !big_ord0 !mxE /=.
  by case: a => [[|[|a]] Ha] //; case: b => [[|[|b]] Hb] //=;
     rewrite ?(mulr0, mul0r, mulr1, addr0, add0r, mulr1n, mulr0n).
- move=> i j; apply/matrixP => a b.
  rewrite !mxE !big_ord_recl !big_ord0 !mxE /=.
  by case: a => [[|[|a]] Ha] //; case: b => [[|[|b]] Hb] //=;
     rewrite ?(mulr0, mul0r, mulr1, addr0, add0r, mulr1n, mulr0n).
- rewrite !big_ord_recl !big_ord0 !addr0; apply/matrixP => a b.
  rewrite !mxE !big_ord_recl !big_ord0 !mxE /=.
  by case: a => [[|[|a]] Ha] //; case: b => [[|[|b]] Hb] //=;
     rewrite ?(mulr0, mul0r, mulr1, addr0, add0r, mulr1n, mulr0n).
- by rewrite !big_ord_recl big_ord0 !mxE /= addr0 addrC subrK.
- move=> n m; rewrite !mxE.
  case: n => [[|[|n]] Hn] //; case: m => [[|[|m]] Hm] //=;
  by rewrite ?subrr ?subr0 ?sub0r ?opprK.
Qed.
End Example.
