(** Literals for code generated over [EDSpec.numops]: decimal constants m * 10^e and naturals. *)
Require Import ZArith.
From PV Require Import EDSpec.

Section Lit.
Variable K : Type.
Variable NO : numops K.
Definition lit_dec (m e : Z) : K :=
  if (0 <=? e)%Z then nmul K NO (nofZ K NO m) (nofZ K NO (10 ^ e)%Z)
  else ndiv K NO (nofZ K NO m) (nofZ K NO (10 ^ (- e))%Z).
Definition lit_nat (n : nat) : K := nofZ K NO (Z.of_nat n).
End Lit.
