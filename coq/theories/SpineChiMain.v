(** The two-particle spine for the one-block partition with the term-list step PROVED:
      [spine_chi_one_block]          SpineChiOneBlock.spine_chi_one_block_partial with [termlists_faithful6] discharged by
                                     SpineChiTermLists.termlists_faithful_exact: the pole values that can occur are the level
                                     differences E_b - E_a ([pole_list]); the comparators are exact on them ([cmp_exact], a
                                     hypothesis on the eigenvalues and the comparator tolerances with a boolean checker
                                     [cmp_exact_b]), IsNegligible drops exact zeros only;
      [spine_chi_one_block_rotated]  the same with the inputs the other layers produce: the Jordan-Wigner matrices of
                                     c_i, c_j, c^+_k, c^+_l rotated by the eigenvector matrix U (EDSpec.rotate / op_matrix, the
                                     objects of the G spine) and the Gibbs weights EDSpec.weights.
    Remaining hypotheses: exact value tests, [chi_regular6] (regular frequency triple), [cmp_exact] (exact comparators on the level
    differences), the number type (field; ofZ additive, non-zero on positive integers, ofZ 1 = 1, ofZ (-1) = -1). *)
Require Import Bool List Arith ZArith Lia Field Ring.
From PV Require Import Outcome Fock Poly EDSpec HPartProofs Spine SpineLinAlg SpineSparseProofs SpineOneBlock Chi ChiProofs ChiLehmann
     SpineChi SpineChiPart SpineChiOneBlock SpineChiTermLists.
From PVgen Require Import Gen_Multiterm.
Import ListNotations.

Section Main.
Variable K : Type.
Variable NO : numops K.
Notation "0" := (n0 K NO).
Notation "1" := (n1 K NO).
Notation kadd := (nadd K NO).
Notation ksub := (nsub K NO).
Notation kmul := (nmul K NO).
Notation kdiv := (ndiv K NO).
Notation kopp := (nopp K NO).
Notation ltb := (nre_ltb K NO).
Notation kabs := (nabs K NO).
Notation ofZ := (nofZ K NO).
Infix "+" := (nadd K NO).
Infix "-" := (nsub K NO).
Infix "/" := (ndiv K NO).
Hypothesis Kf : field_theory 0 1 kadd (nmul K NO) ksub kopp kdiv (ChiLehmann.kinv K NO) (@eq K).

(** the pole values: all level differences E_b - E_a *)
Definition pole_list (n : nat) (E : list K) : list K :=
  flat_map (fun a => map (fun b => nth b E 0 - nth a E 0) (seq O n)) (seq O n).
Lemma in_pole_list n E a b : a < n -> b < n -> In (nth b E 0 - nth a E 0) (pole_list n E).
Proof.
  intros Ha Hb. unfold pole_list. apply in_flat_map. exists a. split; [apply in_seq; lia|].
  apply in_map_iff. exists b. split; [reflexivity|apply in_seq; lia].
Qed.

(** boolean checker of [cmp_exact] *)
Variable keq : K -> K -> bool.
Hypothesis keq_spec : forall p q, keq p q = true <-> p = q.
Definition cmp_exact_b (tc : K) (L : list K) : bool :=
  forallb (fun p => real_eq K NO tc p p) L &&
  forallb (fun p => forallb (fun q =>
     keq p q || (negb (real_eq K NO tc p q) && (ltb p q || ltb q p) && (real_ge K NO (q - p) tc || real_ge K NO (p - q) tc))) L) L.
Lemma cmp_exact_b_sound tc L : cmp_exact_b tc L = true -> cmp_exact K NO tc L.
Proof.
  unfold cmp_exact_b. intros H. apply andb_prop in H. destruct H as [H0 H1].
  rewrite forallb_forall in H0.
  assert (H2 : forall p q, In p L -> In q L ->
     keq p q || (negb (real_eq K NO tc p q) && (ltb p q || ltb q p) && (real_ge K NO (q - p) tc || real_ge K NO (p - q) tc)) = true).
  { intros p q Hp Hq. rewrite forallb_forall in H1. specialize (H1 p Hp). rewrite forallb_forall in H1. exact (H1 q Hq). }
  assert (NE : forall p q, In p L -> In q L -> p <> q ->
     real_eq K NO tc p q = false /\ (ltb p q = true \/ ltb q p = true) /\ (real_ge K NO (q - p) tc || real_ge K NO (p - q) tc = true)).
  { intros p q Hp Hq Hne. specialize (H2 p q Hp Hq). destruct (keq p q) eqn:Q; [exfalso; apply Hne; apply keq_spec; exact Q|].
    cbn [orb] in H2. apply andb_prop in H2. destruct H2 as [H2 H3]. apply andb_prop in H2. destruct H2 as [H2 H4].
    split; [apply negb_true_iff; exact H2|]. split; [apply orb_prop; exact H4|exact H3]. }
  assert (XD : forall p q : K, p = q \/ p <> q).
  { intros p q. destruct (keq p q) eqn:Q; [left; apply keq_spec; exact Q|right; intro E; apply keq_spec in E; congruence]. }
  split; [exact H0|]. split; [|split; [|split]].
  - intros p q Hp Hq R. destruct (XD p q) as [E|Hne]; [exact E|]. destruct (NE p q Hp Hq Hne) as [R' _]. congruence.
  - intros p q Hp Hq Hne. exact (proj1 (proj2 (NE p q Hp Hq Hne))).
  - intros p q Hp Hq R1 R2. destruct (XD p q) as [E|Hne]; [exact E|]. destruct (NE p q Hp Hq Hne) as [_ [_ R]].
    rewrite R1, R2 in R. discriminate R.
  - intros p q _ _. apply XD.
Qed.

Variable keepf : K -> bool.
Hypothesis Hkeep : forall x, keepf x = false -> x = 0.
Variable tl : tols K.
Hypothesis guards_exact : forall x, abs_gt K NO x (t_coeff K tl) = false -> x = 0.
Hypothesis nz_exact : forall x, ltb 0 (kabs x) = false -> x = 0.
Hypothesis negl_exact_nr : forall x d, abs_lt K NO x (t_neg_nr K tl / ofZ (Z.of_nat d)) = true -> x = 0.
Hypothesis negl_exact_r : forall x d, abs_lt K NO x (t_neg_r K tl / ofZ (Z.of_nat d)) = true -> x = 0.
Hypothesis ofZ_1 : ofZ (Zpos xH) = 1.
Hypothesis ofZ_m1 : ofZ (Zneg xH) = kopp 1.
Hypothesis ofZ_add : forall a b : Z, ofZ (a + b)%Z = ofZ a + ofZ b.
Hypothesis ofZ_pos : forall z : Z, (0 < z)%Z -> ofZ z <> 0.
Variable g : nat.
Variable n : nat.
Variables E w : list K.
Variable beta : K.
Hypothesis CE_nr : cmp_exact K NO (t_cmp_nr K tl) (pole_list n E).
Hypothesis CE_r : cmp_exact K NO (t_cmp_r K tl) (pole_list n E).

(** the visited states of a part on dense n x n data are below n: their pole values are level differences *)
Lemma dense_part_poles (X1 X2 X3 X4 : mat K) perm sg : square K n X1 -> square K n X2 -> square K n X3 -> square K n X4 ->
  forall v, In v (spec_visits K (dense_part K NO keepf n E w beta X1 X2 X3 X4 perm sg)) ->
  v_i1 K v < n /\ v_i2 K v < n /\ v_i3 K v < n /\ v_i4 K v < n.
Proof.
  intros S1 S2 S3 S4 v Hv. apply in_spec_visits in Hv. destruct Hv as [i1 [i3 [H1 [H3 Hv]]]].
  cbn [p_CX4 p_O2 dense_part] in H1, H3. rewrite (cols_length K NO keepf n) in H1, H3.
  apply in_spec13 in Hv. destruct Hv as [e2 [e4 [He2 [He4 ->]]]].
  cbn [p_O1 p_O2 p_O3 p_CX4 dense_part] in He2, He4. unfold smat_cols in He2, He4. rewrite !(outer_rows K keepf) in He2, He4.
  pose proof (common_srow_lt K NO keepf _ _ _ He2) as L2. pose proof (common_srow_lt K NO keepf _ _ _ He4) as L4.
  rewrite (proj2 S1 i1 H1) in L2. rewrite (proj2 S3 i3 H3) in L4.
  unfold mk_visit. cbn [v_i1 v_i2 v_i3 v_i4]. repeat split; assumption.
Qed.

Variables D1 D2 D3 D4 : mat K.
Hypothesis SQ1 : square K n D1.
Hypothesis SQ2 : square K n D2.
Hypothesis SQ3 : square K n D3.
Hypothesis SQ4 : square K n D4.

Lemma faithful6 z1 z2 z3 : termlists_faithful6 K NO keepf tl g n E w beta D1 D2 D3 D4 z1 z2 z3.
Proof.
  intros ps Hin. unfold termlists_faithful.
  assert (P : forall k, k < 3 -> perm_nth (fst ps) k < 3).
  { intros k Hk. cbn in Hin. repeat (destruct Hin as [<-|Hin]; [destruct k as [|[|[|k]]]; cbn; lia|]). destruct Hin. }
  apply (termlists_faithful_exact K NO Kf ofZ_add ofZ_pos tl (pole_list n E) _ _ _ CE_nr CE_r negl_exact_nr negl_exact_r g).
  - apply dense_part_sorted.
  - intros v Hv. unfold perm_part in Hv.
    destruct (dense_part_poles _ _ _ D4 (fst ps) (snd ps)
                (opsel_square K n D1 D2 D3 SQ1 SQ2 SQ3 _ (P O ltac:(lia))) (opsel_square K n D1 D2 D3 SQ1 SQ2 SQ3 _ (P (S O) ltac:(lia)))
                (opsel_square K n D1 D2 D3 SQ1 SQ2 SQ3 _ (P (S (S O)) ltac:(lia))) SQ4 v Hv) as [V1 [V2 [V3 V4]]].
    cbn [p_E1 p_E2 p_E3 p_E4 perm_part dense_part]. repeat split; apply in_pole_list; assumption.
Qed.

(** THE ONE-BLOCK THEOREM: pipeline value = EDSpec.chi; no hypothesis on the computed state *)
Theorem spine_chi_one_block (z1 z2 z3 : K) (s : gf_st K) :
  chi_regular6 K NO tl n E w z1 z2 z3 ->
  spine_chi_dense K NO keepf g tl n beta E w D1 D2 D3 D4 = Done s ->
  gf_value K NO tl s z1 z2 z3 = Done (chi K NO beta (t_reduce K tl) E w D1 D2 D3 D4 z1 z2 z3).
Proof.
  intros REG H.
  exact (spine_chi_one_block_partial K NO Kf keepf Hkeep tl guards_exact nz_exact ofZ_1 ofZ_m1 g n E w beta D1 D2 D3 D4
           SQ1 SQ2 SQ3 SQ4 z1 z2 z3 s REG (faithful6 z1 z2 z3) H).
Qed.

End Main.

(** * a boolean checker for [chi_regular] (used by the examples) *)
Section RegularChecker.
Variable K : Type.
Variable NO : numops K.
Variable keq : K -> K -> bool.
Hypothesis keq_spec : forall p q, keq p q = true <-> p = q.
Variable tl : tols K.
Variable n : nat.
Variables E w : list K.
Notation k0 := (n0 K NO).
Notation kadd := (nadd K NO).
Notation ksub := (nsub K NO).
Notation G f := (f K kadd ksub (nmul K NO) (ndiv K NO) (nopp K NO) (abs_gt K NO) (abs_lt K NO) (real_ge K NO)) (only parsing).

Definition quad_ok_b (y1 y2 y3 : K) (a b c d : nat) : bool :=
  let Ea := nth a E k0 in let Eb := nth b E k0 in let Ec := nth c E k0 in let Ed := nth d E k0 in
  let c12 := code_res K NO tl true Ea Eb Ec Ed y1 y2 y3 in
  let c23 := code_res K NO tl false Ea Eb Ec Ed y1 y2 y3 in
  negb (keq (ksub (kadd y1 Ea) Eb) k0) && negb (keq (ksub (kadd y2 Eb) Ec) k0) && negb (keq (ksub (kadd y3 Ec) Ed) k0) &&
  negb (keq (ksub (kadd (kadd (kadd y1 y2) y3) Ea) Ed) k0) &&
  Bool.eqb c12 (nre_ltb K NO (nabs K NO (kadd y1 y2)) (t_reduce K tl) && nre_ltb K NO (nabs K NO (ksub Ea Ec)) (t_reduce K tl)) &&
  Bool.eqb c23 (nre_ltb K NO (nabs K NO (kadd y2 y3)) (t_reduce K tl) && nre_ltb K NO (nabs K NO (ksub Eb Ed)) (t_reduce K tl)) &&
  (c12 || negb (keq (ksub (kadd (kadd y1 y2) Ea) Ec) k0)) && (c23 || negb (keq (ksub (kadd (kadd y2 y3) Eb) Ed) k0)) &&
  G compute_weight_guard (t_coeff K tl) (nth a w k0) (nth b w k0) (nth c w k0) (nth d w k0).

Definition chi_regular_b (y1 y2 y3 : K) : bool :=
  forallb (fun a => forallb (fun b => forallb (fun c => forallb (fun d => quad_ok_b y1 y2 y3 a b c d) (seq 0 n)) (seq 0 n)) (seq 0 n)) (seq 0 n).

Lemma nkeq x : negb (keq x k0) = true -> x <> k0.
Proof. intros H E0. apply keq_spec in E0. rewrite E0 in H. discriminate H. Qed.

Lemma chi_regular_b_sound y1 y2 y3 : chi_regular_b y1 y2 y3 = true -> chi_regular K NO tl n E w y1 y2 y3.
Proof.
  unfold chi_regular_b. intros H a b c d Ha Hb Hc Hd.
  rewrite forallb_forall in H. specialize (H a ltac:(apply in_seq; lia)).
  rewrite forallb_forall in H. specialize (H b ltac:(apply in_seq; lia)).
  rewrite forallb_forall in H. specialize (H c ltac:(apply in_seq; lia)).
  rewrite forallb_forall in H. specialize (H d ltac:(apply in_seq; lia)).
  unfold quad_ok_b in H. cbv zeta in H.
  repeat (apply andb_prop in H; let H' := fresh "Q" in destruct H as [H H']).
  unfold quad_ok. cbv zeta.
  split; [apply nkeq; exact H|]. split; [apply nkeq; exact Q6|]. split; [apply nkeq; exact Q5|]. split; [apply nkeq; exact Q4|].
  split; [apply eqb_prop; exact Q3|]. split; [apply eqb_prop; exact Q2|].
  split; [intros C; rewrite C in Q1; apply nkeq; exact Q1|]. split; [intros C; rewrite C in Q0; apply nkeq; exact Q0|]. exact Q.
Qed.

Definition chi_regular6_b (z1 z2 z3 : K) : bool :=
  forallb (fun ps => chi_regular_b (freq_perm K NO ps z1 z2 z3 0) (freq_perm K NO ps z1 z2 z3 1) (freq_perm K NO ps z1 z2 z3 2)) permutations3.
Lemma chi_regular6_b_sound z1 z2 z3 : chi_regular6_b z1 z2 z3 = true -> chi_regular6 K NO tl n E w z1 z2 z3.
Proof. unfold chi_regular6_b. intros H ps Hin. rewrite forallb_forall in H. apply chi_regular_b_sound. exact (H ps Hin). Qed.
End RegularChecker.

(** * ... with the inputs the other layers produce (one block) *)
Theorem spine_chi_one_block_rotated (K : Type) (NO : numops K)
  (Kf : field_theory (n0 K NO) (n1 K NO) (nadd K NO) (nmul K NO) (nsub K NO) (nopp K NO) (ndiv K NO) (ChiLehmann.kinv K NO) (@eq K))
  (keepf : K -> bool) (Hkeep : forall x, keepf x = false -> x = n0 K NO)
  (tl : tols K)
  (guards_exact : forall x, abs_gt K NO x (t_coeff K tl) = false -> x = n0 K NO)
  (nz_exact : forall x, nre_ltb K NO (n0 K NO) (nabs K NO x) = false -> x = n0 K NO)
  (negl_exact_nr : forall x d, abs_lt K NO x (ndiv K NO (t_neg_nr K tl) (nofZ K NO (Z.of_nat d))) = true -> x = n0 K NO)
  (negl_exact_r : forall x d, abs_lt K NO x (ndiv K NO (t_neg_r K tl) (nofZ K NO (Z.of_nat d))) = true -> x = n0 K NO)
  (ofZ_1 : nofZ K NO (Zpos xH) = n1 K NO) (ofZ_m1 : nofZ K NO (Zneg xH) = nopp K NO (n1 K NO))
  (ofZ_add : forall a b : Z, nofZ K NO (a + b)%Z = nadd K NO (nofZ K NO a) (nofZ K NO b))
  (ofZ_pos : forall z : Z, (0 < z)%Z -> nofZ K NO z <> n0 K NO)
  (g M : nat) (E : list K) (U : mat K) (beta : K) (i j k l : nat) :
  length E = Nat.pow 2 M ->
  cmp_exact K NO (t_cmp_nr K tl) (pole_list K NO (Nat.pow 2 M) E) ->
  cmp_exact K NO (t_cmp_r K tl) (pole_list K NO (Nat.pow 2 M) E) ->
  forall (z1 z2 z3 : K) (s : gf_st K),
  chi_regular6 K NO tl (Nat.pow 2 M) E (weights K NO beta E) z1 z2 z3 ->
  spine_chi_one_block_run K NO keepf g tl M E U beta i j k l = Done s ->
  gf_value K NO tl s z1 z2 z3 =
  Done (chi K NO beta (t_reduce K tl) E (weights K NO beta E)
          (rotate K NO (Nat.pow 2 M) U (op_matrix K NO M (cann i))) (rotate K NO (Nat.pow 2 M) U (op_matrix K NO M (cann j)))
          (rotate K NO (Nat.pow 2 M) U (op_matrix K NO M (cdag k))) (rotate K NO (Nat.pow 2 M) U (op_matrix K NO M (cdag l)))
          z1 z2 z3).
Proof.
  intros E_len CE1 CE2 z1 z2 z3 s REG. unfold spine_chi_one_block_run.
  destruct (spine_dm K NO beta (one_block M) [(E, U)]) as [D| | | |] eqn:HD; cbn [bind]; try discriminate.
  assert (HE : E <> []).
  { intros HE. rewrite HE in E_len. cbn in E_len. pose proof (Nat.pow_nonzero 2 M ltac:(lia)). lia. }
  rewrite (SpineOneBlock.S1_dm K NO (F_R Kf) M E U E_len beta D HE HD).
  assert (SQ : forall Om, square K (Nat.pow 2 M) (rotate K NO (Nat.pow 2 M) U Om)).
  { intros Om. split; [apply rotate_length|]. intros r Hr. apply rotate_row_length. exact Hr. }
  exact (spine_chi_one_block K NO Kf keepf Hkeep tl guards_exact nz_exact negl_exact_nr negl_exact_r ofZ_1 ofZ_m1 ofZ_add ofZ_pos
           g (Nat.pow 2 M) E (weights K NO beta E) beta CE1 CE2 _ _ _ _ (SQ _) (SQ _) (SQ _) (SQ _) z1 z2 z3 s REG).
Qed.
