(** HamShapes.v -- the vocabulary in which translator/gen_ham.py describes the CONTROL STRUCTURE of the diagonalisation layer and
    of the eigenbasis field operators (properties C03, C10).

    The generated files coq/gen/Gen_Ham*.v, Gen_HPart*.v, Gen_FieldOp*.v, Gen_Foc*.v say, in these terms, what the source text of
    the tree under test does: which branches HamiltonianPart::compute has, which cell of the matrix HamiltonianPart::prepare
    writes, what Hamiltonian::compute(comm) broadcasts and under which condition, which statements precede the loop of
    FieldOperatorContainer::computeAll, ...  PV.HPartGen / PV.FieldOpGen interpret these descriptions (the [..._src] functions);
    a constructor named [...Unrecognised] stands for source text the translator could split into statements but not
    understand -- the interpreters answer [Throws ex_unmodelled] / [None] for it, which no theorem accepts.

    Hand-written, no definitions that compute anything. *)
Require Import List.

(** * HamiltonianPart::compute: the chain  if (c1) A1 else if (c2) A2 ... else A *)
Inductive hp_cond : Set :=
| CondRowsEq (n : nat)          (* H.rows() == n *)
| CondRowsLt (n : nat)          (* H.rows() <  n *)
| CondRowsGt (n : nat)          (* H.rows() >  n *)
| CondUnrecognised.             (* any other test, e.g. H.isDiagonal() *)

Inductive hp_act : Set :=
| ActOneByOne                   (* Eigenvalues.resize(1); Eigenvalues << [real] H(0,0); H(0,0) = 1; *)
| ActSolverWholeBlock           (* SelfAdjointEigenSolver<MatrixType> s(H, ComputeEigenvectors); H = s.eigenvectors(); Eigenvalues = s.eigenvalues(); *)
| ActNothing                    (* no statement *)
| ActUnrecognised.              (* anything else *)

(** * HamiltonianPart::prepare: H(ROW, COL) = <bra| H |ket>, each of ROW, COL being ... *)
Inductive hprep_pos : Set :=
| PosOfResultState              (* S.getInnerState(bra), bra a state of F.actRight(ket) *)
| PosOfSourceState.             (* the loop variable: the position of ket in the block *)

(** * Hamiltonian::prepare(comm) / compute(comm): one boost::mpi::broadcast(comm, BUF, COUNT, ROOT) of the loop over the parts *)
Inductive bcast_buf : Set :=
| BufMatrix                     (* parts[p]->H.data() *)
| BufEigenvalues.               (* parts[p]->Eigenvalues.data() *)
Inductive bcast_root : Set :=
| RootThisRank                  (* comm.rank() *)
| RootOwner.                    (* job_map[p]: the rank that ran the part *)
(** [bc_count rows cols size] / [bc_guard rows cols size]: over H.rows(), H.cols() of the calling rank's copy and the block size
    getSize(); the guard is [fun _ _ _ => true] for a call that is not under an `if` *)
Record bcast : Type := mkBcast {
  bc_buf : bcast_buf;
  bc_count : nat -> nat -> nat -> nat;
  bc_root : bcast_root;
  bc_guard : nat -> nat -> nat -> bool
}.

(** * FieldOperatorPart::compute *)
(** an index of LeftMat(.,.), RightMat(.,.), getMatrixElement(.,.) *)
Inductive fop_idx : Set :=
| IdxLoop                       (* the variable of the inner loop (n resp. m) *)
| IdxSource                     (* k = S.getInnerState(K), K the current state of the `from` block *)
| IdxTarget.                    (* l = S.getInnerState(L), L the state O maps K to *)

(** which dense matrix goes into sparseView, under which condition (first match wins) *)
Inductive fop_cond : Set :=
| FCondAlways
| FCondToEqFrom                 (* to == from *)
| FCondToNeFrom                 (* to != from *)
| FCondUnrecognised.
Inductive fop_dense_kind : Set :=
| DenseLeftTimesRight           (* LeftMat * RightMat *)
| DenseUnrecognised.

(** the steps from the dense product to the stored sparse matrix *)
Inductive fop_reference : Set :=
| RefTolerance                  (* the member MatrixElementTolerance *)
| RefUnrecognised.
Inductive fop_sparsify : Set :=
| StepSparseView (r : fop_reference)     (* X.sparseView(r) *)
| StepPrune (r : fop_reference).         (* elementsRowMajor.prune(r) *)

(** * FieldOperatorContainer *)
(** statements of computeAll in front of its loop *)
Inductive foc_pre : Set :=
| PreReturnIfFirstAnnihilatorComputed    (* if (!mapAnnihilationOperators.empty() && mapAnnihilationOperators.begin()->second->getStatus() >= Computed) return; *)
| PreReturnIfFirstCreatorComputed        (* the same about mapCreationOperators *)
| PreReturnIfUnrecognised.               (* if (<anything else>) return; *)
(** how the creation operator's compute() is called inside the loop *)
Inductive foc_call : Set :=
| CallUnconditional                      (* cdag.compute();  -- the operator's own Status guard decides *)
| CallGuarded.                           (* under an `if` *)
(** key of a pair (left block, right block) of the creation operator's block map *)
Inductive bimap_side : Set := SideLeft | SideRight.
Inductive foc_copy_op : Set :=
| CopyAdjoint                            (* .adjoint()  (and the storage orders exchanged) *)
| CopyTranspose.                         (* .transpose() *)
(** what prepareAll stores for an index *)
Inductive foc_slot : Set :=
| SlotNewPrepared                        (* X = new ...Operator(IndexInfo, S, H, i); X->prepare(); map[i] = X; *)
| SlotNewUnprepared.                     (* the same without prepare() *)
