(** Specification side of C13: what a caller may expect of the container after a history of calls
    ("ghost" status per listed quadruple, computed from the calls and their visible outcomes only, never from
    element identities), the abstract chi with its exchange symmetries, and checkers for the permutation table. *)
Require Import ZArith Bool List Arith.
Import ListNotations.
From PVgen Require Import Gen_Container4.
From PV Require Import Container4.
Local Open Scope Z_scope.

(** * The caller's view *)

Definition status_leb (a b : status) : bool :=
  match a, b with
  | Constructed, _ => true
  | Prepared, Constructed => false
  | Prepared, _ => true
  | Computed, Computed => true
  | Computed, _ => false
  end.

Definition smax (a b : status) : status := if status_leb a b then b else a.

(** [gmap]: for every quadruple the container currently lists, what the caller has done to it through the
    container: nothing (Constructed), prepared it (a bulk prepareAll after which it was listed, or prepare() on the
    element obtained on demand), prepared and computed it (additionally a bulk computeAll that returned normally, or
    compute() on the element obtained on demand that returned normally). *)
Definition gmap := qmap status.

(* keys follow the container's listing; newly listed quadruples start as Constructed *)
Definition gsync (g : gmap) (st' : cstate) : gmap :=
  map (fun kv => (fst kv, match qfind (fst kv) g with Some s => s | None => Constructed end)) (emap st').

Definition gall (s : status) (g : gmap) : gmap := map (fun kv => (fst kv, s)) g.

Definition graise (q : quad) (s : status) (g : gmap) : gmap :=
  map (fun kv => if quad_eqb (fst kv) q then (fst kv, smax s (snd kv)) else kv) g.

(** [st'] and [o] are the container state and the visible outcome after the call. *)
Definition gstep (g : gmap) (op : cop) (st' : cstate) (o : cout) : gmap :=
  match op with
  | Fill _ => gall Constructed (gsync [] st')                 (* fill discards all elements and creates new ones *)
  | PrepareAll _ => gall Prepared (gsync [] st')
  | ComputeAll _ => match o with
                    | OUnit => gall Computed (gsync g st')   (* "after a bulk computation every listed element is evaluable" *)
                    | _ => gsync g st'                        (* an exception: nothing new may be expected *)
                    end
  | Lookup _ => gsync g st'
  | Eval _ _ => gsync g st'
  | PrepareElem q => graise q Prepared (gsync g st')
  | ComputeElem q => match o with
                     | OUnit => graise q Computed (gsync g st')
                     | _ => gsync g st'
                     end
  end.

Definition rstep (fixed : bool) (van : quad -> bool) (nidx : nat) (sg : cstate * gmap) (op : cop) : cstate * gmap :=
  let '(st', o) := cstep fixed van nidx (fst sg) op in (st', gstep (snd sg) op st' o).

(** state and caller's view after a history, starting from a freshly constructed container *)
Definition run (fixed : bool) (van : quad -> bool) (nidx : nat) (ops : list cop) : cstate * gmap :=
  fold_left (rstep fixed van nidx) ops (init, []).

Definition eval_out (fixed : bool) (van : quad -> bool) (nidx : nat) (st : cstate) (q : quad) (n : triple) : cout :=
  snd (cstep fixed van nidx st (Eval q n)).

(** * Abstract values *)

Section Chi.
  Variable V : Type.
  Variable vneg : V -> V.
  Variable vscale : Z -> V -> V.            (* value * RealType(sign) *)
  Variable chi : quad -> triple -> V.       (* the two-particle Green's function constructed directly for a quadruple *)

  Definition swap12_law : Prop := forall i j k l w1 w2 w3,
    chi (j, i, k, l) (w1, w2, w3) = vneg (chi (i, j, k, l) (w2, w1, w3)).
  Definition swap34_law : Prop := forall i j k l w1 w2 w3,
    chi (i, j, l, k) (w1, w2, w3) = vneg (chi (i, j, k, l) (w1, w2, w1 + w2 - w3)).
  Definition neg_invol : Prop := forall v, vneg (vneg v) = v.
  Definition scale_law : Prop := (forall v, vscale 1 v = v) /\ (forall v, vscale (-1) v = vneg v).

  (** the value a symbolic outcome stands for *)
  Definition denote (o : cout) : option V :=
    match o with
    | OVal s q0 t => Some (vscale s (chi q0 t))
    | _ => None
    end.

  (** an entry (element for q0, permutation p) stored under key q returns chi q *)
  Definition entry_denotes (p : perm4) (q0 q : quad) : Prop :=
    forall n, vscale (fst (perm_eval p n)) (chi q0 (snd (perm_eval p n))) = chi q n.
End Chi.

(** * Checkers for the permutation table *)

Definition quad_in_range (p : nat * nat * nat * nat) : bool :=
  let '(a, b, c, d) := p in Nat.ltb a 4 && Nat.ltb b 4 && Nat.ltb c 4 && Nat.ltb d 4.

Definition quad_distinct (p : nat * nat * nat * nat) : bool :=
  let '(a, b, c, d) := p in
  negb (Nat.eqb a b) && negb (Nat.eqb a c) && negb (Nat.eqb a d) &&
  negb (Nat.eqb b c) && negb (Nat.eqb b d) && negb (Nat.eqb c d).

Definition inv1 (x y : nat) : nat := if Nat.ltb y x then 1%nat else 0%nat.

(* number of inversions of (a,b,c,d) *)
Definition inversions (p : nat * nat * nat * nat) : nat :=
  let '(a, b, c, d) := p in
  (inv1 a b + inv1 a c + inv1 a d + inv1 b c + inv1 b d + inv1 c d)%nat.

Definition parity_sign (p : nat * nat * nat * nat) : Z := if Nat.even (inversions p) then 1 else -1.

Fixpoint nodupb (l : list (nat * nat * nat * nat)) : bool :=
  match l with
  | [] => true
  | x :: r => negb (existsb (quad_eqb x) r) && nodupb r
  end.
