(** DispatchGenBoss.v -- the worker pool of MPIMaster(comm, ntasks, include_boss) for a boss on ANY rank of the communicator (C16).

    PV.Dispatch models the documented usage, in which the master is constructed on rank 0 (mpi_skel::run; the master-only loop of
    test/mpi_dispatcher_test_nomaster.cpp).  The interface itself takes any rank as the boss: _autorange_workers reads comm.rank()
    of the constructing process.  The statements below are about the GENERATED description of _autorange_workers
    (coq/gen/Gen_DispAutorange.v, regenerated from src/mpi_dispatcher/mpi_dispatcher.cpp on every run) evaluated at an arbitrary
    boss rank r < size:

      - the pool has no duplicates and only ranks of the communicator,
      - it contains the boss exactly when include_boss is set, and every other rank always,
      - its length is the number Nprocs the same function computes (so "No workers to evaluate" is thrown exactly for the empty pool),
      - for r = 0 it is the pool of PV.Dispatch.

    No axioms. *)
Require Import List Arith Bool PeanoNat Lia.
From PV Require Import Dispatch DispatchShapes DispatchGen DispatchGenProofs.
From PVgen Require Import Gen_DispAutorange.
Import ListNotations.

(** the pool built by the process of rank [r] (the boss) *)
Definition pool_at_src (r : nat) (c : cfg) : list wid :=
  match gen_autorange_item with
  | ArLoopVariable => filter (gen_autorange_keep (ib c) r) (gen_autorange_positions (np c))
  | ArItemUnrecognised => []
  end.

Lemma pool_at_src_unfold : forall r c,
  pool_at_src r c = filter (fun p => ib c || negb (r =? p)) (seq 0 (np c)).
Proof.
  intros r c. unfold pool_at_src. destruct gen_autorange_is_model as [_ [_ [E3 [E4 E5]]]]. rewrite E3, E4, E5. reflexivity.
Qed.

Lemma pool_at_src_root : forall c, pool_at_src 0 c = pool_src c.
Proof. intros c. reflexivity. Qed.

Lemma pool_at_src_nodup : forall r c, NoDup (pool_at_src r c).
Proof. intros r c. rewrite pool_at_src_unfold. apply NoDup_filter, seq_NoDup. Qed.

Lemma pool_at_src_in : forall r c p,
  In p (pool_at_src r c) <-> p < np c /\ (ib c = true \/ p <> r).
Proof.
  intros r c p. rewrite pool_at_src_unfold, filter_In, in_seq. split.
  - intros [[_ Hp] Hk]. split; [lia|]. destruct (ib c); [left; reflexivity|right].
    cbn [orb] in Hk. apply negb_true_iff, Nat.eqb_neq in Hk. intros E. apply Hk. symmetry. exact E.
  - intros [Hp [Hb|Hn]]; (split; [lia|]).
    + rewrite Hb. reflexivity.
    + apply orb_true_iff. right. apply negb_true_iff, Nat.eqb_neq. intros E. apply Hn. symmetry. exact E.
Qed.

Lemma length_filter_skip : forall m a r,
  length (filter (fun p => negb (r =? p)) (seq a m)) = if (a <=? r) && (r <? a + m) then m - 1 else m.
Proof.
  induction m as [|m IH]; intros a r.
  - cbn [seq filter length]. destruct ((a <=? r) && (r <? a + 0)); reflexivity.
  - cbn [seq filter]. destruct (Nat.eqb_spec r a) as [E|E].
    + subst a. cbn [negb]. rewrite (IH (S r) r).
      replace (S r <=? r) with false by (symmetry; apply Nat.leb_gt; lia). cbn [andb].
      replace (r <=? r) with true by (symmetry; apply Nat.leb_le; lia).
      replace (r <? r + S m) with true by (symmetry; apply Nat.ltb_lt; lia). cbn [andb]. lia.
    + cbn [negb length]. rewrite (IH (S a) r).
      destruct (Nat.leb_spec (S a) r) as [H1|H1]; destruct (Nat.ltb_spec r (S a + m)) as [H2|H2]; cbn [andb];
      destruct (Nat.leb_spec a r) as [H3|H3]; destruct (Nat.ltb_spec r (a + S m)) as [H4|H4]; cbn [andb]; lia.
Qed.

Lemma pool_at_src_length : forall r c, r < np c ->
  length (pool_at_src r c) = gen_autorange_nprocs (np c) (ib c).
Proof.
  intros r c Hr. rewrite pool_at_src_unfold. destruct gen_autorange_is_model as [E1 _]. rewrite E1.
  destruct (ib c); cbn [orb negb].
  - rewrite filter_true, seq_length. lia.
  - rewrite length_filter_skip. replace (0 <=? r) with true by (symmetry; apply Nat.leb_le; lia).
    replace (r <? 0 + np c) with true by (symmetry; apply Nat.ltb_lt; lia). reflexivity.
Qed.

(** "No workers to evaluate" is thrown exactly when the pool the boss would build is empty *)
Lemma pool_at_src_throws : forall r c, r < np c ->
  gen_autorange_throws (gen_autorange_nprocs (np c) (ib c)) = true <-> pool_at_src r c = [].
Proof.
  intros r c Hr. destruct gen_autorange_is_model as [_ [E2 _]]. rewrite E2, Nat.eqb_eq, <- (pool_at_src_length r c Hr).
  split; [apply length_zero_iff_nil | intros ->; reflexivity].
Qed.

Theorem pool_any_boss : forall r c, r < np c ->
  NoDup (pool_at_src r c) /\
  (forall p, In p (pool_at_src r c) <-> p < np c /\ (ib c = true \/ p <> r)) /\
  length (pool_at_src r c) = gen_autorange_nprocs (np c) (ib c) /\
  (gen_autorange_throws (gen_autorange_nprocs (np c) (ib c)) = true <-> pool_at_src r c = nil).
Proof.
  intros r c Hr. split; [apply pool_at_src_nodup|]. split; [intros p; apply pool_at_src_in|].
  split; [apply pool_at_src_length; exact Hr | apply pool_at_src_throws; exact Hr].
Qed.

Theorem pool_root_boss : forall c, pool_at_src 0 c = pool_src c /\ pool_src c = pool c.
Proof. intros c. split; [apply pool_at_src_root | apply pool_src_is_model]. Qed.

(** a dedicated boss (include_boss = false) on rank r of a communicator with at least two ranks: the pool is everybody else *)
Example pool_last_rank_boss : pool_at_src 3 (mkcfg 4 false) = [0; 1; 2] /\ pool_at_src 1 (mkcfg 4 false) = [0; 2; 3]
                              /\ pool_at_src 2 (mkcfg 3 true) = [0; 1; 2].
Proof. repeat split; reflexivity. Qed.
