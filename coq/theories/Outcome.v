(** Outcomes of modelled C++ routines: a normal result, or one of the explicit
    failure kinds that a theorem has to exclude (DESIGN.md section 3). *)
Require Import ZArith Bool List.
Local Open Scope Z_scope.

Inductive outcome (A : Type) : Type :=
| Done (a : A)
| OOB          (* read or write outside an allocated object *)
| Uninit       (* read of a cell that was never written *)
| Throws (code : nat)   (* a C++ exception; code identifies the exception class *)
| OutOfFuel.   (* the model's loop fuel ran out: never a legitimate result *)

Arguments Done {A} a.
Arguments OOB {A}.
Arguments Uninit {A}.
Arguments Throws {A} code.
Arguments OutOfFuel {A}.

Definition bind {A B} (x : outcome A) (f : A -> outcome B) : outcome B :=
  match x with
  | Done a => f a
  | OOB => OOB
  | Uninit => Uninit
  | Throws c => Throws c
  | OutOfFuel => OutOfFuel
  end.

Definition inb (i n : Z) : bool := (0 <=? i) && (i <? n).

(** [for (i = lo; cond i; ++i) body] with explicit fuel. *)
Fixpoint loop_up {S : Type} (fuel : nat) (i : Z) (cond : Z -> bool)
         (body : Z -> S -> outcome S) (s : S) : outcome S :=
  if cond i then
    match fuel with
    | O => OutOfFuel
    | Datatypes.S f =>
      match body i s with
      | Done s' => loop_up f (i + 1) cond body s'
      | OOB => OOB
      | Uninit => Uninit
      | Throws c => Throws c
      | OutOfFuel => OutOfFuel
      end
    end
  else Done s.
