(** C12 -- the all-M theorems over Coquelicot's complex numbers, without side conditions:
    for ANY list of real levels (degenerate, zero, opposite ones included), x_i = e^{-beta eps_i}, beta > 0 and
    fermionic Matsubara frequencies every point is regular (WickC.regular_C for every pair of modes), so
    G_ij(i omega_n) = delta_ij / (i omega_n - eps_i) and Vertex4::value = 0 for every number of modes M >= 1,
    every index quadruple and every triple of Matsubara numbers.  Uses the classical real axioms (as WickC.v). *)
Require Import Reals List ZArith Bool Arith Lia Lra.
From Coquelicot Require Import Coquelicot.
From PV Require Import Outcome Fock Poly EDSpec Matsubara4Spec Wick WickProofs WickMain WickC WickAllM WickAllMChi WickAllMMain.
From PVgen Require Import Gen_Vertex4.
Import ListNotations.
Local Open Scope R_scope.

Definition levelsC (es : list R) : list C := map RtoC es.
Definition boltzC (beta : R) (es : list R) : list C := map (fun e => RtoC (exp (- beta * e))) es.

Lemma nth_levelsC : forall es a, nth a (levelsC es) (RtoC 0) = RtoC (nth a es 0).
Proof. intros es a. unfold levelsC. apply (map_nth RtoC). Qed.

Lemma nth_boltzC : forall beta es a, (a < length es)%nat ->
  nth a (boltzC beta es) (RtoC 0) = RtoC (exp (- beta * nth a es 0)).
Proof.
  intros beta es a H. unfold boltzC.
  rewrite (nth_indep _ (RtoC 0) ((fun e => RtoC (exp (- beta * e))) 0)) by (now rewrite map_length).
  apply (map_nth (fun e => RtoC (exp (- beta * e)))).
Qed.

(** every physical point is regular, for every number of modes *)
Theorem regularM_C : forall (es : list R) (beta : R) (n1 n2 n3 : Z), 0 < beta ->
  regularM CSetting (levelsC es) (boltzC beta es) (zfC beta n1) (zfC beta n2) (zfC beta n3).
Proof.
  intros es beta n1 n2 n3 Hb. split; [|split].
  - unfold levelsC, boltzC. now rewrite !map_length.
  - intros x Hx. unfold boltzC in Hx. apply in_map_iff in Hx. destruct Hx as [e [Hx _]]. subst x.
    intro E. apply (f_equal fst) in E. simpl in E. pose proof (exp_pos (- beta * e)). lra.
  - intros a b Ha Hb'. unfold levelsC in Ha, Hb'. rewrite map_length in Ha, Hb'.
    change (f0 CSetting) with (RtoC 0). rewrite !nth_levelsC, !nth_boltzC by assumption.
    now apply regular_C.
Qed.

Theorem free_gf_diag_allM_C : forall (es : list R) (beta : R) (i j : nat) (n : Z),
  0 < beta -> (i < length es)%nat -> (j < length es)%nat ->
  GmnM CSetting (zfC beta) (levelsC es) (boltzC beta es) i j n =
  if Nat.eqb i j then Cdiv (RtoC 1) (Cminus (zfC beta n) (RtoC (nth i es 0))) else RtoC 0.
Proof.
  intros es beta i j n Hb Hi Hj.
  assert (HL : length (levelsC es) = length es) by (unfold levelsC; now rewrite map_length).
  pose proof (regularM_C es beta n n n Hb) as Hreg.
  assert (Hi' : (i < length (levelsC es))%nat) by (rewrite HL; assumption).
  assert (Hj' : (j < length (levelsC es))%nat) by (rewrite HL; assumption).
  destruct (GmnM_free CSetting (levelsC es) (boltzC beta es) _ _ _ i j Hreg Hi' Hj') as [G _].
  unfold GmnM. rewrite G. unfold gfree. destruct (Nat.eqb i j); [|reflexivity].
  change (f0 CSetting) with (RtoC 0). now rewrite nth_levelsC.
Qed.

Theorem free_vertex_zero_diag_allM_C : forall (es : list R) (beta : R) (i j k l : nat) (n1 n2 n3 : Z),
  0 < beta -> (i < length es)%nat -> (j < length es)%nat -> (k < length es)%nat -> (l < length es)%nat ->
  let eps := levelsC es in let xs := boltzC beta es in
  vertex_value C Cplus Cminus Cmult (RtoC beta)
     (Chi4M CSetting (zfC beta) (RtoC beta) eps xs i j k l)
     (GmnM CSetting (zfC beta) eps xs i k) (GmnM CSetting (zfC beta) eps xs j l)
     (GmnM CSetting (zfC beta) eps xs i l) (GmnM CSetting (zfC beta) eps xs j k) n1 n2 n3 = RtoC 0.
Proof.
  intros es beta i j k l n1 n2 n3 Hb Hi Hj Hk Hl. cbv zeta.
  assert (HL : length (levelsC es) = length es) by (unfold levelsC; now rewrite map_length).
  apply (free_vertex_zero_diag_allM CSetting (zfC beta) (zfC_inj beta Hb));
    try (change (fK CSetting) with C; rewrite HL; first [assumption | lia]).
  now apply regularM_C.
Qed.
