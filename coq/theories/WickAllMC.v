(** C12 -- the all-M theorems over Coquelicot's complex numbers, without side conditions:
    for ANY list of real levels (degenerate, zero, opposite ones included), x_i = e^{-beta eps_i}, beta > 0 and
    fermionic Matsubara frequencies every point is regular (WickC.regular_C for every pair of modes), so
    G_ij(i omega_n) = delta_ij / (i omega_n - eps_i) and Vertex4::value = 0 for every number of modes M >= 1,
    every index quadruple and every triple of Matsubara numbers.  Uses the classical real axioms (as WickC.v). *)
Require Import Reals List ZArith Bool Arith Lia Lra.
From Coquelicot Require Import Coquelicot.
From PV Require Import Outcome Fock Poly EDSpec Matsubara4Spec Wick WickProofs WickMain WickC WickAllM WickAllMChi WickAllMMain.
From PVgen Require Import Gen_Vertex4.
Import ListNotations.
Local Open Scope R_scope.

Definition levelsC (es : list R) : list C := map RtoC es.
Definition boltzC (beta : R) (es : list R) : list C := map (fun e => RtoC (exp (- beta * e))) es.

Lemma nth_levelsC : forall es a, nth a (levelsC es) (RtoC 0) = RtoC (nth a es 0).
Proof. intros es a. unfold levelsC. apply (map_nth RtoC). Qed.

Lemma nth_boltzC : forall beta es a, (a < length es)%nat ->
  nth a (boltzC beta es) (RtoC 0) = RtoC (exp (- beta * nth a es 0)).
Proof.
  intros beta es a H. unfold boltzC.
  rewrite (nth_indep _ (RtoC 0) ((fun e => RtoC (exp (- beta * e))) 0)) by (now rewrite map_length).
  apply (map_nth (fun e => RtoC (exp (- beta * e)))).
Qed.

(** every physical point is regular, for every number of modes *)
Theorem regularM_C : forall (es : list R) (beta : R) (n1 n2 n3 : Z), 0 < beta ->
  regularM CSetting (levelsC es) (boltzC beta es) (zfC beta n1) (zfC beta n2) (zfC beta n3).
Proof.
  intros es beta n1 n2 n3 Hb. split; [|split].
  - unfold levelsC, boltzC. now rewrite !map_length.
  - intros x Hx. unfold boltzC in Hx. apply in_map_iff in Hx. destruct Hx as [e [Hx _]]. subst x.
    intro E. apply (f_equal fst) in E. simpl in E. pose proof (exp_pos (- beta * e)). lra.
  - intros a b Ha Hb'. unfold levelsC in Ha, Hb'. rewrite map_length in Ha, Hb'.
    change (f0 CSetting) with (RtoC 0). rewrite !nth_levelsC, !nth_boltzC by assumption.
    now apply regular_C.
Qed.

Theorem free_gf_diag_allM_C : forall (es : list R) (beta : R) (i j : nat) (n : Z),
  0 < beta -> (i < length es)%nat -> (j < length es)%nat ->
  GmnM CSetting (zfC beta) (levelsC es) (boltzC beta es) i j n =
  if Nat.eqb i j then Cdiv (RtoC 1) (Cminus (zfC beta n) (RtoC (nth i es 0))) else RtoC 0.
Proof.
  intros es beta i j n Hb Hi Hj.
  assert (HL : length (levelsC es) = length es) by (unfold levelsC; now rewrite map_length).
  pose proof (regularM_C es beta n n n Hb) as Hreg.
  assert (Hi' : (i < length (levelsC es))%nat) by (rewrite HL; assumption).
  assert (Hj' : (j < length (levelsC es))%nat) by (rewrite HL; assumption).
  destruct (GmnM_free CSetting (levelsC es) (boltzC beta es) _ _ _ i j Hreg Hi' Hj') as [G _].
  unfold GmnM. rewrite G. unfold gfree. destruct (Nat.eqb i j); [|reflexivity].
  change (f0 CSetting) with (RtoC 0). now rewrite nth_levelsC.
Qed.

Theorem free_vertex_zero_diag_allM_C : forall (es : list R) (beta : R) (i j k l : nat) (n1 n2 n3 : Z),
  0 < beta -> (i < length es)%nat -> (j < length es)%nat -> (k < length es)%nat -> (l < length es)%nat ->
  let eps := levelsC es in let xs := boltzC beta es in
  vertex_value C Cplus Cminus Cmult (RtoC beta)
     (Chi4M CSetting (zfC beta) (RtoC beta) eps xs i j k l)
     (GmnM CSetting (zfC beta) eps xs i k) (GmnM CSetting (zfC beta) eps xs j l)
     (GmnM CSetting (zfC beta) eps xs i l) (GmnM CSetting (zfC beta) eps xs j k) n1 n2 n3 = RtoC 0.
Proof.
  intros es beta i j k l n1 n2 n3 Hb Hi Hj Hk Hl. cbv zeta.
  assert (HL : length (levelsC es) = length es) by (unfold levelsC; now rewrite map_length).
  apply (free_vertex_zero_diag_allM CSetting (zfC beta) (zfC_inj beta Hb));
    try (change (fK CSetting) with C; rewrite HL; first [assumption | lia]).
  now apply regularM_C.
Qed.

(** * The Gibbs table of PV.Wick is what the specification's weight function PV.EDSpec.weights computes from the
      energy table (number type with the real ordering and the real exponential, WickC.CNumR), for every number
      of real levels, whatever reference energy the function subtracts. *)
Section CancelDiv.
Variable F : fsetting.
Add Field Ffield_AllMC : (fKf F).
Lemma cancel_div : forall t w z : fK F, t <> f0 F -> z <> f0 F ->
  fdiv F (fmul F t w) (fmul F t z) = fdiv F w z.
Proof. intros t w z Ht Hz. field. split; assumption. Qed.
End CancelDiv.

Fixpoint ER (es : list R) (s : state) : R :=
  match es, s with e :: es', b :: s' => (if b then e else 0) + ER es' s' | _, _ => 0 end.

Lemma Est_levelsC : forall es s, Est CSetting (levelsC es) s = RtoC (ER es s).
Proof.
  induction es as [|e es IH]; intros [|b s]; try reflexivity.
  unfold levelsC in *. cbn [map Est ER]. rewrite IH. cbn [fK f0 fadd CSetting].
  destruct b; now rewrite RtoC_plus.
Qed.

Lemma Wst_boltzC : forall beta es s, Wst CSetting (boltzC beta es) s = RtoC (exp (- beta * ER es s)).
Proof.
  intros beta. induction es as [|e es IH]; intros [|b s]; cbn [boltzC map Wst ER];
    try (rewrite Rmult_0_r, exp_0; reflexivity).
  fold (boltzC beta es). rewrite IH. cbn [fK f1 fmul CSetting]. destruct b.
  - rewrite <- RtoC_mult, <- exp_plus.
    replace (- beta * e + - beta * ER es s) with (- beta * (e + ER es s)) by ring. reflexivity.
  - rewrite <- RtoC_mult. replace (0 + ER es s) with (ER es s) by ring. now rewrite Rmult_1_l.
Qed.

Theorem weights_is_gibbs_allM : forall (beta : R) (es : list R),
  weights C CNumR (RtoC beta) (energies CSetting (levelsC es)) = gibbs CSetting (boltzC beta es).
Proof.
  intros beta es. unfold weights. set (e0 := min_re C CNumR (energies CSetting (levelsC es))). clearbody e0.
  destruct e0 as [a0 b0]. cbv zeta.
  set (M := length es).
  assert (HLe : @length (fK CSetting) (levelsC es) = M) by (unfold levelsC; now rewrite map_length).
  assert (HLx : @length (fK CSetting) (boltzC beta es) = M) by (unfold boltzC; now rewrite map_length).
  set (t := exp (beta * a0)). assert (Ht : RtoC t <> RtoC 0).
  { intro E. apply (f_equal fst) in E. simpl in E. pose proof (exp_pos (beta * a0)). unfold t in E. lra. }
  assert (HZ : Zp CSetting (boltzC beta es) <> RtoC 0).
  { apply (Zp_nz CSetting). intros x Hx. unfold boltzC in Hx. apply in_map_iff in Hx. destruct Hx as [e [Hx _]]. subst x.
    intro E. apply (f_equal fst) in E. simpl in E. pose proof (exp_pos (- beta * e)). lra. }
  (* the unnormalised weights, entry by entry *)
  assert (HU : map (fun e => nexp C CNumR (nopp C CNumR (nmul C CNumR (RtoC beta) (nsub C CNumR e (a0, b0)))))
                   (energies CSetting (levelsC es)) =
               map (fun n => Cmult (RtoC t) (Wst CSetting (boltzC beta es) (state_of_nat M n))) (seq 0 (Nat.pow 2 M))).
  { unfold energies at 1. rewrite HLe, map_map. apply map_ext_in. intros n Hn.
    apply in_seq in Hn.
    assert (E1 : fold_left (fun acc ie => if bit n (fst ie) then fadd CSetting acc (snd ie) else acc)
                           (@idx (fK CSetting) (levelsC es)) (f0 CSetting) = RtoC (ER es (state_of_nat M n))).
    { rewrite <- Est_levelsC. rewrite <- (energies_nth CSetting (levelsC es) (state_of_nat M n))
        by (now rewrite son_length).
      rewrite nos_son by lia. unfold energies. rewrite HLe.
      now rewrite nth_map_seq by lia. }
    rewrite E1, Wst_boltzC. cbn [nexp nopp nmul nsub CNumR]. rewrite <- RtoC_mult. f_equal.
    unfold t. rewrite <- exp_plus. f_equal. simpl. ring. }
  rewrite HU.
  assert (HS : ksum C CNumR (map (fun n => Cmult (RtoC t) (Wst CSetting (boltzC beta es) (state_of_nat M n)))
                                (seq 0 (Nat.pow 2 M))) (fun x => x) =
               Cmult (RtoC t) (Zp CSetting (boltzC beta es))).
  { change (@ksum C CNumR C) with (@ksum (fK CSetting) (FNum CSetting) (fK CSetting)).
    rewrite (ksum_lsum CSetting), (lsum_map CSetting).
    change (lsum CSetting (seq 0 (Nat.pow 2 M)) (fun n => Cmult (RtoC t) (Wst CSetting (boltzC beta es) (state_of_nat M n))))
      with (SS CSetting M (fun s => fmul CSetting (RtoC t) (Wst CSetting (boltzC beta es) s))).
    rewrite (SS_scal CSetting). rewrite <- HLx at 1. now rewrite (SS_Wst CSetting). }
  rewrite HS. unfold gibbs. cbv zeta. rewrite HLx, map_map. apply map_ext_in. intros n Hn.
  apply in_seq in Hn.
  assert (E2 : fdiv CSetting
                 (fold_left (fun acc ix => if bit n (fst ix) then fmul CSetting acc (snd ix) else acc) (@idx (fK CSetting) (boltzC beta es)) (f1 CSetting))
                 (fold_left (fun acc x => fmul CSetting acc (fadd CSetting (f1 CSetting) x)) (boltzC beta es) (f1 CSetting)) =
               fdiv CSetting (Wst CSetting (boltzC beta es) (state_of_nat M n)) (Zp CSetting (boltzC beta es))).
  { rewrite <- (gibbs_nth CSetting (boltzC beta es) (state_of_nat M n)) by (now rewrite son_length).
    rewrite nos_son by lia. unfold gibbs. cbv zeta. rewrite HLx.
    now rewrite nth_map_seq by lia. }
  rewrite E2. exact (cancel_div CSetting _ _ _ Ht HZ).
Qed.
