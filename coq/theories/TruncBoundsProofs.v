(** TruncBoundsProofs.v -- C19: linear-in-eps bounds for the two-particle Green's function and the dynamical
    susceptibility under block truncation, about the full-space specification PV.EDSpec instantiated at
    Coquelicot's complex numbers (GFIdentities.CNum) and masked as in PV.TruncBounds.

    Results (statements repeated in props/Properties_C19.v):
      phi_term_bound            |phi_ijkl| <= W (4/m^3 + 2 beta/m^2) for weights in [0, W] in the Gibbs ratio,
                                purely imaginary frequencies with |Im| >= m (also |Im(z1+z2+z3)| >= m)
      phi_term_bound_fermi      the same at fermionic Matsubara frequencies: m = pi/beta
      chain_count               sum over all 4-chains of |A_ij B_jk C_kl D_li| <= (|A|_F^2 |C|_F^2 + |B|_F^2 |D|_F^2)/2
      tpgf_truncation_bound     |chi4_trunc - chi4| <= 6 F^2 beta^3 (4/pi^3 + 2/pi^2) eps,  F >= squared Frobenius norms
      tpgf_truncation_bound_half_dim   ... <= dim^2 beta^3 eps / 2 when F = dim/2 (c, c^+ in an orthonormal basis)
      susc_spec_truncation_bound       |chi_trunc(z) - chi(z)| <= beta eps (|A|_F^2 + |B|_F^2)/2 for Re z = 0
    Axioms: the classical axioms of the standard library's real numbers only (Print Assumptions in the props file). *)
Require Import Reals Bool List Arith ZArith Lra Lia Psatz Machin.
From Coquelicot Require Import Complex.
From PV Require Import Outcome EDSpec GFIdentities TermIntegrals Thermal ThermalSpec ThermalProofs TruncBounds.
Import ListNotations.
Local Open Scope R_scope.

(** * 0. Constants *)

Lemma PI_gt_314 : 3.14 < PI.
Proof.
  pose proof (PI_2_3_7_ineq 1) as [L _].
  unfold PI_2_3_7_tg, tg_alt, Ratan_seq in L. simpl in L. lra.
Qed.

(** the constant of the kernel bound: 4/pi^3 + 2/pi^2 = 0.3316... *)
Definition kpi : R := 4 / (PI * PI * PI) + 2 / (PI * PI).
Lemma kpi_le_third : kpi <= 1 / 3.
Proof.
  unfold kpi. pose proof PI_gt_314 as H.
  assert (P2 : 3.14 * 3.14 < PI * PI) by nra.
  assert (P3 : 3.14 * 3.14 * 3.14 < PI * PI * PI) by nra.
  assert (A : 4 / (PI * PI * PI) <= 4 / (3.14 * 3.14 * 3.14)).
  { unfold Rdiv. apply Rmult_le_compat_l; [lra|]. apply Rinv_le_contravar; lra. }
  assert (B : 2 / (PI * PI) <= 2 / (3.14 * 3.14)).
  { unfold Rdiv. apply Rmult_le_compat_l; [lra|]. apply Rinv_le_contravar; lra. }
  lra.
Qed.
Lemma kpi_pos : 0 < kpi.
Proof.
  unfold kpi. pose proof PI_RGT_0 as P.
  assert (0 < PI * PI) by nra. assert (0 < PI * PI * PI) by nra.
  assert (0 < 4 / (PI * PI * PI)) by (apply Rdiv_lt_0_compat; lra).
  assert (0 < 2 / (PI * PI)) by (apply Rdiv_lt_0_compat; lra). lra.
Qed.

(** * 1. Complex numbers: quotients *)

Lemma Cinv_0 : Cinv (RtoC 0) = RtoC 0.
Proof. unfold Cinv, RtoC. cbn [fst snd]. f_equal; unfold Rdiv; ring. Qed.
Lemma Cdiv_0_r (x : C) : Cdiv x (RtoC 0) = RtoC 0.
Proof. unfold Cdiv. rewrite Cinv_0. ring. Qed.

Lemma Cmod_Cdiv_le (a b : C) (A B : R) : Cmod a <= A -> 0 < B -> B <= Cmod b -> Cmod (Cdiv a b) <= A / B.
Proof.
  intros Ha HB Hb. pose proof (Cmod_ge_0 a) as Pa.
  assert (Nb : b <> RtoC 0). { intros E. rewrite E, Cmod_0 in Hb. lra. }
  rewrite Cmod_div by exact Nb. unfold Rdiv.
  apply Rmult_le_compat; [exact Pa|left; apply Rinv_0_lt_compat; lra|exact Ha|apply Rinv_le_contravar; lra].
Qed.

Lemma Cmod_ge_im (u : C) : Rabs (snd u) <= Cmod u.
Proof. eapply Rle_trans; [|apply Rmax_Cmod]. apply Rmax_r. Qed.
Lemma Cmod_ge_re (u : C) : Rabs (fst u) <= Cmod u.
Proof. eapply Rle_trans; [|apply Rmax_Cmod]. apply Rmax_l. Qed.

Lemma Cmod_minus_triangle (a b : C) : Cmod (Cminus a b) <= Cmod a + Cmod b.
Proof. unfold Cminus. eapply Rle_trans; [apply Cmod_triangle|]. rewrite Cmod_opp. lra. Qed.

Lemma Cmod_RtoC_minus (a b : R) : Cmod (Cminus (RtoC a) (RtoC b)) = Rabs (a - b).
Proof. rewrite <- RtoC_minus. apply Cmod_R. Qed.
Lemma Cmod_RtoC_plus (a b : R) : Cmod (Cplus (RtoC a) (RtoC b)) = Rabs (a + b).
Proof. rewrite <- RtoC_plus. apply Cmod_R. Qed.

(** the "bosonic" quotient (w_k - w_i)/(z + E_i - E_k) for Gibbs weights and Re z = 0 is at most beta max(w) in modulus;
    when the denominator vanishes the quotient is 0 in Coq (x/0 = 0) and nothing has to be assumed *)
Lemma gibbs_quotient_bound (beta Ei Ek wi wk W : R) (u : C) :
  0 <= beta -> 0 <= wi <= W -> 0 <= wk <= W -> wk = wi * exp (- beta * (Ek - Ei)) -> fst u = Ei - Ek ->
  Cmod (Cdiv (Cminus (RtoC wk) (RtoC wi)) u) <= beta * W.
Proof.
  intros Hb Hi Hk G Hu.
  assert (P0 : 0 <= beta * W) by (apply Rmult_le_pos; lra).
  destruct (Ceq_dec u (RtoC 0)) as [E|N].
  - rewrite E, Cdiv_0_r, Cmod_0. exact P0.
  - assert (Pu : 0 < Cmod u) by (apply Cmod_gt_0; exact N).
    rewrite Cmod_div by exact N. rewrite Cmod_RtoC_minus, Rabs_minus_sym.
    pose proof (gibbs_weight_difference beta (Ek - Ei) wi wk Hb (proj1 Hi) (proj1 Hk) G) as D.
    assert (Mx : Rmax wi wk <= W) by (apply Rmax_lub; lra).
    assert (Pu2 : Rabs (Ek - Ei) <= Cmod u).
    { rewrite Rabs_minus_sym, <- Hu. apply Cmod_ge_re. }
    assert (Q : Rabs (wi - wk) <= beta * W * Cmod u).
    { eapply Rle_trans; [exact D|].
      apply Rle_trans with (beta * Rabs (Ek - Ei) * W).
      - apply Rmult_le_compat_l; [apply Rmult_le_pos; [lra|apply Rabs_pos]|exact Mx].
      - replace (beta * Rabs (Ek - Ei) * W) with (beta * W * Rabs (Ek - Ei)) by ring.
        apply Rmult_le_compat_l; [exact P0|exact Pu2]. }
    unfold Rdiv. replace (beta * W) with (beta * W * Cmod u * / Cmod u) by (field; lra).
    apply Rmult_le_compat_r; [left; apply Rinv_0_lt_compat; exact Pu|exact Q].
Qed.

(** * 2. The kernel phi of doc/gamma4.tex (EDSpec.phi at CNum): bound of one term *)

Notation phiC := (EDSpec.phi C CNum).

Lemma snd_shift (z : C) (a b : R) : snd (Cminus (Cplus z (RtoC a)) (RtoC b)) = snd z.
Proof. destruct z as [x y]. cbn. ring. Qed.
Lemma fst_shift (z : C) (a b : R) : fst (Cminus (Cplus z (RtoC a)) (RtoC b)) = fst z + a - b.
Proof. destruct z as [x y]. cbn. ring. Qed.

(** the shape of phi: two triple fractions and two "bosonic" quotients over d1 d3; the Booleans are the resonance tests *)
Lemma phi_shape (beta tol Ei Ej Ek El wi wj wk wl z1 z2 z3 : C) :
  exists b12 b23 : bool,
    phiC beta tol Ei Ej Ek El wi wj wk wl z1 z2 z3 =
    let d1 := Cminus (Cplus z1 Ei) Ej in
    let d3 := Cminus (Cplus z3 Ek) El in
    let d123 := Cminus (Cplus (Cplus (Cplus z1 z2) z3) Ei) El in
    let d2 := Cminus (Cplus z2 Ej) Ek in
    let r12 := if b12 then Cmult beta wi else Cdiv (Cminus wk wi) (Cminus (Cplus (Cplus z1 z2) Ei) Ek) in
    let r23 := if b23 then Cmult beta wj else Cdiv (Cminus wl wj) (Cminus (Cplus (Cplus z2 z3) Ej) El) in
    Cminus (Cplus (Cminus (Cdiv (Cplus wi wl) (Cmult (Cmult d1 d123) d3)) (Cdiv (Cplus wj wk) (Cmult (Cmult d1 d2) d3)))
                  (Cdiv r12 (Cmult d1 d3)))
           (Cdiv r23 (Cmult d1 d3)).
Proof. eexists. eexists. unfold EDSpec.phi. cbn [CNum nadd nsub nmul ndiv]. reflexivity. Qed.

Lemma Cmod_prod3_ge (a b c : C) (m : R) : 0 < m -> m <= Cmod a -> m <= Cmod b -> m <= Cmod c ->
  m * m * m <= Cmod (Cmult (Cmult a b) c).
Proof.
  intros Hm Ha Hb Hc. rewrite !Cmod_mult.
  apply Rmult_le_compat; [apply Rmult_le_pos; lra|lra| |exact Hc].
  apply Rmult_le_compat; lra.
Qed.
Lemma Cmod_prod2_ge (a b : C) (m : R) : 0 < m -> m <= Cmod a -> m <= Cmod b -> m * m <= Cmod (Cmult a b).
Proof. intros Hm Ha Hb. rewrite Cmod_mult. apply Rmult_le_compat; lra. Qed.

(** |phi_ijkl(z1,z2,z3)| <= W (4/m^3 + 2 beta/m^2):
    frequencies purely imaginary, each with |Im| >= m and |Im (z1+z2+z3)| >= m (so that every "fermionic" factor
    z + (energy difference) has modulus >= m); the four weights in [0, W]; w_k/w_i and w_l/w_j in the Gibbs ratio. *)
Theorem phi_term_bound (beta m W : R) (tol z1 z2 z3 : C) (Ei Ej Ek El wi wj wk wl : R) :
  0 <= beta -> 0 < m ->
  fst z1 = 0 -> fst z2 = 0 -> fst z3 = 0 ->
  m <= Rabs (snd z1) -> m <= Rabs (snd z2) -> m <= Rabs (snd z3) -> m <= Rabs (snd z1 + snd z2 + snd z3) ->
  0 <= wi <= W -> 0 <= wj <= W -> 0 <= wk <= W -> 0 <= wl <= W ->
  wk = wi * exp (- beta * (Ek - Ei)) -> wl = wj * exp (- beta * (El - Ej)) ->
  Cmod (phiC (RtoC beta) tol (RtoC Ei) (RtoC Ej) (RtoC Ek) (RtoC El) (RtoC wi) (RtoC wj) (RtoC wk) (RtoC wl) z1 z2 z3)
    <= W * (4 / (m * m * m) + 2 * beta / (m * m)).
Proof.
  intros Hb Hm R1 R2 R3 I1 I2 I3 I123 Wi Wj Wk Wl G12 G23.
  destruct (phi_shape (RtoC beta) tol (RtoC Ei) (RtoC Ej) (RtoC Ek) (RtoC El) (RtoC wi) (RtoC wj) (RtoC wk) (RtoC wl) z1 z2 z3)
    as [b12 [b23 ->]]. cbv zeta.
  set (d1 := Cminus (Cplus z1 (RtoC Ei)) (RtoC Ej)).
  set (d3 := Cminus (Cplus z3 (RtoC Ek)) (RtoC El)).
  set (d123 := Cminus (Cplus (Cplus (Cplus z1 z2) z3) (RtoC Ei)) (RtoC El)).
  set (d2 := Cminus (Cplus z2 (RtoC Ej)) (RtoC Ek)).
  assert (D1 : m <= Cmod d1).
  { eapply Rle_trans; [|apply Cmod_ge_im]. unfold d1. rewrite snd_shift. exact I1. }
  assert (D3 : m <= Cmod d3).
  { eapply Rle_trans; [|apply Cmod_ge_im]. unfold d3. rewrite snd_shift. exact I3. }
  assert (D2 : m <= Cmod d2).
  { eapply Rle_trans; [|apply Cmod_ge_im]. unfold d2. rewrite snd_shift. exact I2. }
  assert (D123 : m <= Cmod d123).
  { eapply Rle_trans; [|apply Cmod_ge_im]. unfold d123. rewrite snd_shift.
    destruct z1, z2, z3. cbn [snd Cplus] in *. exact I123. }
  assert (W0 : 0 <= W) by lra.
  assert (Pm2 : 0 < m * m) by nra. assert (Pm3 : 0 < m * m * m) by nra.
  assert (T1 : Cmod (Cdiv (Cplus (RtoC wi) (RtoC wl)) (Cmult (Cmult d1 d123) d3)) <= 2 * W / (m * m * m)).
  { apply Cmod_Cdiv_le; [|exact Pm3|apply Cmod_prod3_ge; assumption].
    rewrite Cmod_RtoC_plus, Rabs_pos_eq; lra. }
  assert (T2 : Cmod (Cdiv (Cplus (RtoC wj) (RtoC wk)) (Cmult (Cmult d1 d2) d3)) <= 2 * W / (m * m * m)).
  { apply Cmod_Cdiv_le; [|exact Pm3|apply Cmod_prod3_ge; assumption].
    rewrite Cmod_RtoC_plus, Rabs_pos_eq; lra. }
  assert (Q12 : Cmod (if b12 then Cmult (RtoC beta) (RtoC wi)
                      else Cdiv (Cminus (RtoC wk) (RtoC wi)) (Cminus (Cplus (Cplus z1 z2) (RtoC Ei)) (RtoC Ek))) <= beta * W).
  { destruct b12.
    - rewrite Cmod_mult, !Cmod_R, !Rabs_pos_eq by lra. apply Rmult_le_compat_l; lra.
    - apply (gibbs_quotient_bound beta Ei Ek wi wk W); try assumption.
      rewrite fst_shift. destruct z1, z2. cbn [fst Cplus] in *. subst. ring. }
  assert (Q23 : Cmod (if b23 then Cmult (RtoC beta) (RtoC wj)
                      else Cdiv (Cminus (RtoC wl) (RtoC wj)) (Cminus (Cplus (Cplus z2 z3) (RtoC Ej)) (RtoC El))) <= beta * W).
  { destruct b23.
    - rewrite Cmod_mult, !Cmod_R, !Rabs_pos_eq by lra. apply Rmult_le_compat_l; lra.
    - apply (gibbs_quotient_bound beta Ej El wj wl W); try assumption.
      rewrite fst_shift. destruct z2, z3. cbn [fst Cplus] in *. subst. ring. }
  set (r12 := if b12 then _ else _) in *. set (r23 := if b23 then _ else _) in *.
  assert (T3 : Cmod (Cdiv r12 (Cmult d1 d3)) <= beta * W / (m * m)).
  { apply Cmod_Cdiv_le; [exact Q12|exact Pm2|apply Cmod_prod2_ge; assumption]. }
  assert (T4 : Cmod (Cdiv r23 (Cmult d1 d3)) <= beta * W / (m * m)).
  { apply Cmod_Cdiv_le; [exact Q23|exact Pm2|apply Cmod_prod2_ge; assumption]. }
  eapply Rle_trans; [apply Cmod_minus_triangle|].
  eapply Rle_trans; [apply Rplus_le_compat_r; apply Cmod_triangle|].
  eapply Rle_trans; [apply Rplus_le_compat_r; apply Rplus_le_compat_r; apply Cmod_minus_triangle|].
  replace (W * (4 / (m * m * m) + 2 * beta / (m * m)))
    with (2 * W / (m * m * m) + 2 * W / (m * m * m) + beta * W / (m * m) + beta * W / (m * m)) by (field; lra).
  lra.
Qed.

(** ** fermionic Matsubara frequencies *)

Definition is_fermi (beta : R) (z : C) : Prop := exists n : Z, z = (0, fermi_freq beta n).

Lemma fermi_freq_abs_ge (beta : R) (n : Z) : 0 < beta -> PI / beta <= Rabs (fermi_freq beta n).
Proof.
  intros Hb. unfold fermi_freq. pose proof PI_RGT_0 as P.
  assert (Pq : 0 < PI / beta) by (apply Rdiv_lt_0_compat; lra).
  replace (IZR (2 * n + 1) * PI / beta) with (IZR (2 * n + 1) * (PI / beta)) by (field; lra).
  rewrite Rabs_mult, (Rabs_pos_eq (PI / beta)) by lra.
  rewrite <- abs_IZR.
  assert (1 <= IZR (Z.abs (2 * n + 1))) by (apply IZR_le; lia).
  nra.
Qed.

Lemma fermi_freq_sum3 (beta : R) (a b c : Z) : beta <> 0 ->
  fermi_freq beta a + fermi_freq beta b + fermi_freq beta c = fermi_freq beta (a + b + c + 1).
Proof.
  intros Hb. unfold fermi_freq.
  replace (2 * (a + b + c + 1) + 1)%Z with ((2 * a + 1) + (2 * b + 1) + (2 * c + 1))%Z by ring.
  rewrite !plus_IZR. field. exact Hb.
Qed.

Lemma is_fermi_opp (beta : R) (z : C) : beta <> 0 -> is_fermi beta z -> is_fermi beta (Copp z).
Proof.
  intros Hb [n ->]. exists (- n - 1)%Z. unfold Copp. cbn [fst snd]. f_equal; [ring|].
  unfold fermi_freq. replace (2 * (- n - 1) + 1)%Z with (- (2 * n + 1))%Z by ring. rewrite opp_IZR. field. exact Hb.
Qed.

Theorem phi_term_bound_fermi (beta W : R) (tol z1 z2 z3 : C) (Ei Ej Ek El wi wj wk wl : R) :
  0 < beta -> is_fermi beta z1 -> is_fermi beta z2 -> is_fermi beta z3 ->
  0 <= wi <= W -> 0 <= wj <= W -> 0 <= wk <= W -> 0 <= wl <= W ->
  wk = wi * exp (- beta * (Ek - Ei)) -> wl = wj * exp (- beta * (El - Ej)) ->
  Cmod (phiC (RtoC beta) tol (RtoC Ei) (RtoC Ej) (RtoC Ek) (RtoC El) (RtoC wi) (RtoC wj) (RtoC wk) (RtoC wl) z1 z2 z3)
    <= W * (beta * beta * beta * kpi).
Proof.
  intros Hb [n1 ->] [n2 ->] [n3 ->] Wi Wj Wk Wl G12 G23. pose proof PI_RGT_0 as P.
  assert (Pq : 0 < PI / beta) by (apply Rdiv_lt_0_compat; lra).
  eapply Rle_trans.
  - apply (phi_term_bound beta (PI / beta) W); try assumption; try reflexivity; try lra; cbn [snd].
    + apply fermi_freq_abs_ge; exact Hb.
    + apply fermi_freq_abs_ge; exact Hb.
    + apply fermi_freq_abs_ge; exact Hb.
    + rewrite fermi_freq_sum3 by lra. apply fermi_freq_abs_ge; exact Hb.
  - right. unfold kpi. field. split; lra.
Qed.

(** the same with the frequencies written out: z_k = i pi (2 n_k + 1)/beta, for every sign pattern that EDSpec.chi uses
    (it passes z1, z2, -z3 in the six orders; -z3 is again fermionic: [is_fermi_opp]) *)
Corollary phi_term_bound_matsubara (beta W : R) (tol : C) (n1 n2 n3 : Z) (Ei Ej Ek El wi wj wk wl : R) :
  0 < beta ->
  0 <= wi <= W -> 0 <= wj <= W -> 0 <= wk <= W -> 0 <= wl <= W ->
  wk = wi * exp (- beta * (Ek - Ei)) -> wl = wj * exp (- beta * (El - Ej)) ->
  Cmod (phiC (RtoC beta) tol (RtoC Ei) (RtoC Ej) (RtoC Ek) (RtoC El) (RtoC wi) (RtoC wj) (RtoC wk) (RtoC wl)
          (0, fermi_freq beta n1) (0, fermi_freq beta n2) (0, fermi_freq beta n3))
    <= W * (beta * beta * beta * (4 / (PI * PI * PI) + 2 / (PI * PI))).
Proof.
  intros Hb Wi Wj Wk Wl G12 G23. fold kpi.
  apply phi_term_bound_fermi; try assumption; eexists; reflexivity.
Qed.

(** * 3. Finite sums of complex numbers (EDSpec.ksum at CNum) *)

Notation ksumC := (EDSpec.ksum C CNum).

Lemma ksumC_acc {A} (l : list A) (f : A -> C) (x : C) :
  fold_left (fun acc a => Cplus acc (f a)) l x = Cplus x (csum f l).
Proof.
  revert x. induction l as [|a t IH]; intros x; cbn [fold_left csum]; [ring|]. rewrite IH. ring.
Qed.
Lemma ksumC_csum {A} (l : list A) (f : A -> C) : ksumC l f = csum f l.
Proof. unfold EDSpec.ksum. cbn [CNum nadd n0]. rewrite ksumC_acc. ring. Qed.

Lemma csum_minus {A} (f g : A -> C) (l : list A) : Cminus (csum f l) (csum g l) = csum (fun a => Cminus (f a) (g a)) l.
Proof. induction l as [|a t IH]; cbn [csum]; [ring|]. rewrite <- IH. ring. Qed.

Lemma Cmod_ksum_diff_le {A} (l : list A) (f g : A -> C) :
  Cmod (Cminus (ksumC l f) (ksumC l g)) <= lsum (fun a => Cmod (Cminus (f a) (g a))) l.
Proof. rewrite !ksumC_csum, csum_minus. apply Cmod_csum_le. Qed.

Lemma lsum_filter_le {A} (f : A -> R) (p : A -> bool) (l : list A) :
  (forall a, In a l -> 0 <= f a) -> lsum f (filter p l) <= lsum f l.
Proof.
  induction l as [|a t IH]; intros H; cbn [filter lsum]; [lra|].
  assert (0 <= f a) by (apply H; left; reflexivity).
  assert (lsum f (filter p t) <= lsum f t) by (apply IH; intros b Hb; apply H; right; exact Hb).
  destruct (p a); cbn [lsum]; lra.
Qed.

Lemma idx_enum {A} (l : list A) : idx l = enum l.
Proof. reflexivity. Qed.

Lemma in_enum_nth {A} (d : A) (l : list A) (x : nat * A) :
  In x (enum l) -> (fst x < length l)%nat /\ x = (fst x, nth (fst x) l d).
Proof.
  destruct x as [i a]. intros H. destruct (in_enum l i a H) as [L N]. cbn [fst]. split; [exact L|].
  f_equal. symmetry. apply nth_error_nth. exact N.
Qed.

(** one level of a Lehmann sum: all positions of a list of length n *)
Lemma idx_level_bound {A} (d : A) (l : list A) (n : nat) (f g : nat * A -> C) (H : nat -> R) :
  length l = n ->
  (forall j, (j < n)%nat -> Cmod (Cminus (f (j, nth j l d)) (g (j, nth j l d))) <= H j) ->
  Cmod (Cminus (ksumC (idx l) f) (ksumC (idx l) g)) <= lsum H (seq 0 n).
Proof.
  intros L Hf. eapply Rle_trans; [apply Cmod_ksum_diff_le|]. rewrite idx_enum.
  rewrite (lsum_enum_nth d), L. apply lsum_le. intros j Hj. apply in_seq in Hj. apply Hf. lia.
Qed.

(** one level restricted to the non-vanishing entries of a row *)
Lemma nz_level_bound (row : list C) (n : nat) (f g : nat * C -> C) (H : nat -> R) :
  length row = n ->
  (forall j, (j < n)%nat -> Cmod (Cminus (f (j, nth j row (RtoC 0))) (g (j, nth j row (RtoC 0)))) <= H j) ->
  (forall j, (j < n)%nat -> 0 <= H j) ->
  Cmod (Cminus (ksumC (nzrow C CNum row) f) (ksumC (nzrow C CNum row) g)) <= lsum H (seq 0 n).
Proof.
  intros L Hf Hn. eapply Rle_trans; [apply Cmod_ksum_diff_le|]. unfold nzrow. rewrite idx_enum.
  apply Rle_trans with (lsum (fun x => H (fst x)) (filter (fun jc => nre_ltb C CNum (n0 C CNum) (nabs C CNum (snd jc))) (enum row))).
  - apply lsum_le. intros x Hx. apply filter_In in Hx. destruct Hx as [Hx _].
    destruct (in_enum_nth (RtoC 0) row x Hx) as [Lx Ex]. rewrite Ex. cbn [fst]. apply Hf. lia.
  - eapply Rle_trans.
    + apply lsum_filter_le. intros x Hx. destruct (in_enum_nth (RtoC 0) row x Hx) as [Lx _]. apply Hn. lia.
    + rewrite (lsum_enum_nth (RtoC 0)), L. cbn [fst]. right. reflexivity.
Qed.

Lemma sq_row (n : nat) (O : list (list C)) (i : nat) : sq n O -> (i < n)%nat -> length (nth i O []) = n.
Proof. intros [L R] Hi. apply R. apply nth_In. lia. Qed.

Notation mgetC := (EDSpec.mget C CNum).

(** four nested sums over 0..n-1 *)
Definition S4 (n : nat) (f : nat -> nat -> nat -> nat -> R) : R :=
  lsum (fun i => lsum (fun j => lsum (fun k => lsum (fun l => f i j k l) (seq 0 n)) (seq 0 n)) (seq 0 n)) (seq 0 n).
Definition S2 (n : nat) (f : nat -> nat -> R) : R := lsum (fun i => lsum (fun j => f i j) (seq 0 n)) (seq 0 n).

Lemma S4_le n f g : (forall i j k l, (i < n)%nat -> (j < n)%nat -> (k < n)%nat -> (l < n)%nat -> f i j k l <= g i j k l) ->
  S4 n f <= S4 n g.
Proof.
  intros H. unfold S4. apply lsum_le; intros i Hi. apply lsum_le; intros j Hj. apply lsum_le; intros k Hk.
  apply lsum_le; intros l Hl. apply in_seq in Hi, Hj, Hk, Hl. apply H; lia.
Qed.
Lemma S4_nonneg n f : (forall i j k l, 0 <= f i j k l) -> 0 <= S4 n f.
Proof. intros H. unfold S4. repeat (apply lsum_nonneg; intros). apply H. Qed.
Lemma S4_plus n f g : S4 n (fun i j k l => f i j k l + g i j k l) = S4 n f + S4 n g.
Proof.
  unfold S4. rewrite <- lsum_plus. apply lsum_ext; intros i _. rewrite <- lsum_plus. apply lsum_ext; intros j _.
  rewrite <- lsum_plus. apply lsum_ext; intros k _. rewrite <- lsum_plus. reflexivity.
Qed.
Lemma S4_scal n c f : S4 n (fun i j k l => c * f i j k l) = c * S4 n f.
Proof.
  unfold S4. rewrite <- lsum_scal. apply lsum_ext; intros i _. rewrite <- lsum_scal. apply lsum_ext; intros j _.
  rewrite <- lsum_scal. apply lsum_ext; intros k _. rewrite <- lsum_scal. reflexivity.
Qed.
Lemma S2_swap n f : S2 n (fun i j => f j i) = S2 n f.
Proof. unfold S2. apply lsum_swap. Qed.

(** the sum over all 4-chains of a product of two "disjoint" factors *)
Lemma S4_factor_13 n (a c : nat -> nat -> R) : S4 n (fun i j k l => a i j * c k l) = S2 n a * S2 n c.
Proof.
  unfold S4, S2. rewrite <- lsum_scal_r. apply lsum_ext; intros i _.
  rewrite <- lsum_scal_r. apply lsum_ext; intros j _.
  rewrite <- lsum_scal. apply lsum_ext; intros k _. rewrite <- lsum_scal. reflexivity.
Qed.
Lemma S4_factor_24 n (b d : nat -> nat -> R) : S4 n (fun i j k l => b j k * d l i) = S2 n b * S2 n d.
Proof.
  unfold S4, S2.
  rewrite (lsum_ext _ (fun i => lsum (fun j => lsum (fun k => b j k) (seq 0 n)) (seq 0 n) * lsum (fun l => d l i) (seq 0 n))).
  - rewrite lsum_scal. f_equal. apply (lsum_swap (fun i l => d l i)).
  - intros i _. rewrite <- lsum_scal_r. apply lsum_ext; intros j _. rewrite <- lsum_scal_r. apply lsum_ext; intros k _.
    rewrite <- lsum_scal. reflexivity.
Qed.

(** COUNTING LEMMA.  The sum over ALL n^4 Lehmann chains of |A_ij| |B_jk| |C_kl| |D_li| is at most
    (|A|_F^2 |C|_F^2 + |B|_F^2 |D|_F^2)/2  (x y <= (x^2 + y^2)/2 with x = |A_ij| |C_kl|, y = |B_jk| |D_li|). *)
Theorem chain_count n (a b c d : nat -> nat -> R) :
  S4 n (fun i j k l => a i j * b j k * c k l * d l i)
  <= (S2 n (fun i j => a i j * a i j) * S2 n (fun i j => c i j * c i j) +
      S2 n (fun i j => b i j * b i j) * S2 n (fun i j => d i j * d i j)) / 2.
Proof.
  rewrite <- S4_factor_13, <- S4_factor_24.
  apply Rle_trans with (S4 n (fun i j k l => / 2 * (a i j * a i j * (c k l * c k l)) + / 2 * (b j k * b j k * (d l i * d l i)))).
  - apply S4_le. intros i j k l _ _ _ _.
    pose proof (Rle_0_sqr (a i j * c k l - b j k * d l i)) as Q. unfold Rsqr in Q. lra.
  - rewrite S4_plus, !S4_scal. lra.
Qed.

Theorem pair_count n (a b : nat -> nat -> R) :
  S2 n (fun i j => a i j * b j i) <= (S2 n (fun i j => a i j * a i j) + S2 n (fun i j => b i j * b i j)) / 2.
Proof.
  rewrite <- (S2_swap n (fun i j => b i j * b i j)).
  apply Rle_trans with (S2 n (fun i j => / 2 * (a i j * a i j) + / 2 * (b j i * b j i))).
  - unfold S2. apply lsum_le; intros i _. apply lsum_le; intros j _.
    pose proof (Rle_0_sqr (a i j - b j i)) as Q. unfold Rsqr in Q. lra.
  - unfold S2.
    rewrite (lsum_ext _ (fun i => / 2 * lsum (fun j => a i j * a i j) (seq 0 n) + / 2 * lsum (fun j => b j i * b j i) (seq 0 n))).
    + rewrite lsum_plus, !lsum_scal. lra.
    + intros i _. rewrite lsum_plus, !lsum_scal. reflexivity.
Qed.

Lemma lsum_as_seq {A} (d : A) (f : A -> R) (l : list A) : lsum f l = lsum (fun i => f (nth i l d)) (seq 0 (length l)).
Proof. rewrite <- (lsum_enum_snd f l), (lsum_enum_nth d). reflexivity. Qed.

Lemma frob2_S2 (n : nat) (O : list (list C)) : sq n O ->
  frob2 O = S2 n (fun i j => Cmod (mgetC O i j) * Cmod (mgetC O i j)).
Proof.
  intros S. unfold frob2, S2. rewrite (lsum_as_seq []). rewrite (proj1 S).
  apply lsum_ext. intros i Hi. apply in_seq in Hi.
  rewrite (lsum_as_seq (RtoC 0)). rewrite (sq_row n O i S) by lia. reflexivity.
Qed.
Lemma frob2_nonneg (O : list (list C)) : 0 <= frob2 O.
Proof.
  unfold frob2. apply lsum_nonneg; intros row _. apply lsum_nonneg; intros x _.
  apply Rmult_le_pos; apply Cmod_ge_0.
Qed.

(** the difference of two chain sums is bounded by the sum, over all n^4 chains, of a bound of the summands *)
Lemma chain_diff_bound (n : nat) (O1 O2 O3 : list (list C)) (F1 F2 : nat -> nat -> nat -> nat -> C -> C -> C -> C)
    (G : nat -> nat -> nat -> nat -> R) :
  sq n O1 -> sq n O2 -> sq n O3 ->
  (forall i j k l, (i < n)%nat -> (j < n)%nat -> (k < n)%nat -> (l < n)%nat ->
     Cmod (Cminus (F1 i j k l (mgetC O1 i j) (mgetC O2 j k) (mgetC O3 k l))
                  (F2 i j k l (mgetC O1 i j) (mgetC O2 j k) (mgetC O3 k l))) <= G i j k l) ->
  (forall i j k l, 0 <= G i j k l) ->
  Cmod (Cminus (chain_sum C CNum O1 O2 O3 F1) (chain_sum C CNum O1 O2 O3 F2)) <= S4 n G.
Proof.
  intros Q1 Q2 Q3 HF HG. unfold chain_sum, S4.
  apply (idx_level_bound [] O1 n); [exact (proj1 Q1)|]. intros i Hi. cbn [fst snd].
  apply (nz_level_bound (nth i O1 []) n); [apply sq_row; assumption| |].
  2:{ intros j _. apply lsum_nonneg; intros k _. apply lsum_nonneg; intros l _. apply HG. }
  intros j Hj. cbn [fst snd].
  apply (nz_level_bound (nth j O2 []) n); [apply sq_row; assumption| |].
  2:{ intros k _. apply lsum_nonneg; intros l _. apply HG. }
  intros k Hk. cbn [fst snd].
  apply (nz_level_bound (nth k O3 []) n); [apply sq_row; assumption| |].
  2:{ intros l _. apply HG. }
  intros l Hl. cbn [fst snd]. apply HF; assumption.
Qed.

(** * 4. Two-particle Green's function *)

(** the masked specification with the mask "true" IS the specification *)
Lemma chi_ordering_mask_all (K : Type) (NO : numops K) beta tol E w O1 O2 O3 O4 z1 z2 z3 :
  chi_ordering_mask K NO (fun _ _ _ _ => true) beta tol E w O1 O2 O3 O4 z1 z2 z3 =
  EDSpec.chi_ordering K NO beta tol E w O1 O2 O3 O4 z1 z2 z3.
Proof. reflexivity. Qed.
Lemma chi_mask_all (K : Type) (NO : numops K) beta tol E w C1 C2 CX3 CX4 z1 z2 z3 :
  chi_mask K NO (fun _ _ _ _ _ => true) beta tol E w C1 C2 CX3 CX4 z1 z2 z3 =
  EDSpec.chi K NO beta tol E w C1 C2 CX3 CX4 z1 z2 z3.
Proof. reflexivity. Qed.
Lemma susc_mask_all (K : Type) (NO : numops K) beta tol E w A B z zf :
  susc_mask K NO (fun _ _ => true) beta tol E w A B z zf = EDSpec.susc K NO beta tol E w A B z zf.
Proof. reflexivity. Qed.

(** the mask of truncation is the part-level test of TwoParticleGF::prepare on the blocks of the four states *)
Lemma all_dropped4_is_part_skipped (ret : nat -> bool) (blk : nat -> nat) (pn i j k l : nat) :
  negb (all_dropped4 (state_dropped ret blk) i j k l) = tpgf_part_kept ret (pn, (blk i, blk j, blk k, blk l)).
Proof.
  unfold all_dropped4, state_dropped, tpgf_part_kept.
  destruct (ret (blk i)), (ret (blk j)), (ret (blk k)), (ret (blk l)); reflexivity.
Qed.
Lemma dropped2_is_part_skipped (ret : nat -> bool) (blk : nat -> nat) (n m : nat) :
  negb (state_dropped ret blk n && state_dropped ret blk m) = gf_part_kept ret (blk n, blk m).
Proof. unfold state_dropped, gf_part_kept. cbn [fst snd]. destruct (ret (blk n)), (ret (blk m)); reflexivity. Qed.

Lemma nth_map_RtoC (l : list R) (i : nat) : nth i (map RtoC l) (RtoC 0) = RtoC (nth i l 0).
Proof. apply (map_nth RtoC). Qed.

Lemma Cmod_zero_minus (t : C) : Cmod (Cminus (RtoC 0) t) = Cmod t.
Proof. unfold Cminus. rewrite Cplus_0_l. apply Cmod_opp. Qed.
Lemma Cmod_self_minus (t : C) : Cmod (Cminus t t) = 0.
Proof. unfold Cminus. rewrite Cplus_opp_r. apply Cmod_0. Qed.

(** one operator ordering: truncation changes the sum by at most eps beta^3 kpi (|O1|_F^2 |O3|_F^2 + |O2|_F^2 |O4|_F^2)/2 *)
Lemma ordering_trunc_bound (n : nat) (beta eps : R) (tol : C) (Er wr : list R) (O1 O2 O3 O4 : list (list C))
    (y1 y2 y3 : C) (drop : nat -> bool) (pres : nat -> nat -> nat -> nat -> bool) :
  0 < beta -> 0 <= eps ->
  sq n O1 -> sq n O2 -> sq n O3 -> sq n O4 ->
  (forall s, (s < n)%nat -> 0 <= nth s wr 0) ->
  (forall s, (s < n)%nat -> drop s = true -> nth s wr 0 <= eps) ->
  (forall s t, (s < n)%nat -> (t < n)%nat -> nth t wr 0 = nth s wr 0 * exp (- beta * (nth t Er 0 - nth s Er 0))) ->
  is_fermi beta y1 -> is_fermi beta y2 -> is_fermi beta y3 ->
  Cmod (Cminus
    (chi_ordering_mask C CNum (fun i j k l => pres i j k l && negb (all_dropped4 drop i j k l))
       (RtoC beta) tol (map RtoC Er) (map RtoC wr) O1 O2 O3 O4 y1 y2 y3)
    (chi_ordering_mask C CNum pres (RtoC beta) tol (map RtoC Er) (map RtoC wr) O1 O2 O3 O4 y1 y2 y3))
  <= eps * (beta * beta * beta * kpi) * ((frob2 O1 * frob2 O3 + frob2 O2 * frob2 O4) / 2).
Proof.
  intros Hb He Q1 Q2 Q3 Q4 Wpos Wsmall Wgibbs Y1 Y2 Y3.
  set (KE := eps * (beta * beta * beta * kpi)).
  assert (PK : 0 <= KE).
  { unfold KE. pose proof kpi_pos. apply Rmult_le_pos; [exact He|]. apply Rmult_le_pos; [|lra].
    apply Rmult_le_pos; [apply Rmult_le_pos|]; lra. }
  unfold chi_ordering_mask.
  eapply Rle_trans.
  - apply (chain_diff_bound n O1 O2 O3 _ _
             (fun i j k l => KE * (Cmod (mgetC O1 i j) * Cmod (mgetC O2 j k) * Cmod (mgetC O3 k l) * Cmod (mgetC O4 l i))));
      try assumption.
    + intros i j k l Hi Hj Hk Hl. cbv beta.
      set (a := mgetC O1 i j). set (b := mgetC O2 j k). set (c := mgetC O3 k l). set (d := mgetC O4 l i).
      assert (P4 : 0 <= KE * (Cmod a * Cmod b * Cmod c * Cmod d)).
      { apply Rmult_le_pos; [exact PK|]. repeat apply Rmult_le_pos; apply Cmod_ge_0. }
      destruct (pres i j k l); cbn [andb].
      2:{ change (n0 C CNum) with (RtoC 0). rewrite Cmod_self_minus. exact P4. }
      destruct (all_dropped4 drop i j k l) eqn:AD; cbn [negb].
      2:{ rewrite Cmod_self_minus. exact P4. }
      change (n0 C CNum) with (RtoC 0). rewrite Cmod_zero_minus.
      cbn [CNum nmul]. rewrite !Cmod_mult. rewrite !nth_map_RtoC.
      unfold all_dropped4 in AD. apply andb_prop in AD. destruct AD as [AD Dl].
      apply andb_prop in AD. destruct AD as [AD Dk]. apply andb_prop in AD. destruct AD as [Di Dj].
      rewrite (Rmult_comm KE). apply Rmult_le_compat_l; [repeat apply Rmult_le_pos; apply Cmod_ge_0|].
      unfold KE. apply phi_term_bound_fermi; try assumption.
      * split; [apply Wpos|apply Wsmall]; assumption.
      * split; [apply Wpos|apply Wsmall]; assumption.
      * split; [apply Wpos|apply Wsmall]; assumption.
      * split; [apply Wpos|apply Wsmall]; assumption.
      * apply Wgibbs; assumption.
      * apply Wgibbs; assumption.
    + intros i j k l. apply Rmult_le_pos; [exact PK|]. repeat apply Rmult_le_pos; apply Cmod_ge_0.
  - rewrite S4_scal. apply Rmult_le_compat_l; [exact PK|].
    rewrite (frob2_S2 n O1 Q1), (frob2_S2 n O2 Q2), (frob2_S2 n O3 Q3), (frob2_S2 n O4 Q4).
    apply (chain_count n (fun i j => Cmod (mgetC O1 i j)) (fun i j => Cmod (mgetC O2 i j))
                         (fun i j => Cmod (mgetC O3 i j)) (fun i j => Cmod (mgetC O4 i j))).
Qed.

Lemma ordering_trunc_bound_F (n : nat) (beta eps F : R) (tol : C) (Er wr : list R) (O1 O2 O3 O4 : list (list C))
    (y1 y2 y3 : C) (drop : nat -> bool) (pres : nat -> nat -> nat -> nat -> bool) :
  0 < beta -> 0 <= eps ->
  (sq n O1 /\ frob2 O1 <= F) -> (sq n O2 /\ frob2 O2 <= F) -> (sq n O3 /\ frob2 O3 <= F) -> (sq n O4 /\ frob2 O4 <= F) ->
  (forall s, (s < n)%nat -> 0 <= nth s wr 0) ->
  (forall s, (s < n)%nat -> drop s = true -> nth s wr 0 <= eps) ->
  (forall s t, (s < n)%nat -> (t < n)%nat -> nth t wr 0 = nth s wr 0 * exp (- beta * (nth t Er 0 - nth s Er 0))) ->
  is_fermi beta y1 -> is_fermi beta y2 -> is_fermi beta y3 ->
  Cmod (Cminus
    (chi_ordering_mask C CNum (fun i j k l => pres i j k l && negb (all_dropped4 drop i j k l))
       (RtoC beta) tol (map RtoC Er) (map RtoC wr) O1 O2 O3 O4 y1 y2 y3)
    (chi_ordering_mask C CNum pres (RtoC beta) tol (map RtoC Er) (map RtoC wr) O1 O2 O3 O4 y1 y2 y3))
  <= F * F * (beta * beta * beta * kpi) * eps.
Proof.
  intros Hb He [Q1 F1] [Q2 F2] [Q3 F3] [Q4 F4] Wpos Wsmall Wgibbs Y1 Y2 Y3.
  eapply Rle_trans; [apply (ordering_trunc_bound n); eassumption|].
  pose proof (frob2_nonneg O1). pose proof (frob2_nonneg O2). pose proof (frob2_nonneg O3). pose proof (frob2_nonneg O4).
  assert (PK : 0 <= eps * (beta * beta * beta * kpi)).
  { pose proof kpi_pos. apply Rmult_le_pos; [exact He|]. apply Rmult_le_pos; [|lra].
    apply Rmult_le_pos; [apply Rmult_le_pos|]; lra. }
  assert (A13 : frob2 O1 * frob2 O3 <= F * F) by (apply Rmult_le_compat; lra).
  assert (A24 : frob2 O2 * frob2 O4 <= F * F) by (apply Rmult_le_compat; lra).
  replace (F * F * (beta * beta * beta * kpi) * eps) with (eps * (beta * beta * beta * kpi) * (F * F)) by ring.
  apply Rmult_le_compat_l; [exact PK|]. lra.
Qed.

Lemma chi_mask_unfold keep beta tol E w C1 C2 CX3 CX4 z1 z2 z3 :
  chi_mask C CNum keep beta tol E w C1 C2 CX3 CX4 z1 z2 z3 =
  ksumC perms3 (fun ps =>
    if snd ps
    then Copp (chi_ordering_mask C CNum (keep (fst ps)) beta tol E w
                 (nth (nth 0 (fst ps) 0%nat) [C1; C2; CX3] []) (nth (nth 1 (fst ps) 0%nat) [C1; C2; CX3] [])
                 (nth (nth 2 (fst ps) 0%nat) [C1; C2; CX3] []) CX4
                 (nth (nth 0 (fst ps) 0%nat) [z1; z2; Copp z3] (RtoC 0)) (nth (nth 1 (fst ps) 0%nat) [z1; z2; Copp z3] (RtoC 0))
                 (nth (nth 2 (fst ps) 0%nat) [z1; z2; Copp z3] (RtoC 0)))
    else chi_ordering_mask C CNum (keep (fst ps)) beta tol E w
                 (nth (nth 0 (fst ps) 0%nat) [C1; C2; CX3] []) (nth (nth 1 (fst ps) 0%nat) [C1; C2; CX3] [])
                 (nth (nth 2 (fst ps) 0%nat) [C1; C2; CX3] []) CX4
                 (nth (nth 0 (fst ps) 0%nat) [z1; z2; Copp z3] (RtoC 0)) (nth (nth 1 (fst ps) 0%nat) [z1; z2; Copp z3] (RtoC 0))
                 (nth (nth 2 (fst ps) 0%nat) [z1; z2; Copp z3] (RtoC 0))).
Proof. reflexivity. Qed.

(** MAIN THEOREM (two-particle Green's function).
    n eigenstates, energies Er, weights wr, matrices C1 C2 CX3 CX4 (n x n, eigenbasis) of c_1, c_2, c^+_3, c^+_4;
    [drop s] = state s lies in a discarded block; [pres] = chains present in both runs.
    Named hypotheses:
      weights_nonneg, dropped_weights_small  (ThermalProofs.weights_all_pos, discarded_weights_small)
      weights_gibbs                          (ThermalProofs.weights_ratio)
      frobenius                              squared Frobenius norms of the four matrices <= F
                                             (Tr c^+ c = dim/2 for a fermionic mode in an orthonormal basis)
    at fermionic Matsubara frequencies z_k = i pi (2 n_k + 1)/beta:
      |chi4_trunc - chi4| <= 6 F^2 beta^3 (4/pi^3 + 2/pi^2) eps. *)
Theorem tpgf_truncation_bound (n : nat) (beta eps F : R) (tol : C) (Er wr : list R) (C1 C2 CX3 CX4 : list (list C))
    (drop : nat -> bool) (pres : list nat -> nat -> nat -> nat -> nat -> bool) (n1 n2 n3 : Z) :
  0 < beta -> 0 <= eps ->
  sq n C1 -> sq n C2 -> sq n CX3 -> sq n CX4 ->
  (forall s, (s < n)%nat -> 0 <= nth s wr 0) ->
  (forall s, (s < n)%nat -> drop s = true -> nth s wr 0 <= eps) ->
  (forall s t, (s < n)%nat -> (t < n)%nat -> nth t wr 0 = nth s wr 0 * exp (- beta * (nth t Er 0 - nth s Er 0))) ->
  frob2 C1 <= F -> frob2 C2 <= F -> frob2 CX3 <= F -> frob2 CX4 <= F ->
  Cmod (Cminus
    (chi_mask C CNum (trunc_keep4 drop pres) (RtoC beta) tol (map RtoC Er) (map RtoC wr) C1 C2 CX3 CX4
       (0, fermi_freq beta n1) (0, fermi_freq beta n2) (0, fermi_freq beta n3))
    (chi_mask C CNum pres (RtoC beta) tol (map RtoC Er) (map RtoC wr) C1 C2 CX3 CX4
       (0, fermi_freq beta n1) (0, fermi_freq beta n2) (0, fermi_freq beta n3)))
  <= 6 * F * F * (beta * beta * beta * (4 / (PI * PI * PI) + 2 / (PI * PI))) * eps.
Proof.
  intros Hb He Q1 Q2 Q3 Q4 Wpos Wsmall Wgibbs F1 F2 F3 F4.
  fold kpi. rewrite !chi_mask_unfold.
  assert (Y1 : is_fermi beta (0, fermi_freq beta n1)) by (exists n1; reflexivity).
  assert (Y2 : is_fermi beta (0, fermi_freq beta n2)) by (exists n2; reflexivity).
  assert (Y3 : is_fermi beta (Copp (0, fermi_freq beta n3))).
  { apply is_fermi_opp; [lra|]. exists n3; reflexivity. }
  set (B := F * F * (beta * beta * beta * kpi) * eps).
  eapply Rle_trans; [apply Cmod_ksum_diff_le|].
  apply Rle_trans with (lsum (fun _ => B) perms3).
  2:{ rewrite lsum_const. unfold B, perms3. cbn [length INR]. lra. }
  apply lsum_le. intros ps Hps.
  assert (G : forall v1 v2 : C, Cmod (Cminus v1 v2) <= B ->
              Cmod (Cminus (if snd ps then Copp v1 else v1) (if snd ps then Copp v2 else v2)) <= B).
  { intros v1 v2 Hv. destruct (snd ps); [|exact Hv].
    replace (Cminus (Copp v1) (Copp v2)) with (Copp (Cminus v1 v2)) by ring. rewrite Cmod_opp. exact Hv. }
  apply G. clear G. unfold trunc_keep4.
  cbn [perms3 In] in Hps.
  destruct Hps as [<-|[<-|[<-|[<-|[<-|[<-|[]]]]]]]; cbn [fst snd nth];
    apply (ordering_trunc_bound_F n beta eps F tol Er wr); try assumption; split; assumption.
Qed.

(** the same against the untruncated specification EDSpec.chi itself (every chain present) *)
Corollary tpgf_truncation_bound_spec (n : nat) (beta eps F : R) (tol : C) (Er wr : list R) (C1 C2 CX3 CX4 : list (list C))
    (drop : nat -> bool) (n1 n2 n3 : Z) :
  0 < beta -> 0 <= eps ->
  sq n C1 -> sq n C2 -> sq n CX3 -> sq n CX4 ->
  (forall s, (s < n)%nat -> 0 <= nth s wr 0) ->
  (forall s, (s < n)%nat -> drop s = true -> nth s wr 0 <= eps) ->
  (forall s t, (s < n)%nat -> (t < n)%nat -> nth t wr 0 = nth s wr 0 * exp (- beta * (nth t Er 0 - nth s Er 0))) ->
  frob2 C1 <= F -> frob2 C2 <= F -> frob2 CX3 <= F -> frob2 CX4 <= F ->
  Cmod (Cminus
    (chi_mask C CNum (trunc_keep4 drop (fun _ _ _ _ _ => true)) (RtoC beta) tol (map RtoC Er) (map RtoC wr) C1 C2 CX3 CX4
       (0, fermi_freq beta n1) (0, fermi_freq beta n2) (0, fermi_freq beta n3))
    (EDSpec.chi C CNum (RtoC beta) tol (map RtoC Er) (map RtoC wr) C1 C2 CX3 CX4
       (0, fermi_freq beta n1) (0, fermi_freq beta n2) (0, fermi_freq beta n3)))
  <= 6 * F * F * (beta * beta * beta * (4 / (PI * PI * PI) + 2 / (PI * PI))) * eps.
Proof. intros. rewrite <- chi_mask_all. apply (tpgf_truncation_bound n); assumption. Qed.

(** with F = dim/2 (squared Frobenius norm of c_a, c^+_a in any orthonormal basis of a 2^M-dimensional Fock space):
    the bound the check applies, dim^2 beta^3 eps / 2 *)
Corollary tpgf_truncation_bound_half_dim (n : nat) (beta eps : R) (tol : C) (Er wr : list R) (C1 C2 CX3 CX4 : list (list C))
    (drop : nat -> bool) (pres : list nat -> nat -> nat -> nat -> nat -> bool) (n1 n2 n3 : Z) :
  0 < beta -> 0 <= eps ->
  sq n C1 -> sq n C2 -> sq n CX3 -> sq n CX4 ->
  (forall s, (s < n)%nat -> 0 <= nth s wr 0) ->
  (forall s, (s < n)%nat -> drop s = true -> nth s wr 0 <= eps) ->
  (forall s t, (s < n)%nat -> (t < n)%nat -> nth t wr 0 = nth s wr 0 * exp (- beta * (nth t Er 0 - nth s Er 0))) ->
  frob2 C1 <= INR n / 2 -> frob2 C2 <= INR n / 2 -> frob2 CX3 <= INR n / 2 -> frob2 CX4 <= INR n / 2 ->
  Cmod (Cminus
    (chi_mask C CNum (trunc_keep4 drop pres) (RtoC beta) tol (map RtoC Er) (map RtoC wr) C1 C2 CX3 CX4
       (0, fermi_freq beta n1) (0, fermi_freq beta n2) (0, fermi_freq beta n3))
    (chi_mask C CNum pres (RtoC beta) tol (map RtoC Er) (map RtoC wr) C1 C2 CX3 CX4
       (0, fermi_freq beta n1) (0, fermi_freq beta n2) (0, fermi_freq beta n3)))
  <= / 2 * (INR n * INR n) * (beta * beta * beta) * eps.
Proof.
  intros Hb He Q1 Q2 Q3 Q4 Wpos Wsmall Wgibbs F1 F2 F3 F4.
  eapply Rle_trans; [apply (tpgf_truncation_bound n beta eps (INR n / 2)); assumption|].
  fold kpi. pose proof kpi_le_third as K3. pose proof kpi_pos as K0. pose proof (pos_INR n) as Pn.
  assert (P : 0 <= INR n * INR n * (beta * beta * beta) * eps).
  { repeat apply Rmult_le_pos; lra. }
  replace (6 * (INR n / 2) * (INR n / 2) * (beta * beta * beta * kpi) * eps)
    with (3 / 2 * kpi * (INR n * INR n * (beta * beta * beta) * eps)) by field.
  replace (/ 2 * (INR n * INR n) * (beta * beta * beta) * eps)
    with (/ 2 * (INR n * INR n * (beta * beta * beta) * eps)) by ring.
  apply Rmult_le_compat_r; [exact P|]. lra.
Qed.

(** * 5. Dynamical susceptibility (EDSpec.susc): every z on the imaginary axis, the resonant branch included *)

(** one Lehmann term of EDSpec.susc, whichever way the resonance test [bt] falls *)
Lemma susc_term_bound (beta eps : R) (z a b : C) (zf bt : bool) (En Em wn wm : R) :
  0 <= beta -> fst z = 0 -> 0 <= wn <= eps -> 0 <= wm <= eps -> wm = wn * exp (- beta * (Em - En)) ->
  Cmod (if bt then (if zf then Cmult (Cmult (RtoC beta) (Cmult a b)) (RtoC wn) else RtoC 0)
        else Cdiv (Cmult (Cmult a b) (Cminus (RtoC wm) (RtoC wn))) (Cminus z (Cminus (RtoC Em) (RtoC En))))
  <= Cmod a * Cmod b * (beta * eps).
Proof.
  intros Hb Hz Wn Wm G. pose proof (Cmod_ge_0 a) as Pa. pose proof (Cmod_ge_0 b) as Pb.
  assert (P0 : 0 <= Cmod a * Cmod b * (beta * eps)).
  { apply Rmult_le_pos; [apply Rmult_le_pos; assumption|apply Rmult_le_pos; lra]. }
  destruct bt.
  - destruct zf; [|rewrite Cmod_0; exact P0].
    rewrite !Cmod_mult, !Cmod_R, !Rabs_pos_eq by lra.
    replace (beta * (Cmod a * Cmod b) * wn) with (Cmod a * Cmod b * (beta * wn)) by ring.
    apply Rmult_le_compat_l; [apply Rmult_le_pos; assumption|]. apply Rmult_le_compat_l; lra.
  - set (u := Cminus z (Cminus (RtoC Em) (RtoC En))).
    replace (Cdiv (Cmult (Cmult a b) (Cminus (RtoC wm) (RtoC wn))) u)
      with (Cmult (Cmult a b) (Cdiv (Cminus (RtoC wm) (RtoC wn)) u)) by (unfold Cdiv; ring).
    rewrite !Cmod_mult. apply Rmult_le_compat_l; [apply Rmult_le_pos; assumption|].
    apply (gibbs_quotient_bound beta En Em wn wm eps u); try assumption.
    unfold u. destruct z as [x y]. cbn [fst snd Cminus Cplus Copp RtoC] in *. subst x. ring.
Qed.

(** MAIN THEOREM (susceptibility).  For every z with Re z = 0 (all bosonic Matsubara frequencies i W_n, W_0 = 0 with the
    resonant beta w_n term included: [zf] is the specification's "z is zero" flag, arbitrary here) and every resonance
    tolerance:   |chi_trunc(z) - chi(z)| <= beta eps (|A|_F^2 + |B|_F^2)/2. *)
Theorem susc_spec_truncation_bound (n : nat) (beta eps : R) (tol z : C) (zf : bool) (Er wr : list R) (A B : list (list C))
    (drop : nat -> bool) (pres : nat -> nat -> bool) :
  0 <= beta -> 0 <= eps -> fst z = 0 ->
  sq n A -> sq n B ->
  (forall s, (s < n)%nat -> 0 <= nth s wr 0) ->
  (forall s, (s < n)%nat -> drop s = true -> nth s wr 0 <= eps) ->
  (forall s t, (s < n)%nat -> (t < n)%nat -> nth t wr 0 = nth s wr 0 * exp (- beta * (nth t Er 0 - nth s Er 0))) ->
  Cmod (Cminus
    (susc_mask C CNum (trunc_keep2 drop pres) (RtoC beta) tol (map RtoC Er) (map RtoC wr) A B z zf)
    (susc_mask C CNum pres (RtoC beta) tol (map RtoC Er) (map RtoC wr) A B z zf))
  <= beta * eps * ((frob2 A + frob2 B) / 2).
Proof.
  intros Hb He Hz QA QB Wpos Wsmall Wgibbs.
  set (KE := beta * eps). assert (PK : 0 <= KE) by (apply Rmult_le_pos; assumption).
  unfold susc_mask.
  eapply Rle_trans.
  - apply (idx_level_bound [] A n _ _
             (fun i => lsum (fun j => KE * (Cmod (mgetC A i j) * Cmod (mgetC B j i))) (seq 0 n))); [exact (proj1 QA)|].
    intros i Hi. cbn [fst snd].
    apply (idx_level_bound (RtoC 0) (nth i A []) n); [apply sq_row; assumption|].
    intros j Hj. cbn [fst snd]. unfold trunc_keep2.
    change (nth j (nth i A []) (RtoC 0)) with (mgetC A i j).
    set (a := mgetC A i j). set (b := mgetC B j i).
    assert (P2 : 0 <= KE * (Cmod a * Cmod b)).
    { apply Rmult_le_pos; [exact PK|]. apply Rmult_le_pos; apply Cmod_ge_0. }
    destruct (pres i j); cbn [andb].
    2:{ change (n0 C CNum) with (RtoC 0). rewrite Cmod_self_minus. exact P2. }
    destruct (drop i && drop j) eqn:AD; cbn [negb].
    2:{ rewrite Cmod_self_minus. exact P2. }
    change (n0 C CNum) with (RtoC 0). rewrite Cmod_zero_minus.
    apply andb_prop in AD. destruct AD as [Di Dj].
    cbv zeta. cbn [CNum nmul nsub ndiv]. rewrite !nth_map_RtoC. fold a b.
    rewrite (Rmult_comm KE). unfold KE.
    apply susc_term_bound; try assumption.
    + split; [apply Wpos|apply Wsmall]; assumption.
    + split; [apply Wpos|apply Wsmall]; assumption.
    + apply Wgibbs; assumption.
  - rewrite (lsum_ext _ (fun i => KE * lsum (fun j => Cmod (mgetC A i j) * Cmod (mgetC B j i)) (seq 0 n)))
      by (intros i _; apply lsum_scal).
    rewrite lsum_scal. fold KE. apply Rmult_le_compat_l; [exact PK|].
    rewrite (frob2_S2 n A QA), (frob2_S2 n B QB).
    apply (pair_count n (fun i j => Cmod (mgetC A i j)) (fun i j => Cmod (mgetC B i j))).
Qed.

(** at the bosonic Matsubara frequencies i W_k = 2 pi i k/beta, [zf] as the library decides it (k = 0), against the
    untruncated specification, and with squared Frobenius norms <= F: beta eps F.
    (F = dim covers every operator of norm <= 1, in particular A = c^+_a c_b: the bound beta eps dim of the check.) *)
Corollary susc_spec_truncation_bound_matsubara (n : nat) (beta eps F : R) (tol : C) (k : Z) (Er wr : list R)
    (A B : list (list C)) (drop : nat -> bool) :
  0 <= beta -> 0 <= eps ->
  sq n A -> sq n B ->
  (forall s, (s < n)%nat -> 0 <= nth s wr 0) ->
  (forall s, (s < n)%nat -> drop s = true -> nth s wr 0 <= eps) ->
  (forall s t, (s < n)%nat -> (t < n)%nat -> nth t wr 0 = nth s wr 0 * exp (- beta * (nth t Er 0 - nth s Er 0))) ->
  frob2 A <= F -> frob2 B <= F ->
  Cmod (Cminus
    (susc_mask C CNum (trunc_keep2 drop (fun _ _ => true)) (RtoC beta) tol (map RtoC Er) (map RtoC wr) A B
       (0, bose_freq beta k) (Z.eqb k 0))
    (EDSpec.susc C CNum (RtoC beta) tol (map RtoC Er) (map RtoC wr) A B (0, bose_freq beta k) (Z.eqb k 0)))
  <= beta * eps * F.
Proof.
  intros Hb He QA QB Wpos Wsmall Wgibbs FA FB. rewrite <- susc_mask_all.
  eapply Rle_trans.
  - apply (susc_spec_truncation_bound n beta eps); try assumption. reflexivity.
  - apply Rmult_le_compat_l; [apply Rmult_le_pos; assumption|]. lra.
Qed.

(** * 6. The weight hypotheses discharged from the density-matrix model (PV.Thermal at R)

    [blk s], [pos s]: block and inner position of eigenstate s; energies and weights are read from the Hamiltonian blocks H
    and from the density matrix D = DensityMatrix::compute; [drop] is DensityMatrix::isRetained after truncateBlocks(eps). *)
Lemma nth_map_seq (f : nat -> R) (n s : nat) : (s < n)%nat -> nth s (map f (seq 0 n)) 0 = f s.
Proof.
  intros Hs. rewrite (nth_indep _ 0 (f 0%nat)) by (rewrite map_length, seq_length; exact Hs).
  rewrite (map_nth f). rewrite seq_nth by exact Hs. reflexivity.
Qed.

Lemma weight_at_In (beta : R) (H : list Rhpart) (D : list Rdmpart) (a s : nat) :
  Rdm_compute beta H = Done D -> valid_state H a s ->
  (a < length D)%nat /\ In (weight_at D a s) (dp_weights R (nth a D dummy_dp)).
Proof.
  intros E [La Ls]. destruct (dm_compute_sizes beta H D E) as [L S].
  assert (LD : (a < length D)%nat) by lia. split; [exact LD|].
  unfold weight_at. apply nth_In.
  assert (Hin : In (nth a H dummy_hp, nth a D dummy_dp) (combine H D)).
  { rewrite <- combine_nth by (symmetry; exact L). apply nth_In. rewrite combine_length. lia. }
  pose proof (S _ Hin) as Sz. cbn [fst snd] in Sz. rewrite Sz. exact Ls.
Qed.

Lemma dm_weight_hypotheses (beta eps : R) (H : list Rhpart) (D : list Rdmpart) (blk pos : nat -> nat) (n : nat) :
  Rdm_compute beta H = Done D ->
  (forall s, (s < n)%nat -> valid_state H (blk s) (pos s)) ->
  let Er := map (fun s => energy_at H (blk s) (pos s)) (seq 0 n) in
  let wr := map (fun s => weight_at D (blk s) (pos s)) (seq 0 n) in
  let drop := state_dropped (Ris_retained (Rdm_truncate eps D)) blk in
  (forall s, (s < n)%nat -> 0 <= nth s wr 0) /\
  (forall s, (s < n)%nat -> drop s = true -> nth s wr 0 <= eps) /\
  (forall s t, (s < n)%nat -> (t < n)%nat -> nth t wr 0 = nth s wr 0 * exp (- beta * (nth t Er 0 - nth s Er 0))).
Proof.
  intros E V Er wr drop. unfold Er, wr. split; [|split].
  - intros s Hs. rewrite nth_map_seq by exact Hs.
    destruct (weight_at_In beta H D _ _ E (V s Hs)) as [La Hin].
    left. apply (weights_all_pos beta H D E (nth (blk s) D dummy_dp)); [apply nth_In; exact La|exact Hin].
  - intros s Hs Hd. rewrite nth_map_seq by exact Hs.
    destruct (weight_at_In beta H D _ _ E (V s Hs)) as [La Hin].
    unfold drop, state_dropped in Hd. apply negb_true_iff in Hd.
    apply (discarded_weights_small eps D (blk s) La Hd). exact Hin.
  - intros s t Hs Ht. rewrite !nth_map_seq by assumption.
    pose proof (weights_ratio beta H D E (blk t) (pos t) (blk s) (pos s) (V t Ht) (V s Hs)) as Q.
    destruct (weight_at_In beta H D _ _ E (V s Hs)) as [La Hin].
    assert (Ps : 0 < weight_at D (blk s) (pos s)).
    { apply (weights_all_pos beta H D E (nth (blk s) D dummy_dp)); [apply nth_In; exact La|exact Hin]. }
    rewrite <- Q. field. lra.
Qed.

Theorem tpgf_truncation_bound_dm (beta eps F : R) (H : list Rhpart) (D : list Rdmpart) (blk pos : nat -> nat) (n : nat)
    (tol : C) (C1 C2 CX3 CX4 : list (list C)) (pres : list nat -> nat -> nat -> nat -> nat -> bool) (n1 n2 n3 : Z) :
  Rdm_compute beta H = Done D ->
  (forall s, (s < n)%nat -> valid_state H (blk s) (pos s)) ->
  0 < beta -> 0 <= eps ->
  sq n C1 -> sq n C2 -> sq n CX3 -> sq n CX4 ->
  frob2 C1 <= F -> frob2 C2 <= F -> frob2 CX3 <= F -> frob2 CX4 <= F ->
  let Er := map (fun s => energy_at H (blk s) (pos s)) (seq 0 n) in
  let wr := map (fun s => weight_at D (blk s) (pos s)) (seq 0 n) in
  let drop := state_dropped (Ris_retained (Rdm_truncate eps D)) blk in
  Cmod (Cminus
    (chi_mask C CNum (trunc_keep4 drop pres) (RtoC beta) tol (map RtoC Er) (map RtoC wr) C1 C2 CX3 CX4
       (0, fermi_freq beta n1) (0, fermi_freq beta n2) (0, fermi_freq beta n3))
    (chi_mask C CNum pres (RtoC beta) tol (map RtoC Er) (map RtoC wr) C1 C2 CX3 CX4
       (0, fermi_freq beta n1) (0, fermi_freq beta n2) (0, fermi_freq beta n3)))
  <= 6 * F * F * (beta * beta * beta * (4 / (PI * PI * PI) + 2 / (PI * PI))) * eps.
Proof.
  intros E V Hb He Q1 Q2 Q3 Q4 F1 F2 F3 F4 Er wr drop.
  destruct (dm_weight_hypotheses beta eps H D blk pos n E V) as [W1 [W2 W3]].
  apply (tpgf_truncation_bound n); assumption.
Qed.

Theorem susc_spec_truncation_bound_dm (beta eps : R) (H : list Rhpart) (D : list Rdmpart) (blk pos : nat -> nat) (n : nat)
    (tol z : C) (zf : bool) (A B : list (list C)) (pres : nat -> nat -> bool) :
  Rdm_compute beta H = Done D ->
  (forall s, (s < n)%nat -> valid_state H (blk s) (pos s)) ->
  0 <= beta -> 0 <= eps -> fst z = 0 ->
  sq n A -> sq n B ->
  let Er := map (fun s => energy_at H (blk s) (pos s)) (seq 0 n) in
  let wr := map (fun s => weight_at D (blk s) (pos s)) (seq 0 n) in
  let drop := state_dropped (Ris_retained (Rdm_truncate eps D)) blk in
  Cmod (Cminus
    (susc_mask C CNum (trunc_keep2 drop pres) (RtoC beta) tol (map RtoC Er) (map RtoC wr) A B z zf)
    (susc_mask C CNum pres (RtoC beta) tol (map RtoC Er) (map RtoC wr) A B z zf))
  <= beta * eps * ((frob2 A + frob2 B) / 2).
Proof.
  intros E V Hb He Hz QA QB Er wr drop.
  destruct (dm_weight_hypotheses beta eps H D blk pos n E V) as [W1 [W2 W3]].
  apply (susc_spec_truncation_bound n); assumption.
Qed.

(** * 7. Non-vacuity: the Hubbard atom in a field

    One orbital, modes 0 = up, 1 = down; H = U n_up n_dn - mu (n_up + n_dn) - h (n_up - n_dn) with U = 1, mu = 1, h = -1;
    eigenstates = Fock states |0>, |up>, |dn>, |up dn> with energies 0, 0, -2, -1 (four blocks); beta = 2.
    Weights e^{-2 E}/Z, Z = 2 + e^4 + e^2: w(|0>) = w(|up>) = 1/Z <= 1/10, so at eps = 1/10 the blocks of |0> and |up> are
    discarded, and the chains 0 -> 1 -> 0 -> 1 of chi_{up up up up} (orderings c c^+ c c^+) are genuinely omitted. *)
Definition hub_E : list R := [0; 0; -2; -1].
Definition hub_Z : R := 2 + exp 4 + exp 2.
Definition hub_w : list R := map (fun e => exp (- 2 * e) / hub_Z) hub_E.
Definition c0 : C := RtoC 0.
Definition c1 : C := RtoC 1.
(** <row| c_up |col> in the basis |0>, |up>, |dn>, |up dn>, and its adjoint *)
Definition hub_cup : list (list C) := [[c0; c1; c0; c0]; [c0; c0; c0; c0]; [c0; c0; c0; c1]; [c0; c0; c0; c0]].
Definition hub_cupx : list (list C) := [[c0; c0; c0; c0]; [c1; c0; c0; c0]; [c0; c0; c0; c0]; [c0; c0; c1; c0]].
Definition hub_drop (s : nat) : bool := Nat.ltb s 2.

Lemma hub_Z_ge_10 : 10 <= hub_Z.
Proof. unfold hub_Z. pose proof (exp_ineq1_le 4). pose proof (exp_ineq1_le 2). lra. Qed.

Lemma gibbs_weights_list (beta Z : R) (Er : list R) : 0 < Z ->
  let wr := map (fun e => exp (- beta * e) / Z) Er in
  (forall s, (s < length Er)%nat -> 0 <= nth s wr 0) /\
  (forall s t, (s < length Er)%nat -> (t < length Er)%nat ->
     nth t wr 0 = nth s wr 0 * exp (- beta * (nth t Er 0 - nth s Er 0))).
Proof.
  intros HZ wr.
  assert (N : forall s, (s < length Er)%nat -> nth s wr 0 = exp (- beta * nth s Er 0) / Z).
  { intros s Hs. unfold wr. rewrite (nth_indep _ 0 ((fun e => exp (- beta * e) / Z) 0)) by (rewrite map_length; exact Hs).
    apply (map_nth (fun e => exp (- beta * e) / Z)). }
  split.
  - intros s Hs. rewrite (N s Hs). left. apply Rdiv_lt_0_compat; [apply exp_pos|exact HZ].
  - intros s t Hs Ht. rewrite (N s Hs), (N t Ht).
    replace (- beta * nth t Er 0) with (- beta * nth s Er 0 + - beta * (nth t Er 0 - nth s Er 0)) by ring.
    rewrite exp_plus. field. lra.
Qed.

Lemma hub_sq_cup : sq 4 hub_cup.
Proof. split; [reflexivity|]. intros row Hr. cbn in Hr. repeat (destruct Hr as [<-|Hr]; [reflexivity|]). destruct Hr. Qed.
Lemma hub_sq_cupx : sq 4 hub_cupx.
Proof. split; [reflexivity|]. intros row Hr. cbn in Hr. repeat (destruct Hr as [<-|Hr]; [reflexivity|]). destruct Hr. Qed.
Lemma hub_frob_cup : frob2 hub_cup <= INR 4 / 2.
Proof. unfold frob2, hub_cup, c0, c1. cbn [lsum INR]. rewrite !Cmod_R, Rabs_R0, Rabs_R1. lra. Qed.
Lemma hub_frob_cupx : frob2 hub_cupx <= INR 4 / 2.
Proof. unfold frob2, hub_cupx, c0, c1. cbn [lsum INR]. rewrite !Cmod_R, Rabs_R0, Rabs_R1. lra. Qed.

Lemma hub_weights :
  (forall s, (s < 4)%nat -> 0 <= nth s hub_w 0) /\
  (forall s, (s < 4)%nat -> hub_drop s = true -> nth s hub_w 0 <= 1 / 10) /\
  (forall s t, (s < 4)%nat -> (t < 4)%nat -> nth t hub_w 0 = nth s hub_w 0 * exp (- 2 * (nth t hub_E 0 - nth s hub_E 0))).
Proof.
  pose proof hub_Z_ge_10 as Z10.
  destruct (gibbs_weights_list 2 hub_Z hub_E ltac:(lra)) as [P G]. split; [exact P|]. split; [|exact G].
  intros s Hs Hd. unfold hub_drop in Hd. apply Nat.ltb_lt in Hd.
  assert (E : nth s hub_w 0 = 1 / hub_Z).
  { destruct s as [|[|s]]; [| |lia]; cbn [hub_w hub_E map nth];
      (replace (- 2 * 0) with 0 by ring); rewrite exp_0; reflexivity. }
  rewrite E. unfold Rdiv. rewrite !Rmult_1_l. apply Rinv_le_contravar; lra.
Qed.

(** some chain is really dropped: states 0 and 1 are dropped and <0|c_up|1> <1|c^+_up|0> <0|c_up|1> <1|c^+_up|0> = 1 *)
Example hub_chain_dropped :
  all_dropped4 hub_drop 0 1 0 1 = true /\
  Cmult (Cmult (Cmult (EDSpec.mget C CNum hub_cup 0 1) (EDSpec.mget C CNum hub_cupx 1 0)) (EDSpec.mget C CNum hub_cup 0 1))
        (EDSpec.mget C CNum hub_cupx 1 0) = RtoC 1.
Proof. split; [reflexivity|]. cbn. unfold c1. apply injective_projections; cbn; ring. Qed.

(** all hypotheses of tpgf_truncation_bound_half_dim hold for chi_{up up up up} of this atom at beta = 2, eps = 1/10,
    every present-mask and every triple of fermionic Matsubara frequencies; the bound reads 4^2 2^3 (1/10)/2 = 6.4 *)
Example hub_tpgf_bound (tol : C) (pres : list nat -> nat -> nat -> nat -> nat -> bool) (n1 n2 n3 : Z) :
  Cmod (Cminus
    (chi_mask C CNum (trunc_keep4 hub_drop pres) (RtoC 2) tol (map RtoC hub_E) (map RtoC hub_w) hub_cup hub_cup hub_cupx hub_cupx
       (0, fermi_freq 2 n1) (0, fermi_freq 2 n2) (0, fermi_freq 2 n3))
    (chi_mask C CNum pres (RtoC 2) tol (map RtoC hub_E) (map RtoC hub_w) hub_cup hub_cup hub_cupx hub_cupx
       (0, fermi_freq 2 n1) (0, fermi_freq 2 n2) (0, fermi_freq 2 n3)))
  <= / 2 * (INR 4 * INR 4) * (2 * 2 * 2) * (1 / 10).
Proof.
  destruct hub_weights as [W1 [W2 W3]].
  apply (tpgf_truncation_bound_half_dim 4 2 (1 / 10) tol hub_E hub_w); try assumption; try lra;
    first [apply hub_sq_cup | apply hub_sq_cupx | apply hub_frob_cup | apply hub_frob_cupx].
Qed.

(** the susceptibility <n_up ; n_up> of the same atom: A = B = c^+_up c_up = diag(0,1,0,1); the (1,1) term is dropped
    and resonant (it contributes beta w_1 at W_0); hypotheses of susc_spec_truncation_bound at every imaginary z *)
Definition hub_nup : list (list C) := [[c0; c0; c0; c0]; [c0; c1; c0; c0]; [c0; c0; c0; c0]; [c0; c0; c0; c1]].
Lemma hub_sq_nup : sq 4 hub_nup.
Proof. split; [reflexivity|]. intros row Hr. cbn in Hr. repeat (destruct Hr as [<-|Hr]; [reflexivity|]). destruct Hr. Qed.
Lemma hub_frob_nup : frob2 hub_nup = 2.
Proof. unfold frob2, hub_nup, c0, c1. cbn [lsum]. rewrite !Cmod_R, Rabs_R0, Rabs_R1. lra. Qed.

Example hub_susc_bound (tol : C) (y : R) (zf : bool) (pres : nat -> nat -> bool) :
  Cmod (Cminus
    (susc_mask C CNum (trunc_keep2 hub_drop pres) (RtoC 2) tol (map RtoC hub_E) (map RtoC hub_w) hub_nup hub_nup (0, y) zf)
    (susc_mask C CNum pres (RtoC 2) tol (map RtoC hub_E) (map RtoC hub_w) hub_nup hub_nup (0, y) zf))
  <= 2 * (1 / 10) * 2.
Proof.
  destruct hub_weights as [W1 [W2 W3]].
  eapply Rle_trans.
  - apply (susc_spec_truncation_bound 4 2 (1 / 10) tol (0, y) zf hub_E hub_w hub_nup hub_nup hub_drop pres);
      try assumption; try lra; try reflexivity; apply hub_sq_nup.
  - rewrite hub_frob_nup. lra.
Qed.
