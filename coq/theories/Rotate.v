(** Linear algebra behind C03 and C10 (ssreflect / mathcomp 1.15 style; this file only).

    Setting: matrices over an arbitrary field [F] with a ring involution [conj] (the identity for the real
    build, complex conjugation for the complex build); [adj A] is the conjugate transpose.

    C03  [similar_same_charpoly]     H U = U diag(d), U invertible  =>  char_poly H = prod_i (X - d_i):
                                     the multiset of reported eigenvalues is the spectrum with multiplicities.
         [blocks_diagonalise_full],  H block diagonal for a partition [blk] of the Fock states, U assembled from
         [blocks_unitary]            per-block eigenvector matrices (column g belongs to block [eblk g] and vanishes
                                     outside it), per block H_b U_b = U_b D_b and U_b^+ U_b = 1  =>
                                     H U = U diag(d) and U^+ U = 1 on the full space.  The per-block statements are
                                     written with sums restricted to the states of the block, which avoids dependent
                                     block sizes; [blocks2_diagonalise] is the same fact for explicit sub-matrices
                                     (block_mx) in the case of two blocks.
    C10  [rotation_formula]          the two-loop construction of FieldOperatorPart::compute, LeftMat * RightMat,
                                     equals U_to^+ O U_from for every O with at most one non-zero entry per column.
         [rotate_back]               with unitary U's: U_to (U_to^+ O U_from) U_from^+ = O.
         [annihilation_is_adjoint]   (U_to^+ O U_from)^+ = U_from^+ O^+ U_to: the adjoint of the stored block of c^+
                                     is the rotated block of (c^+)^+ = c  (the latter equality of Jordan-Wigner
                                     matrices is FockAdjoint.act_mono_adjoint / HPartProofs.jw_matrix_adjoint).
         [assembled_entry]           every entry of the assembled U^+ A U is the entry of the block-wise rotation.
         [car_eigenbasis]            {C_i, C^+_j} = delta_ij and {C_i, C_j} = 0 are inherited by the rotated matrices.
                                     The relations for the Jordan-Wigner matrices themselves are HYPOTHESES here
                                     ([car_fock], [cc_fock]); on basis states they are CAR.anticommute_distinct,
                                     CAR.same_op_twice, CAR.car_same_index (C05).

    What is NOT proved anywhere: that Eigen's solver returns (d, U) with small residuals (certified per run), and
    that small residuals imply eigenvalues close to the true spectrum (Weyl / Bauer-Fike; trusted mathematics). *)
From mathcomp Require Import all_ssreflect all_algebra fingroup perm.
Set Implicit Arguments.
Unset Strict Implicit.
Unset Printing Implicit Defensive.
Import GRing.Theory.
Local Open Scope ring_scope.

Section Similar.
Variable F : fieldType.

Theorem similar_same_charpoly n (H U : 'M[F]_n) (d : 'rV[F]_n) :
  U \in unitmx -> H *m U = U *m diag_mx d ->
  char_poly H = \prod_(i < n) ('X - (d 0 i)%:P).
Proof.
move=> Uu HU.
have E : char_poly_mx H *m map_mx polyC U = map_mx polyC U *m char_poly_mx (diag_mx d).
  rewrite /char_poly_mx mulmxBl mulmxBr -!map_mxM HU; congr (_ - _).
  by rewrite scalar_mxC.
have E2 : char_poly H * (\det U)%:P = (\det U)%:P * char_poly (diag_mx d).
  by rewrite /char_poly -det_map_mx -!det_mulmx E.
have nz : (\det U)%:P != 0 :> {poly F} by rewrite polyC_eq0 -unitfE -unitmxE.
move: E2; rewrite mulrC => /(mulfI nz) ->.
rewrite char_poly_trig ?diag_mx_is_trig //.
by apply: eq_bigr => i _; rewrite mxE eqxx mulr1n.
Qed.

(** explicit sub-matrices, two blocks *)
Lemma blocks2_diagonalise m n (A UA : 'M[F]_m) (Bm UB : 'M[F]_n) (dA : 'rV[F]_m) (dB : 'rV[F]_n) :
  A *m UA = UA *m diag_mx dA -> Bm *m UB = UB *m diag_mx dB ->
  block_mx A 0 0 Bm *m block_mx UA 0 0 UB = block_mx UA 0 0 UB *m diag_mx (row_mx dA dB).
Proof.
move=> EA EB; rewrite diag_mx_row !mulmx_block.
by rewrite !(mulmx0, mul0mx, addr0, add0r) EA EB.
Qed.

End Similar.

Section Adjoint.
Variable F : fieldType.
Variable conj : {rmorphism F -> F}.
Hypothesis conjK : involutive conj.

Definition adj m n (A : 'M[F]_(m, n)) : 'M[F]_(n, m) := (map_mx conj A)^T.

Lemma adjE m n (A : 'M[F]_(m, n)) i j : adj A i j = conj (A j i).
Proof. by rewrite !mxE. Qed.

Lemma adjK m n (A : 'M[F]_(m, n)) : adj (adj A) = A.
Proof. by apply/matrixP => i j; rewrite !adjE conjK. Qed.

Lemma adjM m n p (A : 'M[F]_(m, n)) (B : 'M[F]_(n, p)) : adj (A *m B) = adj B *m adj A.
Proof. by rewrite /adj map_mxM trmx_mul. Qed.

Definition unitary n (U : 'M[F]_n) := adj U *m U = 1%:M.

Lemma unitary_unit n (U : 'M[F]_n) : unitary U -> U \in unitmx.
Proof. by move=> /mulmx1_unit []. Qed.

Lemma unitaryC n (U : 'M[F]_n) : unitary U -> U *m adj U = 1%:M.
Proof. by move=> /mulmx1C. Qed.

(** C03: the spectrum statement for a unitary U *)
Corollary unitary_diagonalisation_spectrum n (H U : 'M[F]_n) (d : 'rV[F]_n) :
  unitary U -> H *m U = U *m diag_mx d -> char_poly H = \prod_(i < n) ('X - (d 0 i)%:P).
Proof. by move=> /unitary_unit; apply: similar_same_charpoly. Qed.

(** ** C10: rotation *)

Theorem rotate_back nt nf (Uto : 'M[F]_nt) (Ufrom : 'M[F]_nf) (O : 'M[F]_(nt, nf)) :
  unitary Uto -> unitary Ufrom ->
  Uto *m (adj Uto *m O *m Ufrom) *m adj Ufrom = O.
Proof.
move=> /unitaryC Ut /unitaryC Uf.
by rewrite !mulmxA Ut mul1mx -mulmxA Uf mulmx1.
Qed.

Theorem annihilation_is_adjoint nt nf (Uto : 'M[F]_nt) (Ufrom : 'M[F]_nf) (O : 'M[F]_(nt, nf)) :
  adj (adj Uto *m O *m Ufrom) = adj Ufrom *m adj O *m Uto.
Proof. by rewrite !adjM adjK mulmxA. Qed.

Section Rotation.
Variables (nt nf : nat) (Uto : 'M[F]_nt) (Ufrom : 'M[F]_nf) (O : 'M[F]_(nt, nf)).
(** [tgt k] = position in the left block of the image of the k-th state of the right block, if the operator
    does not annihilate it: result1.begin() in FieldOperatorPart.cpp:35-37 *)
Variable tgt : 'I_nf -> option 'I_nt.
Hypothesis one_per_column : forall k l, tgt k != Some l -> O l k = 0.

Definition sgn (k : 'I_nf) : F := if tgt k is Some l then O l k else 0.
(** LeftMat(n,k) = conj(HTo(l,n))      FieldOperatorPart.cpp:46-52 *)
Definition LeftMat : 'M[F]_(nt, nf) := \matrix_(n, k) if tgt k is Some l then conj (Uto l n) else 0.
(** RightMat(k,m) = sign * HFrom(k,m)  FieldOperatorPart.cpp:54-56 *)
Definition RightMat : 'M[F]_nf := \matrix_(k, m) if tgt k is Some _ then sgn k * Ufrom k m else 0.

Theorem rotation_formula : LeftMat *m RightMat = adj Uto *m O *m Ufrom.
Proof.
apply/matrixP => n m; rewrite !mxE; apply: eq_bigr => k _; rewrite !mxE.
case E: (tgt k) => [l|].
  rewrite (bigD1 l) //= big1 ?addr0 => [|l' ll'].
    by rewrite adjE /sgn E mulrA.
  by rewrite one_per_column ?mulr0 // E; apply: contra ll' => /eqP [->].
rewrite mul0r big1 ?mul0r // => l _.
by rewrite one_per_column ?mulr0 // E.
Qed.
End Rotation.

(** ** C03 / C10: assembling the blocks *)
Section Blocks.
Variable B : finType.                       (* block numbers *)
Variables (n : nat) (blk eblk : 'I_n -> B). (* block of a Fock state / of a global eigenvector index *)
Variables (H U : 'M[F]_n) (d : 'rV[F]_n).
Hypothesis H_block_diagonal : forall s t, blk s != blk t -> H s t = 0.
Hypothesis U_block_structured : forall s g, blk s != eblk g -> U s g = 0.

(** per block:  H_b U_b = U_b D_b  and  U_b^+ U_b = 1  (sums over the states of the block only) *)
Hypothesis block_eigen : forall s g, blk s = eblk g ->
  \sum_(t | blk t == eblk g) H s t * U t g = U s g * d 0 g.
Hypothesis block_orthonormal : forall g g', eblk g = eblk g' ->
  \sum_(s | blk s == eblk g) conj (U s g) * U s g' = (g == g')%:R.

Theorem blocks_diagonalise_full : H *m U = U *m diag_mx d.
Proof.
apply/matrixP => s g; rewrite mul_mx_diag [RHS]mxE [LHS]mxE.
rewrite (bigID (fun t => blk t == eblk g)) /= [X in _ + X]big1 ?addr0; last first.
  by move=> t ne; rewrite U_block_structured ?mulr0.
case E: (blk s == eblk g); first by rewrite block_eigen //; apply/eqP.
rewrite U_block_structured ?E // mul0r big1 // => t /eqP Et.
by rewrite H_block_diagonal ?mul0r // Et E.
Qed.

Theorem blocks_unitary : unitary U.
Proof.
apply/matrixP => g g'; rewrite !mxE.
under eq_bigr do rewrite adjE.
rewrite (bigID (fun s => blk s == eblk g)) /= [X in _ + X]big1 ?addr0; last first.
  by move=> s ne; rewrite U_block_structured ?rmorph0 ?mul0r.
case E: (eblk g == eblk g'); first by rewrite block_orthonormal //; apply/eqP.
rewrite big1 => [|s /eqP Es]; last by rewrite (@U_block_structured s g') ?mulr0 // Es E.
by case: (g =P g') => [gg|//]; move: E; rewrite gg eqxx.
Qed.

(** hence: the eigenvalues reported over all blocks are the spectrum of the full matrix *)
Corollary blocks_spectrum : char_poly H = \prod_(i < n) ('X - (d 0 i)%:P).
Proof.
exact: (unitary_diagonalisation_spectrum blocks_unitary blocks_diagonalise_full).
Qed.

(** every entry of the assembled rotated operator is an entry of the block-wise rotation
    U_to^+ A_(to,from) U_from with to = eblk g, from = eblk g' *)
Theorem assembled_entry (A : 'M[F]_n) g g' :
  (adj U *m A *m U) g g' =
  \sum_(s | blk s == eblk g) \sum_(t | blk t == eblk g') conj (U s g) * A s t * U t g'.
Proof.
rewrite -mulmxA mxE (bigID (fun s => blk s == eblk g)) /= [X in _ + X]big1 ?addr0; last first.
  by move=> s ne; rewrite adjE (U_block_structured ne) rmorph0 mul0r.
apply: eq_bigr => s _; rewrite adjE mxE big_distrr /=.
rewrite (bigID (fun t => blk t == eblk g')) /= [X in _ + X]big1 ?addr0; last first.
  by move=> t ne; rewrite (U_block_structured ne) !mulr0.
by apply: eq_bigr => t _; rewrite mulrA.
Qed.

End Blocks.

(** ** C10: the anticommutation relations in the eigenbasis *)
Section CAR.
Variables (n : nat) (U : 'M[F]_n) (I : eqType) (C CX : I -> 'M[F]_n).
Hypothesis U_unitary : unitary U.
Definition rot (A : 'M[F]_n) := adj U *m A *m U.

Lemma rotM A B : rot A *m rot B = rot (A *m B).
Proof. by rewrite /rot !mulmxA -(mulmxA (adj U *m A)) unitaryC // mulmx1. Qed.
Lemma rotD A B : rot A + rot B = rot (A + B).
Proof. by rewrite /rot mulmxDr mulmxDl. Qed.
Lemma rot_scalar a : rot a%:M = a%:M.
Proof. by rewrite /rot mul_mx_scalar -scalemxAl U_unitary scalemx1. Qed.

(** the relations of the Jordan-Wigner matrices (hypotheses here; C05 proves them on basis states) *)
Hypothesis car_fock : forall i j, C i *m CX j + CX j *m C i = ((i == j)%:R)%:M.
Hypothesis cc_fock : forall i j, C i *m C j + C j *m C i = 0.

Theorem car_eigenbasis i j :
  rot (C i) *m rot (CX j) + rot (CX j) *m rot (C i) = ((i == j)%:R)%:M
  /\ rot (C i) *m rot (C j) + rot (C j) *m rot (C i) = 0.
Proof.
split; first by rewrite !rotM rotD car_fock rot_scalar.
by rewrite !rotM rotD cc_fock /rot mulmx0 mul0mx.
Qed.
End CAR.

End Adjoint.

(** * The hypotheses of the theorems are satisfiable by non-trivial values (any field, any involution) *)
Section Examples.
Variable F : fieldType.
Variable conj : {rmorphism F -> F}.
Hypothesis conjK : involutive conj.

(** 1. diagonal in a permuted basis *)
Example ex_similar n (s : 'S_n) (d : 'rV[F]_n) :
  let U := perm_mx s in let H := U *m diag_mx d *m invmx U in
  U \in unitmx /\ H *m U = U *m diag_mx d.
Proof. by split; [exact: unitmx_perm | rewrite mulmxKV ?unitmx_perm]. Qed.

Example ex_perm_unitary n (s : 'S_n) : unitary conj (perm_mx s : 'M[F]_n).
Proof.
rewrite /unitary /adj map_perm_mx tr_perm_mx -perm_mxM.
by rewrite ?mulgV ?mulVg perm_mx1.
Qed.

(** 2. an operator with one non-zero entry per column *)
Example ex_one_per_column nt nf (f : 'I_nf -> 'I_nt) :
  let O : 'M[F]_(nt, nf) := \matrix_(l, k) (l == f k)%:R in
  forall k l, (Some (f k) : option 'I_nt) != Some l -> O l k = 0.
Proof. by move=> O k l ne; rewrite mxE; case: (l =P f k) ne => [->|//]; rewrite eqxx. Qed.

(** 3. every state its own block *)
Example ex_blocks n (d : 'rV[F]_n) :
  let H := diag_mx d in let U : 'M[F]_n := 1%:M in
  [/\ forall s t : 'I_n, s != t -> H s t = 0,
      forall s g : 'I_n, s != g -> U s g = 0,
      forall s g : 'I_n, s = g -> \sum_(t | t == g) H s t * U t g = U s g * d 0 g &
      forall g g' : 'I_n, g = g' -> \sum_(s | s == g) conj (U s g) * U s g' = (g == g')%:R].
Proof.
move=> H U; split.
- by move=> s t ne; rewrite mxE (negbTE ne) mulr0n.
- by move=> s g ne; rewrite mxE (negbTE ne).
- by move=> s g ->; rewrite big_pred1_eq !mxE eqxx mulr1n mulr1 mul1r.
- by move=> g g' <-; rewrite big_pred1_eq !mxE eqxx rmorph1 mulr1.
Qed.

(** 4. one fermionic mode: c = |0><1| *)
Definition exC : 'M[F]_2 := \matrix_(i, j) ((i == 0) && (j == 1))%:R.
Definition exCX : 'M[F]_2 := \matrix_(i, j) ((i == 1) && (j == 0))%:R.
Example ex_car : exC *m exCX + exCX *m exC = 1%:M /\ exC *m exC + exC *m exC = 0.
Proof.
split; apply/matrixP => i j; rewrite !mxE !big_ord_recl !big_ord0 !mxE /=;
  case: i => [[|[|i]] Hi] //; case: j => [[|[|j]] Hj] //=;
  by rewrite ?(mulr0, mul0r, mulr1, addr0, add0r, mulr1n, mulr0n).
Qed.
End Examples.
