(** Model of Pomerol::Operator (include/pomerol/Operator.h, src/pomerol/Operator.cpp):
    polynomials in creation / annihilation operators stored as a std::map from monomials
    to coefficients, with the normal-ordering bubble sort [normalize_and_insert] modelled
    loop for loop.  Coefficients are an abstract commutative ring [K] given by Section
    variables (executed at Z and at Q after extraction); the C++ "erase if |c| < 100 eps"
    is the exact zero test [kzero] here (the correspondence check only uses coefficients
    for which the two agree: small integers and dyadic rationals). *)
Require Import Bool List Arith.
From PV Require Import Outcome Fock.
Import ListNotations.

(** * Orders *)

Definition op_compare (a b : op) : comparison :=
  match fst a, fst b with
  | false, true => Lt
  | true, false => Gt
  | _, _ => Nat.compare (snd a) (snd b)
  end.
Definition op_eqb (a b : op) : bool := match op_compare a b with Eq => true | _ => false end.
Definition op_gtb (a b : op) : bool := match op_compare a b with Gt => true | _ => false end.

Definition monomial := list op.

Fixpoint lex_compare (a b : monomial) : comparison :=
  match a, b with
  | [], [] => Eq
  | [], _ :: _ => Lt
  | _ :: _, [] => Gt
  | x :: a', y :: b' => match op_compare x y with Eq => lex_compare a' b' | c => c end
  end.

(** friend operator<(monomial_t, monomial_t): size first, then lexicographic *)
Definition mono_compare (a b : monomial) : comparison :=
  match Nat.compare (length a) (length b) with
  | Eq => lex_compare a b
  | c => c
  end.

Section Poly.
Variable K : Type.
Variables (k0 k1 : K) (kadd kmul ksub : K -> K -> K) (kopp : K -> K).
Variable kzero : K -> bool.      (* std::abs(c) < 100*eps *)

(** std::map<monomial_t, MelemType>: association list strictly sorted by [mono_compare] *)
Definition poly := list (monomial * K).

(** target.insert(make_pair(m,c)); if present: it->second += c; erase_zero_monomial *)
Fixpoint insert (m : monomial) (c : K) (p : poly) : poly :=
  match p with
  | [] => [(m, c)]
  | (m', c') :: t =>
    match mono_compare m m' with
    | Lt => (m, c) :: p
    | Eq => let s := kadd c' c in if kzero s then t else (m', s) :: t
    | Gt => (m', c') :: insert m c t
    end
  end.

(** operator-=: insert(make_pair(m,-c)); if present: it->second -= c; erase_zero_monomial *)
Fixpoint insert_sub (m : monomial) (c : K) (p : poly) : poly :=
  match p with
  | [] => [(m, kopp c)]
  | (m', c') :: t =>
    match mono_compare m m' with
    | Lt => (m, kopp c) :: p
    | Eq => let s := ksub c' c in if kzero s then t else (m', s) :: t
    | Gt => (m', c') :: insert_sub m c t
    end
  end.

(** * normalize_and_insert *)

Inductive pass_result :=
| PassVanish (tgt : poly)                         (* `return` on two equal neighbours *)
| PassEnd (m : monomial) (c : K) (tgt : poly) (swapped : bool)
| PassFail (e : outcome poly).                    (* a nested call failed (fuel) *)

(** One execution of the inner [for (n = 1; n < m.size(); ++n)], as a zipper:
    the array is [rev done_rev ++ prev :: rest]; prev = m[n-1], hd rest = m[n].
    [rec] is normalize_and_insert itself (for the contraction call). *)
Fixpoint pass (rec : monomial -> K -> poly -> outcome poly)
         (done_rev : list op) (prev : op) (rest : list op) (c : K) (tgt : poly) (swapped : bool)
         {struct rest} : pass_result :=
  match rest with
  | [] => PassEnd (rev (prev :: done_rev)) c tgt swapped
  | cur :: rest' =>
    if op_eqb prev cur then PassVanish tgt
    else if op_gtb prev cur then
      (* are we swapping C and C^+ with the same index? *)
      let r := if op_eqb prev (flip_type cur)
               then rec (rev done_rev ++ rest') c tgt     (* coeff before the sign flip *)
               else Done tgt in
      match r with
      | Done tgt' =>
        (* coeff = -coeff; swap(prev, cur): m[n-1] = cur, m[n] = prev *)
        pass rec (cur :: done_rev) prev rest' (kopp c) tgt' true
      | e => PassFail e
      end
    else pass rec (prev :: done_rev) cur rest' c tgt swapped
  end.

Fixpoint normalize_and_insert (fuel : nat) (m : monomial) (c : K) (tgt : poly) {struct fuel}
  : outcome poly :=
  match fuel with
  | O => OutOfFuel
  | S f =>
    match m with
    | first :: (_ :: _) as rest =>            (* m.size() >= 2 *)
      match pass (normalize_and_insert f) [] first rest c tgt false with
      | PassVanish tgt' => Done tgt'
      | PassEnd m' c' tgt' true => normalize_and_insert f m' c' tgt'    (* while (is_swapped) *)
      | PassEnd m' c' tgt' false => Done (insert m' c' tgt')
      | PassFail e => e
      end
    | _ => Done (insert m c tgt)
    end
  end.

(** enough fuel: every pass with a swap removes at least one inversion (<= n^2 passes),
    contraction calls are on monomials two shorter *)
Definition fuel_for (m : monomial) : nat := S (length m) * S (length m) + 2.

Definition normalize (m : monomial) (c : K) (tgt : poly) : outcome poly :=
  normalize_and_insert (fuel_for m) m c tgt.

(** * Algebra *)

(** operator+=(Operator) / operator-=(Operator) *)
Definition padd (a b : poly) : poly := fold_left (fun acc mc => insert (fst mc) (snd mc) acc) b a.
Definition psub (a b : poly) : poly := fold_left (fun acc mc => insert_sub (fst mc) (snd mc) acc) b a.
(** unary minus *)
Definition pneg (a : poly) : poly := map (fun mc => (fst mc, kopp (snd mc))) a.
(** operator*=(MelemType) *)
Definition pscale (alpha : K) (a : poly) : poly :=
  if kzero alpha then [] else map (fun mc => (fst mc, kmul (snd mc) alpha)) a.
(** operator+=(MelemType), operator-=(MelemType) *)
Definition padd_const (alpha : K) (a : poly) : poly := insert [] alpha a.
Definition psub_const (alpha : K) (a : poly) : poly := insert_sub [] alpha a.

(** operator*=(Operator): for m in this, for m' in op: normalize_and_insert(m ++ m', c*c', tmp) *)
Definition pmul (a b : poly) : outcome poly :=
  fold_left (fun acc mc =>
    fold_left (fun acc' mc' =>
      bind acc' (fun t => normalize (fst mc ++ fst mc') (kmul (snd mc) (snd mc')) t))
      b acc) a (Done []).

Definition commutator (a b : poly) : outcome poly :=
  bind (pmul a b) (fun ab => bind (pmul b a) (fun ba => Done (psub ab ba))).
Definition anticommutator (a b : poly) : outcome poly :=
  bind (pmul a b) (fun ab => bind (pmul b a) (fun ba => Done (padd ab ba))).

(** operator==(map entries): std::equal(lhs.first.begin(), lhs.first.end(), rhs.first.begin())
    && |rhs.second - lhs.second| < 100 eps.
    [eq_mode = false] models the code before the repair (prefix comparison; reading past the
    end of the shorter right monomial is [OOB]); [eq_mode = true] the repaired comparison
    (sizes compared first). Which one is current is established by the correspondence check. *)
Fixpoint prefix_equal (a b : monomial) : outcome bool :=
  match a, b with
  | [], _ => Done true
  | _ :: _, [] => OOB
  | x :: a', y :: b' => if op_eqb x y then prefix_equal a' b' else Done false
  end.
Fixpoint mono_eqb (a b : monomial) : bool :=
  match a, b with
  | [], [] => true
  | x :: a', y :: b' => op_eqb x y && mono_eqb a' b'
  | _, _ => false
  end.

Definition entry_eq (sized : bool) (l r : monomial * K) : outcome bool :=
  if sized then Done (mono_eqb (fst l) (fst r) && kzero (ksub (snd r) (snd l)))
  else bind (prefix_equal (fst l) (fst r)) (fun b => Done (b && kzero (ksub (snd r) (snd l)))).

(** std::equal stops at the first mismatch *)
Fixpoint entries_equal (sized : bool) (a b : poly) : outcome bool :=
  match a, b with
  | [], _ => Done true
  | _ :: _, [] => OOB
  | x :: a', y :: b' =>
    bind (entry_eq sized x y) (fun e => if e then entries_equal sized a' b' else Done false)
  end.

(** operator==(Operator, Operator) *)
Definition poly_eq (sized : bool) (a b : poly) : outcome bool :=
  if length a =? length b then entries_equal sized a b else Done false.

(** Operator::commutes *)
Definition commutes (sized : bool) (a b : poly) : outcome bool :=
  bind (pmul a b) (fun ab => bind (pmul b a) (fun ba => poly_eq sized ab ba)).

(** * Presets (OperatorPresets.cpp, Operator.h) *)
Definition p_c (i : nat) : poly := [([cann i], k1)].
Definition p_cdag (i : nat) : poly := [([cdag i], k1)].
Definition p_n (i : nat) : poly := [([cdag i; cann i], k1)].
Definition p_n_offdiag (i j : nat) : poly := [([cdag i; cann j], k1)].
(** N::N(Nmodes): for index < Nmodes: *this += n(index) *)
Definition p_N (M : nat) : poly := fold_left (fun acc i => padd acc (p_n i)) (seq 0 M) [].

(** Sz::Sz(Nmodes, SpinUpIndices): the down indices are the modes not listed as up, in increasing
    order; the constructor throws exWrongLabel (Throws 1) when the two lists differ in length;
    generateTerms: *this += n(up_i)*0.5; *this -= n(down_i)*0.5 for i < |up| *)
Variable khalf : K.
Definition sz_down (M : nat) (ups : list nat) : list nat :=
  filter (fun i => negb (existsb (Nat.eqb i) ups)) (seq 0 M).
Definition p_Sz_lists (ups downs : list nat) : outcome poly :=
  if length ups =? length downs then
    Done (fold_left (fun acc ud => psub (padd acc (pscale khalf (p_n (fst ud)))) (pscale khalf (p_n (snd ud))))
                    (combine ups downs) [])
  else Throws 1.
Definition p_Sz (M : nat) (ups : list nat) : outcome poly := p_Sz_lists ups (sz_down M ups).

(** the specialised matrix elements: N::getMatrixElement(ket) = ket.count(),
    Sz::getMatrixElement(ket) = 0.5*(#up occupied - #down occupied), as (ups, downs) counts *)
Definition N_shortcut (ket : state) : nat := count_occ ket.
Definition Sz_shortcut (ups downs : list nat) (ket : state) : nat * nat :=
  (length (filter (fun i => nth i ket false) ups), length (filter (fun i => nth i ket false) downs)).

(** * Action on Fock states (Operator::actRight(ket), getMatrixElement) *)

(** result1[bra] += melem * coeff, for the monomials in map order; the result is a list of
    (state label as bit string, coefficient) in order of first insertion -- canonicalised
    (sorted, zero entries removed as by __is_zero) by the driver before comparison. *)
Fixpoint lc_add (s : state) (c : K) (l : list (state * K)) : list (state * K) :=
  match l with
  | [] => [(s, c)]
  | (s', c') :: t => if Nat.eqb (nat_of_state s) (nat_of_state s') then (s', kadd c' c) :: t
                     else (s', c') :: lc_add s c t
  end.

Definition act_poly (p : poly) (ket : state) : outcome (list (state * K)) :=
  fold_left (fun acc mc =>
    bind acc (fun l =>
      match act_mono (fst mc) ket with
      | Done (Some (sg, s')) => Done (lc_add s' (if sg then kopp (snd mc) else snd mc) l)
      | Done None => Done l
      | OOB => OOB | Uninit => Uninit | Throws c => Throws c | OutOfFuel => OutOfFuel
      end)) p (Done []).

End Poly.
