(** One part of the two-particle Green's function on DENSE data (C02 in the spine): for a part whose four sparse matrices are the
    compressed views ([SpineChi.smat_rows] / [smat_cols]) of dense n x n matrices X1 X2 X3 X4 in the eigenbasis, the sum of the
    values of all terms that TwoParticleGFPart::compute hands to its two term lists (guards applied, the code's resonance tests)
    is  sign * EDSpec.chi_ordering beta tol E w X1 X2 X3 X4 y1 y2 y3  -- the documented Lehmann 4-chain sum of that operator
    ordering at the permuted frequencies.  This is the "DIRECT form" announced in the header of PV.ChiLehmann, built from
      ChiProofs.part_visits_spec / spec_visits      every quadruple with four stored matrix elements is visited exactly once,
      ChiLehmann.multiterm_emitted_value            one addMultiterm call emits Coeff * phi_doc(code's resonance decisions),
    plus the regrouping of the visit sum (index1, index3 outer; index2, index4 inner) into the specification's nested sum.

    HYPOTHESES (all explicit):
      [Hkeep] / [nz_exact] / [guards_exact]   exact form: prune, the specification's "skip vanishing elements" test and the
                                              coefficient guards of addMultiterm drop exact zeros only;
      [chi_regular]                           the frequency triple is regular for the eigen-data: no fermionic denominator
                                              vanishes, the code's resonance test |y1+y2-P1-P2| < tol agrees with the
                                              specification's test |y1+y2| < tol && |Ei-Ek| < tol and a non-resonant bosonic
                                              denominator does not vanish (likewise for y2+y3), the weight guard
                                              w1+w2+w3+w4 >= CoefficientTolerance passes;
      [termlists_faithful] (SpineChiOneBlock) the two term lists evaluate to the sum of the terms handed to them (no term lost,
                                              merged or dropped with an effect on the value) -- NOT proved here.  *)
Require Import Bool List Arith ZArith Lia Field Ring.
From PV Require Import Outcome EDSpec HPartProofs Spine SpineSparseProofs Chi ChiProofs ChiLehmann SpineChi.
From PVgen Require Import Gen_Multiterm.
Import ListNotations.

Section PartDense.
Variable K : Type.
Variable NO : numops K.
Notation "0" := (n0 K NO).
Notation "1" := (n1 K NO).
Notation kadd := (nadd K NO).
Notation ksub := (nsub K NO).
Notation kmul := (nmul K NO).
Notation kdiv := (ndiv K NO).
Notation kopp := (nopp K NO).
Notation ltb := (nre_ltb K NO).
Notation kabs := (nabs K NO).
Notation ofZ := (nofZ K NO).
Infix "+" := (nadd K NO).
Infix "*" := (nmul K NO).
Infix "-" := (nsub K NO).
Infix "/" := (ndiv K NO).
Notation "- x" := (nopp K NO x).
Hypothesis Kf : field_theory 0 1 kadd kmul ksub kopp kdiv (ChiLehmann.kinv K NO) (@eq K).
Add Field KfieldPD : Kf.
Notation lsum := (ChiLehmann.lsum K NO).
Notation lsum_app := (ChiLehmann.lsum_app K NO Kf).
Notation lsum_zero := (ChiLehmann.lsum_zero K NO Kf).
Notation lsum_flat_map := (ChiLehmann.lsum_flat_map K NO Kf).
Notation lsum_scal := (ChiLehmann.lsum_scal K NO Kf).
Notation ksum_lsum := (ChiLehmann.ksum_lsum K NO Kf).
Notation lsum_filter_guard := (ChiLehmann.lsum_filter_guard K NO Kf).
Notation G f := (f K kadd ksub kmul kdiv kopp (abs_gt K NO) (abs_lt K NO) (real_ge K NO)) (only parsing).

(** * Sums *)
Lemma lsum_filter {A} (p : A -> bool) (l : list A) (f : A -> K) : lsum (filter p l) f = lsum l (fun a => if p a then f a else 0).
Proof.
  induction l as [|a l IH]; [reflexivity|]. cbn [filter]. rewrite lsum_cons. destruct (p a); [rewrite lsum_cons|]; rewrite IH; ring.
Qed.
Lemma lsum_plus {A} (l : list A) (f g : A -> K) : lsum l (fun a => f a + g a) = lsum l f + lsum l g.
Proof. induction l as [|a l IH]; [rewrite !lsum_nil; ring|]. rewrite !lsum_cons, IH. ring. Qed.
Lemma lsum_swap {A B} (l1 : list A) (l2 : list B) (f : A -> B -> K) :
  lsum l1 (fun a => lsum l2 (f a)) = lsum l2 (fun b => lsum l1 (fun a => f a b)).
Proof.
  induction l1 as [|a l1 IH]; [rewrite lsum_nil; symmetry; apply lsum_zero; intros; apply lsum_nil|].
  rewrite lsum_cons, IH, <- lsum_plus. apply lsum_ext. intros b _. rewrite lsum_cons. reflexivity.
Qed.
Lemma lsum_scal_r {A} (l : list A) (f : A -> K) (c : K) : lsum l (fun a => f a * c) = lsum l f * c.
Proof. induction l as [|a l IH]; [rewrite !lsum_nil; ring|]. rewrite !lsum_cons, IH. ring. Qed.
Lemma lsum_concat {A} (ls : list (list A)) (f : A -> K) : lsum (concat ls) f = lsum ls (fun l => lsum l f).
Proof. induction ls as [|l ls IH]; [reflexivity|]. cbn [concat]. rewrite lsum_app, lsum_cons, IH. reflexivity. Qed.

Lemma lsum_combine_seq {A} (d : A) (F : nat -> A -> K) : forall (r : list A) (s : nat),
  lsum (combine (seq s (length r)) r) (fun iv => F (fst iv) (snd iv)) = lsum (seq s (length r)) (fun j => F j (nth (j - s) r d)).
Proof.
  induction r as [|x r IH]; intros s; [reflexivity|]. cbn [length seq combine]. rewrite !lsum_cons. cbn [fst snd].
  rewrite Nat.sub_diag. cbn [nth]. f_equal. rewrite IH. apply lsum_ext. intros j Hj. apply in_seq in Hj.
  replace (j - s)%nat with (S (j - S s)) by lia. reflexivity.
Qed.

Lemma lsum_idx {A} (d : A) (F : nat -> A -> K) (r : list A) :
  lsum (idx r) (fun iv => F (fst iv) (snd iv)) = lsum (seq 0 (length r)) (fun j => F j (nth j r d)).
Proof. unfold idx. rewrite (lsum_combine_seq d F r 0). apply lsum_ext. intros j _. rewrite Nat.sub_0_r. reflexivity. Qed.

Lemma lsum_sparse_row (kp : K -> bool) (F : nat -> K -> K) (r : list K) :
  lsum (sparse_row K kp r) (fun iv => F (fst iv) (snd iv)) = lsum (seq 0 (length r)) (fun j => if kp (nth j r 0) then F j (nth j r 0) else 0).
Proof.
  unfold sparse_row. rewrite lsum_filter.
  exact (lsum_idx 0 (fun j x => if kp x then F j x else 0) r).
Qed.

Lemma in_combine_seq {A} (d : A) : forall (r : list A) (s l : nat) (v : A),
  In (l, v) (combine (seq s (length r)) r) -> s <= l < s + length r /\ v = nth (l - s) r d.
Proof.
  induction r as [|x r IH]; intros s l v H; [destruct H|]. cbn [length seq combine] in H. destruct H as [H|H].
  - injection H as <- <-. rewrite Nat.sub_diag. cbn [length nth]. split; [lia|reflexivity].
  - destruct (IH (S s) l v H) as [H1 H2]. cbn [length]. split; [lia|]. replace (l - s)%nat with (S (l - S s)) by lia. exact H2.
Qed.

Lemma in_sparse_row (kp : K -> bool) (r : list K) l v : In (l, v) (sparse_row K kp r) -> l < length r /\ v = nth l r 0.
Proof.
  unfold sparse_row, idx. intros H. apply filter_In in H. destruct H as [H _].
  destruct (in_combine_seq 0 r 0 l v H) as [H1 H2]. rewrite Nat.sub_0_r in H2. split; [lia|exact H2].
Qed.

Lemma common_mem (ket bra : slice K) e : In e (common K ket bra) ->
  In (fst (fst e), snd (fst e)) ket /\ In (fst (fst e), snd e) bra.
Proof.
  induction ket as [|[i v] kt IH]; intros H; [destruct H|]. cbn [common] in H.
  destruct (find (fun e0 : nat * K => fst e0 =? i) bra) as [e'|] eqn:Fd.
  - destruct H as [H|H].
    + subst e. cbn [fst snd]. split; [left; reflexivity|]. apply find_some in Fd. destruct Fd as [Hin Heq].
      apply Nat.eqb_eq in Heq. destruct e' as [i' u]. cbn [fst snd] in *. subst i'. exact Hin.
    + destruct (IH H) as [H1 H2]. split; [right; exact H1|exact H2].
  - destruct (IH H) as [H1 H2]. split; [right; exact H1|exact H2].
Qed.

(** * Compressed rows *)
Variable keepf : K -> bool.
Hypothesis Hkeep : forall x, keepf x = false -> x = 0.
Notation srow := (sparse_row K keepf).

Lemma lsum_srow (F : nat -> K -> K) (r : list K) :
  lsum (srow r) (fun iv => F (fst iv) (snd iv)) = lsum (seq 0 (length r)) (fun j => if keepf (nth j r 0) then F j (nth j r 0) else 0).
Proof. apply lsum_sparse_row. Qed.

Lemma find_filter_combine (i : nat) : forall (r : list K) (s : nat),
  find (fun e : nat * K => fst e =? i) (filter (fun jc : nat * K => keepf (snd jc)) (combine (seq s (length r)) r)) =
  if (s <=? i) && (i <? s + length r) && keepf (nth (i - s) r 0) then Some (i, nth (i - s) r 0) else None.
Proof.
  induction r as [|x r IH]; intros s.
  - cbn [length seq combine filter find]. destruct (Nat.leb_spec s i); destruct (Nat.ltb_spec i (s + 0)); try reflexivity; lia.
  - cbn [length seq combine filter snd].
    destruct (Nat.eq_dec s i) as [->|Hne].
    + rewrite Nat.sub_diag. cbn [nth]. destruct (Nat.leb_spec i i); [|lia]. destruct (Nat.ltb_spec i (i + S (length r))); [|lia]. cbn [andb].
      destruct (keepf x) eqn:Kx.
      * cbn [find fst]. rewrite Nat.eqb_refl. reflexivity.
      * rewrite IH. destruct (Nat.leb_spec (S i) i); [lia|]. reflexivity.
    + assert (Hfind : find (fun e : nat * K => fst e =? i)
                (if keepf x then (s, x) :: filter (fun jc : nat * K => keepf (snd jc)) (combine (seq (S s) (length r)) r)
                 else filter (fun jc : nat * K => keepf (snd jc)) (combine (seq (S s) (length r)) r)) =
              find (fun e : nat * K => fst e =? i) (filter (fun jc : nat * K => keepf (snd jc)) (combine (seq (S s) (length r)) r))).
      { destruct (keepf x); [|reflexivity]. cbn [find fst]. destruct (Nat.eqb_spec s i); [lia|reflexivity]. }
      rewrite Hfind, IH.
      destruct (Nat.leb_spec (S s) i); destruct (Nat.leb_spec s i); try lia.
      * replace (i - s)%nat with (S (i - S s)) by lia. cbn [nth].
        destruct (Nat.ltb_spec i (S s + length r)); destruct (Nat.ltb_spec i (s + S (length r))); try lia; reflexivity.
      * reflexivity.
Qed.

Lemma find_srow (r : list K) i :
  find (fun e : nat * K => fst e =? i) (srow r) = if (i <? length r) && keepf (nth i r 0) then Some (i, nth i r 0) else None.
Proof. unfold sparse_row, idx. rewrite (find_filter_combine i r 0). cbn [Nat.leb andb Nat.add]. rewrite Nat.sub_0_r. reflexivity. Qed.

(** the merge of two compressed rows as a dense sum *)
Lemma lsum_common (H : nat -> K -> K -> K) (ket bra : slice K) :
  lsum (common K ket bra) (fun e => H (fst (fst e)) (snd (fst e)) (snd e)) =
  lsum ket (fun iv => match find (fun e : nat * K => fst e =? fst iv) bra with Some e => H (fst iv) (snd iv) (snd e) | None => 0 end).
Proof.
  induction ket as [|[i v] kt IH]; [reflexivity|]. cbn [common]. rewrite lsum_cons. cbn [fst snd].
  destruct (find (fun e : nat * K => fst e =? i) bra) as [e|]; [rewrite lsum_cons; cbn [fst snd]|]; rewrite IH; ring.
Qed.

Lemma common_dense (H : nat -> K -> K -> K) (r1 r2 : list K) n : length r1 = n -> length r2 = n ->
  (forall j u, H j 0 u = 0) -> (forall j v, H j v 0 = 0) ->
  lsum (common K (srow r1) (srow r2)) (fun e => H (fst (fst e)) (snd (fst e)) (snd e)) =
  lsum (seq 0 n) (fun j => H j (nth j r1 0) (nth j r2 0)).
Proof.
  intros L1 L2 Hz1 Hz2. rewrite lsum_common.
  rewrite (lsum_srow (fun j v => match find (fun e : nat * K => fst e =? j) (srow r2) with Some e => H j v (snd e) | None => 0 end) r1).
  rewrite L1. apply lsum_ext. intros j Hj. apply in_seq in Hj. rewrite find_srow, L2.
  destruct (Nat.ltb_spec j n); [|lia]. cbn [andb].
  destruct (keepf (nth j r1 0)) eqn:K1; destruct (keepf (nth j r2 0)) eqn:K2; cbn [snd].
  - reflexivity.
  - rewrite (Hkeep _ K2), Hz2. reflexivity.
  - rewrite (Hkeep _ K1), Hz1. reflexivity.
  - rewrite (Hkeep _ K1), Hz1. reflexivity.
Qed.

Notation rows := (smat_rows K keepf).
Notation cols := (smat_cols K NO keepf).

Lemma outer_rows (D : mat K) o : outer K (rows D) o = srow (nth o D []).
Proof. unfold outer, smat_rows. change (@nil (nat * K)) with (srow []). apply map_nth. Qed.

Lemma coeff_rows (D : mat K) o i : i < length (nth o D []) -> coeff K NO (rows D) o i = nth i (nth o D []) 0.
Proof.
  intros Hi. unfold coeff. rewrite outer_rows, find_srow. destruct (Nat.ltb_spec i (length (nth o D []))); [|lia]. cbn [andb].
  destruct (keepf (nth i (nth o D []) 0)) eqn:Kx; [reflexivity|]. symmetry. apply Hkeep. exact Kx.
Qed.

Lemma col_entry (n : nat) (D : mat K) c i : c < n -> nth i (nth c (transpose K NO n D) []) 0 = nth c (nth i D []) 0.
Proof.
  intros Hc. rewrite (transpose_nth K NO n D c Hc).
  destruct (Nat.lt_ge_cases i (length D)) as [Hi|Hi].
  - rewrite (nth_indep _ 0 ((fun r => nth c r 0) []) ) by (rewrite map_length; exact Hi). rewrite (map_nth (fun r => nth c r 0)). reflexivity.
  - rewrite nth_overflow by (rewrite map_length; exact Hi). rewrite (nth_overflow D) by exact Hi. destruct c; reflexivity.
Qed.

Lemma col_length (n : nat) (D : mat K) c : c < n -> length (nth c (transpose K NO n D) []) = length D.
Proof. intros Hc. rewrite (transpose_nth K NO n D c Hc). apply map_length. Qed.

(** * A part on dense data *)
Variable tl : tols K.
Hypothesis guards_exact : forall x, abs_gt K NO x (t_coeff K tl) = false -> x = 0.
Hypothesis nz_exact : forall x, ltb 0 (kabs x) = false -> x = 0.
Variable n : nat.
Variables E w : list K.
Variable beta : K.
Variables X1 X2 X3 X4 : mat K.
Hypothesis SQ1 : square K n X1.
Hypothesis SQ2 : square K n X2.
Hypothesis SQ3 : square K n X3.
Hypothesis SQ4 : square K n X4.
Variable perm : nat * nat * nat.
Variable sg : Z.
Notation tol := (t_reduce K tl).

Definition dense_part : part_in K :=
  {| p_O1 := rows X1; p_O2 := cols n X2; p_O3 := rows X3; p_CX4 := cols n X4;
     p_E1 := E; p_E2 := E; p_E3 := E; p_E4 := E; p_W1 := w; p_W2 := w; p_W3 := w; p_W4 := w;
     p_beta := beta; p_perm := perm; p_sign := sg; p_blocks := (0, 0, 0, 0)%Z |}.
Notation p := dense_part.

Variables y1 y2 y3 : K.

(** regularity of the frequency triple (y1, y2, y3) for the eigen-data, per quadruple of states *)
Definition quad_ok (a b c d : nat) : Prop :=
  let Ea := nth a E 0 in let Eb := nth b E 0 in let Ec := nth c E 0 in let Ed := nth d E 0 in
  y1 + Ea - Eb <> 0 /\ y2 + Eb - Ec <> 0 /\ y3 + Ec - Ed <> 0 /\ y1 + y2 + y3 + Ea - Ed <> 0 /\
  code_res K NO tl true Ea Eb Ec Ed y1 y2 y3 = (ltb (kabs (y1 + y2)) tol && ltb (kabs (Ea - Ec)) tol) /\
  code_res K NO tl false Ea Eb Ec Ed y1 y2 y3 = (ltb (kabs (y2 + y3)) tol && ltb (kabs (Eb - Ed)) tol) /\
  (code_res K NO tl true Ea Eb Ec Ed y1 y2 y3 = false -> y1 + y2 + Ea - Ec <> 0) /\
  (code_res K NO tl false Ea Eb Ec Ed y1 y2 y3 = false -> y2 + y3 + Eb - Ed <> 0) /\
  G compute_weight_guard (t_coeff K tl) (nth a w 0) (nth b w 0) (nth c w 0) (nth d w 0) = true.
Definition chi_regular : Prop := forall a b c d, a < n -> b < n -> c < n -> d < n -> quad_ok a b c d.
Hypothesis REG : chi_regular.

Definition PHI (a b c d : nat) : K :=
  phi K NO beta tol (nth a E 0) (nth b E 0) (nth c E 0) (nth d E 0) (nth a w 0) (nth b w 0) (nth c w 0) (nth d w 0) y1 y2 y3.

(** one execution of the innermost body: Coeff * phi, Coeff = the four matrix elements times the sign *)
Lemma visit_value (i1 i2 i3 i4 : nat) (a b : K) : i1 < n -> i2 < n -> i3 < n -> i4 < n ->
  emitted_value K NO tl y1 y2 y3
    (visit_emissions K NO tl p {| v_i1 := i1; v_i2 := i2; v_i3 := i3; v_i4 := i4; v_O1 := a; v_O2 := b |}) =
  (a * b * nth i4 (nth i3 X3 []) 0 * nth i1 (nth i4 X4 []) 0) * signK K NO sg * PHI i1 i2 i3 i4.
Proof.
  intros H1 H2 H3 H4. destruct (REG i1 i2 i3 i4 H1 H2 H3 H4) as [D1 [D2 [D3 [D4 [R12 [R23 [N12 [N23 WG]]]]]]]].
  unfold visit_emissions. cbn [v_i1 v_i2 v_i3 v_i4 v_O1 v_O2 p_E1 p_E2 p_E3 p_E4 p_W1 p_W2 p_W3 p_W4 p_O3 p_CX4 p_beta p_sign dense_part].
  rewrite WG. unfold compute_call.
  rewrite (multiterm_emitted_value K NO Kf tl guards_exact _ beta _ _ _ _ _ _ _ _ y1 y2 y3 D1 D2 D3 D4 N12 N23).
  rewrite R12, R23. unfold compute_apply_sign, compute_matrix_element.
  rewrite (coeff_rows X3 i3 i4) by (rewrite (proj2 SQ3 i3 H3); exact H4).
  unfold smat_cols. rewrite (coeff_rows (transpose K NO n X4) i1 i4) by (rewrite (col_length n X4 i1 H1), (proj1 SQ4); exact H4).
  rewrite (col_entry n X4 i1 i4 H1). unfold PHI, phi_doc, phi. reflexivity.
Qed.

Lemma common_srow_lt (r1 : list K) (bra : slice K) e : In e (common K (srow r1) bra) -> fst (fst e) < length r1.
Proof. intros H. destruct (common_mem _ _ _ H) as [H1 _]. exact (proj1 (in_sparse_row keepf r1 _ _ H1)). Qed.

Lemma common_srow_vals (r1 r2 : list K) e : In e (common K (srow r1) (srow r2)) ->
  snd (fst e) = nth (fst (fst e)) r1 0 /\ snd e = nth (fst (fst e)) r2 0.
Proof.
  intros H. destruct (common_mem _ _ _ H) as [H1 H2].
  split; [exact (proj2 (in_sparse_row keepf r1 _ _ H1))|exact (proj2 (in_sparse_row keepf r2 _ _ H2))].
Qed.

Lemma rows_length (D : mat K) : length (rows D) = length D.
Proof. unfold smat_rows. apply map_length. Qed.
Lemma cols_length (D : mat K) : length (cols n D) = n.
Proof. unfold smat_cols. rewrite rows_length. unfold transpose. apply transpose_aux_length. Qed.

(** the visit sum as a dense quadruple sum *)
Definition visit_total : K :=
  lsum (spec_visits K p) (fun v => emitted_value K NO tl y1 y2 y3 (visit_emissions K NO tl p v)).

Definition dense_term (i j k l : nat) : K :=
  nth j (nth i X1 []) 0 * nth k (nth j X2 []) 0 * nth l (nth k X3 []) 0 * nth i (nth l X4 []) 0 * PHI i j k l.

Lemma visit_total_dense :
  visit_total = signK K NO sg * lsum (seq 0 n) (fun i => lsum (seq 0 n) (fun j => lsum (seq 0 n) (fun k => lsum (seq 0 n) (fun l => dense_term i j k l)))).
Proof.
  unfold visit_total, spec_visits. cbn [p_CX4 p_O2 dense_part]. rewrite !cols_length.
  rewrite lsum_flat_map.
  transitivity (lsum (seq 0 n) (fun i => lsum (seq 0 n) (fun k => lsum (seq 0 n) (fun j => lsum (seq 0 n) (fun l =>
                  signK K NO sg * dense_term i j k l))))).
  - apply lsum_ext. intros i1 Hi1. apply in_seq in Hi1. rewrite lsum_flat_map.
    apply lsum_ext. intros i3 Hi3. apply in_seq in Hi3.
    unfold spec13. cbn [p_O1 p_O2 p_O3 p_CX4 dense_part]. rewrite lsum_flat_map.
    unfold smat_cols. rewrite !outer_rows.
    set (r1 := nth i1 X1 []). set (c2 := nth i3 (transpose K NO n X2) []).
    set (r3 := nth i3 X3 []). set (c4 := nth i1 (transpose K NO n X4) []).
    assert (L1 : length r1 = n) by (apply (proj2 SQ1); lia).
    assert (L2 : length c2 = n) by (unfold c2; rewrite col_length by lia; exact (proj1 SQ2)).
    assert (L3 : length r3 = n) by (apply (proj2 SQ3); lia).
    assert (L4 : length c4 = n) by (unfold c4; rewrite col_length by lia; exact (proj1 SQ4)).
    (* inner sums in product form, on the members *)
    transitivity (lsum (common K (srow r1) (srow c2)) (fun e2 =>
                    (fun j a b => lsum (seq 0 n) (fun l => (a * b * nth l r3 0 * nth l c4 0) * signK K NO sg * PHI i1 j i3 l))
                      (fst (fst e2)) (snd (fst e2)) (snd e2))).
    { apply lsum_ext. intros e2 He2. rewrite (ChiLehmann.lsum_map K NO).
      pose proof (common_srow_lt r1 _ e2 He2) as Hj. rewrite L1 in Hj.
      transitivity (lsum (common K (srow r3) (srow c4)) (fun e4 =>
                      (fun l v u => (snd (fst e2) * snd e2 * v * u) * signK K NO sg * PHI i1 (fst (fst e2)) i3 l)
                        (fst (fst e4)) (snd (fst e4)) (snd e4))).
      - apply lsum_ext. intros e4 He4. pose proof (common_srow_lt r3 _ e4 He4) as Hl. rewrite L3 in Hl.
        destruct (common_srow_vals r3 c4 e4 He4) as [V3 V4]. unfold mk_visit.
        rewrite (visit_value i1 (fst (fst e2)) i3 (fst (fst e4)) (snd (fst e2)) (snd e2)) by lia.
        cbv beta. rewrite V3, V4. unfold r3, c4. rewrite (col_entry n X4 i1 (fst (fst e4))) by lia. reflexivity.
      - apply (common_dense (fun l v u => (snd (fst e2) * snd e2 * v * u) * signK K NO sg * PHI i1 (fst (fst e2)) i3 l) r3 c4 n L3 L4);
          intros; ring. }
    rewrite (common_dense (fun j a b => lsum (seq 0 n) (fun l => (a * b * nth l r3 0 * nth l c4 0) * signK K NO sg * PHI i1 j i3 l)) r1 c2 n L1 L2).
    + apply lsum_ext. intros j Hj. apply in_seq in Hj. apply lsum_ext. intros l Hl. apply in_seq in Hl.
      unfold dense_term, r1, c2, r3, c4. rewrite (col_entry n X2 i3 j) by lia. rewrite (col_entry n X4 i1 l) by lia. ring.
    + intros j u. apply lsum_zero. intros l _. ring.
    + intros j v. apply lsum_zero. intros l _. ring.
  - rewrite <- lsum_scal. apply lsum_ext. intros i _.
    rewrite (lsum_swap (seq 0 n) (seq 0 n) (fun k j => lsum (seq 0 n) (fun l => signK K NO sg * dense_term i j k l))).
    rewrite <- lsum_scal. apply lsum_ext. intros j _. rewrite <- lsum_scal. apply lsum_ext. intros k _. rewrite <- lsum_scal. reflexivity.
Qed.

(** the specification's nested sum as the same dense quadruple sum *)
Lemma chi_ordering_dense :
  chi_ordering K NO beta tol E w X1 X2 X3 X4 y1 y2 y3 =
  lsum (seq 0 n) (fun i => lsum (seq 0 n) (fun j => lsum (seq 0 n) (fun k => lsum (seq 0 n) (fun l => dense_term i j k l)))).
Proof.
  unfold chi_ordering. rewrite ksum_lsum.
  rewrite (lsum_idx [] (fun i row => ksum K NO (filter (fun jc : nat * K => ltb 0 (kabs (snd jc))) (idx row)) (fun ja =>
             ksum K NO (filter (fun jc : nat * K => ltb 0 (kabs (snd jc))) (idx (nth (fst ja) X2 []))) (fun kb =>
             ksum K NO (filter (fun jc : nat * K => ltb 0 (kabs (snd jc))) (idx (nth (fst kb) X3 []))) (fun lc =>
               snd ja * snd kb * snd lc * mget K NO X4 (fst lc) i *
               phi K NO beta tol (nth i E 0) (nth (fst ja) E 0) (nth (fst kb) E 0) (nth (fst lc) E 0)
                   (nth i w 0) (nth (fst ja) w 0) (nth (fst kb) w 0) (nth (fst lc) w 0) y1 y2 y3)))) X1).
  rewrite (proj1 SQ1). apply lsum_ext. intros i Hi. apply in_seq in Hi.
  rewrite ksum_lsum.
  change (filter (fun jc : nat * K => ltb 0 (kabs (snd jc))) (idx (nth i X1 []))) with (sparse_row K (fun x => ltb 0 (kabs x)) (nth i X1 [])).
  rewrite (lsum_sparse_row (fun x => ltb 0 (kabs x)) (fun j a =>
             ksum K NO (filter (fun jc : nat * K => ltb 0 (kabs (snd jc))) (idx (nth j X2 []))) (fun kb =>
             ksum K NO (filter (fun jc : nat * K => ltb 0 (kabs (snd jc))) (idx (nth (fst kb) X3 []))) (fun lc =>
               a * snd kb * snd lc * mget K NO X4 (fst lc) i *
               phi K NO beta tol (nth i E 0) (nth j E 0) (nth (fst kb) E 0) (nth (fst lc) E 0)
                   (nth i w 0) (nth j w 0) (nth (fst kb) w 0) (nth (fst lc) w 0) y1 y2 y3))) (nth i X1 [])).
  rewrite (proj2 SQ1 i) by lia. apply lsum_ext. intros j Hj. apply in_seq in Hj.
  (* j-level *)
  assert (Ej : forall a,
    ksum K NO (filter (fun jc : nat * K => ltb 0 (kabs (snd jc))) (idx (nth j X2 []))) (fun kb =>
      ksum K NO (filter (fun jc : nat * K => ltb 0 (kabs (snd jc))) (idx (nth (fst kb) X3 []))) (fun lc =>
        a * snd kb * snd lc * mget K NO X4 (fst lc) i *
        phi K NO beta tol (nth i E 0) (nth j E 0) (nth (fst kb) E 0) (nth (fst lc) E 0)
            (nth i w 0) (nth j w 0) (nth (fst kb) w 0) (nth (fst lc) w 0) y1 y2 y3)) =
    lsum (seq 0 n) (fun k => lsum (seq 0 n) (fun l => a * nth k (nth j X2 []) 0 * nth l (nth k X3 []) 0 * nth i (nth l X4 []) 0 * PHI i j k l))).
  { intros a. rewrite ksum_lsum.
    change (filter (fun jc : nat * K => ltb 0 (kabs (snd jc))) (idx (nth j X2 []))) with (sparse_row K (fun x => ltb 0 (kabs x)) (nth j X2 [])).
    rewrite (lsum_sparse_row (fun x => ltb 0 (kabs x)) (fun k b =>
               ksum K NO (filter (fun jc : nat * K => ltb 0 (kabs (snd jc))) (idx (nth k X3 []))) (fun lc =>
                 a * b * snd lc * mget K NO X4 (fst lc) i *
                 phi K NO beta tol (nth i E 0) (nth j E 0) (nth k E 0) (nth (fst lc) E 0)
                     (nth i w 0) (nth j w 0) (nth k w 0) (nth (fst lc) w 0) y1 y2 y3)) (nth j X2 [])).
    rewrite (proj2 SQ2 j) by lia. apply lsum_ext. intros k Hk. apply in_seq in Hk.
    assert (Ek : forall b,
      ksum K NO (filter (fun jc : nat * K => ltb 0 (kabs (snd jc))) (idx (nth k X3 []))) (fun lc =>
        a * b * snd lc * mget K NO X4 (fst lc) i *
        phi K NO beta tol (nth i E 0) (nth j E 0) (nth k E 0) (nth (fst lc) E 0)
            (nth i w 0) (nth j w 0) (nth k w 0) (nth (fst lc) w 0) y1 y2 y3) =
      lsum (seq 0 n) (fun l => a * b * nth l (nth k X3 []) 0 * nth i (nth l X4 []) 0 * PHI i j k l)).
    { intros b. rewrite ksum_lsum.
      change (filter (fun jc : nat * K => ltb 0 (kabs (snd jc))) (idx (nth k X3 []))) with (sparse_row K (fun x => ltb 0 (kabs x)) (nth k X3 [])).
      rewrite (lsum_sparse_row (fun x => ltb 0 (kabs x)) (fun l c =>
                 a * b * c * mget K NO X4 l i *
                 phi K NO beta tol (nth i E 0) (nth j E 0) (nth k E 0) (nth l E 0)
                     (nth i w 0) (nth j w 0) (nth k w 0) (nth l w 0) y1 y2 y3) (nth k X3 [])).
      rewrite (proj2 SQ3 k) by lia. apply lsum_ext. intros l _. unfold PHI, mget.
      destruct (ltb 0 (kabs (nth l (nth k X3 []) 0))) eqn:Z; [reflexivity|]. rewrite (nz_exact _ Z). ring. }
    rewrite Ek. destruct (ltb 0 (kabs (nth k (nth j X2 []) 0))) eqn:Z; [reflexivity|].
    rewrite (nz_exact _ Z). symmetry. apply lsum_zero. intros l _. ring. }
  rewrite Ej. destruct (ltb 0 (kabs (nth j (nth i X1 []) 0))) eqn:Z.
  - apply lsum_ext. intros k _. apply lsum_ext. intros l _. unfold dense_term. ring.
  - symmetry. apply lsum_zero. intros k _. apply lsum_zero. intros l _. unfold dense_term. rewrite (nz_exact _ Z). ring.
Qed.

(** THE PART: the terms handed to the term lists sum to sign * (Lehmann 4-chain sum of this ordering) *)
Theorem dense_part_emitted : visit_total = signK K NO sg * chi_ordering K NO beta tol E w X1 X2 X3 X4 y1 y2 y3.
Proof. rewrite visit_total_dense, chi_ordering_dense. reflexivity. Qed.

(** the walk of compute() visits exactly spec_visits: the compressed views are sorted *)
Lemma ssorted_map_fst (l : list (nat * K)) : Sorted.StronglySorted lt (map fst l) -> ChiProofs.sorted K l.
Proof.
  unfold ChiProofs.sorted. induction l as [|x l IH]; intros H; [constructor|]. cbn [map] in H.
  inversion H as [|a l' Hs Hall]; subst. constructor; [apply IH; exact Hs|].
  rewrite Forall_forall in *. intros y Hy. unfold idx_lt. apply Hall. apply in_map. exact Hy.
Qed.
Lemma srow_sorted (r : list K) : ChiProofs.sorted K (srow r).
Proof. apply ssorted_map_fst. exact (proj1 (SpineSparseProofs.sparse_row_ok K keepf r (length r) (le_n _))). Qed.
Lemma rows_msorted (D : mat K) : msorted K (rows D).
Proof. intros o. rewrite outer_rows. apply srow_sorted. Qed.

Lemma dense_part_sorted : part_sorted K p.
Proof. unfold part_sorted. cbn [p_O1 p_O2 p_O3 p_CX4 dense_part]. unfold smat_cols. repeat split; apply rows_msorted. Qed.

End PartDense.
