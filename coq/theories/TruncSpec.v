(** The documented truncation of the Lehmann sums, evaluated on the FULL Fock space (oracle side; extends PV.EDSpec).

    pomerol drops every Lehmann term of G_ij whose residue is not above MatrixElementTolerance (1e-8) and
    stores terms whose poles are closer than 1e-8 under ONE pole (the first one met).  For the exact value
    G(z) = sum_t R_t/(z - P_t) this gives
        |G_lib(z) - G(z)|  <=  sum_{|R_t| <= tolM} |R_t|/|z - P_t|                          (dropped terms)
                             + sum_{|R_t| >  tolM} |R_t| d_t / (|z - P_t| (|z - P_t| - d_t))  (merged poles)
                             + (partial sums dropped as negligible: known only to the block-wise model)
    where d_t is the largest distance from P_t to a kept pole closer than tolC (the stored pole of t is one of
    those).  The last contribution depends on the order in which the library meets the terms, so the driver takes
    it from the event log of the extracted model (PV.GFPart), whose term lists are compared with the library's.

    Same conventions as EDSpec: generic number type, reals embedded, lists of rows. *)
Require Import Bool List Arith ZArith.
From PV Require Import Outcome Fock Poly EDSpec.
Import ListNotations.

Section Trunc.
Variable K : Type.
Variable NO : numops K.
Notation "0" := (n0 K NO).
Infix "+" := (nadd K NO).
Infix "-" := (nsub K NO).
Infix "*" := (nmul K NO).
Infix "/" := (ndiv K NO).
Notation ltb := (nre_ltb K NO).
Notation kabs := (nabs K NO).
Notation ksum := (ksum K NO).
Notation mget := (mget K NO).

(** every Lehmann term of G_ij with a non-zero residue: (Pole, Residue) = (E_m - E_n, <n|c_i|m><m|c^+_j|n>(w_n + w_m)) *)
Definition gf_lehmann (E w : list K) (Ci CXj : list (list K)) : list (K * K) :=
  flat_map (fun nr =>
    let n := fst nr in
    flat_map (fun mc =>
      let m := fst mc in
      let R := snd mc * mget CXj m n * (nth n w 0 + nth m w 0) in
      if ltb 0 (kabs R) then [(nth m E 0 - nth n E 0, R)] else []) (idx (snd nr))) (idx Ci).

Definition dropped_bound (tolM : K) (terms : list (K * K)) (z : K) : K :=
  ksum terms (fun t => if ltb tolM (kabs (snd t)) then 0 else kabs (snd t) / kabs (z - fst t)).

(** largest distance from P to a kept pole closer than tolC *)
Definition merge_delta (tolM tolC : K) (terms : list (K * K)) (P : K) : K :=
  fold_left (fun acc t =>
    let d := kabs (P - fst t) in
    if ltb tolM (kabs (snd t)) && ltb d tolC && ltb acc d then d else acc) terms 0.

(** kept terms with their merge distance: (Pole, Residue, delta); computed once per (i,j) *)
Definition with_delta (tolM tolC : K) (terms : list (K * K)) : list (K * K * K) :=
  flat_map (fun t => if ltb tolM (kabs (snd t)) then [(fst t, snd t, merge_delta tolM tolC terms (fst t))] else []) terms.

Definition merge_bound (wd : list (K * K * K)) (z : K) : K :=
  ksum wd (fun t =>
    let P := fst (fst t) in let R := snd (fst t) in let d := snd t in
    let dist := kabs (z - P) in
    if ltb 0 d then (if ltb d dist then kabs R * d / (dist * (dist - d)) else kabs R / d) else 0).

(** susceptibility: (Pole, (A_nm B_mn, (w_n, w_m))) for every non-zero product *)
Definition susc_lehmann (E w : list K) (A B : list (list K)) : list (K * (K * (K * K))) :=
  flat_map (fun nr =>
    let n := fst nr in
    flat_map (fun mc =>
      let m := fst mc in
      let ab := snd mc * mget B m n in
      if ltb 0 (kabs ab) then [(nth m E 0 - nth n E 0, (ab, (nth n w 0, nth m w 0)))] else []) (idx (snd nr))) (idx A).

(** the non-resonant terms as (Pole, Residue) with Residue = ab (w_n - w_m)  (the library's sign convention) *)
Definition susc_terms (tolR : K) (l : list (K * (K * (K * K)))) : list (K * K) :=
  flat_map (fun t =>
    let P := fst t in let ab := fst (snd t) in let wn := fst (snd (snd t)) in let wm := snd (snd (snd t)) in
    if ltb (kabs P) tolR then [] else
      let R := ab * (wn - wm) in if ltb 0 (kabs R) then [(P, R)] else []) l.

(** the documented approximation "energy differences below ReduceResonanceTolerance are zero": what it costs.
    Exact term: ab (w_m - w_n)/(z - P) with w_m = w_n e^{-beta P}; the library uses [z ~ 0] beta ab w_n.
    With x = beta |P|:  |w_m - w_n| <= w_n x e^x  and  |beta w_n - (w_n - w_m)/P| <= beta w_n (x/2) e^x.
    (Written with w_n only: forming w_m - w_n from two rounded weights is meaningless when P is rounding noise.) *)
Definition resonance_bound (beta tolR : K) (l : list (K * (K * (K * K)))) (z : K) (z_is_zero : bool) : K :=
  ksum l (fun t =>
    let P := fst t in let ab := fst (snd t) in let wn := fst (snd (snd t)) in
    if ltb (kabs P) tolR then
      let x := beta * kabs P in
      let ex := nexp K NO x in
      (if z_is_zero then kabs ab * wn * beta * (x / (n1 K NO + n1 K NO)) * ex
       else kabs ab * wn * x * ex / kabs (z - P))
    else 0).

(** imaginary time (susceptibility; terms with |P| >= tolR): a term is R e^{-tau P}/(1 - e^{-beta P}), 0 <= tau <= beta;
    sup over tau of e^{-tau P} is max(1, e^{-beta P}) *)
Definition tau_weight (beta P : K) : K :=
  (* max(1, e^{-beta P}) / |1 - e^{-beta P}| = 1 / (1 - e^{-beta |P|}) for either sign of P; written so that nothing overflows *)
  n1 K NO / (n1 K NO - nexp K NO (nopp K NO (beta * kabs P))).
Definition tau_dropped_bound (beta tolM : K) (terms : list (K * K)) : K :=
  ksum terms (fun t => if ltb tolM (kabs (snd t)) then 0 else kabs (snd t) * tau_weight beta (fst t)).
(** a pole moved by d changes the term by at most |R| d beta (1 + weight) times that weight (crude) *)
Definition tau_merge_bound (beta : K) (wd : list (K * K * K)) : K :=
  ksum wd (fun t =>
    let P := fst (fst t) in let R := snd (fst t) in let d := snd t in
    kabs R * d * beta * tau_weight beta P * (n1 K NO + tau_weight beta P)).

(** <A(tau) B(0)> = sum_{nm} w_n A_nm B_mn e^{tau (E_n - E_m)} (EDSpec.susc_tau) with the exponents combined,
    w_n e^{tau (E_n - E_m)} = e^{-((beta - tau)(E_n - E_0) + tau (E_m - E_0))} / Z, so that for 0 <= tau <= beta every exponent
    is <= 0 and nothing overflows at large beta (binary64 evaluation of EDSpec.susc_tau gives inf * 0 there) *)
Definition susc_tau_safe (beta : K) (E : list K) (A B : list (list K)) (tau : K) : K :=
  let e0 := min_re K NO E in
  let Z := ksum E (fun e => nexp K NO (nopp K NO (beta * (e - e0)))) in
  ksum (idx A) (fun nr =>
    let n := fst nr in
    ksum (idx (snd nr)) (fun mc =>
      let m := fst mc in
      snd mc * mget B m n *
      nexp K NO (nopp K NO ((beta - tau) * (nth n E 0 - e0) + tau * (nth m E 0 - e0))) / Z)).

End Trunc.
