(** ThermalProofs.v -- proofs for C09 (Gibbs weights, averages as traces) and C19 (block truncation)
    about the model PV.Thermal instantiated at Coq's real numbers (PV.ThermalSpec).
    Axioms: only the classical axioms of the standard library's real numbers (listed by
    Print Assumptions in props/Properties_C09.v, Properties_C19.v). *)
Require Import Reals Bool List Arith Lra Lia Psatz.
From PV Require Import Outcome Thermal ThermalSpec.
Import ListNotations.
Local Open Scope R_scope.

(** * 1. Finite sums *)

Lemma fold_left_lsum {A} (f : A -> R) (l : list A) (x : R) :
  fold_left (fun acc a => acc + f a) l x = x + lsum f l.
Proof.
  revert x. induction l as [|a t IH]; intros x; cbn [fold_left lsum].
  - lra.
  - rewrite IH. lra.
Qed.

Lemma fold_left_Rplus (l : list R) (x : R) : fold_left Rplus l x = x + lsum (fun w => w) l.
Proof. exact (fold_left_lsum (fun w => w) l x). Qed.

Lemma lsum_ext {A} (f g : A -> R) (l : list A) :
  (forall a, In a l -> f a = g a) -> lsum f l = lsum g l.
Proof.
  induction l as [|a t IH]; intros E; cbn [lsum]; [reflexivity|].
  rewrite (E a (or_introl eq_refl)), IH; [reflexivity|]. intros b Hb. apply E. right. exact Hb.
Qed.

Lemma lsum_app {A} (f : A -> R) (l1 l2 : list A) : lsum f (l1 ++ l2) = lsum f l1 + lsum f l2.
Proof. induction l1 as [|a t IH]; cbn [lsum app]; [lra|rewrite IH; lra]. Qed.

Lemma lsum_map {A B} (f : B -> R) (g : A -> B) (l : list A) : lsum f (map g l) = lsum (fun a => f (g a)) l.
Proof. induction l as [|a t IH]; cbn [lsum map]; [reflexivity|rewrite IH; reflexivity]. Qed.

Lemma lsum_scal {A} (c : R) (f : A -> R) (l : list A) : lsum (fun a => c * f a) l = c * lsum f l.
Proof. induction l as [|a t IH]; cbn [lsum]; [lra|rewrite IH; lra]. Qed.

Lemma lsum_scal_r {A} (c : R) (f : A -> R) (l : list A) : lsum (fun a => f a * c) l = lsum f l * c.
Proof. induction l as [|a t IH]; cbn [lsum]; [lra|rewrite IH; lra]. Qed.

Lemma lsum_plus {A} (f g : A -> R) (l : list A) : lsum (fun a => f a + g a) l = lsum f l + lsum g l.
Proof. induction l as [|a t IH]; cbn [lsum]; [lra|rewrite IH; lra]. Qed.

Lemma lsum_zero {A} (f : A -> R) (l : list A) : (forall a, In a l -> f a = 0) -> lsum f l = 0.
Proof.
  intros E. rewrite (lsum_ext f (fun _ => 0) l E). induction l as [|a t IH]; cbn [lsum]; [reflexivity|].
  rewrite IH; [lra|]. intros b Hb. apply E. right. exact Hb.
Qed.

Lemma lsum_le {A} (f g : A -> R) (l : list A) :
  (forall a, In a l -> f a <= g a) -> lsum f l <= lsum g l.
Proof.
  induction l as [|a t IH]; intros E; cbn [lsum]; [lra|].
  assert (f a <= g a) by (apply E; left; reflexivity).
  assert (lsum f t <= lsum g t) by (apply IH; intros b Hb; apply E; right; exact Hb). lra.
Qed.

Lemma lsum_nonneg {A} (f : A -> R) (l : list A) : (forall a, In a l -> 0 <= f a) -> 0 <= lsum f l.
Proof.
  intros E. replace 0 with (lsum (fun _ : A => 0) l) at 1; [apply lsum_le; exact E|].
  apply lsum_zero. reflexivity.
Qed.

Lemma lsum_const {A} (c : R) (l : list A) : lsum (fun _ => c) l = INR (length l) * c.
Proof.
  induction l as [|a t IH]; [cbn; lra|]. cbn [lsum]. rewrite IH.
  change (length (a :: t)) with (S (length t)). rewrite S_INR. lra.
Qed.

Lemma lsum_member_le {A} (f : A -> R) (l : list A) (a : A) :
  (forall b, In b l -> 0 <= f b) -> In a l -> f a <= lsum f l.
Proof.
  induction l as [|b t IH]; intros Hn Ha; [destruct Ha|]. cbn [lsum].
  assert (0 <= f b) by (apply Hn; left; reflexivity).
  assert (0 <= lsum f t) by (apply lsum_nonneg; intros c Hc; apply Hn; right; exact Hc).
  destruct Ha as [->|Ha]; [lra|].
  assert (f a <= lsum f t) by (apply IH; [intros c Hc; apply Hn; right; exact Hc|exact Ha]). lra.
Qed.

Lemma lsum_swap {A B} (f : A -> B -> R) (l1 : list A) (l2 : list B) :
  lsum (fun a => lsum (fun b => f a b) l2) l1 = lsum (fun b => lsum (fun a => f a b) l1) l2.
Proof.
  induction l1 as [|a t IH]; cbn [lsum].
  - symmetry. apply lsum_zero. reflexivity.
  - rewrite IH, <- lsum_plus. reflexivity.
Qed.

Lemma Rabs_lsum_le {A} (f : A -> R) (l : list A) : Rabs (lsum f l) <= lsum (fun a => Rabs (f a)) l.
Proof.
  induction l as [|a t IH]; cbn [lsum]; [rewrite Rabs_R0; lra|].
  eapply Rle_trans; [apply Rabs_triang|]. lra.
Qed.

(** a sum in which at most the element y contributes *)
Lemma lsum_single (f : nat -> R) (l : list nat) (y : nat) :
  NoDup l -> In y l -> lsum (fun x => if Nat.eqb y x then f x else 0) l = f y.
Proof.
  induction l as [|x t IH]; intros ND Hy; [destruct Hy|]. cbn [lsum].
  inversion ND as [|x' t' Hnx NDt]; subst.
  destruct (Nat.eqb y x) eqn:E.
  - apply Nat.eqb_eq in E. subst x. rewrite lsum_zero; [lra|].
    intros z Hz. destruct (Nat.eqb y z) eqn:E2; [|reflexivity].
    apply Nat.eqb_eq in E2. subst z. contradiction.
  - destruct Hy as [->|Hy]; [rewrite Nat.eqb_refl in E; discriminate|].
    rewrite (IH NDt Hy). lra.
Qed.

Lemma lsum_single_absent (f : nat -> R) (l : list nat) (y : nat) :
  ~ In y l -> lsum (fun x => if Nat.eqb y x then f x else 0) l = 0.
Proof.
  intros Hn. apply lsum_zero. intros z Hz. destruct (Nat.eqb y z) eqn:E; [|reflexivity].
  apply Nat.eqb_eq in E. subst z. contradiction.
Qed.

(** sums over [enum l]: shifting the index *)
Lemma enum_cons {A} (a : A) (t : list A) :
  enum (a :: t) = (0%nat, a) :: map (fun p => (S (fst p), snd p)) (enum t).
Proof.
  unfold enum. cbn [length seq combine]. f_equal.
  rewrite <- seq_shift. generalize (seq 0 (length t)). intros s. revert t.
  induction s as [|i s IH]; intros t; [reflexivity|].
  destruct t as [|b t]; [reflexivity|]. cbn [map combine fst snd]. f_equal. apply IH.
Qed.

Lemma lsum_enum_snd {A} (f : A -> R) (l : list A) : lsum (fun p => f (snd p)) (enum l) = lsum f l.
Proof.
  induction l as [|a t IH]; [reflexivity|]. rewrite enum_cons. cbn [lsum snd]. rewrite lsum_map. cbn [snd].
  rewrite IH. reflexivity.
Qed.

Lemma in_enum {A} (l : list A) (i : nat) (a : A) :
  In (i, a) (enum l) -> (i < length l)%nat /\ nth_error l i = Some a.
Proof.
  revert i. induction l as [|b t IH]; intros i Hi; [destruct Hi|].
  rewrite enum_cons in Hi. destruct Hi as [E|Hi].
  - inversion E; subst. split; [cbn; lia|reflexivity].
  - apply in_map_iff in Hi. destruct Hi as [[j c] [E Hj]]. cbn [fst snd] in E. inversion E; subst.
    destruct (IH j Hj) as [L N]. split; [cbn; lia|exact N].
Qed.

Lemma lsum_enum_nth {A} (d : A) (f : nat * A -> R) (l : list A) :
  lsum f (enum l) = lsum (fun i => f (i, nth i l d)) (seq 0 (length l)).
Proof.
  revert f. induction l as [|a t IH]; intros f; [reflexivity|].
  rewrite enum_cons. cbn [length seq lsum nth]. f_equal.
  rewrite lsum_map, IH, <- seq_shift, lsum_map. reflexivity.
Qed.

(** * 2. Eigen's minCoeff and the ground energy *)

Lemma Rltb_true (a b : R) : Rltb a b = true <-> a < b.
Proof. unfold Rltb. destruct (Rlt_dec a b); split; intros; try assumption; try reflexivity; try discriminate; contradiction. Qed.

Lemma Rltb_false (a b : R) : Rltb a b = false <-> b <= a.
Proof.
  unfold Rltb. destruct (Rlt_dec a b); split; intros; try discriminate; try reflexivity; lra.
Qed.

Lemma fold_min_spec (t : list R) (x : R) :
  let m := fold_left (fun acc y => if Rltb y acc then y else acc) t x in
  In m (x :: t) /\ forall y, In y (x :: t) -> m <= y.
Proof.
  revert x. induction t as [|y t IH]; intros x; cbn [fold_left].
  - split; [left; reflexivity|]. intros y [->|[]]. lra.
  - destruct (Rltb y x) eqn:E.
    + apply Rltb_true in E. destruct (IH y) as [I L]. split.
      * right. exact I.
      * intros z [<-|Hz]; [|apply L; exact Hz].
        assert (fold_left (fun acc y0 => if Rltb y0 acc then y0 else acc) t y <= y) by (apply L; left; reflexivity). lra.
    + apply Rltb_false in E. destruct (IH x) as [I L]. split.
      * destruct I as [I|I]; [left; exact I|right; right; exact I].
      * intros z [<-|[<-|Hz]].
        -- apply L. left. reflexivity.
        -- assert (fold_left (fun acc y0 => if Rltb y0 acc then y0 else acc) t x <= x) by (apply L; left; reflexivity). lra.
        -- apply L. right. exact Hz.
Qed.

Lemma min_coeff_spec (l : list R) :
  l <> [] -> exists m, Rmin_coeff l = Done m /\ In m l /\ forall y, In y l -> m <= y.
Proof.
  destruct l as [|x t]; intros Hne; [contradiction|].
  eexists. split; [reflexivity|]. apply fold_min_spec.
Qed.

Lemma map_outcome_Done {A B} (f : A -> outcome B) (l : list A) (g : A -> B) :
  (forall a, In a l -> f a = Done (g a)) -> map_outcome f l = Done (map g l).
Proof.
  induction l as [|a t IH]; intros E; cbn [map_outcome map]; [reflexivity|].
  rewrite (E a (or_introl eq_refl)). cbn [bind]. rewrite IH; [reflexivity|].
  intros b Hb. apply E. right. exact Hb.
Qed.

Lemma map_outcome_Done_inv {A B} (f : A -> outcome B) (l : list A) (r : list B) :
  map_outcome f l = Done r -> length r = length l /\ forall i a, nth_error l i = Some a -> exists b, nth_error r i = Some b /\ f a = Done b.
Proof.
  revert r. induction l as [|a t IH]; intros r E; cbn [map_outcome] in E.
  - inversion E; subst. split; [reflexivity|]. intros [|i] a Ha; discriminate Ha.
  - destruct (f a) as [b| | | |] eqn:Fa; cbn [bind] in E; try discriminate E.
    destruct (map_outcome f t) as [bs| | | |] eqn:Ft; cbn [bind] in E; try discriminate E.
    inversion E; subst. destruct (IH bs eq_refl) as [L N]. split; [cbn; lia|].
    intros [|i] a' Ha'; cbn [nth_error] in *.
    + inversion Ha'; subst. exists b. split; [reflexivity|exact Fa].
    + apply N. exact Ha'.
Qed.

(** Hamiltonian::computeGroundEnergy returns the smallest of all eigenvalues; it is attained. *)
Theorem ground_energy_is_min (H : list Rhpart) :
  H <> [] -> (forall hp, In hp H -> hp_eig R hp <> []) ->
  exists g, Rground_energy H = Done g /\
            (exists hp, In hp H /\ In g (hp_eig R hp)) /\
            (forall hp e, In hp H -> In e (hp_eig R hp) -> g <= e).
Proof.
  intros Hne Hb.
  (* a total function giving each block's minimum *)
  assert (Hf : forall hp, In hp H -> exists m, Rmin_coeff (hp_eig R hp) = Done m /\ In m (hp_eig R hp) /\
                                         forall y, In y (hp_eig R hp) -> m <= y).
  { intros hp Hhp. apply min_coeff_spec. apply Hb. exact Hhp. }
  set (gm := fun hp : Rhpart => match Rmin_coeff (hp_eig R hp) with Done m => m | _ => 0 end).
  assert (Hg : forall hp, In hp H -> Rmin_coeff (hp_eig R hp) = Done (gm hp)).
  { intros hp Hhp. destruct (Hf hp Hhp) as [m [E _]]. unfold gm. rewrite E. reflexivity. }
  unfold Rground_energy, ground_energy.
  fold Rmin_coeff.
  rewrite (map_outcome_Done (fun hp => Rmin_coeff (hp_eig R hp)) H gm Hg). cbn [bind].
  destruct (min_coeff_spec (map gm H)) as [g [Eg [Ig Lg]]].
  { destruct H; [contradiction|discriminate]. }
  exists g. split; [exact Eg|]. split.
  - apply in_map_iff in Ig. destruct Ig as [hp [E Hhp]]. exists hp. split; [exact Hhp|].
    destruct (Hf hp Hhp) as [m [Em [Im _]]]. rewrite <- E. unfold gm. rewrite Em. exact Im.
  - intros hp e Hhp He. destruct (Hf hp Hhp) as [m [Em [_ Lm]]].
    assert (g <= gm hp) by (apply Lg; apply in_map; exact Hhp).
    assert (gm hp = m) by (unfold gm; rewrite Em; reflexivity).
    specialize (Lm e He). lra.
Qed.

Lemma ground_energy_Done_nonempty (H : list Rhpart) (g : R) :
  Rground_energy H = Done g -> H <> [] /\ forall hp, In hp H -> hp_eig R hp <> [].
Proof.
  unfold Rground_energy, ground_energy. intros E.
  destruct (map_outcome (fun hp => min_coeff R Rltb (hp_eig R hp)) H) as [ms| | | |] eqn:Em; cbn [bind] in E; try discriminate E.
  destruct (map_outcome_Done_inv _ _ _ Em) as [L N]. split.
  - intros ->. cbn in L. destruct ms; [cbn in E; discriminate E|discriminate L].
  - intros hp Hhp. destruct (In_nth_error _ _ Hhp) as [i Hi]. destruct (N i hp Hi) as [b [_ Hb]].
    intros E0. rewrite E0 in Hb. cbn in Hb. discriminate Hb.
Qed.

(** the minimum is unique: two values that are both attained lower bounds coincide *)
Lemma ground_energy_unique (H : list Rhpart) (g g' : R) :
  (exists hp, In hp H /\ In g (hp_eig R hp)) -> (forall hp e, In hp H -> In e (hp_eig R hp) -> g <= e) ->
  (exists hp, In hp H /\ In g' (hp_eig R hp)) -> (forall hp e, In hp H -> In e (hp_eig R hp) -> g' <= e) ->
  g = g'.
Proof.
  intros [hp [Hhp Hg]] L [hp' [Hhp' Hg']] L'.
  specialize (L hp' g' Hhp' Hg'). specialize (L' hp g Hhp Hg). lra.
Qed.

(** * 3. Gibbs weights (C09, first half) *)

(** the unnormalised weight of an eigenvalue e *)
Definition uw (beta g e : R) : R := exp (- beta * (e - g)).
(** the partition function computed by DensityMatrix::compute *)
Definition Zsum (beta g : R) (H : list Rhpart) : R := lsum (fun hp => lsum (uw beta g) (hp_eig R hp)) H.
(** the part of the density matrix for one block, in closed form *)
Definition gibbs_part (beta g Z : R) (hp : Rhpart) : Rdmpart :=
  mk_dmpart R (map (fun e => uw beta g e / Z) (hp_eig R hp)) (lsum (uw beta g) (hp_eig R hp) / Z) true.

Lemma Runnormalized_weight_eq (beta g e : R) : Runnormalized_weight beta g e = uw beta g e.
Proof. reflexivity. Qed.

Lemma Rcompute_unnormalized_eq (beta g : R) (hp : Rhpart) :
  Rcompute_unnormalized beta g hp = mk_dmpart R (map (uw beta g) (hp_eig R hp)) (lsum (uw beta g) (hp_eig R hp)) true.
Proof.
  unfold Rcompute_unnormalized, compute_unnormalized. f_equal.
  rewrite fold_left_Rplus, lsum_map, Rplus_0_l. reflexivity.
Qed.

Lemma Rdm_Z_unnormalized (beta g : R) (H : list Rhpart) :
  Rdm_Z (Rdm_unnormalized beta g H) = Zsum beta g H.
Proof.
  unfold Rdm_Z, dm_Z, Rdm_unnormalized, dm_unnormalized.
  rewrite (fold_left_lsum (fun dp => dp_zpart R dp)), lsum_map, Rplus_0_l. unfold Zsum.
  apply lsum_ext. intros hp _. fold (Rcompute_unnormalized beta g hp). rewrite Rcompute_unnormalized_eq. reflexivity.
Qed.

(** closed form of DensityMatrix::prepare + compute *)
Lemma dm_compute_char (beta : R) (H : list Rhpart) (g : R) :
  Rground_energy H = Done g ->
  Rdm_compute beta H = Done (map (gibbs_part beta g (Zsum beta g H)) H).
Proof.
  intros Eg. unfold Rdm_compute, dm_compute. fold Rground_energy. rewrite Eg. cbn [bind]. f_equal.
  fold (Rdm_unnormalized beta g H). fold (Rdm_Z (Rdm_unnormalized beta g H)). rewrite Rdm_Z_unnormalized.
  unfold Rdm_unnormalized, dm_unnormalized. rewrite map_map. apply map_ext. intros hp.
  fold (Rcompute_unnormalized beta g hp). rewrite Rcompute_unnormalized_eq.
  unfold normalize, gibbs_part. cbn [dp_weights dp_zpart dp_retained]. rewrite map_map. reflexivity.
Qed.

Lemma dm_compute_Done_inv (beta : R) (H : list Rhpart) (D : list Rdmpart) :
  Rdm_compute beta H = Done D ->
  exists g, Rground_energy H = Done g /\ D = map (gibbs_part beta g (Zsum beta g H)) H.
Proof.
  intros E. destruct (Rground_energy H) as [g| | | |] eqn:Eg;
    try (unfold Rdm_compute, dm_compute in E; fold Rground_energy in E; rewrite Eg in E; discriminate E).
  exists g. split; [reflexivity|]. rewrite (dm_compute_char beta H g Eg) in E. inversion E. reflexivity.
Qed.

Lemma uw_pos (beta g e : R) : 0 < uw beta g e.
Proof. apply exp_pos. Qed.

(** For beta >= 0 every unnormalised weight is in (0, 1], because the ground energy is the minimum:
    the exponent -beta (E - E_ground) is never positive, so exp cannot overflow, whatever the
    bandwidth, the temperature and the offset of the spectrum are. *)
Theorem unnormalised_in_unit_interval (beta : R) (H : list Rhpart) (g : R) :
  0 <= beta -> Rground_energy H = Done g ->
  forall hp e, In hp H -> In e (hp_eig R hp) ->
    0 < Runnormalized_weight beta g e <= 1.
Proof.
  intros Hb Eg hp e Hhp He. rewrite Runnormalized_weight_eq.
  destruct (ground_energy_Done_nonempty H g Eg) as [Hne Hbl].
  destruct (ground_energy_is_min H Hne Hbl) as [g' [Eg' [_ Lg]]]. rewrite Eg in Eg'. inversion Eg'; subst g'.
  split; [apply uw_pos|]. unfold uw. rewrite <- exp_0.
  assert (g <= e) by (apply (Lg hp e Hhp He)).
  destruct (Req_dec (- beta * (e - g)) 0) as [E0|N0]; [rewrite E0; lra|].
  left. apply exp_increasing. nra.
Qed.

Lemma Zsum_pos (beta g : R) (H : list Rhpart) :
  H <> [] -> (forall hp, In hp H -> hp_eig R hp <> []) -> 0 < Zsum beta g H.
Proof.
  intros Hne Hbl. destruct H as [|hp t]; [contradiction|]. unfold Zsum. cbn [lsum].
  assert (0 < lsum (uw beta g) (hp_eig R hp)).
  { specialize (Hbl hp (or_introl eq_refl)). destruct (hp_eig R hp) as [|e es]; [contradiction|]. cbn [lsum].
    assert (0 <= lsum (uw beta g) es) by (apply lsum_nonneg; intros; left; apply uw_pos).
    pose proof (uw_pos beta g e). lra. }
  assert (0 <= lsum (fun hp0 => lsum (uw beta g) (hp_eig R hp0)) t).
  { apply lsum_nonneg. intros hp0 _. apply lsum_nonneg. intros; left; apply uw_pos. }
  lra.
Qed.

Lemma total_states_INR (H : list Rhpart) :
  INR (total_states H) = lsum (fun hp => INR (length (hp_eig R hp))) H.
Proof.
  induction H as [|hp t IH]; [reflexivity|]. cbn [total_states fold_right lsum].
  rewrite plus_INR. fold (total_states t). rewrite IH. reflexivity.
Qed.

(** The partition function is at least 1 (the ground state contributes exp 0) and at most the number of
    states: dividing by it is safe and cannot overflow. *)
Theorem Z_ge_one (beta : R) (H : list Rhpart) (g : R) :
  0 <= beta -> Rground_energy H = Done g ->
  1 <= Rdm_Z (Rdm_unnormalized beta g H) <= INR (total_states H).
Proof.
  intros Hb Eg. rewrite Rdm_Z_unnormalized.
  destruct (ground_energy_Done_nonempty H g Eg) as [Hne Hbl].
  destruct (ground_energy_is_min H Hne Hbl) as [g' [Eg' [[hp [Hhp Hg]] Lg]]]. rewrite Eg in Eg'. inversion Eg'; subst g'.
  split.
  - unfold Zsum.
    assert (S1 : lsum (uw beta g) (hp_eig R hp) <= lsum (fun hp0 => lsum (uw beta g) (hp_eig R hp0)) H).
    { apply (lsum_member_le (fun hp0 => lsum (uw beta g) (hp_eig R hp0))); [|exact Hhp].
      intros b _. apply lsum_nonneg. intros; left; apply uw_pos. }
    assert (S2 : uw beta g g <= lsum (uw beta g) (hp_eig R hp)).
    { apply lsum_member_le; [|exact Hg]. intros; left; apply uw_pos. }
    assert (uw beta g g = 1). { unfold uw. replace (- beta * (g - g)) with 0 by ring. apply exp_0. }
    lra.
  - rewrite total_states_INR. unfold Zsum. apply lsum_le. intros hp0 Hhp0.
    rewrite <- (Rmult_1_r (INR _)), <- lsum_const. apply lsum_le. intros e He.
    pose proof (unnormalised_in_unit_interval beta H g Hb Eg hp0 e Hhp0 He) as U.
    rewrite Runnormalized_weight_eq in U. lra.
Qed.

(** Addressing: the weight of state s of block a *)
Lemma weight_at_gibbs (beta g Z : R) (H : list Rhpart) (a s : nat) :
  valid_state H a s ->
  weight_at (map (gibbs_part beta g Z) H) a s = uw beta g (energy_at H a s) / Z.
Proof.
  intros [La Ls]. unfold weight_at, energy_at.
  rewrite (nth_indep _ dummy_dp (gibbs_part beta g Z dummy_hp)) by (rewrite map_length; exact La).
  rewrite (map_nth (gibbs_part beta g Z) H dummy_hp a). unfold gibbs_part at 1. cbn [dp_weights].
  rewrite (nth_indep _ 0 ((fun e => uw beta g e / Z) 0)) by (rewrite map_length; exact Ls).
  rewrite (map_nth (fun e => uw beta g e / Z)). reflexivity.
Qed.

(** Closed form: w(a,s) = exp(-beta (E(a,s) - E_ground)) / Z with Z > 0 *)
Theorem weights_closed_form (beta : R) (H : list Rhpart) (D : list Rdmpart) :
  Rdm_compute beta H = Done D ->
  exists g Z, Rground_energy H = Done g /\ 0 < Z /\ Z = Zsum beta g H /\ length D = length H /\
    forall a s, valid_state H a s -> weight_at D a s = exp (- beta * (energy_at H a s - g)) / Z.
Proof.
  intros E. destruct (dm_compute_Done_inv beta H D E) as [g [Eg ->]].
  destruct (ground_energy_Done_nonempty H g Eg) as [Hne Hbl].
  exists g, (Zsum beta g H). repeat split; try assumption; try reflexivity.
  - apply Zsum_pos; assumption.
  - apply map_length.
  - intros a s V. rewrite weight_at_gibbs by exact V. reflexivity.
Qed.

(** Weights are positive (in particular non-negative) *)
Theorem weights_nonneg (beta : R) (H : list Rhpart) (D : list Rdmpart) :
  Rdm_compute beta H = Done D ->
  forall a s, valid_state H a s -> 0 < weight_at D a s.
Proof.
  intros E a s V. destruct (weights_closed_form beta H D E) as [g [Z [_ [HZ [_ [_ W]]]]]].
  rewrite (W a s V). apply Rdiv_lt_0_compat; [apply exp_pos|exact HZ].
Qed.

(** the same, for every entry of every weight vector *)
Lemma weights_all_pos (beta : R) (H : list Rhpart) (D : list Rdmpart) :
  Rdm_compute beta H = Done D -> forall dp w, In dp D -> In w (dp_weights R dp) -> 0 < w.
Proof.
  intros E dp w Hdp Hw. destruct (dm_compute_Done_inv beta H D E) as [g [Eg ->]].
  destruct (ground_energy_Done_nonempty H g Eg) as [Hne Hbl].
  apply in_map_iff in Hdp. destruct Hdp as [hp [<- Hhp]]. cbn [gibbs_part dp_weights] in Hw.
  apply in_map_iff in Hw. destruct Hw as [e [<- He]].
  apply Rdiv_lt_0_compat; [apply uw_pos|apply Zsum_pos; assumption].
Qed.

(** no block of the density matrix is empty *)
Lemma weights_nonempty (beta : R) (H : list Rhpart) (D : list Rdmpart) :
  Rdm_compute beta H = Done D -> forall dp, In dp D -> dp_weights R dp <> [].
Proof.
  intros E dp Hdp. destruct (dm_compute_Done_inv beta H D E) as [g [Eg ->]].
  destruct (ground_energy_Done_nonempty H g Eg) as [Hne Hbl].
  apply in_map_iff in Hdp. destruct Hdp as [hp [<- Hhp]]. cbn [gibbs_part dp_weights].
  specialize (Hbl hp Hhp). destruct (hp_eig R hp); [contradiction|discriminate].
Qed.

(** Weights sum to one *)
Theorem weights_sum_one (beta : R) (H : list Rhpart) (D : list Rdmpart) :
  Rdm_compute beta H = Done D -> total_weight D = 1.
Proof.
  intros E. destruct (dm_compute_Done_inv beta H D E) as [g [Eg ->]].
  destruct (ground_energy_Done_nonempty H g Eg) as [Hne Hbl].
  pose proof (Zsum_pos beta g H Hne Hbl) as HZ.
  unfold total_weight. rewrite lsum_map.
  rewrite (lsum_ext _ (fun hp => lsum (uw beta g) (hp_eig R hp) * / Zsum beta g H)).
  - rewrite lsum_scal_r. fold (Zsum beta g H). field. lra.
  - intros hp _. cbn [gibbs_part dp_weights]. rewrite lsum_map.
    rewrite <- lsum_scal_r. reflexivity.
Qed.

(** the partial partition functions are the block sums of the weights (getPartialZ) and also sum to one *)
Theorem partial_Z_is_block_sum (beta : R) (H : list Rhpart) (D : list Rdmpart) :
  Rdm_compute beta H = Done D ->
  (forall dp, In dp D -> dp_zpart R dp = lsum (fun w => w) (dp_weights R dp)) /\ lsum (dp_zpart R) D = 1.
Proof.
  intros E. pose proof (weights_sum_one beta H D E) as S1.
  assert (P : forall dp, In dp D -> dp_zpart R dp = lsum (fun w => w) (dp_weights R dp)).
  { destruct (dm_compute_Done_inv beta H D E) as [g [Eg ->]]. intros dp Hdp.
    apply in_map_iff in Hdp. destruct Hdp as [hp [<- Hhp]]. cbn [gibbs_part dp_weights dp_zpart].
    rewrite lsum_map. unfold Rdiv. rewrite <- lsum_scal_r. reflexivity. }
  split; [exact P|]. rewrite <- S1. unfold total_weight. apply lsum_ext. exact P.
Qed.

(** Any two weights are in the ratio exp(-beta (E_a - E_b)), whichever blocks the states are in *)
Theorem weights_ratio (beta : R) (H : list Rhpart) (D : list Rdmpart) :
  Rdm_compute beta H = Done D ->
  forall a s b t, valid_state H a s -> valid_state H b t ->
    weight_at D a s / weight_at D b t = exp (- beta * (energy_at H a s - energy_at H b t)).
Proof.
  intros E a s b t Va Vb. destruct (weights_closed_form beta H D E) as [g [Z [_ [HZ [_ [_ W]]]]]].
  rewrite (W a s Va), (W b t Vb).
  replace (- beta * (energy_at H a s - energy_at H b t))
    with (- beta * (energy_at H a s - g) + - (- beta * (energy_at H b t - g))) by ring.
  rewrite exp_plus, exp_Ropp. field. repeat split; try lra; apply Rgt_not_eq; apply exp_pos.
Qed.

(** normalised weights are at most 1, for every beta *)
Theorem weights_le_one (beta : R) (H : list Rhpart) (D : list Rdmpart) :
  Rdm_compute beta H = Done D -> forall dp w, In dp D -> In w (dp_weights R dp) -> w <= 1.
Proof.
  intros E dp w Hdp Hw. rewrite <- (weights_sum_one beta H D E). unfold total_weight.
  eapply Rle_trans; [|apply (lsum_member_le (fun dp0 => lsum (fun w0 => w0) (dp_weights R dp0)) D dp); [|exact Hdp]].
  - apply (lsum_member_le (fun w0 => w0)); [|exact Hw]. intros w0 Hw0. left. apply (weights_all_pos beta H D E dp w0 Hdp Hw0).
  - intros dp0 Hdp0. apply lsum_nonneg. intros w0 Hw0. left. apply (weights_all_pos beta H D E dp0 w0 Hdp0 Hw0).
Qed.

(** Offset invariance: adding the same constant to every eigenvalue changes nothing in the density matrix
    (the ground energy moves with the spectrum, so the exponents are unchanged). *)
Lemma ground_energy_shift (c : R) (H : list Rhpart) (g : R) :
  Rground_energy H = Done g -> Rground_energy (map (shift_hpart c) H) = Done (g + c).
Proof.
  intros Eg. destruct (ground_energy_Done_nonempty H g Eg) as [Hne Hbl].
  destruct (ground_energy_is_min H Hne Hbl) as [g0 [Eg0 [[hp [Hhp Hg]] Lg]]]. rewrite Eg in Eg0. inversion Eg0; subst g0.
  destruct (ground_energy_is_min (map (shift_hpart c) H)) as [g' [Eg' [[hp' [Hhp' Hg']] Lg']]].
  - destruct H; [contradiction|discriminate].
  - intros hp0 Hhp0. apply in_map_iff in Hhp0. destruct Hhp0 as [hp1 [<- Hhp1]]. cbn [shift_hpart hp_eig].
    specialize (Hbl hp1 Hhp1). destruct (hp_eig R hp1); [contradiction|discriminate].
  - rewrite Eg'. f_equal. apply (ground_energy_unique (map (shift_hpart c) H)).
    + exists hp'. split; assumption.
    + exact Lg'.
    + exists (shift_hpart c hp). split; [apply in_map; exact Hhp|]. cbn [shift_hpart hp_eig].
      apply in_map_iff. exists g. split; [reflexivity|exact Hg].
    + intros hp0 e Hhp0 He. apply in_map_iff in Hhp0. destruct Hhp0 as [hp1 [<- Hhp1]]. cbn [shift_hpart hp_eig] in He.
      apply in_map_iff in He. destruct He as [e1 [<- He1]]. specialize (Lg hp1 e1 Hhp1 He1). lra.
Qed.

Theorem weights_offset_invariant (beta c : R) (H : list Rhpart) (D : list Rdmpart) :
  Rdm_compute beta H = Done D -> Rdm_compute beta (map (shift_hpart c) H) = Done D.
Proof.
  intros E. destruct (dm_compute_Done_inv beta H D E) as [g [Eg ->]].
  rewrite (dm_compute_char beta _ (g + c) (ground_energy_shift c H g Eg)). f_equal.
  assert (U : forall e, uw beta (g + c) (e + c) = uw beta g e).
  { intros e. unfold uw. f_equal. ring. }
  assert (ZE : Zsum beta (g + c) (map (shift_hpart c) H) = Zsum beta g H).
  { unfold Zsum. rewrite lsum_map. apply lsum_ext. intros hp _. cbn [shift_hpart hp_eig]. rewrite lsum_map.
    apply lsum_ext. intros e _. apply U. }
  rewrite ZE, map_map. apply map_ext. intros hp. unfold gibbs_part. cbn [shift_hpart hp_eig].
  rewrite map_map, lsum_map. f_equal.
  - apply map_ext. intros e. rewrite U. reflexivity.
  - f_equal. apply lsum_ext. intros e _. apply U.
Qed.

(** * 4. Averages are traces with the density matrix on the full Fock space (C09, second half) *)

Lemma lsum_restrict (F : nat -> R) (l ks : list nat) :
  NoDup l -> NoDup ks -> incl ks l -> (forall b, In b l -> ~ In b ks -> F b = 0) ->
  lsum F l = lsum F ks.
Proof.
  intros NDl. revert F. induction ks as [|k ks IH]; intros F NDk Hin Hz.
  - cbn [lsum]. apply lsum_zero. intros b Hb. apply Hz; [exact Hb|intros []].
  - inversion NDk as [|k' ks' Hnk NDks]; subst. cbn [lsum].
    rewrite (lsum_ext F (fun b => (if Nat.eqb k b then F b else 0) + (if Nat.eqb k b then 0 else F b))).
    2:{ intros b _. destruct (Nat.eqb k b); lra. }
    rewrite lsum_plus, lsum_single; [|exact NDl|apply Hin; left; reflexivity]. f_equal.
    rewrite (IH (fun b => if Nat.eqb k b then 0 else F b) NDks).
    + apply lsum_ext. intros b Hb. destruct (Nat.eqb k b) eqn:E; [|reflexivity].
      apply Nat.eqb_eq in E. subst b. contradiction.
    + intros b Hb. apply Hin. right. exact Hb.
    + intros b Hb Hnb. destruct (Nat.eqb k b) eqn:E; [reflexivity|]. apply Hz; [exact Hb|].
      intros [->|Hb2]; [rewrite Nat.eqb_refl in E; discriminate|contradiction].
Qed.

Lemma index_of_None (x : nat) (l : list nat) : ~ In x l -> index_of x l = None.
Proof.
  induction l as [|y t IH]; intros Hn; [reflexivity|]. cbn [index_of].
  destruct (Nat.eqb y x) eqn:E; [apply Nat.eqb_eq in E; subst; exfalso; apply Hn; left; reflexivity|].
  rewrite IH; [reflexivity|]. intros Hx. apply Hn. right. exact Hx.
Qed.

Lemma index_of_nth_error (l : list nat) (i a : nat) :
  NoDup l -> nth_error l i = Some a -> index_of a l = Some i.
Proof.
  revert i. induction l as [|y t IH]; intros i ND Hi; [destruct i; discriminate Hi|].
  inversion ND as [|y' t' Hny NDt]; subst. cbn [index_of]. destruct i as [|i]; cbn [nth_error] in Hi.
  - inversion Hi; subst. rewrite Nat.eqb_refl. reflexivity.
  - destruct (Nat.eqb y a) eqn:E.
    + apply Nat.eqb_eq in E. subst y. exfalso. apply Hny. eapply nth_error_In. exact Hi.
    + rewrite (IH i NDt Hi). reflexivity.
Qed.

(** a sum over the full Fock space of a function supported on one block = the sum over the block *)
Lemma lsum_fock_index (fock st : list nat) (G : nat -> nat -> R) :
  NoDup fock -> NoDup st -> incl st fock ->
  lsum (fun f => match index_of f st with Some fi => G f fi | None => 0 end) fock =
  lsum (fun p => G (snd p) (fst p)) (enum st).
Proof.
  intros NDf NDs Hin.
  rewrite (lsum_restrict _ fock st NDf NDs Hin).
  2:{ intros b _ Hnb. rewrite (index_of_None b st Hnb). reflexivity. }
  rewrite <- (lsum_enum_snd (fun f => match index_of f st with Some fi => G f fi | None => 0 end) st).
  apply lsum_ext. intros [i a] Hia. cbn [fst snd]. destruct (in_enum st i a Hia) as [_ N].
  rewrite (index_of_nth_error st i a NDs N). reflexivity.
Qed.

(** the nested accumulator loops of DensityMatrixPart are double sums *)
Lemma fold_left_nested {A B} (g : A -> B -> R) (L : A -> list B) (l : list A) (x : R) :
  fold_left (fun acc a => fold_left (fun acc' b => acc' + g a b) (L a) acc) l x =
  x + lsum (fun a => lsum (g a) (L a)) l.
Proof.
  revert x. induction l as [|a t IH]; intros x; cbn [fold_left lsum]; [lra|].
  rewrite IH, fold_left_lsum. lra.
Qed.

Lemma combine_col_enum (st : list nat) (vec : list (list R)) (s : nat) :
  length vec = length st ->
  combine st (col R 0 vec s) = map (fun p => (snd p, nth s (nth (fst p) vec []) 0)) (enum st).
Proof.
  revert vec. induction st as [|f t IH]; intros vec L; [reflexivity|].
  destruct vec as [|row vec]; [discriminate L|]. rewrite enum_cons.
  cbn [col map combine fst snd nth]. f_equal. rewrite map_map. cbn [fst snd nth].
  apply IH. cbn in L. lia.
Qed.

Definition vcomp (hp : Rhpart) (fi s : nat) : R := nth s (nth fi (hp_vec R hp) []) 0.

Lemma part_fock_average_sum (pre : R -> nat -> R) (hp : Rhpart) (dp : Rdmpart) :
  length (hp_vec R hp) = length (hp_states R hp) ->
  part_fock_average R 0 Rplus Rmult Rabs pre hp dp =
  lsum (fun sw => lsum (fun p => pre (snd sw) (snd p) * (vcomp hp (fst p) (fst sw) * vcomp hp (fst p) (fst sw)))
                       (enum (hp_states R hp)))
       (enum (dp_weights R dp)).
Proof.
  intros L. unfold part_fock_average.
  rewrite (fold_left_nested (fun sw fv => pre (snd sw) (fst fv) * Rabs (snd fv * snd fv))
                            (fun sw => combine (hp_states R hp) (col R 0 (hp_vec R hp) (fst sw)))).
  rewrite Rplus_0_l. apply lsum_ext. intros sw _. rewrite (combine_col_enum _ _ _ L), lsum_map.
  apply lsum_ext. intros p _. cbn [fst snd]. unfold vcomp.
  rewrite Rabs_pos_eq; [reflexivity|]. apply Rle_0_sqr.
Qed.

Lemma dm_sum_parts_sum (f : Rhpart -> Rdmpart -> R) (H : list Rhpart) (D : list Rdmpart) :
  dm_sum_parts R 0 Rplus f H D = lsum (fun hd => f (fst hd) (snd hd)) (combine H D).
Proof. unfold dm_sum_parts. rewrite (fold_left_lsum (fun hd => f (fst hd) (snd hd))). lra. Qed.

Lemma in_combine_H {A B} (l1 : list A) (l2 : list B) (p : A * B) : In p (combine l1 l2) -> In (fst p) l1 /\ In (snd p) l2.
Proof. destruct p as [a b]. intros Hp. split; [eapply in_combine_l|eapply in_combine_r]; exact Hp. Qed.

Section Traces.
Variable fock : list nat.
Variable H : list Rhpart.
Variable D : list Rdmpart.
Hypothesis fock_nodup : NoDup fock.                                       (* the Fock states are listed once *)
Hypothesis blocks_wf : forall hp, In hp H -> wf_hpart hp.                  (* sizes agree, states of a block distinct *)
Hypothesis blocks_in_fock : forall hp, In hp H -> incl (hp_states R hp) fock.

(** Sum over the full space of a quantity built from the components of one eigenvector *)
Lemma lsum_fock_comp (hp : Rhpart) (s : nat) (G : nat -> R -> R) :
  In hp H -> (forall f, G f 0 = 0) ->
  lsum (fun f => G f (comp hp s f)) fock = lsum (fun p => G (snd p) (vcomp hp (fst p) s)) (enum (hp_states R hp)).
Proof.
  intros Hhp G0. destruct (blocks_wf hp Hhp) as [_ [_ [_ ND]]].
  rewrite <- (lsum_fock_index fock (hp_states R hp) (fun f fi => G f (vcomp hp fi s)) fock_nodup ND (blocks_in_fock hp Hhp)).
  apply lsum_ext. intros f _. unfold comp. destruct (index_of f (hp_states R hp)); [reflexivity|apply G0].
Qed.

(** Tr(rho O) = Sum_n w_n <n|O|n>: the trace in the Fock basis equals the eigenbasis form (what
    EDSpec.trace_rho evaluates on the rotated operator). Pure exchange of finite sums. *)
Lemma trace_eigen_form (O : nat -> nat -> R) :
  trace_rho_op fock H D O = sum_states H D (expect fock O).
Proof.
  unfold trace_rho_op, rho, sum_states, expect.
  (* distribute the factor O g f into the sums over states *)
  rewrite (lsum_ext _ (fun f => lsum (fun g => lsum (fun hd => lsum (fun sw =>
             snd sw * (comp (fst hd) (fst sw) f * comp (fst hd) (fst sw) g) * O g f)
             (enum (dp_weights R (snd hd)))) (combine H D)) fock)).
  2:{ intros f _. apply lsum_ext. intros g _. rewrite <- lsum_scal_r. apply lsum_ext. intros hd _.
      rewrite <- lsum_scal_r. reflexivity. }
  (* bring the sum over blocks to the front *)
  rewrite (lsum_ext _ (fun f => lsum (fun hd => lsum (fun g => lsum (fun sw =>
             snd sw * (comp (fst hd) (fst sw) f * comp (fst hd) (fst sw) g) * O g f)
             (enum (dp_weights R (snd hd)))) fock) (combine H D))).
  2:{ intros f _. apply lsum_swap. }
  rewrite lsum_swap. apply lsum_ext. intros hd _.
  (* bring the sum over the states of the block to the front *)
  rewrite (lsum_ext _ (fun f => lsum (fun sw => lsum (fun g =>
             snd sw * (comp (fst hd) (fst sw) f * comp (fst hd) (fst sw) g) * O g f) fock)
             (enum (dp_weights R (snd hd))))).
  2:{ intros f _. apply lsum_swap. }
  rewrite lsum_swap. apply lsum_ext. intros sw _.
  rewrite <- lsum_scal.
  (* Sum_f Sum_g U_f U_g O_gf = Sum_f Sum_g U_f O_fg U_g: rename the summation variables *)
  rewrite (lsum_swap (fun f g => snd sw * (comp (fst hd) (fst sw) f * comp (fst hd) (fst sw) g) * O g f)).
  apply lsum_ext. intros f _. rewrite <- lsum_scal. apply lsum_ext. intros g _. ring.
Qed.

(** For an operator that is diagonal in the Fock basis, with eigenvalue d(f) on |f> *)
Lemma expect_diag (d : nat -> R) (hp : Rhpart) (s : nat) :
  In hp H ->
  expect fock (diag_op d) hp s = lsum (fun p => d (snd p) * (vcomp hp (fst p) s * vcomp hp (fst p) s)) (enum (hp_states R hp)).
Proof.
  intros Hhp. unfold expect, diag_op.
  rewrite (lsum_ext _ (fun f => d f * (comp hp s f * comp hp s f))).
  2:{ intros f Hf. rewrite (lsum_ext _ (fun g => if Nat.eqb f g then comp hp s f * d f * comp hp s g else 0)).
      - rewrite (lsum_single (fun g => comp hp s f * d f * comp hp s g) fock f fock_nodup Hf). ring.
      - intros g _. destruct (Nat.eqb f g); ring. }
  apply (lsum_fock_comp hp s (fun f v => d f * (v * v)) Hhp). intros f. ring.
Qed.

(** General form of getAverageOccupancy / getAverageDoubleOccupancy: a weighted sum over eigenvector
    components squared times a function of the Fock state is the trace of rho with the diagonal operator. *)
Theorem fock_average_is_trace (pre : R -> nat -> R) (d : nat -> R) :
  (forall w f, pre w f = w * d f) ->
  dm_sum_parts R 0 Rplus (part_fock_average R 0 Rplus Rmult Rabs pre) H D = trace_rho_op fock H D (diag_op d).
Proof.
  intros Hpre. rewrite trace_eigen_form, dm_sum_parts_sum. unfold sum_states.
  apply lsum_ext. intros [hp dp] Hhd. cbn [fst snd]. destruct (in_combine_H _ _ _ Hhd) as [Hhp _]. cbn [fst] in Hhp.
  destruct (blocks_wf hp Hhp) as [L1 [L2 _]].
  rewrite part_fock_average_sum by congruence.
  apply lsum_ext. intros sw _. rewrite (expect_diag d hp (fst sw) Hhp), <- lsum_scal.
  apply lsum_ext. intros p _. rewrite Hpre. ring.
Qed.

(** per-index occupancy <n_i> = Tr(rho n_i): |v_fi|^2 and test(i) of the Fock state *)
Theorem occupancy_is_trace (M i : nat) :
  (i < M)%nat -> Rdm_average_occupancy_i M i H D = Done (trace_rho_op fock H D (op_n i)).
Proof.
  intros Hi. unfold Rdm_average_occupancy_i, dm_average_occupancy_i.
  apply Nat.ltb_lt in Hi. rewrite Hi. f_equal. unfold part_average_occupancy_i.
  apply (fock_average_is_trace _ (fun f => b2r (Nat.testbit f i))).
  intros w f. unfold b2k, b2r. destruct (Nat.testbit f i); cbn [INR]; ring.
Qed.

(** total occupancy <N> = Tr(rho N), N = Sum_i n_i counts the occupied modes *)
Theorem total_occupancy_is_trace (M : nat) :
  Rdm_average_occupancy M H D = trace_rho_op fock H D (op_N M).
Proof.
  unfold Rdm_average_occupancy, dm_average_occupancy, part_average_occupancy.
  apply (fock_average_is_trace _ (fun f => INR (popcount M f))). intros w f. ring.
Qed.

(** double occupancy <n_i n_j> = Tr(rho n_i n_j) *)
Theorem double_occ_is_trace (M i j : nat) :
  (i < M)%nat -> (j < M)%nat ->
  Rdm_average_double_occupancy M i j H D = Done (trace_rho_op fock H D (op_nn i j)).
Proof.
  intros Hi Hj. unfold Rdm_average_double_occupancy, dm_average_double_occupancy.
  apply Nat.ltb_lt in Hi. apply Nat.ltb_lt in Hj. rewrite Hi, Hj. cbn [andb]. f_equal.
  unfold part_average_double_occupancy.
  apply (fock_average_is_trace _ (fun f => b2r (Nat.testbit f i) * b2r (Nat.testbit f j))).
  intros w f. unfold b2k, b2r. destruct (Nat.testbit f i), (Nat.testbit f j); cbn [INR]; ring.
Qed.

(** the number operator counts: popcount over M modes is the sum of the bits (so <N> = Sum_i <n_i>) *)
Lemma popcount_fuel_bits (M f : nat) :
  INR (popcount_fuel M f) = lsum (fun i => b2r (Nat.testbit f i)) (seq 0 M).
Proof.
  revert f. induction M as [|M IH]; intros f; [reflexivity|].
  cbn [popcount_fuel seq lsum]. rewrite plus_INR, IH, <- seq_shift, lsum_map.
  f_equal. cbn [Nat.testbit]. unfold b2r. destruct (Nat.odd f); reflexivity.
Qed.

(** ** Average energy *)

Lemma lsum_combine_enum (w e : list R) :
  lsum (fun we => fst we * snd we) (combine w e) = lsum (fun sw => snd sw * nth (fst sw) e 0) (enum w).
Proof.
  revert e. induction w as [|x w IH]; intros e; [reflexivity|]. rewrite enum_cons.
  destruct e as [|y e].
  - cbn [combine lsum fst snd nth]. rewrite lsum_map. cbn [fst snd].
    rewrite lsum_zero; [lra|]. intros [i a] _. cbn [fst snd]. destruct i; cbn; lra.
  - cbn [combine lsum fst snd nth]. rewrite lsum_map. cbn [fst snd nth]. rewrite IH. reflexivity.
Qed.

(** Average energy = Tr(rho Hm) for ANY matrix Hm on the Fock space of which the assembled eigenvectors are
    normalised eigenvectors with the stored eigenvalues (the certificate CERT that every run checks:
    residual_HU = 0 and the diagonal of residual_unitary = 0). *)
Theorem avg_energy_is_trace (Hm : nat -> nat -> R) :
  (* eigen_equation *)
  (forall hp s f, In hp H -> (s < hp_size R hp)%nat -> In f fock ->
     lsum (fun g => Hm f g * comp hp s g) fock = nth s (hp_eig R hp) 0 * comp hp s f) ->
  (* eigenvectors_normalised *)
  (forall hp s, In hp H -> (s < hp_size R hp)%nat -> lsum (fun f => comp hp s f * comp hp s f) fock = 1) ->
  (* weights_sized *)
  (forall hd, In hd (combine H D) -> length (dp_weights R (snd hd)) = hp_size R (fst hd)) ->
  Rdm_average_energy H D = trace_rho_op fock H D Hm.
Proof.
  intros Heig Hnorm Hsz. rewrite trace_eigen_form. unfold Rdm_average_energy, dm_average_energy.
  rewrite dm_sum_parts_sum. unfold sum_states. apply lsum_ext. intros [hp dp] Hhd. cbn [fst snd].
  destruct (in_combine_H _ _ _ Hhd) as [Hhp _]. cbn [fst] in Hhp.
  unfold part_average_energy. rewrite (fold_left_lsum (fun we => fst we * snd we)), Rplus_0_l, lsum_combine_enum.
  apply lsum_ext. intros [s w] Hsw. cbn [fst snd]. f_equal.
  destruct (in_enum _ _ _ Hsw) as [Ls _]. specialize (Hsz (hp, dp) Hhd). cbn [fst snd] in Hsz. rewrite Hsz in Ls.
  unfold expect.
  rewrite (lsum_ext _ (fun f => nth s (hp_eig R hp) 0 * (comp hp s f * comp hp s f))).
  - rewrite lsum_scal, (Hnorm hp s Hhp Ls). ring.
  - intros f Hf. rewrite (lsum_ext _ (fun g => comp hp s f * (Hm f g * comp hp s g))) by (intros; ring).
    rewrite lsum_scal, (Heig hp s f Hhp Ls Hf). ring.
Qed.

End Traces.
