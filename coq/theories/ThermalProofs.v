(** ThermalProofs.v -- proofs for C09 (Gibbs weights, averages as traces) and C19 (block truncation)
    about the model PV.Thermal instantiated at Coq's real numbers (PV.ThermalSpec).
    Axioms: only the classical axioms of the standard library's real numbers (listed by
    Print Assumptions in props/Properties_C09.v, Properties_C19.v). *)
Require Import Reals Bool List Arith Lra Lia Psatz.
From Coquelicot Require Import Complex.
From PV Require Import Outcome Thermal ThermalSpec.
Import ListNotations.
Local Open Scope R_scope.

(** * 1. Finite sums *)

Lemma fold_left_lsum {A} (f : A -> R) (l : list A) (x : R) :
  fold_left (fun acc a => acc + f a) l x = x + lsum f l.
Proof.
  revert x. induction l as [|a t IH]; intros x; cbn [fold_left lsum].
  - lra.
  - rewrite IH. lra.
Qed.

Lemma fold_left_Rplus (l : list R) (x : R) : fold_left Rplus l x = x + lsum (fun w => w) l.
Proof. exact (fold_left_lsum (fun w => w) l x). Qed.

Lemma lsum_ext {A} (f g : A -> R) (l : list A) :
  (forall a, In a l -> f a = g a) -> lsum f l = lsum g l.
Proof.
  induction l as [|a t IH]; intros E; cbn [lsum]; [reflexivity|].
  rewrite (E a (or_introl eq_refl)), IH; [reflexivity|]. intros b Hb. apply E. right. exact Hb.
Qed.

Lemma lsum_app {A} (f : A -> R) (l1 l2 : list A) : lsum f (l1 ++ l2) = lsum f l1 + lsum f l2.
Proof. induction l1 as [|a t IH]; cbn [lsum app]; [lra|rewrite IH; lra]. Qed.

Lemma lsum_map {A B} (f : B -> R) (g : A -> B) (l : list A) : lsum f (map g l) = lsum (fun a => f (g a)) l.
Proof. induction l as [|a t IH]; cbn [lsum map]; [reflexivity|rewrite IH; reflexivity]. Qed.

Lemma lsum_scal {A} (c : R) (f : A -> R) (l : list A) : lsum (fun a => c * f a) l = c * lsum f l.
Proof. induction l as [|a t IH]; cbn [lsum]; [lra|rewrite IH; lra]. Qed.

Lemma lsum_scal_r {A} (c : R) (f : A -> R) (l : list A) : lsum (fun a => f a * c) l = lsum f l * c.
Proof. induction l as [|a t IH]; cbn [lsum]; [lra|rewrite IH; lra]. Qed.

Lemma lsum_plus {A} (f g : A -> R) (l : list A) : lsum (fun a => f a + g a) l = lsum f l + lsum g l.
Proof. induction l as [|a t IH]; cbn [lsum]; [lra|rewrite IH; lra]. Qed.

Lemma lsum_zero {A} (f : A -> R) (l : list A) : (forall a, In a l -> f a = 0) -> lsum f l = 0.
Proof.
  intros E. rewrite (lsum_ext f (fun _ => 0) l E). induction l as [|a t IH]; cbn [lsum]; [reflexivity|].
  rewrite IH; [lra|]. intros b Hb. apply E. right. exact Hb.
Qed.

Lemma lsum_le {A} (f g : A -> R) (l : list A) :
  (forall a, In a l -> f a <= g a) -> lsum f l <= lsum g l.
Proof.
  induction l as [|a t IH]; intros E; cbn [lsum]; [lra|].
  assert (f a <= g a) by (apply E; left; reflexivity).
  assert (lsum f t <= lsum g t) by (apply IH; intros b Hb; apply E; right; exact Hb). lra.
Qed.

Lemma lsum_nonneg {A} (f : A -> R) (l : list A) : (forall a, In a l -> 0 <= f a) -> 0 <= lsum f l.
Proof.
  intros E. replace 0 with (lsum (fun _ : A => 0) l) at 1; [apply lsum_le; exact E|].
  apply lsum_zero. reflexivity.
Qed.

Lemma lsum_const {A} (c : R) (l : list A) : lsum (fun _ => c) l = INR (length l) * c.
Proof.
  induction l as [|a t IH]; [cbn; lra|]. cbn [lsum]. rewrite IH.
  change (length (a :: t)) with (S (length t)). rewrite S_INR. lra.
Qed.

Lemma lsum_member_le {A} (f : A -> R) (l : list A) (a : A) :
  (forall b, In b l -> 0 <= f b) -> In a l -> f a <= lsum f l.
Proof.
  induction l as [|b t IH]; intros Hn Ha; [destruct Ha|]. cbn [lsum].
  assert (0 <= f b) by (apply Hn; left; reflexivity).
  assert (0 <= lsum f t) by (apply lsum_nonneg; intros c Hc; apply Hn; right; exact Hc).
  destruct Ha as [->|Ha]; [lra|].
  assert (f a <= lsum f t) by (apply IH; [intros c Hc; apply Hn; right; exact Hc|exact Ha]). lra.
Qed.

Lemma lsum_swap {A B} (f : A -> B -> R) (l1 : list A) (l2 : list B) :
  lsum (fun a => lsum (fun b => f a b) l2) l1 = lsum (fun b => lsum (fun a => f a b) l1) l2.
Proof.
  induction l1 as [|a t IH]; cbn [lsum].
  - symmetry. apply lsum_zero. reflexivity.
  - rewrite IH, <- lsum_plus. reflexivity.
Qed.

Lemma Rabs_lsum_le {A} (f : A -> R) (l : list A) : Rabs (lsum f l) <= lsum (fun a => Rabs (f a)) l.
Proof.
  induction l as [|a t IH]; cbn [lsum]; [rewrite Rabs_R0; lra|].
  eapply Rle_trans; [apply Rabs_triang|]. lra.
Qed.

(** a sum in which at most the element y contributes *)
Lemma lsum_single (f : nat -> R) (l : list nat) (y : nat) :
  NoDup l -> In y l -> lsum (fun x => if Nat.eqb y x then f x else 0) l = f y.
Proof.
  induction l as [|x t IH]; intros ND Hy; [destruct Hy|]. cbn [lsum].
  inversion ND as [|x' t' Hnx NDt]; subst.
  destruct (Nat.eqb y x) eqn:E.
  - apply Nat.eqb_eq in E. subst x. rewrite lsum_zero; [lra|].
    intros z Hz. destruct (Nat.eqb y z) eqn:E2; [|reflexivity].
    apply Nat.eqb_eq in E2. subst z. contradiction.
  - destruct Hy as [->|Hy]; [rewrite Nat.eqb_refl in E; discriminate|].
    rewrite (IH NDt Hy). lra.
Qed.

Lemma lsum_single_absent (f : nat -> R) (l : list nat) (y : nat) :
  ~ In y l -> lsum (fun x => if Nat.eqb y x then f x else 0) l = 0.
Proof.
  intros Hn. apply lsum_zero. intros z Hz. destruct (Nat.eqb y z) eqn:E; [|reflexivity].
  apply Nat.eqb_eq in E. subst z. contradiction.
Qed.

(** sums over [enum l]: shifting the index *)
Lemma enum_cons {A} (a : A) (t : list A) :
  enum (a :: t) = (0%nat, a) :: map (fun p => (S (fst p), snd p)) (enum t).
Proof.
  unfold enum. cbn [length seq combine]. f_equal.
  rewrite <- seq_shift. generalize (seq 0 (length t)). intros s. revert t.
  induction s as [|i s IH]; intros t; [reflexivity|].
  destruct t as [|b t]; [reflexivity|]. cbn [map combine fst snd]. f_equal. apply IH.
Qed.

Lemma lsum_enum_snd {A} (f : A -> R) (l : list A) : lsum (fun p => f (snd p)) (enum l) = lsum f l.
Proof.
  induction l as [|a t IH]; [reflexivity|]. rewrite enum_cons. cbn [lsum snd]. rewrite lsum_map. cbn [snd].
  rewrite IH. reflexivity.
Qed.

Lemma in_enum {A} (l : list A) (i : nat) (a : A) :
  In (i, a) (enum l) -> (i < length l)%nat /\ nth_error l i = Some a.
Proof.
  revert i. induction l as [|b t IH]; intros i Hi; [destruct Hi|].
  rewrite enum_cons in Hi. destruct Hi as [E|Hi].
  - inversion E; subst. split; [cbn; lia|reflexivity].
  - apply in_map_iff in Hi. destruct Hi as [[j c] [E Hj]]. cbn [fst snd] in E. inversion E; subst.
    destruct (IH j Hj) as [L N]. split; [cbn; lia|exact N].
Qed.

Lemma lsum_enum_nth {A} (d : A) (f : nat * A -> R) (l : list A) :
  lsum f (enum l) = lsum (fun i => f (i, nth i l d)) (seq 0 (length l)).
Proof.
  revert f. induction l as [|a t IH]; intros f; [reflexivity|].
  rewrite enum_cons. cbn [length seq lsum nth]. f_equal.
  rewrite lsum_map, IH, <- seq_shift, lsum_map. reflexivity.
Qed.

(** * 2. Eigen's minCoeff and the ground energy *)

Lemma Rltb_true (a b : R) : Rltb a b = true <-> a < b.
Proof. unfold Rltb. destruct (Rlt_dec a b); split; intros; try assumption; try reflexivity; try discriminate; contradiction. Qed.

Lemma Rltb_false (a b : R) : Rltb a b = false <-> b <= a.
Proof.
  unfold Rltb. destruct (Rlt_dec a b); split; intros; try discriminate; try reflexivity; lra.
Qed.

Lemma fold_min_spec (t : list R) (x : R) :
  let m := fold_left (fun acc y => if Rltb y acc then y else acc) t x in
  In m (x :: t) /\ forall y, In y (x :: t) -> m <= y.
Proof.
  revert x. induction t as [|y t IH]; intros x; cbn [fold_left].
  - split; [left; reflexivity|]. intros y [->|[]]. lra.
  - destruct (Rltb y x) eqn:E.
    + apply Rltb_true in E. destruct (IH y) as [I L]. split.
      * right. exact I.
      * intros z [<-|Hz]; [|apply L; exact Hz].
        assert (fold_left (fun acc y0 => if Rltb y0 acc then y0 else acc) t y <= y) by (apply L; left; reflexivity). lra.
    + apply Rltb_false in E. destruct (IH x) as [I L]. split.
      * destruct I as [I|I]; [left; exact I|right; right; exact I].
      * intros z [<-|[<-|Hz]].
        -- apply L. left. reflexivity.
        -- assert (fold_left (fun acc y0 => if Rltb y0 acc then y0 else acc) t x <= x) by (apply L; left; reflexivity). lra.
        -- apply L. right. exact Hz.
Qed.

Lemma min_coeff_spec (l : list R) :
  l <> [] -> exists m, Rmin_coeff l = Done m /\ In m l /\ forall y, In y l -> m <= y.
Proof.
  destruct l as [|x t]; intros Hne; [contradiction|].
  eexists. split; [reflexivity|]. apply fold_min_spec.
Qed.

Lemma map_outcome_Done {A B} (f : A -> outcome B) (l : list A) (g : A -> B) :
  (forall a, In a l -> f a = Done (g a)) -> map_outcome f l = Done (map g l).
Proof.
  induction l as [|a t IH]; intros E; cbn [map_outcome map]; [reflexivity|].
  rewrite (E a (or_introl eq_refl)). cbn [bind]. rewrite IH; [reflexivity|].
  intros b Hb. apply E. right. exact Hb.
Qed.

Lemma map_outcome_Done_inv {A B} (f : A -> outcome B) (l : list A) (r : list B) :
  map_outcome f l = Done r -> length r = length l /\ forall i a, nth_error l i = Some a -> exists b, nth_error r i = Some b /\ f a = Done b.
Proof.
  revert r. induction l as [|a t IH]; intros r E; cbn [map_outcome] in E.
  - inversion E; subst. split; [reflexivity|]. intros [|i] a Ha; discriminate Ha.
  - destruct (f a) as [b| | | |] eqn:Fa; cbn [bind] in E; try discriminate E.
    destruct (map_outcome f t) as [bs| | | |] eqn:Ft; cbn [bind] in E; try discriminate E.
    inversion E; subst. destruct (IH bs eq_refl) as [L N]. split; [cbn; lia|].
    intros [|i] a' Ha'; cbn [nth_error] in *.
    + inversion Ha'; subst. exists b. split; [reflexivity|exact Fa].
    + apply N. exact Ha'.
Qed.

(** Hamiltonian::computeGroundEnergy returns the smallest of all eigenvalues; it is attained. *)
Theorem ground_energy_is_min (H : list Rhpart) :
  H <> [] -> (forall hp, In hp H -> hp_eig R hp <> []) ->
  exists g, Rground_energy H = Done g /\
            (exists hp, In hp H /\ In g (hp_eig R hp)) /\
            (forall hp e, In hp H -> In e (hp_eig R hp) -> g <= e).
Proof.
  intros Hne Hb.
  (* a total function giving each block's minimum *)
  assert (Hf : forall hp, In hp H -> exists m, Rmin_coeff (hp_eig R hp) = Done m /\ In m (hp_eig R hp) /\
                                         forall y, In y (hp_eig R hp) -> m <= y).
  { intros hp Hhp. apply min_coeff_spec. apply Hb. exact Hhp. }
  set (gm := fun hp : Rhpart => match Rmin_coeff (hp_eig R hp) with Done m => m | _ => 0 end).
  assert (Hg : forall hp, In hp H -> Rmin_coeff (hp_eig R hp) = Done (gm hp)).
  { intros hp Hhp. destruct (Hf hp Hhp) as [m [E _]]. unfold gm. rewrite E. reflexivity. }
  unfold Rground_energy, ground_energy.
  fold Rmin_coeff.
  rewrite (map_outcome_Done (fun hp => Rmin_coeff (hp_eig R hp)) H gm Hg). cbn [bind].
  destruct (min_coeff_spec (map gm H)) as [g [Eg [Ig Lg]]].
  { destruct H; [contradiction|discriminate]. }
  exists g. split; [exact Eg|]. split.
  - apply in_map_iff in Ig. destruct Ig as [hp [E Hhp]]. exists hp. split; [exact Hhp|].
    destruct (Hf hp Hhp) as [m [Em [Im _]]]. rewrite <- E. unfold gm. rewrite Em. exact Im.
  - intros hp e Hhp He. destruct (Hf hp Hhp) as [m [Em [_ Lm]]].
    assert (g <= gm hp) by (apply Lg; apply in_map; exact Hhp).
    assert (gm hp = m) by (unfold gm; rewrite Em; reflexivity).
    specialize (Lm e He). lra.
Qed.

Lemma ground_energy_Done_nonempty (H : list Rhpart) (g : R) :
  Rground_energy H = Done g -> H <> [] /\ forall hp, In hp H -> hp_eig R hp <> [].
Proof.
  unfold Rground_energy, ground_energy. intros E.
  destruct (map_outcome (fun hp => min_coeff R Rltb (hp_eig R hp)) H) as [ms| | | |] eqn:Em; cbn [bind] in E; try discriminate E.
  destruct (map_outcome_Done_inv _ _ _ Em) as [L N]. split.
  - intros ->. cbn in L. destruct ms; [cbn in E; discriminate E|discriminate L].
  - intros hp Hhp. destruct (In_nth_error _ _ Hhp) as [i Hi]. destruct (N i hp Hi) as [b [_ Hb]].
    intros E0. rewrite E0 in Hb. cbn in Hb. discriminate Hb.
Qed.

(** the minimum is unique: two values that are both attained lower bounds coincide *)
Lemma ground_energy_unique (H : list Rhpart) (g g' : R) :
  (exists hp, In hp H /\ In g (hp_eig R hp)) -> (forall hp e, In hp H -> In e (hp_eig R hp) -> g <= e) ->
  (exists hp, In hp H /\ In g' (hp_eig R hp)) -> (forall hp e, In hp H -> In e (hp_eig R hp) -> g' <= e) ->
  g = g'.
Proof.
  intros [hp [Hhp Hg]] L [hp' [Hhp' Hg']] L'.
  specialize (L hp' g' Hhp' Hg'). specialize (L' hp g Hhp Hg). lra.
Qed.

(** * 3. Gibbs weights (C09, first half) *)

(** the unnormalised weight of an eigenvalue e *)
Definition uw (beta g e : R) : R := exp (- beta * (e - g)).
(** the partition function computed by DensityMatrix::compute *)
Definition Zsum (beta g : R) (H : list Rhpart) : R := lsum (fun hp => lsum (uw beta g) (hp_eig R hp)) H.
(** the part of the density matrix for one block, in closed form *)
Definition gibbs_part (beta g Z : R) (hp : Rhpart) : Rdmpart :=
  mk_dmpart R (map (fun e => uw beta g e / Z) (hp_eig R hp)) (lsum (uw beta g) (hp_eig R hp) / Z) true.

Lemma Runnormalized_weight_eq (beta g e : R) : Runnormalized_weight beta g e = uw beta g e.
Proof. reflexivity. Qed.

Lemma Rcompute_unnormalized_eq (beta g : R) (hp : Rhpart) :
  Rcompute_unnormalized beta g hp = mk_dmpart R (map (uw beta g) (hp_eig R hp)) (lsum (uw beta g) (hp_eig R hp)) true.
Proof.
  unfold Rcompute_unnormalized, compute_unnormalized. f_equal.
  rewrite fold_left_Rplus, lsum_map, Rplus_0_l. reflexivity.
Qed.

Lemma Rdm_Z_unnormalized (beta g : R) (H : list Rhpart) :
  Rdm_Z (Rdm_unnormalized beta g H) = Zsum beta g H.
Proof.
  unfold Rdm_Z, dm_Z, Rdm_unnormalized, dm_unnormalized.
  rewrite (fold_left_lsum (fun dp => dp_zpart R dp)), lsum_map, Rplus_0_l. unfold Zsum.
  apply lsum_ext. intros hp _. fold (Rcompute_unnormalized beta g hp). rewrite Rcompute_unnormalized_eq. reflexivity.
Qed.

(** closed form of DensityMatrix::prepare + compute *)
Lemma dm_compute_char (beta : R) (H : list Rhpart) (g : R) :
  Rground_energy H = Done g ->
  Rdm_compute beta H = Done (map (gibbs_part beta g (Zsum beta g H)) H).
Proof.
  intros Eg. unfold Rdm_compute, dm_compute. fold Rground_energy. rewrite Eg. cbn [bind]. f_equal.
  fold (Rdm_unnormalized beta g H). fold (Rdm_Z (Rdm_unnormalized beta g H)). rewrite Rdm_Z_unnormalized.
  unfold Rdm_unnormalized, dm_unnormalized. rewrite map_map. apply map_ext. intros hp.
  fold (Rcompute_unnormalized beta g hp). rewrite Rcompute_unnormalized_eq.
  unfold normalize, gibbs_part. cbn [dp_weights dp_zpart dp_retained]. rewrite map_map. reflexivity.
Qed.

Lemma dm_compute_Done_inv (beta : R) (H : list Rhpart) (D : list Rdmpart) :
  Rdm_compute beta H = Done D ->
  exists g, Rground_energy H = Done g /\ D = map (gibbs_part beta g (Zsum beta g H)) H.
Proof.
  intros E. destruct (Rground_energy H) as [g| | | |] eqn:Eg;
    try (unfold Rdm_compute, dm_compute in E; fold Rground_energy in E; rewrite Eg in E; discriminate E).
  exists g. split; [reflexivity|]. rewrite (dm_compute_char beta H g Eg) in E. inversion E. reflexivity.
Qed.

Lemma uw_pos (beta g e : R) : 0 < uw beta g e.
Proof. apply exp_pos. Qed.

(** For beta >= 0 every unnormalised weight is in (0, 1], because the ground energy is the minimum:
    the exponent -beta (E - E_ground) is never positive, so exp cannot overflow, whatever the
    bandwidth, the temperature and the offset of the spectrum are. *)
Theorem unnormalised_in_unit_interval (beta : R) (H : list Rhpart) (g : R) :
  0 <= beta -> Rground_energy H = Done g ->
  forall hp e, In hp H -> In e (hp_eig R hp) ->
    0 < Runnormalized_weight beta g e <= 1.
Proof.
  intros Hb Eg hp e Hhp He. rewrite Runnormalized_weight_eq.
  destruct (ground_energy_Done_nonempty H g Eg) as [Hne Hbl].
  destruct (ground_energy_is_min H Hne Hbl) as [g' [Eg' [_ Lg]]]. rewrite Eg in Eg'. inversion Eg'; subst g'.
  split; [apply uw_pos|]. unfold uw. rewrite <- exp_0.
  assert (g <= e) by (apply (Lg hp e Hhp He)).
  destruct (Req_dec (- beta * (e - g)) 0) as [E0|N0]; [rewrite E0; lra|].
  left. apply exp_increasing. nra.
Qed.

Lemma Zsum_pos (beta g : R) (H : list Rhpart) :
  H <> [] -> (forall hp, In hp H -> hp_eig R hp <> []) -> 0 < Zsum beta g H.
Proof.
  intros Hne Hbl. destruct H as [|hp t]; [contradiction|]. unfold Zsum. cbn [lsum].
  assert (0 < lsum (uw beta g) (hp_eig R hp)).
  { specialize (Hbl hp (or_introl eq_refl)). destruct (hp_eig R hp) as [|e es]; [contradiction|]. cbn [lsum].
    assert (0 <= lsum (uw beta g) es) by (apply lsum_nonneg; intros; left; apply uw_pos).
    pose proof (uw_pos beta g e). lra. }
  assert (0 <= lsum (fun hp0 => lsum (uw beta g) (hp_eig R hp0)) t).
  { apply lsum_nonneg. intros hp0 _. apply lsum_nonneg. intros; left; apply uw_pos. }
  lra.
Qed.

Lemma total_states_INR (H : list Rhpart) :
  INR (total_states H) = lsum (fun hp => INR (length (hp_eig R hp))) H.
Proof.
  induction H as [|hp t IH]; [reflexivity|]. cbn [total_states fold_right lsum].
  rewrite plus_INR. fold (total_states t). rewrite IH. reflexivity.
Qed.

(** The partition function is at least 1 (the ground state contributes exp 0) and at most the number of
    states: dividing by it is safe and cannot overflow. *)
Theorem Z_ge_one (beta : R) (H : list Rhpart) (g : R) :
  0 <= beta -> Rground_energy H = Done g ->
  1 <= Rdm_Z (Rdm_unnormalized beta g H) <= INR (total_states H).
Proof.
  intros Hb Eg. rewrite Rdm_Z_unnormalized.
  destruct (ground_energy_Done_nonempty H g Eg) as [Hne Hbl].
  destruct (ground_energy_is_min H Hne Hbl) as [g' [Eg' [[hp [Hhp Hg]] Lg]]]. rewrite Eg in Eg'. inversion Eg'; subst g'.
  split.
  - unfold Zsum.
    assert (S1 : lsum (uw beta g) (hp_eig R hp) <= lsum (fun hp0 => lsum (uw beta g) (hp_eig R hp0)) H).
    { apply (lsum_member_le (fun hp0 => lsum (uw beta g) (hp_eig R hp0))); [|exact Hhp].
      intros b _. apply lsum_nonneg. intros; left; apply uw_pos. }
    assert (S2 : uw beta g g <= lsum (uw beta g) (hp_eig R hp)).
    { apply lsum_member_le; [|exact Hg]. intros; left; apply uw_pos. }
    assert (uw beta g g = 1). { unfold uw. replace (- beta * (g - g)) with 0 by ring. apply exp_0. }
    lra.
  - rewrite total_states_INR. unfold Zsum. apply lsum_le. intros hp0 Hhp0.
    rewrite <- (Rmult_1_r (INR _)), <- lsum_const. apply lsum_le. intros e He.
    pose proof (unnormalised_in_unit_interval beta H g Hb Eg hp0 e Hhp0 He) as U.
    rewrite Runnormalized_weight_eq in U. lra.
Qed.

(** Addressing: the weight of state s of block a *)
Lemma weight_at_gibbs (beta g Z : R) (H : list Rhpart) (a s : nat) :
  valid_state H a s ->
  weight_at (map (gibbs_part beta g Z) H) a s = uw beta g (energy_at H a s) / Z.
Proof.
  intros [La Ls]. unfold weight_at, energy_at.
  rewrite (nth_indep _ dummy_dp (gibbs_part beta g Z dummy_hp)) by (rewrite map_length; exact La).
  rewrite (map_nth (gibbs_part beta g Z) H dummy_hp a). unfold gibbs_part at 1. cbn [dp_weights].
  rewrite (nth_indep _ 0 ((fun e => uw beta g e / Z) 0)) by (rewrite map_length; exact Ls).
  rewrite (map_nth (fun e => uw beta g e / Z)). reflexivity.
Qed.

(** Closed form: w(a,s) = exp(-beta (E(a,s) - E_ground)) / Z with Z > 0 *)
Theorem weights_closed_form (beta : R) (H : list Rhpart) (D : list Rdmpart) :
  Rdm_compute beta H = Done D ->
  exists g Z, Rground_energy H = Done g /\ 0 < Z /\ Z = Zsum beta g H /\ length D = length H /\
    forall a s, valid_state H a s -> weight_at D a s = exp (- beta * (energy_at H a s - g)) / Z.
Proof.
  intros E. destruct (dm_compute_Done_inv beta H D E) as [g [Eg ->]].
  destruct (ground_energy_Done_nonempty H g Eg) as [Hne Hbl].
  exists g, (Zsum beta g H). repeat split; try assumption; try reflexivity.
  - apply Zsum_pos; assumption.
  - apply map_length.
  - intros a s V. rewrite weight_at_gibbs by exact V. reflexivity.
Qed.

(** Weights are positive (in particular non-negative) *)
Theorem weights_nonneg (beta : R) (H : list Rhpart) (D : list Rdmpart) :
  Rdm_compute beta H = Done D ->
  forall a s, valid_state H a s -> 0 < weight_at D a s.
Proof.
  intros E a s V. destruct (weights_closed_form beta H D E) as [g [Z [_ [HZ [_ [_ W]]]]]].
  rewrite (W a s V). apply Rdiv_lt_0_compat; [apply exp_pos|exact HZ].
Qed.

(** the same, for every entry of every weight vector *)
Lemma weights_all_pos (beta : R) (H : list Rhpart) (D : list Rdmpart) :
  Rdm_compute beta H = Done D -> forall dp w, In dp D -> In w (dp_weights R dp) -> 0 < w.
Proof.
  intros E dp w Hdp Hw. destruct (dm_compute_Done_inv beta H D E) as [g [Eg ->]].
  destruct (ground_energy_Done_nonempty H g Eg) as [Hne Hbl].
  apply in_map_iff in Hdp. destruct Hdp as [hp [<- Hhp]]. cbn [gibbs_part dp_weights] in Hw.
  apply in_map_iff in Hw. destruct Hw as [e [<- He]].
  apply Rdiv_lt_0_compat; [apply uw_pos|apply Zsum_pos; assumption].
Qed.

(** no block of the density matrix is empty *)
Lemma weights_nonempty (beta : R) (H : list Rhpart) (D : list Rdmpart) :
  Rdm_compute beta H = Done D -> forall dp, In dp D -> dp_weights R dp <> [].
Proof.
  intros E dp Hdp. destruct (dm_compute_Done_inv beta H D E) as [g [Eg ->]].
  destruct (ground_energy_Done_nonempty H g Eg) as [Hne Hbl].
  apply in_map_iff in Hdp. destruct Hdp as [hp [<- Hhp]]. cbn [gibbs_part dp_weights].
  specialize (Hbl hp Hhp). destruct (hp_eig R hp); [contradiction|discriminate].
Qed.

(** Weights sum to one *)
Theorem weights_sum_one (beta : R) (H : list Rhpart) (D : list Rdmpart) :
  Rdm_compute beta H = Done D -> total_weight D = 1.
Proof.
  intros E. destruct (dm_compute_Done_inv beta H D E) as [g [Eg ->]].
  destruct (ground_energy_Done_nonempty H g Eg) as [Hne Hbl].
  pose proof (Zsum_pos beta g H Hne Hbl) as HZ.
  unfold total_weight. rewrite lsum_map.
  rewrite (lsum_ext _ (fun hp => lsum (uw beta g) (hp_eig R hp) * / Zsum beta g H)).
  - rewrite lsum_scal_r. fold (Zsum beta g H). field. lra.
  - intros hp _. cbn [gibbs_part dp_weights]. rewrite lsum_map.
    rewrite <- lsum_scal_r. reflexivity.
Qed.

(** the partial partition functions are the block sums of the weights (getPartialZ) and also sum to one *)
Theorem partial_Z_is_block_sum (beta : R) (H : list Rhpart) (D : list Rdmpart) :
  Rdm_compute beta H = Done D ->
  (forall dp, In dp D -> dp_zpart R dp = lsum (fun w => w) (dp_weights R dp)) /\ lsum (dp_zpart R) D = 1.
Proof.
  intros E. pose proof (weights_sum_one beta H D E) as S1.
  assert (P : forall dp, In dp D -> dp_zpart R dp = lsum (fun w => w) (dp_weights R dp)).
  { destruct (dm_compute_Done_inv beta H D E) as [g [Eg ->]]. intros dp Hdp.
    apply in_map_iff in Hdp. destruct Hdp as [hp [<- Hhp]]. cbn [gibbs_part dp_weights dp_zpart].
    rewrite lsum_map. unfold Rdiv. rewrite <- lsum_scal_r. reflexivity. }
  split; [exact P|]. rewrite <- S1. unfold total_weight. apply lsum_ext. exact P.
Qed.

(** Any two weights are in the ratio exp(-beta (E_a - E_b)), whichever blocks the states are in *)
Theorem weights_ratio (beta : R) (H : list Rhpart) (D : list Rdmpart) :
  Rdm_compute beta H = Done D ->
  forall a s b t, valid_state H a s -> valid_state H b t ->
    weight_at D a s / weight_at D b t = exp (- beta * (energy_at H a s - energy_at H b t)).
Proof.
  intros E a s b t Va Vb. destruct (weights_closed_form beta H D E) as [g [Z [_ [HZ [_ [_ W]]]]]].
  rewrite (W a s Va), (W b t Vb).
  replace (- beta * (energy_at H a s - energy_at H b t))
    with (- beta * (energy_at H a s - g) + - (- beta * (energy_at H b t - g))) by ring.
  rewrite exp_plus, exp_Ropp. field. repeat split; try lra; apply Rgt_not_eq; apply exp_pos.
Qed.

(** normalised weights are at most 1, for every beta *)
Theorem weights_le_one (beta : R) (H : list Rhpart) (D : list Rdmpart) :
  Rdm_compute beta H = Done D -> forall dp w, In dp D -> In w (dp_weights R dp) -> w <= 1.
Proof.
  intros E dp w Hdp Hw. rewrite <- (weights_sum_one beta H D E). unfold total_weight.
  eapply Rle_trans; [|apply (lsum_member_le (fun dp0 => lsum (fun w0 => w0) (dp_weights R dp0)) D dp); [|exact Hdp]].
  - apply (lsum_member_le (fun w0 => w0)); [|exact Hw]. intros w0 Hw0. left. apply (weights_all_pos beta H D E dp w0 Hdp Hw0).
  - intros dp0 Hdp0. apply lsum_nonneg. intros w0 Hw0. left. apply (weights_all_pos beta H D E dp0 w0 Hdp0 Hw0).
Qed.

(** Offset invariance: adding the same constant to every eigenvalue changes nothing in the density matrix
    (the ground energy moves with the spectrum, so the exponents are unchanged). *)
Lemma ground_energy_shift (c : R) (H : list Rhpart) (g : R) :
  Rground_energy H = Done g -> Rground_energy (map (shift_hpart c) H) = Done (g + c).
Proof.
  intros Eg. destruct (ground_energy_Done_nonempty H g Eg) as [Hne Hbl].
  destruct (ground_energy_is_min H Hne Hbl) as [g0 [Eg0 [[hp [Hhp Hg]] Lg]]]. rewrite Eg in Eg0. inversion Eg0; subst g0.
  destruct (ground_energy_is_min (map (shift_hpart c) H)) as [g' [Eg' [[hp' [Hhp' Hg']] Lg']]].
  - destruct H; [contradiction|discriminate].
  - intros hp0 Hhp0. apply in_map_iff in Hhp0. destruct Hhp0 as [hp1 [<- Hhp1]]. cbn [shift_hpart hp_eig].
    specialize (Hbl hp1 Hhp1). destruct (hp_eig R hp1); [contradiction|discriminate].
  - rewrite Eg'. f_equal. apply (ground_energy_unique (map (shift_hpart c) H)).
    + exists hp'. split; assumption.
    + exact Lg'.
    + exists (shift_hpart c hp). split; [apply in_map; exact Hhp|]. cbn [shift_hpart hp_eig].
      apply in_map_iff. exists g. split; [reflexivity|exact Hg].
    + intros hp0 e Hhp0 He. apply in_map_iff in Hhp0. destruct Hhp0 as [hp1 [<- Hhp1]]. cbn [shift_hpart hp_eig] in He.
      apply in_map_iff in He. destruct He as [e1 [<- He1]]. specialize (Lg hp1 e1 Hhp1 He1). lra.
Qed.

Theorem weights_offset_invariant (beta c : R) (H : list Rhpart) (D : list Rdmpart) :
  Rdm_compute beta H = Done D -> Rdm_compute beta (map (shift_hpart c) H) = Done D.
Proof.
  intros E. destruct (dm_compute_Done_inv beta H D E) as [g [Eg ->]].
  rewrite (dm_compute_char beta _ (g + c) (ground_energy_shift c H g Eg)). f_equal.
  assert (U : forall e, uw beta (g + c) (e + c) = uw beta g e).
  { intros e. unfold uw. f_equal. ring. }
  assert (ZE : Zsum beta (g + c) (map (shift_hpart c) H) = Zsum beta g H).
  { unfold Zsum. rewrite lsum_map. apply lsum_ext. intros hp _. cbn [shift_hpart hp_eig]. rewrite lsum_map.
    apply lsum_ext. intros e _. apply U. }
  rewrite ZE, map_map. apply map_ext. intros hp. unfold gibbs_part. cbn [shift_hpart hp_eig].
  rewrite map_map, lsum_map. f_equal.
  - apply map_ext. intros e. rewrite U. reflexivity.
  - f_equal. apply lsum_ext. intros e _. apply U.
Qed.

(** * 4. Averages are traces with the density matrix on the full Fock space (C09, second half) *)

Lemma lsum_restrict (F : nat -> R) (l ks : list nat) :
  NoDup l -> NoDup ks -> incl ks l -> (forall b, In b l -> ~ In b ks -> F b = 0) ->
  lsum F l = lsum F ks.
Proof.
  intros NDl. revert F. induction ks as [|k ks IH]; intros F NDk Hin Hz.
  - cbn [lsum]. apply lsum_zero. intros b Hb. apply Hz; [exact Hb|intros []].
  - inversion NDk as [|k' ks' Hnk NDks]; subst. cbn [lsum].
    rewrite (lsum_ext F (fun b => (if Nat.eqb k b then F b else 0) + (if Nat.eqb k b then 0 else F b))).
    2:{ intros b _. destruct (Nat.eqb k b); lra. }
    rewrite lsum_plus, lsum_single; [|exact NDl|apply Hin; left; reflexivity]. f_equal.
    rewrite (IH (fun b => if Nat.eqb k b then 0 else F b) NDks).
    + apply lsum_ext. intros b Hb. destruct (Nat.eqb k b) eqn:E; [|reflexivity].
      apply Nat.eqb_eq in E. subst b. contradiction.
    + intros b Hb. apply Hin. right. exact Hb.
    + intros b Hb Hnb. destruct (Nat.eqb k b) eqn:E; [reflexivity|]. apply Hz; [exact Hb|].
      intros [->|Hb2]; [rewrite Nat.eqb_refl in E; discriminate|contradiction].
Qed.

Lemma index_of_None (x : nat) (l : list nat) : ~ In x l -> index_of x l = None.
Proof.
  induction l as [|y t IH]; intros Hn; [reflexivity|]. cbn [index_of].
  destruct (Nat.eqb y x) eqn:E; [apply Nat.eqb_eq in E; subst; exfalso; apply Hn; left; reflexivity|].
  rewrite IH; [reflexivity|]. intros Hx. apply Hn. right. exact Hx.
Qed.

Lemma index_of_nth_error (l : list nat) (i a : nat) :
  NoDup l -> nth_error l i = Some a -> index_of a l = Some i.
Proof.
  revert i. induction l as [|y t IH]; intros i ND Hi; [destruct i; discriminate Hi|].
  inversion ND as [|y' t' Hny NDt]; subst. cbn [index_of]. destruct i as [|i]; cbn [nth_error] in Hi.
  - inversion Hi; subst. rewrite Nat.eqb_refl. reflexivity.
  - destruct (Nat.eqb y a) eqn:E.
    + apply Nat.eqb_eq in E. subst y. exfalso. apply Hny. eapply nth_error_In. exact Hi.
    + rewrite (IH i NDt Hi). reflexivity.
Qed.

(** a sum over the full Fock space of a function supported on one block = the sum over the block *)
Lemma lsum_fock_index (fock st : list nat) (G : nat -> nat -> R) :
  NoDup fock -> NoDup st -> incl st fock ->
  lsum (fun f => match index_of f st with Some fi => G f fi | None => 0 end) fock =
  lsum (fun p => G (snd p) (fst p)) (enum st).
Proof.
  intros NDf NDs Hin.
  rewrite (lsum_restrict _ fock st NDf NDs Hin).
  2:{ intros b _ Hnb. rewrite (index_of_None b st Hnb). reflexivity. }
  rewrite <- (lsum_enum_snd (fun f => match index_of f st with Some fi => G f fi | None => 0 end) st).
  apply lsum_ext. intros [i a] Hia. cbn [fst snd]. destruct (in_enum st i a Hia) as [_ N].
  rewrite (index_of_nth_error st i a NDs N). reflexivity.
Qed.

(** the nested accumulator loops of DensityMatrixPart are double sums *)
Lemma fold_left_nested {A B} (g : A -> B -> R) (L : A -> list B) (l : list A) (x : R) :
  fold_left (fun acc a => fold_left (fun acc' b => acc' + g a b) (L a) acc) l x =
  x + lsum (fun a => lsum (g a) (L a)) l.
Proof.
  revert x. induction l as [|a t IH]; intros x; cbn [fold_left lsum]; [lra|].
  rewrite IH, fold_left_lsum. lra.
Qed.

Lemma combine_col_enum (st : list nat) (vec : list (list R)) (s : nat) :
  length vec = length st ->
  combine st (col R 0 vec s) = map (fun p => (snd p, nth s (nth (fst p) vec []) 0)) (enum st).
Proof.
  revert vec. induction st as [|f t IH]; intros vec L; [reflexivity|].
  destruct vec as [|row vec]; [discriminate L|]. rewrite enum_cons.
  cbn [col map combine fst snd nth]. f_equal. rewrite map_map. cbn [fst snd nth].
  apply IH. cbn in L. lia.
Qed.

Definition vcomp (hp : Rhpart) (fi s : nat) : R := nth s (nth fi (hp_vec R hp) []) 0.

Lemma part_fock_average_sum (pre : R -> nat -> R) (hp : Rhpart) (dp : Rdmpart) :
  length (hp_vec R hp) = length (hp_states R hp) ->
  part_fock_average R 0 Rplus Rmult Rabs pre hp dp =
  lsum (fun sw => lsum (fun p => pre (snd sw) (snd p) * (vcomp hp (fst p) (fst sw) * vcomp hp (fst p) (fst sw)))
                       (enum (hp_states R hp)))
       (enum (dp_weights R dp)).
Proof.
  intros L. unfold part_fock_average.
  rewrite (fold_left_nested (fun sw fv => pre (snd sw) (fst fv) * Rabs (snd fv * snd fv))
                            (fun sw => combine (hp_states R hp) (col R 0 (hp_vec R hp) (fst sw)))).
  rewrite Rplus_0_l. apply lsum_ext. intros sw _. rewrite (combine_col_enum _ _ _ L), lsum_map.
  apply lsum_ext. intros p _. cbn [fst snd]. unfold vcomp.
  rewrite Rabs_pos_eq; [reflexivity|]. apply Rle_0_sqr.
Qed.

Lemma dm_sum_parts_sum (f : Rhpart -> Rdmpart -> R) (H : list Rhpart) (D : list Rdmpart) :
  dm_sum_parts R 0 Rplus f H D = lsum (fun hd => f (fst hd) (snd hd)) (combine H D).
Proof. unfold dm_sum_parts. rewrite (fold_left_lsum (fun hd => f (fst hd) (snd hd))). lra. Qed.

Lemma in_combine_H {A B} (l1 : list A) (l2 : list B) (p : A * B) : In p (combine l1 l2) -> In (fst p) l1 /\ In (snd p) l2.
Proof. destruct p as [a b]. intros Hp. split; [eapply in_combine_l|eapply in_combine_r]; exact Hp. Qed.

Lemma lsum_combine_snd {A B} (f : B -> R) (l1 : list A) (l2 : list B) :
  length l1 = length l2 -> lsum (fun p => f (snd p)) (combine l1 l2) = lsum f l2.
Proof.
  revert l2. induction l1 as [|a t IH]; intros [|b l2] L; try discriminate L; [reflexivity|].
  cbn [combine lsum snd]. rewrite IH; [reflexivity|]. cbn in L. lia.
Qed.

(** a sum over paired blocks as a sum over block numbers *)
Lemma lsum_combine_nth {A B} (da : A) (db : B) (f : A -> B -> R) (l1 : list A) (l2 : list B) :
  length l1 = length l2 ->
  lsum (fun p => f (fst p) (snd p)) (combine l1 l2) = lsum (fun b => f (nth b l1 da) (nth b l2 db)) (seq 0 (length l1)).
Proof.
  revert l2. induction l1 as [|a t IH]; intros [|b l2] L; try discriminate L; [reflexivity|].
  cbn [combine lsum fst snd length seq nth]. f_equal. rewrite <- seq_shift, lsum_map. cbn [nth].
  apply IH. cbn in L. lia.
Qed.

Lemma lsum_filter {A} (f : A -> R) (p : A -> bool) (l : list A) :
  lsum f (filter p l) = lsum (fun a => if p a then f a else 0) l.
Proof.
  induction l as [|a t IH]; [reflexivity|]. cbn [filter lsum]. destruct (p a); cbn [lsum]; rewrite IH; lra.
Qed.

Lemma NoDup_map_filter {A B} (f : A -> B) (p : A -> bool) (l : list A) :
  NoDup (map f l) -> NoDup (map f (filter p l)).
Proof.
  induction l as [|a t IH]; intros ND; [constructor|]. cbn [map] in ND. inversion ND as [|x xs Hn NDt]; subst.
  cbn [filter]. destruct (p a); [|apply IH; exact NDt]. cbn [map]. constructor; [|apply IH; exact NDt].
  intros Hin. apply Hn. apply in_map_iff in Hin. destruct Hin as [b [E Hb]]. apply filter_In in Hb.
  apply in_map_iff. exists b. split; [exact E|apply Hb].
Qed.

Lemma find_nodup_key {A} (key : A -> nat) (l : list A) (p : A) :
  NoDup (map key l) -> In p l -> find (fun q => Nat.eqb (key q) (key p)) l = Some p.
Proof.
  induction l as [|a t IH]; intros ND Hp; [destruct Hp|]. cbn [map] in ND. inversion ND as [|x xs Hn NDt]; subst.
  cbn [find]. destruct Hp as [->|Hp]; [rewrite Nat.eqb_refl; reflexivity|].
  destruct (Nat.eqb (key a) (key p)) eqn:E; [|apply IH; assumption].
  apply Nat.eqb_eq in E. exfalso. apply Hn. rewrite E. apply in_map. exact Hp.
Qed.

Lemma Rea_compute_sum (p : Roppart) (dp : Rdmpart) :
  Rea_compute p dp = lsum (fun i => coeff R 0 (op_mat R p) i i * nth i (dp_weights R dp) 0) (seq 0 (length (op_mat R p))).
Proof.
  unfold Rea_compute, ea_compute.
  rewrite (fold_left_lsum (fun i => coeff R 0 (op_mat R p) i i * nth i (dp_weights R dp) 0)). lra.
Qed.

(** what one diagonal, retained part contributes *)
Definition ea_term (D0 : list Rdmpart) (p : Roppart) : R :=
  if Nat.eqb (op_left R p) (op_right R p) && Ris_retained D0 (op_left R p)
  then Rea_compute p (nth (op_left R p) D0 dummy_dp) else 0.

(** closed form of EnsembleAverage::prepare: the sum over the diagonal parts whose block is retained *)
Lemma ea_prepare_sum (A : fieldop R) (D0 : list Rdmpart) :
  NoDup (map (op_left R) A) ->
  (forall p, In p A -> op_left R p = op_right R p -> (op_left R p < length D0)%nat) ->
  Rea_prepare A D0 = Done (lsum (ea_term D0) A).
Proof.
  intros ND Hb. unfold Rea_prepare, ea_prepare.
  assert (G : forall l r, incl l A ->
     fold_left (fun acc p => bind acc (fun r =>
        if Nat.eqb (op_left R p) (op_right R p) then
          if is_retained R D0 (op_left R p) then
            match get_part_from_left R A (op_left R p), nth_error D0 (op_left R p) with
            | Some Apart, Some dp => Done (r + ea_compute R 0 Rplus Rmult Apart dp)
            | _, _ => OOB
            end
          else Done r
        else Done r)) l (Done r) = Done (r + lsum (ea_term D0) l)).
  { induction l as [|p t IH]; intros r Hl; cbn [fold_left lsum]; [f_equal; lra|].
    assert (Hp : In p A) by (apply Hl; left; reflexivity).
    assert (Ht : incl t A) by (intros q Hq; apply Hl; right; exact Hq).
    cbn [bind]. unfold ea_term at 1. fold (Ris_retained D0 (op_left R p)).
    destruct (Nat.eqb (op_left R p) (op_right R p)) eqn:Ed; cbn [andb].
    - destruct (Ris_retained D0 (op_left R p)) eqn:Er.
      + unfold get_part_from_left. rewrite (find_nodup_key (op_left R) A p ND Hp).
        apply Nat.eqb_eq in Ed. specialize (Hb p Hp Ed).
        destruct (nth_error D0 (op_left R p)) as [dp|] eqn:En; [|apply nth_error_None in En; lia].
        rewrite (nth_error_nth _ _ dummy_dp En). rewrite (IH _ Ht). f_equal. unfold Rea_compute. lra.
      + rewrite (IH _ Ht). f_equal. lra.
    - rewrite (IH _ Ht). f_equal. lra. }
  rewrite (G A 0 (incl_refl A)). f_equal. lra.
Qed.

Section Traces.
Variable fock : list nat.
Variable H : list Rhpart.
Variable D : list Rdmpart.
Hypothesis fock_nodup : NoDup fock.                                       (* the Fock states are listed once *)
Hypothesis blocks_wf : forall hp, In hp H -> wf_hpart hp.                  (* sizes agree, states of a block distinct *)
Hypothesis blocks_in_fock : forall hp, In hp H -> incl (hp_states R hp) fock.

(** Sum over the full space of a quantity built from the components of one eigenvector *)
Lemma lsum_fock_comp (hp : Rhpart) (s : nat) (G : nat -> R -> R) :
  In hp H -> (forall f, G f 0 = 0) ->
  lsum (fun f => G f (comp hp s f)) fock = lsum (fun p => G (snd p) (vcomp hp (fst p) s)) (enum (hp_states R hp)).
Proof.
  intros Hhp G0. destruct (blocks_wf hp Hhp) as [_ [_ [_ ND]]].
  rewrite <- (lsum_fock_index fock (hp_states R hp) (fun f fi => G f (vcomp hp fi s)) fock_nodup ND (blocks_in_fock hp Hhp)).
  apply lsum_ext. intros f _. unfold comp. destruct (index_of f (hp_states R hp)); [reflexivity|apply G0].
Qed.

(** Tr(rho O) = Sum_n w_n <n|O|n>: the trace in the Fock basis equals the eigenbasis form (what
    EDSpec.trace_rho evaluates on the rotated operator). Pure exchange of finite sums. *)
Lemma trace_eigen_form (O : nat -> nat -> R) :
  trace_rho_op fock H D O = sum_states H D (expect fock O).
Proof.
  unfold trace_rho_op, rho, sum_states, expect.
  (* distribute the factor O g f into the sums over states *)
  rewrite (lsum_ext _ (fun f => lsum (fun g => lsum (fun hd => lsum (fun sw =>
             snd sw * (comp (fst hd) (fst sw) f * comp (fst hd) (fst sw) g) * O g f)
             (enum (dp_weights R (snd hd)))) (combine H D)) fock)).
  2:{ intros f _. apply lsum_ext. intros g _. rewrite <- lsum_scal_r. apply lsum_ext. intros hd _.
      rewrite <- lsum_scal_r. reflexivity. }
  (* bring the sum over blocks to the front *)
  rewrite (lsum_ext _ (fun f => lsum (fun hd => lsum (fun g => lsum (fun sw =>
             snd sw * (comp (fst hd) (fst sw) f * comp (fst hd) (fst sw) g) * O g f)
             (enum (dp_weights R (snd hd)))) fock) (combine H D))).
  2:{ intros f _. apply lsum_swap. }
  rewrite lsum_swap. apply lsum_ext. intros hd _.
  (* bring the sum over the states of the block to the front *)
  rewrite (lsum_ext _ (fun f => lsum (fun sw => lsum (fun g =>
             snd sw * (comp (fst hd) (fst sw) f * comp (fst hd) (fst sw) g) * O g f) fock)
             (enum (dp_weights R (snd hd))))).
  2:{ intros f _. apply lsum_swap. }
  rewrite lsum_swap. apply lsum_ext. intros sw _.
  rewrite <- lsum_scal.
  (* Sum_f Sum_g U_f U_g O_gf = Sum_f Sum_g U_f O_fg U_g: rename the summation variables *)
  rewrite (lsum_swap (fun f g => snd sw * (comp (fst hd) (fst sw) f * comp (fst hd) (fst sw) g) * O g f)).
  apply lsum_ext. intros f _. rewrite <- lsum_scal. apply lsum_ext. intros g _. ring.
Qed.

(** For an operator that is diagonal in the Fock basis, with eigenvalue d(f) on |f> *)
Lemma expect_diag (d : nat -> R) (hp : Rhpart) (s : nat) :
  In hp H ->
  expect fock (diag_op d) hp s = lsum (fun p => d (snd p) * (vcomp hp (fst p) s * vcomp hp (fst p) s)) (enum (hp_states R hp)).
Proof.
  intros Hhp. unfold expect, diag_op.
  rewrite (lsum_ext _ (fun f => d f * (comp hp s f * comp hp s f))).
  2:{ intros f Hf. rewrite (lsum_ext _ (fun g => if Nat.eqb f g then comp hp s f * d f * comp hp s g else 0)).
      - rewrite (lsum_single (fun g => comp hp s f * d f * comp hp s g) fock f fock_nodup Hf). ring.
      - intros g _. destruct (Nat.eqb f g); ring. }
  apply (lsum_fock_comp hp s (fun f v => d f * (v * v)) Hhp). intros f. ring.
Qed.

(** General form of getAverageOccupancy / getAverageDoubleOccupancy: a weighted sum over eigenvector
    components squared times a function of the Fock state is the trace of rho with the diagonal operator. *)
Theorem fock_average_is_trace (pre : R -> nat -> R) (d : nat -> R) :
  (forall w f, pre w f = w * d f) ->
  dm_sum_parts R 0 Rplus (part_fock_average R 0 Rplus Rmult Rabs pre) H D = trace_rho_op fock H D (diag_op d).
Proof.
  intros Hpre. rewrite trace_eigen_form, dm_sum_parts_sum. unfold sum_states.
  apply lsum_ext. intros [hp dp] Hhd. cbn [fst snd]. destruct (in_combine_H _ _ _ Hhd) as [Hhp _]. cbn [fst] in Hhp.
  destruct (blocks_wf hp Hhp) as [L1 [L2 _]].
  rewrite part_fock_average_sum by congruence.
  apply lsum_ext. intros sw _. rewrite (expect_diag d hp (fst sw) Hhp), <- lsum_scal.
  apply lsum_ext. intros p _. rewrite Hpre. ring.
Qed.

(** per-index occupancy <n_i> = Tr(rho n_i): |v_fi|^2 and test(i) of the Fock state *)
Theorem occupancy_is_trace (M i : nat) :
  (i < M)%nat -> Rdm_average_occupancy_i M i H D = Done (trace_rho_op fock H D (op_n i)).
Proof.
  intros Hi. unfold Rdm_average_occupancy_i, dm_average_occupancy_i.
  apply Nat.ltb_lt in Hi. rewrite Hi. f_equal. unfold part_average_occupancy_i.
  apply (fock_average_is_trace _ (fun f => b2r (Nat.testbit f i))).
  intros w f. unfold b2k, b2r. destruct (Nat.testbit f i); cbn [INR]; ring.
Qed.

(** total occupancy <N> = Tr(rho N), N = Sum_i n_i counts the occupied modes *)
Theorem total_occupancy_is_trace (M : nat) :
  Rdm_average_occupancy M H D = trace_rho_op fock H D (op_N M).
Proof.
  unfold Rdm_average_occupancy, dm_average_occupancy, part_average_occupancy.
  apply (fock_average_is_trace _ (fun f => INR (popcount M f))). intros w f. ring.
Qed.

(** double occupancy <n_i n_j> = Tr(rho n_i n_j) *)
Theorem double_occ_is_trace (M i j : nat) :
  (i < M)%nat -> (j < M)%nat ->
  Rdm_average_double_occupancy M i j H D = Done (trace_rho_op fock H D (op_nn i j)).
Proof.
  intros Hi Hj. unfold Rdm_average_double_occupancy, dm_average_double_occupancy.
  apply Nat.ltb_lt in Hi. apply Nat.ltb_lt in Hj. rewrite Hi, Hj. cbn [andb]. f_equal.
  unfold part_average_double_occupancy.
  apply (fock_average_is_trace _ (fun f => b2r (Nat.testbit f i) * b2r (Nat.testbit f j))).
  intros w f. unfold b2k, b2r. destruct (Nat.testbit f i), (Nat.testbit f j); cbn [INR]; ring.
Qed.

(** the number operator counts: popcount over M modes is the sum of the bits (so <N> = Sum_i <n_i>) *)
Lemma popcount_fuel_bits (M f : nat) :
  INR (popcount_fuel M f) = lsum (fun i => b2r (Nat.testbit f i)) (seq 0 M).
Proof.
  revert f. induction M as [|M IH]; intros f; [reflexivity|].
  cbn [popcount_fuel seq lsum]. rewrite plus_INR, IH, <- seq_shift, lsum_map.
  f_equal. cbn [Nat.testbit]. unfold b2r. destruct (Nat.odd f); reflexivity.
Qed.

(** ** Average energy *)

Lemma lsum_combine_enum (w e : list R) :
  lsum (fun we => fst we * snd we) (combine w e) = lsum (fun sw => snd sw * nth (fst sw) e 0) (enum w).
Proof.
  revert e. induction w as [|x w IH]; intros e; [reflexivity|]. rewrite enum_cons.
  destruct e as [|y e].
  - cbn [combine lsum fst snd nth]. rewrite lsum_map. cbn [fst snd].
    rewrite lsum_zero; [lra|]. intros [i a] _. cbn [fst snd]. destruct i; cbn; lra.
  - cbn [combine lsum fst snd nth]. rewrite lsum_map. cbn [fst snd nth]. rewrite IH. reflexivity.
Qed.

(** Average energy = Tr(rho Hm) for ANY matrix Hm on the Fock space of which the assembled eigenvectors are
    normalised eigenvectors with the stored eigenvalues (the certificate CERT that every run checks:
    residual_HU = 0 and the diagonal of residual_unitary = 0). *)
Theorem avg_energy_is_trace (Hm : nat -> nat -> R) :
  (* eigen_equation *)
  (forall hp s f, In hp H -> (s < hp_size R hp)%nat -> In f fock ->
     lsum (fun g => Hm f g * comp hp s g) fock = nth s (hp_eig R hp) 0 * comp hp s f) ->
  (* eigenvectors_normalised *)
  (forall hp s, In hp H -> (s < hp_size R hp)%nat -> lsum (fun f => comp hp s f * comp hp s f) fock = 1) ->
  (* weights_sized *)
  (forall hd, In hd (combine H D) -> length (dp_weights R (snd hd)) = hp_size R (fst hd)) ->
  Rdm_average_energy H D = trace_rho_op fock H D Hm.
Proof.
  intros Heig Hnorm Hsz. rewrite trace_eigen_form. unfold Rdm_average_energy, dm_average_energy.
  rewrite dm_sum_parts_sum. unfold sum_states. apply lsum_ext. intros [hp dp] Hhd. cbn [fst snd].
  destruct (in_combine_H _ _ _ Hhd) as [Hhp _]. cbn [fst] in Hhp.
  unfold part_average_energy. rewrite (fold_left_lsum (fun we => fst we * snd we)), Rplus_0_l, lsum_combine_enum.
  apply lsum_ext. intros [s w] Hsw. cbn [fst snd]. f_equal.
  destruct (in_enum _ _ _ Hsw) as [Ls _]. specialize (Hsz (hp, dp) Hhd). cbn [fst snd] in Hsz. rewrite Hsz in Ls.
  unfold expect.
  rewrite (lsum_ext _ (fun f => nth s (hp_eig R hp) 0 * (comp hp s f * comp hp s f))).
  - rewrite lsum_scal, (Hnorm hp s Hhp Ls). ring.
  - intros f Hf. rewrite (lsum_ext _ (fun g => comp hp s f * (Hm f g * comp hp s g))) by (intros; ring).
    rewrite lsum_scal, (Heig hp s f Hhp Ls Hf). ring.
Qed.


Hypothesis parts_paired : length D = length H.                             (* one density-matrix part per block *)
Hypothesis weights_sized : forall hd, In hd (combine H D) -> length (dp_weights R (snd hd)) = hp_size R (fst hd).

(** Tr rho = total weight (= 1 by weights_sum_one), given normalised eigenvectors *)
Theorem trace_rho_is_total_weight :
  (forall hp s, In hp H -> (s < hp_size R hp)%nat -> lsum (fun f => comp hp s f * comp hp s f) fock = 1) ->
  trace_rho_op fock H D (diag_op (fun _ => 1)) = total_weight D.
Proof.
  intros Hnorm. rewrite trace_eigen_form. unfold sum_states, total_weight.
  rewrite <- (lsum_combine_snd (fun dp => lsum (fun w => w) (dp_weights R dp)) H D) by (symmetry; exact parts_paired).
  apply lsum_ext. intros [hp dp] Hhd. cbn [fst snd]. destruct (in_combine_H _ _ _ Hhd) as [Hhp _]. cbn [fst] in Hhp.
  rewrite <- (lsum_enum_snd (fun w => w)). apply lsum_ext. intros [s w] Hsw. cbn [fst snd].
  destruct (in_enum _ _ _ Hsw) as [Ls _]. pose proof (weights_sized (hp, dp) Hhd) as Hsz. cbn [fst snd] in Hsz. rewrite Hsz in Ls.
  rewrite (expect_diag (fun _ => 1) hp s Hhp).
  rewrite <- (lsum_fock_comp hp s (fun f v => 1 * (v * v)) Hhp) by (intros; ring).
  rewrite (lsum_ext _ (fun f => comp hp s f * comp hp s f)) by (intros; ring).
  rewrite (Hnorm hp s Hhp Ls). ring.
Qed.

(** ** Ensemble average of an operator given block-wise in the eigenbasis (EnsembleAverage) *)

(** Ensemble average of an operator O = Tr(rho O) on the full Fock space, when nothing is truncated.
    Hypotheses about the operator data (they are the results of C10 and C07 for the QuadraticOperator):
    - [rotated]: the stored diagonal element n of the diagonal part on block b is <b,n|O|b,n>;
    - [bimap_complete]: a block without a diagonal part has vanishing diagonal elements of O
      (only diagonal blocks can contribute to the trace). *)
Theorem ensemble_average_is_trace (A : fieldop R) (O : nat -> nat -> R) :
  NoDup (map (op_left R) A) ->
  (* parts_in_range *) (forall p, In p A -> (op_left R p < length H)%nat) ->
  (* rotated *)
  (forall p, In p A -> op_left R p = op_right R p ->
     length (op_mat R p) = hp_size R (nth (op_left R p) H dummy_hp) /\
     forall n, (n < hp_size R (nth (op_left R p) H dummy_hp))%nat ->
       coeff R 0 (op_mat R p) n n = expect fock O (nth (op_left R p) H dummy_hp) n) ->
  (* bimap_complete *)
  (forall b, (b < length H)%nat -> (forall p, In p A -> op_left R p = op_right R p -> op_left R p <> b) ->
     forall s, (s < hp_size R (nth b H dummy_hp))%nat -> expect fock O (nth b H dummy_hp) s = 0) ->
  (* nothing truncated *) (forall b, (b < length D)%nat -> Ris_retained D b = true) ->
  Rea_prepare A D = Done (trace_rho_op fock H D O).
Proof.
  intros ND Hrange Hrot Hcompl Hret.
  rewrite ea_prepare_sum; [|exact ND|intros p Hp _; rewrite parts_paired; apply Hrange; exact Hp]. f_equal.
  rewrite trace_eigen_form. unfold sum_states.
  set (T := fun (hp : Rhpart) (dp : Rdmpart) => lsum (fun sw => snd sw * expect fock O hp (fst sw)) (enum (dp_weights R dp))).
  change (lsum (ea_term D) A = lsum (fun hd => T (fst hd) (snd hd)) (combine H D)).
  rewrite (lsum_combine_nth dummy_hp dummy_dp T H D) by (symmetry; exact parts_paired).
  set (diag := fun p : Roppart => Nat.eqb (op_left R p) (op_right R p)).
  (* sizes of the weight vectors *)
  assert (Wsz : forall b, (b < length H)%nat -> length (dp_weights R (nth b D dummy_dp)) = hp_size R (nth b H dummy_hp)).
  { intros b Lb. apply (weights_sized (nth b H dummy_hp, nth b D dummy_dp)).
    rewrite <- combine_nth by (symmetry; exact parts_paired). apply nth_In. rewrite combine_length, parts_paired. lia. }
  (* only blocks with a diagonal part contribute *)
  rewrite (lsum_restrict _ (seq 0 (length H)) (map (op_left R) (filter diag A))).
  - rewrite lsum_map, lsum_filter. apply lsum_ext. intros p Hp. unfold ea_term. fold (diag p).
    destruct (diag p) eqn:Ed; cbn [andb]; [|reflexivity].
    assert (Edd : op_left R p = op_right R p) by (apply Nat.eqb_eq; exact Ed).
    pose proof (Hrange p Hp) as Lb. rewrite Hret by (rewrite parts_paired; exact Lb).
    destruct (Hrot p Hp Edd) as [Lm Hc]. rewrite Rea_compute_sum, Lm. unfold T.
    rewrite (lsum_enum_nth 0), (Wsz _ Lb). apply lsum_ext. intros n Hn. apply in_seq in Hn. cbn [fst snd].
    rewrite Hc by lia. ring.
  - apply seq_NoDup.
  - apply NoDup_map_filter. exact ND.
  - intros b Hb. apply in_map_iff in Hb. destruct Hb as [p [<- Hp]]. apply filter_In in Hp. apply in_seq.
    pose proof (Hrange p (proj1 Hp)). lia.
  - intros b Hb Hnb. apply in_seq in Hb. unfold T. apply lsum_zero. intros [s w] Hsw. cbn [fst snd].
    destruct (in_enum _ _ _ Hsw) as [Ls _]. rewrite (Wsz b) in Ls by lia.
    rewrite Hcompl; [ring|lia| |exact Ls].
    intros p Hp Edd E. apply Hnb. apply in_map_iff. exists p. split; [exact E|]. apply filter_In. split; [exact Hp|].
    unfold diag. apply Nat.eqb_eq. exact Edd.
Qed.

End Traces.

Lemma in_combine_map {A B} (f : A -> B) (l : list A) (a : A) (b : B) :
  In (a, b) (combine l (map f l)) -> b = f a.
Proof.
  induction l as [|x t IH]; intros Hin; [destruct Hin|]. cbn [map combine] in Hin.
  destruct Hin as [E|Hin]; [inversion E; reflexivity|apply IH; exact Hin].
Qed.

(** the size hypotheses of Section Traces hold for the output of DensityMatrix::compute, before and after truncation *)
Lemma dm_compute_sizes (beta : R) (H : list Rhpart) (D : list Rdmpart) :
  Rdm_compute beta H = Done D ->
  length D = length H /\
  forall hd, In hd (combine H D) -> length (dp_weights R (snd hd)) = hp_size R (fst hd).
Proof.
  intros E. destruct (dm_compute_Done_inv beta H D E) as [g [_ ->]]. split; [apply map_length|].
  intros [hp dp] Hhd. cbn [fst snd]. rewrite (in_combine_map _ _ _ _ Hhd). cbn [gibbs_part dp_weights].
  apply map_length.
Qed.

Lemma dm_truncate_sizes (eps : R) (H : list Rhpart) (D : list Rdmpart) :
  (length D = length H /\ forall hd, In hd (combine H D) -> length (dp_weights R (snd hd)) = hp_size R (fst hd)) ->
  length (Rdm_truncate eps D) = length H /\
  forall hd, In hd (combine H (Rdm_truncate eps D)) -> length (dp_weights R (snd hd)) = hp_size R (fst hd).
Proof.
  intros [L S]. unfold Rdm_truncate, dm_truncate. split; [rewrite map_length; exact L|].
  intros [hp dp] Hhd. cbn [fst snd]. revert D L S Hhd. induction H as [|hp0 t IH]; intros D L S Hhd; [destruct Hhd|].
  destruct D as [|dp0 D]; [discriminate L|]. cbn [map combine] in Hhd. destruct Hhd as [E|Hhd].
  - inversion E; subst. cbn [truncate dp_weights]. apply (S (hp, dp0)). left. reflexivity.
  - apply (IH D); [cbn in L; lia| |exact Hhd]. intros hd Hin. apply S. right. exact Hin.
Qed.

(** * 5. Block truncation (C19) *)

(** truncation changes nothing but the flag *)
Lemma truncate_weights (eps : R) (dp : Rdmpart) :
  dp_weights R (Rtruncate eps dp) = dp_weights R dp /\ dp_zpart R (Rtruncate eps dp) = dp_zpart R dp.
Proof. split; reflexivity. Qed.

(** A block is discarded iff none of its states has weight above eps; retained iff some state has. *)
Theorem truncate_flag (eps : R) (dp : Rdmpart) :
  (dp_retained R (Rtruncate eps dp) = false <-> forall w, In w (dp_weights R dp) -> w <= eps) /\
  (dp_retained R (Rtruncate eps dp) = true <-> exists w, In w (dp_weights R dp) /\ eps < w).
Proof.
  unfold Rtruncate, truncate. cbn [dp_retained]. split.
  - split.
    + intros E w Hw. destruct (Rle_dec w eps) as [L|N]; [exact L|]. exfalso.
      assert (existsb (fun w0 => Rltb eps w0) (dp_weights R dp) = true); [|congruence].
      apply existsb_exists. exists w. split; [exact Hw|]. apply Rltb_true. lra.
    + intros A. destruct (existsb (fun w => Rltb eps w) (dp_weights R dp)) eqn:E; [|reflexivity].
      apply existsb_exists in E. destruct E as [w [Hw Lw]]. apply Rltb_true in Lw. specialize (A w Hw). lra.
  - rewrite existsb_exists. split.
    + intros [w [Hw Lw]]. exists w. split; [exact Hw|]. apply Rltb_true. exact Lw.
    + intros [w [Hw Lw]]. exists w. split; [exact Hw|]. apply Rltb_true. exact Lw.
Qed.

(** the flag of block b after DensityMatrix::truncateBlocks *)
Lemma is_retained_truncate (eps : R) (D : list Rdmpart) (b : nat) :
  (b < length D)%nat -> Ris_retained (Rdm_truncate eps D) b = dp_retained R (Rtruncate eps (nth b D dummy_dp)).
Proof.
  intros Lb. unfold Ris_retained, is_retained, Rdm_truncate, dm_truncate. rewrite map_map.
  rewrite (nth_indep _ false ((fun dp => dp_retained R (truncate R Rltb eps dp)) dummy_dp)) by (rewrite map_length; exact Lb).
  rewrite (map_nth (fun dp => dp_retained R (truncate R Rltb eps dp))). reflexivity.
Qed.

(** a discarded block has only weights <= eps *)
Corollary discarded_weights_small (eps : R) (D : list Rdmpart) (b : nat) :
  (b < length D)%nat -> Ris_retained (Rdm_truncate eps D) b = false ->
  forall w, In w (dp_weights R (nth b D dummy_dp)) -> w <= eps.
Proof.
  intros Lb E. rewrite (is_retained_truncate eps D b Lb) in E. apply (proj1 (truncate_flag eps _)). exact E.
Qed.

(** eps = 0 keeps every block that has a positive weight *)
Theorem truncate_zero_keeps_positive (dp : Rdmpart) :
  (exists w, In w (dp_weights R dp) /\ 0 < w) -> dp_retained R (Rtruncate 0 dp) = true.
Proof. intros E. apply (proj2 (truncate_flag 0 dp)). exact E. Qed.

(** a block discarded at eps = 0 (weights are non-negative) has all weights exactly 0 and contributes exactly 0
    to an ensemble average; the Lehmann weight factors w_n + w_m, w_n - w_m of terms between two such blocks vanish *)
Theorem discarded_at_zero_contributes_nothing (dp : Rdmpart) :
  (forall w, In w (dp_weights R dp) -> 0 <= w) -> dp_retained R (Rtruncate 0 dp) = false ->
  (forall w, In w (dp_weights R dp) -> w = 0) /\ (forall p, Rea_compute p dp = 0).
Proof.
  intros Hn E.
  assert (Z : forall w, In w (dp_weights R dp) -> w = 0).
  { intros w Hw. pose proof (proj1 (proj1 (truncate_flag 0 dp)) E w Hw). specialize (Hn w Hw). lra. }
  split; [exact Z|]. intros p. rewrite Rea_compute_sum. apply lsum_zero. intros i _.
  destruct (nth_in_or_default i (dp_weights R dp) 0) as [Hin|E0]; [rewrite (Z _ Hin)|rewrite E0]; ring.
Qed.

(** With eps = 0 nothing is discarded after DensityMatrix::compute (all weights are positive), so the density
    matrix object is unchanged and every prepare function sees the same flags as without truncation. *)
Theorem eps_zero_identity (beta : R) (H : list Rhpart) (D : list Rdmpart) :
  Rdm_compute beta H = Done D -> Rdm_truncate 0 D = D.
Proof.
  intros E. unfold Rdm_truncate, dm_truncate. rewrite <- (map_id D) at 2. apply map_ext_in. intros dp Hdp.
  assert (R1 : dp_retained R dp = true).
  { destruct (dm_compute_Done_inv beta H D E) as [g [_ ->]]. apply in_map_iff in Hdp. destruct Hdp as [hp [<- _]]. reflexivity. }
  assert (R2 : dp_retained R (Rtruncate 0 dp) = true).
  { apply truncate_zero_keeps_positive. pose proof (weights_nonempty beta H D E dp Hdp) as Hne.
    destruct (dp_weights R dp) as [|w ws] eqn:Ew; [contradiction|]. exists w. split; [left; reflexivity|].
    apply (weights_all_pos beta H D E dp w Hdp). rewrite Ew. left. reflexivity. }
  fold (Rtruncate 0 dp). destruct dp as [ws z r]. unfold Rtruncate, truncate in *. cbn [dp_weights dp_zpart dp_retained] in *.
  rewrite R2, R1. reflexivity.
Qed.

(** ** The retained tests of the four prepare functions *)

Lemma filter_app_single {A} (P : A -> bool) (l : list A) (x : A) :
  filter P (l ++ [x]) = if P x then filter P l ++ [x] else filter P l.
Proof. rewrite filter_app. cbn [filter]. destruct (P x); [reflexivity|apply app_nil_r]. Qed.

Definition gf_part_kept (ret : nat -> bool) (p : nat * nat) : bool := ret (fst p) || ret (snd p).

Lemma stripe_walk_filter (ret : nat -> bool) (fuel : nat) :
  forall cl cxr acc, (length cl + length cxr <= fuel)%nat ->
  exists all, stripe_walk fuel (fun _ => true) cl cxr acc = Done all /\
              stripe_walk fuel ret cl cxr (filter (gf_part_kept ret) acc) = Done (filter (gf_part_kept ret) all).
Proof.
  induction fuel as [|fuel IH]; intros cl cxr acc Hf.
  - destruct cl as [|[a b] cl]; [exists acc; split; reflexivity|]. destruct cxr as [|[c d] cxr]; [exists acc; split; reflexivity|].
    cbn [length] in Hf. lia.
  - destruct cl as [|[Cl Cr] cl]; [exists acc; split; reflexivity|]. destruct cxr as [|[Xr Xl] cxr]; [exists acc; split; reflexivity|].
    cbn [stripe_walk]. cbn [length] in Hf.
    set (cl2 := if Nat.leb Cl Xr then cl else (Cl, Cr) :: cl).
    set (cxr2 := if Nat.leb Xr Cl then cxr else (Xr, Xl) :: cxr).
    assert (Hf2 : (length cl2 + length cxr2 <= fuel)%nat).
    { unfold cl2, cxr2. destruct (Nat.leb Cl Xr) eqn:E1; destruct (Nat.leb Xr Cl) eqn:E2; cbn [length]; try lia.
      apply Nat.leb_gt in E1. apply Nat.leb_gt in E2. lia. }
    destruct (Nat.eqb Cl Xr && Nat.eqb Cr Xl) eqn:Em.
    + cbn [orb]. destruct (IH cl2 cxr2 (acc ++ [(Cl, Cr)]) Hf2) as [all [Ea Et]]. exists all. split; [exact Ea|].
      rewrite filter_app_single in Et. unfold gf_part_kept at 1 in Et. cbn [fst snd] in Et.
      destruct (ret Cl || ret Cr); exact Et.
    + apply IH. exact Hf2.
Qed.

(** GreensFunction::prepare / Susceptibility::prepare: the walk terminates within its fuel, and the parts created
    under truncation are exactly the untruncated parts with a retained block at either end: a part is skipped
    only if BOTH its blocks are discarded. *)
Theorem gf_parts_skipped_only_if_all_discarded (ret : nat -> bool) (cl cxr : list (nat * nat)) :
  exists all, gf_prepare (fun _ => true) cl cxr = Done all /\
              gf_prepare ret cl cxr = Done (filter (gf_part_kept ret) all).
Proof. unfold gf_prepare. apply (stripe_walk_filter ret _ cl cxr []). lia. Qed.

Theorem susc_parts_skipped_only_if_all_discarded (ret : nat -> bool) (al br : list (nat * nat)) :
  exists all, susc_prepare (fun _ => true) al br = Done all /\
              susc_prepare ret al br = Done (filter (gf_part_kept ret) all).
Proof. apply gf_parts_skipped_only_if_all_discarded. Qed.

Definition tpgf_part_kept (ret : nat -> bool) (part : tpgf_part) : bool :=
  let '(_, (L0, L1, L2, L3)) := part in ret L0 || ret L1 || ret L2 || ret L3.

Lemma filter_flat_map {A B} (P : B -> bool) (f : A -> list B) (l : list A) :
  filter P (flat_map f l) = flat_map (fun a => filter P (f a)) l.
Proof. induction l as [|a t IH]; [reflexivity|]. cbn [flat_map]. rewrite filter_app, IH. reflexivity. Qed.

(** TwoParticleGF::prepare: a part is skipped only if all four blocks of its stripe are discarded *)
Theorem tpgf_parts_skipped_only_if_all_discarded (ret : nat -> bool) (ops : list bimap) (cx4r : list (nat * nat)) :
  tpgf_prepare ret ops cx4r = filter (tpgf_part_kept ret) (tpgf_prepare (fun _ => true) ops cx4r).
Proof.
  unfold tpgf_prepare. rewrite filter_flat_map. apply flat_map_ext. intros o.
  rewrite filter_flat_map. apply flat_map_ext. intros pp. unfold tpgf_try.
  destruct (get_left_index (op_at ops (snd pp) 2) (snd o)) as [L2|]; [|reflexivity].
  destruct (get_right_index (op_at ops (snd pp) 0) (fst o)) as [L1|]; [|reflexivity].
  destruct (get_right_index (op_at ops (snd pp) 1) L1) as [r|]; [|reflexivity].
  destruct (Nat.eqb r L2); [|reflexivity]. cbn [orb filter tpgf_part_kept].
  destruct (ret (fst o) || ret L1 || ret L2 || ret (snd o)); reflexivity.
Qed.

(** EnsembleAverage::prepare: closed form = sum over the diagonal parts whose block is retained ([ea_prepare_sum]);
    a diagonal part is skipped only if its block is discarded. *)
Theorem ea_parts_skipped_only_if_discarded (A : fieldop R) (D : list Rdmpart) :
  NoDup (map (op_left R) A) ->
  (forall p, In p A -> op_left R p = op_right R p -> (op_left R p < length D)%nat) ->
  Rea_prepare A D =
  Done (lsum (fun p => if Nat.eqb (op_left R p) (op_right R p) && Ris_retained D (op_left R p)
                       then Rea_compute p (nth (op_left R p) D dummy_dp) else 0) A).
Proof. intros ND Hb. apply (ea_prepare_sum A D ND Hb). Qed.

(** ** Linear-in-eps bounds *)

(** *** Ensemble average: |<A>_trunc - <A>| <= eps * dim * max|A_nn| *)
Theorem ea_truncation_bound (A : fieldop R) (D : list Rdmpart) (eps maxA dim : R) :
  NoDup (map (op_left R) A) ->
  (forall p, In p A -> op_left R p = op_right R p -> (op_left R p < length D)%nat) ->
  0 <= eps -> 0 <= maxA ->
  (* weights_nonneg *) (forall dp w, In dp D -> In w (dp_weights R dp) -> 0 <= w) ->
  (* untruncated *) (forall b, (b < length D)%nat -> Ris_retained D b = true) ->
  (* elements_bounded *)
  (forall p i, In p A -> op_left R p = op_right R p -> (i < length (op_mat R p))%nat ->
     Rabs (coeff R 0 (op_mat R p) i i) <= maxA) ->
  (* diagonal_sizes: the diagonal parts together have at most dim rows *)
  lsum (fun p => if Nat.eqb (op_left R p) (op_right R p) then INR (length (op_mat R p)) else 0) A <= dim ->
  exists v vt, Rea_prepare A D = Done v /\ Rea_prepare A (Rdm_truncate eps D) = Done vt /\
               Rabs (vt - v) <= eps * dim * maxA.
Proof.
  intros ND Hb He Hm Hw Hret Hel Hdim.
  exists (lsum (ea_term D) A), (lsum (ea_term (Rdm_truncate eps D)) A).
  split; [apply ea_prepare_sum; assumption|]. split.
  { apply ea_prepare_sum; [exact ND|]. intros p Hp Ed. unfold Rdm_truncate, dm_truncate. rewrite map_length. apply Hb; assumption. }
  rewrite <- (Rplus_0_r (lsum (ea_term (Rdm_truncate eps D)) A - lsum (ea_term D) A)).
  replace (lsum (ea_term (Rdm_truncate eps D)) A - lsum (ea_term D) A + 0)
    with (lsum (fun p => ea_term (Rdm_truncate eps D) p - ea_term D p) A).
  2:{ rewrite (lsum_ext _ (fun p => ea_term (Rdm_truncate eps D) p + -1 * ea_term D p)) by (intros; ring).
      rewrite lsum_plus, lsum_scal. ring. }
  eapply Rle_trans; [apply Rabs_lsum_le|].
  eapply Rle_trans.
  - apply (lsum_le _ (fun p => (if Nat.eqb (op_left R p) (op_right R p) then INR (length (op_mat R p)) else 0) * (maxA * eps))).
    intros p Hp. unfold ea_term. destruct (Nat.eqb (op_left R p) (op_right R p)) eqn:Ed; cbn [andb].
    2:{ rewrite Rminus_0_r, Rabs_R0. lra. }
    assert (Edd : op_left R p = op_right R p) by (apply Nat.eqb_eq; exact Ed).
    pose proof (Hb p Hp Edd) as Lb. rewrite (Hret _ Lb).
    assert (Wn : dp_weights R (nth (op_left R p) (Rdm_truncate eps D) dummy_dp) = dp_weights R (nth (op_left R p) D dummy_dp)).
    { unfold Rdm_truncate, dm_truncate.
      rewrite (nth_indep _ dummy_dp (truncate R Rltb eps dummy_dp)) by (rewrite map_length; exact Lb).
      rewrite (map_nth (truncate R Rltb eps)). reflexivity. }
    assert (Cn : Rea_compute p (nth (op_left R p) (Rdm_truncate eps D) dummy_dp) = Rea_compute p (nth (op_left R p) D dummy_dp)).
    { rewrite !Rea_compute_sum, Wn. reflexivity. }
    destruct (Ris_retained (Rdm_truncate eps D) (op_left R p)) eqn:Er.
    + rewrite Cn, Rminus_diag_eq, Rabs_R0 by reflexivity.
      apply Rmult_le_pos; [apply pos_INR|apply Rmult_le_pos; assumption].
    + rewrite Rminus_0_l, Rabs_Ropp, Rea_compute_sum.
      eapply Rle_trans; [apply Rabs_lsum_le|].
      eapply Rle_trans; [apply (lsum_le _ (fun _ => maxA * eps))|rewrite lsum_const, List.seq_length; lra].
      intros i Hi. apply in_seq in Hi. rewrite Rabs_mult.
      assert (W : 0 <= nth i (dp_weights R (nth (op_left R p) D dummy_dp)) 0 <= eps).
      { destruct (nth_in_or_default i (dp_weights R (nth (op_left R p) D dummy_dp)) 0) as [Hin|E0]; [|rewrite E0; lra].
        split; [apply (Hw (nth (op_left R p) D dummy_dp)); [apply nth_In; exact Lb|exact Hin]|].
        apply (discarded_weights_small eps D (op_left R p) Lb Er). exact Hin. }
      rewrite (Rabs_pos_eq (nth i _ 0)) by lra.
      apply Rmult_le_compat; try lra; [apply Rabs_pos|]. apply Hel; try assumption. lia.
  - rewrite lsum_scal_r. replace (eps * dim * maxA) with (dim * (maxA * eps)) by ring.
    apply Rmult_le_compat_r; [apply Rmult_le_pos; assumption|exact Hdim].
Qed.

(** *** Single-particle Green's function *)

(** Lehmann data of one term of G: the two matrix elements <n|c_i|m>, <m|c^+_j|n>, the weights w_n, w_m, the
    pole E_m - E_n (GreensFunctionPart.cpp:44-70). *)
Record lterm := mk_lterm { lt_c : C; lt_cx : C; lt_wn : R; lt_wm : R; lt_pole : R }.
Definition lterm_val (z : C) (t : lterm) : C :=
  Cdiv (Cmult (Cmult (lt_c t) (lt_cx t)) (RtoC (lt_wn t + lt_wm t))) (Cminus z (RtoC (lt_pole t))).
(** one part = one pair of blocks (outer = Cleft, inner = Cright); terms grouped by the outer state n.
    Any sub-list of the terms may be present (the library drops residues below 1e-8 in both runs alike). *)
Record gfpart := mk_gfpart { gp_outer : nat; gp_inner : nat; gp_rows : list (list lterm) }.
Fixpoint csum {A : Type} (f : A -> C) (l : list A) : C :=
  match l with [] => RtoC 0 | a :: t => Cplus (f a) (csum f t) end.
Definition gfpart_val (z : C) (p : gfpart) : C := csum (fun row => csum (lterm_val z) row) (gp_rows p).
Definition gf_val (z : C) (parts : list gfpart) : C := csum (gfpart_val z) parts.
Definition gfpart_kept (ret : nat -> bool) (p : gfpart) : bool := ret (gp_outer p) || ret (gp_inner p).

Lemma Cmod_csum_le {A} (f : A -> C) (l : list A) : Cmod (csum f l) <= lsum (fun a => Cmod (f a)) l.
Proof.
  induction l as [|a t IH]; cbn [csum lsum]; [rewrite Cmod_0; lra|].
  eapply Rle_trans; [apply Cmod_triangle|]. lra.
Qed.

Lemma csum_filter_diff {A} (f : A -> C) (P : A -> bool) (l : list A) :
  Cminus (csum f (filter P l)) (csum f l) = csum (fun a => if P a then RtoC 0 else Copp (f a)) l.
Proof.
  induction l as [|a t IH]; cbn [filter csum]; [ring|].
  destruct (P a); cbn [csum]; rewrite <- IH; ring.
Qed.

Lemma Cmod_z_minus_real (z : C) (p : R) : Rabs (snd z) <= Cmod (Cminus z (RtoC p)).
Proof.
  eapply Rle_trans; [|apply Rmax_Cmod]. destruct z as [x y]. cbn [fst snd Cminus Cplus Copp RtoC].
  rewrite Ropp_0, Rplus_0_r. apply Rmax_r.
Qed.

(** a dropped Lehmann term: both weights in [0, eps] *)
Lemma lterm_val_bound (z : C) (t : lterm) (eps : R) :
  snd z <> 0 -> 0 <= lt_wn t <= eps -> 0 <= lt_wm t <= eps ->
  Cmod (lterm_val z t) <= Cmod (lt_c t) * Cmod (lt_cx t) * (2 * eps / Rabs (snd z)).
Proof.
  intros Hz Hn Hm. unfold lterm_val.
  assert (Pz : 0 < Rabs (snd z)) by (apply Rabs_pos_lt; exact Hz).
  pose proof (Cmod_z_minus_real z (lt_pole t)) as Hd.
  assert (Nz : Cminus z (RtoC (lt_pole t)) <> RtoC 0).
  { intros E. rewrite E, Cmod_0 in Hd. lra. }
  rewrite Cmod_div by exact Nz. rewrite !Cmod_mult, Cmod_R, Rabs_pos_eq by lra.
  pose proof (Cmod_ge_0 (lt_c t)). pose proof (Cmod_ge_0 (lt_cx t)).
  assert (Q : (lt_wn t + lt_wm t) * / Cmod (Cminus z (RtoC (lt_pole t))) <= 2 * eps * / Rabs (snd z)).
  { apply Rmult_le_compat; [lra|left; apply Rinv_0_lt_compat; lra|lra|apply Rinv_le_contravar; lra]. }
  unfold Rdiv.
  replace (Cmod (lt_c t) * Cmod (lt_cx t) * (lt_wn t + lt_wm t) * / Cmod (Cminus z (RtoC (lt_pole t))))
    with (Cmod (lt_c t) * Cmod (lt_cx t) * ((lt_wn t + lt_wm t) * / Cmod (Cminus z (RtoC (lt_pole t))))) by ring.
  apply Rmult_le_compat_l; [apply Rmult_le_pos; assumption|exact Q].
Qed.

(** Sum_m |c_nm| |cx_mn| <= 1 from the two row norms (ab <= (a^2+b^2)/2; Cauchy-Schwarz would give the same) *)
Lemma row_product_le_one (row : list lterm) :
  lsum (fun t => Cmod (lt_c t) * Cmod (lt_c t)) row <= 1 ->
  lsum (fun t => Cmod (lt_cx t) * Cmod (lt_cx t)) row <= 1 ->
  lsum (fun t => Cmod (lt_c t) * Cmod (lt_cx t)) row <= 1.
Proof.
  intros H1 H2.
  assert (lsum (fun t => Cmod (lt_c t) * Cmod (lt_cx t)) row <=
          lsum (fun t => / 2 * (Cmod (lt_c t) * Cmod (lt_c t)) + / 2 * (Cmod (lt_cx t) * Cmod (lt_cx t))) row).
  { apply lsum_le. intros t _. pose proof (Rle_0_sqr (Cmod (lt_c t) - Cmod (lt_cx t))) as S. unfold Rsqr in S. lra. }
  rewrite lsum_plus, !lsum_scal in H. lra.
Qed.

(** |G_trunc(z) - G(z)| <= 2 eps dim / |Im z| off the real axis.
    Hypotheses (named):
    - [dropped_weights_small]: in a part with both blocks discarded every term has both weights in [0, eps]
      (discharged from the density-matrix model by [gf_truncation_bound_dm] below);
    - [row_norm_c], [row_norm_cx]: for every outer state n, Sum_m |<n|c_i|m>|^2 <= 1 and Sum_m |<m|c^+_j|n>|^2 <= 1
      (rows / columns of the matrices of c_i, c^+_j, whose operator norm is 1);
    - [outer_sizes]: the outer blocks of the parts are distinct blocks, so together they have at most dim states. *)
Theorem gf_truncation_bound (parts : list gfpart) (ret : nat -> bool) (eps dim : R) (z : C) :
  0 <= eps -> snd z <> 0 ->
  (* dropped_weights_small *)
  (forall p row t, In p parts -> gfpart_kept ret p = false -> In row (gp_rows p) -> In t row ->
     0 <= lt_wn t <= eps /\ 0 <= lt_wm t <= eps) ->
  (* row_norm_c *)
  (forall p row, In p parts -> In row (gp_rows p) -> lsum (fun t => Cmod (lt_c t) * Cmod (lt_c t)) row <= 1) ->
  (* row_norm_cx *)
  (forall p row, In p parts -> In row (gp_rows p) -> lsum (fun t => Cmod (lt_cx t) * Cmod (lt_cx t)) row <= 1) ->
  (* outer_sizes *)
  lsum (fun p => INR (length (gp_rows p))) parts <= dim ->
  Cmod (Cminus (gf_val z (filter (gfpart_kept ret) parts)) (gf_val z parts)) <= 2 * eps * dim / Rabs (snd z).
Proof.
  intros He Hz Hw Hc Hcx Hdim. unfold gf_val. rewrite csum_filter_diff.
  assert (Pz : 0 < Rabs (snd z)) by (apply Rabs_pos_lt; exact Hz).
  set (k := 2 * eps / Rabs (snd z)).
  assert (Hk : 0 <= k). { unfold k. apply Rmult_le_pos; [lra|]. left. apply Rinv_0_lt_compat. exact Pz. }
  eapply Rle_trans; [apply Cmod_csum_le|].
  eapply Rle_trans.
  - apply (lsum_le _ (fun p => INR (length (gp_rows p)) * k)). intros p Hp.
    destruct (gfpart_kept ret p) eqn:Ek.
    + rewrite Cmod_0. apply Rmult_le_pos; [apply pos_INR|exact Hk].
    + rewrite Cmod_opp. unfold gfpart_val. eapply Rle_trans; [apply Cmod_csum_le|].
      eapply Rle_trans; [apply (lsum_le _ (fun _ => k))|rewrite lsum_const; lra].
      intros row Hrow. eapply Rle_trans; [apply Cmod_csum_le|].
      eapply Rle_trans.
      * apply (lsum_le _ (fun t => Cmod (lt_c t) * Cmod (lt_cx t) * k)). intros t Ht.
        destruct (Hw p row t Hp Ek Hrow Ht) as [W1 W2]. apply lterm_val_bound; assumption.
      * rewrite lsum_scal_r. rewrite <- (Rmult_1_l k) at 2. apply Rmult_le_compat_r; [exact Hk|].
        apply row_product_le_one; [apply (Hc p row Hp Hrow)|apply (Hcx p row Hp Hrow)].
  - rewrite lsum_scal_r. unfold k. replace (2 * eps * dim / Rabs (snd z)) with (dim * (2 * eps / Rabs (snd z))) by (field; lra).
    apply Rmult_le_compat_r; [exact Hk|exact Hdim].
Qed.

(** the weight hypothesis discharged from the density-matrix model: D computed by DensityMatrix::compute,
    truncated at eps, term weights taken from the parts of the outer / inner block *)
Theorem gf_truncation_bound_dm (beta : R) (H : list Rhpart) (D : list Rdmpart)
        (parts : list gfpart) (eps dim : R) (z : C) :
  Rdm_compute beta H = Done D -> 0 <= eps -> snd z <> 0 ->
  (* terms_use_dm_weights *)
  (forall p row t, In p parts -> In row (gp_rows p) -> In t row ->
     (gp_outer p < length D)%nat /\ (gp_inner p < length D)%nat /\
     In (lt_wn t) (dp_weights R (nth (gp_outer p) D dummy_dp)) /\
     In (lt_wm t) (dp_weights R (nth (gp_inner p) D dummy_dp))) ->
  (forall p row, In p parts -> In row (gp_rows p) -> lsum (fun t => Cmod (lt_c t) * Cmod (lt_c t)) row <= 1) ->
  (forall p row, In p parts -> In row (gp_rows p) -> lsum (fun t => Cmod (lt_cx t) * Cmod (lt_cx t)) row <= 1) ->
  lsum (fun p => INR (length (gp_rows p))) parts <= dim ->
  Cmod (Cminus (gf_val z (filter (gfpart_kept (Ris_retained (Rdm_truncate eps D))) parts)) (gf_val z parts))
    <= 2 * eps * dim / Rabs (snd z).
Proof.
  intros E He Hz Hw Hc Hcx Hdim. apply gf_truncation_bound; try assumption.
  intros p row t Hp Ek Hrow Ht. destruct (Hw p row t Hp Hrow Ht) as [Lo [Li [Wn Wm]]].
  unfold gfpart_kept in Ek. apply orb_false_elim in Ek. destruct Ek as [Eo Ei].
  split; split.
  - left. apply (weights_all_pos beta H D E (nth (gp_outer p) D dummy_dp)); [apply nth_In; exact Lo|exact Wn].
  - apply (discarded_weights_small eps D (gp_outer p) Lo Eo). exact Wn.
  - left. apply (weights_all_pos beta H D E (nth (gp_inner p) D dummy_dp)); [apply nth_In; exact Li|exact Wm].
  - apply (discarded_weights_small eps D (gp_inner p) Li Ei). exact Wm.
Qed.

(** *** Dynamical susceptibility on the imaginary axis: |chi_trunc(iW) - chi(iW)| <= beta eps dim *)

(** One term of SusceptibilityPart::compute (SusceptibilityPart.cpp:52-86): matrix elements <n|A|m>, <m|B|n>,
    weights w_n (outer) and w_m (inner), pole E_m - E_n; [st_keep] = false models a residue below the library's
    threshold (dropped in both runs alike). *)
Record sterm := mk_sterm { st_a : C; st_b : C; st_wn : R; st_wm : R; st_pole : R; st_keep : bool }.
(** value at z: a pole below the resonance tolerance contributes beta a b w_n at zero frequency only
    (ZeroPoleWeight * beta, SusceptibilityPart.h:153-157), any other pole -Residue/(z - pole) with
    Residue = a b (w_n - w_m) (SusceptibilityPart.cpp:8) *)
Definition sterm_val (beta tol : R) (zero_freq : bool) (z : C) (t : sterm) : C :=
  if Rltb (Rabs (st_pole t)) tol
  then (if zero_freq then Cmult (Cmult (RtoC beta) (Cmult (st_a t) (st_b t))) (RtoC (st_wn t)) else RtoC 0)
  else if st_keep t
       then Copp (Cdiv (Cmult (Cmult (st_a t) (st_b t)) (RtoC (st_wn t - st_wm t))) (Cminus z (RtoC (st_pole t))))
       else RtoC 0.
Record suscpart := mk_suscpart { sp_outer : nat; sp_inner : nat; sp_rows : list (list sterm) }.
Definition suscpart_val beta tol zf (z : C) (p : suscpart) : C := csum (fun row => csum (sterm_val beta tol zf z) row) (sp_rows p).
Definition susc_val beta tol zf (z : C) (parts : list suscpart) : C := csum (suscpart_val beta tol zf z) parts.
Definition suscpart_kept (ret : nat -> bool) (p : suscpart) : bool := ret (sp_outer p) || ret (sp_inner p).

(** |w_n - w_m| <= beta |P| max(w_n, w_m) for Gibbs weights w_m = w_n exp(-beta P) *)
Lemma gibbs_weight_difference (beta P wn wm : R) :
  0 <= beta -> 0 <= wn -> 0 <= wm -> wm = wn * exp (- beta * P) ->
  Rabs (wn - wm) <= beta * Rabs P * Rmax wn wm.
Proof.
  intros Hb Hn Hm E.
  destruct (Rle_dec 0 P) as [HP|HP].
  - (* P >= 0: w_m <= w_n *)
    rewrite (Rabs_pos_eq P HP).
    pose proof (exp_ineq1_le (- beta * P)) as I. pose proof (exp_pos (- beta * P)) as Pe.
    assert (exp (- beta * P) <= 1).
    { rewrite <- exp_0. destruct (Req_dec (- beta * P) 0) as [E0|N0]; [rewrite E0; lra|]. left. apply exp_increasing. nra. }
    assert (0 <= wn - wm <= wn * (beta * P)).
    { rewrite E. split; nra. }
    rewrite Rabs_pos_eq by lra. pose proof (Rmax_l wn wm). assert (0 <= beta * P) by nra. nra.
  - (* P < 0: w_n = w_m exp(beta P) <= w_m *)
    assert (HP' : P < 0) by lra. rewrite (Rabs_left P HP').
    assert (En : wn = wm * exp (beta * P)).
    { rewrite E, Rmult_assoc, <- exp_plus. replace (- beta * P + beta * P) with 0 by ring. rewrite exp_0. ring. }
    pose proof (exp_ineq1_le (beta * P)) as I. pose proof (exp_pos (beta * P)) as Pe.
    assert (exp (beta * P) <= 1).
    { rewrite <- exp_0. destruct (Req_dec (beta * P) 0) as [E0|N0]; [rewrite E0; lra|]. left. apply exp_increasing. nra. }
    assert (0 <= wm - wn <= wm * (beta * - P)).
    { rewrite En. split; nra. }
    rewrite Rabs_left1 by lra. pose proof (Rmax_r wn wm). assert (0 <= beta * - P) by nra. nra.
Qed.

Lemma Cmod_imag_minus_real (z : C) (p : R) : fst z = 0 -> Rabs p <= Cmod (Cminus z (RtoC p)).
Proof.
  intros Hz. eapply Rle_trans; [|apply Rmax_Cmod]. destruct z as [x y]. cbn [fst snd Cminus Cplus Copp RtoC] in *.
  subst x. rewrite Rplus_0_l, Rabs_Ropp. apply Rmax_l.
Qed.

Lemma sterm_val_bound (beta tol : R) (zf : bool) (z : C) (t : sterm) (eps : R) :
  0 <= beta -> 0 < tol -> fst z = 0 ->
  0 <= st_wn t <= eps -> 0 <= st_wm t <= eps -> st_wm t = st_wn t * exp (- beta * st_pole t) ->
  Cmod (sterm_val beta tol zf z t) <= Cmod (st_a t) * Cmod (st_b t) * (beta * eps).
Proof.
  intros Hb Ht Hz Hn Hm E. unfold sterm_val.
  pose proof (Cmod_ge_0 (st_a t)) as Pa. pose proof (Cmod_ge_0 (st_b t)) as Pb.
  assert (P0 : 0 <= Cmod (st_a t) * Cmod (st_b t) * (beta * eps)).
  { apply Rmult_le_pos; [apply Rmult_le_pos; assumption|apply Rmult_le_pos; lra]. }
  destruct (Rltb (Rabs (st_pole t)) tol) eqn:Er.
  - destruct zf; [|rewrite Cmod_0; exact P0].
    rewrite !Cmod_mult, !Cmod_R, (Rabs_pos_eq beta Hb), (Rabs_pos_eq (st_wn t)) by lra.
    replace (beta * (Cmod (st_a t) * Cmod (st_b t)) * st_wn t) with (Cmod (st_a t) * Cmod (st_b t) * (beta * st_wn t)) by ring.
    apply Rmult_le_compat_l; [apply Rmult_le_pos; assumption|]. apply Rmult_le_compat_l; lra.
  - destruct (st_keep t); [|rewrite Cmod_0; exact P0].
    apply Rltb_false in Er.
    assert (PP : 0 < Rabs (st_pole t)) by lra.
    pose proof (Cmod_imag_minus_real z (st_pole t) Hz) as Hd.
    assert (Nz : Cminus z (RtoC (st_pole t)) <> RtoC 0).
    { intros E0. rewrite E0, Cmod_0 in Hd. lra. }
    rewrite Cmod_opp, Cmod_div by exact Nz. rewrite !Cmod_mult, Cmod_R.
    pose proof (gibbs_weight_difference beta (st_pole t) (st_wn t) (st_wm t) Hb (proj1 Hn) (proj1 Hm) E) as G.
    assert (Mx : Rmax (st_wn t) (st_wm t) <= eps) by (apply Rmax_lub; lra).
    assert (Q : Rabs (st_wn t - st_wm t) * / Cmod (Cminus z (RtoC (st_pole t))) <= beta * eps).
    { apply Rle_trans with (beta * Rabs (st_pole t) * eps * / Rabs (st_pole t)).
      - apply Rmult_le_compat; [apply Rabs_pos|left; apply Rinv_0_lt_compat; lra| |apply Rinv_le_contravar; lra].
        eapply Rle_trans; [exact G|]. apply Rmult_le_compat_l; [apply Rmult_le_pos; lra|exact Mx].
      - right. field. lra. }
    unfold Rdiv.
    replace (Cmod (st_a t) * Cmod (st_b t) * Rabs (st_wn t - st_wm t) * / Cmod (Cminus z (RtoC (st_pole t))))
      with (Cmod (st_a t) * Cmod (st_b t) * (Rabs (st_wn t - st_wm t) * / Cmod (Cminus z (RtoC (st_pole t))))) by ring.
    apply Rmult_le_compat_l; [apply Rmult_le_pos; assumption|exact Q].
Qed.

Lemma sum_product_le_one {A} (f g : A -> R) (l : list A) :
  lsum (fun t => f t * f t) l <= 1 -> lsum (fun t => g t * g t) l <= 1 -> lsum (fun t => f t * g t) l <= 1.
Proof.
  intros H1 H2.
  assert (lsum (fun t => f t * g t) l <= lsum (fun t => / 2 * (f t * f t) + / 2 * (g t * g t)) l).
  { apply lsum_le. intros t _. pose proof (Rle_0_sqr (f t - g t)) as S. unfold Rsqr in S. lra. }
  rewrite lsum_plus, !lsum_scal in H. lra.
Qed.

(** |chi_trunc(z) - chi(z)| <= beta eps dim for z on the imaginary axis (all bosonic Matsubara frequencies,
    including zero).  Named hypotheses: dropped_terms_gibbs (in a part with both blocks discarded every term has
    both weights in [0, eps] and they are in the Gibbs ratio -- weights_ratio), row_norm_a, row_norm_b
    (rows of A = c^+_a c_b and columns of B have norm <= 1), outer_sizes. *)
Theorem susc_truncation_bound (parts : list suscpart) (ret : nat -> bool) (beta tol eps dim : R) (zf : bool) (z : C) :
  0 <= beta -> 0 < tol -> 0 <= eps -> fst z = 0 ->
  (* dropped_terms_gibbs *)
  (forall p row t, In p parts -> suscpart_kept ret p = false -> In row (sp_rows p) -> In t row ->
     0 <= st_wn t <= eps /\ 0 <= st_wm t <= eps /\ st_wm t = st_wn t * exp (- beta * st_pole t)) ->
  (* row_norm_a *)
  (forall p row, In p parts -> In row (sp_rows p) -> lsum (fun t => Cmod (st_a t) * Cmod (st_a t)) row <= 1) ->
  (* row_norm_b *)
  (forall p row, In p parts -> In row (sp_rows p) -> lsum (fun t => Cmod (st_b t) * Cmod (st_b t)) row <= 1) ->
  (* outer_sizes *)
  lsum (fun p => INR (length (sp_rows p))) parts <= dim ->
  Cmod (Cminus (susc_val beta tol zf z (filter (suscpart_kept ret) parts)) (susc_val beta tol zf z parts)) <= beta * eps * dim.
Proof.
  intros Hb Ht He Hz Hw Ha Hbn Hdim. unfold susc_val. rewrite csum_filter_diff.
  set (k := beta * eps). assert (Hk : 0 <= k) by (apply Rmult_le_pos; assumption).
  eapply Rle_trans; [apply Cmod_csum_le|].
  eapply Rle_trans.
  - apply (lsum_le _ (fun p => INR (length (sp_rows p)) * k)). intros p Hp.
    destruct (suscpart_kept ret p) eqn:Ek.
    + rewrite Cmod_0. apply Rmult_le_pos; [apply pos_INR|exact Hk].
    + rewrite Cmod_opp. unfold suscpart_val. eapply Rle_trans; [apply Cmod_csum_le|].
      eapply Rle_trans; [apply (lsum_le _ (fun _ => k))|rewrite lsum_const; lra].
      intros row Hrow. eapply Rle_trans; [apply Cmod_csum_le|].
      eapply Rle_trans.
      * apply (lsum_le _ (fun t => Cmod (st_a t) * Cmod (st_b t) * k)). intros t Htr.
        destruct (Hw p row t Hp Ek Hrow Htr) as [W1 [W2 W3]]. apply sterm_val_bound; assumption.
      * rewrite lsum_scal_r. rewrite <- (Rmult_1_l k) at 2. apply Rmult_le_compat_r; [exact Hk|].
        apply (sum_product_le_one (fun t => Cmod (st_a t)) (fun t => Cmod (st_b t))); [apply (Ha p row Hp Hrow)|apply (Hbn p row Hp Hrow)].
  - rewrite lsum_scal_r. rewrite (Rmult_comm k dim).
    apply Rmult_le_compat_r; [exact Hk|exact Hdim].
Qed.
