(** The step named as missing in the header of PV.ChiLehmann: the two term lists of a computed TwoParticleGFPart evaluate to the
    sum of the values of the terms handed to them ([SpineChiOneBlock.termlists_faithful]), for TermList::add_term as it is in the
    source (the retry loop, Gen_Multiterm.add_term_retries = true), over any field, under an EXACTNESS hypothesis on the
    comparators for the finite set L of pole values that can occur ([cmp_exact]):
      on L the tolerance test real_eq is equality, distinct poles are ordered by "<" one way or the other, and two third poles that
      are not ">= Tolerance" apart in either direction are equal;
    and [negl_exact]: IsNegligible only fires for coefficients that are exactly zero.
    Then a term that blocks an insertion has the same flag and the same three poles as the inserted one ([blocked_same]), the
    weighted means of operator+= leave the poles where they are (needs ofZ additive and non-zero on positive integers), both
    evaluators are additive in the coefficients, and a negligible sum evaluates to 0: every add_term adds exactly the value of its
    term ([add_term_loop_value], for ANY comparator satisfying the abstract hypotheses), whatever the order of the terms.
    [cmp_exact_b] is a boolean checker for [cmp_exact] (used by the examples). *)
Require Import Bool List Arith ZArith Lia Field Ring Permutation.
From PV Require Import Outcome EDSpec Chi ChiProofs ChiLehmann.
From PVgen Require Import Gen_Multiterm.
Import ListNotations.

Section TermLists.
Variable K : Type.
Variable NO : numops K.
Notation "0" := (n0 K NO).
Notation "1" := (n1 K NO).
Notation kadd := (nadd K NO).
Notation ksub := (nsub K NO).
Notation kmul := (nmul K NO).
Notation kdiv := (ndiv K NO).
Notation kopp := (nopp K NO).
Notation ltb := (nre_ltb K NO).
Notation kabs := (nabs K NO).
Notation ofZ := (nofZ K NO).
Infix "+" := (nadd K NO).
Infix "*" := (nmul K NO).
Infix "-" := (nsub K NO).
Infix "/" := (ndiv K NO).
Hypothesis Kf : field_theory 0 1 kadd kmul ksub kopp kdiv (ChiLehmann.kinv K NO) (@eq K).
Add Field KfieldTL : Kf.
Notation lsum := (ChiLehmann.lsum K NO).
Notation lsum_app := (ChiLehmann.lsum_app K NO Kf).
Notation lsum_perm := (ChiLehmann.lsum_perm K NO Kf).
Notation G f := (f K kadd ksub kmul kdiv kopp (abs_gt K NO) (abs_lt K NO) (real_ge K NO)) (only parsing).

(** * add_term (retry loop) adds the value of its term: abstract comparator *)
Section Loop.
Variable T : Type.
Variables (comp : T -> T -> bool) (plus : T -> T -> T) (negl : T -> nat -> bool).
Variable ev : T -> K.
Variable Good : T -> Prop.
Variable same : T -> T -> Prop.
Hypothesis blocked_same : forall e t, Good e -> Good t -> comp e t = false -> comp t e = false -> same e t.
Hypothesis plus_good : forall e t, Good e -> Good t -> same e t -> Good (plus e t).
Hypothesis plus_ev : forall e t, Good e -> Good t -> same e t -> ev (plus e t) = ev e + ev t.
Hypothesis negl_zero : forall t d, Good t -> negl t d = true -> ev t = 0.

Lemma split_upper_prefix t l : Forall (fun e => comp t e = false) (fst (split_upper T comp t l)).
Proof.
  induction l as [|e r IH]; [constructor|]. cbn [split_upper]. destruct (comp t e) eqn:C; [constructor|].
  destruct (split_upper T comp t r) as [a b]. cbn [fst] in *. constructor; assumption.
Qed.

Lemma insert_res_blocked t l a e b : set_insert_res T comp t l = Blocked T a e b ->
  l = a ++ e :: b /\ comp e t = false /\ comp t e = false.
Proof.
  unfold set_insert_res. pose proof (split_upper_app T comp t l) as Happ. pose proof (split_upper_prefix t l) as Hpre.
  destruct (split_upper T comp t l) as [a' b']. cbn [fst snd] in Happ, Hpre.
  destruct (rev a') as [|pred ra] eqn:Er; [discriminate|].
  assert (Ha : a' = rev ra ++ [pred]) by (apply (f_equal (@rev T)) in Er; rewrite rev_involutive in Er; exact Er).
  destruct (comp pred t) eqn:Ec; [discriminate|]. intros H. injection H as <- <- <-.
  split; [rewrite <- Happ, Ha, <- app_assoc; reflexivity|]. split; [exact Ec|].
  rewrite Forall_forall in Hpre. apply Hpre. rewrite Ha. apply in_or_app. right. left. reflexivity.
Qed.

Lemma insert_res_inserted t l l' : set_insert_res T comp t l = Inserted T l' -> Permutation l' (t :: l).
Proof.
  intros H. destruct (set_insert_res_cases T comp t l) as [[l'' [E P]]|[a [e [b [E _]]]]]; rewrite E in H; [|discriminate].
  injection H as <-. exact P.
Qed.

Theorem add_term_loop_value : forall fuel t l, Forall Good l -> Good t -> length l <= fuel ->
  Forall Good (snd (add_term_loop T comp plus negl fuel t l)) /\
  lsum (snd (add_term_loop T comp plus negl fuel t l)) ev = lsum l ev + ev t.
Proof.
  induction fuel as [|f IH]; intros t l Gl Gt Hlen.
  - destruct l; [|cbn in Hlen; lia]. cbn. split; [constructor; [exact Gt|constructor]|]. ring.
  - cbn [add_term_loop]. destruct (set_insert_res T comp t l) as [l'|a e b] eqn:EI.
    + pose proof (insert_res_inserted t l l' EI) as P. cbn [snd]. split.
      * apply (Permutation_Forall (Permutation_sym P)). constructor; assumption.
      * rewrite (lsum_perm _ _ ev P), ChiLehmann.lsum_cons. ring.
    + destruct (insert_res_blocked t l a e b EI) as [El [C1 C2]]. subst l.
      assert (Ge : Good e) by (rewrite Forall_forall in Gl; apply Gl; apply in_or_app; right; left; reflexivity).
      assert (Gab : Forall Good (a ++ b)).
      { apply Forall_app in Gl. destruct Gl as [Ga Geb]. inversion Geb; subst. apply Forall_app. split; assumption. }
      pose proof (blocked_same e t Ge Gt C1 C2) as Hs.
      pose proof (plus_good e t Ge Gt Hs) as Gp. pose proof (plus_ev e t Ge Gt Hs) as Ep.
      assert (Hsum : lsum (a ++ e :: b) ev = lsum (a ++ b) ev + ev e) by (rewrite !lsum_app, ChiLehmann.lsum_cons; ring).
      destruct (negl (plus e t) (length (a ++ b) + 1)) eqn:N.
      * cbn [snd]. split; [exact Gab|]. rewrite Hsum. pose proof (negl_zero _ _ Gp N) as Z. rewrite Ep in Z.
        transitivity (lsum (a ++ b) ev + (ev e + ev t)); [rewrite Z; ring|ring].
      * destruct (IH (plus e t) (a ++ b) Gab Gp) as [G' V'].
        { rewrite app_length in *. cbn [length] in Hlen. lia. }
        split; [exact G'|]. rewrite V', Hsum, Ep. ring.
Qed.
End Loop.

(** * the comparators of TwoParticleGFPart on an exact set of pole values *)
Hypothesis ofZ_add : forall a b : Z, ofZ (a + b)%Z = ofZ a + ofZ b.
Hypothesis ofZ_pos : forall z : Z, (0 < z)%Z -> ofZ z <> 0.

Definition cmp_exact (tc : K) (L : list K) : Prop :=
  (forall p, In p L -> real_eq K NO tc p p = true) /\
  (forall p q, In p L -> In q L -> real_eq K NO tc p q = true -> p = q) /\
  (forall p q, In p L -> In q L -> p <> q -> ltb p q = true \/ ltb q p = true) /\
  (forall p q, In p L -> In q L -> real_ge K NO (q - p) tc = false -> real_ge K NO (p - q) tc = false -> p = q) /\
  (forall p q : K, In p L -> In q L -> p = q \/ p <> q).

Lemma cmp_poles_exact tc L a0 a1 a2 b0 b1 b2 : cmp_exact tc L ->
  In a0 L -> In a1 L -> In a2 L -> In b0 L -> In b1 L -> In b2 L ->
  cmp_poles K NO tc a0 a1 a2 b0 b1 b2 = false -> cmp_poles K NO tc b0 b1 b2 a0 a1 a2 = false ->
  a0 = b0 /\ a1 = b1 /\ a2 = b2.
Proof.
  intros [X0 [X1 [X2 [X3 XD]]]] A0 A1 A2 B0 B1 B2 C1 C2. unfold cmp_poles in C1, C2.
  assert (E0 : a0 = b0).
  { destruct (XD a0 b0 A0 B0) as [E|NE]; [exact E|]. exfalso.
    assert (R1 : real_eq K NO tc a0 b0 = false) by (destruct (real_eq K NO tc a0 b0) eqn:R; [exfalso; exact (NE (X1 _ _ A0 B0 R))|reflexivity]).
    assert (R2 : real_eq K NO tc b0 a0 = false) by (destruct (real_eq K NO tc b0 a0) eqn:R; [exfalso; exact (NE (eq_sym (X1 _ _ B0 A0 R)))|reflexivity]).
    rewrite R1 in C1. rewrite R2 in C2. cbn [negb] in C1, C2. destruct (X2 a0 b0 A0 B0 NE); congruence. }
  subst b0. rewrite (X0 a0 A0) in C1, C2. cbn [negb] in C1, C2.
  assert (E1 : a1 = b1).
  { destruct (XD a1 b1 A1 B1) as [E|NE]; [exact E|]. exfalso.
    assert (R1 : real_eq K NO tc a1 b1 = false) by (destruct (real_eq K NO tc a1 b1) eqn:R; [exfalso; exact (NE (X1 _ _ A1 B1 R))|reflexivity]).
    assert (R2 : real_eq K NO tc b1 a1 = false) by (destruct (real_eq K NO tc b1 a1) eqn:R; [exfalso; exact (NE (eq_sym (X1 _ _ B1 A1 R)))|reflexivity]).
    rewrite R1 in C1. rewrite R2 in C2. cbn [negb] in C1, C2. destruct (X2 a1 b1 A1 B1 NE); congruence. }
  subst b1. rewrite (X0 a1 A1) in C1, C2. cbn [negb] in C1, C2.
  split; [reflexivity|]. split; [reflexivity|]. exact (X3 a2 b2 A2 B2 C1 C2).
Qed.

Lemma wmean_same (w1 w2 : Z) (p : K) : (0 < w1)%Z -> (0 < w2)%Z -> wmean K NO w1 p w2 p = p.
Proof.
  intros H1 H2. unfold wmean. rewrite ofZ_add. pose proof (ofZ_pos (w1 + w2)%Z ltac:(lia)) as Hnz. rewrite ofZ_add in Hnz.
  field. exact Hnz.
Qed.

Lemma div_zero_l (d : K) : 0 / d = 0.
Proof. rewrite (Fdiv_def Kf). ring. Qed.
Lemma div_plus (a b d : K) : (a + b) / d = a / d + b / d.
Proof. rewrite !(Fdiv_def Kf). ring. Qed.

Variable tl : tols K.
Variable L : list K.
Variables y1 y2 y3 : K.
Hypothesis CE_nr : cmp_exact (t_cmp_nr K tl) L.
Hypothesis CE_r : cmp_exact (t_cmp_r K tl) L.
Hypothesis negl_exact_nr : forall x d, abs_lt K NO x (t_neg_nr K tl / ofZ (Z.of_nat d)) = true -> x = 0.
Hypothesis negl_exact_r : forall x d, abs_lt K NO x (t_neg_r K tl / ofZ (Z.of_nat d)) = true -> x = 0.

(** ** non-resonant terms *)
Definition good_nr (t : nrterm K) : Prop := In (nr_p0 K t) L /\ In (nr_p1 K t) L /\ In (nr_p2 K t) L /\ (0 < nr_weight K t)%Z.
Definition same_nr (e t : nrterm K) : Prop :=
  nr_isz4 K e = nr_isz4 K t /\ nr_p0 K e = nr_p0 K t /\ nr_p1 K e = nr_p1 K t /\ nr_p2 K e = nr_p2 K t.
Notation ev_nr := (fun t : nrterm K => nr_eval K NO t y1 y2 y3).

Lemma nr_blocked_same e t : good_nr e -> good_nr t ->
  nr_comp K NO (t_cmp_nr K tl) e t = false -> nr_comp K NO (t_cmp_nr K tl) t e = false -> same_nr e t.
Proof.
  intros [A0 [A1 [A2 _]]] [B0 [B1 [B2 _]]] C1 C2. unfold nr_comp in C1, C2. unfold same_nr.
  destruct (nr_isz4 K e) eqn:Fe; destruct (nr_isz4 K t) eqn:Ft; cbn [Bool.eqb negb andb] in C1, C2; try discriminate.
  - split; [reflexivity|]. exact (cmp_poles_exact _ L _ _ _ _ _ _ CE_nr A0 A1 A2 B0 B1 B2 C1 C2).
  - split; [reflexivity|]. exact (cmp_poles_exact _ L _ _ _ _ _ _ CE_nr A0 A1 A2 B0 B1 B2 C1 C2).
Qed.

Lemma nr_plus_good e t : good_nr e -> good_nr t -> same_nr e t -> good_nr (nr_plus K NO e t).
Proof.
  intros [A0 [A1 [A2 WA]]] [B0 [B1 [B2 WB]]] [_ [E0 [E1 E2]]]. unfold good_nr, nr_plus. cbn [nr_p0 nr_p1 nr_p2 nr_weight].
  rewrite E0, E1, E2, !wmean_same by assumption. repeat split; try assumption. lia.
Qed.

Lemma nr_plus_ev e t : good_nr e -> good_nr t -> same_nr e t -> ev_nr (nr_plus K NO e t) = ev_nr e + ev_nr t.
Proof.
  intros [_ [_ [_ WA]]] [_ [_ [_ WB]]] [EF [E0 [E1 E2]]]. unfold nr_eval, nr_plus. cbn [nr_coeff nr_p0 nr_p1 nr_p2 nr_isz4].
  rewrite E0, E1, E2, EF, !wmean_same by assumption. unfold nonres_eval. destruct (nr_isz4 K t); apply div_plus.
Qed.

Lemma nr_negl_zero t d : good_nr t -> nr_negl K NO (t_neg_nr K tl) t d = true -> ev_nr t = 0.
Proof.
  intros _ H. unfold nr_negl in H. cbv beta. unfold nr_eval. rewrite (negl_exact_nr _ _ H). unfold nonres_eval. destruct (nr_isz4 K t); apply div_zero_l.
Qed.

Definition add_nr_value := add_term_loop_value (nrterm K) (nr_comp K NO (t_cmp_nr K tl)) (nr_plus K NO) (nr_negl K NO (t_neg_nr K tl))
  ev_nr good_nr same_nr nr_blocked_same nr_plus_good nr_plus_ev nr_negl_zero.

(** ** resonant terms *)
Definition good_r (t : rterm K) : Prop := In (r_p0 K t) L /\ In (r_p1 K t) L /\ In (r_p2 K t) L /\ (0 < r_weight K t)%Z.
Definition same_r (e t : rterm K) : Prop :=
  r_isz1z2 K e = r_isz1z2 K t /\ r_p0 K e = r_p0 K t /\ r_p1 K e = r_p1 K t /\ r_p2 K e = r_p2 K t.
Notation ev_r := (fun t : rterm K => r_eval K NO (t_reduce K tl) t y1 y2 y3).

Lemma r_blocked_same e t : good_r e -> good_r t ->
  r_comp K NO (t_cmp_r K tl) e t = false -> r_comp K NO (t_cmp_r K tl) t e = false -> same_r e t.
Proof.
  intros [A0 [A1 [A2 _]]] [B0 [B1 [B2 _]]] C1 C2. unfold r_comp in C1, C2. unfold same_r.
  destruct (r_isz1z2 K e) eqn:Fe; destruct (r_isz1z2 K t) eqn:Ft; cbn [Bool.eqb negb andb] in C1, C2; try discriminate.
  - split; [reflexivity|]. exact (cmp_poles_exact _ L _ _ _ _ _ _ CE_r A0 A1 A2 B0 B1 B2 C1 C2).
  - split; [reflexivity|]. exact (cmp_poles_exact _ L _ _ _ _ _ _ CE_r A0 A1 A2 B0 B1 B2 C1 C2).
Qed.

Lemma r_plus_good e t : good_r e -> good_r t -> same_r e t -> good_r (r_plus K NO e t).
Proof.
  intros [A0 [A1 [A2 WA]]] [B0 [B1 [B2 WB]]] [_ [E0 [E1 E2]]]. unfold good_r, r_plus. cbn [r_p0 r_p1 r_p2 r_weight].
  rewrite E0, E1, E2, !wmean_same by assumption. repeat split; try assumption. lia.
Qed.

Lemma r_plus_ev e t : good_r e -> good_r t -> same_r e t -> ev_r (r_plus K NO e t) = ev_r e + ev_r t.
Proof.
  intros [_ [_ [_ WA]]] [_ [_ [_ WB]]] [EF [E0 [E1 E2]]]. unfold r_eval, r_plus. cbn [r_res r_nonres r_p0 r_p1 r_p2 r_isz1z2].
  rewrite E0, E1, E2, EF, !wmean_same by assumption. unfold res_eval.
  destruct (G res_is_resonant (t_reduce K tl) (r_p0 K t) (r_p1 K t) (r_p2 K t) (r_isz1z2 K t) y1 y2 y3);
    unfold res_eval_with, res_value_z1z2, res_value_z2z3; destruct (r_isz1z2 K t); rewrite <- ?div_plus; reflexivity.
Qed.

Lemma r_negl_zero t d : good_r t -> r_negl K NO (t_neg_r K tl) t d = true -> ev_r t = 0.
Proof.
  intros _ H. unfold r_negl in H. apply andb_prop in H. destruct H as [H1 H2].
  cbv beta. unfold r_eval, res_eval. rewrite (negl_exact_r _ _ H1), (negl_exact_r _ _ H2).
  destruct (G res_is_resonant (t_reduce K tl) (r_p0 K t) (r_p1 K t) (r_p2 K t) (r_isz1z2 K t) y1 y2 y3);
    unfold res_eval_with, res_value_z1z2, res_value_z2z3; destruct (r_isz1z2 K t); rewrite ?div_zero_l; reflexivity.
Qed.

Definition add_r_value := add_term_loop_value (rterm K) (r_comp K NO (t_cmp_r K tl)) (r_plus K NO) (r_negl K NO (t_neg_r K tl))
  ev_r good_r same_r r_blocked_same r_plus_good r_plus_ev r_negl_zero.

(** * the state of a part: every emission adds its value *)
Definition st_inv (st : part_st K) : Prop := Forall good_nr (ps_nr K st) /\ Forall good_r (ps_r K st).
Definition st_value (st : part_st K) : K := lsum (ps_nr K st) ev_nr + lsum (ps_r K st) ev_r.
Definition em_good (e : emission K) : Prop :=
  match e with EmitNonRes _ _ p1 p2 p3 _ => In p1 L /\ In p2 L /\ In p3 L | EmitRes _ _ _ p1 p2 p3 _ => In p1 L /\ In p2 L /\ In p3 L end.
Definition ge_value (ge : bool * emission K) : K := if fst ge then emission_eval K NO tl y1 y2 y3 (snd ge) else 0.

Lemma emit_value st ge : st_inv st -> em_good (snd ge) ->
  st_inv (emit K NO tl st ge) /\ st_value (emit K NO tl st ge) = st_value st + ge_value ge.
Proof.
  intros [I1 I2] Gg. unfold emit, ge_value. destruct ge as [gd e]. cbn [fst snd] in *.
  destruct gd; [|split; [split; assumption|ring]].
  destruct e as [c p1 p2 p3 f|rc nc p1 p2 p3 f]; cbn [em_good] in Gg; destruct Gg as [G1 [G2 G3]].
  - change (add_term (nrterm K) (nr_comp K NO (t_cmp_nr K tl)) (nr_plus K NO) (nr_negl K NO (t_neg_nr K tl)) (mk_nr K c p1 p2 p3 f) (ps_nr K st))
      with (add_term_loop (nrterm K) (nr_comp K NO (t_cmp_nr K tl)) (nr_plus K NO) (nr_negl K NO (t_neg_nr K tl)) (length (ps_nr K st))
              (mk_nr K c p1 p2 p3 f) (ps_nr K st)).
    assert (Gt : good_nr (mk_nr K c p1 p2 p3 f)) by (unfold good_nr, mk_nr; cbn; repeat split; try assumption; lia).
    destruct (add_nr_value (length (ps_nr K st)) _ _ I1 Gt (le_n _)) as [Gl V].
    destruct (add_term_loop _ _ _ _ _ _ _) as [ok l']. cbn [snd] in Gl, V.
    unfold st_inv, st_value. cbn [ps_nr ps_r emission_eval]. split; [split; assumption|]. rewrite V. ring.
  - change (add_term (rterm K) (r_comp K NO (t_cmp_r K tl)) (r_plus K NO) (r_negl K NO (t_neg_r K tl)) (mk_r K rc nc p1 p2 p3 f) (ps_r K st))
      with (add_term_loop (rterm K) (r_comp K NO (t_cmp_r K tl)) (r_plus K NO) (r_negl K NO (t_neg_r K tl)) (length (ps_r K st))
              (mk_r K rc nc p1 p2 p3 f) (ps_r K st)).
    assert (Gt : good_r (mk_r K rc nc p1 p2 p3 f)) by (unfold good_r, mk_r; cbn; repeat split; try assumption; lia).
    destruct (add_r_value (length (ps_r K st)) _ _ I2 Gt (le_n _)) as [Gl V].
    destruct (add_term_loop _ _ _ _ _ _ _) as [ok l']. cbn [snd] in Gl, V.
    unfold st_inv, st_value. cbn [ps_nr ps_r emission_eval]. split; [split; assumption|]. rewrite V. ring.
Qed.

Lemma emits_value : forall ges st, st_inv st -> Forall (fun ge => em_good (snd ge)) ges ->
  st_inv (fold_left (emit K NO tl) ges st) /\ st_value (fold_left (emit K NO tl) ges st) = st_value st + lsum ges ge_value.
Proof.
  induction ges as [|ge ges IH]; intros st I Gs; [cbn [fold_left]; split; [exact I|rewrite ChiLehmann.lsum_nil; ring]|].
  inversion Gs as [|x r Gg Gr]; subst. cbn [fold_left]. destruct (emit_value st ge I Gg) as [I' V'].
  destruct (IH _ I' Gr) as [I'' V'']. split; [exact I''|]. rewrite V'', V', ChiLehmann.lsum_cons. ring.
Qed.

(** the emissions of one visit carry the three poles E2 - E1, E3 - E2, E4 - E3 of the visited states *)
Lemma visit_emissions_good (p : part_in K) (v : visit K) :
  In (nth (v_i2 K v) (p_E2 K p) 0 - nth (v_i1 K v) (p_E1 K p) 0) L ->
  In (nth (v_i3 K v) (p_E3 K p) 0 - nth (v_i2 K v) (p_E2 K p) 0) L ->
  In (nth (v_i4 K v) (p_E4 K p) 0 - nth (v_i3 K v) (p_E3 K p) 0) L ->
  Forall (fun ge => em_good (snd ge)) (visit_emissions K NO tl p v).
Proof.
  intros H1 H2 H3. unfold visit_emissions. destruct (G compute_weight_guard _ _ _ _ _); [|constructor].
  unfold compute_call, addMultiterm. repeat constructor; cbn [snd em_good]; repeat split; assumption.
Qed.

Lemma fold_left_concat {A B} (f : A -> B -> A) : forall (ls : list (list B)) (a : A),
  fold_left f (concat ls) a = fold_left (fun a l => fold_left f l a) ls a.
Proof. induction ls as [|l ls IH]; intros a; [reflexivity|]. cbn [concat fold_left]. rewrite fold_left_app. apply IH. Qed.

Lemma lsum_concat' {A} (ls : list (list A)) (f : A -> K) : lsum (concat ls) f = lsum ls (fun l => lsum l f).
Proof. induction ls as [|l ls IH]; [reflexivity|]. cbn [concat]. rewrite lsum_app, ChiLehmann.lsum_cons, IH. reflexivity. Qed.

Lemma lsum_filter' {A} (q : A -> bool) (l : list A) (f : A -> K) : lsum (filter q l) f = lsum l (fun a => if q a then f a else 0).
Proof.
  induction l as [|a l IH]; [reflexivity|]. cbn [filter]. rewrite ChiLehmann.lsum_cons. destruct (q a); [rewrite ChiLehmann.lsum_cons|]; rewrite IH; ring.
Qed.

(** THE TERM LISTS ARE FAITHFUL: for a part with sorted slices whose visited states have their pole values in L *)
Theorem termlists_faithful_exact (g : nat) (p : part_in K) : part_sorted K p ->
  (forall v, In v (spec_visits K p) ->
     In (nth (v_i2 K v) (p_E2 K p) 0 - nth (v_i1 K v) (p_E1 K p) 0) L /\
     In (nth (v_i3 K v) (p_E3 K p) 0 - nth (v_i2 K v) (p_E2 K p) 0) L /\
     In (nth (v_i4 K v) (p_E4 K p) 0 - nth (v_i3 K v) (p_E3 K p) 0) L) ->
  list_eval K NO ev_nr (ps_nr K (computed_st K NO g tl p)) + list_eval K NO ev_r (ps_r K (computed_st K NO g tl p)) =
  lsum (spec_visits K p) (fun v => emitted_value K NO tl y1 y2 y3 (visit_emissions K NO tl p v)).
Proof.
  intros Hs HL. unfold computed_st, part_compute. rewrite (part_visits_spec K NO g p Hs). cbn [bind ps_nr ps_r].
  assert (EF : forall vs st, fold_left (fun st v => fold_left (emit K NO tl) (visit_emissions K NO tl p v) st) vs st =
                              fold_left (emit K NO tl) (concat (map (visit_emissions K NO tl p) vs)) st).
  { induction vs as [|v vs IHv]; intros st; [reflexivity|]. cbn [map concat fold_left]. rewrite fold_left_app. apply IHv. }
  rewrite EF.
  assert (Gs : Forall (fun ge => em_good (snd ge)) (concat (map (visit_emissions K NO tl p) (spec_visits K p)))).
  { apply Forall_concat. apply Forall_map. apply Forall_forall. intros v Hv. destruct (HL v Hv) as [H1 [H2 H3]].
    exact (visit_emissions_good p v H1 H2 H3). }
  destruct (emits_value _ (part_constructed K) (conj (Forall_nil _) (Forall_nil _)) Gs) as [_ V].
  rewrite !(ChiLehmann.list_eval_lsum K NO Kf). unfold st_value in V. rewrite V. cbn [part_constructed ps_nr ps_r].
  rewrite !ChiLehmann.lsum_nil, lsum_concat', (ChiLehmann.lsum_map K NO).
  transitivity (lsum (spec_visits K p) (fun v => lsum (visit_emissions K NO tl p v) ge_value)); [ring|].
  apply ChiLehmann.lsum_ext. intros v _. unfold emitted_value. rewrite lsum_filter'. reflexivity.
Qed.

End TermLists.
