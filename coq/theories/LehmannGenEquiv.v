(** LehmannGenEquiv.v -- equivalence of generated descriptions (no generated file is imported here: proved once).

    Part of the translator tie of C01 / C14 / C02 (translator/gen_lehmann.py): where a C++ function can be written in several ways
    that a syntactic normalisation in the translator does not reach, the leaf lemma asks for a description EQUIVALENT to the
    model's instead of the same one. *)
Require Import Bool List Arith.
From PV Require Import LehmannShapes LehmannInterp.
Import ListNotations.

(** * equivalent descriptions of a call operator (GreensFunction / Susceptibility / TwoParticleGF ::operator(), of_tau)

    The body of these functions can be written in several ways that return the same value for every state of the object, e.g.
       if(Vanishing) return 0; else { Value = 0; for(parts) Value += ..; return Value; }
       Value = 0; if(!Vanishing) for(parts) Value += ..; return Value;
    The translator emits what it reads; the leaf lemmas therefore do not ask for the SAME statement list as the model's but for an
    EQUIVALENT one: [vequiv d1 d2] says that the interpreter PV.LehmannInterp.value_by -- the only consumer of these lists --
    returns the same option value on d1 and d2 for every zero, addition, subtraction, every value of the flags Vanishing and
    SubtractDisconnected, every list of part values and every environment (argument, beta, averages).  It is an equivalence
    relation, and sound for the interpreter by definition; [vequiv_auto] decides it for concrete lists by running both on the four
    flag combinations and the outcomes of the leaf tests.  A list that changes the value for SOME state (another accumulation
    operator, a dropped loop, a dropped or inverted guard, another subtracted term) is not equivalent: the lemma then fails. *)
Definition vequiv {K : Type} (d1 d2 : list (vstmt K)) : Prop :=
  forall (k0 : K) (kadd ksub : K -> K -> K) (vanishing subtract : bool) (parts : list K) (env : venv K),
    value_by K k0 kadd ksub vanishing subtract parts env d1 = value_by K k0 kadd ksub vanishing subtract parts env d2.
Lemma vequiv_refl {K : Type} (d : list (vstmt K)) : vequiv d d.
Proof. intros k0 kadd ksub v s parts env. reflexivity. Qed.
Lemma vequiv_sym {K : Type} (d1 d2 : list (vstmt K)) : vequiv d1 d2 -> vequiv d2 d1.
Proof. intros H k0 kadd ksub v s parts env. symmetry. apply H. Qed.
Lemma vequiv_trans {K : Type} (d1 d2 d3 : list (vstmt K)) : vequiv d1 d2 -> vequiv d2 d3 -> vequiv d1 d3.
Proof. intros H1 H2 k0 kadd ksub v s parts env. rewrite H1. apply H2. Qed.
Lemma vequiv_of_eq {K : Type} (d1 d2 : list (vstmt K)) : d1 = d2 -> vequiv d1 d2.
Proof. intros ->. apply vequiv_refl. Qed.

Ltac vequiv_step := cbn [vexec_list vexec vcond_eval negb fst snd acc_apply].
Ltac vequiv_auto :=
  let k0 := fresh "k0" in let kadd := fresh "kadd" in let ksub := fresh "ksub" in
  let v := fresh "vanishing" in let s := fresh "subtract" in let parts := fresh "parts" in let env := fresh "env" in
  intros k0 kadd ksub v s parts env; unfold value_by;
  destruct v, s; vequiv_step;
  repeat (match goal with |- context [if ?c then _ else _] => destruct c end; vequiv_step);
  reflexivity.

(** the two forms quoted above are equivalent -- and a form that accumulates with `-=` is not equivalent to either *)
Example vequiv_guard_forms (K : Type) :
  @vequiv K [VsIf VcVanishing [VsReturnZero] [VsInit; VsForParts AccPlus; VsReturnValue]]
            [VsInit; VsIf (VcNot VcVanishing) [VsForParts AccPlus] []; VsReturnValue].
Proof. vequiv_auto. Qed.
Example vequiv_detects_minus :
  ~ @vequiv nat [VsInit; VsForParts AccPlus; VsReturnValue] [VsInit; VsForParts AccMinus; VsReturnValue].
Proof. intro H. specialize (H 0 Nat.add Nat.sub false false [1] (mk_venv 0 0 0 0)). discriminate H. Qed.
Example vequiv_detects_dropped_guard :
  ~ @vequiv nat [VsIf VcVanishing [VsReturnZero] [VsInit; VsForParts AccPlus; VsReturnValue]] [VsInit; VsForParts AccPlus; VsReturnValue].
Proof. intro H. specialize (H 0 Nat.add Nat.sub true false [1] (mk_venv 0 0 0 0)). discriminate H. Qed.

