(** PresetsConfig.v -- C04: the configuration of the model that the SOURCE TEXT selects.

    Two places of the code under C04 were found defective by the check and repaired in /repo; the model keeps both
    variants of each, and which variant describes the tree at hand is no longer a parameter chosen by the check but
    is read from the source on every run (translator/gen_c04.py):

      PVgen.Gen_IndexHamiltonian.prepare_first_by_index   the first-factor test of IndexHamiltonian::prepare
                                                          ([i==0] => true, [tmp.isEmpty()] => false) = IndexHam's [fixed]
      PVgen.Gen_MagnetizationCode.code_magnetization_half LatticePresets::addMagnetization passes Magnetization/2.
                                                          (true) or Magnetization (false) to the Level factory
      PVgen.Gen_LatticeDocs.doc_magnetization_half        the documented operator of addMagnetization carries the
                                                          factor 1/2 (true) or not (false); used by PresetsSpec

    The theorems of props/Properties_C04.v are stated about [prepare_code] and [addMagnetization_code] below and
    about [PresetsSpec.spec_magnetization]; PresetsGenerated.v proves them from the two agreement facts
    [prepare_first_by_index = true] and [code_magnetization_half = doc_magnetization_half], which are closed
    computations on the generated constants: a change of the source or of the documentation that breaks the agreement
    breaks exactly those two lemmas.

    Definitions only. *)
Require Import Bool List.
From PV Require Import Outcome Poly Lattice IndexHam.
From PVgen Require Import Gen_LatticeDocs Gen_MagnetizationCode Gen_IndexHamiltonian.

Definition cfg_fixed : bool := prepare_first_by_index.
Definition cfg_mag_half : bool := code_magnetization_half.
Definition cfg_doc_half : bool := doc_magnetization_half.

Section Cfg.
Variable L : Type.
Variable leqb : L -> L -> bool.
Variable V : Type.
Variable vo : vops V.

(** LatticePresets::addMagnetization with [Level(Label, Magnetization/2., i, up)], [Level(Label, -Magnetization/2., i, down)]
    ([half = true]) or with the amplitude passed as given ([half = false], Lattice.addMagnetization as it is written):
    the halved variant is the same loop run on the halved parameter. *)
Definition addMagnetization_with (half : bool) (m : site_map L) (l : L) (mag : V) : Lattice.W L V :=
  Lattice.addMagnetization L leqb V vo m l (if half then vhalf vo mag else mag).

(** the variant the source text of this tree has *)
Definition addMagnetization_code : site_map L -> L -> V -> Lattice.W L V :=
  addMagnetization_with code_magnetization_half.
End Cfg.

(** IndexHamiltonian::prepare with the first-factor test the source text of this tree has *)
Definition prepare_code (L K : Type) (k1 : K) (kadd kmul : K -> K -> K) (kopp : K -> K) (kzero : K -> bool)
  (getIndex : L -> nat -> nat -> nat) (st : Lattice.state L K) : outcome (poly K) :=
  IndexHam.prepare L K k1 kadd kmul kopp kzero getIndex prepare_first_by_index st.
