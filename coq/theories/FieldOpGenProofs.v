(** FieldOpGenProofs.v -- the source text of THIS tree says what the hand-written models PV.HPart (FieldOperatorPart::compute,
    the copy loop of computeAll) and PV.ContainerHistory say (C10).

    Layer 1 (leaves): `gen_..._is_model` -- the generated shapes, ranges, cells, value expressions, guard, dense cases, sparsification
            steps, the statements in front of the loop of computeAll, the way cdag.compute() is called, the keys of the copy, are the
            ones the models were written with.  Closed computations ([reflexivity]): they stop checking as soon as
            FieldOperatorPart::compute treats to == from specially, reads the eigenvector matrices with other indices or without
            the conjugate, loops over fewer states, prunes differently; as soon as computeAll returns early, skips an operator,
            guards cdag.compute(), copies from the wrong part; as soon as prepareAll stores an unprepared operator.
    Layer 2: `..._src = model` for the functions of PV.FieldOpGen.
    Layer 3: the theorems of PV.HPartProofs / PV.ContainerHistoryProofs transported to the [..._src] definitions;
            props/Properties_C10_source.v states them (the one that needs mathcomp is in PV.FieldOpGenRotate).

    No axioms. *)
Require Import Bool List Arith Lia ZArith.
From PV Require Import Outcome Fock Poly PolySem EDSpec HPart HPartSpec HPartProofs HamShapes HPartGen HPartGenProofs FieldOpGen.
From PV Require Import ContainerHistory ContainerHistoryProofs.
From PVgen Require Import Gen_FieldOpPartCompute Gen_FieldOpCompute Gen_FocPrepareAll Gen_FocComputeAll.
Import ListNotations.

(** a loop over the positions of a list that reads the list at the position is the loop over the list *)
Lemma fold_left_seq_nth_gen_from : forall {A C} (G : C -> nat -> C) (H : C -> A -> C) (l pre : list A) (c : C),
  (forall acc i a, nth_error (pre ++ l) i = Some a -> G acc i = H acc a) ->
  fold_left G (seq (length pre) (length l)) c = fold_left H l c.
Proof.
  intros A C G H l. induction l as [|x l IH]; intros pre c E; [reflexivity|].
  cbn [length seq fold_left].
  rewrite (E c (length pre) x) by (rewrite nth_error_app2 by lia; rewrite Nat.sub_diag; reflexivity).
  specialize (IH (pre ++ [x]) (H c x)). rewrite app_length in IH. cbn [length] in IH. rewrite Nat.add_1_r in IH.
  apply IH. intros acc i a Hi. apply E. rewrite <- app_assoc in Hi. exact Hi.
Qed.
Lemma fold_left_seq_nth_gen : forall {A C} (G : C -> nat -> C) (H : C -> A -> C) (l : list A) (c : C),
  (forall acc i a, nth_error l i = Some a -> G acc i = H acc a) ->
  fold_left G (seq 0 (length l)) c = fold_left H l c.
Proof. intros A C G H l c E. exact (fold_left_seq_nth_gen_from G H l [] c E). Qed.

(** * Layer 1: FieldOperatorPart::compute *)
Lemma gen_fop_structure_is_model : forall nto nfrom : nat,
  gen_fop_left_shape nto nfrom = (nto, nfrom) /\ gen_fop_right_shape nto nfrom = (nfrom, nfrom) /\ gen_fop_zeroed = true /\
  gen_fop_outer nto nfrom = seq 0 nfrom /\                                   (* every state of the `from` block *)
  gen_fop_left_range nto nfrom = seq 0 nto /\ gen_fop_left_cell = (IdxLoop, IdxSource) /\        (* LeftMat(n, k), n < toStates.size() *)
  gen_fop_right_range nto nfrom = seq 0 nfrom /\ gen_fop_right_cell = (IdxSource, IdxLoop).      (* RightMat(k, m), m < fromStates.size() *)
Proof. repeat split; reflexivity. Qed.

Lemma gen_fop_values_are_model : forall (A : Type) (kadd ksub kmul : A -> A -> A) (conj : A -> A) (ltb : A -> A -> bool) (kabs : A -> A)
    (HTo HFrom : nat -> nat -> A) (eps sign : A) (l_is_error : bool) (l k i : nat),
  gen_fop_guard A ltb kabs eps sign l_is_error = negb l_is_error && ltb eps (kabs sign) /\
  gen_fop_left_value A kadd ksub kmul conj HTo HFrom sign l k i = conj (HTo l i) /\           (* conj(U_to(l, n)) *)
  gen_fop_left_value_real A kadd ksub kmul conj HTo HFrom sign l k i = HTo l i /\            (* real build: no conjugate needed *)
  gen_fop_right_value A kadd ksub kmul conj HTo HFrom sign l k i = kmul sign (HFrom k i) /\    (* sign * U_from(k, m) *)
  gen_fop_right_value_real A kadd ksub kmul conj HTo HFrom sign l k i = kmul sign (HFrom k i).
Proof. repeat split; reflexivity. Qed.

(** the product LeftMat * RightMat is stored for every pair of blocks -- no case on to == from --, after sparseView (and prune in
    the real build) with the reference MatrixElementTolerance = 1e-8 *)
Lemma gen_fop_product_is_model :
  gen_fop_dense_cases = [(FCondAlways, DenseLeftTimesRight)] /\
  gen_fop_sparsify = [StepSparseView RefTolerance] /\
  gen_fop_sparsify_real = [StepSparseView RefTolerance; StepPrune RefTolerance] /\
  gen_fop_tolerance_mantissa = 1%Z /\ gen_fop_tolerance_exponent = (-8)%Z.
Proof. repeat split; reflexivity. Qed.

(** * Layer 1: FieldOperator::compute, FieldOperatorContainer *)
Lemma gen_fo_compute_is_model : forall nparts i : nat, gen_fo_compute_visits nparts = seq 0 nparts /\ gen_fo_compute_part i = i.
Proof. split; reflexivity. Qed.

Lemma gen_foc_prepare_all_is_model : forall n : nat,
  gen_foc_prepare_default n = seq 0 n /\ gen_foc_prepare_visits n = seq 0 n /\
  gen_foc_prepare_creator = SlotNewPrepared /\ gen_foc_prepare_annihilator = SlotNewPrepared.
Proof. repeat split; reflexivity. Qed.

(** computeAll: NOTHING in front of the loop, every stored creation operator visited, compute() called unconditionally, the
    annihilation operator of the same index filled part by part with the adjoint and marked Computed *)
Lemma gen_foc_compute_all_is_model : forall nops : nat,
  gen_foc_compute_all_pre = [] /\ gen_foc_compute_all_visits nops = seq 0 nops /\ gen_foc_compute_call = CallUnconditional /\
  gen_foc_annihilator_same_index = true /\ gen_foc_marks_computed = true /\
  gen_foc_copy_target = SideLeft /\ gen_foc_copy_source = SideRight /\ gen_foc_copy_op = CopyAdjoint.
Proof. repeat split; reflexivity. Qed.

(** * Layer 2 *)
Section Agreement.
Variable fb : bool.
Variable K : Type.
Variable NO : numops K.
Variable eps : K.
Notation ltb := (nre_ltb K NO).
Notation kabs := (nabs K NO).
Notation kmul := (nmul K NO).

Lemma fop_fill_src_is_model : forall (S : classification) (o : fop) (Hfrom Hto : mat K) (nt : nat) (fromStates : list nat),
  fop_fill_src fb K NO eps S o Hfrom Hto nt (length fromStates) fromStates =
  fop_fill fb K NO eps S o Hfrom Hto nt (length fromStates) fromStates.
Proof.
  intros S o Hfrom Hto nt fromStates. unfold fop_fill_src, fop_fill.
  destruct (gen_fop_structure_is_model nt (length fromStates)) as [E1 [E2 [E3 [E4 [E5 [E6 [E7 E8]]]]]]].
  rewrite E1, E2, E3, E4, E5, E6, E7, E8. cbn [fst snd].
  apply fold_left_seq_nth_gen. intros acc i Kst Hi.
  destruct acc as [LR| | | |]; try reflexivity. cbn [bind]. rewrite Hi. reflexivity.
Qed.

Lemma fop_dense_src_is_model : forall (S : classification) (o : fop) (from to : nat) (Hfrom Hto : mat K),
  fop_dense_src fb K NO eps S o from to Hfrom Hto = fop_dense fb K NO eps S o from to Hfrom Hto.
Proof.
  intros S o from to Hfrom Hto. unfold fop_dense_src, fop_dense.
  destruct (getFockStates S to) as [toStates| | | |]; try reflexivity. cbn [bind].
  destruct (getFockStates S from) as [fromStates| | | |]; try reflexivity. cbn [bind].
  rewrite fop_fill_src_is_model. destruct gen_fop_product_is_model as [E _]. rewrite E. reflexivity.
Qed.

(** complex build: one sparseView; real build: sparseView, then prune with the same reference *)
Lemma fop_compute_src_complex_is_model : forall (ofdec : Z -> Z -> K) (S : classification) (o : fop) (from to : nat) (Hfrom Hto : mat K) (prec : K),
  fop_compute_src fb K NO eps true ofdec S o from to Hfrom Hto prec =
  fop_compute fb K NO eps S o from to Hfrom Hto (ofdec 1%Z (-8)%Z) prec.
Proof.
  intros. unfold fop_compute_src, fop_compute. rewrite fop_dense_src_is_model. reflexivity.
Qed.

Lemma fop_compute_src_real_is_model : forall (ofdec : Z -> Z -> K) (S : classification) (o : fop) (from to : nat) (Hfrom Hto : mat K) (prec : K),
  fop_compute_src fb K NO eps false ofdec S o from to Hfrom Hto prec =
  bind (fop_compute fb K NO eps S o from to Hfrom Hto (ofdec 1%Z (-8)%Z) prec)
       (fun m => Done (prune K NO (ofdec 1%Z (-8)%Z) prec m)).
Proof.
  intros. unfold fop_compute_src, fop_compute. rewrite fop_dense_src_is_model.
  destruct (fop_dense fb K NO eps S o from to Hfrom Hto); reflexivity.
Qed.

Lemma container_copy_src_is_model : forall (ncols : nat -> nat) (cdag_bimap : list (nat * nat)) (cdag_parts : list ((nat * nat) * mat K))
    (c_parts : list (nat * nat)),
  container_copy_src K NO ncols cdag_bimap cdag_parts c_parts = container_copy K NO ncols cdag_bimap cdag_parts c_parts.
Proof. reflexivity. Qed.

End Agreement.

Lemma fo_computed_parts_src_is_all : forall nparts : nat, fo_computed_parts_src nparts = seq 0 nparts.
Proof.
  intros nparts. unfold fo_computed_parts_src. destruct (gen_fo_compute_is_model nparts 0) as [E _]. rewrite E.
  rewrite <- (map_id (seq 0 nparts)) at 2. apply map_ext. intro i. apply (gen_fo_compute_is_model nparts i).
Qed.

(** ** histories *)
Lemma visit_map_all_from : forall {A} (f : A -> A) (visits : list nat) (l : list A) (s : nat),
  (forall k, s <= k < s + length l -> existsb (Nat.eqb k) visits = true) ->
  map (fun kp => if existsb (Nat.eqb (fst kp)) visits then f (snd kp) else snd kp) (combine (seq s (length l)) l) = map f l.
Proof.
  intros A f visits l. induction l as [|x l IH]; intros s Hv; [reflexivity|].
  cbn [length seq combine map fst snd]. rewrite (Hv s) by (cbn [length]; lia). f_equal.
  apply IH. intros k Hk. apply Hv. cbn [length]. lia.
Qed.

Lemma visit_map_all : forall {A} (f : A -> A) (l : list A), visit_map (seq 0 (length l)) f l = map f l.
Proof. intros A f l. unfold visit_map. apply visit_map_all_from. intros k Hk. apply existsb_eqb_seq. lia. Qed.

Section HistoryAgreement.
Variable V : Type.
Variable single_cx : nat -> V.
Variable adjoint : V -> V.
Variable transpose : V -> V.

Lemma prepare_all_src_is_model : forall (n : nat) (s : list nat) (c : container V),
  prepare_all_src V n s c = Some (prepare_all V n s c).
Proof.
  intros n s c. unfold prepare_all_src, prepare_all.
  destruct (gen_foc_prepare_all_is_model n) as [E1 [_ [E3 E4]]]. rewrite E3, E4.
  assert (Ee : effective_src n s = effective n s) by (unfold effective_src, effective; rewrite E1; reflexivity).
  rewrite Ee. destruct (gen_foc_prepare_all_is_model (length (effective n s))) as [_ [E2 _]]. rewrite E2.
  rewrite map_nth_seq_id. reflexivity.
Qed.

Lemma compute_entry_src_is_model : forall (i : nat) (e : entry V),
  compute_entry_src V single_cx adjoint transpose i e = compute_entry V single_cx adjoint i e.
Proof. reflexivity. Qed.

Lemma compute_all_src_is_model : forall c : container V,
  compute_all_src V single_cx adjoint transpose c = Some (compute_all V single_cx adjoint c).
Proof.
  intro c. unfold compute_all_src, compute_all.
  destruct (gen_foc_compute_all_is_model (length c)) as [E1 [E2 [E3 _]]]. rewrite E3, E1. cbn [run_pre]. rewrite E2.
  rewrite visit_map_all. reflexivity.
Qed.

Lemma run_from_src_is_model : forall (n : nat) (h : list step) (c : container V),
  run_from_src V single_cx adjoint transpose n h c = Some (run_from V single_cx adjoint n h c).
Proof.
  intros n h. induction h as [|st h IH]; intro c; [reflexivity|].
  unfold run_from_src, run_from in *. cbn [fold_left].
  assert (E : do_step_src V single_cx adjoint transpose n st c = Some (do_step V single_cx adjoint n st c)).
  { destruct st as [s|]; [apply prepare_all_src_is_model|apply compute_all_src_is_model]. }
  rewrite E. apply IH.
Qed.

Lemma run_src_is_model : forall (n : nat) (h : list step),
  run_src V single_cx adjoint transpose n h = Some (run V single_cx adjoint n h).
Proof. intros n h. apply run_from_src_is_model. Qed.

(** * Layer 3: the container theorems about the generated prepareAll / computeAll *)
Theorem container_history_complete_src : forall (n : nat) (h : list step) (i : nat),
  requested n h i ->
  exists c, run_src V single_cx adjoint transpose n (h ++ [ComputeAll]) = Some c /\
            get V i c = Some (mkEntry (Some (single_cx i)) (Some (adjoint (single_cx i)))).
Proof.
  intros n h i Hreq. exists (run V single_cx adjoint n (h ++ [ComputeAll])). split; [apply run_src_is_model|].
  exact (history_complete V single_cx adjoint n h i Hreq).
Qed.

Theorem container_history_nothing_else_src : forall (n : nat) (h : list step) (i : nat),
  ~ requested n h i ->
  exists c, run_src V single_cx adjoint transpose n h = Some c /\ get V i c = None.
Proof.
  intros n h i Hreq. exists (run V single_cx adjoint n h). split; [apply run_src_is_model|].
  exact (history_nothing_else V single_cx adjoint n h i Hreq).
Qed.

End HistoryAgreement.

(** not vacuous: what the early return "first annihilation operator Computed => return" does to the same kind of history
    (the interpreter of PV.FieldOpGen run on that description instead of the generated one) *)
Example early_return_description_breaks :
  let c2 := prepare_all nat 4 [2; 3] (compute_all nat (fun i => 10 + i) (fun v => 100 + v) (prepare_all nat 4 [0; 1] [])) in
  run_pre nat [PreReturnIfFirstAnnihilatorComputed] c2 (compute_all nat (fun i => 10 + i) (fun v => 100 + v)) = Some c2 /\
  get nat 2 c2 = Some (mkEntry None None).
Proof. split; reflexivity. Qed.

(** * Layer 3: FieldOperatorPart::compute *)
Section Transport.
Variable fb : bool.
Variable K : Type.
Variable NO : numops K.
Variable eps : K.
Notation ltb := (nre_ltb K NO).
Notation kabs := (nabs K NO).
Notation kmul := (nmul K NO).
Notation "0" := (n0 K NO).
Notation "1" := (n1 K NO).

(** the two generated loops never leave their arrays on a pair of blocks the operator respects, and fill column k of LeftMat /
    row k of RightMat with conj(U_to(l_k, n)) and sign_k * U_from(k, m) *)
Theorem rotation_two_loops_src :
  ltb (kabs 1) eps = false ->
  ltb (kabs (nopp K NO 1)) eps = false ->
  ltb eps (kabs 1) = true ->
  ltb eps (kabs (nopp K NO 1)) = true ->
  forall (S : classification) (o : fop) (from to : nat) (fromStates toStates : list nat) (Hfrom Hto : mat K),
  wf_class S -> mono_in_range (sc_M S) (fop_mono o) ->
  nth_error (sc_states S) from = Some fromStates -> nth_error (sc_states S) to = Some toStates ->
  square K (length fromStates) Hfrom -> square K (length toStates) Hto ->
  (forall Kst L sg, In Kst fromStates -> tgt_of K NO (sc_M S) o Kst = Some (L, sg) -> In L toStates) ->
  exists Lc Rr,
    fop_fill_src fb K NO eps S o Hfrom Hto (length toStates) (length fromStates) fromStates = Done (Lc, Rr) /\
    length Lc = length fromStates /\ length Rr = length fromStates /\
    forall k Kst, nth_error fromStates k = Some Kst ->
      match tgt_of K NO (sc_M S) o Kst with
      | Some (L, sg) => exists l, nth_error toStates l = Some L /\
                          nth k Lc nil = left_column K NO Hto (length toStates) l /\
                          nth k Rr nil = right_row K NO Hfrom (length fromStates) k sg
      | None => nth k Lc nil = repeat 0 (length toStates) /\
                nth k Rr nil = repeat 0 (length fromStates)
      end.
Proof.
  intros H1 H2 H3 H4 S o from to fromStates toStates Hfrom Hto. rewrite fop_fill_src_is_model.
  exact (fop_fill_char fb K NO eps H1 H2 H3 H4 S o from to fromStates toStates Hfrom Hto).
Qed.

(** what sparseView / prune remove, for ANY sequence of such steps with the reference MatrixElementTolerance:
    a cell of the stored matrix is the computed value, or 0 and then the computed value was not larger than the reference *)
Theorem pruning_bound_src :
  (forall a b c, ltb b a = false -> ltb c b = false -> ltb c a = false) ->
  forall (steps : list fop_sparsify) (tol prec : K) (m r : mat K) i j,
  ltb (kabs tol) (kmul (kabs tol) prec) = false ->
  run_sparsify K NO steps tol prec m = Done r ->
  mget K NO r i j = mget K NO m i j \/
  (mget K NO r i j = 0 /\ ltb (kabs tol) (kabs (mget K NO m i j)) = false).
Proof.
  intros Htrans steps tol prec. induction steps as [|s steps IH]; intros m r i j Hprec Hrun.
  - cbn [run_sparsify] in Hrun. injection Hrun as <-. left; reflexivity.
  - cbn [run_sparsify] in Hrun. destruct (step_reference K s tol) as [reference|] eqn:Es; [|discriminate].
    assert (reference = tol) by (destruct s as [[|]|[|]]; cbn [step_reference] in Es; congruence). subst reference.
    destruct (IH _ r i j Hprec Hrun) as [E|[E0 Esmall]].
    + rewrite E. destruct (pruning_bound K NO Htrans tol prec m i j Hprec) as [E1|[E1 [_ E2]]].
      * left; exact E1.
      * right. split; assumption.
    + destruct (pruning_bound K NO Htrans tol prec m i j Hprec) as [E1|[E1 [_ E2]]].
      * right. split; [exact E0|]. rewrite <- E1. exact Esmall.
      * right. split; assumption.
Qed.

(** the stored matrix of either build is obtained from the dense product by the generated steps, which all succeed *)
Theorem fop_compute_src_steps : forall (cb : bool) (ofdec : Z -> Z -> K) (S : classification) (o : fop) (from to : nat) (Hfrom Hto : mat K) (prec : K) (d : mat K),
  fop_dense_src fb K NO eps S o from to Hfrom Hto = Done d ->
  exists r, fop_compute_src fb K NO eps cb ofdec S o from to Hfrom Hto prec = Done r /\
            run_sparsify K NO (if cb then gen_fop_sparsify else gen_fop_sparsify_real) (ofdec 1%Z (-8)%Z) prec d = Done r.
Proof.
  intros cb ofdec S o from to Hfrom Hto prec d Hd. unfold fop_compute_src. rewrite Hd. cbn [bind].
  destruct gen_fop_product_is_model as [_ [E1 [E2 _]]].
  destruct cb; [rewrite E1|rewrite E2]; cbn [run_sparsify step_reference]; eexists; split; reflexivity.
Qed.

Theorem container_copy_is_adjoint_src : forall (ncols : nat -> nat) (l r : nat) (m : mat K),
  container_copy_src K NO ncols [(l, r)] [((l, r), m)] [(r, l)] = Done [((r, l), Some (adjoint K NO (ncols r) m))].
Proof. intros. rewrite container_copy_src_is_model. apply container_copy_is_adjoint. Qed.

End Transport.

(** FieldOperator::compute calls compute() of every part *)
Theorem field_operator_computes_every_part : forall nparts p : nat, p < nparts -> In p (fo_computed_parts_src nparts).
Proof. intros nparts p H. rewrite fo_computed_parts_src_is_all. apply in_seq. lia. Qed.

(** the hypotheses are satisfiable / the definitions run: the example of HPartProofs through the generated loops *)
Example ex_fop_fill_src :
  fop_fill_src false BinNums.Z Zops 1%Z ex_S (FCdag 0) [[2; 3]; [5; 7]]%Z [[1]]%Z 1 2 [1; 2] =
  fop_fill false BinNums.Z Zops 1%Z ex_S (FCdag 0) [[2; 3]; [5; 7]]%Z [[1]]%Z 1 2 [1; 2].
Proof. vm_compute. reflexivity. Qed.

(** the agreements of layer 2 in one statement *)
Theorem source_field_operators_are_model :
  forall (fb : bool) (K : Type) (NO : numops K) (eps : K) (S : classification) (o : fop) (from to : nat) (Hfrom Hto : mat K),
  (forall nt fromStates, fop_fill_src fb K NO eps S o Hfrom Hto nt (length fromStates) fromStates =
                         fop_fill fb K NO eps S o Hfrom Hto nt (length fromStates) fromStates) /\
  fop_dense_src fb K NO eps S o from to Hfrom Hto = fop_dense fb K NO eps S o from to Hfrom Hto /\
  (forall ofdec prec, fop_compute_src fb K NO eps true ofdec S o from to Hfrom Hto prec =
                      fop_compute fb K NO eps S o from to Hfrom Hto (ofdec 1%Z (-8)%Z) prec) /\
  (forall ofdec prec, fop_compute_src fb K NO eps false ofdec S o from to Hfrom Hto prec =
                      bind (fop_compute fb K NO eps S o from to Hfrom Hto (ofdec 1%Z (-8)%Z) prec)
                           (fun m => Done (prune K NO (ofdec 1%Z (-8)%Z) prec m))) /\
  (forall ncols cdag_bimap cdag_parts c_parts,
     container_copy_src K NO ncols cdag_bimap cdag_parts c_parts = container_copy K NO ncols cdag_bimap cdag_parts c_parts).
Proof.
  intros. split; [intros; apply fop_fill_src_is_model|]. split; [apply fop_dense_src_is_model|].
  split; [intros; apply fop_compute_src_complex_is_model|]. split; [intros; apply fop_compute_src_real_is_model|].
  intros; apply container_copy_src_is_model.
Qed.

Theorem source_container_is_model :
  forall (V : Type) (single_cx : nat -> V) (adjoint transpose : V -> V) (n : nat) (h : list step),
  run_src V single_cx adjoint transpose n h = Some (run V single_cx adjoint n h).
Proof. exact run_src_is_model. Qed.
