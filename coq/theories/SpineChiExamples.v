(** Non-vacuity of the two-particle spine: chi_{0110} = <c_up c_dn ; c^+_dn c^+_up> of the Hubbard atom (PV.SpineExamples:
    E = (0, -1, -1, 1), U = 1, beta = 1; one block) at the triple (z1, z2, z3) = (1/2, 7/2, 1/2) on exact rationals.
    z1 = z3, i.e. z1 + (-z3) = 0: that bosonic combination is RESONANT for every pair of states with equal energies (the Kronecker
    branch beta * w of the kernel phi is taken, in the code by ResonantTerm::operator() and in the specification by EDSpec.phi);
    the other pair sums are 3 and 4, away from every level difference, and every fermionic denominator is a half-integer.
    Number type: rationals with the discrete absolute value (SpineBridgeExamples.QcD) -- every tolerance test of the code is then
    an exact equality test; tolerances 1/2 (comparators, resonance), 0 (coefficient guards, negligibility).
    Every hypothesis of [SpineChiMain.spine_chi_one_block_rotated] is discharged (the two data hypotheses [cmp_exact] and
    [chi_regular6] by their boolean checkers); value 64/459. *)
Require Import Bool List Arith ZArith Lia QArith Qcanon Qcabs Ring_theory Field_theory.
From PV Require Import Outcome Fock Poly EDSpec HPart HPartProofs Spine SpineExamples SpineBridgeExamples ChiSymmetryExamples
     Chi ChiProofs ChiLehmann SpineChi SpineChiPart SpineChiOneBlock SpineChiTermLists SpineChiMain.
From PVgen Require Import Gen_Multiterm.
Import ListNotations.
Local Open Scope Qc_scope.

Definition TLD : Chi.tols Qc :=
  {| t_cmp_nr := eps_half; t_neg_nr := 0; t_cmp_r := eps_half; t_neg_r := 0; t_reduce := eps_half; t_coeff := 0 |}.
Definition kD : Qc -> bool := Spine.keep Qc QcD 1 eps_half.

(** the number type *)
Lemma QcD_field : field_theory (n0 Qc QcD) (n1 Qc QcD) (nadd Qc QcD) (nmul Qc QcD) (nsub Qc QcD) (nopp Qc QcD) (ndiv Qc QcD)
                               (ChiLehmann.kinv Qc QcD) eq.
Proof.
  constructor.
  - exact Qcrt.
  - exact (F_1_neq_0 Qcft).
  - intros p q. unfold ChiLehmann.kinv. cbn [ndiv nmul n1 QcD]. unfold Qcdiv. ring.
  - intros p Hp. unfold ChiLehmann.kinv. cbn [ndiv nmul n1 QcD]. unfold Qcdiv. rewrite Qcmult_1_l. rewrite Qcmult_comm. apply Qcmult_inv_r. exact Hp.
Qed.

Lemma Qc_eq_bool_spec : forall p q : Qc, Qc_eq_bool p q = true <-> p = q.
Proof.
  intros p q. split; [apply Qc_eq_bool_correct|]. intros ->. unfold Qc_eq_bool. destruct (Qc_eq_dec q q); [reflexivity|congruence].
Qed.

Lemma qdabs_01 x : qdabs x = 0 \/ qdabs x = 1.
Proof. unfold qdabs. destruct (Qc_eq_bool x 0); [left|right]; reflexivity. Qed.
Lemma qdabs_pos_zero x : qltb 0 (qdabs x) = false -> x = 0.
Proof.
  unfold qdabs. destruct (Qc_eq_bool x 0) eqn:E; [intros _; apply Qc_eq_bool_correct; exact E|].
  intros H. vm_compute in H. discriminate H.
Qed.
Lemma kD_exact : forall x, kD x = false -> x = n0 Qc QcD.
Proof. exact keepD. Qed.
Lemma TLD_guards : forall x, abs_gt Qc QcD x (t_coeff Qc TLD) = false -> x = n0 Qc QcD.
Proof. intros x. unfold abs_gt. cbn [t_coeff TLD nre_ltb nabs QcD]. apply qdabs_pos_zero. Qed.
Lemma QcD_nz : forall x, nre_ltb Qc QcD (n0 Qc QcD) (nabs Qc QcD x) = false -> x = n0 Qc QcD.
Proof. intros x. cbn [nre_ltb nabs n0 QcD]. apply qdabs_pos_zero. Qed.
Lemma TLD_negl : forall x d, abs_lt Qc QcD x (ndiv Qc QcD 0 (nofZ Qc QcD (Z.of_nat d))) = true -> x = n0 Qc QcD.
Proof.
  intros x d. unfold abs_lt. cbn [nre_ltb nabs ndiv QcD]. replace (0 / nofZ Qc QcD (Z.of_nat d)) with 0 by (unfold Qcdiv; ring).
  intros H. exfalso. destruct (qdabs_01 x) as [E|E]; rewrite E in H; vm_compute in H; discriminate H.
Qed.

Lemma qofZ_add : forall a b : Z, nofZ Qc QcD (a + b)%Z = nadd Qc QcD (nofZ Qc QcD a) (nofZ Qc QcD b).
Proof.
  intros a b. cbn [nofZ nadd QcD]. unfold Qcplus. apply Q2Qc_eq_iff. cbn [this Q2Qc]. rewrite !Qred_correct, inject_Z_plus. reflexivity.
Qed.
Lemma qofZ_pos : forall z : Z, (0 < z)%Z -> nofZ Qc QcD z <> n0 Qc QcD.
Proof.
  intros z Hz H. cbn [nofZ n0 QcD] in H. change 0 with (Q2Qc (inject_Z 0)) in H. apply Q2Qc_eq_iff in H. apply (proj1 (inject_Z_injective z 0%Z)) in H. lia.
Qed.

(** the run: weights from Thermal.dm_compute, rotated Jordan-Wigner matrices, TwoParticleGF prepare / compute / on-demand value *)
Definition hub_chi_run := spine_chi_one_block_run Qc QcD kD 0 TLD 2 hub_E hub_U 1 0 1 1 0.
Definition chi_z1 : Qc := 1 / (1 + 1).
Definition chi_z2 : Qc := Q2Qc (7 # 2).
Definition chi_z3 : Qc := chi_z1.

(** (the kernel's conversion test must not be left to decide which side of "hub_chi_run = run ..." to unfold: rewrite instead) *)
Lemma hub_chi_run_eq : hub_chi_run = spine_chi_one_block_run Qc QcD kD 0 TLD 2 hub_E hub_U 1 0 1 1 0.
Proof. reflexivity. Qed.

Example hub_chi_spine :
  exists s, hub_chi_run = Done s /\
    gf_value Qc QcD TLD s chi_z1 chi_z2 chi_z3 =
    Done (chi Qc QcD 1 eps_half hub_E (weights Qc QcD 1 hub_E)
            (rotate Qc QcD 4 hub_U (op_matrix Qc QcD 2 (cann 0))) (rotate Qc QcD 4 hub_U (op_matrix Qc QcD 2 (cann 1)))
            (rotate Qc QcD 4 hub_U (op_matrix Qc QcD 2 (cdag 1))) (rotate Qc QcD 4 hub_U (op_matrix Qc QcD 2 (cdag 0)))
            chi_z1 chi_z2 chi_z3).
Proof.
  destruct hub_chi_run as [s| | | |] eqn:E; try (vm_compute in E; discriminate E).
  exists s. split; [reflexivity|]. rewrite hub_chi_run_eq in E.
  apply (spine_chi_one_block_rotated Qc QcD QcD_field kD kD_exact TLD TLD_guards QcD_nz TLD_negl TLD_negl eq_refl eq_refl qofZ_add qofZ_pos
           0%nat 2%nat hub_E hub_U 1 0%nat 1%nat 1%nat 0%nat eq_refl).
  - apply (cmp_exact_b_sound Qc QcD Qc_eq_bool Qc_eq_bool_spec). vm_compute. reflexivity.
  - apply (cmp_exact_b_sound Qc QcD Qc_eq_bool Qc_eq_bool_spec). vm_compute. reflexivity.
  - apply (chi_regular6_b_sound Qc QcD Qc_eq_bool Qc_eq_bool_spec). vm_compute. reflexivity.
  - exact E.
Qed.

(** the value, and where the resonance shows: z1 - z3 = 0; some part stores a ResonantTerm with a non-zero resonant coefficient
    for which the Kronecker test of ResonantTerm::operator() fires at the permuted frequencies *)
Definition hub_chi_value : Qc :=
  match hub_chi_run with Done s => match gf_value Qc QcD TLD s chi_z1 chi_z2 chi_z3 with Done v => v | _ => 0 end | _ => 0 end.
Definition resonant_term_fires (pq : part_in Qc * part_st Qc) : bool :=
  existsb (fun t => negb (Qc_eq_bool (r_res Qc t) 0) &&
     res_is_resonant Qc Qcplus Qcminus Qcmult Qcdiv Qcopp (abs_gt Qc QcD) (abs_lt Qc QcD) (real_ge Qc QcD) eps_half
        (r_p0 Qc t) (r_p1 Qc t) (r_p2 Qc t) (r_isz1z2 Qc t)
        (permuted Qc QcD (p_perm Qc (fst pq)) chi_z1 chi_z2 chi_z3 0) (permuted Qc QcD (p_perm Qc (fst pq)) chi_z1 chi_z2 chi_z3 1)
        (permuted Qc QcD (p_perm Qc (fst pq)) chi_z1 chi_z2 chi_z3 2)) (ps_r Qc (snd pq)).
Example hub_chi_value_resonant :
  hub_chi_value = Q2Qc (64 # 459) /\ hub_chi_value <> 0 /\ chi_z1 - chi_z3 = 0 /\
  match hub_chi_run with
  | Done s => length (g_parts Qc s) = 6%nat /\ existsb resonant_term_fires (g_parts Qc s) = true
  | _ => False
  end.
Proof.
  assert (E : hub_chi_value = Q2Qc (64 # 459)) by (apply Qc_is_canon; vm_compute; reflexivity).
  split; [exact E|]. split; [rewrite E; intros H; apply (f_equal this) in H; vm_compute in H; discriminate H|].
  split; [apply Qc_is_canon; vm_compute; reflexivity|].
  destruct hub_chi_spine as [s [Es _]]. rewrite Es.
  assert (E1 : match hub_chi_run with Done s => length (g_parts Qc s) | _ => 0%nat end = 6%nat) by (vm_compute; reflexivity).
  assert (E2 : match hub_chi_run with Done s => existsb resonant_term_fires (g_parts Qc s) | _ => false end = true) by (vm_compute; reflexivity).
  rewrite Es in E1, E2. split; assumption.
Qed.

(** the same value through the general pipeline SpineChi.spine_chi on the one-block partition (operators from Spine.op_compute,
    i.e. the models of FieldOperator::prepare / FieldOperatorPart::compute): [spine_chi_one_block_is_run] applies, the four
    operators do not vanish (evaluated) *)
From PV Require Import SpineOneBlock SpineChiOpCompute.
Definition hub_chi_run_general := spine_chi Qc QcD kD true eps_half 0 TLD (one_block 2) ((hub_E, hub_U) :: nil) 1 0 1 1 0.
Example hub_chi_general_is_run : hub_chi_run_general = hub_chi_run.
Proof.
  unfold hub_chi_run_general. rewrite hub_chi_run_eq.
  apply (spine_chi_one_block_is_run Qc QcD QcS_ring eq_refl true eps_half eq_refl eq_refl eq_refl eq_refl 2%nat hub_E hub_U eq_refl hub_U_square
           kD 0%nat TLD 1 0%nat 1%nat 1%nat 0%nat); try lia; vm_compute; discriminate.
Qed.

From PV Require Import SpineLinAlg SpineChiChain.
(** [chain_part_emitted] instantiated: the four "blocks" are the whole space (sizes 4, 4, 4, 4), ordering (c_up, c_dn, c^+_dn, c^+_up) *)
Definition hub_w : list Qc := weights Qc QcD 1 hub_E.
Definition hub_X (o : op) : mat Qc := rotate Qc QcD 4 hub_U (op_matrix Qc QcD 2 o).
Definition hub_chain_sum : Qc :=
  chain_sum Qc QcD TLD 4 4 4 4 hub_E hub_E hub_E hub_E hub_w hub_w hub_w hub_w 1
            (hub_X (cann 0)) (hub_X (cann 1)) (hub_X (cdag 1)) (hub_X (cdag 0)) chi_z1 chi_z2 (- chi_z3).
Lemma hub_X_shape o : shape Qc 4 4 (hub_X o).
Proof. split; [apply rotate_length|]. intros i Hi. apply rotate_row_length. exact Hi. Qed.
Lemma hub_chain_regular : chain_regular Qc QcD TLD 4 4 4 4 hub_E hub_E hub_E hub_E hub_w hub_w hub_w hub_w chi_z1 chi_z2 (- chi_z3).
Proof.
  exact (chi_regular_b_sound Qc QcD Qc_eq_bool Qc_eq_bool_spec TLD 4 hub_E hub_w chi_z1 chi_z2 (- chi_z3) ltac:(vm_compute; reflexivity)).
Qed.
Example hub_chain_part :
  let p := chain_part Qc QcD kD 4 4 hub_E hub_E hub_E hub_E hub_w hub_w hub_w hub_w 1
            (hub_X (cann 0)) (hub_X (cann 1)) (hub_X (cdag 1)) (hub_X (cdag 0)) (0, 1, 2)%nat 1%Z (0, 0, 0, 0)%Z in
  ChiLehmann.lsum Qc QcD (spec_visits Qc p) (fun v => emitted_value Qc QcD TLD chi_z1 chi_z2 (- chi_z3) (visit_emissions Qc QcD TLD p v)) =
  signK Qc QcD 1 * hub_chain_sum /\ hub_chain_sum = Q2Qc (-44 # 459) /\ hub_chain_sum <> 0.
Proof.
  cbv zeta. split; [|split].
  - exact (chain_part_emitted Qc QcD QcD_field kD kD_exact TLD TLD_guards 4 4 4 4 hub_E hub_E hub_E hub_E hub_w hub_w hub_w hub_w 1
             (hub_X (cann 0)) (hub_X (cann 1)) (hub_X (cdag 1)) (hub_X (cdag 0)) (hub_X_shape _) (hub_X_shape _) (hub_X_shape _) (hub_X_shape _) (0, 1, 2)%nat 1%Z (0, 0, 0, 0)%Z chi_z1 chi_z2 (- chi_z3)
             hub_chain_regular).
  - apply Qc_is_canon. vm_compute. reflexivity.
  - intros H. apply (f_equal this) in H. vm_compute in H. discriminate H.
Qed.
