(** Item (5) of the Stage-5 list in props/Properties_Spine.v: the Jordan-Wigner fact that c_i and c^+_i with i < M have an image on
    some basis state, i.e. [SpineOneBlock.first_tgt] over all 2^M labels is not [None].
      c^+_i : the vacuum (label 0, every mode empty) is mapped to the state with mode i occupied;
      c_i   : the label 2^i (only mode i occupied) is mapped to the vacuum.
    This removes the last hypothesis of SpineChiOpCompute.spine_chi_one_block_op_compute ([spine_chi_one_block_general]). *)
Require Import Bool List Arith ZArith Lia Ring_theory Field_theory.
From PV Require Import Outcome Fock Poly EDSpec HPart HPartSpec HPartProofs Spine SpineOneBlock Chi ChiLehmann SpineChi SpineChiPart
     SpineChiOneBlock SpineChiTermLists SpineChiMain SpineChiOpCompute.
Import ListNotations.

(** * bit strings of 0 and of 2^i *)
Lemma state_of_nat_length' M n : length (state_of_nat M n) = M.
Proof. revert n. induction M as [|M IH]; intros n; [reflexivity|]. cbn [state_of_nat length]. rewrite IH. reflexivity. Qed.

Lemma state_of_nat_zero M i : nth i (state_of_nat M 0) false = false.
Proof.
  revert i. induction M as [|M IH]; intros i; [destruct i; reflexivity|].
  cbn [state_of_nat]. change (Nat.div2 0) with 0. change (Nat.odd 0) with false. destruct i as [|i]; [reflexivity|]. cbn [nth]. apply IH.
Qed.

Lemma state_of_nat_pow2 : forall i M, i < M -> nth i (state_of_nat M (Nat.pow 2 i)) false = true.
Proof.
  induction i as [|i IH]; intros M Hi; (destruct M as [|M]; [lia|]); cbn [state_of_nat].
  - reflexivity.
  - cbn [nth]. replace (Nat.pow 2 (S i)) with (2 * Nat.pow 2 i) by (cbn [Nat.pow]; lia).
    rewrite Nat.div2_double. apply IH. lia.
Qed.

Section JW.
Variable K : Type.
Variable NO : numops K.

(** c^+_i on the vacuum *)
Lemma tgt_cdag_vacuum M i : i < M -> tgt_of K NO M (FCdag i) 0 <> None.
Proof.
  intros Hi. unfold tgt_of. cbn [fop_mono act_mono]. unfold act_op. cbn [op_idx op_ann cdag fst snd negb].
  rewrite state_of_nat_length'. destruct (Nat.ltb_spec i M) as [_|H]; [|lia].
  rewrite state_of_nat_zero. cbn [eqb]. discriminate.
Qed.

(** c_i on the state with only mode i occupied *)
Lemma tgt_c_single M i : i < M -> tgt_of K NO M (FC i) (Nat.pow 2 i) <> None.
Proof.
  intros Hi. unfold tgt_of. cbn [fop_mono act_mono]. unfold act_op. cbn [op_idx op_ann cann fst snd negb].
  rewrite state_of_nat_length'. destruct (Nat.ltb_spec i M) as [_|H]; [|lia].
  rewrite (state_of_nat_pow2 i M Hi). cbn [eqb]. discriminate.
Qed.

Theorem first_tgt_cdag M i : i < M -> first_tgt K NO M (FCdag i) (seq 0 (Nat.pow 2 M)) <> None.
Proof.
  intros Hi E. apply (tgt_cdag_vacuum M i Hi). apply (first_tgt_none K NO M (FCdag i) _ E).
  apply in_seq. pose proof (Nat.pow_nonzero 2 M ltac:(lia)). lia.
Qed.

Theorem first_tgt_c M i : i < M -> first_tgt K NO M (FC i) (seq 0 (Nat.pow 2 M)) <> None.
Proof.
  intros Hi E. apply (tgt_c_single M i Hi). apply (first_tgt_none K NO M (FC i) _ E).
  apply in_seq. pose proof (Nat.pow_lt_mono_r 2 i M ltac:(lia) Hi). lia.
Qed.

End JW.

(** the one-block theorem for the GENERAL pipeline SpineChi.spine_chi with no hypothesis on the operators left *)
Theorem spine_chi_one_block_general (K : Type) (NO : numops K)
  (Kf : field_theory (n0 K NO) (n1 K NO) (nadd K NO) (nmul K NO) (nsub K NO) (nopp K NO) (ndiv K NO) (ChiLehmann.kinv K NO) (@eq K))
  (conj0 : nconj K NO (n0 K NO) = n0 K NO)
  (fb : bool) (eps : K)
  (one_not_small : nre_ltb K NO (nabs K NO (n1 K NO)) eps = false)
  (mone_not_small : nre_ltb K NO (nabs K NO (nopp K NO (n1 K NO))) eps = false)
  (one_large : nre_ltb K NO eps (nabs K NO (n1 K NO)) = true)
  (mone_large : nre_ltb K NO eps (nabs K NO (nopp K NO (n1 K NO))) = true)
  (keepf : K -> bool) (Hkeep : forall x, keepf x = false -> x = n0 K NO)
  (tl : Chi.tols K)
  (guards_exact : forall x, abs_gt K NO x (t_coeff K tl) = false -> x = n0 K NO)
  (nz_exact : forall x, nre_ltb K NO (n0 K NO) (nabs K NO x) = false -> x = n0 K NO)
  (negl_exact_nr : forall x d, abs_lt K NO x (ndiv K NO (t_neg_nr K tl) (nofZ K NO (Z.of_nat d))) = true -> x = n0 K NO)
  (negl_exact_r : forall x d, abs_lt K NO x (ndiv K NO (t_neg_r K tl) (nofZ K NO (Z.of_nat d))) = true -> x = n0 K NO)
  (ofZ_1 : nofZ K NO (Zpos xH) = n1 K NO) (ofZ_m1 : nofZ K NO (Zneg xH) = nopp K NO (n1 K NO))
  (ofZ_add : forall a b : Z, nofZ K NO (a + b)%Z = nadd K NO (nofZ K NO a) (nofZ K NO b))
  (ofZ_pos : forall z : Z, (0 < z)%Z -> nofZ K NO z <> n0 K NO)
  (g M : nat) (E : list K) (U : mat K) (beta : K) (i j k l : nat) :
  length E = Nat.pow 2 M -> square K (Nat.pow 2 M) U ->
  i < M -> j < M -> k < M -> l < M ->
  cmp_exact K NO (t_cmp_nr K tl) (pole_list K NO (Nat.pow 2 M) E) ->
  cmp_exact K NO (t_cmp_r K tl) (pole_list K NO (Nat.pow 2 M) E) ->
  forall (z1 z2 z3 : K) (s : gf_st K),
  chi_regular6 K NO tl (Nat.pow 2 M) E (weights K NO beta E) z1 z2 z3 ->
  spine_chi K NO keepf fb eps g tl (one_block M) [(E, U)] beta i j k l = Done s ->
  Chi.gf_value K NO tl s z1 z2 z3 =
  Done (chi K NO beta (t_reduce K tl) E (weights K NO beta E)
          (rotate K NO (Nat.pow 2 M) U (op_matrix K NO M (cann i))) (rotate K NO (Nat.pow 2 M) U (op_matrix K NO M (cann j)))
          (rotate K NO (Nat.pow 2 M) U (op_matrix K NO M (cdag k))) (rotate K NO (Nat.pow 2 M) U (op_matrix K NO M (cdag l)))
          z1 z2 z3).
Proof.
  intros E_len U_sq Hi Hj Hk Hl.
  exact (spine_chi_one_block_op_compute K NO Kf conj0 fb eps one_not_small mone_not_small one_large mone_large keepf Hkeep tl
           guards_exact nz_exact negl_exact_nr negl_exact_r ofZ_1 ofZ_m1 ofZ_add ofZ_pos g M E U beta i j k l E_len U_sq Hi Hj Hk Hl
           (first_tgt_c K NO M i Hi) (first_tgt_c K NO M j Hj) (first_tgt_cdag K NO M k Hk) (first_tgt_cdag K NO M l Hl)).
Qed.
